"""C04 — string edits equal the byte-sequence model; a terminator always fits."""
import vlib

MARKS = ["CSTR-MOVED", "CSTR-CHANGED-LENGTH", "CSTR-NOT-TERMINATED", "CAP<LEN", "NEIGHBOUR-CLOBBERED"]
WS = " \t\n\v\f\r".encode() + "          　".encode("utf-8") + b"\xc2\x85"


def cps(bs):
    return [c.encode("utf-8") for c in bs.decode("utf-8")]


def oracle(case, out):
    cur = b""
    for i, (l, o) in enumerate(zip(case, out)):
        for m in MARKS:
            if m in o:
                return "line %d %s: %s" % (i, l, o[-60:])
        t = l.split(); op = t[1]
        b = lambda s: b"" if s == "-" else bytes.fromhex(s)
        pre = None
        want = None
        if op == "new":
            cur = b(t[4])
        elif op == "copy": cur = b(t[2])
        elif op == "repeat": cur = b(t[3]) * int(t[2])
        elif op == "slice": cur = cur[int(t[2]):int(t[3])]
        elif op == "slicefrom": cur = b(t[2])[int(t[3]):int(t[4])]
        elif op == "append": cur = cur + b(t[2])
        elif op == "insert": p = int(t[2]); cur = cur[:p] + b(t[3]) + cur[p:]
        elif op == "replace":
            nd, rp, st = b(t[2]), b(t[3]), int(t[4])
            p = cur.find(nd, st)
            pre = "nf" if p < 0 else str(p)
            if p >= 0: cur = cur[:p] + rp + cur[p + len(nd):]
        elif op == "replaceall":
            nd, rp = b(t[2]), b(t[3])
            pre = str(cur.count(nd)); cur = cur.replace(nd, rp)
        elif op == "trim":
            mode, fl, st = t[2], t[3], b(t[4])
            if mode == "a":
                mem = lambda c: c != 0 and c in st
                x = list(cur)
                if "l" in fl:
                    while x and mem(x[0]): x.pop(0)
                if "r" in fl:
                    while x and mem(x[-1]): x.pop()
                cur = bytes(x)
            else:
                sset = set(cps(st)); x = cps(cur)
                if "l" in fl:
                    while x and x[0] in sset: x.pop(0)
                if "r" in fl:
                    while x and x[-1] in sset: x.pop()
                cur = b"".join(x)
        elif op == "cpfind":
            sset = set(cps(b(t[3]))); st = int(t[4]); x = cps(cur[st:])
            pos, found = st, None
            for c in x:
                if (c in sset) == (t[2] == "of"): found = pos; break
                pos += len(c)
            w = "nf" if found is None else str(found)
            if o != w:
                return "line %d %s on %s = %s, expected %s" % (i, l, cur.hex(), o, w)
            continue
        elif op == "split":
            s_, sset = b(t[2]), set(cps(b(t[3])))
            parts, curp = [], b""
            for c in cps(s_):
                if c in sset:
                    if curp: parts.append(curp); curp = b""
                else: curp += c
            if curp: parts.append(curp)
            w = "%d %s" % (len(parts), ",".join(p.hex() for p in parts) or "-")
            if o != w:
                return "line %d %s = %s, expected %s" % (i, l[:120], o[:120], w[:120])
            continue
        elif op == "join":
            parts = [] if t[3] == "." else [b(p) for p in t[3].split(",")]
            cur = b(t[2]).join(parts)
        elif op.startswith("b"):
            if op == "bslice": w = b(t[3])[int(t[4]):int(t[5])]; want = "%d %s" % (len(w), vlib.hexs(w))
            elif op == "bslicefrom": w = b(t[3])[int(t[4]):int(t[5])]; want = "%d %s" % (len(w), vlib.hexs(w))
            elif op == "brepeat": w = b(t[4]) * int(t[3]); want = "%d %s" % (len(w), vlib.hexs(w))
            elif op == "bappend": w = b(t[3]) + b(t[4]); want = "%d %s" % (len(w), vlib.hexs(w))
            elif op == "binsert": x = b(t[3]); p = int(t[4]); w = x[:p] + b(t[5]) + x[p:]; want = "%d %s" % (len(w), vlib.hexs(w))
            elif op == "breplacerange": x = b(t[3]); w = x[:int(t[4])] + b(t[6]) + x[int(t[5]):]; want = "%d %s" % (len(w), vlib.hexs(w))
            elif op == "breplace":
                x, nd, rp, st = b(t[3]), b(t[4]), b(t[5]), int(t[6]); p = x.find(nd, st)
                if p < 0: want = "nf"
                else: w = x[:p] + rp + x[p + len(nd):]; want = "%d %d %s" % (p, len(w), vlib.hexs(w))
            elif op == "breplaceall":
                x, nd, rp = b(t[3]), b(t[4]), b(t[5]); w = x.replace(nd, rp); want = "%d %d %s" % (x.count(nd), len(w), vlib.hexs(w))
            elif op == "btrim":
                x = list(b(t[2])); st = b(t[4]); mem = lambda c: c != 0 and c in st
                if "l" in t[3]:
                    while x and mem(x[0]): x.pop(0)
                if "r" in t[3]:
                    while x and mem(x[-1]): x.pop()
                want = "%d %s" % (len(x), vlib.hexs(bytes(x)))
            if want is not None and o != want:
                return "line %d %s = %s, byte-sequence model says %s" % (i, l[:140], o[:100], want[:100])
            continue
        elif op in ("delete", "end"):
            continue
        w = "len=%d %s" % (len(cur), vlib.hexs(cur))
        if pre is not None:
            w = pre + " " + w
        if o != w:
            return "line %d %s: string is %s, byte-sequence model says %s" % (i, l[:120], o[:100], w[:100])
    return None


def rbytes(r, n, alpha=None):
    if alpha:
        return bytes(r.choice(alpha) for _ in range(n))
    return bytes(r.randrange(256) for _ in range(n))


def rutf8(r, n):
    pool = ["a", "b", " ", "\t", "\n", "x", "ä", "ß", "€", " ", " ", "😀", "　", "\x00", "z"]
    return "".join(r.choice(pool) for _ in range(n)).encode("utf-8")


def gen_case(r):
    kind = r.choice(["heap", "arena", "arenaN", "tight", "scope", "stack", "stack0"])
    cap = r.choice([0, 1, 2, 7, 8, 15, 16, 31, 64]) if kind != "stack0" else r.choice([64, 200])
    utf = r.random() < 0.4
    STK = [(8, b"abcdefgh"), (16, b"0123456789abcdef"), (24, b"0123456789abcdefghijklmn"), (8, b"abc"), (7, b"abcdefg"),
           (32, b""), (40, b"0123456789abcdefghijklmnopqrstuvwxyzABCD"), (64, b""), (200, b"")]
    stk = None
    if kind.startswith("stack") and r.random() < 0.6:
        # a real gp_str_on_stack() object of the harness (constant capacities), some filled exactly by their literal
        stk = r.choice(STK); cap = stk[0]
    init = stk[1] if stk else b"" if kind.startswith("stack") else (rutf8(r, r.randrange(0, 6)).replace(b"\x00", b"") if utf else rbytes(r, r.randrange(0, 10), b"ab\x00\xff"))
    init = init.replace(b"\x00", b"")      # gp_str_new takes a C string
    lines = ["str new %s %d %s" % (kind, cap, vlib.hexs(init))]
    cur = init
    limit = cap if kind == "stack0" else 10**9
    hx = vlib.hexs
    alpha = b"ab" if r.random() < 0.5 else b"abc\x00"
    mk = (lambda n: rutf8(r, n)) if utf else (lambda n: rbytes(r, n, alpha) if r.random() < 0.8 else rbytes(r, n))
    for _ in range(r.randrange(1, 30) if r.random() < 0.85 else r.randrange(30, 150)):
        m = r.random()
        if m < 0.12:
            x = mk(r.choice([0, 1, 3, 9, 40]))
            if len(x) <= limit: lines.append("str copy %s" % hx(x)); cur = x
        elif m < 0.2:
            x = mk(r.choice([1, 2, 3])); k = r.choice([0, 1, 2, 5, 17])
            if len(x) * k <= limit: lines.append("str repeat %d %s" % (k, hx(x))); cur = x * k
        elif m < 0.28 and not utf:
            a = r.randrange(len(cur) + 1); e = r.randrange(a, len(cur) + 1)
            lines.append("str slice %d %d" % (a, e)); cur = cur[a:e]
        elif m < 0.33 and not utf:
            x = mk(r.choice([1, 5, 20])); a = r.randrange(len(x) + 1); e = r.randrange(a, len(x) + 1)
            if e - a <= limit: lines.append("str slicefrom %s %d %d" % (hx(x), a, e)); cur = x[a:e]
        elif m < 0.48:
            x = mk(r.choice([0, 1, 2, 7, 30]))
            if len(cur) + len(x) <= limit: lines.append("str append %s" % hx(x)); cur += x
        elif m < 0.58:
            x = mk(r.choice([0, 1, 4, 16])); p = r.choice([0, len(cur), r.randrange(len(cur) + 1)])
            if utf:   # keep the string valid: insert at a code point boundary
                bounds = [0]; 
                for c in cps(cur): bounds.append(bounds[-1] + len(c))
                p = r.choice(bounds)
            if len(cur) + len(x) <= limit: lines.append("str insert %d %s" % (p, hx(x))); cur = cur[:p] + x + cur[p:]
        elif m < 0.7:
            nd = (cur[(a := r.randrange(len(cur))):a + r.randrange(1, 4)] if cur and r.random() < 0.7 else mk(r.randrange(1, 3))) or b"a"
            if utf:
                c = cps(cur); nd = r.choice(c) if c and r.random() < 0.7 else "ä".encode()
            rp = r.choice([b"", nd, nd + nd, nd[:1], mk(r.randrange(0, 5)), b"x" + nd + b"y"])
            if utf: rp = r.choice([b"", nd, nd + nd, "€".encode(), b"q"])
            if r.random() < 0.5:
                st = r.randrange(len(cur) + 1)
                p = cur.find(nd, st)
                new = cur if p < 0 else cur[:p] + rp + cur[p + len(nd):]
                if len(new) <= limit: lines.append("str replace %s %s %d" % (hx(nd), hx(rp), st)); cur = new
            else:
                new = cur.replace(nd, rp)
                if max(len(new), len(cur)) <= limit and len(new) < 5000: lines.append("str replaceall %s %s" % (hx(nd), hx(rp))); cur = new
        elif m < 0.8:
            fl = r.choice(["l", "r", "lr"])
            if utf:
                st = r.choice([WS, "ab ".encode(), "ä€ ".encode(), " x".encode()])
                lines.append("str trim u %s %s" % (fl, hx(st)))
                sset = set(cps(st)); x = cps(cur)
                if "l" in fl:
                    while x and x[0] in sset: x.pop(0)
                if "r" in fl:
                    while x and x[-1] in sset: x.pop()
                cur = b"".join(x)
            else:
                st = r.choice([b" \t\n\v\f\r", b"ab", b"a", b"\xff b"])
                lines.append("str trim a %s %s" % (fl, hx(st)))
                x = list(cur); mem = lambda c: c != 0 and c in st
                if "l" in fl:
                    while x and mem(x[0]): x.pop(0)
                if "r" in fl:
                    while x and mem(x[-1]): x.pop()
                cur = bytes(x)
        elif m < 0.86 and utf:
            st = r.choice([WS, "ab".encode(), "ä€".encode()])
            bounds = [0]
            for c in cps(cur): bounds.append(bounds[-1] + len(c))
            lines.append("str cpfind %s %s %d" % (r.choice(["of", "notof"]), hx(st), r.choice(bounds)))
        elif m < 0.93:
            k = r.choice([0, 1, 2, 5])
            parts = [mk(r.choice([0, 1, 4])) for _ in range(k)]
            sep = r.choice([b"", b",", b", ", "€".encode()])
            new = sep.join(parts)
            if len(new) <= limit:
                lines.append("str join %s %s" % (hx(sep), ",".join(hx(p) for p in parts) if parts else ".")); cur = new
        else:
            x = rutf8(r, r.choice([0, 3, 10, 40]))
            lines.append("str split %s %s" % (hx(x), hx(r.choice([WS, b" ", "ä,".encode(), b"ab"]))))
    lines += ["str delete", "str end"]
    return lines


def gen_bytes_cases(r, n):
    out = []
    hx = vlib.hexs
    for _ in range(n):
        alpha = r.choice([b"ab", b"abc", bytes(range(256))])
        x = rbytes(r, r.randrange(0, 20), alpha)
        m = r.randrange(9)
        if m == 0:
            a = r.randrange(len(x) + 1); e = r.randrange(a, len(x) + 1); out.append(["str bslice %d %s %d %d" % (len(x), hx(x), a, e)])
        elif m == 1:
            a = r.randrange(len(x) + 1); e = r.randrange(a, len(x) + 1); out.append(["str bslicefrom %d %s %d %d" % (e - a, hx(x), a, e)])
        elif m == 2:
            k = r.randrange(0, 6); mm = rbytes(r, r.randrange(1, 4), alpha); out.append(["str brepeat %d %d %s" % (k * len(mm), k, hx(mm))])
        elif m == 3:
            y = rbytes(r, r.randrange(0, 9), alpha); out.append(["str bappend %d %s %s" % (len(x) + len(y), hx(x), hx(y))])
        elif m == 4:
            y = rbytes(r, r.randrange(0, 9), alpha); out.append(["str binsert %d %s %d %s" % (len(x) + len(y), hx(x), r.randrange(len(x) + 1), hx(y))])
        elif m == 5:
            a = r.randrange(len(x) + 1); e = r.randrange(a, len(x) + 1); y = rbytes(r, r.randrange(0, 9), alpha)
            out.append(["str breplacerange %d %s %d %d %s" % (max(len(x), len(x) - (e - a) + len(y)), hx(x), a, e, hx(y))])
        elif m == 6:
            nd = (x[(a := r.randrange(len(x))):a + r.randrange(1, 3)] if x else b"a") or b"a"; y = rbytes(r, r.randrange(0, 5), alpha); st = r.randrange(len(x) + 1)
            p = x.find(nd, st); new = x if p < 0 else x[:p] + y + x[p + len(nd):]
            out.append(["str breplace %d %s %s %s %d" % (max(len(x), len(new)), hx(x), hx(nd), hx(y), st)])
        elif m == 7:
            nd = (x[(a := r.randrange(len(x))):a + r.randrange(1, 3)] if x else b"a") or b"a"; y = r.choice([b"", nd + nd, rbytes(r, r.randrange(0, 4), alpha), b"x" + nd])
            new = x.replace(nd, y)
            out.append(["str breplaceall %d %s %s %s" % (max(len(x), len(new)), hx(x), hx(nd), hx(y))])
        else:
            xx = rbytes(r, r.randrange(0, 12), b"ab \x00\t")
            out.append(["str btrim %s %s %s" % (hx(xx), r.choice(["l", "r", "lr"]), hx(r.choice([b" \t", b"a", b"ab "])))])
    return out


def run(ctx):
    ctx.rules.append("string scripts (copy, repeat, slice, append, insert, replace first/all incl. replacement containing "
                     "the needle, ASCII and UTF-8 trims, code point set searches, join, split up to hundreds of parts) on heap / "
                     "arena last block (in-place growth) / arena with a neighbour / tight arena / scope / stack+allocator / "
                     "stack without allocator, gp_cstr after EVERY op; plus the fixed-buffer gp_bytes_* variants on "
                     "destinations of exactly the result size; non-trivial = at least 3 ops or a non-empty buffer; distinct by text")
    ctx.assumptions += ["arguments are valid (positions within length, non-empty needle, non-overlapping sources, "
                        "valid UTF-8 for code point set operations, sets are C strings)"]
    exe = ctx.build_harness("c04")
    ctx.build_model()
    ctx.prove()
    if ctx.replay_cases is not None:
        cases = ctx.replay_cases
    else:
        quick = ctx.tier == "quick"
        cases = vlib.load_corpus("C04")
        for _ in range(2500 if quick else 50000):
            cases.append(gen_case(ctx.rng))
        cases += gen_bytes_cases(ctx.rng, 3000 if quick else 60000)
        # many split parts (crossing the 256-entry batches)
        for k in ([10, 255, 256, 257, 520, 700] if quick else list(range(250, 800, 7))):
            s = b" ".join(b"w%d" % i for i in range(k)) + (b" " if k % 2 else b"")
            cases.append(["str split %s %s" % (vlib.hexs(s), vlib.hexs(b" "))])
    ctx.correspond("string-scripts", exe, cases, oracle=oracle, nontrivial=lambda c: len(c) >= 4 or len(c[0]) > 20)
