import Gpc.Model.Utf8
import Gpc.Spec.Utf8
/-! Helper lemmas for C06: the packed-word validator equals the byte ranges of Unicode Table 3-7 -/
namespace Gpc.Utf8

theorem div256 (a b : Nat) (hb : b < 256) : (a * 256 + b) / 256 = a := by omega
theorem mod256 (a b : Nat) (hb : b < 256) : (a * 256 + b) % 256 = b := by omega

theorem and_concat (a b m k : Nat) (hb : b < 256) (hk : k < 256) :
    (a * 256 + b) &&& (m * 256 + k) = (a &&& m) * 256 + (b &&& k) := by
  have hbk : b &&& k < 256 := Nat.and_lt_two_pow _ (show k < 2^8 by omega)
  have hd : ((a * 256 + b) &&& (m * 256 + k)) / 256 = a &&& m := by
    have := @Nat.and_div_two_pow (a * 256 + b) (m * 256 + k) 8
    simp only [show (2:Nat)^8 = 256 from rfl] at this
    rw [this, div256 a b hb, div256 m k hk]
  have hm : ((a * 256 + b) &&& (m * 256 + k)) % 256 = b &&& k := by
    have := @Nat.and_mod_two_pow (a * 256 + b) (m * 256 + k) 8
    simp only [show (2:Nat)^8 = 256 from rfl] at this
    rw [this, mod256 a b hb, mod256 m k hk]
  have := Nat.div_add_mod ((a * 256 + b) &&& (m * 256 + k)) 256
  rw [hd, hm] at this
  omega

theorem byte_C0 : ∀ b, b < 256 → ((b &&& 0xC0 = 0x80) ↔ (0x80 ≤ b ∧ b ≤ 0xBF)) := by decide +kernel
theorem byte_E0 : ∀ b, b < 256 → ((b &&& 0xE0 = 0xC0) ↔ (0xC0 ≤ b ∧ b ≤ 0xDF)) := by decide +kernel

theorem vc2 (b0 b1 : Nat) (h0 : 0xC0 ≤ b0 ∧ b0 ≤ 0xDF) (h1 : b1 < 256) :
    validCodepoint (b0 * 256 + b1) = true ↔ (0xC2 ≤ b0 ∧ 0x80 ≤ b1 ∧ b1 ≤ 0xBF) := by
  have hm : (b0 * 256 + b1) &&& 0xE0C0 = (b0 &&& 0xE0) * 256 + (b1 &&& 0xC0) := 
    and_concat b0 b1 0xE0 0xC0 h1 (by decide)
  have hc := byte_C0 b1 h1
  have he := byte_E0 b0 (by omega)
  have hlt : b1 &&& 0xC0 < 256 := Nat.and_lt_two_pow _ (by decide : 0xC0 < 2^8)
  have he' : b0 &&& 0xE0 = 0xC0 := he.2 h0
  generalize hx : b1 &&& 0xC0 = x at *
  unfold validCodepoint
  rw [hm, he']
  split
  · omega
  · split
    · rw [beq_iff_eq]
      constructor
      · intro h; have : x = 0x80 := by omega
        omega
      · intro h; have : x = 0x80 := hc.2 ⟨h.2.1, h.2.2⟩
        omega
    · split
      · omega
      · split
        · omega
        · split
          · omega
          · simp; omega

theorem byte_F0 : ∀ b, b < 256 → ((b &&& 0xF0 = 0xE0) ↔ (0xE0 ≤ b ∧ b ≤ 0xEF)) := by decide +kernel
theorem byte_F8 : ∀ b, b < 256 → ((b &&& 0xF8 = 0xF0) ↔ (0xF0 ≤ b ∧ b ≤ 0xF7)) := by decide +kernel

theorem vc3 (b0 b1 b2 : Nat) (h0 : 0xE0 ≤ b0 ∧ b0 ≤ 0xEF) (h1 : b1 < 256) (h2 : b2 < 256) :
    validCodepoint ((b0 * 256 + b1) * 256 + b2) = true ↔
      ((b0 = 0xE0 → 0xA0 ≤ b1) ∧ (b0 = 0xED → b1 ≤ 0x9F) ∧ 0x80 ≤ b1 ∧ b1 ≤ 0xBF ∧ 0x80 ≤ b2 ∧ b2 ≤ 0xBF) := by
  have hm : ((b0 * 256 + b1) * 256 + b2) &&& 0xF0C0C0 = ((b0 &&& 0xF0) * 256 + (b1 &&& 0xC0)) * 256 + (b2 &&& 0xC0) := by
    have e : (0xF0C0C0 : Nat) = (0xF0 * 256 + 0xC0) * 256 + 0xC0 := by decide
    rw [e, and_concat _ b2 _ 0xC0 h2 (by decide), and_concat b0 b1 0xF0 0xC0 h1 (by decide)]
  have hc1 := byte_C0 b1 h1
  have hc2 := byte_C0 b2 h2
  have he' : b0 &&& 0xF0 = 0xE0 := (byte_F0 b0 (by omega)).2 h0
  have hlt1 : b1 &&& 0xC0 < 256 := Nat.and_lt_two_pow _ (by decide : 0xC0 < 2^8)
  have hlt2 : b2 &&& 0xC0 < 256 := Nat.and_lt_two_pow _ (by decide : 0xC0 < 2^8)
  generalize hx1 : b1 &&& 0xC0 = x1 at *
  generalize hx2 : b2 &&& 0xC0 = x2 at *
  unfold validCodepoint
  rw [hm, he']
  split
  · omega
  · split
    · omega
    · split
      · simp; omega
      · split
        · rw [beq_iff_eq]
          constructor
          · intro h
            have a1 : x1 = 0x80 := by omega
            have a2 : x2 = 0x80 := by omega
            have := hc1.1 a1; have := hc2.1 a2
            omega
          · intro h
            have a1 : x1 = 0x80 := hc1.2 ⟨h.2.2.1, h.2.2.2.1⟩
            have a2 : x2 = 0x80 := hc2.2 ⟨h.2.2.2.2.1, h.2.2.2.2.2⟩
            omega
        · split
          · omega
          · simp; omega

theorem vc4 (b0 b1 b2 b3 : Nat) (h0 : 0xF0 ≤ b0 ∧ b0 ≤ 0xF7) (h1 : b1 < 256) (h2 : b2 < 256) (h3 : b3 < 256) :
    validCodepoint (((b0 * 256 + b1) * 256 + b2) * 256 + b3) = true ↔
      (b0 ≤ 0xF4 ∧ (b0 = 0xF0 → 0x90 ≤ b1) ∧ (b0 = 0xF4 → b1 ≤ 0x8F) ∧ 0x80 ≤ b1 ∧ b1 ≤ 0xBF
        ∧ 0x80 ≤ b2 ∧ b2 ≤ 0xBF ∧ 0x80 ≤ b3 ∧ b3 ≤ 0xBF) := by
  have hm : (((b0 * 256 + b1) * 256 + b2) * 256 + b3) &&& 0xF8C0C0C0
      = (((b0 &&& 0xF8) * 256 + (b1 &&& 0xC0)) * 256 + (b2 &&& 0xC0)) * 256 + (b3 &&& 0xC0) := by
    have e : (0xF8C0C0C0 : Nat) = ((0xF8 * 256 + 0xC0) * 256 + 0xC0) * 256 + 0xC0 := by decide
    rw [e, and_concat _ b3 _ 0xC0 h3 (by decide), and_concat _ b2 _ 0xC0 h2 (by decide),
        and_concat b0 b1 0xF8 0xC0 h1 (by decide)]
  have hc1 := byte_C0 b1 h1
  have hc2 := byte_C0 b2 h2
  have hc3 := byte_C0 b3 h3
  have he' : b0 &&& 0xF8 = 0xF0 := (byte_F8 b0 (by omega)).2 h0
  have hlt1 : b1 &&& 0xC0 < 256 := Nat.and_lt_two_pow _ (by decide : 0xC0 < 2^8)
  have hlt2 : b2 &&& 0xC0 < 256 := Nat.and_lt_two_pow _ (by decide : 0xC0 < 2^8)
  have hlt3 : b3 &&& 0xC0 < 256 := Nat.and_lt_two_pow _ (by decide : 0xC0 < 2^8)
  generalize hx1 : b1 &&& 0xC0 = x1 at *
  generalize hx2 : b2 &&& 0xC0 = x2 at *
  generalize hx3 : b3 &&& 0xC0 = x3 at *
  unfold validCodepoint
  rw [hm, he']
  split
  · omega
  · split
    · omega
    · split
      · omega
      · split
        · omega
        · split
          · rw [beq_iff_eq]
            constructor
            · intro h
              have a1 : x1 = 0x80 := by omega
              have a2 : x2 = 0x80 := by omega
              have a3 : x3 = 0x80 := by omega
              have := hc1.1 a1; have := hc2.1 a2; have := hc3.1 a3
              omega
            · intro h
              have a1 : x1 = 0x80 := hc1.2 ⟨h.2.2.2.1, h.2.2.2.2.1⟩
              have a2 : x2 = 0x80 := hc2.2 ⟨h.2.2.2.2.2.1, h.2.2.2.2.2.2.1⟩
              have a3 : x3 = 0x80 := hc3.2 ⟨h.2.2.2.2.2.2.2.1, h.2.2.2.2.2.2.2.2⟩
              omega
          · simp; omega

theorem wfLen_le (s : Bytes) : wfLen s ≤ s.length ∧ wfLen s ≤ 4 := by
  rcases s with _ | ⟨b0, _ | ⟨b1, _ | ⟨b2, _ | ⟨b3, r⟩⟩⟩⟩ <;>
    simp only [wfLen, List.length_cons, List.length_nil] <;> (repeat' split) <;> omega

/-- the verdict depends only on the bytes of the sequence itself -/
theorem wfLen_take' (s : Bytes) (n : Nat) (hn : wfLen s = n) (h0 : n ≠ 0) : wfLen (s.take n) = n := by
  rcases s with _ | ⟨b0, _ | ⟨b1, _ | ⟨b2, _ | ⟨b3, r⟩⟩⟩⟩ <;>
    simp only [wfLen] at hn <;> (repeat' split at hn) <;> subst hn <;> simp_all [wfLen] <;> (repeat' split) <;> omega

theorem wfLen_take (s : Bytes) (h : wfLen s ≠ 0) : wfLen (s.take (wfLen s)) = wfLen s :=
  wfLen_take' s _ rfl h

theorem wfLen_append (c t : Bytes) (hc : c ≠ []) (h : wfLen c = c.length) : wfLen (c ++ t) = c.length := by
  rcases c with _ | ⟨b0, _ | ⟨b1, _ | ⟨b2, _ | ⟨b3, _ | ⟨b4, r⟩⟩⟩⟩⟩
  · exact absurd rfl hc
  all_goals (simp only [wfLen, List.cons_append, List.nil_append, List.length_cons, List.length_nil] at h ⊢)
  all_goals (repeat' split at h)
  all_goals simp_all
  all_goals ((repeat' split) <;> omega)


theorem cpLen_eq (b0 : UInt8) : cpLen b0 =
    (if b0.toNat < 128 then 1 else if b0.toNat < 192 then 0 else if b0.toNat < 224 then 2
     else if b0.toNat < 240 then 3 else if b0.toNat < 248 then 4 else 0) := by
  unfold cpLen
  simp only []
  (repeat' split) <;> omega

theorem pack1 (b0 : UInt8) : pack [b0] = b0.toNat := by simp [pack]
theorem pack2 (b0 b1 : UInt8) : pack [b0, b1] = b0.toNat * 256 + b1.toNat := by simp [pack]
theorem pack3 (b0 b1 b2 : UInt8) : pack [b0, b1, b2] = (b0.toNat * 256 + b1.toNat) * 256 + b2.toNat := by
  simp [pack]
theorem pack4 (b0 b1 b2 b3 : UInt8) :
    pack [b0, b1, b2, b3] = ((b0.toNat * 256 + b1.toNat) * 256 + b2.toNat) * 256 + b3.toNat := by simp [pack]

theorem vc1 (b : Nat) (h : b < 128) : validCodepoint b = true := by
  unfold validCodepoint; simp; omega

/-- the library's per-code-point test (lead-byte table + packed word ranges and masks) accepts
exactly the rows of Unicode Table 3-7 -/
theorem validAtHead_eq (s : Bytes) :
    validAtHead s = if wfLen s = 0 then none else some (wfLen s) := by
  rcases s with _ | ⟨b0, t⟩
  · simp [validAtHead, wfLen]
  have hb0 := b0.toNat_lt
  simp only [validAtHead, cpLen_eq]
  by_cases c1 : b0.toNat < 128
  · have : wfLen (b0 :: t) = 1 := by simp [wfLen]; omega
    simp [c1, this, pack1, vc1 _ c1]
  by_cases c2 : b0.toNat < 192
  · have : wfLen (b0 :: t) = 0 := by simp only [wfLen]; (repeat' split) <;> omega
    simp [c1, c2, this]
  by_cases c3 : b0.toNat < 224
  · rcases t with _ | ⟨b1, t⟩
    · have : wfLen [b0] = 0 := by simp only [wfLen]; (repeat' split) <;> omega
      simp [c1, c2, c3, this]
    · have hv := vc2 b0.toNat b1.toNat ⟨by omega, by omega⟩ b1.toNat_lt
      simp only [c1, c2, c3, if_true, if_false, List.length_cons, List.take_succ_cons, List.take_zero, pack2]
      by_cases hw : 0xC2 ≤ b0.toNat ∧ cont b1
      · have : wfLen (b0 :: b1 :: t) = 2 := by
          simp only [wfLen]; (repeat' split) <;> (try simp only [cont, sec3, sec4] at *) <;> omega
        have hvt : validCodepoint (b0.toNat * 256 + b1.toNat) = true := hv.2 ⟨hw.1, hw.2.1, hw.2.2⟩
        simp [this, hvt]
      · have : wfLen (b0 :: b1 :: t) = 0 := by
          simp only [wfLen]; (repeat' split) <;> (try simp only [cont, sec3, sec4] at *) <;> omega
        have hvf : validCodepoint (b0.toNat * 256 + b1.toNat) = false := by
          cases hx : validCodepoint (b0.toNat * 256 + b1.toNat) with
          | false => rfl
          | true => exfalso; apply hw; have := hv.1 hx; unfold cont; omega
        simp [this, hvf]
  by_cases c4 : b0.toNat < 240
  · rcases t with _ | ⟨b1, _ | ⟨b2, t⟩⟩
    · have : wfLen [b0] = 0 := by simp only [wfLen]; (repeat' split) <;> omega
      simp [c1, c2, c3, c4, this]
    · have : wfLen [b0, b1] = 0 := by simp only [wfLen]; (repeat' split) <;> omega
      simp [c1, c2, c3, c4, this]
    · have hv := vc3 b0.toNat b1.toNat b2.toNat ⟨by omega, by omega⟩ b1.toNat_lt b2.toNat_lt
      simp only [c1, c2, c3, c4, if_true, if_false, List.length_cons, List.take_succ_cons, List.take_zero, pack3]
      by_cases hw : sec3 b0.toNat b1 ∧ cont b2
      · have : wfLen (b0 :: b1 :: b2 :: t) = 3 := by
          simp only [wfLen]; (repeat' split) <;> (try simp only [cont, sec3, sec4] at *) <;> omega
        have hvt : validCodepoint ((b0.toNat * 256 + b1.toNat) * 256 + b2.toNat) = true := by
          apply hv.2; unfold sec3 cont at hw; omega
        simp [this, hvt]
      · have : wfLen (b0 :: b1 :: b2 :: t) = 0 := by
          simp only [wfLen]; (repeat' split) <;> (try simp only [cont, sec3, sec4] at *) <;> omega
        have hvf : validCodepoint ((b0.toNat * 256 + b1.toNat) * 256 + b2.toNat) = false := by
          cases hx : validCodepoint ((b0.toNat * 256 + b1.toNat) * 256 + b2.toNat) with
          | false => rfl
          | true => exfalso; apply hw; have := hv.1 hx; unfold sec3 cont; omega
        simp [this, hvf]
  by_cases c5 : b0.toNat < 248
  · rcases t with _ | ⟨b1, _ | ⟨b2, _ | ⟨b3, t⟩⟩⟩
    · have : wfLen [b0] = 0 := by simp only [wfLen]; (repeat' split) <;> omega
      simp [c1, c2, c3, c4, c5, this]
    · have : wfLen [b0, b1] = 0 := by simp only [wfLen]; (repeat' split) <;> omega
      simp [c1, c2, c3, c4, c5, this]
    · have : wfLen [b0, b1, b2] = 0 := by simp only [wfLen]; (repeat' split) <;> omega
      simp [c1, c2, c3, c4, c5, this]
    · have hv := vc4 b0.toNat b1.toNat b2.toNat b3.toNat ⟨by omega, by omega⟩ b1.toNat_lt b2.toNat_lt b3.toNat_lt
      simp only [c1, c2, c3, c4, c5, if_true, if_false, List.length_cons, List.take_succ_cons, List.take_zero, pack4]
      by_cases hw : b0.toNat ≤ 0xF4 ∧ sec4 b0.toNat b1 ∧ cont b2 ∧ cont b3
      · have : wfLen (b0 :: b1 :: b2 :: b3 :: t) = 4 := by
          simp only [wfLen]; (repeat' split) <;> (try simp only [cont, sec3, sec4] at *) <;> omega
        have hvt : validCodepoint (((b0.toNat * 256 + b1.toNat) * 256 + b2.toNat) * 256 + b3.toNat) = true := by
          apply hv.2; unfold sec4 cont at hw; omega
        simp [this, hvt]
      · have : wfLen (b0 :: b1 :: b2 :: b3 :: t) = 0 := by
          simp only [wfLen]; (repeat' split) <;> (try simp only [cont, sec3, sec4] at *) <;> omega
        have hvf : validCodepoint (((b0.toNat * 256 + b1.toNat) * 256 + b2.toNat) * 256 + b3.toNat) = false := by
          cases hx : validCodepoint (((b0.toNat * 256 + b1.toNat) * 256 + b2.toNat) * 256 + b3.toNat) with
          | false => rfl
          | true => exfalso; apply hw; have := hv.1 hx; unfold sec4 cont; omega
        simp [this, hvf]
  · have : wfLen (b0 :: t) = 0 := by simp only [wfLen]; (repeat' split) <;> omega
    simp [c1, c2, c3, c4, c5, this]

/-- byte `k` of `s` exists and is ≥ 0x80 -/
def hi (s : Bytes) (k : Nat) : Bool := (s[k]?.map high).getD false

theorem byteScan_spec (s : Bytes) (fuel i stop : Nat) (hstop : stop ≤ s.length) (hf : stop - i ≤ fuel) :
    ∃ r, byteScan s fuel i stop = some r ∧
      (∀ k, r = some k → i ≤ k ∧ k < stop ∧ hi s k = true ∧ ∀ j, i ≤ j → j < k → hi s j = false) ∧
      (r = none → ∀ j, i ≤ j → j < stop → hi s j = false) := by
  induction fuel generalizing i with
  | zero =>
    refine ⟨none, by simp [byteScan], by simp, ?_⟩
    intro _ j h1 h2; omega
  | succ f ih =>
    simp only [byteScan]
    by_cases hi' : i < stop
    · have hlt : i < s.length := by omega
      simp only [hi', if_true, List.getElem?_eq_getElem hlt]
      by_cases hh : high s[i] = true
      · refine ⟨some i, by simp [hh], ?_, by simp⟩
        intro k hk; injection hk with hk; subst hk
        exact ⟨Nat.le_refl _, hi', by simp [hi, List.getElem?_eq_getElem hlt, hh], fun j a b => by omega⟩
      · obtain ⟨r, hr, h1, h2⟩ := ih (i + 1) (by omega)
        have hfalse : hi s i = false := by simp [hi, List.getElem?_eq_getElem hlt]; simpa using hh
        refine ⟨r, by simp [hh, hr], ?_, ?_⟩
        · intro k hk
          obtain ⟨a, b, c, d⟩ := h1 k hk
          refine ⟨by omega, b, c, ?_⟩
          intro j hj1 hj2
          by_cases hji : j = i
          · subst hji; exact hfalse
          · exact d j (by omega) hj2
        · intro hn j hj1 hj2
          by_cases hji : j = i
          · subst hji; exact hfalse
          · exact h2 hn j (by omega) hj2
    · refine ⟨none, by simp [hi'], by simp, ?_⟩
      intro _ j h1 h2; omega

theorem block_no_high (s : Bytes) (i : Nat) (h : ((s.drop i).take 8).any high = false) :
    ∀ k, i ≤ k → k < i + 8 → hi s k = false := by
  intro k h1 h2
  rw [List.any_eq_false] at h
  unfold hi
  cases hk : s[k]? with
  | none => rfl
  | some b =>
    simp only [Option.map_some, Option.getD_some]
    have hmem : b ∈ (s.drop i).take 8 := by
      rw [List.mem_iff_getElem?]
      refine ⟨k - i, ?_⟩
      rw [List.getElem?_take]
      have : k - i < 8 := by omega
      simp only [this, if_true, List.getElem?_drop]
      rw [show i + (k - i) = k by omega]; exact hk
    have := h b hmem
    simpa using this

theorem blockScan_spec (s : Bytes) (fuel i stop : Nat) (hstop : stop ≤ s.length) (hle : i ≤ stop)
    (hmod : (stop - i) % 8 = 0) (hf : stop - i ≤ 8 * fuel) :
    ∃ j, blockScan s fuel i stop = some j ∧ i ≤ j ∧ j ≤ stop ∧ ∀ k, i ≤ k → k < j → hi s k = false := by
  induction fuel generalizing i with
  | zero =>
    exact ⟨i, by simp [blockScan], Nat.le_refl _, hle, fun k a b => by omega⟩
  | succ f ih =>
    simp only [blockScan]
    by_cases hi' : i < stop
    · have h8 : i + 8 ≤ stop := by omega
      have h8' : i + 8 ≤ s.length := by omega
      simp only [hi', if_true, h8']
      by_cases hany : ((s.drop i).take 8).any high = true
      · exact ⟨i, by simp [hany], Nat.le_refl _, hle, fun k a b => by omega⟩
      · have hany' : ((s.drop i).take 8).any high = false := by simpa using hany
        obtain ⟨j, hj, a, b, c⟩ := ih (i + 8) h8 (by omega) (by omega)
        refine ⟨j, by simp [hany', hj], by omega, b, ?_⟩
        intro k hk1 hk2
        by_cases hk8 : k < i + 8
        · exact block_no_high s i hany' k hk1 hk8
        · exact c k (by omega) hk2
    · exact ⟨i, by simp [hi'], Nat.le_refl _, hle, fun k a b => by omega⟩


/-! ### code point counting -/

def sumLN (l : Bytes) : Nat := (l.map leadNibble).sum

theorem leadNibble_le (b : UInt8) : leadNibble b ≤ 1 := by
  unfold leadNibble; simp only []; split <;> omega

theorem sumLN_add_countP (l : Bytes) : sumLN l + l.countP (fun b => leadNibble b == 0) = l.length := by
  induction l with
  | nil => simp [sumLN]
  | cons b t ih =>
    have := leadNibble_le b
    simp only [sumLN, List.map_cons, List.sum_cons, List.countP_cons, List.length_cons] at ih ⊢
    by_cases h0 : leadNibble b = 0
    · simp [h0]; omega
    · have : leadNibble b = 1 := by omega
      simp [this]; omega

theorem countBytes_spec (s : Bytes) (fuel i stop acc : Nat) (hstop : stop ≤ s.length) (hf : stop - i ≤ fuel) :
    countBytes s fuel i stop acc = some (acc + sumLN ((s.drop i).take (stop - i))) := by
  induction fuel generalizing i acc with
  | zero =>
    have : stop - i = 0 := by omega
    simp [countBytes, this, sumLN]
  | succ f ih =>
    simp only [countBytes]
    by_cases hi' : i < stop
    · have hlt : i < s.length := by omega
      simp only [hi', if_true, List.getElem?_eq_getElem hlt]
      rw [ih (i + 1) _ (by omega)]
      have e : stop - i = (stop - (i + 1)) + 1 := by omega
      rw [e, List.drop_eq_getElem_cons hlt, List.take_succ_cons]
      simp only [sumLN, List.map_cons, List.sum_cons]
      congr 1; omega
    · have : stop - i = 0 := by omega
      simp [hi', this, sumLN]

theorem countBlocks_spec (s : Bytes) (fuel i stop acc : Nat) (hstop : stop ≤ s.length) (hle : i ≤ stop)
    (hmod : (stop - i) % 8 = 0) (hf : stop - i ≤ 8 * fuel) :
    countBlocks s fuel i stop acc = some (stop, acc + sumLN ((s.drop i).take (stop - i))) := by
  induction fuel generalizing i acc with
  | zero =>
    have : stop = i := by omega
    subst this; simp [countBlocks, sumLN]
  | succ f ih =>
    simp only [countBlocks]
    by_cases hi' : i < stop
    · have h8 : i + 8 ≤ stop := by omega
      have h8' : i + 8 ≤ s.length := by omega
      simp only [hi', if_true, h8']
      rw [ih (i + 8) _ h8 (by omega) (by omega)]
      have hlen : ((s.drop i).take 8).length = 8 := by simp only [List.length_take, List.length_drop]; omega
      have hsum := sumLN_add_countP ((s.drop i).take 8)
      rw [hlen] at hsum
      have e : stop - i = 8 + (stop - (i + 8)) := by omega
      have hsplit : (s.drop i).take (stop - i) = (s.drop i).take 8 ++ (s.drop (i + 8)).take (stop - (i + 8)) := by
        rw [e, List.take_add, List.drop_drop]
      rw [hsplit]
      simp only [sumLN, List.map_append, List.sum_append] at hsum ⊢
      congr 2; omega
    · have : stop = i := by omega
      subst this; simp [sumLN]

end Gpc.Utf8
