#!/bin/sh
# usage: process_seeds.sh <offset> <id>...   renames patch1/2 -> patch(1+off)/(2+off), confirms, then checks sequentially
off=$1; shift
cd /verif
for id in "$@"; do
  ( cd /tmp/seed_out/$id 2>/dev/null && for k in 1 2; do n=$((k+off)); [ -f patch$k.diff ] && mv patch$k.diff patch$n.diff; [ -f demo$k.c ] && mv demo$k.c demo$n.c; [ -f demo$k.sh ] && mv demo$k.sh demo$n.sh; [ -f meta$k.json ] && mv meta$k.json meta$n.json; done )
done
conf() { python3 tools/seedtool.py confirm $1 $((1+off)) 2>&1 | cut -c1-160; python3 tools/seedtool.py confirm $1 $((2+off)) 2>&1 | cut -c1-160; }
n=0
for id in "$@"; do conf $id & n=$((n+1)); if [ $((n % 5)) -eq 0 ]; then wait; fi; done; wait
for id in "$@"; do for k in $((1+off)) $((2+off)); do
  if [ -d seeded/$id-$k ]; then timeout 1500 python3 tools/seedtool.py check $id-$k 2>&1 | tail -1 | cut -c1-260; git -C /repo checkout -- . ; git -C /verif checkout -- lean/Gpc/Generated evidence; fi
done; done
git -C /repo status --short | head -3
