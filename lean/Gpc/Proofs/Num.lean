import Gpc.Model.Num
/-! Helper lemmas for C20 (bit smearing). -/
namespace Gpc.Num

/-- bit `i` of `x` is set iff some bit of `x0` in the window `[i, i+m)` is set -/
def Smeared (m x0 x : Nat) : Prop :=
  ∀ i, x.testBit i = true ↔ ∃ j, i ≤ j ∧ j < i + m ∧ x0.testBit j = true

theorem smeared_one (x : Nat) : Smeared 1 x x := by
  intro i; constructor
  · intro h; exact ⟨i, Nat.le_refl _, by omega, h⟩
  · rintro ⟨j, h1, h2, h3⟩
    have : j = i := by omega
    subst this; exact h3

theorem smeared_step {m x0 x : Nat} (h : Smeared m x0 x) : Smeared (2*m) x0 (x ||| (x >>> m)) := by
  intro i
  rw [Nat.testBit_or, Nat.testBit_shiftRight, Bool.or_eq_true, h i, h (m + i)]
  constructor
  · rintro (⟨j, a, b, c⟩ | ⟨j, a, b, c⟩)
    · exact ⟨j, a, by omega, c⟩
    · exact ⟨j, by omega, by omega, c⟩
  · rintro ⟨j, a, b, c⟩
    by_cases hj : j < i + m
    · exact Or.inl ⟨j, a, hj, c⟩
    · exact Or.inr ⟨j, by omega, by omega, c⟩

theorem smeared_eq {w x0 x : Nat} (h : Smeared w x0 x) (hx : x0 < 2^w) (h0 : x0 ≠ 0) :
    x = 2^(x0.log2 + 1) - 1 := by
  apply Nat.eq_of_testBit_eq
  intro i
  rw [Nat.testBit_two_pow_sub_one]
  have hlog : x0.log2 < w := (Nat.log2_lt h0).2 hx
  by_cases hi : i < x0.log2 + 1
  · simp only [hi, decide_true]
    exact (h i).2 ⟨x0.log2, by omega, by omega, Nat.testBit_log2 h0⟩
  · simp only [hi, decide_false]
    cases hb : x.testBit i with
    | false => rfl
    | true =>
      obtain ⟨j, a, _, c⟩ := (h i).1 hb
      have hlt : x0 < 2^j := by
        have := @Nat.lt_log2_self x0
        exact Nat.lt_of_lt_of_le this (Nat.pow_le_pow_right (by omega) (by omega))
      rw [Nat.testBit_lt_two_pow hlt] at c
      exact absurd c (by simp)

theorem smear32_smeared (x : Nat) : Smeared 32 x (smear32 x) := by
  have h1 := smeared_step (smeared_one x)
  have h2 := smeared_step h1
  have h3 := smeared_step h2
  have h4 := smeared_step h3
  have h5 := smeared_step h4
  exact h5

theorem smear64_smeared (x : Nat) : Smeared 64 x (smear64 x) :=
  smeared_step (smear32_smeared x)

theorem smear32_zero : smear32 0 = 0 := by decide
theorem smear64_zero : smear64 0 = 0 := by decide

end Gpc.Num
