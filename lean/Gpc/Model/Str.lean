import Gpc.Model.Array
import Gpc.Model.Search
import Gpc.Model.Utf8
/-
Model of the string / byte-string edits anchored by C04 (src/string.c, src/bytes.c, src/unicode.c:
gp_str_split, gp_str_join), as repaired.

`Buf` operations are the fixed-buffer `gp_bytes_*` functions: they act on a raw buffer with the C
index arithmetic and checked `memmove`/`memcpy` (fail = a byte outside the buffer is touched) and
return the new length.  A `Str` is a `GPString`: header (length, capacity) and `capacity + 1` bytes
of storage (one byte is reserved so that `gp_cstr` can always terminate in place); its edits are
`gp_str_reserve` followed by the buffer operation on the storage.
-/
namespace Gpc.Str
open Gpc.Arr (memmove memcpyIn np2 Kind)

abbrev Bytes := List UInt8

/-! ### fixed-buffer operations (`gp_bytes_*`): (new buffer, returned length) -/

/-- `gp_bytes_slice(dest, NULL, start, end)` -/
def bSliceSelf (buf : Bytes) (start stop : Nat) : Option (Bytes × Nat) :=
  (memmove buf 0 start (stop - start)).map fun b => (b, stop - start)

/-- `gp_bytes_slice(dest, src, start, end)` -/
def bSliceFrom (buf src : Bytes) (start stop : Nat) : Option (Bytes × Nat) :=
  if stop ≤ src.length then (memcpyIn buf 0 ((src.drop start).take (stop - start))).map fun b => (b, stop - start) else none

/-- `gp_bytes_repeat(dest, n, mem, mem_length)` -/
def bRepeat (buf : Bytes) (n : Nat) (mem : Bytes) : Option (Bytes × Nat) :=
  (memcpyIn buf 0 (List.replicate n mem).flatten).map fun b => (b, n * mem.length)

/-- `gp_bytes_append(dest, dest_length, src, src_length)` -/
def bAppend (buf : Bytes) (len : Nat) (src : Bytes) : Option (Bytes × Nat) :=
  (memcpyIn buf len src).map fun b => (b, len + src.length)

/-- `gp_bytes_insert(dest, dest_length, pos, src, n)` -/
def bInsert (buf : Bytes) (len pos : Nat) (src : Bytes) : Option (Bytes × Nat) :=
  match memmove buf (pos + src.length) pos (len - pos) with
  | none => none
  | some b1 => (memcpyIn b1 pos src).map fun b => (b, len + src.length)

/-- `gp_bytes_replace_range(me, me_length, start, end, replacement, replacement_length)` -/
def bReplaceRange (buf : Bytes) (len start stop : Nat) (repl : Bytes) : Option (Bytes × Nat) :=
  match memmove buf (start + repl.length) stop (len - stop) with
  | none => none
  | some b1 => (memcpyIn b1 start repl).map fun b => (b, len + repl.length - (stop - start))

/-- `gp_bytes_find_first` on the first `len` bytes of the buffer (memmem contract, C08) -/
def bFind (buf : Bytes) (len : Nat) (needle : Bytes) (start : Nat) : Option Nat :=
  if start ≤ len then (Gpc.Search.memmem ((buf.take len).drop start) needle).map (· + start) else none

/-- `gp_bytes_replace(haystack, len, needle, replacement, &start)`: (buffer, new length, position) -/
def bReplace (buf : Bytes) (len : Nat) (needle repl : Bytes) (start : Nat) : Option (Option (Bytes × Nat × Nat)) :=
  match bFind buf len needle start with
  | none => some none                                     -- GP_NOT_FOUND
  | some pos => match bReplaceRange buf len pos (pos + needle.length) repl with
    | none => none
    | some (b, l) => some (some (b, l, pos))

/-- `gp_bytes_replace_all`: left to right, the replacement is not rescanned -/
def bReplaceAll (needle repl : Bytes) : (fuel : Nat) → (buf : Bytes) → (len start count : Nat) → Option (Bytes × Nat × Nat)
  | 0, buf, len, _, count => some (buf, len, count)
  | fuel + 1, buf, len, start, count =>
    match bFind buf len needle start with
    | none => some (buf, len, count)
    | some pos => match bReplaceRange buf len pos (pos + needle.length) repl with
      | none => none
      | some (b, l) => bReplaceAll needle repl fuel b l (pos + repl.length) (count + 1)

/-- membership of a byte in a C-string set, NUL is not a member (`c != 0 && strchr(set, c)`) -/
def memberByte (set : Bytes) (c : UInt8) : Bool := c != 0 && set.contains c

/-- `gp_bytes_trim(str, length, NULL, char_set, flags)` : `strspn` prefix, then the right loop -/
def bTrim (buf : Bytes) (len : Nat) (set : Bytes) (left right : Bool) : Option (Bytes × Nat) :=
  if len = 0 then some (buf, 0) else
  let cur := buf.take len
  let prefixLen := if left then (cur.takeWhile (memberByte set)).length else 0
  let len1 := len - prefixLen
  match (if left then memmove buf 0 prefixLen len1 else some buf) with
  | none => none
  | some b1 =>
    let cur1 := b1.take len1
    let suffixLen := if right then (cur1.reverse.takeWhile (memberByte set)).length else 0
    some (b1, len1 - suffixLen)

/-! ### GPString -/

structure Str where
  length : Nat
  capacity : Nat
  data : Bytes            -- storage, `capacity + 1` bytes
  kind : Kind
deriving Repr

/-- `gp_str_new(allocator, capacity, init)` -/
def new (capacity : Nat) (init : Bytes) (kind : Kind) : Str :=
  let cap := max init.length capacity
  { length := init.length, capacity := cap, data := init ++ List.replicate (cap + 1 - init.length) 0, kind := kind }

/-- `gp_str_reserve(&str, capacity)` = `gp_arr_reserve(1, str, capacity + 1)` and, when that grew
the storage (to `next_power_of_2(capacity + 1)` bytes), one byte is set aside for the terminator -/
def reserve (s : Str) (request : Nat) : Str :=
  match s.kind with
  | .stack false => s
  | _ =>
    if request + 1 > s.capacity then
      let storage := np2 (request + 1)
      { s with capacity := storage - 1,
               data := s.data.take s.length ++ List.replicate (storage - s.length) 0,
               kind := (match s.kind with | .stack _ => .heap | k => k) }
    else s

def bytes (s : Str) : Bytes := s.data.take s.length

/-- `gp_cstr(str)`: writes the terminator at index `length`, in place -/
def cstr (s : Str) : Option Str :=
  (memcpyIn s.data s.length [0]).map fun d => { s with data := d }

def withBuf (s : Str) (r : Option (Bytes × Nat)) : Option Str := r.map fun (b, l) => { s with data := b, length := l }

/-- `gp_str_copy` -/
def copy (s : Str) (src : Bytes) : Option Str :=
  let s1 := reserve s src.length
  withBuf s1 ((memcpyIn s1.data 0 src).map fun b => (b, src.length))

/-- `gp_str_repeat` -/
def rep (s : Str) (n : Nat) (mem : Bytes) : Option Str :=
  let s1 := reserve s (n * mem.length)
  withBuf s1 (bRepeat s1.data n mem)

/-- `gp_str_slice(&dest, NULL, start, end)` / `gp_str_slice(&dest, src, start, end)` -/
def sliceSelf (s : Str) (start stop : Nat) : Option Str := withBuf s (bSliceSelf s.data start stop)
def sliceFrom (s : Str) (src : Bytes) (start stop : Nat) : Option Str :=
  let s1 := reserve s (stop - start)
  withBuf s1 (bSliceFrom s1.data src start stop)

/-- `gp_str_append` -/
def append (s : Str) (src : Bytes) : Option Str :=
  let s1 := reserve s (s.length + src.length)
  withBuf s1 (bAppend s1.data s.length src)

/-- `gp_str_insert` -/
def insert (s : Str) (pos : Nat) (src : Bytes) : Option Str :=
  let s1 := reserve s (s.length + src.length)
  withBuf s1 (bInsert s1.data s.length pos src)

/-- `gp_str_replace(&haystack, needle, replacement, start)`: (string, position or not found) -/
def replace (s : Str) (needle repl : Bytes) (start : Nat) : Option (Str × Option Nat) :=
  match bFind s.data s.length needle start with
  | none => some (s, none)
  | some pos =>
    let s1 := reserve s (s.length + repl.length - needle.length)
    (withBuf s1 (bReplaceRange s1.data s.length pos (pos + needle.length) repl)).map fun s2 => (s2, some pos)

/-- `gp_str_replace_all`: (string, number of replacements) -/
def replaceAll (needle repl : Bytes) : (fuel : Nat) → Str → (start count : Nat) → Option (Str × Nat)
  | 0, s, _, count => some (s, count)
  | fuel + 1, s, start, count =>
    match bFind s.data s.length needle start with
    | none => some (s, count)
    | some pos =>
      let s1 := reserve s (s.length + repl.length - needle.length)
      match withBuf s1 (bReplaceRange s1.data s.length pos (pos + needle.length) repl) with
      | none => none
      | some s2 => replaceAll needle repl fuel s2 (pos + repl.length) (count + 1)

/-- `gp_str_trim(&str, set, GP_ASCII | flags)` -/
def trimAscii (s : Str) (set : Bytes) (left right : Bool) : Option Str :=
  if s.length = 0 then some s else withBuf s (bTrim s.data s.length set left right)

/-! ### code point sets (UTF-8) -/

/-- `c[0] != 0 && strstr(set, c) != NULL` for the bytes `c` of one code point -/
def memberCp (set c : Bytes) : Bool :=
  match c with
  | [] => false
  | b :: _ => b != 0 && (Gpc.Search.memmem set c).isSome   -- strstr contract (= memmem on the C strings)

/-- bytes of the code point starting at the head (`gp_utf8_codepoint_length` bytes, at least what is there) -/
def headCp (s : Bytes) : Bytes :=
  match s with
  | [] => []
  | b :: _ => s.take (Gpc.Utf8.cpLen b)

/-- number of leading bytes belonging to member code points (left loop of `gp_str_trim`) -/
def leadingMembers (set : Bytes) : (fuel : Nat) → Bytes → Nat
  | 0, _ => 0
  | fuel + 1, s =>
    let c := headCp s
    if c.isEmpty then 0 else
    if memberCp set c then c.length + leadingMembers set fuel (s.drop c.length) else 0

/-- start index of the last code point: scan back over bytes whose lead-table entry is 0 -/
def lastCpStart (s : Bytes) : (fuel : Nat) → (i : Nat) → Nat
  | 0, i => i
  | fuel + 1, i =>
    match s[i]? with
    | none => i
    | some b => if Gpc.Utf8.cpLen b == 0 && i != 0 then lastCpStart s fuel (i - 1) else i

/-- right loop of `gp_str_trim`: new length -/
def trailingTrim (set : Bytes) : (fuel : Nat) → Bytes → (len : Nat) → Nat
  | 0, _, len => len
  | fuel + 1, s, len =>
    if len = 0 then 0 else
    let i := lastCpStart s len (len - 1)
    match s[i]? with
    | none => len
    | some b =>
      let size := Gpc.Utf8.cpLen b
      let c := (s.drop i).take size
      if memberCp set c then trailingTrim set fuel s (len - size) else len

/-- `gp_str_trim(&str, set, flags)` with a UTF-8 set, on the storage: (buffer, new length) -/
def uTrim (buf : Bytes) (len : Nat) (set : Bytes) (left right : Bool) : Option (Bytes × Nat) :=
  if len = 0 then some (buf, 0) else
  let cur := buf.take len
  let p := if left then leadingMembers set (len + 1) cur else 0
  if left ∧ p ≥ len then some (buf, 0) else
  let len1 := len - p
  match (if left then memmove buf 0 p len1 else some buf) with
  | none => none
  | some b1 =>
    let len2 := if right then trailingTrim set (len1 + 1) (b1.take len1) len1 else len1
    some (b1, len2)

def trimUtf8 (s : Str) (set : Bytes) (left right : Bool) : Option Str :=
  if s.length = 0 then some s else withBuf s (uTrim s.data s.length set left right)

/-- `gp_utf8_find_first_of` / `_not_of` (also `gp_str_find_first_of`): first code point boundary
`≥ start` whose code point is / is not a member -/
def findFirstCp (set : Bytes) (want : Bool) : (fuel : Nat) → Bytes → (i : Nat) → Option Nat
  | 0, _, _ => none
  | fuel + 1, s, i =>
    if i < s.length then
      let c := headCp (s.drop i)
      if c.isEmpty then none else                 -- invalid lead byte: the C loop would not advance
      if memberCp set c == want then some i else findFirstCp set want fuel s (i + c.length)
    else none

/-- `gp_str_split(allocator, str, len, separators)`: the substrings -/
def splitLoop (set : Bytes) : (fuel : Nat) → Bytes → (i : Nat) → List Bytes
  | 0, _, _ => []
  | fuel + 1, s, i =>
    match findFirstCp set true (s.length + 1) s i with
    | none => [s.drop i]
    | some j =>
      (s.drop i).take (j - i) :: (match findFirstCp set false (s.length + 1) s j with
        | none => []
        | some k => splitLoop set fuel s k)

def split (s set : Bytes) : List Bytes :=
  match findFirstCp set false (s.length + 1) s 0 with
  | none => []
  | some i => splitLoop set (s.length + 1) s i

/-- `gp_str_join(&out, strs, separator)` -/
def join (s : Str) (strs : List Bytes) (sep : Bytes) : Option Str :=
  match strs with
  | [] => some { s with length := 0 }
  | _ =>
    let total := (strs.map (·.length)).sum + sep.length * (strs.length - 1)
    let s1 := reserve s total
    let body := (strs.dropLast.map fun x => x ++ sep).flatten ++ (strs.getLastD [])
    withBuf s1 ((memcpyIn s1.data 0 body).map fun b => (b, body.length))

end Gpc.Str
