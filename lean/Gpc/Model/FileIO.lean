import Gpc.Model.Utf8
/-
Model of the piecewise file readers anchored by C16 (src/io.c gp_file_read_line, gp_file_read_until,
gp_file_read_strip) and of gp_str_file (src/string.c).  A file being read is the list of its
remaining bytes; `fgetc` takes the head.  Growth of the destination string does not change what is
read (C04), so the destination is the list of bytes read.
-/
namespace Gpc.FileIO

abbrev Bytes := List UInt8

/-- `gp_file_read_until(out, in, delimiter)`: `none` = end of data (the first `fgetc` met EOF);
otherwise the segment and the rest of the file.  The loop: stop when the bytes read so far end with
the delimiter, else read one more byte, stop at EOF. -/
def untilLoop (delim : Bytes) : Bytes → Bytes → Bytes × Bytes
  | acc, [] => (acc, [])
  | acc, c :: rest =>
    if delim.length ≤ acc.length ∧ acc.drop (acc.length - delim.length) = delim then (acc, c :: rest)
    else untilLoop delim (acc ++ [c]) rest

def readUntil (delim : Bytes) : Bytes → Option (Bytes × Bytes)
  | [] => none
  | c :: rest => some (untilLoop delim [c] rest)

/-- `gp_file_read_line`: the loop tests the last byte read against '\n' -/
def lineLoop : Bytes → UInt8 → Bytes → Bytes × Bytes
  | acc, _, [] => (acc, [])
  | acc, c, d :: rest => if c = 10 then (acc, d :: rest) else lineLoop (acc ++ [d]) d rest

def readLine : Bytes → Option (Bytes × Bytes)
  | [] => none
  | c :: rest => some (lineLoop [c] c rest)

/-- one `fgetc`-based code point read: the lead byte and `gp_utf8_codepoint_length - 1` more bytes (the table
gives 0 for a byte that is not a lead byte: nothing more is read, and nothing of it is stored).
`none` at EOF, also inside a sequence.  Result: (bytes in the buffer, bytes that get stored, rest). -/
def readCp : Bytes → Option (Bytes × Bytes × Bytes)
  | [] => none
  | c :: rest =>
    let n := Gpc.Utf8.cpLen c
    if rest.length + 1 < n then none
    else some (c :: rest.take (n - 1), (c :: rest.take (n - 1)).take n, rest.drop (n - 1))

/-- `strstr(char_set, codepoint) != NULL` where `codepoint` is the NUL-terminated buffer: the bytes up to a NUL -/
def isInfix (needle hay : Bytes) : Bool :=
  (List.range (hay.length + 1)).any fun i => (hay.drop i).take needle.length = needle

def inSet (set cp : Bytes) : Bool := isInfix (cp.takeWhile (· ≠ 0)) set

/-- `gp_file_read_strip(out, in, char_set)`: skip code points of the set, then collect until one of the set
(which is consumed) or the end of the file; `none` = nothing left but characters of the set -/
def stripSkip (set : Bytes) : Nat → Bytes → Option (Bytes × Bytes)
  | 0, _ => none
  | fuel + 1, file =>
    match readCp file with
    | none => none
    | some (buf, stored, rest) => if inSet set buf then stripSkip set fuel rest else some (stored, rest)

def stripCollect (set : Bytes) : Nat → Bytes → Bytes → Bytes × Bytes
  | 0, acc, file => (acc, file)
  | fuel + 1, acc, file =>
    match readCp file with
    | none => (acc, [])                                   -- end of file: the run is returned (the rest is consumed)
    | some (buf, stored, rest) => if inSet set buf then (acc, rest) else stripCollect set fuel (acc ++ stored) rest

def readStrip (set : Bytes) (file : Bytes) : Option (Bytes × Bytes) :=
  match stripSkip set (file.length + 1) file with
  | none => none
  | some (cp, rest) => some (stripCollect set (rest.length + 1) cp rest)

/-- reading a whole file piecewise: the segments until end of data -/
def readAll (rd : Bytes → Option (Bytes × Bytes)) : Nat → Bytes → List Bytes
  | 0, _ => []
  | fuel + 1, file =>
    match rd file with
    | none => []
    | some (seg, rest) => seg :: readAll rd fuel rest
/-! ### `gp_str_file`: whole-file read, write and append over an environment that may fail

The operating system is a parameter: what `stat` reports, whether `fopen` succeeds, which bytes the
stream delivers when it is finally read, how many bytes the device accepts, whether `fclose` can flush. -/

structure ReadEnv where
  statSize : Option Nat        -- `stat`: the size sampled; `none` = the call fails (no such file)
  opens : Bool                 -- `fopen(path, "r")` succeeds
  stream : Bytes               -- the bytes the stream can deliver when it is read (the file as it is *then*)

/-- read mode: the return value and, on success, the new contents of the destination.  `fread` is asked for
the sampled size and delivers at most that many bytes; fewer is a failure. -/
def strFileRead (e : ReadEnv) : Int × Option Bytes :=
  match e.statSize with
  | none => (-1, none)
  | some n =>
    if !e.opens then (-1, none)
    else if (e.stream.take n).length ≠ n then (-1, none)
    else (0, some (e.stream.take n))

structure WriteEnv where
  opens : Bool                 -- `fopen(path, "wb" / "ab")` succeeds
  accepts : Nat                -- bytes `fwrite` reports as written (all of them unless the device fails meanwhile)
  closeOk : Bool               -- `fclose` flushes what is still buffered

/-- write / append mode: the return value and the file's contents afterwards (`none`: not determined, the
write failed part-way) -/
def strFileWrite (e : WriteEnv) (append : Bool) (old s : Bytes) : Int × Option Bytes :=
  if !e.opens then (-1, some old)
  else if e.accepts < s.length then (-1, none)
  else if !e.closeOk then (-1, none)
  else (0, some ((if append then old else []) ++ s))

/-- an environment in which nothing fails and the file holds `file` -/
def quietRead (file : Bytes) : ReadEnv := { statSize := some file.length, opens := true, stream := file }
def quietWrite (s : Bytes) : WriteEnv := { opens := true, accepts := s.length, closeOk := true }

end Gpc.FileIO
