/* T-gen extractor for C11: runs the freshly compiled simple case functions over EVERY code point
 * and prints the non-identity mappings.  gp_u32_simple_fold is static in string.c, hence the include. */
#include "string.c"
#include <stdio.h>
uint32_t gp_u32_to_upper(uint32_t);
uint32_t gp_u32_to_lower(uint32_t);
uint32_t gp_u32_to_title(uint32_t);
int main(void)
{
    for (uint32_t c = 0; c < 0x110000; c++) {
        uint32_t u = gp_u32_to_upper(c), l = gp_u32_to_lower(c), t = gp_u32_to_title(c), f = gp_u32_simple_fold(c);
        if (u != c) printf("U %X %X\n", c, u);
        if (l != c) printf("L %X %X\n", c, l);
        if (t != c) printf("T %X %X\n", c, t);
        if (f != c) printf("F %X %X\n", c, f);
    }
    return 0;
}
