/-
Line-protocol helpers shared by the model driver (`Main.lean`).  Core Lean only.
-/
namespace Gpc.Proto

def hexVal (c : Char) : Option Nat :=
  if '0' ≤ c ∧ c ≤ '9' then some (c.toNat - '0'.toNat)
  else if 'a' ≤ c ∧ c ≤ 'f' then some (c.toNat - 'a'.toNat + 10)
  else if 'A' ≤ c ∧ c ≤ 'F' then some (c.toNat - 'A'.toNat + 10)
  else none

def parseHexAux : List Char → List UInt8 → Option (List UInt8)
  | [], acc => some acc.reverse
  | [_], _ => none
  | a :: b :: rest, acc =>
    match hexVal a, hexVal b with
    | some x, some y => parseHexAux rest (UInt8.ofNat (x * 16 + y) :: acc)
    | _, _ => none

/-- "-" is the empty byte string, otherwise an even number of hex digits. -/
def parseHex (s : String) : Option (List UInt8) :=
  if s == "-" then some [] else parseHexAux s.toList []

def hexDigit (n : Nat) : Char :=
  if n < 10 then Char.ofNat (n + '0'.toNat) else Char.ofNat (n - 10 + 'a'.toNat)

def toHex (bs : List UInt8) : String :=
  if bs.isEmpty then "-" else
  String.ofList (bs.flatMap fun b => [hexDigit (b.toNat / 16), hexDigit (b.toNat % 16)])

def natToHex (n : Nat) : String := String.ofList (Nat.toDigits 16 n)

def parseInt (s : String) : Option Int := s.toInt?

def tokens (line : String) : List String :=
  (line.trimAscii.toString.splitOn " ").filter (· ≠ "")

end Gpc.Proto
