"""C01 — allocator blocks are exclusive, aligned, big enough; resize/rewind keep data."""
import re
import vlib

MARKS = ["CORRUPT", "OVERLAP", "OUTSIDE-OBTAINED-MEMORY", "PREFIX-LOST", "NOT-ZEROED", "LEAK", "BAD-FREE", "MISALIGNED"]


def oracle(case, out):
    """the harness evaluates the property on the real blocks (pattern-filled, fully written):
    alignment, inside memory obtained from the heap, pairwise disjoint, contents of every live block
    intact after every operation, realloc keeps min(old,new) bytes, alloc_zeroes zeroed, storage
    released exactly once on delete"""
    for m in MARKS:
        for i, l in enumerate(out):
            if m in l:
                return "%s after op %d (%s): %s" % (m, i, case[i] if i < len(case) else "?", l)
    return None


def gen_case(r, cfg, kind=None, big_align=False):
    kind = kind or r.choice(["arena"] * 6 + ["shared", "scope", "scratch", "heap"])
    lines = []
    if kind == "arena" or kind == "shared":
        cap = r.choice([0, 1, 7, 16, 100, 255, 256, 4096, 1 << 16])
        g8 = r.choice([0, 1, 2, 4, 8, 12, 16, 32])
        mx = r.choice([1, 16, 100, 256, 1 << 15, 1 << 20, 2**64 - 1])
        al = r.choice([32, 64]) if big_align else r.choice([1, 2, 4, 8, 16, 16, 16])
        extra = cfg["shared_extra"] if kind == "shared" else 0
        lines.append("ar new %s %d %d %d %d" % (kind, cap, g8, mx, al))
        model_first = "ar new %s %d %d %d %d" % (kind, cap + extra, g8, mx, al)
    elif kind == "scope":
        cap = r.choice([0, 1, 16, 100, 256, 5000])
        al, g8, mx = cfg["scope_align"], cfg["scope_g8"], cfg["scope_max"]
        lines.append("ar new scope %d %d %d %d" % (cap, g8, mx, al))
        model_first = "ar new scope %d %d %d %d" % (cap if cap else cfg["scope_cap0"], g8, mx, al)
    elif kind == "scratch":
        al, g8, mx = cfg["scratch_align"], cfg["scratch_g8"], cfg["scratch_max"]
        lines.append("ar new scratch %d %d %d %d" % (cfg["scratch_cap"], g8, mx, al))
        model_first = lines[0]
    else:
        al, mx = 16, 1 << 12
        lines.append("ar new heap 0 0 0 16")
        model_first = lines[0]
    live, size, nid = [], {}, 0
    dlen = dcap = 0; barrier = 0; defers = kind == "scope" and r.random() < 0.7
    nops = r.randrange(1, 60) if r.random() < 0.85 else r.randrange(60, 400)
    mxs = min(mx, 1 << 16)
    total = 0
    def pick_size():
        k = r.random()
        if k < 0.25: return r.choice([0, 1, max(al - 1, 0), al, al + 1])
        if k < 0.7: return r.randrange(1, 1 << r.randrange(1, 12))
        if k < 0.9: return max(0, r.choice([mxs - 1, mxs, mxs + 1, mxs // 2, 3 * mxs]))
        return r.randrange(0, 300)
    for _ in range(nops):
        k = r.random()
        if total > (8 << 20):
            break
        if defers and r.random() < 0.3:
            # gp_scope_defer: the defer stack is allocated from the scope itself (16-byte header + 4 entries of 16 bytes,
            # doubled by a fresh block when full), right between the caller's blocks
            if dcap == 0: dlen, dcap, barrier = 1, 4, nid
            elif dlen == dcap: dlen, dcap, barrier = dlen + 1, dcap * 2, nid
            else: dlen += 1
            lines.append("ar defer 16 16")
        elif k < 0.5 or not live:
            n = pick_size(); total += n
            lines.append("ar %s %d" % ("alloc" if r.random() < 0.8 else "allocz", n))
            live.append(nid); size[nid] = n; nid += 1
        elif k < 0.75:
            i = live[-1] if r.random() < 0.5 else r.choice(live)
            m = r.random()
            n = size[i] if m < 0.15 else (r.randrange(0, size[i] + 1) if m < 0.45 else size[i] + pick_size())
            total += n
            lines.append("ar realloc %d %d" % (i, n))
            live.remove(i); live.append(i); size[i] = n
        elif kind != "heap":
            cand = [i for i in live if i >= barrier]      # never rewind the live defer stack away
            if not cand: continue
            i = r.choice([cand[0], cand[-1], r.choice(cand)])
            lines.append("ar rewind %d" % i)
            live = live[:live.index(i)]
        else:
            i = r.choice(live)
            lines.append("ar free %d" % i)
            live.remove(i)
    lines.append("ar delete")
    lines.append("ar end")
    return lines, [model_first] + lines[1:]


def small_exhaustive(cfg):
    """all op sequences of length <= 4 over a small alphabet for a few configurations"""
    import itertools
    out = []
    confs = [(16, 16, 64, 16), (64, 16, 100, 16), (32, 8, 32, 8), (0, 16, 1 << 15, 16)]
    alpha = ["a0", "a1", "a17", "a64", "a200", "rl", "rf", "wl", "wf"]
    for cap, g8, mx, al in confs:
        for L in range(1, 5):
            for seq in itertools.product(alpha, repeat=L):
                lines = ["ar new arena %d %d %d %d" % (cap, g8, mx, al)]
                live, size, nid, ok = [], {}, 0, True
                for op in seq:
                    if op[0] == "a":
                        n = int(op[1:]); lines.append("ar alloc %d" % n); live.append(nid); size[nid] = n; nid += 1
                    elif not live:
                        ok = False; break
                    elif op[0] == "r":
                        i = live[-1] if op[1] == "l" else live[0]
                        n = size[i] + 40 if (nid + len(lines)) % 2 else size[i] // 2
                        lines.append("ar realloc %d %d" % (i, n)); live.remove(i); live.append(i); size[i] = n
                    else:
                        i = live[-1] if op[1] == "l" else live[0]
                        lines.append("ar rewind %d" % i); live = live[:live.index(i)]
                if ok:
                    lines += ["ar delete", "ar end"]
                    out.append((lines, lines))
    return out


def run(ctx):
    ctx.rules.append("a case = one operation script (new / alloc / alloc_zeroes / realloc last & non-last / rewind to "
                     "first,middle,last / delete) on an arena (random capacity, growth k/8, max_size, alignment), shared "
                     "arena, scope, scratch arena (fresh thread) or the heap allocator; every block is pattern-filled over "
                     "its full requested size and all live blocks are re-verified after every op; plus all scripts of length "
                     "<= 4 over a 9-op alphabet for 4 configurations; non-trivial = at least 2 ops; distinct by script text")
    ctx.assumptions += ["malloc returns fresh, 16-aligned regions of the requested size (contract; ASan guards them)",
                        "growth_coefficient*capacity is exact in double for k/8 coefficients (model uses k*cap/8)",
                        "alignment is a power of two <= 16 (32/64: known finding, see known_findings.json)"]
    exe = ctx.build_harness("c01", exclude=("memory",))
    rc, out, err = vlib.sh([exe, "--config"])
    if rc != 0:
        raise vlib.InfraError("c01 --config failed: " + err[-500:])
    cfg = {k: int(v) for k, v in (kv.split("=") for kv in out.split())}
    ctx.extra_cov["config_read_from_implementation"] = cfg
    ctx.build_model()
    ctx.prove()
    if ctx.replay_cases is not None:
        pairs = [(c, c) for c in ctx.replay_cases]
    else:
        quick = ctx.tier == "quick"
        pairs = [(c, c) for c in vlib.load_corpus("C01")]
        pairs += small_exhaustive(cfg) if not quick else small_exhaustive(cfg)[::7]
        for _ in range(2500 if quick else 50000):
            pairs.append(gen_case(ctx.rng, cfg))
        for _ in range(60 if quick else 1000):
            pairs.append(gen_case(ctx.rng, cfg, kind="arena", big_align=True))
    cases = [p[0] for p in pairs]
    mcases = [p[1] for p in pairs]
    ops = {}
    for c in cases:
        for l in c:
            ops[l.split()[1]] = ops.get(l.split()[1], 0) + 1
    ctx.extra_cov["op_distribution"] = ops
    ctx.correspond("arena-scripts", exe, cases, oracle=oracle, model_cases=mcases,
                   nontrivial=lambda c: len(c) >= 4, env={"ASAN_OPTIONS": "detect_leaks=0:allocator_may_return_null=1:max_malloc_fill_size=0"})
