import Gpc.Model.TestFw
/-!
# C19 — the unit-test framework's verdict and tallies are faithful

Programs here are single-threaded (every operation tagged `false`); the two-thread behaviour is tied
by the correspondence run only.
-/
namespace Gpc.TestFw

/-- a failure is pending: the current test / suite is already marked, or a failed one was counted -/
def pending (l : Local) (g : Global) : Prop :=
  (l.curTest.isSome ∧ l.testFailed = true) ∨ (l.curSuite.isSome ∧ l.suiteFailed = true) ∨
  g.testsFailed ≠ 0 ∨ g.suitesFailed ≠ 0

/-- property-level definition: "some expectation fails while a test or suite is running, or some
assertion fails", along the operations from a point where a test (`hasT`) / suite (`hasS`) is running -/
def marks : List Op → (hasT hasS : Bool) → Bool
  | [], _, _ => false
  | .suite n :: r, _, _ => marks r false n.isSome
  | .test n :: r, _, hasS => marks r n.isSome hasS
  | .expect false :: r, hasT, hasS => (hasT || hasS) || marks r hasT hasS
  | .assert false :: _, _, _ => true
  | .endTesting :: r, _, _ => marks r false false
  | .expect true :: r, hasT, hasS => marks r hasT hasS
  | .assert true :: r, hasT, hasS => marks r hasT hasS

/-- bookkeeping invariant: a running test / suite has been counted and the exit handler is armed -/
structure Inv (l : Local) (g : Global) : Prop where
  t_counted : l.curTest.isSome → 0 < g.tests
  s_counted : l.curSuite.isSome → 0 < g.suites
  armed : (0 < g.tests ∨ 0 < g.suites ∨ g.testsFailed ≠ 0 ∨ g.suitesFailed ≠ 0) → g.armed = true
  tf_le : g.testsFailed ≠ 0 → 0 < g.tests
  sf_le : g.suitesFailed ≠ 0 → 0 < g.suites

def tag (ops : List Op) : List (Bool × Op) := ops.map fun o => (false, o)

end Gpc.TestFw

namespace Gpc.TestFw

/-! ## step lemmas -/

theorem endTest_spec (l : Local) (g : Global) (h : Inv l g) :
    Inv (endTest l g).1 (endTest l g).2 ∧ (endTest l g).1.curTest = none ∧
    (endTest l g).1.curSuite = l.curSuite ∧ (endTest l g).1.suiteFailed = l.suiteFailed ∧
    (endTest l g).2.tests = g.tests ∧ (endTest l g).2.suites = g.suites ∧
    (pending (endTest l g).1 (endTest l g).2 ↔ pending l g) := by
  obtain ⟨h1, h2, h3, h4, h5⟩ := h
  unfold endTest pending
  cases hc : l.curTest <;> cases hf : l.testFailed <;>
    simp_all <;> (try constructor) <;> (try constructor) <;> (try omega) <;> (try (intros; omega)) <;> grind

theorem endSuite_spec (l : Local) (g : Global) (h : Inv l g) :
    Inv (endSuite l g).1 (endSuite l g).2 ∧ (endSuite l g).1.curSuite = none ∧
    (endSuite l g).1.curTest = l.curTest ∧ (endSuite l g).1.testFailed = l.testFailed ∧
    (endSuite l g).2.tests = g.tests ∧ (endSuite l g).2.suites = g.suites ∧
    (pending (endSuite l g).1 (endSuite l g).2 ↔ pending l g) := by
  obtain ⟨h1, h2, h3, h4, h5⟩ := h
  unfold endSuite pending
  cases hc : l.curSuite <;> cases hf : l.suiteFailed <;>
    simp_all <;> (try constructor) <;> (try constructor) <;> (try omega) <;> (try (intros; omega)) <;> grind

theorem startTest_spec (l : Local) (g : Global) (n : Option Nat) (h : Inv l g) (hn : l.curTest = none)
    (ha : g.armed = true) :
    Inv (startTest l g n).1 (startTest l g n).2 ∧ (startTest l g n).1.curTest.isSome = n.isSome ∧
    (startTest l g n).1.curSuite = l.curSuite ∧ (startTest l g n).1.suiteFailed = l.suiteFailed ∧
    (pending (startTest l g n).1 (startTest l g n).2 ↔ pending l g) := by
  obtain ⟨h1, h2, h3, h4, h5⟩ := h
  unfold startTest pending
  cases n <;> simp_all <;> (try constructor) <;> (try constructor) <;> (try omega) <;> (try (intros; omega)) <;> grind

theorem startSuite_spec (l : Local) (g : Global) (n : Option Nat) (h : Inv l g) (hn : l.curSuite = none)
    (ha : g.armed = true) :
    Inv (startSuite l g n).1 (startSuite l g n).2 ∧ (startSuite l g n).1.curSuite.isSome = n.isSome ∧
    (startSuite l g n).1.curTest = l.curTest ∧ (startSuite l g n).1.testFailed = l.testFailed ∧
    (pending (startSuite l g n).1 (startSuite l g n).2 ↔ pending l g) := by
  obtain ⟨h1, h2, h3, h4, h5⟩ := h
  unfold startSuite pending
  cases n <;> simp_all <;> (try constructor) <;> (try constructor) <;> (try omega) <;> (try (intros; omega)) <;> grind

theorem arm_spec (l : Local) (g : Global) (h : Inv l g) :
    Inv l { g with armed := true } ∧ (pending l { g with armed := true } ↔ pending l g) := by
  obtain ⟨h1, h2, h3, h4, h5⟩ := h
  exact ⟨⟨h1, h2, fun _ => rfl, h4, h5⟩, Iff.rfl⟩

theorem endTest_armed (l : Local) (g : Global) : (endTest l g).2.armed = g.armed := by
  unfold endTest; split <;> (try split) <;> rfl
theorem endSuite_armed (l : Local) (g : Global) : (endSuite l g).2.armed = g.armed := by
  unfold endSuite; split <;> (try split) <;> rfl
theorem startTest_armed (l : Local) (g : Global) (n) : (startTest l g n).2.armed = g.armed := by
  unfold startTest; split <;> rfl
theorem startSuite_armed (l : Local) (g : Global) (n) : (startSuite l g n).2.armed = g.armed := by
  unfold startSuite; split <;> rfl
theorem doTest_armed (l : Local) (g : Global) (n) : (doTest l g n).2.armed = true := by
  unfold doTest; simp only [startTest_armed, endTest_armed]

theorem doTest_spec (l : Local) (g : Global) (n : Option Nat) (h : Inv l g) :
    Inv (doTest l g n).1 (doTest l g n).2 ∧
    ((doTest l g n).1.curTest.isSome = n.isSome) ∧
    ((doTest l g n).1.curSuite = l.curSuite) ∧ ((doTest l g n).1.suiteFailed = l.suiteFailed) ∧
    (pending (doTest l g n).1 (doTest l g n).2 ↔ pending l g) := by
  obtain ⟨i0, p0⟩ := arm_spec l g h
  obtain ⟨i1, c1, s1, f1, _, _, p1⟩ := endTest_spec l _ i0
  obtain ⟨i2, c2, s2, f2, p2⟩ := startTest_spec _ _ n i1 c1 (by rw [endTest_armed])
  unfold doTest
  exact ⟨i2, c2, by rw [s2, s1], by rw [f2, f1], by rw [p2, p1, p0]⟩

theorem doSuite_spec (l : Local) (g : Global) (n : Option Nat) (h : Inv l g) :
    Inv (doSuite l g n).1 (doSuite l g n).2 ∧
    ((doSuite l g n).1.curTest.isSome = false) ∧
    ((doSuite l g n).1.curSuite.isSome = n.isSome) ∧
    (pending (doSuite l g n).1 (doSuite l g n).2 ↔ pending l g) := by
  obtain ⟨i1, c1, _, _, p1⟩ := doTest_spec l g none h
  obtain ⟨i2, s2, c2, _, _, _, p2⟩ := endSuite_spec _ _ i1
  obtain ⟨i3, s3, c3, _, p3⟩ := startSuite_spec _ _ n i2 s2 (by rw [endSuite_armed, doTest_armed])
  unfold doSuite
  refine ⟨i3, ?_, s3, by rw [p3, p2, p1]⟩
  rw [c3, c2]; simpa using c1

theorem doFail_spec (l : Local) (g : Global) (h : Inv l g) :
    Inv (doFail l g).1 (doFail l g).2 ∧ (doFail l g).1.curTest = l.curTest ∧
    (doFail l g).1.curSuite = l.curSuite ∧
    (pending (doFail l g).1 (doFail l g).2 ↔
      pending l g ∨ l.curTest.isSome = true ∨ l.curSuite.isSome = true) := by
  obtain ⟨h1, h2, h3, h4, h5⟩ := h
  unfold doFail pending
  refine ⟨⟨h1, h2, h3, h4, h5⟩, rfl, rfl, ?_⟩
  cases l.curTest <;> cases l.curSuite <;> simp <;> grind

theorem doEndTesting_spec (l : Local) (g : Global) (h : Inv l g) :
    Inv (doEndTesting l g).1 (doEndTesting l g).2.1 ∧
    ((doEndTesting l g).2.2 = some 1 ∨ (doEndTesting l g).2.2 = none) ∧
    ((doEndTesting l g).2.2 = some 1 ↔ pending l g) ∧
    ((doEndTesting l g).2.2 = none → (doEndTesting l g).1.curTest.isSome = false ∧
      (doEndTesting l g).1.curSuite.isSome = false ∧
      ¬ pending (doEndTesting l g).1 (doEndTesting l g).2.1) := by
  unfold doEndTesting
  split
  · obtain ⟨h1, h2, h3, h4, h5⟩ := h
    have hp : ¬ pending l g := by
      unfold pending; intro hp
      rcases hp with ⟨a, _⟩ | ⟨a, _⟩ | a | a
      · have := h1 a; omega
      · have := h2 a; omega
      · have := h4 a; omega
      · have := h5 a; omega
    refine ⟨⟨h1, h2, h3, h4, h5⟩, Or.inr rfl, by simp [hp], fun _ => ⟨?_, ?_, hp⟩⟩
    · cases hc : l.curTest with
      | none => rfl
      | some t => have := h1 (by simp [hc]); omega
    · cases hc : l.curSuite with
      | none => rfl
      | some t => have := h2 (by simp [hc]); omega
  · obtain ⟨i, c, s, p⟩ := doSuite_spec l g none h
    generalize doSuite l g none = r at *
    obtain ⟨l', g'⟩ := r
    simp only at i c s p
    obtain ⟨h1, h2, h3, h4, h5⟩ := i
    have hp' : pending l' g' ↔ (g'.testsFailed ≠ 0 ∨ g'.suitesFailed ≠ 0) := by
      unfold pending; simp at c s; simp [c, s]
    by_cases hq : g'.testsFailed ≠ 0 ∨ g'.suitesFailed ≠ 0
    · simp only [hq, if_true]
      refine ⟨⟨h1, h2, h3, h4, h5⟩, by simp, by simp [← p, hp', hq], by simp⟩
    · simp only [hq, if_false]
      refine ⟨⟨by simpa using c, by simpa using s, fun hh => by simp at hh, by simp, by simp⟩,
        by simp, by simp [← p, hp', hq], fun _ => ⟨c, s, ?_⟩⟩
      unfold pending; simp at c s; simp [c, s]

theorem atExit_zero (l : Local) (g : Global) (h : Inv l g) :
    (atExit l g 0).2 ≠ 0 ↔ pending l g := by
  obtain ⟨_, h12, hiff, _⟩ := doEndTesting_spec l g h
  unfold atExit
  split
  · simp only
    rcases h12 with h1 | h1
    · simp [h1, ← hiff]
    · rw [h1]; simp only [Option.getD_none, ne_eq, not_true_eq_false, false_iff]
      rw [← hiff, h1]; simp
  · rename_i ha
    obtain ⟨h1, h2, h3, h4, h5⟩ := h
    simp only [ne_eq, not_true_eq_false, false_iff]
    unfold pending; intro hp
    apply ha; apply h3
    rcases hp with ⟨a, _⟩ | ⟨a, _⟩ | a | a
    · exact Or.inl (h1 a)
    · exact Or.inr (Or.inl (h2 a))
    · exact Or.inr (Or.inr (Or.inl a))
    · exact Or.inr (Or.inr (Or.inr a))

theorem atExit_one (l : Local) (g : Global) (h : Inv l g) : (atExit l g 1).2 ≠ 0 := by
  obtain ⟨_, h12, _, _⟩ := doEndTesting_spec l g h
  unfold atExit
  split
  · rcases h12 with h1 | h1 <;> simp [h1]
  · simp

theorem run_nil (l l1 : Local) (g : Global) : run [] l l1 g = atExit l g 0 := by
  unfold run; rfl

theorem run_cons (op : Op) (ops : List (Bool × Op)) (l l1 : Local) (g : Global) :
    run ((false, op) :: ops) l l1 g =
      match (step l g op).2.2 with
      | some st => atExit (step l g op).1 (step l g op).2.1 st
      | none => run ops (step l g op).1 l1 (step l g op).2.1 := by
  rw [run]; simp only [Bool.false_eq_true, if_false]; cases (step l g op).2.2 <;> rfl

/-- what one operation does to the invariant and to the "failure pending" state -/
theorem step_spec (l : Local) (g : Global) (op : Op) (h : Inv l g) :
    Inv (step l g op).1 (step l g op).2.1 ∧
    ((step l g op).2.2 = some 1 ∨ (step l g op).2.2 = none) ∧
    ((step l g op).2.2 = some 1 → pending l g ∨ op = .assert false) ∧
    ((step l g op).2.2 = none → ∀ ops,
      (pending (step l g op).1 (step l g op).2.1 ∨
        marks ops (step l g op).1.curTest.isSome (step l g op).1.curSuite.isSome = true) ↔
      (pending l g ∨ marks (op :: ops) l.curTest.isSome l.curSuite.isSome = true)) := by
  cases op with
  | suite n =>
    obtain ⟨i, c, s, p⟩ := doSuite_spec l g n h
    simp only [step]
    refine ⟨i, by simp, by simp, fun _ ops => ?_⟩
    rw [p, c, s]; simp [marks]
  | test n =>
    obtain ⟨i, c, s, _, p⟩ := doTest_spec l g n h
    simp only [step]
    refine ⟨i, by simp, by simp, fun _ ops => ?_⟩
    rw [p, c, s]; simp [marks]
  | expect ok =>
    cases ok with
    | true => simp only [step]; exact ⟨h, by simp, by simp, fun _ ops => by simp [marks]⟩
    | false =>
      obtain ⟨i, c, s, p⟩ := doFail_spec l g h
      simp only [step]
      refine ⟨i, by simp, by simp, fun _ ops => ?_⟩
      rw [p, c, s]; simp only [marks, Bool.or_eq_true]; grind
  | assert ok =>
    cases ok with
    | true => simp only [step]; exact ⟨h, by simp, by simp, fun _ ops => by simp [marks]⟩
    | false =>
      obtain ⟨i, _⟩ := doFail_spec l g h
      simp only [step]
      exact ⟨i, by simp, by simp, by simp⟩
  | endTesting =>
    obtain ⟨i, h12, hiff, hn⟩ := doEndTesting_spec l g h
    simp only [step]
    refine ⟨i, h12, fun e => Or.inl (hiff.1 e), fun e ops => ?_⟩
    obtain ⟨c, s, np⟩ := hn e
    have np0 : ¬ pending l g := fun hp => by rw [← hiff, e] at hp; simp at hp
    rw [c, s]; simp [marks, np, np0]

/-- C19, exit status: from any consistent state, the process ends with a non-zero status iff a
failure is already pending or one is marked by the remaining operations -/
theorem exit_failure_iff_gen (ops : List Op) : ∀ (l l1 : Local) (g : Global), Inv l g →
    ((run (tag ops) l l1 g).2 ≠ 0 ↔
      pending l g ∨ marks ops l.curTest.isSome l.curSuite.isSome = true) := by
  induction ops with
  | nil => intro l l1 g h; simp only [tag, List.map_nil, run_nil, marks]; simpa using atExit_zero l g h
  | cons op ops ih =>
    intro l l1 g h
    obtain ⟨i, h12, hs, hn⟩ := step_spec l g op h
    have : tag (op :: ops) = (false, op) :: tag ops := rfl
    rw [this, run_cons]
    rcases h12 with e | e
    · rw [e]; simp only
      have := hs e
      refine ⟨fun _ => ?_, fun _ => atExit_one _ _ i⟩
      rcases this with hp | rfl
      · exact Or.inl hp
      · exact Or.inr (by cases hT : l.curTest.isSome <;> cases hS : l.curSuite.isSome <;> simp [marks])
    · rw [e]; simp only
      rw [ih _ _ _ i]; exact hn e ops

theorem inv_init : Inv {} {} := ⟨by simp, by simp, by simp, by simp, by simp⟩

/-- **C19 (exit status).**  A single-threaded test program ends with a failure status iff some
expectation failed while a test or suite was running or some assertion failed. -/
theorem exit_failure_iff (ops : List Op) :
    (runProgram (tag ops)).2 ≠ 0 ↔ marks ops false false = true := by
  have := exit_failure_iff_gen ops {} {} {} inv_init
  unfold runProgram; rw [this]
  simp [pending]

/-- a failing assertion ends the process at once: nothing after it is executed -/
theorem assert_false_ends (pre post post' : List Op) : ∀ (l l1 : Local) (g : Global),
    run (tag (pre ++ .assert false :: post)) l l1 g = run (tag (pre ++ .assert false :: post')) l l1 g := by
  induction pre with
  | nil =>
    intro l l1 g
    have e : ∀ p, tag ([] ++ Op.assert false :: p) = (false, Op.assert false) :: tag p := fun _ => rfl
    rw [e, e, run_cons, run_cons]; simp [step]
  | cons op pre ih =>
    intro l l1 g
    have e : ∀ p, tag (op :: pre ++ Op.assert false :: p) = (false, op) :: tag (pre ++ Op.assert false :: p) := fun _ => rfl
    rw [e, e, run_cons, run_cons]
    cases (step l g op).2.2 with
    | some st => rfl
    | none => exact ih _ _ _

/-- ... and the status is then a failure -/
theorem assert_false_fails (pre post : List Op) :
    (runProgram (tag (pre ++ .assert false :: post))).2 ≠ 0 := by
  rw [exit_failure_iff]
  suffices h : ∀ a b, marks (pre ++ .assert false :: post) a b = true from h _ _
  induction pre with
  | nil => intro a b; simp [marks]
  | cons op pre ih =>
    intro a b
    cases op with
    | expect ok => cases ok <;> simp [marks, ih]
    | assert ok => cases ok <;> simp [marks, ih]
    | _ => simp [marks, ih]

/-! ## verdict lines -/

/-- the operations that are actually executed (the process may end early) -/
def trace : List Op → Local → Global → List Op
  | [], _, _ => []
  | op :: ops, l, g =>
    match (step l g op).2.2 with
    | some _ => [op]
    | none => op :: trace ops (step l g op).1 (step l g op).2.1

/-- property-level expectation for tests: each started test with its verdict (`true` = passed), in
order of starting; `cur` is the running test and whether it is unmarked so far.  A test is closed
by the next test / suite / end_testing or by the end of the process. -/
def testVerdicts : List Op → Option (Nat × Bool) → List (Nat × Bool)
  | [], cur => cur.toList
  | .test n :: r, cur => cur.toList ++ testVerdicts r (n.map fun n => (n, true))
  | .suite _ :: r, cur => cur.toList ++ testVerdicts r none
  | .endTesting :: r, cur => cur.toList ++ testVerdicts r none
  | .expect false :: r, cur => testVerdicts r (cur.map fun c => (c.1, false))
  | .assert false :: r, cur => testVerdicts r (cur.map fun c => (c.1, false))
  | .expect true :: r, cur => testVerdicts r cur
  | .assert true :: r, cur => testVerdicts r cur

/-- same for suites: closed by the next suite / end_testing / end of process -/
def suiteVerdicts : List Op → Option (Nat × Bool) → List (Nat × Bool)
  | [], cur => cur.toList
  | .suite n :: r, cur => cur.toList ++ suiteVerdicts r (n.map fun n => (n, true))
  | .endTesting :: r, cur => cur.toList ++ suiteVerdicts r none
  | .expect false :: r, cur => suiteVerdicts r (cur.map fun c => (c.1, false))
  | .assert false :: r, cur => suiteVerdicts r (cur.map fun c => (c.1, false))
  | .test _ :: r, cur => suiteVerdicts r cur
  | .expect true :: r, cur => suiteVerdicts r cur
  | .assert true :: r, cur => suiteVerdicts r cur

/-- the PASSED / FAILED lines for tests in an output -/
def tvOf : List Ev → List (Nat × Bool)
  | [] => []
  | .testVerdict n p :: r => (n, p) :: tvOf r
  | _ :: r => tvOf r
def svOf : List Ev → List (Nat × Bool)
  | [] => []
  | .suiteVerdict n p :: r => (n, p) :: svOf r
  | _ :: r => svOf r

def curT (l : Local) : Option (Nat × Bool) := l.curTest.map fun n => (n, !l.testFailed)
def curS (l : Local) : Option (Nat × Bool) := l.curSuite.map fun n => (n, !l.suiteFailed)

theorem tvOf_append (a b : List Ev) : tvOf (a ++ b) = tvOf a ++ tvOf b := by
  induction a with
  | nil => rfl
  | cons e a ih => cases e <;> simp [tvOf, ih]
theorem svOf_append (a b : List Ev) : svOf (a ++ b) = svOf a ++ svOf b := by
  induction a with
  | nil => rfl
  | cons e a ih => cases e <;> simp [svOf, ih]

theorem endTest_out (l : Local) (g : Global) :
    tvOf (endTest l g).2.out = tvOf g.out ++ (curT l).toList ∧ svOf (endTest l g).2.out = svOf g.out ∧
    curS (endTest l g).1 = curS l := by
  unfold endTest curT curS
  cases l.curTest <;> cases l.testFailed <;> simp [tvOf_append, svOf_append, tvOf, svOf]

theorem endSuite_out (l : Local) (g : Global) :
    svOf (endSuite l g).2.out = svOf g.out ++ (curS l).toList ∧ tvOf (endSuite l g).2.out = tvOf g.out ∧
    curT (endSuite l g).1 = curT l := by
  unfold endSuite curT curS
  cases l.curSuite <;> cases l.suiteFailed <;> simp [tvOf_append, svOf_append, tvOf, svOf]

theorem startTest_out (l : Local) (g : Global) (n : Option Nat) (h : l.curTest = none) :
    (startTest l g n).2.out = g.out ∧ curT (startTest l g n).1 = n.map (fun n => (n, true)) ∧
    curS (startTest l g n).1 = curS l := by
  unfold startTest curT curS
  cases n <;> simp [h]

theorem startSuite_out (l : Local) (g : Global) (n : Option Nat) (h : l.curSuite = none) :
    tvOf (startSuite l g n).2.out = tvOf g.out ∧ svOf (startSuite l g n).2.out = svOf g.out ∧
    curS (startSuite l g n).1 = n.map (fun n => (n, true)) ∧
    curT (startSuite l g n).1 = curT l := by
  unfold startSuite curT curS
  cases n <;> simp [h, tvOf_append, svOf_append, tvOf, svOf]

theorem endTest_cur (l : Local) (g : Global) : (endTest l g).1.curTest = none := by
  unfold endTest; cases h : l.curTest <;> simp [h] <;> split <;> rfl
theorem endSuite_cur (l : Local) (g : Global) : (endSuite l g).1.curSuite = none := by
  unfold endSuite; cases h : l.curSuite <;> simp [h] <;> split <;> rfl

theorem doTest_out (l : Local) (g : Global) (n : Option Nat) :
    tvOf (doTest l g n).2.out = tvOf g.out ++ (curT l).toList ∧ svOf (doTest l g n).2.out = svOf g.out ∧
    curT (doTest l g n).1 = n.map (fun n => (n, true)) ∧ curS (doTest l g n).1 = curS l := by
  unfold doTest
  obtain ⟨a1, a2, a3⟩ := endTest_out l { g with armed := true }
  obtain ⟨b1, b2, b3⟩ := startTest_out (endTest l { g with armed := true }).1 (endTest l { g with armed := true }).2 n
    (endTest_cur _ _)
  simp only [b1, b2, b3, a1, a2, a3, and_self]

theorem doSuite_out (l : Local) (g : Global) (n : Option Nat) :
    tvOf (doSuite l g n).2.out = tvOf g.out ++ (curT l).toList ∧
    svOf (doSuite l g n).2.out = svOf g.out ++ (curS l).toList ∧
    curT (doSuite l g n).1 = none ∧ curS (doSuite l g n).1 = n.map (fun n => (n, true)) := by
  unfold doSuite
  obtain ⟨a1, a2, a3, a4⟩ := doTest_out l g none
  obtain ⟨b1, b2, b3⟩ := endSuite_out (doTest l g none).1 (doTest l g none).2
  obtain ⟨c1, c2, c3, c4⟩ := startSuite_out (endSuite (doTest l g none).1 (doTest l g none).2).1
    (endSuite (doTest l g none).1 (doTest l g none).2).2 n (endSuite_cur _ _)
  simp only [c1, c2, c3, c4, b1, b2, b3, a1, a2, a3, a4, Option.map_none, and_self]

theorem doFail_out (l : Local) (g : Global) :
    tvOf (doFail l g).2.out = tvOf g.out ∧ svOf (doFail l g).2.out = svOf g.out ∧
    curT (doFail l g).1 = (curT l).map (fun c => (c.1, false)) ∧
    curS (doFail l g).1 = (curS l).map (fun c => (c.1, false)) := by
  unfold doFail curT curS
  cases l.curTest <;> cases l.curSuite <;> simp [tvOf_append, svOf_append, tvOf, svOf]

theorem doEndTesting_out (l : Local) (g : Global) (h : Inv l g) :
    tvOf (doEndTesting l g).2.1.out = tvOf g.out ++ (curT l).toList ∧
    svOf (doEndTesting l g).2.1.out = svOf g.out ++ (curS l).toList ∧
    curT (doEndTesting l g).1 = none ∧ curS (doEndTesting l g).1 = none := by
  unfold doEndTesting
  split
  · obtain ⟨h1, h2, _⟩ := h
    have c1 : l.curTest = none := by
      cases hc : l.curTest with
      | none => rfl
      | some t => have := h1 (by simp [hc]); omega
    have c2 : l.curSuite = none := by
      cases hc : l.curSuite with
      | none => rfl
      | some t => have := h2 (by simp [hc]); omega
    simp [curT, curS, c1, c2]
  · obtain ⟨a1, a2, a3, a4⟩ := doSuite_out l g none
    simp only
    split <;> simp [tvOf_append, svOf_append, tvOf, svOf, a1, a2, a3, a4]

theorem atExit_out (l : Local) (g : Global) (st : Nat) (h : Inv l g) :
    tvOf (atExit l g st).1.out = tvOf g.out ++ (curT l).toList ∧
    svOf (atExit l g st).1.out = svOf g.out ++ (curS l).toList := by
  unfold atExit
  split
  · obtain ⟨a, b, _⟩ := doEndTesting_out l g h
    exact ⟨a, b⟩
  · rename_i ha
    obtain ⟨h1, h2, h3, _⟩ := h
    have c1 : l.curTest = none := by
      cases hc : l.curTest with
      | none => rfl
      | some t => exact absurd (h3 (Or.inl (h1 (by simp [hc])))) ha
    have c2 : l.curSuite = none := by
      cases hc : l.curSuite with
      | none => rfl
      | some t => exact absurd (h3 (Or.inr (Or.inl (h2 (by simp [hc]))))) ha
    simp [curT, curS, c1, c2]

theorem step_out (l : Local) (g : Global) (op : Op) (h : Inv l g) :
    ((step l g op).2.2 = none → ∀ rest,
      tvOf (step l g op).2.1.out ++ testVerdicts rest (curT (step l g op).1) =
        tvOf g.out ++ testVerdicts (op :: rest) (curT l) ∧
      svOf (step l g op).2.1.out ++ suiteVerdicts rest (curS (step l g op).1) =
        svOf g.out ++ suiteVerdicts (op :: rest) (curS l)) ∧
    ((step l g op).2.2 ≠ none →
      tvOf (step l g op).2.1.out ++ (curT (step l g op).1).toList =
        tvOf g.out ++ testVerdicts [op] (curT l) ∧
      svOf (step l g op).2.1.out ++ (curS (step l g op).1).toList =
        svOf g.out ++ suiteVerdicts [op] (curS l)) := by
  cases op with
  | suite n =>
    obtain ⟨a1, a2, a3, a4⟩ := doSuite_out l g n
    simp [step, testVerdicts, suiteVerdicts, a1, a2, a3, a4]
  | test n =>
    obtain ⟨a1, a2, a3, a4⟩ := doTest_out l g n
    simp [step, testVerdicts, suiteVerdicts, a1, a2, a3, a4]
  | expect ok =>
    cases ok with
    | true => simp [step, testVerdicts, suiteVerdicts]
    | false =>
      obtain ⟨a1, a2, a3, a4⟩ := doFail_out l g
      simp [step, testVerdicts, suiteVerdicts, a1, a2, a3, a4]
  | assert ok =>
    cases ok with
    | true => simp [step, testVerdicts, suiteVerdicts]
    | false =>
      obtain ⟨a1, a2, a3, a4⟩ := doFail_out l g
      simp [step, testVerdicts, suiteVerdicts, a1, a2, a3, a4]
  | endTesting =>
    obtain ⟨a1, a2, a3, a4⟩ := doEndTesting_out l g h
    simp [step, testVerdicts, suiteVerdicts, a1, a2, a3, a4]

/-- C19, verdict lines, from any consistent state -/
theorem verdicts_gen (ops : List Op) : ∀ (l l1 : Local) (g : Global), Inv l g →
    tvOf (run (tag ops) l l1 g).1.out = tvOf g.out ++ testVerdicts (trace ops l g) (curT l) ∧
    svOf (run (tag ops) l l1 g).1.out = svOf g.out ++ suiteVerdicts (trace ops l g) (curS l) := by
  induction ops with
  | nil =>
    intro l l1 g h
    simp only [tag, List.map_nil, run_nil, trace, testVerdicts, suiteVerdicts]
    exact atExit_out l g 0 h
  | cons op ops ih =>
    intro l l1 g h
    obtain ⟨i, _, _, _⟩ := step_spec l g op h
    obtain ⟨o1, o2⟩ := step_out l g op h
    have : tag (op :: ops) = (false, op) :: tag ops := rfl
    rw [this, run_cons]
    unfold trace
    cases e : (step l g op).2.2 with
    | some st =>
      simp only
      obtain ⟨x1, x2⟩ := atExit_out _ _ st i
      obtain ⟨y1, y2⟩ := o2 (by simp [e])
      rw [x1, x2, y1, y2]; exact ⟨rfl, rfl⟩
    | none =>
      simp only
      obtain ⟨x1, x2⟩ := ih _ l1 _ i
      obtain ⟨y1, y2⟩ := o1 e (trace ops (step l g op).1 (step l g op).2.1)
      rw [x1, x2, y1, y2]; exact ⟨rfl, rfl⟩

/-- **C19 (verdict lines).**  The PASSED / FAILED lines of a single-threaded program are exactly:
one line per test started (resp. suite), in starting order, FAILED iff an expectation or assertion
failed while it was running. -/
theorem each_reported_once (ops : List Op) :
    tvOf (runProgram (tag ops)).1.out = testVerdicts (trace ops {} {}) none ∧
    svOf (runProgram (tag ops)).1.out = suiteVerdicts (trace ops {} {}) none := by
  have := verdicts_gen ops {} {} {} inv_init
  simpa [runProgram, curT, curS, tvOf, svOf] using this

/-! ## summary counts -/

/-- reading an output left to right: tallies of verdict lines since the last clean summary
(tests, suites, failed tests, failed suites); `none` once a summary line disagreed with them -/
def tstep : Option (Nat × Nat × Nat × Nat) → Ev → Option (Nat × Nat × Nat × Nat)
  | none, _ => none
  | some (t, s, tf, sf), .testVerdict _ p => some (t + 1, s, tf + (if p then 0 else 1), sf)
  | some (t, s, tf, sf), .suiteVerdict _ p => some (t, s + 1, tf, sf + (if p then 0 else 1))
  | some (t, s, tf, sf), .summary a b c d =>
    if a = t ∧ b = s ∧ c = tf ∧ d = sf then
      (if c = 0 ∧ d = 0 then some (0, 0, 0, 0) else some (t, s, tf, sf))
    else none
  | some x, .suiteStart _ => some x
  | some x, .failMsg => some x

def tally (out : List Ev) : Option (Nat × Nat × Nat × Nat) := out.foldl tstep (some (0, 0, 0, 0))

theorem tally_snoc (out : List Ev) (e : Ev) : tally (out ++ [e]) = tstep (tally out) e := by
  simp [tally, List.foldl_append]

def b2n (b : Bool) : Nat := if b then 1 else 0

/-- the counters agree with the verdict lines printed since the last clean summary -/
def TInv (l : Local) (g : Global) : Prop :=
  ∃ t s, tally g.out = some (t, s, g.testsFailed, g.suitesFailed) ∧
    t + b2n l.curTest.isSome = g.tests ∧ s + b2n l.curSuite.isSome = g.suites

theorem endTest_tinv (l : Local) (g : Global) (h : TInv l g) : TInv (endTest l g).1 (endTest l g).2 := by
  obtain ⟨t, s, h1, h2, h3⟩ := h
  unfold endTest
  cases hc : l.curTest with
  | none => exact ⟨t, s, h1, by simpa [hc] using h2, h3⟩
  | some n =>
    simp only [hc, Option.isSome_some, b2n, if_true] at h2
    cases hf : l.testFailed
    · exact ⟨t + 1, s, by simp [tally_snoc, h1, tstep], by simp [b2n]; omega, h3⟩
    · exact ⟨t + 1, s, by simp [tally_snoc, h1, tstep], by simp [b2n]; omega, h3⟩

theorem endSuite_tinv (l : Local) (g : Global) (h : TInv l g) : TInv (endSuite l g).1 (endSuite l g).2 := by
  obtain ⟨t, s, h1, h2, h3⟩ := h
  unfold endSuite
  cases hc : l.curSuite with
  | none => exact ⟨t, s, h1, h2, by simpa [hc] using h3⟩
  | some n =>
    simp only [hc, Option.isSome_some, b2n, if_true] at h3
    cases hf : l.suiteFailed
    · exact ⟨t, s + 1, by simp [tally_snoc, h1, tstep], h2, by simp [b2n]; omega⟩
    · exact ⟨t, s + 1, by simp [tally_snoc, h1, tstep], h2, by simp [b2n]; omega⟩

theorem startTest_tinv (l : Local) (g : Global) (n) (hn : l.curTest = none) (h : TInv l g) :
    TInv (startTest l g n).1 (startTest l g n).2 := by
  obtain ⟨t, s, h1, h2, h3⟩ := h
  unfold startTest
  cases n with
  | none => exact ⟨t, s, h1, h2, h3⟩
  | some n => exact ⟨t, s, h1, by simp [hn, b2n] at h2 ⊢; omega, h3⟩

theorem startSuite_tinv (l : Local) (g : Global) (n) (hn : l.curSuite = none) (h : TInv l g) :
    TInv (startSuite l g n).1 (startSuite l g n).2 := by
  obtain ⟨t, s, h1, h2, h3⟩ := h
  unfold startSuite
  cases n with
  | none => exact ⟨t, s, h1, h2, h3⟩
  | some n => exact ⟨t, s, by simp [tally_snoc, h1, tstep], h2, by simp [hn, b2n] at h3 ⊢; omega⟩

theorem doTest_tinv (l : Local) (g : Global) (n) (h : TInv l g) : TInv (doTest l g n).1 (doTest l g n).2 := by
  unfold doTest
  exact startTest_tinv _ _ n (endTest_cur _ _) (endTest_tinv l { g with armed := true } h)

theorem doSuite_tinv (l : Local) (g : Global) (n) (h : TInv l g) : TInv (doSuite l g n).1 (doSuite l g n).2 := by
  unfold doSuite
  exact startSuite_tinv _ _ n (endSuite_cur _ _) (endSuite_tinv _ _ (doTest_tinv l g none h))

theorem doFail_tinv (l : Local) (g : Global) (h : TInv l g) : TInv (doFail l g).1 (doFail l g).2 := by
  obtain ⟨t, s, h1, h2, h3⟩ := h
  unfold doFail
  exact ⟨t, s, by simp [tally_snoc, h1, tstep], h2, h3⟩

theorem doEndTesting_tinv (l : Local) (g : Global) (h : TInv l g) :
    TInv (doEndTesting l g).1 (doEndTesting l g).2.1 := by
  unfold doEndTesting
  split
  · exact h
  · have hs := doSuite_tinv l g none h
    obtain ⟨_, _, c, s⟩ := doSuite_out l g none
    generalize doSuite l g none = r at *
    obtain ⟨l', g'⟩ := r
    simp only [curT, curS, Option.map_none, Option.map_eq_none_iff] at c s
    obtain ⟨t, s', h1, h2, h3⟩ := hs
    simp only at h1 h2 h3
    simp [c, s, b2n] at h2 h3
    simp only
    split
    · rename_i hq
      refine ⟨t, s', ?_, by simp [c, b2n]; omega, by simp [s, b2n]; omega⟩
      simp only [tally_snoc, h1, tstep]
      have : ¬ (g'.testsFailed = 0 ∧ g'.suitesFailed = 0) := by omega
      simp [← h2, ← h3, this]
    · rename_i hq
      refine ⟨0, 0, ?_, by simp [c, b2n], by simp [s, b2n]⟩
      simp only [tally_snoc, h1, tstep]
      have : g'.testsFailed = 0 ∧ g'.suitesFailed = 0 := by omega
      simp [← h2, ← h3, this]

theorem step_tinv (l : Local) (g : Global) (op : Op) (h : TInv l g) :
    TInv (step l g op).1 (step l g op).2.1 := by
  cases op with
  | suite n => exact doSuite_tinv l g n h
  | test n => exact doTest_tinv l g n h
  | expect ok => cases ok; exact doFail_tinv l g h; exact h
  | assert ok => cases ok; exact doFail_tinv l g h; exact h
  | endTesting => exact doEndTesting_tinv l g h

theorem atExit_tally (l : Local) (g : Global) (st : Nat) (h : TInv l g) :
    (tally (atExit l g st).1.out).isSome := by
  unfold atExit
  split
  · obtain ⟨t, s, h1, _⟩ := doEndTesting_tinv l g h
    simp [h1]
  · obtain ⟨t, s, h1, _⟩ := h
    simp [h1]

theorem tally_gen (ops : List Op) : ∀ (l l1 : Local) (g : Global), TInv l g →
    (tally (run (tag ops) l l1 g).1.out).isSome := by
  induction ops with
  | nil => intro l l1 g h; simp only [tag, List.map_nil, run_nil]; exact atExit_tally l g 0 h
  | cons op ops ih =>
    intro l l1 g h
    have i := step_tinv l g op h
    have : tag (op :: ops) = (false, op) :: tag ops := rfl
    rw [this, run_cons]
    cases e : (step l g op).2.2 with
    | some st => exact atExit_tally _ _ st i
    | none => exact ih _ l1 _ i

/-- **C19 (summary counts).**  Every summary line printed by a single-threaded program shows
exactly the numbers of test and suite verdict lines, and of FAILED ones, printed since the last
clean summary (by `each_reported_once` these are the tests and suites started and failed). -/
theorem summary_counts (ops : List Op) : (tally (runProgram (tag ops)).1.out).isSome :=
  tally_gen ops {} {} {} ⟨0, 0, rfl, rfl, rfl⟩

/-! ## the executed prefix, at property level -/

/-- the executed part of a program: up to and including the first failing assertion, or the first
`end_testing` reached while a failure is pending (`pend`) -/
def cut : List Op → (hasT hasS pend : Bool) → List Op
  | [], _, _, _ => []
  | .assert false :: _, _, _, _ => [.assert false]
  | .endTesting :: r, _, _, pend => if pend then [.endTesting] else .endTesting :: cut r false false false
  | .expect false :: r, hasT, hasS, pend => .expect false :: cut r hasT hasS (pend || hasT || hasS)
  | .suite n :: r, _, _, pend => .suite n :: cut r false n.isSome pend
  | .test n :: r, _, hasS, pend => .test n :: cut r n.isSome hasS pend
  | .expect true :: r, hasT, hasS, pend => .expect true :: cut r hasT hasS pend
  | .assert true :: r, hasT, hasS, pend => .assert true :: cut r hasT hasS pend

theorem trace_eq_cut (ops : List Op) : ∀ (l : Local) (g : Global) (pend : Bool), Inv l g →
    (pend = true ↔ pending l g) → trace ops l g = cut ops l.curTest.isSome l.curSuite.isSome pend := by
  induction ops with
  | nil => intros; rfl
  | cons op ops ih =>
    intro l g pend h hp
    unfold trace
    cases op with
    | suite n =>
      obtain ⟨i, c, s, p⟩ := doSuite_spec l g n h
      simp only [step, cut]
      rw [ih _ _ pend i (by rw [p]; exact hp), c, s]
    | test n =>
      obtain ⟨i, c, s, _, p⟩ := doTest_spec l g n h
      simp only [step, cut]
      rw [ih _ _ pend i (by rw [p]; exact hp), c, s]
    | expect ok =>
      cases ok with
      | true => simp only [step, cut]; rw [ih _ _ pend h hp]
      | false =>
        obtain ⟨i, c, s, p⟩ := doFail_spec l g h
        simp only [step, cut]
        rw [ih _ _ (pend || l.curTest.isSome || l.curSuite.isSome) i
          (by rw [p, ← hp]; simp [or_assoc]), c, s]
    | assert ok =>
      cases ok with
      | true => simp only [step, cut]; rw [ih _ _ pend h hp]
      | false => simp only [step, cut]
    | endTesting =>
      obtain ⟨i, h12, hiff, hn⟩ := doEndTesting_spec l g h
      simp only [step, cut]
      rcases h12 with e | e
      · rw [e]; simp only
        have : pend = true := hp.2 (hiff.1 e)
        simp [this]
      · rw [e]; simp only
        have np0 : ¬ pending l g := fun hq => by rw [← hiff, e] at hq; simp at hq
        have : pend = false := by cases pend; rfl; exact absurd (hp.1 rfl) np0
        obtain ⟨c, s, np⟩ := hn e
        rw [ih _ _ false i (by simp [np]), c, s]; simp [this]

/-- the executed prefix of a program, stated without reference to the model's state -/
theorem trace_init (ops : List Op) : trace ops {} {} = cut ops false false false :=
  trace_eq_cut ops {} {} false inv_init (by simp [pending])

/-- `each_reported_once` with the executed prefix spelled out at property level -/
theorem each_reported_once' (ops : List Op) :
    tvOf (runProgram (tag ops)).1.out = testVerdicts (cut ops false false false) none ∧
    svOf (runProgram (tag ops)).1.out = suiteVerdicts (cut ops false false false) none := by
  rw [← trace_init]; exact each_reported_once ops

/-! ## non-vacuity and concrete readings -/

-- a failed expectation inside a test: status 1, the test and its suite FAILED, the next test PASSED
example : runProgram (tag [.suite (some 1), .test (some 1), .expect false, .test (some 2), .expect true]) =
    ({ tests := 2, suites := 1, testsFailed := 1, suitesFailed := 1, armed := true,
       out := [.suiteStart 1, .failMsg, .testVerdict 1 false, .testVerdict 2 true, .suiteVerdict 1 false,
               .summary 2 1 1 1] }, 1) := by decide
-- a failed expectation outside any test or suite is only a message
example : (runProgram (tag [.expect false, .test (some 1)])).2 = 0 := by decide
example : marks [.expect false, .test (some 1)] false false = false := by decide
-- an assertion failure outside any test fails the process, and nothing after it runs
example : runProgram (tag [.assert false, .test (some 1)]) = ({ out := [.failMsg] }, 1) := by decide
-- a clean explicit end_testing resets the tallies; later failures are still reported
example : (runProgram (tag [.test (some 1), .endTesting, .test (some 2), .expect false])).1.out =
    [.testVerdict 1 true, .summary 1 0 0 0, .failMsg, .testVerdict 2 false, .summary 1 0 1 0] := by decide
example : cut [.test (some 1), .expect false, .endTesting, .test (some 2)] false false false =
    [.test (some 1), .expect false, .endTesting] := by decide
-- `Inv` and `TInv` hold in a non-initial state
example : Inv { curTest := some 3, testFailed := true } { tests := 2, testsFailed := 1, armed := true } :=
  ⟨by simp, by simp, by simp, by simp, by simp⟩

end Gpc.TestFw
