import Gpc.Model.Search
namespace Gpc.Search

/-- the needle occurs in the haystack at byte offset `i` -/
def OccursAt (h n : Bytes) (i : Nat) : Prop := n <+: h.drop i

instance (h n : Bytes) (i : Nat) : Decidable (OccursAt h n i) := by unfold OccursAt; infer_instance

theorem occursAt_cons_succ (a : UInt8) (h n : Bytes) (i : Nat) :
    OccursAt (a :: h) n (i + 1) ↔ OccursAt h n i := by simp [OccursAt]

theorem occursAt_zero (h n : Bytes) : OccursAt h n 0 ↔ n <+: h := by simp [OccursAt]

theorem occursAt_le_length (h n : Bytes) (i : Nat) (hn : n ≠ []) (ho : OccursAt h n i) :
    i + n.length ≤ h.length := by
  unfold OccursAt at ho
  have := ho.length_le
  simp at this
  have : 0 < n.length := List.length_pos_iff.mpr hn
  omega

theorem memmem_some (h n : Bytes) (i : Nat) :
    memmem h n = some i ↔ (OccursAt h n i ∧ i ≤ h.length ∧ ∀ j, j < i → ¬ OccursAt h n j) := by
  induction h generalizing i with
  | nil =>
    simp only [memmem, OccursAt, List.drop_nil, List.length_nil, Nat.le_zero]
    constructor
    · intro hh
      split at hh
      · rename_i he; injection hh with hh; subst hh
        simp at he; subst he; simp
      · simp at hh
    · rintro ⟨h1, h2, _⟩
      subst h2
      have : n = [] := List.prefix_nil.mp h1
      simp [this]
  | cons a h ih =>
    simp only [memmem]
    split
    · rename_i hp
      rw [List.isPrefixOf_iff_prefix] at hp
      constructor
      · intro hh; injection hh with hh; subst hh
        exact ⟨(occursAt_zero _ _).2 hp, Nat.zero_le _, fun j hj => absurd hj (Nat.not_lt_zero _)⟩
      · rintro ⟨_, _, h3⟩
        cases i with
        | zero => rfl
        | succ k => exact absurd ((occursAt_zero _ _).2 hp) (h3 0 (Nat.succ_pos _))
    · rename_i hp
      rw [List.isPrefixOf_iff_prefix] at hp
      cases i with
      | zero =>
        constructor
        · intro hh
          cases hm : memmem h n <;> simp [hm] at hh
        · rintro ⟨h1, _, _⟩
          exact absurd ((occursAt_zero _ _).1 h1) hp
      | succ k =>
        rw [occursAt_cons_succ]
        constructor
        · intro hh
          cases hm : memmem h n with
          | none => simp [hm] at hh
          | some v =>
            simp [hm] at hh; subst hh
            obtain ⟨h1, h2, h3⟩ := (ih v).1 hm
            refine ⟨h1, by simp; omega, ?_⟩
            intro j hj
            cases j with
            | zero => rw [occursAt_zero]; exact hp
            | succ j' => rw [occursAt_cons_succ]; exact h3 j' (by omega)
        · rintro ⟨h1, h2, h3⟩
          have : memmem h n = some k := (ih k).2 ⟨h1, by simp at h2; omega, fun j hj => by
            have := h3 (j+1) (by omega); rwa [occursAt_cons_succ] at this⟩
          simp [this]

theorem memmem_none (h n : Bytes) :
    memmem h n = none ↔ ∀ i, i ≤ h.length → ¬ OccursAt h n i := by
  induction h with
  | nil =>
    simp only [memmem, OccursAt, List.drop_nil, List.length_nil, Nat.le_zero]
    constructor
    · intro hh i _ hp
      have : n = [] := List.prefix_nil.mp hp
      simp [this] at hh
    · intro hh
      split
      · rename_i he; simp at he; subst he; exact absurd (List.prefix_refl _) (hh 0 rfl)
      · rfl
  | cons a h ih =>
    simp only [memmem]
    split
    · rename_i hp
      rw [List.isPrefixOf_iff_prefix] at hp
      constructor
      · intro hh; simp at hh
      · intro hh; exact absurd ((occursAt_zero _ _).2 hp) (hh 0 (Nat.zero_le _))
    · rename_i hp
      rw [List.isPrefixOf_iff_prefix] at hp
      simp only [Option.map_eq_none_iff, ih]
      constructor
      · intro hh i hi
        cases i with
        | zero => rw [occursAt_zero]; exact hp
        | succ k => rw [occursAt_cons_succ]; exact hh k (by simp at hi; omega)
      · intro hh i hi
        have := hh (i+1) (by simp; omega)
        rwa [occursAt_cons_succ] at this

theorem occursAt_drop (h n : Bytes) (s i : Nat) : OccursAt (h.drop s) n i ↔ OccursAt h n (s + i) := by
  simp [OccursAt, List.drop_drop]

end Gpc.Search

namespace Gpc.Search

theorem cmpAt_eq (h : Bytes) (n : Bytes) (i : Nat) (hb : i + n.length ≤ h.length) :
    cmpAt h i n = some (decide (OccursAt h n i)) := by
  induction n generalizing i with
  | nil => simp [cmpAt, OccursAt]
  | cons c n ih =>
    simp only [List.length_cons] at hb
    have hi : i < h.length := by omega
    simp only [cmpAt, rd, List.getElem?_eq_getElem hi]
    rw [ih (i + 1) (by omega)]
    simp only [Option.some.injEq]
    have hd : h.drop i = h[i] :: h.drop (i + 1) := List.drop_eq_getElem_cons hi
    simp only [OccursAt, hd, List.cons_prefix_cons]
    by_cases hx : h[i] = c
    · simp [hx]
    · have hx' : ¬ c = h[i] := fun e => hx e.symm
      simp [hx, hx']

theorem occursAt_head (h n : Bytes) (n0 : UInt8) (i : Nat) (ho : OccursAt h (n0 :: n) i) :
    h[i]? = some n0 := by
  unfold OccursAt at ho
  obtain ⟨t, ht⟩ := ho
  have : (h.drop i)[0]? = some n0 := by rw [← ht]; simp
  simpa using this

theorem memchrR_spec (h : Bytes) (ch : UInt8) (ptr count : Nat) (hp : ptr ≤ h.length) (hc : count ≤ ptr) :
    ∃ r, memchrR h ch ptr count = some r ∧
      (∀ d, r = some d → d < ptr ∧ ptr - count ≤ d ∧ h[d]? = some ch ∧ ∀ j, d < j → j < ptr → h[j]? ≠ some ch) ∧
      (r = none → ∀ j, ptr - count ≤ j → j < ptr → h[j]? ≠ some ch) := by
  induction count generalizing ptr with
  | zero =>
    refine ⟨none, by simp [memchrR], by simp, ?_⟩
    intro _ j h1 h2; omega
  | succ c ih =>
    cases ptr with
    | zero => omega
    | succ p =>
      have hp' : p < h.length := by omega
      simp only [memchrR, rd, List.getElem?_eq_getElem hp']
      by_cases hx : h[p] = ch
      · refine ⟨some p, by simp [hx], ?_, by simp⟩
        intro d hd; injection hd with hd; subst hd
        refine ⟨by omega, by omega, by simp [hx, List.getElem?_eq_getElem hp'], ?_⟩
        intro j h1 h2; omega
      · obtain ⟨r, hr, h1, h2⟩ := ih p (by omega) (by omega)
        refine ⟨r, by simp [hx, hr], ?_, ?_⟩
        · intro d hd
          obtain ⟨a, b, c', e⟩ := h1 d hd
          refine ⟨by omega, by omega, c', ?_⟩
          intro j hj1 hj2
          by_cases hjp : j = p
          · subst hjp; simp [List.getElem?_eq_getElem hp', hx]
          · exact e j hj1 (by omega)
        · intro hn j hj1 hj2
          by_cases hjp : j = p
          · subst hjp; simp [List.getElem?_eq_getElem hp', hx]
          · exact h2 hn j (by omega) (by omega)

theorem findLastLoop_spec (h n : Bytes) (n0 : UInt8) (fuel data : Nat)
    (hd : data + (n0 :: n).length ≤ h.length + 1) (hf : data < fuel) :
    ∃ r, findLastLoop h (n0 :: n) n0 fuel data data = some r ∧
      (∀ d, r = some d → d < data ∧ OccursAt h (n0 :: n) d ∧ ∀ j, d < j → j < data → ¬ OccursAt h (n0 :: n) j) ∧
      (r = none → ∀ j, j < data → ¬ OccursAt h (n0 :: n) j) := by
  induction fuel generalizing data with
  | zero => omega
  | succ f ih =>
    simp only [List.length_cons] at hd
    obtain ⟨r, hr, h1, h2⟩ := memchrR_spec h n0 data data (by omega) (Nat.le_refl _)
    simp only [findLastLoop, hr]
    cases r with
    | none =>
      refine ⟨none, rfl, by simp, ?_⟩
      intro _ j hj ho
      exact h2 rfl j (by omega) hj (occursAt_head _ _ _ _ ho)
    | some d =>
      obtain ⟨a, _, c, e⟩ := h1 d rfl
      have hcmp := cmpAt_eq h (n0 :: n) d (by simp only [List.length_cons]; omega)
      simp only [hcmp]
      by_cases ho : OccursAt h (n0 :: n) d
      · refine ⟨some d, by simp [ho], ?_, by simp⟩
        intro d' hd'; injection hd' with hd'; subst hd'
        exact ⟨a, ho, fun j hj1 hj2 ho' => e j hj1 hj2 (occursAt_head _ _ _ _ ho')⟩
      · obtain ⟨r', hr', h1', h2'⟩ := ih d (by simp only [List.length_cons]; omega) (by omega)
        refine ⟨r', by simp [ho, hr'], ?_, ?_⟩
        · intro d' hd'
          obtain ⟨a', b', c'⟩ := h1' d' hd'
          refine ⟨by omega, b', ?_⟩
          intro j hj1 hj2
          by_cases hjd : j < d
          · exact c' j hj1 hjd
          · by_cases hjd2 : j = d
            · subst hjd2; exact ho
            · exact fun ho' => e j (by omega) hj2 (occursAt_head _ _ _ _ ho')
        · intro hn j hj
          by_cases hjd : j < d
          · exact h2' hn j hjd
          · by_cases hjd2 : j = d
            · subst hjd2; exact ho
            · exact fun ho' => e j (by omega) hj (occursAt_head _ _ _ _ ho')

end Gpc.Search
