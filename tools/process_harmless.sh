#!/bin/sh
# usage: process_harmless.sh <id>...  : keep, confirm (suite passes), run the anchored property's quick check and those of properties sharing a touched file
cd /verif
for id in "$@"; do for i in 1 2; do
  src=/tmp/seed_out/$id; [ -f $src/hpatch$i.diff ] || { echo "$id-h$i: no patch"; continue; }
  d=harmless/$id-h$i; mkdir -p $d; cp $src/hpatch$i.diff $d/patch.diff; cp $src/hmeta$i.json $d/meta.json 2>/dev/null; cp $src/htest$i.c $d/htest.c 2>/dev/null
  S=$(mktemp -d /tmp/hscr.XXXXXX); rsync -a --exclude build --exclude .git /repo/ $S/
  if ! (cd $S && git apply $OLDPWD/$d/patch.diff 2>/dev/null || patch -s -p1 < /verif/$d/patch.diff); then echo "$id-h$i: patch does not apply"; rm -rf $S; continue; fi
  n=$(GPC_REPO=$S sh tools/baseline.sh 2>&1 | grep -c PASSED); rm -rf $S
  if [ "$n" != 158 ]; then echo "$id-h$i: suite PASSED lines = $n (not kept)"; echo "{\"suite_passed_lines\": $n}" > $d/result.json; continue; fi
  files=$(grep '^+++ b/' $d/patch.diff | sed 's|^+++ b/||')
  props=$(python3 - "$id" $files <<'PY'
import json,sys
pid=sys.argv[1]; files=set(sys.argv[2:])
out=[pid]
for l in open('/verif/properties.jsonl'):
    d=json.loads(l)
    if d['id']!=pid and d['id'] not in ('C18','C17','C14') and files & set(d['anchors']['files']): out.append(d['id'])
print(" ".join(out[:5]))
PY
)
  git -C /repo apply /verif/$d/patch.diff || { echo "$id-h$i: cannot apply to /repo"; continue; }
  res=""
  for p in $props; do
    o=$(VERIF_SEED=1 timeout 1500 python3-vt tools/check.py $p --tier quick 2>&1 | grep -v conda | tail -3)
    if echo "$o" | grep -q VIOLATION; then res="$res $p:ALARM"; echo "$o" | grep VIOLATION | head -1; cp replays/${p}_quick_1_*.json $d/ 2>/dev/null; else res="$res $p:quiet"; fi
  done
  git -C /repo checkout -- .; git -C /verif checkout -- lean/Gpc/Generated evidence
  echo "$id-h$i:$res"; echo "{\"suite_passed_lines\": 158, \"checks\": \"$res\"}" > $d/result.json
done; done
