import Gpc.Model.PFString
/-! Proofs for the bounded output string (C10): every helper stays inside the destination and keeps the
destination equal to a prefix of the unbounded output. -/
namespace Gpc.PF

theorem get_splice (a b c : Bytes) (i : Nat) :
    (a ++ b ++ c)[i]? = if i < a.length then a[i]? else if i < a.length + b.length then b[i - a.length]? else c[i - a.length - b.length]? := by
  rw [List.append_assoc, List.getElem?_append]
  split
  · rfl
  · rw [List.getElem?_append]
    split
    · have : i < a.length + b.length := by omega
      simp [this]
    · have : ¬ i < a.length + b.length := by omega
      simp [this]

theorem wr_some (d : Bytes) (off : Nat) (src : Bytes) (h : src.length = 0 ∨ off + src.length ≤ d.length) :
    ∃ d', wr d off src = some d' ∧ d'.length = d.length ∧
      ∀ i, d'[i]? = if off ≤ i ∧ i < off + src.length then src[i - off]? else d[i]? := by
  by_cases h0 : src.length = 0
  · refine ⟨d, by simp [wr, h0], rfl, fun i => ?_⟩
    have : ¬ (off ≤ i ∧ i < off + src.length) := by omega
    simp [this]
  · have h1 : off + src.length ≤ d.length := by omega
    refine ⟨d.take off ++ src ++ d.drop (off + src.length), by simp [wr, h0, h1], ?_, fun i => ?_⟩
    · simp; omega
    · rw [get_splice]
      have hl : (d.take off).length = off := by simp; omega
      simp only [hl]
      by_cases c1 : i < off
      · have : ¬ (off ≤ i ∧ i < off + src.length) := by omega
        simp [c1, this, List.getElem?_take]
      · by_cases c2 : i < off + src.length
        · have : (off ≤ i ∧ i < off + src.length) := by omega
          simp [c1, c2, this]
        · have : ¬ (off ≤ i ∧ i < off + src.length) := by omega
          simp only [c1, c2, and_false, if_false, List.getElem?_drop]
          congr 1; omega

theorem mv_some (d : Bytes) (dst src n : Nat) (h : n = 0 ∨ (dst + n ≤ d.length ∧ src + n ≤ d.length)) :
    ∃ d', mv d dst src n = some d' ∧ d'.length = d.length ∧
      ∀ i, d'[i]? = if dst ≤ i ∧ i < dst + n then d[src + (i - dst)]? else d[i]? := by
  by_cases h0 : n = 0
  · refine ⟨d, by simp [mv, h0], rfl, fun i => ?_⟩
    have : ¬ (dst ≤ i ∧ i < dst + n) := by omega
    simp [this]
  · have h1 : dst + n ≤ d.length ∧ src + n ≤ d.length := by omega
    refine ⟨d.take dst ++ (d.drop src).take n ++ d.drop (dst + n), by simp [mv, h0, h1], ?_, fun i => ?_⟩
    · simp; omega
    · rw [get_splice]
      have hl : (d.take dst).length = dst := by simp; omega
      have hl2 : ((d.drop src).take n).length = n := by simp; omega
      simp only [hl, hl2]
      by_cases c1 : i < dst
      · have : ¬ (dst ≤ i ∧ i < dst + n) := by omega
        simp [c1, this, List.getElem?_take]
      · by_cases c2 : i < dst + n
        · have : (dst ≤ i ∧ i < dst + n) := by omega
          have c3 : i - dst < n := by omega
          simp [c1, c2, this, c3, List.getElem?_take, List.getElem?_drop]
        · have : ¬ (dst ≤ i ∧ i < dst + n) := by omega
          simp only [c1, c2, and_false, if_false, List.getElem?_drop]
          congr 1; omega

/-- the destination holds the first `capacity` bytes of the unbounded output `full`, and `length`
is the unbounded length -/
def Agrees (p : PF) (full : Bytes) : Prop :=
  p.length = full.length ∧ ∀ i, i < p.cap → i < full.length → p.data[i]? = full[i]?

theorem capLeft_eq (p : PF) : capLeft p = p.cap - p.length := by
  unfold capLeft; split <;> omega

theorem concat_ok (p : PF) (full src : Bytes) (h : Agrees p full) :
    ∃ p', concat p src = some p' ∧ p'.cap = p.cap ∧ Agrees p' (full ++ src) := by
  obtain ⟨data, length⟩ := p
  obtain ⟨hl, hg⟩ := h
  simp only [PF.cap] at hl hg
  subst hl
  have hlim : limit ⟨data, full.length⟩ src.length = min (data.length - full.length) src.length := by
    simp [limit, capLeft_eq, PF.cap]
  obtain ⟨d', e, l', g'⟩ := wr_some data full.length (src.take (min (data.length - full.length) src.length))
    (by simp only [List.length_take]; omega)
  refine ⟨{ data := d', length := full.length + src.length }, by simp [concat, hlim, e], by simpa [PF.cap] using l', ?_, ?_⟩
  · simp
  · intro i hi1 hi2
    simp only [PF.cap, l'] at hi1
    simp only [List.length_append] at hi2
    simp only [g' i, List.length_take]
    by_cases c : i < full.length
    · rw [if_neg (by omega), hg i hi1 c, List.getElem?_append_left c]
    · rw [if_pos (by omega), List.getElem?_append_right (by omega), List.getElem?_take, if_pos (by omega)]

theorem pad_ok (p : PF) (full : Bytes) (c : UInt8) (n : Nat) (h : Agrees p full) :
    ∃ p', pad p c n = some p' ∧ p'.cap = p.cap ∧ Agrees p' (full ++ List.replicate n c) := by
  obtain ⟨p', e, hc, ha⟩ := concat_ok p full (List.replicate n c) h
  refine ⟨p', ?_, hc, ha⟩
  simp only [concat, List.length_replicate, List.take_replicate] at e
  simp only [pad]
  have : min (limit p n) n = limit p n := by simp [limit]; omega
  rw [this] at e; exact e

theorem push_ok (p : PF) (full : Bytes) (c : UInt8) (h : Agrees p full) :
    ∃ p', push p c = some p' ∧ p'.cap = p.cap ∧ Agrees p' (full ++ [c]) := by
  obtain ⟨p', e, hc, ha⟩ := concat_ok p full [c] h
  refine ⟨p', ?_, hc, ha⟩
  simp only [concat, List.length_singleton] at e
  simp only [push]
  by_cases h1 : limit p 1 = 0
  · simp only [h1, List.take_zero, ne_eq, not_true_eq_false, if_false] at e ⊢
    first | done | simpa [wr] using e
  · have : limit p 1 = 1 := by simp [limit] at h1 ⊢; omega
    simp only [this, List.take_succ_cons, List.take_zero, ne_eq] at e ⊢
    simpa using e

/-- `pf_insert_pad`: `n` copies of `c` inserted at position `i` of the output -/
theorem insertPad_ok (p : PF) (full : Bytes) (i : Nat) (c : UInt8) (n : Nat) (h : Agrees p full)
    (hi : i < full.length) :
    ∃ p', insertPad p i c n = some p' ∧ p'.cap = p.cap ∧
      Agrees p' (full.take i ++ List.replicate n c ++ full.drop i) := by
  obtain ⟨data, length⟩ := p
  obtain ⟨hl, hg⟩ := h
  simp only [PF.cap] at hl hg
  subst hl
  have hlen : (full.take i ++ List.replicate n c ++ full.drop i).length = full.length + n := by
    simp; omega
  unfold insertPad
  split
  · rename_i c0
    simp only [PF.cap] at c0
    refine ⟨_, rfl, rfl, by simp; omega, ?_⟩
    intro j hj1 hj2
    simp only [PF.cap] at hj1
    have hj : j < i := by omega
    rw [get_splice, List.length_take, if_pos (by omega), List.getElem?_take, if_pos hj]
    exact hg j hj1 (by omega)
  · rename_i c0
    simp only [PF.cap] at c0
    have hi2 : i < data.length := by omega
    have hi3 : i < full.length := by omega
    obtain ⟨d1, e1, l1, g1⟩ : ∃ d1, insertPadMove ⟨data, full.length⟩ i n = some d1 ∧
        d1.length = data.length ∧ ∀ j, d1[j]? = if i + n < data.length ∧ i + n ≤ j ∧
          j < i + n + (min full.length data.length - i - (min full.length data.length - i + n -
          min (data.length - i) (min full.length data.length - i + n))) then data[i + (j - (i + n))]? else data[j]? := by
      simp only [insertPadMove, PF.cap]
      by_cases c1 : i + n < data.length
      · obtain ⟨d1, e1, l1, g1⟩ := mv_some data (i + n) i
          (min full.length data.length - i - (min full.length data.length - i + n -
            min (data.length - i) (min full.length data.length - i + n))) (Or.inr (by omega))
        refine ⟨d1, by simp only [c1, ↓reduceIte]; exact e1, l1, fun j => ?_⟩
        rw [g1 j]; simp [c1]
      · exact ⟨data, by simp only [c1, ↓reduceIte], rfl, fun j => by simp [c1]⟩
    obtain ⟨d2, e2, l2, g2⟩ := wr_some d1 i (List.replicate (min n (min (data.length - i)
        (min full.length data.length - i + n))) c) (Or.inr (by simp only [List.length_replicate]; omega))
    refine ⟨{ data := d2, length := full.length + n }, ?_, by simp [PF.cap, l2, l1], by simp [hlen], ?_⟩
    · simp only [e1, Option.bind_eq_bind, Option.bind_some, insertPadFill, PF.cap, e2]; rfl
    · intro j hj1 hj2
      simp only [PF.cap, l2, l1] at hj1
      rw [hlen] at hj2
      rw [g2 j, List.length_replicate, get_splice, List.length_take, List.length_replicate]
      have hm : min i full.length = i := by omega
      rw [hm]
      by_cases a1 : j < i
      · rw [if_neg (by omega), if_pos a1, g1 j, if_neg (by omega), List.getElem?_take, if_pos a1]
        exact hg j hj1 (by omega)
      · by_cases a2 : j < i + n
        · rw [if_pos (by omega), if_neg a1, if_pos a2]
          simp only [List.getElem?_replicate]
          rw [if_pos (by omega), if_pos (by omega)]
        · rw [if_neg (by omega), if_neg a1, if_neg a2, g1 j, if_pos (by omega), List.getElem?_drop]
          have : i + (j - (i + n)) = i + (j - i - n) := by omega
          rw [this]
          exact hg _ (by omega) (by omega)

end Gpc.PF
