import Gpc.Model.Array
namespace Gpc.Arr

theorem memcpyIn_some (d : Bytes) (dst : Nat) (src : Bytes) (h : dst + src.length ≤ d.length) :
    memcpyIn d dst src = some (d.take dst ++ src ++ d.drop (dst + src.length)) := by
  simp [memcpyIn, h]

theorem memcpyIn_length (d : Bytes) (dst : Nat) (src : Bytes) (h : dst + src.length ≤ d.length) :
    (d.take dst ++ src ++ d.drop (dst + src.length)).length = d.length := by
  simp only [List.length_append, List.length_take, List.length_drop]; omega

theorem memmove_some (d : Bytes) (dst src n : Nat) (h1 : dst + n ≤ d.length) (h2 : src + n ≤ d.length) :
    memmove d dst src n = some (d.take dst ++ (d.drop src).take n ++ d.drop (dst + n)) := by
  simp [memmove, h1, h2]

theorem memmove_length (d : Bytes) (dst src n : Nat) (h1 : dst + n ≤ d.length) (h2 : src + n ≤ d.length) :
    (d.take dst ++ (d.drop src).take n ++ d.drop (dst + n)).length = d.length := by
  simp only [List.length_append, List.length_take, List.length_drop]; omega

theorem np2_gt (x : Nat) : x < np2 x := by
  unfold np2
  split
  · omega
  · exact Nat.lt_log2_self

structure Inv (a : Arr) : Prop where
  len_le : a.length ≤ a.capacity
  size : a.data.length = a.capacity * a.es

theorem reserve_length (a : Arr) (r : Nat) : (reserve a r).length = a.length ∧ (reserve a r).es = a.es := by
  unfold reserve
  split
  · exact ⟨rfl, rfl⟩
  · split
    · split <;> exact ⟨rfl, rfl⟩
    · exact ⟨rfl, rfl⟩

theorem reserve_inv (a : Arr) (r : Nat) (h : Inv a) : Inv (reserve a r) := by
  obtain ⟨hl, hs⟩ := h
  unfold reserve
  split
  · exact ⟨hl, hs⟩
  · split
    · rename_i hr
      have hgt := np2_gt r
      split
      · refine ⟨by simp only []; omega, ?_⟩
        simp only [List.length_append, List.length_replicate, hs, ← Nat.add_mul]
        congr 1; omega
      · refine ⟨by simp only []; omega, ?_⟩
        have hle : a.length * a.es ≤ a.capacity * a.es := Nat.mul_le_mul_right _ hl
        have hle2 : a.length * a.es ≤ np2 r * a.es := Nat.mul_le_mul_right _ (by omega)
        simp only [List.length_append, List.length_take, List.length_replicate, hs]
        omega
    · exact ⟨hl, hs⟩

theorem reserve_capacity (a : Arr) (r : Nat) (hk : a.kind ≠ .stack false) : r ≤ (reserve a r).capacity := by
  unfold reserve
  split
  · rename_i hkk; exact absurd hkk hk
  · split
    · have := np2_gt r
      split <;> (simp only []; omega)
    · omega

/-- growth keeps the element bytes -/
theorem reserve_bytes (a : Arr) (r : Nat) (h : Inv a) : bytes (reserve a r) = bytes a := by
  obtain ⟨hl, hs⟩ := h
  have hle : a.length * a.es ≤ a.capacity * a.es := Nat.mul_le_mul_right _ hl
  unfold reserve bytes
  split
  · rfl
  · split
    · split
      · simp only []
        rw [List.take_append_of_le_length (by omega)]
      · simp only []
        rw [List.take_append_of_le_length (by simp only [List.length_take]; omega)]
        rw [List.take_take]; congr 1; omega
    · rfl

theorem insert_bytes (D src : List UInt8) (P N L : Nat) (hP : P ≤ L) (hs : src.length = N) (hD : L + N ≤ D.length) :
    ((D.take (P + N) ++ (D.drop P).take (L - P) ++ D.drop (P + N + (L - P))).take P ++ src ++
      (D.take (P + N) ++ (D.drop P).take (L - P) ++ D.drop (P + N + (L - P))).drop (P + src.length)).take (L + N)
      = (D.take L).take P ++ src ++ (D.take L).drop P := by
  apply List.ext_getElem?
  intro i
  simp only [List.getElem?_take, List.getElem?_append, List.length_take, List.length_append,
    List.length_drop, List.getElem?_drop]
  grind

theorem erase_bytes (D : List UInt8) (P C L : Nat) (hP : P + C ≤ L) (hD : L ≤ D.length) :
    (D.take P ++ (D.drop (P + C)).take (L - (P + C)) ++ D.drop (P + (L - (P + C)))).take (L - C)
      = (D.take L).take P ++ (D.take L).drop (P + C) := by
  apply List.ext_getElem?
  intro i
  simp only [List.getElem?_take, List.getElem?_append, List.length_take, List.length_append,
    List.length_drop, List.getElem?_drop]
  grind

theorem slice_bytes (D : List UInt8) (S E L : Nat) (hS : S ≤ E) (hE : E ≤ L) (hD : L ≤ D.length) :
    (D.take 0 ++ (D.drop S).take (E - S) ++ D.drop (0 + (E - S))).take (E - S)
      = ((D.take L).drop S).take (E - S) := by
  apply List.ext_getElem?
  intro i
  simp only [List.getElem?_take, List.getElem?_append, List.length_take, List.length_append,
    List.length_drop, List.getElem?_drop]
  grind

theorem chunks_length (es n : Nat) (b : Bytes) : (chunks es n b).length = n := by
  induction n generalizing b with
  | zero => rfl
  | succ k ih => simp [chunks, ih]

theorem chunks_flatten (es n : Nat) (b : Bytes) (h : n * es ≤ b.length) : (chunks es n b).flatten = b.take (n * es) := by
  induction n generalizing b with
  | zero => simp [chunks]
  | succ k ih =>
    have h' : k * es + es ≤ b.length := by rw [← Nat.succ_mul]; exact h
    simp only [chunks, List.flatten_cons]
    rw [ih (b.drop es) (by simp only [List.length_drop]; omega)]
    rw [Nat.succ_mul, Nat.add_comm (k * es) es, List.take_add]

theorem chunks_elem_length (es n : Nat) (b : Bytes) (h : n * es ≤ b.length) : ∀ e ∈ chunks es n b, e.length = es := by
  induction n generalizing b with
  | zero => intro e he; simp [chunks] at he
  | succ k ih =>
    have h' : k * es + es ≤ b.length := by rw [← Nat.succ_mul]; exact h
    intro e he
    simp only [chunks, List.mem_cons] at he
    rcases he with rfl | he
    · simp only [List.length_take]; omega
    · exact ih (b.drop es) (by simp only [List.length_drop]; omega) e he

/-- chunks only look at the first `n * es` bytes -/
theorem chunks_take (es n : Nat) (b : Bytes) : chunks es n (b.take (n * es)) = chunks es n b := by
  induction n generalizing b with
  | zero => rfl
  | succ k ih =>
    simp only [chunks]
    have e1 : (b.take ((k + 1) * es)).take es = b.take es := by
      rw [List.take_take]; congr 1; rw [Nat.succ_mul]; omega
    have e2 : (b.take ((k + 1) * es)).drop es = (b.drop es).take (k * es) := by
      rw [List.drop_take]; congr 1; rw [Nat.succ_mul]; omega
    rw [e1, e2, ih]

theorem flatten_length_of_all (l : List Bytes) (es : Nat) (h : ∀ e ∈ l, e.length = es) : l.flatten.length = l.length * es := by
  induction l with
  | nil => simp
  | cons x xs ih =>
    simp only [List.flatten_cons, List.length_append, List.length_cons]
    rw [h x List.mem_cons_self, ih (fun e he => h e (List.mem_cons_of_mem _ he)), Nat.succ_mul]; omega

end Gpc.Arr
