import Gpc.Model.CaseMap
import Gpc.Ucd.Case
/-! Helper lemmas for C11: orbit walk on a sorted cyclic class, tree lookups -/
namespace Gpc.CaseMap
open Gpc.CaseTable

theorem walk2 (F : Nat → Nat) (x0 x1 b : Nat) (h01 : x0 < x1) (f0 : F x0 = x1) (f1 : F x1 = x0) :
    (x0 < b → (walk F x0 b 8 (F x0) = true ↔ (b = x0 ∨ b = x1))) ∧
    (x1 < b → (walk F x1 b 8 (F x1) = true ↔ (b = x0 ∨ b = x1))) := by
  constructor <;> intro hb <;> simp only [walk, f0, f1] <;> (repeat' split) <;> simp <;> omega

theorem walk3 (F : Nat → Nat) (x0 x1 x2 b : Nat) (h01 : x0 < x1) (h12 : x1 < x2)
    (f0 : F x0 = x1) (f1 : F x1 = x2) (f2 : F x2 = x0) :
    (x0 < b → (walk F x0 b 8 (F x0) = true ↔ (b = x0 ∨ b = x1 ∨ b = x2))) ∧
    (x1 < b → (walk F x1 b 8 (F x1) = true ↔ (b = x0 ∨ b = x1 ∨ b = x2))) ∧
    (x2 < b → (walk F x2 b 8 (F x2) = true ↔ (b = x0 ∨ b = x1 ∨ b = x2))) := by
  refine ⟨?_, ?_, ?_⟩ <;> intro hb <;> simp only [walk, f0, f1, f2] <;> (repeat' split) <;> simp <;> omega

theorem walk4 (F : Nat → Nat) (x0 x1 x2 x3 b : Nat) (h01 : x0 < x1) (h12 : x1 < x2) (h23 : x2 < x3)
    (f0 : F x0 = x1) (f1 : F x1 = x2) (f2 : F x2 = x3) (f3 : F x3 = x0) :
    (x0 < b → (walk F x0 b 8 (F x0) = true ↔ (b = x0 ∨ b = x1 ∨ b = x2 ∨ b = x3))) ∧
    (x1 < b → (walk F x1 b 8 (F x1) = true ↔ (b = x0 ∨ b = x1 ∨ b = x2 ∨ b = x3))) ∧
    (x2 < b → (walk F x2 b 8 (F x2) = true ↔ (b = x0 ∨ b = x1 ∨ b = x2 ∨ b = x3))) ∧
    (x3 < b → (walk F x3 b 8 (F x3) = true ↔ (b = x0 ∨ b = x1 ∨ b = x2 ∨ b = x3))) := by
  refine ⟨?_, ?_, ?_, ?_⟩ <;> intro hb <;> simp only [walk, f0, f1, f2, f3] <;> (repeat' split) <;> simp <;> omega

/-- a non-identity result of a tree lookup comes from an entry that contains the code point -/
theorem T.apply_ne (t : T) (c : Nat) (h : t.apply c ≠ c) : ∃ e ∈ t.toList, e.lo ≤ c ∧ c ≤ e.hi := by
  induction t with
  | nil => exact absurd rfl h
  | node l e r ihl ihr =>
    simp only [T.apply] at h
    simp only [T.toList, List.mem_append, List.mem_cons]
    by_cases h1 : c < e.lo
    · simp only [h1, if_true] at h
      obtain ⟨x, hx, hb⟩ := ihl h
      exact ⟨x, Or.inl hx, hb⟩
    · by_cases h2 : e.hi < c
      · simp only [h1, if_false, h2, if_true] at h
        obtain ⟨x, hx, hb⟩ := ihr h
        exact ⟨x, Or.inr (Or.inr hx), hb⟩
      · exact ⟨e, Or.inr (Or.inl rfl), by omega, by omega⟩

/-- a successful class lookup returns a node of the tree with exactly that code point -/
theorem CT.find_mem (t : CT) (x : Nat) (cl : List Nat) (h : t.find x = some cl) : (x, cl) ∈ t.toList := by
  induction t with
  | nil => simp [CT.find] at h
  | node l c k r ihl ihr =>
    simp only [CT.find] at h
    simp only [CT.toList, List.mem_append, List.mem_cons]
    by_cases h1 : x < c
    · simp only [h1, if_true] at h; exact Or.inl (ihl h)
    · by_cases h2 : c < x
      · simp only [h1, if_false, h2, if_true] at h; exact Or.inr (Or.inr (ihr h))
      · simp only [h1, h2, if_false, Option.some.injEq] at h
        have : x = c := by omega
        subst this; subst h; exact Or.inr (Or.inl rfl)

end Gpc.CaseMap
