/* C02 driver: scope scripts, several threads each with its own scope stack.
 * Observes: ids returned by gp_last_scope, the order of deferred callbacks and of scope-arena
 * releases (via the replaced gp_heap), contents of blocks allocated in live scopes. */
#include <gpc/memory.h>
#include <pthread.h>
#include <sched.h>
#include "proto.h"

#define MAXL 20000
#define MAXT 8
#define MAXS 4096
static char fresh_out[16];
static char* lines[MAXL]; static char* outs[MAXL]; static int ltid[MAXL]; static size_t nlines;

typedef struct { void* scope; void* first_node; int live; uint8_t* blk[8]; size_t blkn[8]; int nb; } S;
typedef struct { S sc[MAXS]; size_t ns; char* ev; size_t evn, evcap; int tid; } T;
static __thread T* me;

static int main_exit_mode;                /* C02_MAIN_THREAD: main() has returned, events go straight to stdout */
static void ev_add(const char* fmt, unsigned long v)
{
    if (main_exit_mode) { printf(fmt, v); putchar(' '); return; }
    if (!me) return;
    char b[32]; int n = snprintf(b, sizeof b, fmt, v);
    if (me->evn + (size_t)n + 2 > me->evcap) { me->evcap = (me->evcap + n + 2) * 2; me->ev = realloc(me->ev, me->evcap); }
    if (me->evn) me->ev[me->evn++] = ' ';
    memcpy(me->ev + me->evn, b, (size_t)n + 1); me->evn += (size_t)n;
}
static char* ev_take(void)
{
    char* r = me->evn ? strdup(me->ev) : strdup("-");
    me->evn = 0; if (me->ev) me->ev[0] = 0;
    return r;
}

static long h_live;                       /* blocks obtained through gp_heap and not yet given back (all threads) */
static void* h_alloc(const GPAllocator* a, size_t n) { (void)a; void* p = malloc(n ? n : 1); if (!p) abort(); __atomic_add_fetch(&h_live, 1, __ATOMIC_SEQ_CST); return p; }
static void h_dealloc(const GPAllocator* a, void* p)
{
    (void)a;
    if (!p) return;
    __atomic_sub_fetch(&h_live, 1, __ATOMIC_SEQ_CST);
    if (me) for (size_t i = 0; i < me->ns; i++)
        if (me->sc[i].live && me->sc[i].first_node == p) { me->sc[i].live = 0; ev_add("r%lu", (unsigned long)i); }
    free(p);
}
static const GPAllocator hooked = { h_alloc, h_dealloc };

static void cb(void* arg) { ev_add("c%lu", (unsigned long)(uintptr_t)arg); }

struct peek_arena { GPAllocator allocator; double g; size_t max; size_t align; void* head; };

static void check_blocks(char* out, size_t outcap)
{
    for (size_t i = 0; i < me->ns; i++) if (me->sc[i].live)
        for (int b = 0; b < me->sc[i].nb; b++)
            for (size_t k = 0; k < me->sc[i].blkn[b]; k++)
                if (me->sc[i].blk[b][k] != (uint8_t)(i * 31 + b * 7 + k)) { snprintf(out + strlen(out), outcap - strlen(out), " CORRUPT:s%zu", i); return; }
}

static void* run_thread(void* arg)
{
    T* t = arg; me = t;
    for (size_t li = 0; li < nlines; li++) {
        if (ltid[li] != t->tid) continue;
        char buf[128]; strncpy(buf, lines[li], sizeof buf - 1); buf[sizeof buf - 1] = 0;
        char* tk[6]; int n = 0; char* save = NULL;
        for (char* x = strtok_r(buf, " \t\r\n", &save); x && n < 6; x = strtok_r(NULL, " \t\r\n", &save)) tk[n++] = x;
        char out[256] = "";
        /* tk[0]="sc" tk[1]=tid tk[2]=op */
        if (n >= 4 && !strcmp(tk[2], "begin")) {
            GPAllocator* s = gp_begin(strtoull(tk[3], NULL, 10));
            S* r = &t->sc[t->ns]; r->scope = s; r->first_node = ((struct peek_arena*)s)->head; r->live = 1; r->nb = 0;
            snprintf(out, sizeof out, "s%zu", t->ns); t->ns++;
        } else if (n >= 5 && !strcmp(tk[2], "alloc")) {
            size_t k = strtoull(tk[3], NULL, 10), sz = strtoull(tk[4], NULL, 10);
            S* r = &t->sc[k];
            uint8_t* p = gp_mem_alloc(r->scope, sz);
            if (r->nb < 8) { for (size_t i = 0; i < sz; i++) p[i] = (uint8_t)(k * 31 + r->nb * 7 + i); r->blk[r->nb] = p; r->blkn[r->nb] = sz; r->nb++; }
            strcpy(out, "ok");
        } else if (n >= 5 && !strcmp(tk[2], "defer")) {
            size_t k = strtoull(tk[3], NULL, 10);
            gp_scope_defer(t->sc[k].scope, cb, (void*)(uintptr_t)strtoull(tk[4], NULL, 10));
            strcpy(out, "ok");
        } else if (n >= 4 && !strcmp(tk[2], "end")) {
            size_t k = strtoull(tk[3], NULL, 10);
            char chk[64] = ""; check_blocks(chk, sizeof chk);
            gp_end(t->sc[k].scope);
            char* e = ev_take(); snprintf(out, sizeof out, "%.200s%s", e, chk);
            if (strlen(e) > 200) { free(outs[li]); outs[li] = malloc(strlen(e) + 80); sprintf(outs[li], "%s%s", e, chk); free(e); sched_yield(); continue; }
            free(e);
        } else if (n >= 3 && !strcmp(tk[2], "last")) {
            static const char fb;                     /* fallback marker */
            /* "last null": the fallback the caller passes is NULL (legitimately returned when no scope is live) */
            const GPAllocator* given = n >= 4 && !strcmp(tk[3], "null") ? NULL : (const GPAllocator*)&fb;
            const GPAllocator* l = gp_last_scope(given);
            if (l == given) strcpy(out, "fallback");
            else { strcpy(out, "GARBAGE"); for (size_t i = 0; i < t->ns; i++) if (t->sc[i].live && t->sc[i].scope == l) snprintf(out, sizeof out, "s%zu", i); }
        } else if (n >= 3 && !strcmp(tk[2], "fresh")) {
            strcpy(out, fresh_out);                   /* what gp_last_scope said before the process had begun any scope */
        } else if (n >= 3 && !strcmp(tk[2], "exit")) {
            /* output is filled in after the thread has exited (TLS destructors ran) */
            t->evn = 0; if (t->ev) t->ev[0] = 0;
            outs[li] = NULL;
            return (void*)(uintptr_t)(li + 1);
        } else strcpy(out, "bad-op");
        outs[li] = strdup(out);
        sched_yield();
    }
    return NULL;
}

int main(void)
{
    setvbuf(stdout, NULL, _IOFBF, 1 << 16);
    {   /* depth 0 in a process that has not begun a scope yet but has used other per-thread state of the library */
        static const char fb;
        (void)gp_mem_alloc((GPAllocator*)gp_scratch_arena(), 8);
        const GPAllocator* l = gp_last_scope((const GPAllocator*)&fb);
        strcpy(fresh_out, l == (const GPAllocator*)&fb ? "fallback" : "GARBAGE");
    }
#ifndef NDEBUG
    gp_heap = &hooked;      /* a release build makes gp_heap constant: no release events there */
#endif
    while (vp_next()) {
        nlines = 0;
        do {
            if (vp_ntok == 2 && !strcmp(vp_tok[1], "end")) break;
            char joined[128] = ""; for (int i = 0; i < vp_ntok; i++) { strncat(joined, vp_tok[i], 30); strcat(joined, " "); }
            if (nlines < MAXL) { ltid[nlines] = vp_ntok > 1 ? atoi(vp_tok[1]) : 0; outs[nlines] = NULL; lines[nlines++] = strdup(joined); }
        } while (vp_next());
#ifdef C02_MAIN_THREAD
        {   /* the script of thread 0 runs on the MAIN thread; `exit` = return from main() with the scopes still live:
               what the library registered for process exit has to end them (deferred calls run, LIFO, once) */
            T* t = calloc(1, sizeof(T)); t->tid = 0;
            size_t li = (size_t)(uintptr_t)run_thread(t);
            for (size_t i = 0; i < (li ? li - 1 : nlines); i++) puts(outs[i] ? outs[i] : "no-output");
            fflush(stdout);
            if (li) main_exit_mode = 1;
            return 0;
        }
#endif
        int used[MAXT] = {0};
        for (size_t i = 0; i < nlines; i++) if (ltid[i] >= 0 && ltid[i] < MAXT) used[ltid[i]] = 1;
        pthread_t th[MAXT]; T* ts[MAXT] = {0};
        for (int t = 0; t < MAXT; t++) if (used[t]) { ts[t] = calloc(1, sizeof(T)); ts[t]->tid = t; pthread_create(&th[t], NULL, run_thread, ts[t]); }
        for (int t = 0; t < MAXT; t++) if (used[t]) {
            void* r; pthread_join(th[t], &r);
            size_t li = (size_t)(uintptr_t)r;
            if (li) {   /* thread ended with `exit`: events produced by the thread-exit destructors */
                outs[li - 1] = ts[t]->evn ? strdup(ts[t]->ev) : strdup("-");
                for (size_t j = li; j < nlines; j++) if (ltid[j] == t && !outs[j]) outs[j] = strdup("after-exit");
            }
        }
        for (size_t i = 0; i < nlines; i++) { puts(outs[i] ? outs[i] : "no-output"); free(outs[i]); free(lines[i]); }
        /* every thread of the case has exited: whatever it obtained from the heap (scope arenas, the per-thread scope
         * registry and its nodes) must have been given back */
        if (h_live == 0) puts("end"); else { printf("end LEAK:%ld\n", h_live); h_live = 0; }
        for (int t = 0; t < MAXT; t++) if (ts[t]) { free(ts[t]->ev); free(ts[t]); }
        fflush(stdout);
    }
    return 0;
}
