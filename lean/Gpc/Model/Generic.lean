import Gpc.Model.Str
import Gpc.Model.Search
import Gpc.Model.CaseMap
import Gpc.Model.CaseFull
import Gpc.Model.Compare
import Gpc.Model.Utf8
import Gpc.Model.Utf
/-
Model of the type-generic macro layer anchored by C17 (include/gpc/generic.h, src/generic.c).

A macro call is a macro name and a list of arguments *as they are spelled*: a string input can be a literal, a
`char*` variable, a `GPString`, or a pointer with an explicit length; an array input a `GPArray(T)`, a pointer with
a length, or a bare pointer.  The two language configurations derive the (pointer, length) pair the function API
wants in different ways (`_Generic` + `strlen`/header length in C11; the `#ARG[0] == '"'` test + `sizeof` in C99)
and tell a destination from an allocator in different ways (`_Generic` in C11; `sizeof(*A) < sizeof(GPAllocator)`
in C99).  `norm` is that derivation; `explicitN` is what the caller of the function API spells out; `fn` is the
meaning of the explicit function calls over normalised arguments, written with the models of the other properties.
-/
namespace Gpc.Generic
open Gpc.CaseFull (Loc)

abbrev Bytes := List UInt8

inductive Cfg where
  | c11 | c99
deriving DecidableEq, Repr

/-! ### how lengths are derived -/

/-- a string input as spelled in the call -/
inductive SArg where
  | lit (b : Bytes)             -- "literal"
  | cptr (b : Bytes)            -- char* / const char* variable pointing at b, 0-terminated
  | gstr (b : Bytes)            -- GPString holding b
  | buf (b : Bytes) (n : Nat)   -- pointer to b and the explicit length n
deriving Repr, DecidableEq

/-- `strlen` -/
def cstrLen (b : Bytes) : Bytes := b.takeWhile (· != 0)

/-- the bytes the macro passes on to the function API -/
def SArg.derive : Cfg → SArg → Option Bytes
  | .c11, .lit b => some (cstrLen b)        -- _Generic: char* -> strlen
  | .c99, .lit b => some b                  -- #A[0] == '"' -> sizeof(A) - sizeof ""
  | .c11, .cptr b => some (cstrLen b)
  | .c99, .cptr _ => none                   -- would be read as a GPString: documented as not supported
  | _, .gstr b => some b                    -- header length
  | _, .buf b n => if n ≤ b.length then some (b.take n) else none

/-- the lengths spelled out by the caller of the function API: strlen / gp_str_length / n -/
def SArg.explicit : SArg → Bytes
  | .lit b => cstrLen b
  | .cptr b => cstrLen b
  | .gstr b => b
  | .buf b n => b.take n

/-- what the header documents as accepted -/
def SArg.wf (cfg : Cfg) : SArg → Bool
  | .lit b => !b.contains 0
  | .cptr _ => cfg == .c11
  | .gstr _ => true
  | .buf b n => n ≤ b.length

/-- an array input as spelled -/
inductive AArg where
  | garr (vs : List Int)             -- GPArray(T)
  | ptr (vs : List Int) (n : Nat)    -- T* and explicit element count
  | uptr (vs : List Int)             -- T* whose length the operation does not need (slice source)
deriving Repr, DecidableEq

def AArg.derive : AArg → Option (List Int)
  | .garr vs => some vs
  | .ptr vs n => if n ≤ vs.length then some (vs.take n) else none
  | .uptr vs => some vs
def AArg.explicit : AArg → List Int
  | .garr vs => vs
  | .ptr vs n => vs.take n
  | .uptr vs => vs
def AArg.wf : AArg → Bool
  | .ptr vs n => n ≤ vs.length
  | _ => true

/-! ### destination or allocator (C99): `sizeof(*A) < sizeof(GPAllocator)` -/

inductive First where
  | dest | alloc
deriving DecidableEq, Repr

def classify99 (sizeofPointee sizeofAllocator : Nat) : First :=
  if sizeofPointee < sizeofAllocator then .dest else .alloc

/-! ### arguments -/

inductive Arg where
  | alc (arena : Bool)
  | dstr (cap : Nat) (b : Bytes)
  | str (a : SArg)
  | num (n : Nat)
  | cs (b : Bytes)
  | flags (f : List Char)
  | idx
  | darr (es cap : Nat) (vs : List Int)
  | arr (es : Nat) (a : AArg)
  | elem (es : Nat) (v : Int)
  | fn (name : String)
  | strs (l : List Bytes)
  | dstrs (l : List Bytes)
  | ty (es : Nat)
  | xs (es : Nat) (vs : List Int)
  | file (w : Bytes)
  | op (name : String)
  | opn
  | rv
deriving Repr, DecidableEq

/-- arguments after length derivation -/
inductive NArg where
  | alc
  | dstr (b : Bytes)
  | str (b : Bytes)
  | num (n : Nat)
  | cs (b : Bytes)
  | flags (f : List Char)
  | idx
  | darr (vs : List Int)
  | arr (vs : List Int)
  | elem (v : Int)
  | fn (name : String)
  | strs (l : List Bytes)
  | dstrs (l : List Bytes)
  | ty (es : Nat)
  | xs (vs : List Int)
  | file (w : Bytes)
  | op (name : String)
  | opn
  | rv
deriving Repr, DecidableEq

def Arg.norm (cfg : Cfg) : Arg → Option NArg
  | .alc _ => some .alc
  | .dstr _ b => some (.dstr b)
  | .str a => (a.derive cfg).map .str
  | .num n => some (.num n)
  | .cs b => some (.cs b)
  | .flags f => some (.flags f)
  | .idx => some .idx
  | .darr _ _ vs => some (.darr vs)
  | .arr _ a => a.derive.map .arr
  | .elem _ v => some (.elem v)
  | .fn s => some (.fn s)
  | .strs l => some (.strs l)
  | .dstrs l => some (.dstrs l)
  | .ty es => some (.ty es)
  | .xs _ vs => some (.xs vs)
  | .file w => some (.file w)
  | .op s => some (.op s)
  | .opn => some .opn
  | .rv => some .rv

def Arg.explicitN : Arg → NArg
  | .alc _ => .alc
  | .dstr _ b => .dstr b
  | .str a => .str a.explicit
  | .num n => .num n
  | .cs b => .cs b
  | .flags f => .flags f
  | .idx => .idx
  | .darr _ _ vs => .darr vs
  | .arr _ a => .arr a.explicit
  | .elem _ v => .elem v
  | .fn s => .fn s
  | .strs l => .strs l
  | .dstrs l => .dstrs l
  | .ty es => .ty es
  | .xs _ vs => .xs vs
  | .file w => .file w
  | .op s => .op s
  | .opn => .opn
  | .rv => .rv

def Arg.wf (cfg : Cfg) : Arg → Bool
  | .str a => a.wf cfg
  | .arr _ a => a.wf
  | _ => true

/-! ### results -/

inductive Val where
  | s (b : Bytes)
  | a (vs : List Int)
  | n (k : Option Nat)          -- none = GP_NOT_FOUND
  | z (k : Int)
  | b (v : Bool)
  | i (v : Int)
  | l (ss : List Bytes)
  | raw (t : String)
  | pair (x y : Val)
deriving Repr, DecidableEq

/-! ### the function API over normalised arguments -/

def whitespace : Bytes :=
  [32, 9, 10, 11, 12, 13, 194, 160, 225, 154, 128, 226, 128, 128, 226, 128, 129, 226, 128, 130, 226, 128, 131, 226, 128, 132, 226, 128, 133, 226, 128, 134, 226, 128, 135, 226, 128, 136, 226, 128, 137, 226, 128, 138, 226, 128, 168, 226, 128, 169, 226, 128, 175, 226, 129, 159, 227, 128, 128, 194, 133]

def mk (b : Bytes) (cap : Nat := 0) : Gpc.Str.Str := Gpc.Str.new cap b .heap
def outS (r : Option Gpc.Str.Str) : Option Val := r.map fun s => .s (Gpc.Str.bytes s)

def encAll (cps : List Nat) : Bytes := cps.flatMap Gpc.Utf.encodeU8
def decode (s : Bytes) : Option (List Nat) := Gpc.Utf.decodeAll s.length s

def wrap64 (x : Int) : Int := ((x + 2^63) % 2^64) - 2^63

/-- simple / full case mapping of a string: `gp_str_to_upper`, `gp_str_to_upper_full(.., locale)`, .. -/
def caseOp (mac : String) (loc : Option Bytes) (s : Bytes) : Option Bytes :=
  match mac, loc with
  | "to_upper", none => Gpc.CaseMap.strMap Gpc.CaseMap.toUpper s
  | "to_lower", none => Gpc.CaseMap.strMap Gpc.CaseMap.toLower s
  | "to_upper", some l => (decode s).map fun c => encAll (Gpc.CaseFull.upperFull (Loc.ofCode l) c)
  | "to_lower", some l => (decode s).map fun c => encAll (Gpc.CaseFull.lowerFull (Loc.ofCode l) c)
  | "capitalize", l => (decode s).map fun c => encAll (Gpc.CaseFull.capitalize (Loc.ofCode (l.getD [])) c)
  | _, _ => none

def trimOp (s : Bytes) (set : Option Bytes) (fl : Option (List Char)) : Option Bytes :=
  let f := fl.getD ['l', 'r']
  let set := set.getD whitespace
  let st := mk s
  (if f.contains 'a' then Gpc.Str.trimAscii st set (f.contains 'l') (f.contains 'r')
   else Gpc.Str.trimUtf8 st set (f.contains 'l') (f.contains 'r')).map Gpc.Str.bytes

def replaceOp (h n r : Bytes) (start : Nat) : Option (Bytes × Option Nat) :=
  (Gpc.Str.replace (mk h) n r start).map fun (s, p) => (Gpc.Str.bytes s, p)

def replaceAllOp (h n r : Bytes) : Option (Bytes × Nat) :=
  (Gpc.Str.replaceAll n r (h.length + 1) (mk h) 0 0).map fun (s, c) => (Gpc.Str.bytes s, c)

def joinOp (l : List Bytes) (sep : Bytes) : Bytes :=
  match l with
  | [] => []
  | _ => (l.dropLast.map fun x => x ++ sep).flatten ++ l.getLastD []

def insertL {α} (d : List α) (pos : Nat) (s : List α) : List α := d.take pos ++ s ++ d.drop pos

def elemFn (name : String) : Option (Int → Int) :=
  if name == "dbl" then some (· * 2) else if name == "neg" then some (fun x => -x) else none
def elemPred (name : String) : Option (Int → Bool) :=
  if name == "even" then some (fun x => x % 2 == 0) else if name == "pos" then some (· > 0) else none

/-- dictionary script: an association list keyed by the derived key bytes -/
def dictRun : List NArg → List (Bytes × Int) → List String → Option (List String)
  | [], _, acc => some acc.reverse
  | .op "put" :: .str k :: .elem v :: rest, d, acc => dictRun rest ((k, v) :: d.filter (·.1 != k)) ("p" :: acc)
  | .op "get" :: .str k :: rest, d, acc =>
    dictRun rest d ((match d.lookup k with | some v => s!"a:{v}" | none => "nil") :: acc)
  | .op "rem" :: .str k :: rest, d, acc =>
    dictRun rest (d.filter (·.1 != k)) ((if (d.lookup k).isSome then "r1" else "r0") :: acc)
  | _, _, _ => none

def flagsOf (f : List Char) : Bool × Bool × Bool := (f.contains 'f', f.contains 'c', f.contains 'r')

def fn (mac : String) (args : List NArg) : Option Val :=
  match mac, args with
  -- queries
  | "equal", [.str a, .str b] => some (.b (Gpc.Search.equal a b))
  | "count", [.str h, .str n] => if n.isEmpty then none else (Gpc.Search.count h n).map fun c => .n (some c)
  | "codepoint_length", [.str s] => s.head?.map fun b => .n (some (Gpc.Utf8.cpLen b))
  | "codepoint_length", [.str s, .num i] => s[i]?.map fun b => .n (some (Gpc.Utf8.cpLen b))
  | "find_first", [.str h, .str n] => if n.isEmpty then none else (Gpc.Search.findFirst h n 0).map .n
  | "find_first", [.str h, .str n, .num st] => if n.isEmpty then none else (Gpc.Search.findFirst h n st).map .n
  | "find_last", [.str h, .str n] => if n.isEmpty then none else (Gpc.Search.findLast h n).map .n
  | "find_first_of", [.str h, .cs set] => some (.n (Gpc.Str.findFirstCp set true (h.length + 1) h 0))
  | "find_first_of", [.str h, .cs set, .num st] => some (.n (Gpc.Str.findFirstCp set true (h.length + 1) h st))
  | "find_first_not_of", [.str h, .cs set] => some (.n (Gpc.Str.findFirstCp set false (h.length + 1) h 0))
  | "find_first_not_of", [.str h, .cs set, .num st] => some (.n (Gpc.Str.findFirstCp set false (h.length + 1) h st))
  | "equal_case", [.str a, .str b] => (Gpc.CaseMap.strEqualCase a b).map .b
  | "compare", .str a :: .str b :: rest =>
    let (f, loc) := match rest with
      | [.flags f] => (f, [])
      | [.flags f, .cs l] => (f, l)
      | _ => ([], [])
    let (fold, coll, rev) := flagsOf f
    match decode a, decode b with
    | some x, some y => some (.i (Gpc.Compare.compare fold coll rev (Loc.ofCode loc) x y))
    | _, _ => none
  | "codepoint_count", [.str s] => (Gpc.Utf8.codepointCount s 0).map fun c => .n (some c)
  | "is_valid", [.str s] => some (.b (Gpc.Utf8.isValidUtf8 s).isNone)
  | "is_valid", [.str s, .idx] => some (.pair (.b (Gpc.Utf8.isValidUtf8 s).isNone) (.n (Gpc.Utf8.isValidUtf8 s)))
  -- builders with a destination or an allocator first
  | "repeat", [.dstr _, .num k, .str s] => some (.s (List.replicate k s).flatten)
  | "repeat", [.alc, .num k, .str s] => some (.s (List.replicate k s).flatten)
  | "replace", [.dstr h, .str n, .str r] => if n.isEmpty then none else (replaceOp h n r 0).map fun x => .s x.1
  | "replace", [.dstr h, .str n, .str r, .num st] => if n.isEmpty then none else (replaceOp h n r st).map fun x => .s x.1
  | "replace", [.dstr h, .str n, .str r, .rv] => if n.isEmpty then none else (replaceOp h n r 0).map fun x => .pair (.s x.1) (.n x.2)
  | "replace", [.dstr h, .str n, .str r, .num st, .rv] => if n.isEmpty then none else (replaceOp h n r st).map fun x => .pair (.s x.1) (.n x.2)
  | "replace", [.alc, .str h, .str n, .str r] => if n.isEmpty then none else (replaceOp h n r 0).map fun x => .s x.1
  | "replace", [.alc, .str h, .str n, .str r, .num st] => if n.isEmpty then none else (replaceOp h n r st).map fun x => .s x.1
  | "replace_all", [.dstr h, .str n, .str r] => if n.isEmpty then none else (replaceAllOp h n r).map fun x => .s x.1
  | "replace_all", [.dstr h, .str n, .str r, .rv] => if n.isEmpty then none else (replaceAllOp h n r).map fun x => .pair (.s x.1) (.n (some x.2))
  | "replace_all", [.alc, .str h, .str n, .str r] => if n.isEmpty then none else (replaceAllOp h n r).map fun x => .s x.1
  | "trim", [.dstr s] => (trimOp s none none).map .s
  | "trim", [.dstr s, .cs set] => (trimOp s (some set) none).map .s
  | "trim", [.dstr s, .cs set, .flags f] => (trimOp s (some set) (some f)).map .s
  | "trim", [.alc, .str s] => (trimOp s none none).map .s
  | "trim", [.alc, .str s, .cs set] => (trimOp s (some set) none).map .s
  | "trim", [.alc, .str s, .cs set, .flags f] => (trimOp s (some set) (some f)).map .s
  | "to_valid", [.dstr s, .cs r] => some (.s (Gpc.Utf8.strToValid s r))
  | "to_valid", [.alc, .str s, .cs r] => some (.s (Gpc.Utf8.strToValid s r))
  | "split", [.alc, .str s] => some (.l (Gpc.Str.split s whitespace))
  | "split", [.alc, .str s, .cs set] => some (.l (Gpc.Str.split s set))
  | "join", [.dstr _, .strs l] => some (.s (joinOp l []))
  | "join", [.dstr _, .strs l, .cs sep] => some (.s (joinOp l sep))
  | "join", [.alc, .strs l] => some (.s (joinOp l []))
  | "join", [.alc, .strs l, .cs sep] => some (.s (joinOp l sep))
  | "sort", .dstrs l :: rest =>
    let (f, loc) := match rest with
      | [.flags f] => (f, [])
      | [.flags f, .cs l] => (f, l)
      | _ => ([], [])
    let (fold, coll, rev) := flagsOf f
    (l.mapM decode).map fun cps => .l ((Gpc.Compare.sort fold coll rev (Loc.ofCode loc) cps).map encAll)
  -- strings and arrays
  | "reserve", [.dstr s, .num k] => some (.pair (.s s) (.raw s!"cap>={k}:1"))
  | "reserve", [.darr vs, .num k] => some (.pair (.a vs) (.raw s!"cap>={k}:1"))
  | "copy", [.dstr _, .str s] => some (.s s)
  | "copy", [.alc, .str s] => some (.s s)
  | "copy", [.darr _, .arr vs] => some (.a vs)
  | "copy", [.alc, .arr vs] => some (.a vs)
  | "slice", [.dstr d, .num s, .num e] => if s ≤ e ∧ e ≤ d.length then some (.s ((d.take e).drop s)) else none
  | "slice", [.dstr _, .str src, .num s, .num e] => if s ≤ e ∧ e ≤ src.length then some (.s ((src.take e).drop s)) else none
  | "slice", [.alc, .str src, .num s, .num e] => if s ≤ e ∧ e ≤ src.length then some (.s ((src.take e).drop s)) else none
  | "slice", [.darr d, .num s, .num e] => if s ≤ e ∧ e ≤ d.length then some (.a ((d.take e).drop s)) else none
  | "slice", [.darr _, .arr src, .num s, .num e] => if s ≤ e ∧ e ≤ src.length then some (.a ((src.take e).drop s)) else none
  | "slice", [.alc, .arr src, .num s, .num e] => if s ≤ e ∧ e ≤ src.length then some (.a ((src.take e).drop s)) else none
  | "append", [.dstr d, .str s] => some (.s (d ++ s))
  | "append", [.alc, .str a, .str b] => some (.s (a ++ b))
  | "append", [.darr d, .arr s] => some (.a (d ++ s))
  | "append", [.alc, .arr a, .arr b] => some (.a (a ++ b))
  | "insert", [.dstr d, .num p, .str s] => if p ≤ d.length then some (.s (insertL d p s)) else none
  | "insert", [.alc, .num p, .str a, .str b] => if p ≤ a.length then some (.s (insertL a p b)) else none
  | "insert", [.darr d, .num p, .arr s] => if p ≤ d.length then some (.a (insertL d p s)) else none
  | "insert", [.alc, .num p, .arr a, .arr b] => if p ≤ a.length then some (.a (insertL a p b)) else none
  -- arrays
  | "push", [.darr d, .elem v] => some (.a (d ++ [v]))
  | "pop", [.darr d] => match d.getLast? with
    | some v => some (.pair (.a d.dropLast) (.a [v]))
    | none => none
  | "erase", [.darr d, .num p] => if p < d.length then some (.a (d.take p ++ d.drop (p + 1))) else none
  | "erase", [.darr d, .num p, .num c] => if p + c ≤ d.length then some (.a (d.take p ++ d.drop (p + c))) else none
  | "map", [.darr d, .fn f] => (elemFn f).map fun g => .a (d.map g)
  | "map", [.darr _, .arr s, .fn f] => (elemFn f).map fun g => .a (s.map g)
  | "map", [.alc, .arr s, .fn f] => (elemFn f).map fun g => .a (s.map g)
  | "filter", [.darr d, .fn f] => (elemPred f).map fun g => .a (d.filter g)
  | "filter", [.darr _, .arr s, .fn f] => (elemPred f).map fun g => .a (s.filter g)
  | "filter", [.alc, .arr s, .fn f] => (elemPred f).map fun g => .a (s.filter g)
  | "fold", [.arr s, .num acc, .fn _] => some (.z (s.foldl (fun a v => wrap64 (a * 31 + v)) (acc : Int)))
  | "foldr", [.arr s, .num acc, .fn _] => some (.z (s.foldr (fun v a => wrap64 (a * 31 + v)) (acc : Int)))
  -- allocation
  | "alloc", [.alc, .num k] => some (.n (some k))
  | "alloc_zeroes", [.alc, .num k] => some (.n (some k))
  | "realloc", [.alc, .num _, .num _, .num _] => some (.b true)
  | "dealloc", [.alc, .num _] => some (.b true)
  -- constructors
  | "str", [.alc] => some (.pair (.s []) (.raw "cap:16"))
  | "str", [.alc, .cs i] => some (.pair (.s i) (.raw s!"cap:{max 16 i.length}"))
  | "str", [.alc, .num c, .cs i] => some (.pair (.s i) (.raw s!"cap:{max c i.length}"))
  | "arr", [.alc, .ty _] => some (.a [])
  | "arr", [.alc, .ty _, .xs vs] => some (.a vs)
  | "arr_ro", [.ty _, .xs vs] => some (.a vs)
  | "alloc_type", [.alc, .ty es] => some (.n (some es))
  | "alloc_type", [.alc, .ty es, .num k] => some (.n (some (k * es)))
  | "dict", .alc :: .ty _ :: ops => (dictRun ops [] []).map fun r => .raw ("d:" ++ ",".intercalate r)
  -- files
  | "file", [.str s] => some (.pair (.s s) (.raw "ret:1"))
  | "file", [.dstr _, .file w] => some (.pair (.s w) (.raw "ret:1"))
  | "file", [.alc, .file w] => some (.s w)
  | "file", [.opn, .file w] => some (.s w)
  | _, _ => none

/-- case mapping forms are factored out of `fn` (they share one shape) -/
def fnCase (mac : String) (args : List NArg) : Option Val :=
  match args with
  | [.dstr s] => (caseOp mac none s).map .s
  | [.dstr s, .cs l] => (caseOp mac (some l) s).map .s
  | [.alc, .str s] => (caseOp mac none s).map .s
  | [.alc, .str s, .cs l] => (caseOp mac (some l) s).map .s
  | _ => none

def isCaseMacro (mac : String) : Bool := mac == "to_upper" || mac == "to_lower" || mac == "capitalize"

def apply (mac : String) (args : List NArg) : Option Val :=
  if isCaseMacro mac then fnCase mac args else fn mac args

/-- the macro form: derive the lengths the way the configuration does, then call the functions -/
def evalMacro (cfg : Cfg) (mac : String) (args : List Arg) : Option Val :=
  (args.mapM (Arg.norm cfg)).bind (apply mac)

/-- the function form: the caller spells the lengths out -/
def evalExplicit (mac : String) (args : List Arg) : Option Val :=
  apply mac (args.map Arg.explicitN)

end Gpc.Generic
