import Gpc.Model.Arena
import Gpc.Proofs.Arena
import Gpc.Model.DeferStack
/-!
# C01 — allocator blocks are exclusive, aligned, big enough; resize/rewind keep data

State = the arena's node list; each node carries its recorded capacity (= bytes obtained from
`malloc`), its bump position and the ledger of blocks still live in it (newest first).
`Inv` : every node has `pos ≤ cap`, `pos` aligned, and its live blocks are aligned, pairwise
disjoint, in allocation order and end at or below `pos` (`BlocksOk`).  Blocks of different nodes
cannot overlap (separate `malloc` regions).  All theorems hold for every growth function `g`
(hence every growth coefficient), every `maxSize`, every alignment > 0 and every request size.
-/
namespace Gpc.Arena

theorem inv_new (capacity align maxSize : Nat) (ha : 0 < align) : Inv (new capacity align maxSize) := by
  refine ⟨ha, by simp [new], ?_⟩
  intro n hn
  simp only [new, List.mem_singleton] at hn
  subst hn
  exact ⟨Nat.zero_le _, Nat.zero_mod _, trivial⟩

/-- what `alloc` returns: the new block is the newest ledger entry of the (possibly new) head node,
`align`-aligned, backed by `≥ n` bytes inside the node's obtained memory (`off + n ≤ cap`), every
other live block of that node lies entirely below it, and all other nodes are untouched. -/
theorem alloc_fresh (g : Nat → Nat) (a : Arena) (n : Nat) (h : Inv a) :
    ∃ hd tl bs, (alloc g a n).1.nodes = hd :: tl ∧ (alloc g a n).2.node = tl.length ∧
      hd.blocks = ⟨(alloc g a n).2.off, n⟩ :: bs ∧
      (alloc g a n).2.off % a.align = 0 ∧
      (alloc g a n).2.off + n ≤ hd.cap ∧
      BlocksOk a.align bs (alloc g a n).2.off ∧
      ((tl = a.nodes ∧ bs = []) ∨
       (∃ oh, a.nodes = oh :: tl ∧ bs = oh.blocks ∧ hd.cap = oh.cap ∧ (alloc g a n).2.off = oh.pos)) := by
  obtain ⟨ha, hne, hn⟩ := h
  unfold alloc allocRaw
  cases hnodes : a.nodes with
  | nil => exact absurd hnodes hne
  | cons head tail =>
    simp only []
    have hok := hn head (by rw [hnodes]; exact List.mem_cons_self)
    have hge := roundUp_ge n a.align ha
    split
    · refine ⟨_, _, [], rfl, by simp, rfl, Nat.zero_mod _, ?_, trivial, Or.inl ⟨rfl, rfl⟩⟩
      simp only [Nat.zero_add]
      exact Nat.le_trans hge (Nat.le_max_left _ _)
    · rename_i hfit
      refine ⟨_, _, head.blocks, rfl, rfl, rfl, hok.pos_al, ?_, hok.blocks, Or.inr ⟨head, rfl, rfl, rfl, rfl⟩⟩
      simp only []; omega

/-- the invariant survives every allocation -/
theorem inv_alloc (g : Nat → Nat) (a : Arena) (n : Nat) (h : Inv a) : Inv (alloc g a n).1 := by
  obtain ⟨ha, hne, hn⟩ := h
  unfold alloc allocRaw
  cases hnodes : a.nodes with
  | nil => exact absurd hnodes hne
  | cons head tail =>
    simp only []
    have hok := hn head (by rw [hnodes]; exact List.mem_cons_self)
    have hge := roundUp_ge n a.align ha
    have hmod := roundUp_mod n a.align
    split
    · refine ⟨ha, by simp, ?_⟩
      intro x hx
      simp only [List.mem_cons] at hx
      rcases hx with e | e | e
      · subst e
        exact ⟨Nat.le_max_left _ _, hmod, ⟨by simp, Nat.zero_mod _, trivial⟩⟩
      · subst e; exact hok
      · exact hn x (by rw [hnodes]; exact List.mem_cons_of_mem _ e)
    · rename_i hfit
      refine ⟨ha, by simp, ?_⟩
      intro x hx
      simp only [List.mem_cons] at hx
      rcases hx with e | e
      · subst e
        exact ⟨by simp only []; omega, add_mod_zero _ _ _ hok.pos_al hmod,
               ⟨Nat.le_refl _, hok.pos_al, hok.blocks⟩⟩
      · exact hn x (by rw [hnodes]; exact List.mem_cons_of_mem _ e)

/-- pairwise exclusiveness inside a node: any two distinct ledger entries have disjoint byte ranges
(the older one ends at or below the start of the newer one) -/
theorem blocks_disjoint {al : Nat} {bs : List Blk} {p : Nat} (h : BlocksOk al bs p) (i j : Nat)
    (hij : i < j) (hj : j < bs.length) :
    (bs[j]'hj).off + roundUp (bs[j]'hj).size al ≤ (bs[i]'(by omega)).off := by
  induction bs generalizing p i j with
  | nil => simp at hj
  | cons b rest ih =>
    cases i with
    | zero =>
      cases j with
      | zero => omega
      | succ j' =>
        simp only [List.getElem_cons_succ, List.getElem_cons_zero]
        exact h.2.2.below _ (List.getElem_mem _)
    | succ i' =>
      cases j with
      | zero => omega
      | succ j' =>
        simp only [List.getElem_cons_succ]
        exact ih h.2.2 i' j' (by omega) (by simpa using hj)

end Gpc.Arena

namespace Gpc.Arena

/-! ## rewind -/

/-- rewinding to a live block: exactly that block and everything allocated after it are released
(all newer nodes are popped; in the block's node the ledger keeps precisely the entries that start
below it), all older nodes are untouched, and the arena satisfies the invariant again. -/
theorem rewind_exact (a : Arena) (p : Addr) (h : Inv a) (hp : p.node < a.nodes.length)
    (t : Blk) (ht : t.off = p.off)
    (hlive : t ∈ (a.nodes[a.nodes.length - 1 - p.node]'(by omega)).blocks) :
    ∃ a', rewind a p = some a' ∧ Inv a' ∧
      a'.nodes = { (a.nodes[a.nodes.length - 1 - p.node]'(by omega)) with
                    pos := p.off,
                    blocks := (a.nodes[a.nodes.length - 1 - p.node]'(by omega)).blocks.filter
                                (fun b => decide (b.off < p.off)) }
                 :: a.nodes.drop (a.nodes.length - 1 - p.node + 1) ∧
      a'.nodes.length = p.node + 1 := by
  obtain ⟨ha, hne, hn⟩ := h
  have hk : a.nodes.length - 1 - p.node < a.nodes.length := by omega
  have hdrop := List.drop_eq_getElem_cons hk
  have hmem : a.nodes[a.nodes.length - 1 - p.node] ∈ a.nodes := List.getElem_mem _
  have hok := hn _ hmem
  have hbelow := hok.blocks.below t hlive
  have hal := hok.blocks.aligned t hlive
  have hoff : p.off ≤ (a.nodes[a.nodes.length - 1 - p.node]).cap := by
    have := hok.pos_le; omega
  unfold rewind
  simp only [hdrop]
  have hc : p.node + 1 ≤ a.nodes.length ∧ p.off ≤ (a.nodes[a.nodes.length - 1 - p.node]).cap := ⟨by omega, hoff⟩
  simp only [hc, and_self, if_true]
  refine ⟨_, rfl, ⟨ha, by simp, ?_⟩, rfl, ?_⟩
  · intro x hx
    simp only [List.mem_cons] at hx
    rcases hx with e | e
    · subst e
      refine ⟨hoff, by rw [← ht]; exact hal, ?_⟩
      have := hok.blocks.rewind t hlive
      rw [ht] at this
      exact this
    · exact hn x (List.mem_of_mem_drop e)
  · simp only [List.length_cons, List.length_drop]; omega

/-! ## realloc -/

theorem roundUp_mono (x y b : Nat) (h : x ≤ y) : roundUp x b ≤ roundUp y b := by
  unfold roundUp
  exact Nat.mul_le_mul_right _ (Nat.div_le_div_right (by omega))

theorem forgetAt_nodeOk (al : Nat) (ns : List Node) (i off : Nat) (h : ∀ n ∈ ns, NodeOk al n) :
    ∀ n ∈ forgetAt ns i off, NodeOk al n := by
  induction ns generalizing i with
  | nil => intro n hn; simp [forgetAt] at hn
  | cons x t ih =>
    cases i with
    | zero =>
      intro n hn
      simp only [forgetAt, List.mem_cons] at hn
      rcases hn with e | e
      · subst e
        have hx := h x List.mem_cons_self
        exact ⟨hx.pos_le, hx.pos_al, hx.blocks.filter _⟩
      · exact h n (List.mem_cons_of_mem _ e)
    | succ j =>
      intro n hn
      simp only [forgetAt, List.mem_cons] at hn
      rcases hn with e | e
      · subst e; exact h _ List.mem_cons_self
      · exact ih j (fun m hm => h m (List.mem_cons_of_mem _ hm)) n e

theorem forgetAt_ne_nil (ns : List Node) (i off : Nat) (h : ns ≠ []) : forgetAt ns i off ≠ [] := by
  cases ns with
  | nil => exact absurd rfl h
  | cons x t => cases i <;> simp [forgetAt]

/-- the invariant survives every realloc (last block extended in place or moved to a new node,
non-last block moved), for every old/new size -/
theorem inv_realloc (g : Nat → Nat) (a : Arena) (p : Addr) (oldSize newSize : Nat) (h : Inv a)
    (hlive : ∀ hd tl, a.nodes = hd :: tl → p.node = tl.length → ⟨p.off, oldSize⟩ ∈ hd.blocks) :
    Inv (realloc g a p oldSize newSize).arena := by
  have h' := h
  obtain ⟨ha, hne, hn⟩ := h
  unfold realloc
  cases hnodes : a.nodes with
  | nil => exact absurd hnodes hne
  | cons head tail =>
    simp only []
    split
    · rename_i hc
      have hok := hn head (by rw [hnodes]; exact List.mem_cons_self)
      have hmem := hlive head tail hnodes hc.1
      have hinv' : Inv { a with nodes := { head with pos := p.off, blocks := head.blocks.filter (fun b => decide (b.off < p.off)) } :: tail } := by
        refine ⟨ha, by simp, ?_⟩
        intro x hx
        simp only [List.mem_cons] at hx
        rcases hx with e | e
        · subst e
          have hb := hok.blocks.below _ hmem
          simp only [] at hb
          exact ⟨by have := hok.pos_le; simp only []; omega, hok.blocks.aligned _ hmem, hok.blocks.rewind _ hmem⟩
        · exact hn x (by rw [hnodes]; exact List.mem_cons_of_mem _ e)
      have := inv_alloc g _ newSize hinv'
      unfold alloc at this
      generalize hq : allocRaw g _ newSize = q at this ⊢
      obtain ⟨a'', q'⟩ := q
      exact this
    · have := inv_alloc g a newSize h'
      unfold alloc at this
      rw [hnodes] at *
      generalize hq : allocRaw g a newSize = q at this ⊢
      obtain ⟨a', q'⟩ := q
      simp only [] at this ⊢
      exact ⟨this.al_pos, forgetAt_ne_nil _ _ _ this.nonempty, forgetAt_nodeOk _ _ _ _ this.nodes⟩

/-- what realloc copies: nothing when the block stays where it is; otherwise exactly
`min old new` bytes from the old block to the start of the new block -/
theorem realloc_copy (g : Nat → Nat) (a : Arena) (p : Addr) (oldSize newSize : Nat) (h : Inv a)
    (hlive : ∀ hd tl, a.nodes = hd :: tl → p.node = tl.length → ⟨p.off, oldSize⟩ ∈ hd.blocks) :
    let r := realloc g a p oldSize newSize
    (r.copy = none → r.addr = p) ∧
    (∀ s d l, r.copy = some (s, d, l) → s = p ∧ d = r.addr ∧ l = min oldSize newSize) := by
  obtain ⟨ha, hne, hn⟩ := h
  unfold realloc
  cases hnodes : a.nodes with
  | nil => exact absurd hnodes hne
  | cons head tail =>
    simp only []
    split
    · rename_i hc
      have hok := hn head (by rw [hnodes]; exact List.mem_cons_self)
      simp only [allocRaw]
      split
      · -- a new node was needed: then the new size exceeds the old one
        rename_i hbig
        have hne' : (⟨tail.length + 1, 0⟩ : Addr) ≠ p := by
          intro e; have := congrArg Addr.node e; simp only [] at this; omega
        simp only [hne', if_false]
        refine ⟨by intro e; simp at e, ?_⟩
        intro s d l e
        simp only [Option.some.injEq, Prod.mk.injEq] at e
        obtain ⟨e1, e2, e3⟩ := e
        refine ⟨e1.symm, e2.symm, ?_⟩
        have : oldSize ≤ newSize := by
          apply Classical.byContradiction; intro hlt
          have := roundUp_mono newSize oldSize a.align (by omega)
          have := hok.pos_le
          omega
        omega
      · have hq : (⟨tail.length, p.off⟩ : Addr) = p := by
          cases p; simp only [] at hc ⊢; simp [hc.1]
        simp only [hq, if_true]
        exact ⟨fun _ => trivial, by intro s d l e; simp at e⟩
    · generalize hq : allocRaw g a newSize = q
      obtain ⟨a', q'⟩ := q
      simp only []
      refine ⟨by intro e; simp at e, ?_⟩
      intro s d l e
      simp only [Option.some.injEq, Prod.mk.injEq] at e
      exact ⟨e.1.symm, e.2.1.symm, e.2.2.symm⟩

/-! ## non-vacuity: a three-node arena with live blocks satisfies the invariant -/
example : Inv { align := 16, maxSize := 64, nodes :=
    [ { cap := 64, pos := 32, blocks := [⟨16, 10⟩, ⟨0, 16⟩] },
      { cap := 48, pos := 48, blocks := [⟨0, 40⟩] },
      { cap := 32, pos := 32, blocks := [⟨16, 1⟩, ⟨0, 3⟩] } ] } := by
  refine ⟨by decide, by simp, ?_⟩
  intro n hn
  simp only [List.mem_cons, List.mem_nil_iff, or_false] at hn
  rcases hn with e | e | e <;> subst e <;> exact ⟨by decide, by decide, by simp [BlocksOk, roundUp]⟩

/-- the regression witness of the repaired node sizing: a request above `maxSize` gets a node that
is big enough, and growth beyond `maxSize` records what was obtained -/
example : (alloc (fun c => 2 * c) (new 16 16 32) 100).1.nodes.head?.map (·.cap) = some 112 := by decide
example : (alloc (fun c => 2 * c) (new 64 16 100) 80).1.nodes.head?.map (·.cap) = some 100 := by decide

/-! ## the scope's defer stack: an internal block between the caller's blocks

`gp_scope_defer` keeps its entries in blocks it allocates from the scope's own arena, so they sit next to the
caller's blocks.  By `alloc`'s theorems above that block is exclusive; what remains is that every entry is
written *inside* it — for every number of defers. -/

theorem DeferStack.inv_init (elem : Nat) : ({} : DeferStack).Inv elem := by simp [DeferStack.Inv]

theorem DeferStack.push_inv (d : DeferStack) (hdr elem : Nat) (h : d.Inv elem) : (d.push hdr elem).next.Inv elem := by
  unfold DeferStack.Inv DeferStack.push at *
  split
  · simp
  · split
    · refine ⟨by simp only; omega, rfl⟩
    · refine ⟨by simp only; omega, h.2⟩

/-- the entry is written inside the block that holds the entries, and a growth copies no more than the
old block held and no more than the new one takes -/
theorem DeferStack.push_inside (d : DeferStack) (hdr elem : Nat) (h : d.Inv elem) :
    (d.push hdr elem).writeOff + elem ≤ (d.push hdr elem).next.room ∧
    (d.push hdr elem).copied ≤ d.room ∧ (d.push hdr elem).copied ≤ (d.push hdr elem).next.room := by
  unfold DeferStack.Inv at h
  obtain ⟨h1, h2⟩ := h
  unfold DeferStack.push
  split
  · simp; omega
  · rename_i hc
    split
    · rename_i hl
      simp only
      rw [h2, hl]
      refine ⟨?_, Nat.le_refl _, ?_⟩
      · have : d.cap * elem + elem = (d.cap + 1) * elem := by rw [Nat.add_mul, Nat.one_mul]
        rw [this]; exact Nat.mul_le_mul_right _ (by omega)
      · exact Nat.mul_le_mul_right _ (by omega)
    · rename_i hl
      simp only
      rw [h2]
      refine ⟨?_, Nat.zero_le _, Nat.zero_le _⟩
      have : d.len * elem + elem = (d.len + 1) * elem := by rw [Nat.add_mul, Nat.one_mul]
      rw [this]; exact Nat.mul_le_mul_right _ (by omega)

/-- the request is exactly the header (first time) plus the room for the entries -/
theorem DeferStack.push_request (d : DeferStack) (hdr elem : Nat) (n : Nat) (h : (d.push hdr elem).request = some n) :
    (d.push hdr elem).next.room ≤ n := by
  unfold DeferStack.push at *
  split
  · rename_i hc; simp [hc] at h; simp; omega
  · rename_i hc
    split
    · rename_i hl; simp [hc, hl] at h; simp; omega
    · rename_i hl; simp [hc, hl] at h

/-- every reachable state: any number of defers -/
theorem DeferStack.reachable_inv (hdr elem : Nat) (n : Nat) :
    ((List.range n).foldl (fun d _ => (d.push hdr elem).next) ({} : DeferStack)).Inv elem := by
  suffices ∀ (l : List Nat) (d : DeferStack), d.Inv elem → (l.foldl (fun d _ => (d.push hdr elem).next) d).Inv elem from
    this _ _ (DeferStack.inv_init elem)
  intro l
  induction l with
  | nil => intro d h; exact h
  | cons _ t ih => intro d h; exact ih _ (DeferStack.push_inv d hdr elem h)


/-- the fifth defer grows the stack: 128 bytes for 8 entries, 64 copied, the entry written at offset 64 -/
example : let d4 := (List.range 4).foldl (fun d _ => (d.push 16 16).next) ({} : DeferStack)
    (d4.push 16 16).request = some 128 ∧ (d4.push 16 16).copied = 64 ∧ (d4.push 16 16).writeOff = 64 := by decide

end Gpc.Arena
