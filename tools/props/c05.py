"""C05 — hash maps behave as dictionaries: no key ever affects another key."""
import vlib


def fnv128(bs):
    h = 0x6c62272e07bb014262b821756295c58d
    for b in bs:
        h = ((h ^ b) * 0x0000000001000000000000000000013B) % (1 << 128)
    return h


def oracle(case, out):
    """Python dict + destructor ledger"""
    d, destroyed, allput = {}, [], set()
    for i, (l, o) in enumerate(zip(case, out)):
        t = l.split()
        op = t[1]
        if "not-the-pointer" in o:
            return "line %d %s: get returned a different pointer than put: %s" % (i, l, o)
        parts = o.split(" d:")
        res = parts[0]
        dl = [int(x) for x in parts[1].split(",")] if len(parts) > 1 and parts[1] != "-" else []
        if op in ("put", "hput"):
            k = t[2]; e = int(t[3])
            want_d = [d[k]] if k in d else []
            d[k] = e; allput.add(e)
            if res != "e%d" % e:
                return "line %d %s returned %s" % (i, l, res)
            if dl != want_d:
                return "line %d %s: destructor calls %s, expected %s" % (i, l, dl, want_d)
        elif op in ("get", "hget"):
            want = "e%d" % d[t[2]] if t[2] in d else "none"
            if res != want:
                return "line %d %s = %s, dictionary says %s" % (i, l, res, want)
            if dl:
                return "line %d get ran destructors %s" % (i, dl)
        elif op in ("remove", "hremove"):
            k = t[2]
            want = "1" if k in d else "0"
            want_d = [d.pop(k)] if k in d else []
            if res != want:
                return "line %d %s = %s, expected %s" % (i, l, res, want)
            if dl != want_d:
                return "line %d %s: destructor calls %s, expected %s" % (i, l, dl, want_d)
        elif op == "delete":
            dl = [int(x) for x in o[2:].split(",")] if o.startswith("d:") and o != "d:-" else []
            if sorted(dl) != sorted(d.values()):
                return "delete destroyed %s, live elements were %s" % (sorted(dl)[:20], sorted(d.values())[:20])
            d = {}
        destroyed += dl
    if len(destroyed) != len(set(destroyed)):
        return "an element was destroyed twice"
    return None


def key_hex(k):
    return "%032x" % k


def gen_case(r, quick):
    es = r.choice([0, 0, 4, 8, 24, 64])
    cap = r.choice([1, 2, 3, 4, 5, 8, 32, 100, 256, 4096])
    alloc = r.choice(["heap", "arena"])
    lines = ["map new %d %d %s" % (es, cap, alloc)]
    hashed = r.random() < 0.25
    # adversarial key pool: classes sharing 1..k index levels, differing only in high bits, FNV scrambles
    pool = []
    base = r.randrange(1 << 128)
    for _ in range(r.randrange(2, 14)):
        m = r.random()
        if m < 0.35:
            low = r.choice([8, 15, 22, 30, 40, 64])
            k = (r.randrange(1 << 128) >> low << low) | (base & ((1 << low) - 1))
        elif m < 0.5:
            k = base ^ (1 << r.randrange(100, 128))
        elif m < 0.6 and pool:
            k = fnv128(r.choice(pool).to_bytes(16, "little"))         # old tombstone value of another key
        elif m < 0.7:
            k = r.choice([0, 1, (1 << 128) - 1, 1 << 127, 255, 256])
        else:
            k = r.randrange(1 << 128)
        pool.append(k)
    bpool = [bytes(r.randrange(256) for _ in range(r.randrange(0, 12))) for _ in range(8)]
    nid = 0
    for _ in range(r.randrange(1, 40) if r.random() < 0.8 else r.randrange(40, 300)):
        m = r.random()
        if hashed:
            k = vlib.hexs(r.choice(bpool))
            pre = "h"
        else:
            k = key_hex(r.choice(pool)); pre = ""
        if m < 0.45:
            lines.append("map %sput %s %d" % (pre, k, nid)); nid += 1
        elif m < 0.75:
            lines.append("map %sget %s" % (pre, k))
        else:
            lines.append("map %sremove %s" % (pre, k))
        if r.random() < 0.3:
            kk = vlib.hexs(r.choice(bpool)) if hashed else key_hex(r.choice(pool))
            lines.append("map %sget %s" % (pre, kk))
    lines += ["map delete", "map end"]
    return lines


def run(ctx):
    ctx.rules.append("a case = one script of put / get / remove / delete on a map (element_size 0,4,8,24,64; capacity "
                     "1..4096 power of two or not; heap or arena) over an adversarial key pool (keys sharing the low 8..64 bits, "
                     "differing only in high bits, equal to the FNV-128 of another key, extremes) or byte-string keys; re-puts "
                     "of live keys and removes of absent keys included; non-trivial = at least 3 ops; distinct by script text")
    ctx.assumptions += ["pointer maps store non-NULL pointers (a stored NULL is indistinguishable from absence)",
                        "capacities are mapped to the power of two the implementation reports (`len=`)"]
    exe = ctx.build_harness("c05")
    ctx.build_model()
    ctx.prove()
    if ctx.replay_cases is not None:
        cases = ctx.replay_cases
    else:
        quick = ctx.tier == "quick"
        cases = vlib.load_corpus("C05")
        for _ in range(3000 if quick else 60000):
            cases.append(gen_case(ctx.rng, quick))
    ctx.correspond("map-scripts", exe, cases, oracle=oracle, nontrivial=lambda c: len(c) >= 5)
