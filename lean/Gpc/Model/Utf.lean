import Gpc.Model.Utf8
/-
Model of the encoding-form conversions anchored by C07 (src/unicode.c), as repaired:
  gp_utf8_encode (UTF-8 → code point), gp_utf8_decode (code point → UTF-8),
  gp_utf8_to_utf32, gp_utf32_to_utf8, gp_utf8_to_utf16, gp_utf16_to_utf8, gp_utf8_to_wcs
The two-phase drivers (fast loop into the capacity the destination happened to have, capacity
estimate, reserve, slow loop) are functions of that initial capacity; every write is checked
against the capacity current at that moment (`none` = a write outside the destination).
-/
namespace Gpc.Utf
open Gpc.Utf8

/-- `gp_utf8_decode(decoding, encoding)`: code point → 1..4 UTF-8 bytes (byte values as `Nat`) -/
def encNat (c : Nat) : List Nat :=
  if c > 0x7F then
    if c < 0x800 then [((c &&& 0x000FC0) >>> 6) ||| 0xC0, ((c &&& 0x00003F) >>> 0) ||| 0x80]
    else if c < 0x10000 then
      [((c &&& 0x03F000) >>> 12) ||| 0xE0, ((c &&& 0x000FC0) >>> 6) ||| 0x80, ((c &&& 0x00003F) >>> 0) ||| 0x80]
    else
      [((c &&& 0x1C0000) >>> 18) ||| 0xF0, ((c &&& 0x03F000) >>> 12) ||| 0x80,
       ((c &&& 0x000FC0) >>> 6) ||| 0x80, ((c &&& 0x00003F) >>> 0) ||| 0x80]
  else [c]

def encodeU8 (c : Nat) : Bytes := (encNat c).map UInt8.ofNat

/-- bit extraction of `gp_utf8_encode` on the packed word -/
def unpackCp (enc : Nat) : Nat :=
  if enc > 0x7F then
    let mask := if enc ≤ 0x00EFBFBF then 0x000F0000 else 0x003F0000
    ((enc &&& 0x07000000) >>> 6) ||| ((enc &&& mask) >>> 4) ||| ((enc &&& 0x00003F00) >>> 2) ||| (enc &&& 0x0000003F)
  else enc

/-- `gp_utf8_encode(&cp, s, 0)`: (code point, bytes consumed); reads `cpLen` bytes (checked) -/
def decodeU8 (s : Bytes) : Option (Nat × Nat) :=
  match s with
  | [] => none
  | b :: _ =>
    let n := cpLen b
    if n > s.length then none else some (unpackCp (pack (s.take n)), n)

/-! ### UTF-8 → UTF-32 -/

/-- both loops of `gp_utf8_to_utf32`: decode code point by code point (fuel = byte count) -/
def decodeAll : (fuel : Nat) → Bytes → Option (List Nat)
  | 0, _ => some []
  | fuel + 1, s =>
    match s with
    | [] => some []
    | _ :: _ =>
      match decodeU8 s with
      | none => none
      | some (c, n) => if n = 0 then none else (decodeAll fuel (s.drop n)).map (c :: ·)

/-- fast loop: at most `cap` code points into the existing capacity; returns (output, rest) -/
def u32Fast : (cap : Nat) → Bytes → Option (List Nat × Bytes)
  | 0, s => some ([], s)
  | cap + 1, s =>
    match s with
    | [] => some ([], [])
    | _ :: _ =>
      match decodeU8 s with
      | none => none
      | some (c, n) => if n = 0 then none else (u32Fast cap (s.drop n)).map fun (o, r) => (c :: o, r)

/-- `gp_utf8_to_utf32` with a destination of initial capacity `cap` -/
def utf8ToUtf32 (cap : Nat) (s : Bytes) : Option (List Nat) :=
  match u32Fast cap s with
  | none => none
  | some (o, rest) => (decodeAll rest.length rest).map (o ++ ·)

/-! ### UTF-32 → UTF-8 -/

/-- fast loop of `gp_utf32_to_utf8`: runs while `length + 4 ≤ capacity`; `len` = bytes written -/
def u8Fast (cap : Nat) : (len : Nat) → List Nat → Bytes × List Nat
  | len, [] => ([], [])
  | len, c :: cs =>
    if len + 4 ≤ cap then
      let e := encodeU8 c
      let (o, r) := u8Fast cap (len + e.length) cs
      (e ++ o, r)
    else ([], c :: cs)

def byteLen (c : Nat) : Nat := if c > 0x7F then (if c < 0x800 then 2 else if c < 0x10000 then 3 else 4) else 1

/-- slow loop after `gp_str_reserve(required)`: every write checked against `cap` -/
def u8Slow (cap : Nat) : (len : Nat) → List Nat → Option Bytes
  | _, [] => some []
  | len, c :: cs =>
    let e := encodeU8 c
    if len + e.length ≤ cap then (u8Slow cap (len + e.length) cs).map (e ++ ·) else none

/-- `gp_utf32_to_utf8` into a string of initial capacity `cap` -/
def utf32ToUtf8 (cap : Nat) (cps : List Nat) : Option Bytes :=
  let (o, rest) := u8Fast cap 0 cps
  let required := o.length + (rest.map byteLen).sum
  let cap' := max cap required                       -- gp_str_reserve never shrinks
  (u8Slow cap' o.length rest).map (o ++ ·)

/-! ### UTF-16 -/

/-- the surrogate arithmetic of `gp_utf8_to_utf16` (`encoding -= 0x10000; >>10 | 0xD800; &0x3FF | 0xDC00`) -/
def encodeU16 (c : Nat) : List Nat :=
  if c ≤ 0xFFFF then [c]
  else
    let e := c - 0x10000
    [(e >>> 10) ||| 0xD800, (e &&& 0x3FF) ||| 0xDC00]

/-- `0x10000 + (((hi &~ 0xD800) << 10) | (lo &~ 0xDC00))` (`&~` on 16-bit values) -/
def joinSurrogates (hi lo : Nat) : Nat :=
  0x10000 + (((hi &&& (0xFFFF - 0xD800)) <<< 10) ||| (lo &&& (0xFFFF - 0xDC00)))

def utf8ToUtf16 (s : Bytes) : Option (List Nat) :=
  (decodeAll s.length s).map fun cps => cps.flatMap encodeU16

/-- code units → code points as `gp_utf16_to_utf8` reads them -/
def decodeU16 : (fuel : Nat) → List Nat → Option (List Nat)
  | 0, _ => some []
  | _ + 1, [] => some []
  | fuel + 1, u :: rest =>
    if u < 0x800 ∨ u ≤ 0xD7FF ∨ 0xE000 ≤ u then (decodeU16 fuel rest).map (u :: ·)
    else match rest with
      | [] => none                                   -- reads u16[i+1] past the end
      | lo :: rest' => (decodeU16 fuel rest').map (joinSurrogates u lo :: ·)

def utf16ToUtf8 (cap : Nat) (us : List Nat) : Option Bytes :=
  match decodeU16 us.length us with
  | none => none
  | some cps => utf32ToUtf8 cap cps

end Gpc.Utf
