import Gpc.Model.Printf
namespace Gpc.Printf
theorem placeholder_c09 : True := trivial
end Gpc.Printf
