"""C11 — simple case conversion follows the Unicode Character Database for every code point."""
import collections
import os
import vlib
import gen_c11

KEYS = {"U": "Simple_Uppercase_Mapping", "L": "Simple_Lowercase_Mapping", "T": "Simple_Titlecase_Mapping"}


def oracle_factory(ucd):
    up, lo, ti, scf = (ucd[k] for k in ("Simple_Uppercase_Mapping", "Simple_Lowercase_Mapping",
                                         "Simple_Titlecase_Mapping", "Simple_Case_Folding"))

    def oracle(case, out):
        t = case[0].split(); op, o = t[1], out[0]
        b = lambda s: b"" if s == "-" else bytes.fromhex(s)
        if op in ("upper", "lower", "title"):
            m = {"upper": up, "lower": lo, "title": ti}[op]
            s = b(t[2]).decode("utf-8")
            want = "".join(chr(m.get(ord(c), ord(c))) for c in s).encode("utf-8")
            if b(o) != want:
                return "%s(%s) = %s, UCD simple mapping gives %s" % (op, t[2], o, vlib.hexs(want))
        elif op == "eqc":
            f = lambda s: [scf.get(ord(c), ord(c)) for c in b(s).decode("utf-8")]
            want = "1" if f(t[2]) == f(t[3]) else "0"
            if o != want:
                return "equal_case(%s,%s) = %s, equal simple case foldings: %s" % (t[2], t[3], o, want)
        return None
    return oracle


def gen(ctx, ucd):
    r = ctx.rng
    quick = ctx.tier == "quick"
    scf = ucd["Simple_Case_Folding"]
    by = collections.defaultdict(set)
    for c, f in scf.items():
        by[f].add(c); by[f].add(f)
    classes = [sorted(v) for v in by.values()]
    big = [cl for cl in classes if len(cl) >= 3]
    cased = sorted(set(ucd["Simple_Uppercase_Mapping"]) | set(ucd["Simple_Lowercase_Mapping"]))
    cases = []
    add = lambda s: cases.append(["case " + s])
    enc = lambda cps: vlib.hexs("".join(chr(c) for c in cps).encode("utf-8"))

    def rcp():
        k = r.random()
        if k < 0.45: return r.choice(cased)
        if k < 0.6: return r.randrange(0x20, 0x7F)
        if k < 0.8: return r.choice([0x3B1, 0x416, 0x10D0, 0x13A0, 0xAB70, 0x1C90, 0xA7C4, 0x10570, 0x1E900, 0x118A0, 0x16E40, 0x2C00, 0x1F600, 0x4E2D])
        c = r.randrange(0x110000)
        return c if not 0xD800 <= c <= 0xDFFF else 0x41
    for _ in range(1500 if quick else 40000):
        cps = [rcp() for _ in range(r.randrange(0, 30))]
        h = enc(cps)
        add("upper " + h); add("lower " + h); add("title " + h)
    # equality: all pairs from the 3- and 4-element orbits, case variants, non-equal near misses
    for cl in big:
        for a in cl:
            for b2 in cl:
                add("eqc %s %s" % (enc([0x78, a, 0x79]), enc([0x78, b2, 0x79])))
    for _ in range(2000 if quick else 50000):
        cps = [rcp() for _ in range(r.randrange(0, 12))]
        m = r.random()
        if m < 0.5:
            other = [r.choice(sorted(by.get(scf.get(c, c), {c}))) for c in cps]
        elif m < 0.7:
            other = list(cps)
            if other: other[r.randrange(len(other))] = rcp()
        elif m < 0.8:
            other = cps[:-1]
        else:
            other = [rcp() for _ in range(len(cps))]
        add("eqc %s %s" % (enc(cps), enc(other)))
    return cases


def run(ctx):
    ctx.rules.append("T-gen: gp_u32_to_upper/lower/title and gp_u32_simple_fold executed over ALL 0x110000 code points and "
                     "emitted as canonical tables (the kernel then checks table equality with the vendored UCD); "
                     "correspondence: upper/lower/title of mixed-script valid UTF-8 strings, case-insensitive equality over "
                     "all pairs of the 3- and 4-element orbits, case variants and near misses; non-trivial = non-empty string")
    ctx.assumptions += ["UCD tables vendored from perl 5.36 (Unicode 14.0), cross-checked against CPython 3.13 (15.1)",
                        "input strings are valid UTF-8"]
    ucd = gen_c11.load_ucd()
    # --- T-gen: regenerate the model tables from the freshly compiled code
    ext = ctx.build_harness("c11_extract", exclude=("string",))
    rc, out, err = vlib.sh([ext], timeout=300)
    if rc != 0:
        raise vlib.InfraError("c11_extract failed: " + err[-500:])
    impl, changed = gen_c11.write_generated(out)
    ctx.extra_cov["generated_tables_changed"] = changed
    ctx.extra_cov["code_points_extracted"] = 0x110000 * 4
    ctx.exhaustive = True
    # direct witness search on the extraction (independent of Lean): first differing code points
    for k, name in KEYS.items():
        a, b = impl[k], ucd[name]
        diff = sorted(x for x in set(a) | set(b) if a.get(x, x) != b.get(x, x) and not 0xD800 <= x <= 0xDFFF)
        for x in diff[:5]:
            ctx.add_witness("t-gen", ["case cp %d" % x], ["%s -> U+%04X" % (k, a.get(x, x))], [],
                            "%s of U+%04X is U+%04X, UCD says U+%04X" % (name, x, a.get(x, x), b.get(x, x)))
    exe = ctx.build_harness("c11")
    ctx.build_model()
    ctx.prove()
    cases = ctx.replay_cases if ctx.replay_cases is not None else (vlib.load_corpus("C11") + gen(ctx, ucd))
    cases = [c for c in cases if not c[0].startswith("case cp ")] + \
            [c for c in cases if c[0].startswith("case cp ")]
    ctx.correspond("case-strings", exe, cases, oracle=oracle_factory(ucd),
                   nontrivial=lambda c: c[0].split()[-1] != "-",
                   compare=lambda a, b: a == b or (a and b and a[0].split()[:3] == b[0].split()[:3]))
