/* C09 / C10 driver: pf_snprintf on exact-size destinations vs glibc snprintf.
 *
 *   pf pf <n|-1> <fmthex> <arg>...   pf_snprintf(buf[n], n, fmt, args): "r=<ret> w=<first min(ret,n) bytes> z=<terminated?>"
 *                                    n = -1: a roomy buffer (the unbounded output)
 *   pf ref <fmthex> <arg>...         glibc snprintf with the same arguments: "r=<ret> w=<bytes>"
 *
 * args:  i<dec>  signed 64-bit integer-class argument        u<dec>  unsigned 64-bit integer-class argument
 *        d<hex16> double given by its bit pattern            s<hex>  char* to a NUL-terminated copy
 *        x<hex>  char* to an exact-size, NOT terminated copy (for %.Ns)
 *        G<hex>  GPString (for %S)
 *
 * Variadic call: x86-64 SysV passes integer/pointer arguments and double arguments in independent register
 * files and va_arg() fetches them independently, so (g0..g5, d0..d7) serves every interleaving of at most 6
 * integer-class and 8 double arguments.  The same call shape is used for glibc.
 */
#include <printf/printf.h>
#include <gpc/string.h>
#include <gpc/memory.h>
#include "proto.h"

#define MAXG 6
#define MAXD 8

int main(void)
{
    setvbuf(stdout, NULL, _IOLBF, 0);
    while (vp_next()) {
        if (vp_ntok < 3 || strcmp(vp_tok[0], "pf") != 0) { puts("bad-op"); continue; }
        int is_ref = !strcmp(vp_tok[1], "ref");
        int is_pf  = !strcmp(vp_tok[1], "pf");
        if (!is_ref && !is_pf) { puts("bad-op"); continue; }
        int a = 2;
        long long n = -1;
        if (is_pf) n = strtoll(vp_tok[a++], NULL, 10);
        if (a >= vp_ntok) { puts("bad-op"); continue; }
        size_t fl; uint8_t* fb = vp_hex(vp_tok[a++], &fl);
        char* fmt = malloc(fl + 1); memcpy(fmt, fb, fl); fmt[fl] = 0; free(fb);

        uint64_t g[MAXG] = {0}; double d[MAXD] = {0};
        void* owned[MAXG] = {0}; GPString gs[MAXG] = {0};
        int ng = 0, nd = 0, bad = 0;
        for (; a < vp_ntok && !bad; a++) {
            const char* t = vp_tok[a];
            switch (t[0]) {
            case 'i': if (ng < MAXG) g[ng++] = (uint64_t)strtoll(t + 1, NULL, 10); else bad = 1; break;
            case 'u': if (ng < MAXG) g[ng++] = strtoull(t + 1, NULL, 10); else bad = 1; break;
            case 'd': if (nd < MAXD) { uint64_t b = strtoull(t + 1, NULL, 16); memcpy(&d[nd++], &b, 8); } else bad = 1; break;
            case 's': case 'x': case 'G':
                if (ng < MAXG) {
                    size_t l; uint8_t* b = vp_hex(t + 1, &l);
                    if (t[0] == 's') { char* c = malloc(l + 1); memcpy(c, b, l); c[l] = 0; free(b); owned[ng] = c; g[ng++] = (uint64_t)(uintptr_t)c; }
                    else if (t[0] == 'x') { owned[ng] = b; g[ng++] = (uint64_t)(uintptr_t)b; }
                    else { gs[ng] = gp_str_new(gp_heap, l, ""); gp_str_copy(&gs[ng], b, l); free(b); g[ng] = (uint64_t)(uintptr_t)gs[ng]; ng++; }
                } else bad = 1;
                break;
            default: bad = 1;
            }
        }
        if (bad) { puts("bad-op"); }
        else if (is_ref) {
            size_t cap = 1 << 16;
            char* buf = malloc(cap);
            int r = snprintf(buf, cap, fmt, g[0], g[1], g[2], g[3], g[4], g[5], d[0], d[1], d[2], d[3], d[4], d[5], d[6], d[7]);
            printf("r=%d w=", r); vp_puthex(buf, r < 0 ? 0 : (size_t)r < cap ? (size_t)r : cap); puts("");
            free(buf);
        } else {
            size_t cap = n < 0 ? (size_t)1 << 16 : (size_t)n;
            char* buf = malloc(cap);                       /* exactly n bytes: ASan sees the first byte past the limit */
            memset(buf, 0xAA, cap);
            int r = pf_snprintf(buf, cap, fmt, g[0], g[1], g[2], g[3], g[4], g[5], d[0], d[1], d[2], d[3], d[4], d[5], d[6], d[7]);
            size_t w = r < 0 ? 0 : (size_t)r < cap ? (size_t)r : cap;
            printf("r=%d w=", r); vp_puthex(buf, w);
            printf(" z=%d\n", (size_t)r < cap ? buf[r] == 0 : -1);
            free(buf);
        }
        for (int i = 0; i < MAXG; i++) { free(owned[i]); if (gs[i]) gp_str_delete(gs[i]); }
        free(fmt);
    }
    return 0;
}
