import Gpc.Driver.Num
import Gpc.Driver.Search
import Gpc.Driver.Utf8
import Gpc.Driver.Utf
open Gpc.Proto

def dispatch (toks : List String) : String :=
  match toks with
  | "num" :: rest => Gpc.Driver.num rest
  | "srch" :: rest => Gpc.Driver.srch rest
  | "u8" :: rest => Gpc.Driver.u8 rest
  | "utf" :: rest => Gpc.Driver.utf rest
  | _ => "bad-op"

partial def loop (h : IO.FS.Stream) (out : IO.FS.Stream) : IO Unit := do
  let line ← h.getLine
  if line.isEmpty then return ()
  out.putStrLn (dispatch (tokens line))
  loop h out

def main : IO Unit := do
  let i ← IO.getStdin
  let o ← IO.getStdout
  loop i o
