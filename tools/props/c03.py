"""C03 — dynamic array behaves as a sequence; growth never loses or overruns elements."""
import vlib

MARKS = ["CAP<LEN", "NEIGHBOUR-CLOBBERED", "BAD-FREE", "LEAK", "MOVED-FROM-STACK", "STACK-ARRAY-LOST"]


def oracle(case, out):
    """Python list of element byte strings"""
    es, seq = 1, []
    fmap = lambda e: bytes((b * 3 + 1) & 255 for b in e)
    for i, (l, o) in enumerate(zip(case, out)):
        for m in MARKS:
            if m in o:
                return "line %d %s: %s" % (i, l, o[-80:])
        t = l.split()
        op = t[1]
        b = lambda s: b"" if s == "-" else bytes.fromhex(s)
        ch = lambda bs: [bs[j:j + es] for j in range(0, len(bs), es)]
        popped = None
        if op == "new":
            es, seq = int(t[3]), []
        elif op == "push": seq.append(b(t[2]))
        elif op == "pop": popped = seq.pop()
        elif op == "append": seq += ch(b(t[2]))
        elif op == "insert": p = int(t[2]); seq[p:p] = ch(b(t[3]))
        elif op == "erase": p, c = int(t[2]), int(t[3]); del seq[p:p + c]
        elif op == "copy": seq = ch(b(t[2]))
        elif op == "slice": seq = seq[int(t[2]):int(t[3])]
        elif op == "slicefrom": seq = ch(b(t[2]))[int(t[3]):int(t[4])]
        elif op == "map": seq = [fmap(e) for e in seq]
        elif op == "mapfrom": seq = [fmap(e) for e in ch(b(t[2]))]
        elif op == "filter": seq = [e for e in seq if e[0] % 2 == 1]
        elif op == "filterfrom": seq = [e for e in ch(b(t[2])) if e[0] % 2 == 1]
        elif op == "fold":
            f1 = 7
            for e in seq: f1 = (f1 * 31 + e[0]) % 2**64
            f2 = 7
            for e in reversed(seq): f2 = (f2 * 31 + e[0]) % 2**64
            if o != "%d %d" % (f1, f2):
                return "line %d fold = %s, expected %d %d" % (i, o, f1, f2)
            continue
        elif op in ("delete", "end", "reserve"):
            if op != "reserve":
                continue
        want = "len=%d %s" % (len(seq), vlib.hexs(b"".join(seq)))
        if popped is not None:
            want = vlib.hexs(popped) + " " + want
        if o != want:
            return "line %d %s: array is %s, sequence model says %s" % (i, l, o[:120], want[:120])
    return None


def gen_case(r):
    es = r.choice([1, 2, 3, 4, 5, 7, 8, 12, 16, 24, 33, 64])
    kind = r.choice(["heap", "arena", "arena2", "scope", "stack", "stack0"])
    cnt = r.choice([0, 1, 2, 3, 4, 7, 8, 16, 33]) if kind != "stack0" else r.choice([8, 16, 40])
    lines = ["arr new %s %d %d" % (kind, es, cnt)]
    n = 0
    cap_limit = cnt if kind == "stack0" else 10**9
    rb = lambda k: vlib.hexs(bytes(r.randrange(256) for _ in range(k * es)))
    for _ in range(r.randrange(1, 40) if r.random() < 0.85 else r.randrange(40, 300)):
        m = r.random()
        if m < 0.25 and n + 1 <= cap_limit:
            lines.append("arr push %s" % rb(1)); n += 1
        elif m < 0.33 and n > 0:
            lines.append("arr pop"); n -= 1
        elif m < 0.45:
            k = r.choice([0, 1, 2, 5, 9, 17, 40])
            if n + k <= cap_limit:
                lines.append("arr append %s" % rb(k)); n += k
        elif m < 0.57:
            k = r.choice([0, 1, 2, 3, 9, 20])
            if n + k <= cap_limit:
                lines.append("arr insert %d %s" % (r.choice([0, n, r.randrange(n + 1)]), rb(k))); n += k
        elif m < 0.67 and n > 0:
            p = r.randrange(n + 1); c = r.randrange(0, n - p + 1)
            lines.append("arr erase %d %d" % (p, c)); n -= c
        elif m < 0.72:
            k = r.choice([0, 1, 3, 8, 30])
            if k <= cap_limit:
                lines.append("arr copy %s" % rb(k)); n = k
        elif m < 0.78:
            s = r.randrange(n + 1); e = r.randrange(s, n + 1)
            lines.append("arr slice %d %d" % (s, e)); n = e - s
        elif m < 0.82:
            k = r.choice([1, 4, 10]); s = r.randrange(k + 1); e = r.randrange(s, k + 1)
            if e - s <= cap_limit:
                lines.append("arr slicefrom %s %d %d" % (rb(k), s, e)); n = e - s
        elif m < 0.86:
            lines.append("arr map")
        elif m < 0.89:
            k = r.choice([0, 2, 9])
            if k <= cap_limit:
                lines.append("arr mapfrom %s" % rb(k)); n = k
        elif m < 0.93:
            lines.append("arr filter"); n = None
        elif m < 0.95:
            k = r.choice([0, 3, 12])
            if k <= cap_limit:
                lines.append("arr filterfrom %s" % rb(k)); n = None
        elif m < 0.98:
            lines.append("arr fold")
        else:
            k = r.choice([0, n, n + 1, 2 * n + 3])
            if k <= cap_limit or kind != "stack0":
                lines.append("arr reserve %d" % k)
        if n is None:
            # length after a filter is data dependent: recompute with the oracle's sequence model
            n = sum(1 for _ in range(0))  # placeholder, fixed below
            n = _len_after(lines)
    lines += ["arr delete", "arr end"]
    return lines


def gen_big_case(r):
    """an array that outgrows the default size limit of an arena / scope node (32 KiB) while it lives there"""
    es = r.choice([1, 4, 7, 33, 64])
    kind = r.choice(["arena", "arena2", "scope", "stack", "heap"])
    lines = ["arr new %s %d %d" % (kind, es, r.choice([0, 4, 33]))]
    rb = lambda k: vlib.hexs(r.randbytes(k * es))
    n, target = 0, r.choice([34000, 49000, 70000]) // es + 1
    while n < target:
        k = r.choice([1, 300, 2000, 9000, 20000]) // es + 1
        m = r.random()
        if m < 0.6:
            lines.append("arr append %s" % rb(k)); n += k
        elif m < 0.8:
            lines.append("arr insert %d %s" % (r.choice([0, n, r.randrange(n + 1)]), rb(k))); n += k
        elif m < 0.9:
            lines.append("arr reserve %d" % (n + k))
        else:
            lines.append("arr push %s" % rb(1)); n += 1
    p = r.randrange(n); c = r.randrange(0, min(n - p, 5000) + 1)
    lines += ["arr erase %d %d" % (p, c), "arr push %s" % rb(1), "arr fold", "arr delete", "arr end"]
    return lines


def _len_after(lines):
    """replays the script on the sequence model to learn the length (needed after a filter)"""
    es, seq = 1, []
    b = lambda s: b"" if s == "-" else bytes.fromhex(s)
    for l in lines:
        t = l.split(); op = t[1]
        ch = lambda bs: [bs[j:j + es] for j in range(0, len(bs), es)]
        fmap = lambda e: bytes((x * 3 + 1) & 255 for x in e)
        if op == "new": es, seq = int(t[3]), []
        elif op == "push": seq.append(b(t[2]))
        elif op == "pop": seq.pop()
        elif op == "append": seq += ch(b(t[2]))
        elif op == "insert": p = int(t[2]); seq[p:p] = ch(b(t[3]))
        elif op == "erase": p, c = int(t[2]), int(t[3]); del seq[p:p + c]
        elif op == "copy": seq = ch(b(t[2]))
        elif op == "slice": seq = seq[int(t[2]):int(t[3])]
        elif op == "slicefrom": seq = ch(b(t[2]))[int(t[3]):int(t[4])]
        elif op == "map": seq = [fmap(e) for e in seq]
        elif op == "mapfrom": seq = [fmap(e) for e in ch(b(t[2]))]
        elif op == "filter": seq = [e for e in seq if e[0] % 2 == 1]
        elif op == "filterfrom": seq = [e for e in ch(b(t[2])) if e[0] % 2 == 1]
    return len(seq)


def run(ctx):
    ctx.rules.append("a case = one script of array operations with valid indices over element sizes "
                     "1,2,3,4,5,7,8,12,16,24,33,64 and storage kinds heap / tight arena (node = the array) / default arena "
                     "with a live neighbour block right after the array / scope / stack with heap fallback / stack without "
                     "allocator; counts cross 1..4 capacity doublings, plus a few arrays grown past the 32 KiB node limit of arenas and scopes; non-trivial = at least 3 ops; distinct by script text")
    ctx.assumptions += ["operations get valid indices and non-overlapping sources (documented preconditions)",
                        "map/filter/fold callbacks are fixed pure functions of the element bytes"]
    exe = ctx.build_harness("c03")
    ctx.build_model()
    ctx.prove()
    if ctx.replay_cases is not None:
        cases = ctx.replay_cases
    else:
        quick = ctx.tier == "quick"
        cases = vlib.load_corpus("C03")
        for _ in range(2500 if quick else 50000):
            cases.append(gen_case(ctx.rng))
        for _ in range(10 if quick else 150):
            cases.append(gen_big_case(ctx.rng))
    ctx.correspond("array-scripts", exe, cases, oracle=oracle, nontrivial=lambda c: len(c) >= 5)
