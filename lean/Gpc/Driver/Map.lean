import Gpc.Model.Proto
import Gpc.Model.Map
import Gpc.Model.Num
namespace Gpc.Driver
open Gpc.Proto Gpc.Map

structure MapSt where
  m : Gpc.Map.Map := Gpc.Map.new 0
  keys : List Nat := []                 -- distinct keys ever put (to enumerate live elements at delete)
  alive : Bool := false

def parseKey (s : String) : Option Nat :=
  (parseHex s).bind fun bs => if bs.length = 16 then some (bs.foldl (fun a b => a * 256 + b.toNat) 0) else none

def showLogSince (old new : List Nat) : String :=
  let d := new.drop old.length
  if d.isEmpty then "" else " d:" ++ ",".intercalate (d.map toString)

def insertSorted (x : Nat) : List Nat → List Nat
  | [] => [x]
  | y :: ys => if x ≤ y then x :: y :: ys else y :: insertSorted x ys

def mapStep (s : MapSt) (toks : List String) : MapSt × String :=
  let doPut (key id : Nat) : MapSt × String :=
    match put s.m key id with
    | none => (s, "model-fuel")
    | some m' => ({ s with m := m', keys := if s.keys.contains key then s.keys else key :: s.keys },
                  s!"e{id}" ++ showLogSince s.m.log m'.log)
  let doGet (key : Nat) : MapSt × String :=
    match get s.m key with
    | none => (s, "model-fuel")
    | some none => (s, "none")
    | some (some e) => (s, s!"e{e}")
  let doRemove (key : Nat) : MapSt × String :=
    match remove s.m key with
    | none => (s, "model-fuel")
    | some (b, m') => ({ s with m := m' }, (if b then "1" else "0") ++ showLogSince s.m.log m'.log)
  match toks with
  | ["new", _es, cap, _alloc] => match cap.toNat? with
    | some cap => ({ m := Gpc.Map.new cap, alive := true }, s!"ok len={lengthOf cap}")
    | none => (s, "bad-op")
  | ["put", k, id] => match parseKey k, id.toNat? with
    | some key, some id => doPut key id | _, _ => (s, "bad-op")
  | ["get", k] => match parseKey k with | some key => doGet key | none => (s, "bad-op")
  | ["remove", k] => match parseKey k with | some key => doRemove key | none => (s, "bad-op")
  | ["hput", k, id] => match parseHex k, id.toNat? with
    | some bs, some id => doPut (Gpc.Num.fnv128 bs).toNat id | _, _ => (s, "bad-op")
  | ["hget", k] => match parseHex k with | some bs => doGet (Gpc.Num.fnv128 bs).toNat | none => (s, "bad-op")
  | ["hremove", k] => match parseHex k with | some bs => doRemove (Gpc.Num.fnv128 bs).toNat | none => (s, "bad-op")
  | ["delete"] =>
    let live := s.keys.filterMap fun k => match get s.m k with | some (some e) => some e | _ => none
    let sorted := live.foldl (fun acc x => insertSorted x acc) []
    ({}, "d:" ++ (if sorted.isEmpty then "-" else ",".intercalate (sorted.map toString)))
  | ["end"] => ({}, "end")
  | _ => (s, "bad-op")

end Gpc.Driver
