/* Tracking replacement for gp_heap (writable in non-NDEBUG builds): exact-size mallocs (ASan guards
 * them), a log of allocation sizes and frees, double-free / foreign-free detection. */
#ifndef VERIF_TRACK_HEAP_H
#define VERIF_TRACK_HEAP_H
#include <gpc/memory.h>
#include <stdio.h>
#include <stdlib.h>
#include <string.h>
#include <stdint.h>

#define TH_MAX 65536
static struct { void* p; size_t n; int live; } th_tab[TH_MAX];
static size_t th_count, th_log_from;
static size_t th_frees, th_bad_free;

static void* th_alloc(const GPAllocator* a, size_t n)
{
    (void)a;
    void* p = malloc(n ? n : 1);
    if (!p) { fprintf(stderr, "track_heap: malloc(%zu) failed\n", n); abort(); }
    if (th_count < TH_MAX) { th_tab[th_count].p = p; th_tab[th_count].n = n; th_tab[th_count].live = 1; th_count++; }
    return p;
}
static void th_dealloc(const GPAllocator* a, void* p)
{
    (void)a;
    if (!p) return;
    for (size_t i = th_count; i-- > 0;)
        if (th_tab[i].p == p && th_tab[i].live) { th_tab[i].live = 0; th_frees++; free(p); return; }
    th_bad_free++;        /* double free or foreign pointer: do not pass to free() */
}
static const GPAllocator th_allocator = { th_alloc, th_dealloc };
static const GPAllocator* th_saved;
#ifdef VERIF_NO_TRACK   /* release builds: gp_heap is const; nothing is tracked, the counters stay 0 */
static void th_install(void) { (void)th_saved; (void)th_allocator; }
#else
static void th_install(void) { th_saved = gp_heap; gp_heap = &th_allocator; }
#endif
static void th_reset(void) { th_count = th_log_from = th_frees = th_bad_free = 0; }
static size_t th_live(void) { size_t k = 0; for (size_t i = 0; i < th_count; i++) k += th_tab[i].live; return k; }
/* prints " m:<sizes since last call or -> f:<frees since last call>" */
static void th_print_traffic(void)
{
    static size_t last_frees;
    if (th_log_from > th_count) th_log_from = 0;
    fputs(" m:", stdout);
    if (th_log_from == th_count) fputs("-", stdout);
    for (size_t i = th_log_from; i < th_count; i++) printf("%s%zu", i > th_log_from ? "," : "", th_tab[i].n);
    th_log_from = th_count;
    if (th_frees < last_frees) last_frees = 0;
    printf(" f:%zu", th_frees - last_frees);
    last_frees = th_frees;
}
/* region lookup for an address range */
static int th_inside(const void* p, size_t n)
{
    for (size_t i = 0; i < th_count; i++)
        if (th_tab[i].live && (uint8_t*)p >= (uint8_t*)th_tab[i].p && (uint8_t*)p + n <= (uint8_t*)th_tab[i].p + th_tab[i].n) return 1;
    return 0;
}
#endif
