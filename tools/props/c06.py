"""C06 — UTF-8/ASCII validation is exact; repair yields valid text, keeps valid parts."""
import itertools
import vlib

LATTICE = [0x00, 0x7F, 0x80, 0x8F, 0x90, 0x9F, 0xA0, 0xBF, 0xC0, 0xC1, 0xC2, 0xDF, 0xE0, 0xE1, 0xEC, 0xED,
           0xEE, 0xEF, 0xF0, 0xF1, 0xF3, 0xF4, 0xF5, 0xF7, 0xF8, 0xFF]


def wf_len(bs, i):
    """length of the well-formed UTF-8 sequence starting at bs[i] per Unicode Table 3-7, or 0"""
    n = len(bs)
    b0 = bs[i]
    if b0 <= 0x7F:
        return 1
    def rng(j, lo, hi):
        return i + j < n and lo <= bs[i + j] <= hi
    if 0xC2 <= b0 <= 0xDF:
        return 2 if rng(1, 0x80, 0xBF) else 0
    if b0 == 0xE0:
        return 3 if rng(1, 0xA0, 0xBF) and rng(2, 0x80, 0xBF) else 0
    if 0xE1 <= b0 <= 0xEC or 0xEE <= b0 <= 0xEF:
        return 3 if rng(1, 0x80, 0xBF) and rng(2, 0x80, 0xBF) else 0
    if b0 == 0xED:
        return 3 if rng(1, 0x80, 0x9F) and rng(2, 0x80, 0xBF) else 0
    if b0 == 0xF0:
        return 4 if rng(1, 0x90, 0xBF) and rng(2, 0x80, 0xBF) and rng(3, 0x80, 0xBF) else 0
    if 0xF1 <= b0 <= 0xF3:
        return 4 if rng(1, 0x80, 0xBF) and rng(2, 0x80, 0xBF) and rng(3, 0x80, 0xBF) else 0
    if b0 == 0xF4:
        return 4 if rng(1, 0x80, 0x8F) and rng(2, 0x80, 0xBF) and rng(3, 0x80, 0xBF) else 0
    return 0


def first_invalid_table(bs):
    i = 0
    while i < len(bs):
        l = wf_len(bs, i)
        if l == 0:
            return i
        i += l
    return None


def first_invalid_codec(bs):
    try:
        bs.decode("utf-8", "strict")
        return None
    except UnicodeDecodeError as e:
        return e.start


def repair(bs, repl):
    out, i = bytearray(), 0
    while i < len(bs):
        l = wf_len(bs, i)
        if l:
            out += bs[i:i + l]; i += l
        else:
            out += repl; i += 1
    return bytes(out)


def ascii_repair(bs, repl):
    out, i = bytearray(), 0
    while i < len(bs):
        if bs[i] < 0x80:
            out.append(bs[i]); i += 1
        else:
            while i < len(bs) and bs[i] >= 0x80:
                i += 1
            out += repl
    return bytes(out)


def sweep_expected(kind, p, k):
    res = []
    for suf in itertools.product(range(256), repeat=k):
        s = p + bytes(suf)
        if kind == "v":
            r = first_invalid_table(s)
            res.append("V" if r is None else str(r))
        elif kind == "a":
            r = next((i for i, c in enumerate(s) if c >= 0x80), None)
            res.append("V" if r is None else str(r))
        else:
            res.append(str(sum(1 for c in s if c & 0xC0 != 0x80)))
    return "".join(res)


def oracle(case, out):
    t = case[0].split()
    op, o = t[1], out[0]
    b = lambda s: b"" if s == "-" else bytes.fromhex(s)
    if "disagree" in o or "variant" in o:
        return "API variants disagree: " + o
    if op == "cplen":
        want = " ".join(str(1 if c < 0x80 else 0 if c < 0xC0 else 2 if c < 0xE0 else 3 if c < 0xF0 else 4 if c < 0xF8 else 0) for c in range(256))
        if o != want:
            return "lead byte length table differs from UTF-8 lead byte classes"
    elif op == "valid":
        s = b(t[2])
        w1, w2 = first_invalid_codec(s), first_invalid_table(s)
        assert w1 == w2, (s, w1, w2)
        got = None if o == "ok" else int(o)
        if got != w1:
            return "is_valid_utf8(%s) = %s; first ill-formed byte per Unicode: %s" % (t[2], o, w1)
    elif op == "ascii":
        s = b(t[2])
        want = next((i for i, c in enumerate(s) if c >= 0x80), None)
        got = None if o == "ok" else int(o)
        if got != want:
            return "is_valid ascii(%s, align %s) = %s; first byte >= 0x80: %s" % (t[2], t[3], o, want)
    elif op == "count":
        s = b(t[2])
        want = sum(1 for c in s if c & 0xC0 != 0x80)
        if int(o) != want:
            return "codepoint_count(%s, align %s) = %s; non-continuation bytes: %d" % (t[2], t[3], o, want)
    elif op == "tovalid":
        s, r = b(t[2]), b(t[3])
        want = repair(s, r)
        if b(o) != want:
            return "to_valid(%s, repl %s) = %s; expected %s" % (t[2], t[3], o, vlib.hexs(want))
    elif op == "btovalid":
        s, r = b(t[2]), b(t[3])
        want = ascii_repair(s, r)
        if b(o) != want:
            return "bytes_to_valid(%s, repl %s) = %s; expected %s" % (t[2], t[3], o, vlib.hexs(want))
    elif op in ("vsweep", "asweep", "csweep"):
        p, k = b(t[2]), int(t[3])
        want = sweep_expected(op[0], p, k)
        if o != want:
            i = next((j for j, (x, y) in enumerate(zip(o, want)) if x != y), min(len(o), len(want)))
            suf = bytes([(i >> (8 * (k - 1 - j))) & 255 for j in range(k)])
            return "%s: input %s gives %r, expected %r" % (" ".join(t[1:]), (p + suf).hex(), o[i:i + 1], want[i:i + 1])
    return None


def rand_utf8(r, ncp):
    out = bytearray()
    for _ in range(ncp):
        k = r.random()
        if k < 0.4: c = r.randrange(0, 0x80)
        elif k < 0.6: c = r.randrange(0x80, 0x800)
        elif k < 0.8:
            c = r.choice([0x800, 0xFFFF, 0xD7FF, 0xE000, r.randrange(0x800, 0xD800), r.randrange(0xE000, 0x10000)])
        else: c = r.choice([0x10000, 0x10FFFF, r.randrange(0x10000, 0x110000)])
        out += chr(c).encode("utf-8")
    return bytes(out)


def gen(ctx):
    r = ctx.rng
    quick = ctx.tier == "quick"
    cases = []
    add = lambda s: cases.append(["u8 " + s])
    add("cplen")
    # packed-word validator: boundaries of every range +-1 and masks
    pts = set()
    for base in (0, 0x7F, 0x80, 0xC280, 0xC27F, 0xC2BF, 0xC2C0, 0xDFBF, 0xDFC0, 0xE0A080, 0xE09FBF, 0xE0A07F, 0xEDA080, 0xED9FBF,
                 0xEDBFBF, 0xEE8080, 0xEFBFBF, 0xEFBFC0, 0xF0908080, 0xF08FBFBF, 0xF48FBFBF, 0xF4908080, 0xF4BFBFBF, 0xFFFFFFFF):
        for d in (-1, 0, 1):
            if 0 <= base + d < 2**32:
                pts.add(base + d)
    for q in itertools.product(LATTICE, repeat=4):
        if quick and r.random() > 0.02:
            continue
        pts.add((q[0] << 24) | (q[1] << 16) | (q[2] << 8) | q[3])
    for _ in range(3000 if quick else 100000):
        pts.add(r.randrange(2**32) >> r.choice([0, 8, 16, 24]))
    for c in sorted(pts):
        add("vcp %d" % c)
    # exhaustive sweeps: every string of length <= 2 (validity; ASCII and count at every alignment),
    # length 3 with the first byte from the boundary lattice (quick) / every first byte (thorough)
    add("vsweep - 0"); add("vsweep - 1"); add("vsweep - 2")
    firsts = LATTICE if quick else range(256)
    for b0 in firsts:
        add("vsweep %02x 2" % b0)
    for a in range(8):
        add("asweep - 0 %d" % a); add("asweep - 1 %d" % a); add("asweep - 2 %d" % a)
        add("csweep - 1 %d" % a); add("csweep - 2 %d" % a)
        for b0 in (LATTICE[::3] if quick else range(256)):
            add("asweep %02x 2 %d" % (b0, a))
    # lattice strings of length 4..16 and random strings with ill-formed bytes at start/middle/end and a
    # well-formed multi-byte code point as the very last bytes
    for _ in range(4000 if quick else 200000):
        m = r.random()
        if m < 0.35:
            s = bytes(r.choice(LATTICE) for _ in range(r.randrange(4, 17)))
        elif m < 0.8:
            s = bytearray(rand_utf8(r, r.randrange(0, 30)))
            for _ in range(r.randrange(0, 4)):
                pos = r.choice([0, len(s), len(s) // 2, r.randrange(len(s) + 1)])
                s[pos:pos] = bytes([r.choice(LATTICE[2:])])
            if r.random() < 0.5:
                s += rand_utf8(r, 1)
            if r.random() < 0.2 and s:
                s = s[:-1]
            s = bytes(s)
        else:
            s = bytes(r.randrange(256) for _ in range(r.randrange(0, 40)))
        h = vlib.hexs(s)
        add("valid %s" % h)
        a = r.randrange(8)
        add("count %s %d" % (h, a))
        repl = r.choice([b"", b"?", b"\xef\xbf\xbd", b"<?>", b"\xff", b"\xc3\xa4"])
        add("tovalid %s %s" % (h, vlib.hexs(repl)))
    # ASCII validation: lengths around 8-byte block boundaries, high byte at every position, every alignment
    for n in list(range(0, 40)) + [63, 64, 65, 100]:
        for a in range(8):
            base = bytes(r.randrange(0x80) for _ in range(n))
            add("ascii %s %d" % (vlib.hexs(base), a))
            add("count %s %d" % (vlib.hexs(bytes(r.choice([0x41, 0x80, 0xBF, 0xC3, 0xE2, 0xF0]) for _ in range(n))), a))
            for pos in (range(n) if n <= 24 or not quick else r.sample(range(n), 6)):
                s = bytearray(base); s[pos] = r.choice([0x80, 0xFF, 0xC3])
                add("ascii %s %d" % (vlib.hexs(bytes(s)), a))
    for _ in range(1000 if quick else 50000):
        s = bytes(r.choice([0x41, 0x7F, 0x80, 0xFF, 0x20]) for _ in range(r.randrange(0, 24)))
        add("btovalid %s %s" % (vlib.hexs(s), vlib.hexs(r.choice([b"", b"?", b"??", b"\xff"]))))
    # long strings (up to 4 KiB)
    for _ in range(30 if quick else 1000):
        s = bytearray(rand_utf8(r, r.randrange(200, 1500)))
        if r.random() < 0.7:
            pos = r.randrange(len(s) + 1); s[pos:pos] = b"\xff"
        h = vlib.hexs(bytes(s))
        add("valid %s" % h); add("count %s %d" % (h, r.randrange(8))); add("ascii %s %d" % (h, r.randrange(8)))
    return cases


def run(ctx):
    ctx.rules.append("one call per case on exact-size buffers at a chosen address alignment; sweeps enumerate every "
                     "string of length <= 2 (and length 3 with first byte from the boundary lattice in quick / every first "
                     "byte in thorough) for UTF-8 validity and, at each alignment 0..7, for ASCII validity and counting; "
                     "lattice and random strings beyond; non-trivial = non-empty input; distinct by case text "
                     "(a sweep line counts once although it covers 256^k inputs)")
    ctx.assumptions += ["memcpy of an 8-byte block is modelled at byte level (any byte >= 0x80 / number of continuation bytes)",
                        "malloc returns 8-aligned memory (alignment of the test buffer = requested offset)"]
    exe = ctx.build_harness("c06")
    ctx.build_model()
    ctx.prove()
    cases = ctx.replay_cases if ctx.replay_cases is not None else (vlib.load_corpus("C06") + gen(ctx))
    swept = sum(256 ** int(c[0].split()[3]) for c in cases if "sweep" in c[0])
    ctx.extra_cov["inputs_covered_by_sweeps"] = swept
    ctx.correspond("utf8", exe, cases, oracle=oracle, nontrivial=lambda c: c[0].split()[-1] != "-" and len(c[0].split()) > 2)
