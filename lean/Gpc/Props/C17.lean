import Gpc.Model.Generic
/-!
# C17 — type-generic macros mean exactly what the explicit function API means

Model: `Gpc.Generic` — `Arg.norm cfg` is the length derivation / destination test of a configuration, `Arg.explicitN`
the lengths spelled out by the caller, `apply` the function API.  `evalMacro cfg` = derive, then call;
`evalExplicit` = spell out, then call.
-/
namespace Gpc.Props.C17
open Gpc.Generic

theorem takeWhile_no_nul (b : Bytes) (h : ¬ (0 : UInt8) ∈ b) : b.takeWhile (· != 0) = b := by
  induction b with
  | nil => rfl
  | cons x t ih =>
    have hx : x ≠ 0 := fun e => h (by simp [e])
    have ht : ¬ (0 : UInt8) ∈ t := fun e => h (by simp [e])
    simp [hx, ih ht]

/-- both configurations derive exactly the explicit length from every accepted spelling of a string input -/
theorem derive_eq_explicit (cfg : Cfg) (a : SArg) (h : a.wf cfg = true) : a.derive cfg = some a.explicit := by
  cases cfg <;> cases a <;> simp_all [SArg.wf, SArg.derive, SArg.explicit, cstrLen]
  rename_i b
  exact (takeWhile_no_nul b h).symm

theorem aderive_eq_explicit (a : AArg) (h : a.wf = true) : a.derive = some a.explicit := by
  cases a <;> simp_all [AArg.wf, AArg.derive, AArg.explicit]

theorem norm_eq_explicit (cfg : Cfg) (a : Arg) (h : a.wf cfg = true) : a.norm cfg = some a.explicitN := by
  cases a <;> simp_all [Arg.wf, Arg.norm, Arg.explicitN]
  · exact derive_eq_explicit cfg _ h
  · exact aderive_eq_explicit _ h

theorem mapM_norm (cfg : Cfg) (args : List Arg) (h : ∀ a ∈ args, a.wf cfg = true) :
    args.mapM (Arg.norm cfg) = some (args.map Arg.explicitN) := by
  induction args with
  | nil => rfl
  | cons a t ih =>
    have ha := norm_eq_explicit cfg a (h a (by simp))
    have ht := ih (fun x hx => h x (by simp [hx]))
    simp [List.mapM_cons, ha, ht]

/-- **C17 (meaning).** In either configuration, every macro form applied to accepted arguments is the explicit
function call with the lengths spelled out. -/
theorem macro_eq_function (cfg : Cfg) (mac : String) (args : List Arg) (h : ∀ a ∈ args, a.wf cfg = true) :
    evalMacro cfg mac args = evalExplicit mac args := by
  simp [evalMacro, evalExplicit, mapM_norm cfg args h]

/-- the two configurations agree on whatever both accept -/
theorem configurations_agree (mac : String) (args : List Arg)
    (h11 : ∀ a ∈ args, a.wf .c11 = true) (h99 : ∀ a ∈ args, a.wf .c99 = true) :
    evalMacro .c11 mac args = evalMacro .c99 mac args := by
  rw [macro_eq_function .c11 mac args h11, macro_eq_function .c99 mac args h99]

/-- the hypotheses are met by an ordinary call: `gp_append(&dest, "lit")`, `gp_insert(alc, 1, gpstring, buf, 2)` -/
example : ∀ a ∈ [Arg.dstr 4 [97], Arg.str (.lit [98, 99])], a.wf .c99 = true := by decide
example : evalMacro .c99 "append" [Arg.dstr 4 [97], Arg.str (.lit [98, 99])] = some (.s [97, 98, 99]) := by decide
example : evalMacro .c11 "insert" [Arg.alc true, Arg.num 1, Arg.str (.gstr [97, 98]), Arg.str (.buf [88, 89, 90] 2)]
    = some (.s [97, 88, 89, 98]) := by decide

/-- why literals with an embedded NUL are outside the contract: the configurations derive different lengths -/
theorem nul_literal_diverges : (SArg.lit [97, 0, 98]).derive .c11 ≠ (SArg.lit [97, 0, 98]).derive .c99 := by decide
/-- and why C99 needs literals: a `char*` variable has no derivation there -/
theorem cptr_c99_rejected (b : Bytes) : (SArg.cptr b).derive .c99 = none := rfl

/-- **C17 (destination or allocator, C99).** With `sizeof(GPString) = sizeof(T*) < sizeof(GPAllocator)` and every
allocator type at least as large as `GPAllocator`, the size test tells destinations from allocators. -/
theorem classify99_correct (ptr alc : Nat) (h : ptr < alc) :
    classify99 ptr alc = .dest ∧ classify99 alc alc = .alloc ∧ ∀ a, alc ≤ a → classify99 a alc = .alloc := by
  refine ⟨by simp [classify99, h], by simp [classify99], ?_⟩
  intro a ha; simp [classify99]; omega
/-- the sizes of this platform (checked against the compiled code on every run) -/
example : classify99 8 16 = .dest ∧ classify99 16 16 = .alloc := by decide
/-- a `≤` test would take a `GPAllocator*` for a destination -/
example : (if (16 : Nat) ≤ 16 then First.dest else First.alloc) = .dest := by decide

/-- **C17 (allocator forms).** An allocator-destination form returns what the destination form leaves in a
destination that held the first input. -/
theorem alloc_form_is_dest_form_on_copy (a b n r set loc : Bytes) (p st : Nat) (f : List Char) (va vb : List Int) (g : String) :
    apply "append" [.alc, .str a, .str b] = apply "append" [.dstr a, .str b]
    ∧ apply "insert" [.alc, .num p, .str a, .str b] = apply "insert" [.dstr a, .num p, .str b]
    ∧ apply "replace" [.alc, .str a, .str n, .str r, .num st] = apply "replace" [.dstr a, .str n, .str r, .num st]
    ∧ apply "replace_all" [.alc, .str a, .str n, .str r] = apply "replace_all" [.dstr a, .str n, .str r]
    ∧ apply "trim" [.alc, .str a, .cs set, .flags f] = apply "trim" [.dstr a, .cs set, .flags f]
    ∧ apply "to_upper" [.alc, .str a, .cs loc] = apply "to_upper" [.dstr a, .cs loc]
    ∧ apply "to_lower" [.alc, .str a] = apply "to_lower" [.dstr a]
    ∧ apply "capitalize" [.alc, .str a, .cs loc] = apply "capitalize" [.dstr a, .cs loc]
    ∧ apply "to_valid" [.alc, .str a, .cs r] = apply "to_valid" [.dstr a, .cs r]
    ∧ apply "append" [.alc, .arr va, .arr vb] = apply "append" [.darr va, .arr vb]
    ∧ apply "insert" [.alc, .num p, .arr va, .arr vb] = apply "insert" [.darr va, .num p, .arr vb]
    ∧ apply "map" [.alc, .arr va, .fn g] = apply "map" [.darr va, .fn g]
    ∧ apply "filter" [.alc, .arr va, .fn g] = apply "filter" [.darr va, .fn g] := by
  refine ⟨rfl, rfl, rfl, rfl, rfl, rfl, rfl, rfl, rfl, rfl, rfl, rfl, rfl⟩

/-- inserting and then looking at the pieces: the insert forms put `s` at `pos` and keep both parts of `d` -/
theorem insertL_spec {α} (d s : List α) (p : Nat) (h : p ≤ d.length) :
    (insertL d p s).length = d.length + s.length ∧ (insertL d p s).take p = d.take p
    ∧ ((insertL d p s).drop p).take s.length = s ∧ (insertL d p s).drop (p + s.length) = d.drop p := by
  have hl : (d.take p).length = p := by simp [List.length_take]; omega
  refine ⟨by simp [insertL, List.length_append, List.length_take, List.length_drop]; omega, ?_, ?_, ?_⟩
  · simp [insertL, hl]
  · simp [insertL, hl]
  · simp [insertL, List.drop_append, hl]

end Gpc.Props.C17
