import Gpc.Proofs.Printf
import Gpc.Proofs.Print
import Gpc.Proofs.FloatPlan
import Gpc.Proofs.FloatSpecWF
import Gpc.Proofs.FmtCount
import Gpc.Proofs.FmtArgs
import Gpc.Proofs.FloatValue
/-!
# C09 — formatted output equals the C standard's

`Spec/Printf.lean` is the specification (C11 7.21.6.1) with exact arithmetic; `Model/Printf.lean`
models the library's scanner, writers and padding.  Theorems here: laws of the specification, and
that the model of the formatter produces the specification's text for every format made of
`c s d i o u x X p %` conversions, every argument and every destination capacity.  Floating point
conversions: the text is the specification's sign and padding around the digits spelled by the
plan of output steps; the digit generation (Ryu) itself is tied by the correspondence run.
-/
namespace Gpc.Printf
open Gpc.PF (PF Agrees)

/-! ## laws of the specification -/

/-- value of a digit character -/
def digitVal (b : UInt8) : Nat :=
  if b.toNat ≤ 57 then b.toNat - 48 else if b.toNat ≤ 70 then b.toNat - 55 else b.toNat - 87

def ofDigits (base : Nat) (ds : Bytes) : Nat := ds.foldl (fun a b => a * base + digitVal b) 0

theorem digitVal_digitChar (upper : Bool) (d : Nat) (h : d < 16) : digitVal (digitChar upper d) = d := by
  have : d = 0 ∨ d = 1 ∨ d = 2 ∨ d = 3 ∨ d = 4 ∨ d = 5 ∨ d = 6 ∨ d = 7 ∨ d = 8 ∨ d = 9 ∨ d = 10 ∨ d = 11 ∨ d = 12 ∨
      d = 13 ∨ d = 14 ∨ d = 15 := by omega
  rcases this with h | h | h | h | h | h | h | h | h | h | h | h | h | h | h | h <;> subst h <;> cases upper <;> decide

/-- **integers print as their positional notation**: reading the digits back gives the value, in
every base from 2 to 16 -/
theorem natDigits_value (base : Nat) (upper : Bool) (hb : 2 ≤ base) (hb16 : base ≤ 16) :
    ∀ x, ofDigits base (natDigits base upper x) = x := by
  intro x
  induction x using Nat.strongRecOn with
  | _ x ih =>
    rw [natDigits]
    split
    · rename_i h
      have hx : x < base := by omega
      simp [ofDigits, digitVal_digitChar upper x (by omega)]
    · rename_i h
      have hge : base ≤ x := by omega
      have hlt : x / base < x := Nat.div_lt_self (by omega) (by omega)
      have := ih (x / base) hlt
      unfold ofDigits at this ⊢
      rw [List.foldl_append, this]
      simp only [List.foldl_cons, List.foldl_nil]
      rw [digitVal_digitChar upper (x % base) (by have := Nat.mod_lt x (by omega : base > 0); omega)]
      rw [Nat.mul_comm]; exact Nat.div_add_mod x base

/-- ... without a leading zero -/
theorem natDigits_no_leading_zero (base : Nat) (upper : Bool) (hb : 2 ≤ base) (hb16 : base ≤ 16) (x : Nat) (hx : 0 < x) :
    (natDigits base upper x).head? ≠ some 48 := natDigits_head base upper hb hb16 x hx

/-- **rounding is to nearest, ties to even**, on the exact quotient: `|q - num/den| ≤ 1/2`, and a tie
gives an even `q` -/
theorem roundDiv_nearest_even (num den : Nat) (hd : 0 < den) :
    2 * (roundDiv num den * den) ≤ 2 * num + den ∧ 2 * num ≤ 2 * (roundDiv num den * den) + den ∧
    ((2 * (roundDiv num den * den) = 2 * num + den ∨ 2 * num = 2 * (roundDiv num den * den) + den) →
      roundDiv num den % 2 = 0) := by
  unfold roundDiv
  simp only
  have hdm := Nat.div_add_mod num den
  have hr := Nat.mod_lt num hd
  generalize hq : num / den = q at *
  generalize hrr : num % den = r at *
  have hmul : q * den = den * q := Nat.mul_comm _ _
  split
  · rename_i h
    have h1 : (q + 1) * den = den * q + den := by rw [Nat.add_mul, hmul]; omega
    rw [h1]
    refine ⟨by omega, by omega, fun ht => ?_⟩
    rcases h with h | h
    · omega
    · omega
  · rename_i h
    rw [hmul]
    refine ⟨by omega, by omega, fun ht => ?_⟩
    have : ¬ (2 * r > den) ∧ ¬ (2 * r = den ∧ q % 2 = 1) := by
      constructor
      · intro hh; exact h (Or.inl hh)
      · intro hh; exact h (Or.inr hh)
    omega

/-- the padding rule: the result has at least the field width, and exactly `pre ++ body` inside -/
theorem padField_length (f : Flags) (w : Nat) (pre body : Bytes) (z : Bool) :
    (padField f w pre body z).length = max w (pre.length + body.length) := by
  unfold padField
  simp only
  split
  · simp; omega
  · split
    · simp; omega
    · split <;> simp <;> omega

/-! ## the formatter meets the specification -/

/-- the per-conversion text for formats without floating point conversions -/
def convTextNF (s : Spec) : Option Arg → Option Bytes
  | some (.dbl _) => none
  | a => convText floatModelText s a

theorem convTextNF_spec (s : Spec) (a : Option Arg) (t : Bytes) (h : convTextNF s a = some t) : specConv s a = some t := by
  cases a with
  | none =>
    simp only [convTextNF, convText] at h
    split at h
    · rename_i hc; cases h; simp [specConv, hc.1]
    · cases h
  | some a =>
    cases a with
    | dbl bits => simp [convTextNF] at h
    | str str => simpa [convTextNF, convText, specConv] using h
    | gstr g => simpa [convTextNF, convText, specConv] using h
    | int raw =>
      simp only [convTextNF, convText] at h
      simp only [specConv]
      split at h
      · split at h
        · exact h
        · cases h
      · exact h

theorem convTextNF_model (s : Spec) (a : Option Arg) (t : Bytes) (h : convTextNF s a = some t) :
    convText floatModelText s a = some t := by
  cases a with
  | none => exact h
  | some a => cases a with
    | dbl bits => simp [convTextNF] at h
    | str str => exact h
    | gstr g => exact h
    | int raw => exact h

/-- **C09, integer / character / string / pointer conversions.**  For every format built from the
conversions `c s d i o u x X p %` (any flags, width, precision, `*`, length modifier; `0` not used
with `c`/`p`, no precision on `p`), every argument list and every destination: the text `out` the
model of the formatter produces is the specification's text, the return value is its length, and a
destination that is large enough holds exactly that text. -/
theorem formatter_meets_spec (fmt : Bytes) (args : List Arg) (out dest : Bytes)
    (hg : genFormat convTextNF (fmt.length + 1) fmt args = some out) :
    specFormat (fmt.length + 1) fmt args = some out ∧
    ∃ p, vsnprintf (fmt.length + 1) { data := dest, length := 0 } fmt args = some (some p) ∧
      p.length = out.length ∧ (out.length ≤ dest.length → p.data.take out.length = out) := by
  refine ⟨genFormat_mono _ _ convTextNF_spec _ _ _ _ hg, ?_⟩
  have hm := genFormat_mono _ _ convTextNF_model _ _ _ _ hg
  have h0 : Agrees ({ data := dest, length := 0 } : PF) [] := ⟨rfl, fun i _ hi => by simp at hi⟩
  obtain ⟨p, e, c, a⟩ := vsnprintf_ok (fmt.length + 1) _ [] out fmt args h0 hm
  simp only [List.nil_append] at a
  refine ⟨p, e, a.1, fun hle => ?_⟩
  apply List.ext_getElem?
  intro i
  rw [List.getElem?_take]
  have hc : p.cap = dest.length := c
  split
  · rename_i hi; exact a.2 i (by omega) hi
  · rename_i hi; symm; exact List.getElem?_eq_none (by omega)

/-- **C09, floating point conversions (partial).**  The model writes the specification's sign and
field padding around the digit text of its plan; with the digit text equal to the specification's
(`h`, which the correspondence run checks on every case, and which is where the Ryu digit generation
of the real code enters), the conversion's text is the specification's. -/
theorem float_text_partial (s : Spec) (bits : Nat)
    (h : (floatParts s bits).2.2 = false → PF.planText (bodyPlan (floatParts s bits).2.1) = (floatParts s bits).2.1) :
    floatModelText s bits = fmtFloat s bits := by
  unfold floatModelText fmtFloat
  cases hsp : (floatParts s bits).2.2 with
  | true => simp [hsp, PF.planText, PF.Emit.text]
  | false => simp [hsp, h hsp]

/-- **C09, floating point conversions: the output steps spell the digits.**  For every finite value's
text that is a well-formed number (`BodyWF`: digits, at most one point, an integer part without
leading zeros or one leading digit before an exponent), the model's plan of output steps — `pf_utoa`
for the first block, blocks of nine digits, `pf_pad` for leading fraction zeros, the `d.ddd` block,
the exponent — spells exactly that text, so the conversion's text is the specification's.  What
remains outside the theorem is that the real code's digit generation (Ryu) yields the
specification's digits, which the correspondence run compares on every case. -/
theorem float_text_of_wf (s : Spec) (bits : Nat)
    (h : (floatParts s bits).2.2 = false → BodyWF (floatParts s bits).2.1) :
    floatModelText s bits = fmtFloat s bits :=
  float_text_partial s bits (fun hs => planText_bodyPlan _ (h hs))

/-- **C09, floating point conversions, every value, conversion, precision, width and flag set.**  The
specification's text of a finite value is always a well-formed number (`floatParts_wf`: fixed,
exponent and `%g` styles with their zero stripping), so the model's plan of output steps spells it
and the model's text is the specification's with no side condition. -/
theorem float_text (s : Spec) (bits : Nat) : floatModelText s bits = fmtFloat s bits :=
  float_text_of_wf s bits (floatParts_wf s bits)

theorem convText_spec (s : Spec) (a : Option Arg) (t : Bytes) (h : convText floatModelText s a = some t) :
    specConv s a = some t := by
  cases a with
  | none => exact convTextNF_spec s none t h
  | some a =>
    cases a with
    | dbl bits =>
      simp only [convText] at h
      simp only [specConv]
      split at h
      · rename_i hc; simp only [formatOne, if_pos hc, ← float_text]; exact h
      · cases h
    | str str => exact convTextNF_spec s (some (.str str)) t h
    | gstr g => exact convTextNF_spec s (some (.gstr g)) t h
    | int raw => exact convTextNF_spec s (some (.int raw)) t h

/-- **C09, all conversions.**  `formatter_meets_spec` extended to formats that also contain
`f F e E g G`: for every format, argument list and destination, the text the model of the formatter
produces is the specification's, the return value is its length, and a large enough destination
holds exactly that text.  (Outside the theorem: that the real code's Ryu digit generation yields
the specification's digits — compared on every case of the correspondence run.) -/
theorem formatter_meets_spec_all (fmt : Bytes) (args : List Arg) (out dest : Bytes)
    (hg : genFormat (convText floatModelText) (fmt.length + 1) fmt args = some out) :
    specFormat (fmt.length + 1) fmt args = some out ∧
    ∃ p, vsnprintf (fmt.length + 1) { data := dest, length := 0 } fmt args = some (some p) ∧
      p.length = out.length ∧ (out.length ≤ dest.length → p.data.take out.length = out) := by
  refine ⟨genFormat_mono _ _ convText_spec _ _ _ _ hg, ?_⟩
  have h0 : Agrees ({ data := dest, length := 0 } : PF) [] := ⟨rfl, fun i _ hi => by simp at hi⟩
  obtain ⟨p, e, c, a⟩ := vsnprintf_ok (fmt.length + 1) _ [] out fmt args h0 hg
  simp only [List.nil_append] at a
  refine ⟨p, e, a.1, fun hle => ?_⟩
  apply List.ext_getElem?
  intro i
  rw [List.getElem?_take]
  have hc : p.cap = dest.length := c
  split
  · rename_i hi; exact a.2 i (by omega) hi
  · rename_i hi; symm; exact List.getElem?_eq_none (by omega)

/-- **C09, `%f` prints the correctly rounded decimal expansion.**  For a finite value `m·2^e` and precision `prec`,
let `N` be the number spelled by the digits of the specification's text with the point removed.  Then exactly `prec`
digits follow the point (when `prec > 0`) and `N` is `m·2^e·10^prec` rounded to the nearest integer, ties to even:
with `num/den` the exact scaled value, `|N·den − num| ≤ den/2`, and `N` is even on a tie.  (By `float_text` the
model of the library's formatter writes this same text.) -/
theorem fixed_correctly_rounded (m : Nat) (e : Int) (prec : Nat) (alt : Bool) :
    let N := valueOf ((fixedText m e prec alt).filter (· ≠ 46))
    let num := m * (if e ≥ 0 then 2 ^ e.toNat else 1) * 10 ^ prec
    let den := if e ≥ 0 then 1 else 2 ^ (-e).toNat
    (0 < prec → ((fixedText m e prec alt).dropWhile (· ≠ 46)).length = prec + 1) ∧
    2 * (N * den) ≤ 2 * num + den ∧ 2 * num ≤ 2 * (N * den) + den ∧
    ((2 * (N * den) = 2 * num + den ∨ 2 * num = 2 * (N * den) + den) → N % 2 = 0) := by
  intro N num den
  have hN : N = roundDiv num den := by
    show valueOf _ = _
    rw [(fixedText_value m e prec alt).1, scaled_nonneg_prec]
  have hden : 0 < den := by
    show 0 < (if e ≥ 0 then 1 else 2 ^ (-e).toNat)
    split
    · omega
    · exact Nat.pow_pos (by omega)
  rw [hN]
  exact ⟨(fixedText_value m e prec alt).2, roundDiv_nearest_even num den hden⟩

/-- **C09, `%e`: the significant digits are the value scaled to the printed exponent, correctly rounded.**  For a
non-zero finite value with printed decimal exponent `x`, the digit string spells `m·2^e·10^(prec−x)` rounded to the
nearest integer, ties to even.  (That `x` is the exponent which leaves `prec + 1` digits is the specification's
`exp10`, a definition compared with glibc and the exact reference on every case, not a theorem.) -/
theorem exp_digits_correctly_rounded (m : Nat) (e : Int) (prec : Nat) (hm : m ≠ 0) :
    let x := (expParts m e prec).2
    let N := valueOf (expParts m e prec).1
    let num := scaledNum m e ((prec : Int) - x)
    let den := scaledDen e ((prec : Int) - x)
    2 * (N * den) ≤ 2 * num + den ∧ 2 * num ≤ 2 * (N * den) + den ∧
    ((2 * (N * den) = 2 * num + den ∨ 2 * num = 2 * (N * den) + den) → N % 2 = 0) := by
  intro x N num den
  have hN : N = roundDiv num den := by
    show valueOf _ = _
    rw [expParts_value m e prec hm, scaled_eq]
  rw [hN]
  exact roundDiv_nearest_even num den (scaledDen_pos _ _)

/-- 0.125 = 1·2^-3 to two places is a tie: "0.12" (to even), 0.375 gives "0.38" -/
example : fixedText 1 (-3) 2 false = [48, 46, 49, 50] ∧ fixedText 3 (-3) 2 false = [48, 46, 51, 56] := by
  simp [fixedText, scaled, roundDiv, natDigits, digitChar]

/-- non-vacuity: the shapes the conversions produce are well-formed (`f`, `e`, `g` notations) -/
example : BodyWF (ascii "3.14") ∧ BodyWF (ascii "0.001000") ∧ BodyWF (ascii "1234567890123") ∧
    BodyWF (ascii "0") ∧ BodyWF (ascii "3.") ∧ BodyWF (ascii "1.500000e+10") ∧ BodyWF (ascii "1e-05") ∧
    BodyWF (ascii "9.E+300") := by
  decide

/-- and a text with a leading zero in a long integer part is not (its first block would be re-spelled) -/
example : ¬ BodyWF (ascii "007") := by
  decide

/-- **C09, print family: an embedded format string takes exactly the objects the formatter consumes.**
`gp_count_fmt_specs` (one per `%` that is not `%%`, plus every `*` before the conversion character) equals
`argsNeeded`, the number of arguments the formatter's own scanner (`splitLiteral` / `scanSpec`: flags, width or
`*`, `.precision` or `.*`, length modifier, conversion character) takes — for every format that scanner accepts
with conversion characters from `c s S d i o x X u f F e E g G p` and `%` only as `%%`. -/
theorem count_fmt_specs_eq_args_consumed (fmt : Bytes) (fuel k : Nat) (h : argsNeeded fuel fmt = some k) :
    countFmtSpecs fmt (fmt.length + 1) = k :=
  countFmtSpecs_eq_argsNeeded fmt fuel k h

/-- **C09, the formatter looks at exactly the arguments it needs**: cutting the argument list after any
`m ≥ argsNeeded` arguments changes nothing — text, returned length or rejection (`resolve` takes one `int` per
`*`, then one argument per conversion other than `%%`). -/
theorem formatter_uses_exactly_its_arguments (fuel : Nat) (p : PF) (fmt : Bytes) (args : List Arg) (k m : Nat)
    (h : argsNeeded fuel fmt = some k) (hm : k ≤ m) :
    vsnprintf fuel p fmt (args.take m) = vsnprintf fuel p fmt args :=
  vsnprintf_take fuel p fmt args k m h hm

/-- **C09, print family: the objects after an embedded format string are split exactly**: the first
`argsNeeded` of them are the format's arguments (and it would print the same if handed all of them), the rest
stay for the print loop. -/
theorem print_format_objects_split (p : PF) (fmt : Bytes) (rest : List Obj) (k : Nat)
    (h : argsNeeded (fmt.length + 1) fmt = some k) :
    (splitFmtArgs fmt rest).1 = (rest.map (·.val)).take k ∧ (splitFmtArgs fmt rest).2 = rest.drop k ∧
    writeFormat p fmt (splitFmtArgs fmt rest).1 = writeFormat p fmt (rest.map (·.val)) := by
  obtain ⟨h1, h2⟩ := splitFmtArgs_exact fmt rest k h
  exact ⟨h1, h2, by rw [h1]; exact writeFormat_take p fmt _ k h⟩

/-- non-vacuity: a format with starred width and precision, a length modifier, `%%` and literal text -/
example : argsNeeded 20 (ascii "%*.*f and %-5ld%% %s") = some 5 ∧
    countFmtSpecs (ascii "%*.*f and %-5ld%% %s") 21 = 5 := by decide

/-- **C09, print family.**  Each argument of the type-directed print calls is rendered as its default
conversion: integers as `%d` / `%u` of their width, floating point as `%g`, characters as `%c`,
C strings as `%s` (booleans are `true` / `false`, library strings verbatim, pointers `%p`-like). -/
theorem print_default_conversions (raw bits : Nat) (str : Bytes) :
    valText .i32 (.int raw) = formatOne { conv := 'd' } (.int raw) ∧
    valText .i64 (.int raw) = formatOne { conv := 'd', len := .ll } (.int raw) ∧
    valText .u32 (.int raw) = formatOne { conv := 'u' } (.int raw) ∧
    valText .u64 (.int raw) = formatOne { conv := 'u', len := .ll } (.int raw) ∧
    valText .dbl (.dbl bits) = formatOne { conv := 'g' } (.dbl bits) ∧
    valText .chr (.int raw) = formatOne { conv := 'c' } (.int raw) ∧
    valText .cstr (.str str) = formatOne { conv := 's' } (.str str) ∧
    valText .ptr (.int raw) = formatOne { conv := 'p' } (.int raw) := by
  refine ⟨rfl, rfl, ?_, ?_, rfl, ?_, ?_, ?_⟩
  · simp [valText, formatOne, fmtUnsigned, unsignedArg, LenMod.bits, precDigits, padField]
  · simp [valText, formatOne, fmtUnsigned, unsignedArg, LenMod.bits, precDigits, padField]
  · simp [valText, formatOne, padField, charBody]
  · simp [valText, formatOne, padField, strArg]
  · have hn : ascii "(nil)" = [40, 110, 105, 108, 41] := by decide
    simp [valText, formatOne, padField, hn]

/-- **C09, print family, text and return value.**  For every list of objects with a defined text `t`,
the print call writes `t` into a destination that is large enough and returns its length. -/
theorem print_writes_text (objs : List Obj) (t dest : Bytes)
    (ht : printModelText (objs.length + 1) objs = some t) (hroom : t.length ≤ dest.length) :
    ∃ p, printObjs (objs.length + 1) { data := dest, length := 0 } objs false = some (some p) ∧
      p.length = t.length ∧ p.data.take t.length = t := by
  have h0 : Agrees ({ data := dest, length := 0 } : PF) [] := ⟨rfl, fun i _ hi => by simp at hi⟩
  obtain ⟨p, e, c, a⟩ := printObjs_ok (objs.length + 1) _ [] t objs h0 ht
  simp only [List.nil_append] at a
  refine ⟨p, e, a.1, ?_⟩
  apply List.ext_getElem?
  intro i
  rw [List.getElem?_take]
  have hc : p.cap = dest.length := c
  split
  · rename_i hi; exact a.2 i (by omega) hi
  · rename_i hi; symm; exact List.getElem?_eq_none (by omega)

/-! ## non-vacuity -/

example : genFormat convTextNF 12 [37, 43, 46, 51, 100, 32, 37, 35, 111, 32, 37, 99] [.int 7, .int 8, .int 65] =
    some [43, 48, 48, 55, 32, 48, 49, 48, 32, 65] := by   -- "%+.3d %#o %c" 7 8 'A' = "+007 010 A"
  simp [genFormat, splitLiteral, scanSpec, scanFlags, isDigit, scanNat, scanLen, resolve, argFits, convTextNF, convText,
    formatOne, fmtSigned, fmtUnsigned, signedArg, unsignedArg, LenMod.bits, signBytes, precDigits, padField, natDigits,
    digitChar, isFloatConv, charBody]

-- `%lc` of U+20AC in a field of five, left justified: the three bytes of its UTF-8 form, then two spaces
example : formatOne { conv := 'c', len := .l, width := 5, flags := { dash := true } } (.int 0x20AC) =
    some [0xE2, 0x82, 0xAC, 32, 32] := by decide
-- `%.4S` of "aä€" (1+2+3 bytes): four bytes would cut the third code point, so two code points remain; width 4 counts code points
example : formatOne { conv := 'S', prec := some 4, width := 4 } (.gstr [97, 0xC3, 0xA4, 0xE2, 0x82, 0xAC]) =
    some [32, 32, 97, 0xC3, 0xA4] := by decide
-- the most negative value and zero with precision zero
example : fmtSigned { conv := 'd', len := .ll } (2 ^ 63) = ascii "-9223372036854775808" := by
  simp [fmtSigned, signedArg, LenMod.bits, signBytes, precDigits, padField, natDigits, digitChar, ascii]
example : fmtSigned { conv := 'd', prec := some 0, width := 3 } 0 = [32, 32, 32] := by
  simp [fmtSigned, signedArg, LenMod.bits, signBytes, precDigits, padField]
-- 2.5 rounds to even, 3.5 up
example : roundDiv 5 2 = 2 ∧ roundDiv 7 2 = 4 := by decide

end Gpc.Printf
