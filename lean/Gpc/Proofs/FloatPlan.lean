import Gpc.Proofs.Printf
/-! The digit blocks of the floating point plan reproduce the digit text they were cut from:
`planText (bodyPlan body) = body` for every well-formed finite body (`ddd`, `ddd.ddd`, `d.ddde±dd`, `de±dd`). -/
namespace Gpc.Printf
open Gpc.PF (lastDigits dDigits digits Emit planText)

/-- all bytes are ASCII decimal digits -/
def IsDigits (ds : Bytes) : Prop := ∀ b ∈ ds, 48 ≤ b.toNat ∧ b.toNat ≤ 57

instance : DecidablePred IsDigits := fun ds => by unfold IsDigits; infer_instance

theorem valueOf_append_singleton (ds : Bytes) (b : UInt8) :
    valueOf (ds ++ [b]) = valueOf ds * 10 + (b.toNat - 48) := by
  simp [valueOf, List.foldl_append]

theorem lastDigits_succ (n x : Nat) :
    lastDigits (n + 1) x = lastDigits n (x / 10) ++ [UInt8.ofNat (48 + x % 10)] := by
  unfold lastDigits
  rw [List.range_succ_eq_map, List.reverse_cons, List.map_append, ← List.map_reverse, List.map_map]
  congr 1
  · apply List.map_congr_left
    intro i _
    simp only [Function.comp]
    rw [Nat.pow_succ, Nat.mul_comm, Nat.div_div_eq_div_mul]
  · simp

theorem ofNat_digit (b : UInt8) (h : 48 ≤ b.toNat ∧ b.toNat ≤ 57) :
    UInt8.ofNat (48 + (b.toNat - 48)) = b := by
  have : 48 + (b.toNat - 48) = b.toNat := by omega
  rw [this]; exact UInt8.ofNat_toNat

theorem lastDigits_valueOf_rev (rs : Bytes) (h : IsDigits rs) :
    lastDigits rs.length (valueOf rs.reverse) = rs.reverse := by
  induction rs with
  | nil => simp [lastDigits]
  | cons b t ih =>
    have hb := h b (by simp)
    have ht : IsDigits t := fun c hc => h c (by simp [hc])
    rw [List.reverse_cons, valueOf_append_singleton, List.length_cons, lastDigits_succ]
    have e1 : (valueOf t.reverse * 10 + (b.toNat - 48)) / 10 = valueOf t.reverse := by omega
    have e2 : (valueOf t.reverse * 10 + (b.toNat - 48)) % 10 = b.toNat - 48 := by omega
    rw [e1, e2, ih ht, ofNat_digit b hb]

/-- a block of `count` digits is reproduced by `pf_append_c_digits` / `pf_append_nine_digits` -/
theorem lastDigits_valueOf (ds : Bytes) (h : IsDigits ds) : lastDigits ds.length (valueOf ds) = ds := by
  have := lastDigits_valueOf_rev ds.reverse (fun b hb => h b (by simpa using hb))
  simpa using this

theorem IsDigits.take {ds : Bytes} (h : IsDigits ds) (n : Nat) : IsDigits (ds.take n) :=
  fun b hb => h b (List.mem_of_mem_take hb)
theorem IsDigits.drop {ds : Bytes} (h : IsDigits ds) (n : Nat) : IsDigits (ds.drop n) :=
  fun b hb => h b (List.mem_of_mem_drop hb)

theorem planText_cons (e : Emit) (es : List Emit) : planText (e :: es) = e.text ++ planText es := by
  simp [planText]

theorem nine_take (ds : Bytes) (h : IsDigits ds) (hl : 9 ≤ ds.length) :
    lastDigits 9 (valueOf (ds.take 9)) = ds.take 9 := by
  have := lastDigits_valueOf (ds.take 9) (h.take 9)
  rwa [List.length_take, Nat.min_eq_left hl] at this

/-- the fraction's blocks of nine digits (the last one shorter) spell the digits they were cut from -/
theorem planText_fracBlocks (fuel : Nat) : ∀ (ds : Bytes), IsDigits ds → ds.length ≤ fuel →
    planText (fracBlocks ds fuel) = ds := by
  induction fuel with
  | zero => intro ds _ hl; have : ds = [] := List.eq_nil_of_length_eq_zero (by omega); subst this; rfl
  | succ fuel ih =>
    intro ds h hl
    unfold fracBlocks
    by_cases h0 : ds.length = 0
    · have : ds = [] := List.eq_nil_of_length_eq_zero h0
      subst this; simp [planText]
    · rw [if_neg h0]
      by_cases h9 : ds.length > 9
      · rw [if_pos h9, planText_cons, ih (ds.drop 9) (h.drop 9) (by simp only [List.length_drop]; omega)]
        simp only [Emit.text]
        rw [nine_take ds h (by omega), List.take_append_drop]
      · rw [if_neg h9, planText_cons]
        simp only [Emit.text, planText, List.flatMap_nil, List.append_nil]
        exact lastDigits_valueOf ds h

theorem valueOf_rev_lt (rs : Bytes) (h : IsDigits rs) : valueOf rs.reverse < 10 ^ rs.length := by
  induction rs with
  | nil => simp [valueOf]
  | cons b t ih =>
    have hb := h b (by simp)
    have := ih (fun c hc => h c (by simp [hc]))
    rw [List.reverse_cons, valueOf_append_singleton, List.length_cons, Nat.pow_succ]
    omega

theorem valueOf_lt (ds : Bytes) (h : IsDigits ds) : valueOf ds < 10 ^ ds.length := by
  have := valueOf_rev_lt ds.reverse (fun b hb => h b (by simpa using hb))
  simpa using this

theorem valueOf_rev_pos (rs : Bytes) (h : IsDigits rs) (hne : rs ≠ []) (hl : rs.getLast? ≠ some 48) :
    1 ≤ valueOf rs.reverse := by
  induction rs with
  | nil => exact absurd rfl hne
  | cons b t ih =>
    have hb := h b (by simp)
    rw [List.reverse_cons, valueOf_append_singleton]
    cases t with
    | nil =>
      simp only [List.getLast?_singleton, ne_eq, Option.some.injEq] at hl
      have : b.toNat ≠ 48 := fun e => hl (UInt8.toNat_inj.mp (by simpa using e))
      simp [valueOf]; omega
    | cons c t' =>
      have := ih (fun c hc => h c (by simp [hc])) (by simp) (by simpa [List.getLast?_cons_cons] using hl)
      omega

theorem digitChar_digit (b : UInt8) (h : 48 ≤ b.toNat ∧ b.toNat ≤ 57) : digitChar false (b.toNat - 48) = b := by
  unfold digitChar
  rw [if_pos (by omega)]
  exact ofNat_digit b h

/-- positional notation of the value of a digit string without a leading zero is that string -/
theorem natDigits_valueOf_rev (rs : Bytes) (h : IsDigits rs) (hne : rs ≠ [])
    (hl : rs.length = 1 ∨ rs.getLast? ≠ some 48) :
    natDigits 10 false (valueOf rs.reverse) = rs.reverse := by
  induction rs with
  | nil => exact absurd rfl hne
  | cons b t ih =>
    have hb := h b (by simp)
    have ht : IsDigits t := fun c hc => h c (by simp [hc])
    rw [List.reverse_cons, valueOf_append_singleton]
    cases t with
    | nil =>
      rw [natDigits, dif_pos (Or.inl (by simp [valueOf]; omega))]
      simp only [List.reverse_nil, List.nil_append, valueOf, List.foldl_nil, Nat.zero_mul, Nat.zero_add]
      rw [digitChar_digit b hb]
    | cons c t' =>
      have hl' : (c :: t').getLast? ≠ some 48 := by
        rcases hl with hl | hl
        · simp at hl
        · simpa [List.getLast?_cons_cons] using hl
      have hpos := valueOf_rev_pos (c :: t') ht (by simp) hl'
      rw [natDigits, dif_neg (by omega)]
      have e1 : (valueOf (c :: t').reverse * 10 + (b.toNat - 48)) / 10 = valueOf (c :: t').reverse := by omega
      have e2 : (valueOf (c :: t').reverse * 10 + (b.toNat - 48)) % 10 = b.toNat - 48 := by omega
      rw [e1, e2, ih ht (by simp) (Or.inr hl'), digitChar_digit b hb]

/-- `pf_utoa` of a block's value writes the block, when the block has no leading zero (or is one digit) -/
theorem digits_valueOf (ds : Bytes) (h : IsDigits ds) (hne : ds ≠ []) (hlen : ds.length ≤ 64)
    (hl : ds.length = 1 ∨ ds.head? ≠ some 48) : digits 10 false (valueOf ds) = ds := by
  have hlt := valueOf_lt ds h
  have hpow : 10 ^ ds.length ≤ 10 ^ 64 := Nat.pow_le_pow_right (by omega) hlen
  rw [digits_eq 10 false _ (by omega) (by omega)]
  have := natDigits_valueOf_rev ds.reverse (fun b hb => h b (by simpa using hb)) (by simpa using hne)
    (by simpa [List.getLast?_reverse] using hl)
  simpa using this

theorem planText_intGo (fuel : Nat) : ∀ (ds : Bytes), IsDigits ds → ds.length % 9 = 0 → ds.length ≤ fuel →
    planText (intBlocks.go ds fuel) = ds := by
  induction fuel with
  | zero => intro ds _ _ hl; have : ds = [] := List.eq_nil_of_length_eq_zero (by omega); subst this; rfl
  | succ fuel ih =>
    intro ds h h9 hl
    unfold intBlocks.go
    by_cases h0 : ds.length = 0
    · have : ds = [] := List.eq_nil_of_length_eq_zero h0
      subst this; simp [planText]
    · rw [if_neg h0, planText_cons,
        ih (ds.drop 9) (h.drop 9) (by simp only [List.length_drop]; omega) (by simp only [List.length_drop]; omega)]
      simp only [Emit.text]
      rw [nine_take ds h (by omega), List.take_append_drop]

/-- a digit string as the integer part is written: no leading zero unless it is the single digit -/
def IsIntPart (ds : Bytes) : Prop := IsDigits ds ∧ ds ≠ [] ∧ (ds.length = 1 ∨ ds.head? ≠ some 48)

instance : DecidablePred IsIntPart := fun ds => by unfold IsIntPart; infer_instance

/-- the integer part: a first block through `pf_utoa`, then blocks of nine -/
theorem planText_intBlocks (ds : Bytes) (h : IsIntPart ds) : planText (intBlocks ds) = ds := by
  obtain ⟨hd, hne, hl⟩ := h
  have hpos : 0 < ds.length := List.length_pos_iff.mpr hne
  unfold intBlocks
  simp only
  generalize hr : (if ds.length % 9 = 0 then 9 else ds.length % 9) = r
  have hr1 : 1 ≤ r ∧ r ≤ 9 ∧ r ≤ ds.length ∧ (ds.length - r) % 9 = 0 := by
    subst hr; split <;> omega
  rw [planText_cons, planText_intGo ds.length (ds.drop r) (hd.drop r) (by simp only [List.length_drop]; omega)
    (by simp only [List.length_drop]; omega)]
  simp only [Emit.text]
  rw [digits_valueOf (ds.take r) (hd.take r), List.take_append_drop]
  · intro e; have := congrArg List.length e; simp only [List.length_take, List.length_nil] at this; omega
  · simp only [List.length_take]; omega
  · rcases hl with hl | hl
    · left; simp only [List.length_take]; omega
    · right
      cases ds with
      | nil => exact absurd rfl hne
      | cons a t =>
        obtain ⟨k, rfl⟩ : ∃ k, r = k + 1 := ⟨r - 1, by omega⟩
        simpa using hl

theorem takeWhile_eq_replicate (ds : Bytes) (c : UInt8) :
    ds.takeWhile (· = c) = List.replicate (ds.takeWhile (· = c)).length c := by
  rw [List.eq_replicate_iff]
  refine ⟨rfl, fun b hb => ?_⟩
  have := List.all_eq_true.mp (List.all_takeWhile (l := ds) (p := (· = c))) b hb
  simpa using this

theorem drop_takeWhile_length (ds : Bytes) (p : UInt8 → Bool) :
    ds.drop (ds.takeWhile p).length = ds.dropWhile p := by
  induction ds with
  | nil => rfl
  | cons a t ih =>
    by_cases h : p a
    · simp [h, ih]
    · simp [h]

/-- the fraction of a fixed notation: leading zeros through `pf_pad`, then blocks -/
theorem planText_fracPlan (ds : Bytes) (h : IsDigits ds) : planText (fracPlan ds) = ds := by
  unfold fracPlan
  simp only
  have hb : planText (fracBlocks (ds.drop (ds.takeWhile (· = 48)).length) ds.length) =
      ds.drop (ds.takeWhile (· = 48)).length :=
    planText_fracBlocks ds.length _ (h.drop _) (by simp only [List.length_drop]; omega)
  have hsplit : ds.takeWhile (· = 48) ++ ds.drop (ds.takeWhile (· = 48)).length = ds := by
    rw [drop_takeWhile_length]; exact List.takeWhile_append_dropWhile
  by_cases hz : (ds.takeWhile (· = 48)).length > 0
  · rw [if_pos hz, List.singleton_append, planText_cons, hb]
    simp only [Emit.text]
    rw [← takeWhile_eq_replicate, hsplit]
  · rw [if_neg hz, List.nil_append, hb]
    have : ds.takeWhile (· = 48) = [] := List.eq_nil_of_length_eq_zero (by omega)
    rw [this]; rfl

theorem dropWhile_head_not (l : Bytes) (p : UInt8 → Bool) (c : UInt8) (t : Bytes)
    (h : l.dropWhile p = c :: t) : p c = false := by
  induction l with
  | nil => simp at h
  | cons a l ih =>
    by_cases ha : p a
    · rw [List.dropWhile_cons_of_pos ha] at h; exact ih h
    · rw [List.dropWhile_cons_of_neg ha] at h
      have : a = c := by injection h
      subst this; simpa using ha

/-- well-formed text of a finite value, in terms of the parts `bodyPlan` cuts it into: digits after the
point; without an exponent an integer part without leading zeros, with one a single leading digit -/
def BodyWF (body : Bytes) : Prop :=
  let mant := body.takeWhile (fun b => b ≠ 101 ∧ b ≠ 69)
  let expo := body.dropWhile (fun b => b ≠ 101 ∧ b ≠ 69)
  let ip := mant.takeWhile (· ≠ 46)
  let rest := mant.dropWhile (· ≠ 46)
  IsDigits rest.tail ∧
  (if expo.length = 0 then IsIntPart ip else IsDigits ip ∧ ip.length = 1)

instance : DecidablePred BodyWF := fun body => by unfold BodyWF; infer_instance

theorem planText_expPlan (expo : Bytes) : planText (match expo with
      | [] => []
      | e :: sg :: ds => [Emit.push e, Emit.push sg, Emit.concat ds]
      | [e] => [Emit.push e]) = expo := by
  match expo with
  | [] => rfl
  | [e] => rfl
  | e :: sg :: ds => simp [planText, Emit.text]

theorem dDigits_first (d : UInt8) (fr8 : Bytes) (h : IsDigits (d :: fr8)) :
    dDigits (d :: fr8).length (valueOf (d :: fr8)) = d :: 46 :: fr8 := by
  unfold dDigits
  rw [lastDigits_valueOf _ h]

/-- **the plan of a finite value spells the value's text** -/
theorem planText_bodyPlan (body : Bytes) (h : BodyWF body) : planText (bodyPlan body) = body := by
  unfold BodyWF at h
  unfold bodyPlan
  simp only at h ⊢
  generalize hm : body.takeWhile (fun b => b ≠ 101 ∧ b ≠ 69) = mant at h ⊢
  generalize he : body.dropWhile (fun b => b ≠ 101 ∧ b ≠ 69) = expo at h ⊢
  have hbody : mant ++ expo = body := by subst hm he; exact List.takeWhile_append_dropWhile
  generalize hi : mant.takeWhile (· ≠ 46) = ip at h ⊢
  generalize hr : mant.dropWhile (· ≠ 46) = rest at h ⊢
  have hmant : ip ++ rest = mant := by subst hi hr; exact List.takeWhile_append_dropWhile
  obtain ⟨hfr, hip⟩ := h
  rw [planText_append]
  rw [← hbody, ← hmant]
  have key : ∀ a b a' b' : Bytes, b = b' → a = a' → a ++ b = a' ++ b' := by intros; subst_vars; rfl
  apply key
  · clear he hbody hip
    rcases expo with _ | ⟨e, _ | ⟨sg, ds⟩⟩ <;> simp [planText, Emit.text]
  have hdot : ∀ c fr, rest = c :: fr → c = 46 := by
    intro c fr hc
    have := dropWhile_head_not mant (· ≠ 46) c fr (by rw [hr, hc])
    simpa using this
  by_cases hx : expo.length = 0
  · rw [if_pos hx] at hip ⊢
    rw [planText_append, planText_intBlocks ip hip]
    congr 1
    match hrest : rest with
    | [] => rfl
    | c :: fr =>
      have := hdot c fr rfl
      subst this
      rw [planText_cons, planText_fracPlan fr (by simpa using hfr)]
      rfl
  · rw [if_neg hx] at hip ⊢
    obtain ⟨hipd, hip1⟩ := hip
    obtain ⟨d, rfl⟩ : ∃ d, ip = [d] := by
      match ip, hip1 with
      | [d], _ => exact ⟨d, rfl⟩
    match hrest : rest with
    | [] => simp [planText, Emit.text]
    | c :: fr =>
      have := hdot c fr rfl
      subst this
      have hfr' : IsDigits fr := by simpa using hfr
      simp only
      by_cases hf0 : fr.length = 0
      · have : fr = [] := List.eq_nil_of_length_eq_zero hf0
        subst this
        simp [planText, Emit.text]
      · rw [if_neg hf0, planText_cons,
          planText_fracBlocks fr.length (fr.drop 8) (hfr'.drop 8) (by simp only [List.length_drop]; omega)]
        simp only [Emit.text, List.singleton_append]
        rw [dDigits_first d (fr.take 8) (by
          intro b hb
          rcases List.mem_cons.mp hb with hb | hb
          · subst hb; exact hipd b (by simp)
          · exact hfr' b (List.mem_of_mem_take hb))]
        simp [List.take_append_drop]

end Gpc.Printf
