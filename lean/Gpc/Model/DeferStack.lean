/-! `gp_scope_defer`'s stack of deferred calls, as far as the scope's arena is concerned: a block of
`header + 4` entries at the first call, replaced by a fresh block of twice the entries whenever it is full.
The entries live between the caller's own blocks of the same scope. -/
namespace Gpc.Arena

structure DeferStack where
  len : Nat := 0
  cap : Nat := 0            -- 0: not created yet
  room : Nat := 0           -- bytes available for entries in the block that holds them now
deriving Repr

/-- what one `gp_scope_defer` does -/
structure DeferStep where
  next : DeferStack
  request : Option Nat      -- bytes requested from the scope's arena, if any
  copied : Nat              -- bytes copied from the old entries block into the new one
  writeOff : Nat            -- byte offset of the new entry inside the entries block
deriving Repr

def DeferStack.push (d : DeferStack) (hdr elem : Nat) : DeferStep :=
  if d.cap = 0 then
    { next := { len := 1, cap := 4, room := 4 * elem }, request := some (hdr + 4 * elem), copied := 0, writeOff := 0 }
  else if d.len = d.cap then
    { next := { len := d.len + 1, cap := d.cap * 2, room := d.cap * 2 * elem }, request := some (d.cap * 2 * elem),
      copied := d.len * elem, writeOff := d.len * elem }
  else
    { next := { d with len := d.len + 1 }, request := none, copied := 0, writeOff := d.len * elem }

def DeferStack.Inv (d : DeferStack) (elem : Nat) : Prop := d.len ≤ d.cap ∧ d.room = d.cap * elem

end Gpc.Arena
