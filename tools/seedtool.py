#!/usr/bin/env python3
"""Seeded-change bookkeeping.

  seedtool.py confirm <ID> <k> [--src /tmp/seed_out/<ID>] [--wt /tmp/seed_<ID>]
      confirms, in the scratch worktree, that patch<k>.diff applies, that the library's own test suite still passes
      with it, and that demo<k>.c passes on the clean tree and fails on the patched one; on success copies the
      change to /verif/seeded/<ID>-<k>/ (patch.diff, demo.c, meta.json).
  seedtool.py check <ID>-<k> [--tier quick] [--props C01,C04]
      applies seeded/<ID>-<k>/patch.diff to /repo, runs the check(s), undoes the patch, records the outcome in
      seeded/<ID>-<k>/result.json.
  seedtool.py table      prints the detection table from the result.json files (for DESIGN.md)
"""
import json, os, re, shutil, subprocess, sys, glob

ROOT = os.path.dirname(os.path.dirname(os.path.abspath(__file__)))
SEEDED = os.path.join(ROOT, "seeded")


def sh(cmd, cwd=None, timeout=3600):
    p = subprocess.run(cmd, shell=isinstance(cmd, str), cwd=cwd, capture_output=True, text=True, errors="replace", timeout=timeout)
    return p.returncode, p.stdout + p.stderr


def demo_cmd(src, root, out):
    """build command: the demo's own first-comment command if it has one with $ROOT, else a default"""
    txt = open(src, errors="replace").read(3000)
    m = re.search(r"((?:make -C \$ROOT single_header[^\n]*?&&\s*)?(?:gcc|clang-14)\s[^\n]*\$ROOT[^\n]*?-o\s+\S+)", txt)
    special = ("-fsanitize=thread", "-ldl", "-DNDEBUG", "single_header", "-DLIBGPC_VERIF")
    if m and any(x in m.group(1) for x in special):
        # the demo states its own build command (needed for ThreadSanitizer / extra libraries)
        cmd = m.group(1).replace("$ROOT", root)
        cmd = re.sub(r"(?<=\s)demo\d*\.c(?=\s)", src, cmd)
        cmd = re.sub(r"-o\s+\S+$", "-o " + out, cmd) + " -w"
        return cmd
    san = "-fsanitize=address,undefined" in txt
    m = re.search(r"gcc -std=(\w+)", txt)
    std = "-std=c99 -DGP_PEDANTIC" if m and m.group(1) == "c99" else "-std=gnu11"      # the configuration the demo names first
    return ("gcc " + std + " -D_GNU_SOURCE -w %s -I%s/include -I%s/src %s %s/src/*.c -lm -lpthread -o %s"
            % ("-fsanitize=address,undefined -fno-sanitize-recover=all -g" if san else "-O1", root, root, src, root, out))


def run_demo(src, root, tag):
    if src.endswith(".sh"):                      # a script that builds what it needs itself: sh demo.sh <root>
        rc, log = sh(["sh", src, root], cwd="/tmp", timeout=3600)
        return rc, log[-1500:]
    out = "/tmp/seed_demo_%s_%d" % (tag, os.getpid())
    rc, log = sh(demo_cmd(src, root, out))
    if rc != 0:
        return None, "demo build failed:\n" + log[-2000:]
    try:
        rc, log = sh([out], cwd="/tmp", timeout=900)
    finally:
        if os.path.exists(out): os.remove(out)
    return rc, log[-1500:]


def confirm(pid, k, src, wt):
    patch = os.path.join(src, "patch%s.diff" % k)
    demo = os.path.join(src, "demo%s.c" % k)
    if not os.path.exists(demo): demo = os.path.join(src, "demo%s.sh" % k)
    meta = json.load(open(os.path.join(src, "meta%s.json" % k)))
    rep = {"property": pid, "patch_lines": sum(1 for l in open(patch) if l[:1] in "+-" and l[:3] not in ("+++", "---"))}
    sh("git checkout -- . && rm -rf build", cwd=wt)
    rc, log = sh(["git", "apply", "--check", patch], cwd=wt)
    if rc: return False, "patch does not apply: " + log
    rc0, log0 = run_demo(demo, wt, pid + "c")
    rep["demo_clean"] = {"exit": rc0, "tail": log0[-300:]}
    if rc0 != 0:
        return False, "demo does not pass on the clean tree (exit %s): %s" % (rc0, log0[-600:])
    sh(["git", "apply", patch], cwd=wt)
    try:
        rc, log = sh("make build_tests 2>&1 | tail -5; make run_tests 2>&1", cwd=wt)
        clean = re.sub(r"\x1b\[[0-9;]*m", "", log)
        npass, nfail = clean.count("PASSED"), clean.count("FAILED")
        rep["suite_with_patch"] = {"exit": rc, "passed_lines": npass, "failed_lines": nfail}
        if rc != 0 or nfail or npass < 158:
            return False, "test suite does not pass with the patch (exit %d, %d PASSED, %d FAILED)" % (rc, npass, nfail)
        sh("rm -rf build", cwd=wt)          # a stale generator binary from the clean run must not serve the patched tree
        rc1, log1 = run_demo(demo, wt, pid + "p")
        rep["demo_patched"] = {"exit": rc1, "tail": log1[-400:]}
        if rc1 in (0, None):
            return False, "demo does not fail on the patched tree: " + log1[-600:]
    finally:
        sh("git checkout -- . && rm -rf build", cwd=wt)
    d = os.path.join(SEEDED, "%s-%s" % (pid, k))
    os.makedirs(d, exist_ok=True)
    shutil.copy(patch, os.path.join(d, "patch.diff"))
    shutil.copy(demo, os.path.join(d, "demo" + os.path.splitext(demo)[1]))
    json.dump({"property": pid, "summary": meta.get("summary"), "needs": meta.get("needs"),
               "author_ran": meta.get("ran"), "confirmed": rep,
               "confirmed_how": "tools/seedtool.py confirm: git apply --check on a clean scratch worktree; demo built "
                                "and run on the clean tree (exit 0); patch applied; make build_tests && make run_tests "
                                "(all PASSED, exit 0); demo built and run on the patched tree (non-zero exit)"},
              open(os.path.join(d, "meta.json"), "w"), indent=1)
    return True, json.dumps(rep)


def check(name, tier, props):
    d = os.path.join(SEEDED, name)
    patch = os.path.join(d, "patch.diff")
    pid = name.split("-")[0]
    props = props or [pid]
    rc, log = sh(["git", "-C", "/repo", "status", "--porcelain"])
    if log.strip():
        print("refusing: /repo has uncommitted changes:\n" + log); return 2
    rc, log = sh(["git", "-C", "/repo", "apply", patch])
    if rc:
        print("patch does not apply to /repo HEAD: " + log); return 2
    res = {}
    try:
        for p in props:
            rc, log = sh([sys.executable, os.path.join(ROOT, "tools", "check.py"), p, "--tier", tier], cwd=ROOT, timeout=7200)
            viol = [l for l in log.split("\n") if l.startswith("VIOLATION")]
            summ = [l for l in log.split("\n") if l.startswith(p + " tier=")]
            what = ""
            m = re.search(r"replay=(\S+)", viol[0]) if viol else None
            if m and os.path.exists(m.group(1)):
                try:
                    rj = json.load(open(m.group(1)))
                    w = (rj.get("witnesses") or rj.get("broken") or [{}])[0]
                    what = (w.get("what") or w.get("kind") or "")[:300]
                    case = w.get("case") or (w.get("detail") or {}).get("case")
                    res.setdefault("example", {})[p] = {"what": what, "case": (case or [])[:6]}
                except Exception as e:
                    what = "unreadable replay: %s" % e
            res[p] = {"exit": rc, "violation_lines": viol[:3], "summary": summ[-1:] and summ[-1]}
            print(name, p, "exit", rc, viol[:1], what[:160])
    finally:
        sh(["git", "-C", "/repo", "checkout", "--", "."])
        # tables and skeletons regenerated from the patched sources must not stay behind
        sh(["git", "-C", ROOT, "checkout", "--", "lean/Gpc/Generated", "evidence"])     # and the evidence of a mutant is not evidence
    out = os.path.join(d, "result.json")
    old = json.load(open(out)) if os.path.exists(out) else {}
    old[tier] = res
    json.dump(old, open(out, "w"), indent=1)
    return 0


def table():
    for d in sorted(glob.glob(os.path.join(SEEDED, "*"))):
        name = os.path.basename(d)
        try:
            meta = json.load(open(os.path.join(d, "meta.json")))
            res = json.load(open(os.path.join(d, "result.json"))) if os.path.exists(os.path.join(d, "result.json")) else {}
        except Exception:
            continue
        cells = []
        for tier, r in res.items():
            for p, v in r.items():
                if p == "example": continue
                kind = "missed"
                if v["violation_lines"]:
                    kind = "proof/corr only" if "no-failing-input-found" in v["violation_lines"][0] else "witness"
                cells.append("%s/%s: %s" % (p, tier, kind))
        print("| %s | %s | %s |" % (name, (meta.get("summary") or "")[:110].replace("|", "/"), "; ".join(cells)))


if __name__ == "__main__":
    a = sys.argv[1:]
    if a and a[0] == "confirm":
        pid, k = a[1], a[2]
        src = a[a.index("--src") + 1] if "--src" in a else "/tmp/seed_out/" + pid
        wt = a[a.index("--wt") + 1] if "--wt" in a else "/tmp/seed_" + pid
        ok, msg = confirm(pid, k, src, wt)
        print(("CONFIRMED " if ok else "REJECTED ") + pid + "-" + k + ": " + msg)
        sys.exit(0 if ok else 1)
    elif a and a[0] == "check":
        tier = a[a.index("--tier") + 1] if "--tier" in a else "quick"
        props = a[a.index("--props") + 1].split(",") if "--props" in a else None
        sys.exit(check(a[1], tier, props))
    elif a and a[0] == "table":
        table()
    else:
        print(__doc__)
