import Gpc.Model.Arena
import Gpc.Model.Array
import Gpc.Model.Compare
/-
Model of the use of the thread's scratch arena by the string functions (C15): every function is the
sequence of arena operations it performs — a zero-size allocation as rewind point, its temporary
arrays (`gp_arr_new`: 32-byte header + elements rounded to 16), the growth of those arrays
(`gp_arr_reserve` -> next power of two -> `gp_mem_realloc` in the arena) and the final rewind —
run on the arena model of C01.  The scratch arena starts with 256 bytes, doubles, has no limit.
-/
namespace Gpc.Scratch
open Gpc.Arena (Arena Addr)
open Gpc.CaseFull (Loc)

/-- growth of the scratch arena: `growth_coefficient = 2.0` -/
def g (cap : Nat) : Nat := 2 * cap

def fresh : Arena := Gpc.Arena.new 256 16 (2 ^ 64 - 1)

/-- bytes of an array allocation: header + elements rounded to GP_ALLOC_ALIGNMENT -/
def arrBytes (es count : Nat) : Nat := 32 + Gpc.Arena.roundUp (es * count) 16
/-- capacity `gp_arr_new` records -/
def arrCap (es count : Nat) : Nat := Gpc.Arena.roundUp (es * count) 16 / es

/-- a temporary array living in the arena -/
structure Tmp where
  addr : Addr
  es : Nat
  cap : Nat
  len : Nat
deriving Repr

structure St where
  arena : Arena
  mallocs : List Nat := []       -- sizes requested from the heap for new nodes, oldest first
  frees : Nat := 0
deriving Repr

def St.alloc (s : St) (n : Nat) : St × Addr :=
  let (a', p) := Gpc.Arena.alloc g s.arena n
  let newNodes := a'.nodes.take (a'.nodes.length - s.arena.nodes.length)
  ({ s with arena := a', mallocs := s.mallocs ++ newNodes.reverse.map fun n => n.cap + 32 }, p)

def St.arrNew (s : St) (es count : Nat) : St × Tmp :=
  let (s', p) := s.alloc (arrBytes es count)
  (s', { addr := p, es := es, cap := arrCap es count, len := 0 })

/-- `gp_arr_reserve(es, arr, request)` for an array in the arena -/
def St.reserve (s : St) (t : Tmp) (request : Nat) : St × Tmp :=
  if request > t.cap then
    let cap := Gpc.Arr.np2 request
    let r := Gpc.Arena.realloc g s.arena t.addr (32 + t.cap * t.es) (32 + cap * t.es)
    let newNodes := r.arena.nodes.take (r.arena.nodes.length - s.arena.nodes.length)
    ({ s with arena := r.arena, mallocs := s.mallocs ++ newNodes.reverse.map fun n => n.cap + 32 },
     { t with addr := r.addr, cap := cap })
  else (s, t)

/-- appending `n` elements the way `gp_u32_append` (`extra = 0`) / `gp_wcs_append` (`extra = 1`) do -/
def St.append (s : St) (t : Tmp) (n extra : Nat) : St × Tmp :=
  let (s', t') := s.reserve t (t.len + n + extra)
  (s', { t' with len := t'.len + n })

def St.appends (s : St) (t : Tmp) (extra : Nat) : List Nat → St × Tmp
  | [] => (s, t)
  | n :: ns => let (s', t') := s.append t n extra; St.appends s' t' extra ns

/-- `gp_arena_rewind(scratch, marker)` -/
def St.rewind (s : St) (p : Addr) : Option St :=
  (Gpc.Arena.rewind s.arena p).map fun a' =>
    { s with arena := a', frees := s.frees + (s.arena.nodes.length - a'.nodes.length) }

/-! ### the functions -/

/-- sizes of the chunks `gp_str_to_upper_full` appends, in order (same control flow as `upperFullF`) -/
def upperChunks (loc : Loc) : Nat → List Nat → List Nat
  | 0, _ => []
  | _, [] => []
  | fuel + 1, enc :: rest =>
    let la := rest.headD 0
    if enc = 0x345 ∧ Gpc.CaseFull.isDiatrical la then
      match rest with
      | _ :: rest' => 1 :: upperChunks loc fuel (0x345 :: rest')
      | [] => [(Gpc.CaseFull.upper1 loc enc).length]
    else
      let rest' := if la = 0x307 ∧ loc = .lt ∧ Gpc.CaseFull.isSoftDotted enc then rest.drop 1 else rest
      (Gpc.CaseFull.upper1 loc enc).length :: upperChunks loc fuel rest'

/-- ... `gp_str_to_lower_full` -/
def lowerChunks (loc : Loc) : Nat → Nat → List Nat → List Nat
  | 0, _, _ => []
  | _, _, [] => []
  | fuel + 1, lb, enc :: rest =>
    let la := rest.headD 0
    if enc = 0x3A3 then 1 :: lowerChunks loc fuel enc rest
    else if loc = .lt ∧ (enc = 0x49 ∨ enc = 0x4A ∨ enc = 0x12E) then
      ([1] ++ (if Gpc.CaseFull.isLithAccent la then [1] else [])) ++ lowerChunks loc fuel enc rest
    else if loc = .lt ∧ (enc = 0xCC ∨ enc = 0xCD ∨ enc = 0x128) then
      (Gpc.CaseFull.lower1 loc enc).length :: lowerChunks loc fuel enc rest
    else if enc = 0x49 ∧ loc = .tr then
      if la = 0x307 then 1 :: lowerChunks loc fuel enc (rest.drop 1) else 1 :: lowerChunks loc fuel enc rest
    else (Gpc.CaseFull.lower1 loc enc).length :: lowerChunks loc fuel enc rest

/-- full case mapping: marker, work array of `byteLen` code points, the appends, rewind -/
def caseFullScript (s : St) (byteLen : Nat) (chunks : List Nat) : Option St :=
  let (s, m) := s.alloc 0
  let (s, t) := s.arrNew 4 byteLen
  let (s, _) := s.appends t 0 chunks
  s.rewind m

/-- simple case mapping: marker, `gp_utf8_to_utf32_new`, rewind -/
def caseSimpleScript (s : St) (byteLen : Nat) : Option St :=
  let (s, m) := s.alloc 0
  let (s, _) := s.arrNew 4 byteLen
  s.rewind m

/-- `gp_wcs_fold_utf8` on a temporary: reserve(byte length + 1), the ASCII prefix is stored directly
(not for tr/az), every further code point appends its folding -/
def foldInto (s : St) (t : Tmp) (loc : Loc) (cps : List Nat) (byteLen : Nat) : St × Tmp :=
  let r := s.reserve { t with len := 0 } (byteLen + 1)
  let pre := if loc = .tr then 0 else (cps.takeWhile (· ≤ 0x7F)).length
  r.1.appends { r.2 with len := pre } 1 ((cps.drop pre).map fun c => (Gpc.CaseFull.fold1 loc c).length)

/-- `gp_str_compare` with fold and/or collate -/
def compareScript (s : St) (fold : Bool) (loc : Loc) (a b : List Nat) (lenA lenB : Nat) : Option St :=
  let (s, m) := s.alloc 0
  let (s, t1) := s.arrNew 4 (a.length + 1)
  let (s, t2) := s.arrNew 4 (b.length + 1)
  let (s, _) := if fold then foldInto s t1 loc a lenA else (s, t1)
  let (s, _) := if fold then foldInto s t2 loc b lenB else (s, t2)
  s.rewind m

/-- `gp_str_sort` with fold and/or collate: `strs` = (code points, byte length) -/
def sortScript (s : St) (fold : Bool) (loc : Loc) (strs : List (List Nat × Nat)) : Option St :=
  let (s, m) := s.alloc 0
  let (s, _) := s.alloc (24 * strs.length)
  let s := strs.foldl (fun s (p : List Nat × Nat) =>
    let (s, t) := s.arrNew 4 (p.2 + 1)
    if fold then (foldInto s t loc p.1 p.2).1 else s) s
  s.rewind m

end Gpc.Scratch
