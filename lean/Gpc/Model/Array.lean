/-
Model of the dynamic array anchored by C03 (src/array.c).  An array is its header
(length, capacity, where it lives) and `capacity * es` bytes of element storage.  Every operation is
the sequence of `memmove` / `memcpy` calls the C code performs, with the C index arithmetic; the
primitives are checked: they fail (`none`) when they would touch a byte outside the storage.
Growth (`gp_arr_reserve`) allocates `next_power_of_2(request)` elements; what happens to the old
storage depends on where the array lives (heap: free; arena: realloc / nothing; stack: left alone).
-/
namespace Gpc.Arr

abbrev Bytes := List UInt8

/-- where the storage lives -/
inductive Kind where
  | heap                 -- malloc-based allocator: old storage is deallocated on growth
  | arena                -- arena / scope: dealloc is a no-op, realloc may extend in place
  | stack (hasAlloc : Bool)   -- on the stack; with a fallback allocator it moves there on growth
deriving DecidableEq, Repr

/-- allocator traffic caused by the array -/
inductive Ev where
  | alloc (id : Nat)
  | free (id : Nat)
deriving DecidableEq, Repr

structure Arr where
  es : Nat
  length : Nat
  capacity : Nat
  data : Bytes                 -- the element storage, `capacity * es` bytes
  kind : Kind
  allocation : Option Nat      -- id of the allocated block holding it; `none` = on the stack
  nextId : Nat
  log : List Ev
deriving Repr

/-- `memmove(base + dst, base + src, n)` inside the storage -/
def memmove (d : Bytes) (dst src n : Nat) : Option Bytes :=
  if dst + n ≤ d.length ∧ src + n ≤ d.length then
    some (d.take dst ++ (d.drop src).take n ++ d.drop (dst + n))
  else none

/-- `memcpy(base + dst, src, |src|)` from a buffer that does not overlap the storage -/
def memcpyIn (d : Bytes) (dst : Nat) (src : Bytes) : Option Bytes :=
  if dst + src.length ≤ d.length then some (d.take dst ++ src ++ d.drop (dst + src.length)) else none

/-- `gp_next_power_of_2` (smallest power of two strictly greater; C20) -/
def np2 (x : Nat) : Nat := if x = 0 then 1 else 2 ^ (Nat.log2 x + 1)

/-- `gp_arr_new(allocator, es, count)`: capacity = round16(es*count) / es -/
def new (es count : Nat) (kind : Kind) : Arr :=
  let size := (es * count + 15) / 16 * 16
  { es := es, length := 0, capacity := size / es, data := List.replicate (size / es * es) 0, kind := kind,
    allocation := some 0, nextId := 1, log := [.alloc 0] }

/-- an array on the stack with room for `cap` elements -/
def onStack (es cap : Nat) (hasAlloc : Bool) : Arr :=
  { es := es, length := 0, capacity := cap, data := List.replicate (cap * es) 0, kind := .stack hasAlloc,
    allocation := none, nextId := 0, log := [] }

/-- `gp_arr_reserve(es, arr, capacity)`; `none` never happens (kept for uniformity) -/
def reserve (a : Arr) (request : Nat) : Arr :=
  match a.kind with
  | .stack false => a                                   -- allocator == NULL: returned as is
  | _ =>
    if request > a.capacity then
      let cap := np2 request
      let grown := a.data ++ List.replicate ((cap - a.capacity) * a.es) 0
      match a.kind, a.allocation with
      | .arena, some _ =>
        -- gp_mem_realloc: the whole old storage is kept (extended in place or copied)
        { a with capacity := cap, data := grown }
      | _, _ =>
        -- new block, header + length*es bytes copied, old block deallocated (if there is one)
        let kept := a.data.take (a.length * a.es) ++ List.replicate (cap * a.es - a.length * a.es) 0
        let frees := match a.allocation with | some o => [Ev.free o] | none => []
        { a with capacity := cap, data := kept, allocation := some a.nextId, nextId := a.nextId + 1,
                 kind := (match a.kind with | .stack _ => .heap | k => k),
                 log := a.log ++ [Ev.alloc a.nextId] ++ frees }
    else a

def setLength (a : Arr) (n : Nat) : Arr := { a with length := n }

/-- `gp_arr_push` -/
def push (a : Arr) (e : Bytes) : Option Arr :=
  let a1 := reserve a (a.length + 1)
  (memcpyIn a1.data (a.length * a.es) e).map fun d => { a1 with data := d, length := a1.length + 1 }

/-- `gp_arr_pop`: the popped element's bytes and the shortened array -/
def pop (a : Arr) : Option (Bytes × Arr) :=
  if a.length = 0 then none else
  let l := a.length - 1
  if l * a.es + a.es ≤ a.data.length then some ((a.data.drop (l * a.es)).take a.es, { a with length := l }) else none

/-- `gp_arr_append(arr, src, n)` -/
def append (a : Arr) (src : Bytes) (n : Nat) : Option Arr :=
  let a1 := reserve a (a.length + n)
  (memcpyIn a1.data (a.length * a.es) src).map fun d => { a1 with data := d, length := a1.length + n }

/-- `gp_arr_insert(arr, pos, src, n)` -/
def insert (a : Arr) (pos : Nat) (src : Bytes) (n : Nat) : Option Arr :=
  let a1 := reserve a (a.length + n)
  match memmove a1.data ((pos + n) * a.es) (pos * a.es) ((a.length - pos) * a.es) with
  | none => none
  | some d1 => (memcpyIn d1 (pos * a.es) src).map fun d => { a1 with data := d, length := a1.length + n }

/-- `gp_arr_erase(arr, pos, count)` -/
def erase (a : Arr) (pos count : Nat) : Option Arr :=
  let tail := a.length - (pos + count)
  (memmove a.data (pos * a.es) ((pos + count) * a.es) (tail * a.es)).map fun d =>
    { a with data := d, length := a.length - count }

/-- `gp_arr_copy(dest, src, n)` -/
def copy (a : Arr) (src : Bytes) (n : Nat) : Option Arr :=
  let a1 := reserve a n
  (memcpyIn a1.data 0 src).map fun d => { a1 with data := d, length := n }

/-- `gp_arr_slice(dest, NULL, start, end)`: in place -/
def sliceSelf (a : Arr) (start stop : Nat) : Option Arr :=
  (memmove a.data 0 (start * a.es) ((stop - start) * a.es)).map fun d => { a with data := d, length := stop - start }

/-- `gp_arr_slice(dest, src, start, end)` from another buffer -/
def sliceFrom (a : Arr) (src : Bytes) (start stop : Nat) : Option Arr :=
  let a1 := reserve a (stop - start)
  (memcpyIn a1.data 0 ((src.drop (start * a.es)).take ((stop - start) * a.es))).map fun d =>
    { a1 with data := d, length := stop - start }

/-- the elements as byte chunks -/
def chunks (es : Nat) : (n : Nat) → Bytes → List Bytes
  | 0, _ => []
  | n + 1, b => b.take es :: chunks es n (b.drop es)

/-- `gp_arr_map(arr, NULL, _, f)`: element-wise in place -/
def mapSelf (a : Arr) (f : Bytes → Bytes) : Option Arr :=
  let new := ((chunks a.es a.length a.data).map f).flatten
  (memcpyIn a.data 0 new).map fun d => { a with data := d }

/-- `gp_arr_map(arr, src, n, f)` -/
def mapFrom (a : Arr) (src : Bytes) (n : Nat) (f : Bytes → Bytes) : Option Arr :=
  let a1 := reserve a n
  let new := ((chunks a.es n src).map f).flatten
  (memcpyIn a1.data 0 new).map fun d => { a1 with data := d, length := n }

/-- `gp_arr_filter_aliasing`: first loop counts the leading matches in place, second loop copies
each later match down to the write position -/
def filterLoop (es : Nat) (f : Bytes → Bool) : (fuel : Nat) → (d : Bytes) → (i len length : Nat) → Option (Bytes × Nat)
  | 0, d, _, len, _ => some (d, len)
  | fuel + 1, d, i, len, length =>
    if i < length then
      if i * es + es ≤ d.length then
        let e := (d.drop (i * es)).take es
        if f e then
          match memcpyIn d (len * es) e with
          | none => none
          | some d' => filterLoop es f fuel d' (i + 1) (len + 1) length
        else filterLoop es f fuel d (i + 1) len length
      else none
    else some (d, len)

def filterSelf (a : Arr) (f : Bytes → Bool) : Option Arr :=
  (filterLoop a.es f (a.length + 1) a.data 0 0 a.length).map fun (d, len) => { a with data := d, length := len }

/-- `gp_arr_filter_non_aliasing` -/
def filterFrom (a : Arr) (src : Bytes) (n : Nat) (f : Bytes → Bool) : Option Arr :=
  let a1 := reserve a n
  let kept := ((chunks a.es n src).filter f).flatten
  (memcpyIn a1.data 0 kept).map fun d => { a1 with data := d, length := ((chunks a.es n src).filter f).length }

/-- `gp_arr_fold` / `gp_arr_foldr` -/
def fold (a : Arr) (g : Nat → Bytes → Nat) (acc : Nat) : Nat := (chunks a.es a.length a.data).foldl g acc
def foldr (a : Arr) (g : Nat → Bytes → Nat) (acc : Nat) : Nat := (chunks a.es a.length a.data).foldr (fun e x => g x e) acc

/-- `gp_arr_delete` -/
def delete (a : Arr) : Arr :=
  match a.kind, a.allocation with
  | .arena, _ => { a with allocation := none }            -- gp_arena_dealloc is a no-op
  | _, some o => { a with allocation := none, log := a.log ++ [Ev.free o] }
  | _, none => a

/-- the element bytes (what the property calls "the array's element bytes") -/
def bytes (a : Arr) : Bytes := a.data.take (a.length * a.es)

end Gpc.Arr
