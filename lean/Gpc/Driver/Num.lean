import Gpc.Model.Proto
import Gpc.Model.Num
/-! line protocol for the C20 model -/
namespace Gpc.Driver
open Gpc.Proto Gpc.Num

def optNat (s : String) : Option (Option Nat) :=
  if s == "-" then some none else s.toNat?.map some
def showOpt : Option Nat → String
  | none => "-" | some n => toString n

def rangeSeq (fuel : Nat) : Nat → Pcg → Int → Int → List String
  | 0, _, _, _ => []
  | k + 1, r, lo, hi =>
    match randomRange fuel r lo hi with
    | none => ["fuel"]
    | some (r', v) => toString v :: rangeSeq fuel k r' lo hi

/-- one state, draws in the order of the script: r = 32 bits, f = the fraction's numerator, g = a ranged draw -/
def mixSeq (fuel : Nat) (lo hi : Int) : List Char → Pcg → List String
  | [], _ => []
  | 'r' :: cs, r => let (r', v) := pcgNext r; s!"r{v}" :: mixSeq fuel lo hi cs r'
  | 'f' :: cs, r => let (r', v) := frandomNum r; s!"f{v}" :: mixSeq fuel lo hi cs r'
  | 'g' :: cs, r =>
    match randomRange fuel r lo hi with
    | none => ["fuel"]
    | some (r', v) => s!"g{v}" :: mixSeq fuel lo hi cs r'
  | _ :: _, _ => ["bad-op"]

def num (toks : List String) : String :=
  match toks with
  | ["fnv32", h] => match parseHex h with
      | some bs => toString (fnv32 bs).toNat | none => "bad-op"
  | ["fnv64", h] => match parseHex h with
      | some bs => toString (fnv64 bs).toNat | none => "bad-op"
  | ["fnv128", h] => match parseHex h with
      | some bs => toString (fnv128 bs).toNat | none => "bad-op"
  | ["np2_32", x] => match x.toNat? with
      | some x => if x < 2^32 then toString (np2_32 x) else "bad-op" | none => "bad-op"
  | ["np2_64", x] => match x.toNat? with
      | some x => if x < 2^64 then toString (np2_64 x) else "bad-op" | none => "bad-op"
  | ["round", x, b] => match x.toNat?, b.toNat? with
      | some x, some b => if x < 2^64 ∧ b < 2^64 then toString (roundToAligned x b) else "bad-op"
      | _, _ => "bad-op"
  | ["cb", s, e, l] => match optNat s, optNat e, l.toNat? with
      | some s, some e, some l =>
        let r := checkBounds s e l
        s!"{if r.ok then 1 else 0} {showOpt r.start} {showOpt r.stop}"
      | _, _, _ => "bad-op"
  | ["rand", seed, k] => match seed.toNat?, k.toNat? with
      | some seed, some k => " ".intercalate ((stream k (newRandomState seed)).map toString)
      | _, _ => "bad-op"
  | ["frand", seed, k] => match seed.toNat?, k.toNat? with
      | some seed, some k => " ".intercalate ((stream k (newRandomState seed)).map toString)
      | _, _ => "bad-op"
  | ["rr", seed, lo, hi, k] => match seed.toNat?, lo.toInt?, hi.toInt?, k.toNat? with
      | some seed, some lo, some hi, some k =>
        if lo ≤ hi ∧ -(2^31 : Int) ≤ lo ∧ hi < (2^31 : Int) then
          " ".intercalate (rangeSeq 100000 k (newRandomState seed) lo hi)
        else "bad-op"
      | _, _, _, _ => "bad-op"
  | ["mixfixed", k] =>
      -- the fixed programs of the harness: (seed, draws with their ranges)
      let run (seed : Nat) (steps : List (Char × Int × Int)) : String :=
        let rec go (fuel : Nat) : List (Char × Int × Int) → Pcg → List String
          | [], _ => []
          | ('g', lo, hi) :: cs, r => match randomRange fuel r lo hi with
            | none => ["fuel"]
            | some (r', v) => s!"g{v}" :: go fuel cs r'
          | ('f', _, _) :: cs, r => let (r', v) := frandomNum r; s!"f{v}" :: go fuel cs r'
          | (_, _, _) :: cs, r => let (r', v) := pcgNext r; s!"r{v}" :: go fuel cs r'
        String.join ((go 100000 steps (newRandomState seed)).map (· ++ " "))
      if k == "0" then run 7 [('r', 0, 0), ('r', 0, 0), ('r', 0, 0), ('r', 0, 0), ('f', 0, 0), ('g', -5, 5)]
      else if k == "1" then run 12345 [('g', 0, 9), ('f', 0, 0), ('r', 0, 0), ('g', -100, 100)]
      else if k == "2" then run 0 [('f', 0, 0), ('f', 0, 0), ('g', 1, 6), ('r', 0, 0)]
      else "bad-op"
  | ["mix", seed, lo, hi, script] => match seed.toNat?, lo.toInt?, hi.toInt? with
      | some seed, some lo, some hi =>
        if lo ≤ hi ∧ -(2^31 : Int) ≤ lo ∧ hi < (2^31 : Int) then
          String.join ((mixSeq 100000 lo hi script.toList (newRandomState seed)).map (· ++ " "))
        else "bad-op"
      | _, _, _ => "bad-op"
  | _ => "bad-op"

end Gpc.Driver
