/-
Range tables for per-code-point mappings: an entry maps every code point in `[lo, hi]` to itself
plus `d`.  Tables are canonical (sorted, maximal runs of equal delta, identity omitted), so two
mappings are the same function iff their tables are the same list.
-/
namespace Gpc.CaseTable

structure E where
  lo : Nat
  hi : Nat
  d : Int
deriving DecidableEq, Repr

/-- apply a table to a code point: identity outside all entries -/
def apply (t : List E) (c : Nat) : Nat :=
  match t.find? (fun e => decide (e.lo ≤ c ∧ c ≤ e.hi)) with
  | some e => ((c : Int) + e.d).toNat
  | none => c

/-- the same data as a balanced search tree (logarithmic lookup; used where the kernel has to
evaluate thousands of lookups) -/
inductive T where
  | nil
  | node (l : T) (e : E) (r : T)
deriving DecidableEq, Repr

def T.apply : T → Nat → Nat
  | .nil, c => c
  | .node l e r, c => if c < e.lo then l.apply c else if e.hi < c then r.apply c else ((c : Int) + e.d).toNat

def T.toList : T → List E
  | .nil => []
  | .node l e r => l.toList ++ e :: r.toList

/-- search tree from code points to their case-folding class -/
inductive CT where
  | nil
  | node (l : CT) (c : Nat) (cl : List Nat) (r : CT)
deriving DecidableEq, Repr

def CT.find : CT → Nat → Option (List Nat)
  | .nil, _ => none
  | .node l c cl r, x => if x < c then l.find x else if c < x then r.find x else some cl

def CT.toList : CT → List (Nat × List Nat)
  | .nil => []
  | .node l c cl r => l.toList ++ (c, cl) :: r.toList

end Gpc.CaseTable
