#!/usr/bin/perl
# Dumps simple case mappings, simple case folding and a few properties from perl's own copy of the
# Unicode Character Database (perl 5.36: Unicode 14.0.0) as plain text.  Provenance of Gpc/Ucd/*.lean.
use strict; use warnings;
use Unicode::UCD qw(prop_invmap prop_invlist);
print "# unicode_version ", Unicode::UCD::UnicodeVersion(), "\n";
for my $p (qw(Simple_Uppercase_Mapping Simple_Lowercase_Mapping Simple_Titlecase_Mapping Simple_Case_Folding)) {
    my ($list, $map, $format, $default) = prop_invmap($p);
    for my $i (0 .. $#$list) {
        my $lo = $list->[$i]; my $hi = ($i < $#$list ? $list->[$i+1] : 0x110000) - 1;
        my $m = $map->[$i];
        next if !defined $m || $m eq '0' || $m eq "<code point>" || (!ref $m && $m == 0);
        # format 'a': adjusted: first of range maps to $m, following ones to $m + offset
        for my $c ($lo .. $hi) { printf "%s %X %X\n", $p, $c, $m + ($c - $lo); }
    }
}
for my $p (qw(Cased Case_Ignorable Soft_Dotted)) {
    my @l = prop_invlist($p);
    for (my $i = 0; $i < @l; $i += 2) { my $hi = ($i + 1 < @l ? $l[$i+1] : 0x110000) - 1; printf "%s %X %X\n", $p, $l[$i], $hi; }
}
{   # canonical combining class 230
    my ($list, $map) = prop_invmap("Canonical_Combining_Class");
    for my $i (0 .. $#$list) { my $hi = ($i < $#$list ? $list->[$i+1] : 0x110000) - 1; print "Ccc $map->[$i] ", sprintf("%X %X", $list->[$i], $hi), "\n" if $map->[$i] ne '0' && $map->[$i] ne 'Not_Reordered'; }
}
{   # full case folding (status C + F) and full case mappings with more than one code point
    for my $p (qw(Case_Folding Uppercase_Mapping Lowercase_Mapping Titlecase_Mapping)) {
        my ($list, $map, $format, $default) = prop_invmap($p);
        for my $i (0 .. $#$list) {
            my $m = $map->[$i];
            next unless ref $m;      # arrays = multi code point mappings
            printf "%s_full %X %s\n", $p, $list->[$i], join(" ", map { sprintf "%X", $_ } @$m);
        }
    }
}
