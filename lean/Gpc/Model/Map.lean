/-
Model of the hash map anchored by C05 (src/hashmap.c: gp_map_put_elem, gp_map_get_elem,
gp_map_remove_elem, gp_map_delete_elems), as repaired.

The map is a tree of slot arrays.  Slots are addressed by their *path* (the list of indices from
the root array downwards); a freshly allocated (zeroed) child array is "all paths below are
`empty`".  Level widths: `w 0 = length`, `w (d+1) = max 4 (w d / 2)` (`gp_next_length`); the index
at a level is `key % width` (`key & (length-1)` for the power-of-two lengths the map uses) and the
key handed to the next level is `key / width` (`gp_shift_key`).  Slots store the key *as seen at
their level* (already shifted), exactly as the C code does.
Elements are identified by a number (the transcript maps pointers to these numbers).
-/
namespace Gpc.Map

inductive Cell where
  | empty                                       -- slot.index == GP_EMPTY
  | leaf (key elem : Nat)                       -- GP_IN_USE
  | node (key : Nat) (elem : Option Nat)        -- has children; `none` = removed (element == NULL)
deriving DecidableEq, Repr

structure Map where
  width0 : Nat
  cells : List Nat → Cell
  log : List Nat                                -- destructor calls (element ids), oldest first
  depth : Nat                                   -- bound on the length of non-empty paths

/-- `gp_map_new`: `length = next_power_of_2(capacity) >> 1`, 256 for capacity 0 -/
def lengthOf (capacity : Nat) : Nat :=
  if capacity = 0 then 256 else 2 ^ (Nat.log2 capacity)

def new (capacity : Nat) : Map := { width0 := lengthOf capacity, cells := fun _ => .empty, log := [], depth := 1 }

/-- width of the slot array at depth `d` -/
def w (width0 : Nat) : Nat → Nat
  | 0 => width0
  | d + 1 => max 4 (w width0 d / 2)

def setCell (cells : List Nat → Cell) (p : List Nat) (c : Cell) : List Nat → Cell :=
  fun q => if q = p then c else cells q

/-- `gp_map_put_elem`: `path` = slots array reached so far, `key` = key as shifted so far -/
def putLoop (width0 : Nat) : (fuel : Nat) → (cells : List Nat → Cell) → (path : List Nat) → (key : Nat) →
    (d : Nat) → (elem : Nat) → (log : List Nat) → Option ((List Nat → Cell) × List Nat)
  | 0, _, _, _, _, _, _ => none
  | fuel + 1, cells, path, key, d, elem, log =>
    let i := key % w width0 d
    let p := path ++ [i]
    match cells p with
    | .empty => some (setCell cells p (.leaf key elem), log)
    | .leaf k e =>
      if k = key then some (setCell cells p (.leaf key elem), log ++ [e])          -- replace
      else -- collision: the slot gets (zeroed) children, the element stays in the slot
        putLoop width0 fuel (setCell cells p (.node k (some e))) p (key / w width0 d) (d + 1) elem log
    | .node k (some e) =>
      if k = key then some (setCell cells p (.node k (some elem)), log ++ [e])     -- replace
      else putLoop width0 fuel cells p (key / w width0 d) (d + 1) elem log
    | .node _ none => putLoop width0 fuel cells p (key / w width0 d) (d + 1) elem log

def put (m : Map) (key elem : Nat) : Option Map :=
  match putLoop m.width0 (m.depth + 2) m.cells [] key 0 elem m.log with
  | none => none
  | some (cells, log) => some { m with cells := cells, log := log, depth := m.depth + 1 }

/-- `gp_map_get_elem` -/
def getLoop (width0 : Nat) (cells : List Nat → Cell) : (fuel : Nat) → (path : List Nat) → (key : Nat) → (d : Nat) →
    Option (Option Nat)
  | 0, _, _, _ => none
  | fuel + 1, path, key, d =>
    let i := key % w width0 d
    let p := path ++ [i]
    match cells p with
    | .empty => some none
    | .leaf k e => if k = key then some (some e) else some none
    | .node k (some e) => if k = key then some (some e) else getLoop width0 cells fuel p (key / w width0 d) (d + 1)
    | .node _ none => getLoop width0 cells fuel p (key / w width0 d) (d + 1)

def get (m : Map) (key : Nat) : Option (Option Nat) := getLoop m.width0 m.cells (m.depth + 1) [] key 0

/-- `gp_map_remove_elem` : (found, new cells, new log) -/
def removeLoop (width0 : Nat) : (fuel : Nat) → (cells : List Nat → Cell) → (path : List Nat) → (key : Nat) →
    (d : Nat) → (log : List Nat) → Option (Bool × (List Nat → Cell) × List Nat)
  | 0, _, _, _, _, _ => none
  | fuel + 1, cells, path, key, d, log =>
    let i := key % w width0 d
    let p := path ++ [i]
    match cells p with
    | .empty => some (false, cells, log)
    | .leaf k e => if k = key then some (true, setCell cells p .empty, log ++ [e]) else some (false, cells, log)
    | .node k (some e) =>
      if k = key then some (true, setCell cells p (.node k none), log ++ [e])
      else removeLoop width0 fuel cells p (key / w width0 d) (d + 1) log
    | .node _ none => removeLoop width0 fuel cells p (key / w width0 d) (d + 1) log

def remove (m : Map) (key : Nat) : Option (Bool × Map) :=
  match removeLoop m.width0 (m.depth + 1) m.cells [] key 0 m.log with
  | none => none
  | some (b, cells, log) => some (b, { m with cells := cells, log := log })

end Gpc.Map
