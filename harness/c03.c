/* C03 driver: dynamic array scripts over element sizes and storage kinds.
 * kinds: heap | arena (tight: node = exactly the array) | arena2 (default arena, a live neighbour
 * block is allocated right after the array) | scope | stack (with heap fallback) | stack0 (no allocator) */
#include <gpc/array.h>
#include <gpc/memory.h>
#include "track_heap.h"
#include "proto.h"

static size_t es;
static void fmap(void* out, const void* in) { for (size_t i = 0; i < es; i++) ((uint8_t*)out)[i] = (uint8_t)(((const uint8_t*)in)[i] * 3 + 1); }
static bool fpred(const void* x) { return *(const uint8_t*)x % 2 == 1; }
static void* ffold(void* acc, const void* e) { return (void*)(uintptr_t)((uintptr_t)acc * 31 + *(const uint8_t*)e); }

static uint8_t* neighbour; static size_t neighbour_n;
static void show(GPArray(void) a)
{
    printf("len=%zu ", gp_arr_length(a));
    vp_puthex(a, gp_arr_length(a) * es);
    if (gp_arr_length(a) > gp_arr_capacity(a)) fputs(" CAP<LEN", stdout);
    if (neighbour) for (size_t i = 0; i < neighbour_n; i++) if (neighbour[i] != (uint8_t)(0xA5 ^ i)) { fputs(" NEIGHBOUR-CLOBBERED", stdout); break; }
    puts("");
}

int main(void)
{
    setvbuf(stdout, NULL, _IOFBF, 1 << 16);
    th_install();
    GPArray(void) a = NULL; GPArena arena; GPAllocator* scope = NULL; int kind = 0; void* stackmem = NULL;
    size_t frees_at_new = 0, moved = 0;
    while (vp_next()) {
        if (vp_ntok < 2 || strcmp(vp_tok[0], "arr")) { puts("bad-op"); continue; }
        char** t = vp_tok + 1; int n = vp_ntok - 1;
        size_t sl = 0; uint8_t* src = NULL;
        void* before = a;
        if (!strcmp(t[0], "new") && n == 4) {
            es = strtoull(t[2], NULL, 10); size_t cnt = strtoull(t[3], NULL, 10);
            th_reset(); neighbour = NULL; moved = 0;
            if (!strcmp(t[1], "heap")) { kind = 0; a = gp_arr_new(gp_heap, es, cnt); }
            else if (!strcmp(t[1], "arena")) { kind = 1; arena = gp_arena_new(sizeof(GPArrayHeader) + ((es * cnt + 15) / 16 * 16) - 15); /* not a multiple of the alignment: the library rounds it up to the array exactly */ arena.growth_coefficient = 0.0; a = gp_arr_new((GPAllocator*)&arena, es, cnt); }
            else if (!strcmp(t[1], "arena2")) { kind = 2; arena = gp_arena_new(0); a = gp_arr_new((GPAllocator*)&arena, es, cnt);
                neighbour_n = 24; neighbour = gp_mem_alloc((GPAllocator*)&arena, neighbour_n); for (size_t i = 0; i < neighbour_n; i++) neighbour[i] = (uint8_t)(0xA5 ^ i); }
            else if (!strcmp(t[1], "scope")) { kind = 3; scope = gp_begin(0); a = gp_arr_new(scope, es, cnt); }
            else { kind = !strcmp(t[1], "stack") ? 4 : 5;
                stackmem = malloc(sizeof(GPArrayHeader) + cnt * es);       /* exact-size stand-in for stack storage */
                GPArrayHeader* h = stackmem; *h = (GPArrayHeader){ .length = 0, .capacity = cnt, .allocator = kind == 4 ? gp_heap : NULL, .allocation = NULL };
                a = h + 1; }
            frees_at_new = th_frees;
            show(a);
        } else if (!strcmp(t[0], "end")) { puts("end"); fflush(stdout); }
        else if (!a) { puts("bad-op"); }
        else if (!strcmp(t[0], "reserve") && n == 2) { a = gp_arr_reserve(es, a, strtoull(t[1], NULL, 10)); show(a); }
        else if (!strcmp(t[0], "push") && n == 2) { src = vp_hex(t[1], &sl); a = gp_arr_push(es, a, src); show(a); }
        else if (!strcmp(t[0], "pop") && n == 1) { void* e = gp_arr_pop(es, a); vp_puthex(e, es); fputs(" ", stdout); show(a); }
        else if (!strcmp(t[0], "append") && n == 2) { src = vp_hex(t[1], &sl); a = gp_arr_append(es, a, src, sl / es); show(a); }
        else if (!strcmp(t[0], "insert") && n == 3) { src = vp_hex(t[2], &sl); a = gp_arr_insert(es, a, strtoull(t[1], NULL, 10), src, sl / es); show(a); }
        else if (!strcmp(t[0], "erase") && n == 3) { a = gp_arr_erase(es, a, strtoull(t[1], NULL, 10), strtoull(t[2], NULL, 10)); show(a); }
        else if (!strcmp(t[0], "copy") && n == 2) { src = vp_hex(t[1], &sl); a = gp_arr_copy(es, a, src, sl / es); show(a); }
        else if (!strcmp(t[0], "slice") && n == 3) { a = gp_arr_slice(es, a, NULL, strtoull(t[1], NULL, 10), strtoull(t[2], NULL, 10)); show(a); }
        else if (!strcmp(t[0], "slicefrom") && n == 4) { src = vp_hex(t[1], &sl); a = gp_arr_slice(es, a, src, strtoull(t[2], NULL, 10), strtoull(t[3], NULL, 10)); show(a); }
        else if (!strcmp(t[0], "map") && n == 1) { a = gp_arr_map(es, a, NULL, 0, fmap); show(a); }
        else if (!strcmp(t[0], "mapfrom") && n == 2) { src = vp_hex(t[1], &sl); a = gp_arr_map(es, a, src, sl / es, fmap); show(a); }
        else if (!strcmp(t[0], "filter") && n == 1) { a = gp_arr_filter(es, a, NULL, 0, fpred); show(a); }
        else if (!strcmp(t[0], "filterfrom") && n == 2) { src = vp_hex(t[1], &sl); a = gp_arr_filter(es, a, src, sl / es, fpred); show(a); }
        else if (!strcmp(t[0], "fold") && n == 1) {
            printf("%" PRIu64 " %" PRIu64 "\n", (uint64_t)(uintptr_t)gp_arr_fold(es, a, (void*)(uintptr_t)7, ffold), (uint64_t)(uintptr_t)gp_arr_foldr(es, a, (void*)(uintptr_t)7, ffold));
        } else if (!strcmp(t[0], "delete") && n == 1) {
            if (kind >= 4 && before != (void*)((GPArrayHeader*)stackmem + 1) && gp_arr_allocation(a) == NULL) fputs("STACK-ARRAY-LOST ", stdout);
            gp_arr_delete(a); a = NULL;
            if (kind == 1 || kind == 2) gp_arena_delete(&arena);
            if (kind == 3) gp_end(scope);
            if (kind >= 4) free(stackmem);
            fputs("ok", stdout);
            if (th_bad_free) printf(" BAD-FREE:%zu", th_bad_free);
            if (kind != 3 && th_live()) printf(" LEAK:%zu", th_live());
            if (kind >= 4 && moved > 1) printf(" MOVED-FROM-STACK:%zu", moved);
            puts(""); neighbour = NULL;
        } else if (!strcmp(t[0], "end")) { puts("end"); fflush(stdout); }
        else puts("bad-op");
        if (kind >= 4 && a && before == (void*)((GPArrayHeader*)stackmem + 1) && a != before) moved++;
        free(src);
        (void)frees_at_new;
    }
    return 0;
}
