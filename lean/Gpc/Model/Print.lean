import Gpc.Model.Printf
/-
Model of the type-directed print family (src/common.c gp_convert_va_arg / gp_bytes_print_objects,
src/bytes.c, src/string.c and src/io.c front ends): every object is rendered at `out + length` with
the limit `n >= length ? n - length : 0`, which is the room left in the bounded string.
-/
namespace Gpc.Printf
open Gpc.PF (PF)

/-- an argument of a print call: the GPType letter of the harness protocol and the value passed -/
structure Obj where
  kind : Char
  val : Arg
deriving Repr

/-- `pf_str_reverse_copy` at the current position: digits clipped to the room left, terminator if it fits -/
def writeRev (p : PF) (ds : Bytes) : Option PF := do
  let d ← PF.reverseCopy p.data p.length ds (PF.capLeft p)
  pure { data := d, length := p.length + ds.length }

/-- `pf_itoa(limit, out, v)` -/
def writeItoa (p : PF) (v : Int) : Option PF := do
  let p ← if v < 0 then PF.push p 45 else some p
  writeRev p (PF.digits 10 false v.natAbs)

/-- the default `%g` of `pf_gtoa` -/
def gSpec : Spec := { conv := 'g' }

/-- `gp_count_fmt_specs`: the number of arguments a format string consumes -/
def countFmtSpecs : Bytes → Nat → Nat
  | _, 0 => 0
  | [], _ => 0
  | 37 :: 37 :: r, fuel + 1 => countFmtSpecs r fuel
  | 37 :: r, fuel + 1 =>
    -- up to the first conversion character: every '*' is one more argument
    let isConv (b : UInt8) : Bool := [99, 115, 83, 100, 105, 111, 120, 88, 117, 102, 70, 101, 69, 103, 71, 112].contains b
    let pre := r.takeWhile (fun b => !isConv b)
    (pre.filter (· = 42)).length + 1 + countFmtSpecs r fuel
  | _ :: r, fuel + 1 => countFmtSpecs r fuel

/-- an embedded format string: `pf_vsnprintf_consuming(out + length, limit, fmt, args)` on the window -/
def writeFormat (p : PF) (fmt : Bytes) (args : List Arg) : Option (Option PF) :=
  let k := min p.length p.cap
  let window : PF := { data := p.data.drop k, length := 0 }
  match vsnprintf (fmt.length + 1) window fmt args with
  | none => none
  | some none => some none
  | some (some w) =>
    match finish w with
    | none => none
    | some w => some (some { data := p.data.take k ++ w.data, length := p.length + w.length })

/-- the GPType classes that are rendered alike -/
inductive Kind where
  | chr | u32 | u64 | bool | i32 | i64 | dbl | cstr | gstr | ptr
deriving Repr, DecidableEq

/-- protocol letter to GPType class (`F`, a format string, is handled by the caller) -/
def kindOf (c : Char) : Option Kind :=
  if c = 'c' ∨ c = 'a' ∨ c = 'A' then some .chr
  else if c = 'H' ∨ c = 'I' then some .u32
  else if c = 'L' ∨ c = 'Q' then some .u64
  else if c = 'b' then some .bool
  else if c = 'h' ∨ c = 'i' then some .i32
  else if c = 'l' ∨ c = 'q' then some .i64
  else if c = 'f' ∨ c = 'd' then some .dbl
  else if c = 't' then some .cstr
  else if c = 'g' then some .gstr
  else if c = 'p' then some .ptr
  else none

/-- `gp_convert_va_arg(limit, out + length, args, type)`; `some none` = the value does not fit the type -/
def printVal (p : PF) : Kind → Arg → Option (Option PF)
  | .chr, .int raw => (PF.push p (UInt8.ofNat (raw % 256))).map some
  | .u32, .int raw => (PF.writeUInt p 10 false none (raw % 2 ^ 32)).map some
  | .u64, .int raw => (PF.writeUInt p 10 false none (raw % 2 ^ 64)).map some
  | .bool, .int raw => (PF.concat p (if raw % 2 ^ 32 ≠ 0 then [116, 114, 117, 101] else [102, 97, 108, 115, 101])).map some
  | .i32, .int raw => (writeItoa p (signedArg .none raw)).map some
  | .i64, .int raw => (writeItoa p (signedArg .ll raw)).map some
  | .dbl, .dbl bits => (PF.writeFloat p (floatPlan gSpec bits).1).map some
  | .cstr, .str s => (PF.concat p (cstrlen s)).map some
  | .gstr, .str s => (PF.concat p s).map some
  | .ptr, .int raw =>
    if raw % 2 ^ 64 ≠ 0 then ((PF.concat p [48, 120]).bind fun p => PF.writeUInt p 16 false none (raw % 2 ^ 64)).map some
    else (PF.concat p [40, 110, 105, 108, 41]).map some
  | _, _ => some none

def printObj (p : PF) (o : Obj) : Option (Option PF) :=
  match kindOf o.kind with
  | some k => printVal p k o.val
  | none => some none

/-- the text of one value: `%g`, decimal integers, true/false, verbatim characters and strings -/
def valText : Kind → Arg → Option Bytes
  | .chr, .int raw => some [UInt8.ofNat (raw % 256)]
  | .u32, .int raw => some (natDigits 10 false (raw % 2 ^ 32))
  | .u64, .int raw => some (natDigits 10 false (raw % 2 ^ 64))
  | .bool, .int raw => some (if raw % 2 ^ 32 ≠ 0 then [116, 114, 117, 101] else [102, 97, 108, 115, 101])
  | .i32, .int raw => some (fmtSigned { conv := 'd' } raw)
  | .i64, .int raw => some (fmtSigned { conv := 'd', len := .ll } raw)
  | .dbl, .dbl bits => some (fmtFloat gSpec bits)
  | .cstr, .str s => some (cstrlen s)
  | .gstr, .str s => some s
  | .ptr, .int raw => some (if raw % 2 ^ 64 ≠ 0 then [48, 120] ++ natDigits 16 false (raw % 2 ^ 64) else [40, 110, 105, 108, 41])
  | _, _ => none

def objText (o : Obj) : Option Bytes := (kindOf o.kind).bind fun k => valText k o.val

/-- `gp_max_digits_in` / `gp_str_print_object_size` by GPType class (int-sized and long-long-sized integers) -/
def valEstimate : Kind → Arg → Nat
  | .chr, _ => 1
  | .bool, _ => 5
  | .cstr, .str s => (cstrlen s).length
  | .gstr, .str s => s.length
  | .dbl, _ => 15
  | .ptr, _ => 18
  | .u32, _ | .i32, _ => 4 * 18 / 8 + 2
  | .u64, _ | .i64, _ => 8 * 18 / 8 + 2
  | _, _ => 0

/-- the room `gp_str_print` reserves for an object (short types get less) -/
def sizeEstimate (o : Obj) : Nat :=
  if o.kind = 'h' ∨ o.kind = 'H' then 2 * 18 / 8 + 2
  else match kindOf o.kind with
    | some k => valEstimate k o.val
    | none => 0

/-- how many of the following objects are arguments of the format string `fmt` -/
def splitFmtArgs (fmt : Bytes) (rest : List Obj) : List Arg × List Obj :=
  let k := countFmtSpecs fmt (fmt.length + 1)
  ((rest.take k).map (·.val), rest.drop k)

/-- `gp_bytes_print_internal` / `gp_bytes_println_internal` loop.  `sep`: println's space after each object.
`none` = out of bounds, `some none` = rejected input -/
def printObjs (fuel : Nat) (p : PF) (objs : List Obj) (sep : Bool) : Option (Option PF) :=
  match fuel, objs with
  | 0, _ => some none
  | _, [] => some (some p)
  | fuel + 1, o :: rest =>
    let step : Option (Option (PF × List Obj)) :=
      if o.kind = 'F' then
        match o.val with
        | .str fmt =>
          match writeFormat p (cstrlen fmt) (splitFmtArgs fmt rest).1 with
          | none => none
          | some none => some none
          | some (some p) => some (some (p, (splitFmtArgs fmt rest).2))
        | _ => some none
      else
        match printObj p o with
        | none => none
        | some none => some none
        | some (some p) => some (some (p, rest))
    match step with
    | none => none
    | some none => some none
    | some (some (p, rest)) =>
      let p' : Option PF := if sep ∧ p.length < p.cap then PF.push p 32 else some p
      match p' with
      | none => none
      | some p => printObjs fuel p rest sep

/-- println's last step: the last space becomes the newline when it was written -/
def printlnEnd (p : PF) : Option PF :=
  if p.cap > p.length - (if p.length = 0 then 0 else 1) then
    (if p.length = 0 then none            -- out[-1]
     else do
       let d ← PF.wr p.data (p.length - 1) [10]
       pure { p with data := d })
  else some p

/-- the unbounded text of a print call -/
def printText (fuel : Nat) (objs : List Obj) (ln : Bool) : Option Bytes :=
  match fuel, objs with
  | 0, _ => none
  | _, [] => some []
  | fuel + 1, o :: rest =>
    let one : Option (Bytes × List Obj) :=
      if o.kind = 'F' then
        match o.val with
        | .str fmt =>
          (specFormat ((cstrlen fmt).length + 1) (cstrlen fmt) (splitFmtArgs fmt rest).1).map fun t => (t, (splitFmtArgs fmt rest).2)
        | _ => none
      else (objText o).map fun t => (t, rest)
    match one with
    | none => none
    | some (t, rest) =>
      (printText fuel rest ln).map fun tail =>
        t ++ (if ln then (if rest.isEmpty then [10] else [32]) else []) ++ tail

end Gpc.Printf
