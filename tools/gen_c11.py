#!/usr/bin/env python3
"""C11 table generation.
  gen_c11.py ucd   : (run once, result committed) Gpc/Ucd/Case.lean from tools/ucd/ucd14.txt
  (imported)       : write_generated(extract_output) regenerates Gpc/Generated/CaseTables.lean from the
                     output of harness/c11_extract (the freshly compiled implementation, all code points)
"""
import collections
import os
import sys

sys.path.insert(0, os.path.dirname(os.path.abspath(__file__)))
import casetables as ct

ROOT = os.path.dirname(os.path.dirname(os.path.abspath(__file__)))
LEAN = os.path.join(ROOT, "lean", "Gpc")


def load_ucd():
    t = collections.defaultdict(dict)
    for l in open(os.path.join(ROOT, "tools", "ucd", "ucd14.txt")):
        p = l.split()
        if p and p[0].startswith("Simple_"):
            t[p[0]][int(p[1], 16)] = int(p[2], 16)
    return t


def fold_classes_from_scf(scf):
    by = collections.defaultdict(set)
    for c, f in scf.items():
        by[f].add(c)
        by[f].add(f)
    return sorted(sorted(v) for v in by.values())


def fold_classes_from_orbit(F):
    seen, out = set(), []
    for c in sorted(F):
        if c in seen:
            continue
        o, x = [c], F[c]
        while x != c and len(o) < 8:
            o.append(x)
            x = F.get(x, x)
        seen |= set(o)
        out.append(sorted(o))
    return sorted(out)


def write_if_changed(path, text):
    if os.path.exists(path) and open(path).read() == text:
        return False
    os.makedirs(os.path.dirname(path), exist_ok=True)
    open(path, "w").write(text)
    return True


def gen_ucd():
    t = load_ucd()
    hdr = ("/-\nVendored from the Unicode Character Database as shipped with perl 5.36 (Unicode 14.0.0) via\n"
           "tools/ucd/dump_ucd.pl -> tools/ucd/ucd14.txt -> tools/gen_c11.py ucd; cross-checked against CPython 3.13\n"
           "unicodedata 15.1.0 (str.upper/lower/title/casefold agree on every single-code-point result).\n"
           "Simple_Uppercase/Lowercase/Titlecase_Mapping, Simple_Case_Folding (status C+S) and its classes.\n-/\n"
           "import Gpc.Model.CaseTable\nnamespace Gpc.Ucd\nopen Gpc.CaseTable\n\n")
    body = []
    for name, key in (("upper", "Simple_Uppercase_Mapping"), ("lower", "Simple_Lowercase_Mapping"),
                      ("title", "Simple_Titlecase_Mapping"), ("scf", "Simple_Case_Folding")):
        body.append(ct.lean_table(name, ct.runs(t[key])))
    classes = fold_classes_from_scf(t["Simple_Case_Folding"])
    body.append(ct.lean_classes("foldClasses", classes))
    body.append(ct.lean_tree("scfT", ct.runs(t["Simple_Case_Folding"])))
    body.append(ct.lean_ctree("classOfT", sorted((c, cl) for cl in classes for c in cl)))
    write_if_changed(os.path.join(LEAN, "Ucd", "Case.lean"), hdr + "\n\n".join(body) + "\n\nend Gpc.Ucd\n")


def parse_extract(out):
    impl = collections.defaultdict(dict)
    for l in out.split("\n"):
        p = l.split()
        if len(p) == 3:
            impl[p[0]][int(p[1], 16)] = int(p[2], 16)
    return impl


def write_generated(out):
    impl = parse_extract(out)
    hdr = ("/-\nREGENERATED ON EVERY RUN from /repo's working tree: gp_u32_to_upper/lower/title and gp_u32_simple_fold\n"
           "executed over all 0x110000 code points (harness/c11_extract.c), as canonical range tables.\n-/\n"
           "import Gpc.Model.CaseTable\nnamespace Gpc.Generated\nopen Gpc.CaseTable\n\n")
    body = []
    for name, key in (("implUpper", "U"), ("implLower", "L"), ("implTitle", "T"), ("implFold", "F")):
        body.append(ct.lean_table(name, ct.runs(impl[key])))
    body.append(ct.lean_classes("implOrbits", fold_classes_from_orbit(impl["F"])))
    body.append(ct.lean_tree("implFoldT", ct.runs(impl["F"])))
    changed = write_if_changed(os.path.join(LEAN, "Generated", "CaseTables.lean"), hdr + "\n\n".join(body) + "\n\nend Gpc.Generated\n")
    return impl, changed


if __name__ == "__main__":
    if len(sys.argv) > 1 and sys.argv[1] == "ucd":
        gen_ucd()
