import Gpc.Model.Proto
import Gpc.Model.Generic
namespace Gpc.Driver
open Gpc.Proto Gpc.Generic

def gmInts (s : String) : Option (List Int) :=
  if s == "-" then some [] else (s.splitOn ",").mapM String.toInt?

def gmHexList (s : String) : Option (List (List UInt8)) :=
  if s == "-" then some [] else (s.splitOn ",").mapM parseHex

/-- kind prefix and element size of a token head such as `DA24`, `V8`, `L` -/
def gmHead (h : String) : String × Nat :=
  let cs := h.toList
  let k := cs.takeWhile (fun c => !c.isDigit)
  let d := cs.dropWhile (fun c => !c.isDigit)
  (String.ofList k, (String.ofList d).toNat?.getD 0)

def gmArg (tok : String) : Option Arg :=
  match tok.splitOn ":" with
  | [] => none
  | h :: ps =>
    let (k, es) := gmHead h
    match k, ps with
    | "H", [] => some (.alc false)
    | "R", [] => some (.alc true)
    | "I", [] => some .idx
    | "O", [] => some .opn
    | "RV", [] => some .rv
    | "D", [c, x] => do let c ← c.toNat?; let b ← parseHex x; pure (.dstr c b)
    | "L", [x] => (parseHex x).map fun b => .str (.lit b)
    | "P", [x] => (parseHex x).map fun b => .str (.cptr b)
    | "Q", [x] => (parseHex x).map fun b => .str (.cptr b)
    | "G", [x] => (parseHex x).map fun b => .str (.gstr b)
    | "B", [x, n] => do let b ← parseHex x; let n ← n.toNat?; pure (.str (.buf b n))
    | "N", [n] => n.toNat?.map .num
    | "C", [x] => (parseHex x).map .cs
    | "K", [x] => (parseHex x).map .cs
    | "F", [f] => some (.flags (if f == "-" then [] else f.toList))
    | "DA", [c, v] => do let c ← c.toNat?; let v ← gmInts v; pure (.darr es c v)
    | "A", [v] => (gmInts v).map fun v => .arr es (.garr v)
    | "V", [v, n] => do let v ← gmInts v; let n ← n.toNat?; pure (.arr es (.ptr v n))
    | "U", [v] => (gmInts v).map fun v => .arr es (.uptr v)
    | "E", [v] => v.toInt?.map fun v => .elem es v
    | "M", [f] => some (.fn f)
    | "AS", [l] => (gmHexList l).map .strs
    | "DAS", [l] => (gmHexList l).map .dstrs
    | "TY", [] => some (.ty es)
    | "X", [v] => (gmInts v).map fun v => .xs es v
    | "W", [x] => (parseHex x).map .file
    | "OP", [o] => some (.op o)
    | _, _ => none

partial def gmShow : Val → String
  | .s b => "s:" ++ toHex b
  | .a vs => "a:" ++ (if vs.isEmpty then "-" else ",".intercalate (vs.map toString))
  | .n none => "n:nf"
  | .n (some k) => s!"n:{k}"
  | .z k => s!"n:{k}"
  | .b v => if v then "b:1" else "b:0"
  | .i v => s!"i:{v}"
  | .l ss => "l:" ++ (if ss.isEmpty then "-" else ",".intercalate (ss.map toHex))
  | .raw t => t
  | .pair x y => gmShow x ++ "/" ++ gmShow y

def gmShowOpt : Option Val → String
  | none => "rejected"
  | some v => gmShow v

/-- `gm <macro> <argument tokens>`: the function form's result; a note if a configuration's macro form differs -/
def gmStep (toks : List String) : String :=
  match toks with
  | mac :: rest =>
    match rest.mapM gmArg with
    | none => "bad-op"
    | some args =>
      let e := evalExplicit mac args
      let m11 := evalMacro .c11 mac args
      let m99 := evalMacro .c99 mac args
      let c99ok := args.all (Arg.wf .c99)
      gmShowOpt e ++ (if m11 == e then "" else " c11=" ++ gmShowOpt m11)
               ++ (if m99 == e || !c99ok then "" else " c99=" ++ gmShowOpt m99)
  | _ => "bad-op"

end Gpc.Driver
