/* C16 driver: piecewise file reads, whole-file read / write / append, I/O faults.
 *   fio lines <cap> <hexfile>             gp_file_read_line until it returns false     -> "seg,seg,..." | "none"
 *   fio until <cap> <hexdelim> <hexfile>  gp_file_read_until                              (same)
 *   fio strip <cap> <hexset|NULL> <hexfile>  gp_file_read_strip                           (same)
 *   fio rw <hexA> <hexB>                  gp_str_file: write A, read back, append B, read back -> "w=0 r=0 <hex> a=0 r=0 <hex>"
 *   fio fault <kind>                      short / long write to /dev/full, read of a missing file, of a directory,
 *                                         write into a missing directory -> "rc=<return value>"
 * The destination string starts with the given capacity (heap), so that growth happens at different points. */
#ifndef _GNU_SOURCE
#define _GNU_SOURCE 1
#endif
#include <gpc/io.h>
#include <gpc/string.h>
#include <gpc/memory.h>
#include <unistd.h>
#include <sys/stat.h>
#include "proto.h"

static char dir[64];
static char path[128];

/* "size changing between stat and read": the library's stat() of `path` is followed by a truncation to shrink_to bytes */
#include <dlfcn.h>
static long shrink_to = -1;
static void after_stat(const char* p)
{
    if (shrink_to >= 0 && !strcmp(p, path)) { if (truncate(path, shrink_to)) {} shrink_to = -1; }
}
int stat(const char* p, struct stat* st)
{
    static int (*real)(const char*, struct stat*);
    if (!real) real = (int (*)(const char*, struct stat*))dlsym(RTLD_NEXT, "stat");
    int r = real(p, st); if (r == 0) after_stat(p); return r;
}
int stat64(const char* p, struct stat64* st)
{
    static int (*real)(const char*, struct stat64*);
    if (!real) real = (int (*)(const char*, struct stat64*))dlsym(RTLD_NEXT, "stat64");
    int r = real(p, st); if (r == 0) after_stat(p); return r;
}

static void write_file(const uint8_t* b, size_t n)
{
    FILE* f = fopen(path, "wb"); fwrite(b, 1, n, f); fclose(f);
}

int main(void)
{
    setvbuf(stdout, NULL, _IOLBF, 0);
    strcpy(dir, "/tmp/gpc_c16_XXXXXX");
    if (!mkdtemp(dir)) { perror("mkdtemp"); return 2; }
    snprintf(path, sizeof path, "%s/f", dir);
    while (vp_next()) {
        if (vp_ntok < 2 || strcmp(vp_tok[0], "fio") != 0) { puts("bad-op"); continue; }
        char** t = vp_tok + 1; int n = vp_ntok - 1;
        if ((!strcmp(t[0], "lines") && n == 3) || (!strcmp(t[0], "until") && n == 4) || (!strcmp(t[0], "strip") && n == 4)) {
            size_t cap = strtoull(t[1], NULL, 10), fl, al = 0;
            uint8_t* fb = vp_hex(t[n - 1], &fl);
            char* arg = NULL;
            if (n == 4 && strcmp(t[2], "NULL")) { uint8_t* a = vp_hex(t[2], &al); arg = malloc(al + 1); memcpy(arg, a, al); arg[al] = 0; free(a); }
            write_file(fb, fl); free(fb);
            FILE* f = gp_file_open(path, "r");
            GPString s = gp_str_new(gp_heap, cap, "");
            int k = 0;
            while (k < 100000) {
                bool ok = t[0][0] == 'l' ? gp_file_read_line(&s, f) : t[0][0] == 'u' ? gp_file_read_until(&s, f, arg) : gp_file_read_strip(&s, f, arg);
                if (!ok) break;
                if (k++) putchar(',');
                vp_puthex(gp_cstr(s), gp_str_length(s));
            }
            if (k == 0) fputs("none", stdout);
            puts("");
            gp_str_delete(s); gp_file_close(f); free(arg);
        } else if (!strcmp(t[0], "rw") && n == 3) {
            size_t al, bl; uint8_t* a = vp_hex(t[1], &al); uint8_t* b = vp_hex(t[2], &bl);
            GPString s = gp_str_new(gp_heap, 4, ""); gp_str_copy(&s, a, al);
            GPString r = gp_str_new(gp_heap, 1, "");
            unlink(path);
            /* the destination of a read holds something already: reading replaces it, whatever the file's size */
            gp_str_copy(&r, "stale destination contents", 26);
            int w = gp_str_file(&s, path, "write"); int rr = gp_str_file(&r, path, "read");
            printf("w=%d r=%d ", w, rr); vp_puthex(r, gp_str_length(r));
            gp_str_copy(&s, b, bl);
            gp_str_copy(&r, "stale destination contents, longer than before", 46);
            int ap = gp_str_file(&s, path, "append"); rr = gp_str_file(&r, path, "read");
            printf(" a=%d r=%d ", ap, rr); vp_puthex(r, gp_str_length(r)); puts("");
            gp_str_delete(s); gp_str_delete(r); free(a); free(b);
        } else if (!strcmp(t[0], "fault") && n == 2) {
            GPString s = gp_str_new(gp_heap, 8, "");
            int rc = 99;
            if (!strcmp(t[1], "full-short") || !strcmp(t[1], "full-long")) {
                size_t len = t[1][5] == 's' ? 10 : 200000;
                gp_str_reserve(&s, len); memset(s, 'x', len); ((GPStringHeader*)s - 1)->length = len;
                rc = gp_str_file(&s, "/dev/full", "write");
            } else if (!strcmp(t[1], "missing")) {
                char p2[160]; snprintf(p2, sizeof p2, "%s/does-not-exist", dir); rc = gp_str_file(&s, p2, "read");
            } else if (!strcmp(t[1], "dir")) {
                rc = gp_str_file(&s, dir, "read");
            } else if (!strncmp(t[1], "shrunk-", 7)) {
                /* shrunk-<from>-<to>: the file holds <from> bytes when its size is sampled and <to> bytes when it is read */
                long from = 0, to = 0; sscanf(t[1] + 7, "%ld-%ld", &from, &to);
                uint8_t* b = malloc(from + 1); memset(b, 'y', from); write_file(b, from); free(b);
                shrink_to = to;
                rc = gp_str_file(&s, path, "read");
                if (shrink_to >= 0) { rc = 98; shrink_to = -1; }      /* the size was never sampled through stat */
                else if (rc == 0) { printf("rc=0 len=%zu\n", gp_str_length(s)); gp_str_delete(s); continue; }
            } else if (!strcmp(t[1], "wdir")) {
                char p2[160]; snprintf(p2, sizeof p2, "%s/no-such-dir/f", dir); rc = gp_str_file(&s, p2, "write");
            }
            printf("rc=%d\n", rc);
            gp_str_delete(s);
        } else puts("bad-op");
    }
    unlink(path); rmdir(dir);
    return 0;
}
