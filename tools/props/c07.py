"""C07 — UTF-8/16/32/wide conversions are the standard encoding forms and round-trip."""
import vlib

P61 = 2305843009213693951


def nats(s):
    return [] if s == "-" else [int(x) for x in s.split(",")]


def u16units(cps):
    out = []
    for c in cps:
        b = chr(c).encode("utf-16-le")
        out += [int.from_bytes(b[i:i + 2], "little") for i in range(0, len(b), 2)]
    return out


def oracle(case, out):
    t = case[0].split()
    op, o = t[1], out[0]
    b = lambda s: b"" if s == "-" else bytes.fromhex(s)
    if "disagree" in o or "no-terminator" in o:
        return "conversion depends on the kind of source / lacks terminator: " + o
    if op == "enc":
        c = int(t[2])
        if 0xD800 <= c <= 0xDFFF:
            return None
        if b(o) != chr(c).encode("utf-8"):
            return "utf8 of U+%04X = %s" % (c, o)
    elif op == "dec":
        s = b(t[2])
        try:
            ch = s.decode("utf-8")
        except UnicodeDecodeError:
            return None
        if o != "%d %d" % (ord(ch[0]), len(ch[0].encode("utf-8"))):
            return "decode(%s) = %s" % (t[2], o)
    elif op in ("sweep8", "sweep16"):
        lo, hi = int(t[2]), int(t[3])
        acc = 0
        for c in range(lo, hi):
            if 0xD800 <= c <= 0xDFFF:
                continue
            if op == "sweep8":
                for x in chr(c).encode("utf-8"):
                    acc = (acc * 31 + x + 1) % P61
            else:
                for x in u16units([c]):
                    acc = (acc * 31 + x + 1) % P61
        if o != "%d 0" % acc:
            return "%s [%#x,%#x): checksum/round-trip failures %s, expected '%d 0'" % (op, lo, hi, o, acc)
    elif op in ("to32", "towcs"):
        s = b(t[3])
        want = [ord(ch) for ch in s.decode("utf-8")]
        got = nats(o.split()[0])
        if got != want:
            return "%s(cap %s, %s) = %s, expected %s" % (op, t[2], t[3], o, want)
    elif op in ("to8", "fromwcs"):
        cps = nats(t[3])
        want = "".join(chr(c) for c in cps).encode("utf-8")
        if b(o) != want:
            return "%s(cap %s, %s) = %s, expected %s" % (op, t[2], t[3], o, vlib.hexs(want))
    elif op == "to16":
        s = b(t[3])
        want = u16units([ord(ch) for ch in s.decode("utf-8")])
        if nats(o) != want:
            return "to_utf16(cap %s, %s) = %s, expected %s" % (t[2], t[3], o, want)
    elif op == "from16":
        us = nats(t[3])
        raw = b"".join(u.to_bytes(2, "little") for u in us)
        want = raw.decode("utf-16-le").encode("utf-8")
        if b(o) != want:
            return "from_utf16(cap %s, %s) = %s, expected %s" % (t[2], t[3], o, vlib.hexs(want))
    return None


def rand_cps(r, n):
    out = []
    for _ in range(n):
        k = r.random()
        if k < 0.3: c = r.randrange(0, 0x80)
        elif k < 0.5: c = r.randrange(0x80, 0x800)
        elif k < 0.7: c = r.choice([0x800, 0xFFFF, 0xD7FF, 0xE000, r.randrange(0x800, 0xD800), r.randrange(0xE000, 0x10000)])
        else: c = r.choice([0x10000, 0x1FFFF, 0x20000, 0x2F800, 0xE0001, 0xFFFFF, 0x100000, 0x10FFFF, r.randrange(0x10000, 0x110000)])
        out.append(c)
    return out


def gen(ctx):
    r = ctx.rng
    quick = ctx.tier == "quick"
    cases = []
    add = lambda s: cases.append(["utf " + s])
    # exhaustive over all 1,112,064 scalar values (single code point encode/decode, UTF-16 both ways)
    step = 0x4000
    for lo in range(0, 0x110000, step):
        add("sweep8 %d %d" % (lo, lo + step))
        add("sweep16 %d %d" % (lo, lo + step))
    for c in [0, 0x7F, 0x80, 0x7FF, 0x800, 0xFFFF, 0x10000, 0x1FFFF, 0x20000, 0x10FFFF]:
        add("enc %d" % c)
        add("dec %s" % vlib.hexs(chr(c).encode("utf-8")))
    # strings of 0..40 code points x destination capacities 0..needed+4
    for _ in range(250 if quick else 6000):
        cps = rand_cps(r, r.randrange(0, 41) if r.random() < 0.9 else r.randrange(100, 400))
        u8 = "".join(chr(c) for c in cps).encode("utf-8")
        caps32 = sorted(set([0, 1, len(cps), len(cps) + 4] + [r.randrange(0, len(cps) + 5) for _ in range(3)]))
        for cap in caps32:
            add("to32 %d %s" % (cap, vlib.hexs(u8)))
        add("towcs %d %s" % (r.choice(caps32), vlib.hexs(u8)))
        caps8 = sorted(set([0, 1, 2, 3, len(u8) - 1, len(u8), len(u8) + 4] + [r.randrange(0, len(u8) + 5) for _ in range(4)]))
        lst = ",".join(map(str, cps)) or "-"
        for cap in caps8:
            if cap >= 0:
                add("to8 %d %s" % (cap, lst))
        add("fromwcs %d %s" % (max(0, r.choice(caps8)), lst))
        us = u16units(cps)
        for cap in sorted(set([0, 1, len(us) - 1, len(us), len(us) + 4, r.randrange(0, len(us) + 5)])):
            if cap >= 0:
                add("to16 %d %s" % (cap, vlib.hexs(u8)))
        ul = ",".join(map(str, us)) or "-"
        for cap in sorted(set([0, 1, len(u8) - 1, len(u8), len(u8) + 4, r.randrange(0, len(u8) + 5)])):
            if cap >= 0:
                add("from16 %d %s" % (cap, ul))
    return cases


def run(ctx):
    ctx.rules.append("sweeps: every Unicode scalar value (1,112,064) through single code point encode/decode and "
                     "through UTF-16 both ways (checksummed in 68 ranges); strings of 0..40 (some to 400) code points from "
                     "all planes x destination capacities 0..needed+4, sources as plain exact-size buffers and as "
                     "GPString/GPArray; non-trivial = non-empty input; distinct by case text")
    ctx.assumptions += ["input is valid UTF-8 / valid UTF-16 / scalar values (documented precondition)",
                        "wchar_t is 32 bit on this platform (the UTF-32 path of the wide functions is the one compiled)"]
    exe = ctx.build_harness("c07")
    ctx.build_model()
    ctx.prove()
    cases = ctx.replay_cases if ctx.replay_cases is not None else (vlib.load_corpus("C07") + gen(ctx))
    ctx.extra_cov["scalars_covered_exhaustively"] = 1112064
    ctx.correspond("utf-conversions", exe, cases, oracle=oracle, nontrivial=lambda c: c[0].split()[-1] != "-")
