import Gpc.Proofs.Printf
import Gpc.Proofs.Print
/-!
# C10 — bounded formatting never writes past its limit and reports the full length

`PF.*` are the checked-write models of the helpers of src/pfstring.h, src/printf.c and
src/conversions.c: an operation answers `none` exactly when it would write outside the
destination.  `Agrees p full` says: the destination holds the first `capacity` bytes of the
unbounded output `full`, and `length` is the unbounded length.
-/
namespace Gpc.Printf
open Gpc.PF (PF Agrees)

/-- what `Agrees` means for the bytes one can observe -/
theorem agrees_take (p : PF) (full : Bytes) (h : Agrees p full) :
    p.length = full.length ∧ p.data.take (min full.length p.cap) = full.take p.cap := by
  refine ⟨h.1, ?_⟩
  apply List.ext_getElem?
  intro i
  simp only [List.getElem?_take]
  by_cases hi : i < min full.length p.cap
  · rw [if_pos hi, if_pos (by omega)]; exact h.2 i (by omega) (by omega)
  · rw [if_neg hi]
    by_cases hc : i < p.cap
    · rw [if_pos hc]; symm; exact List.getElem?_eq_none (by omega)
    · rw [if_neg hc]

/-- **C10, helpers.**  Every helper of the bounded string writes inside the destination (it never
answers `none`), keeps the capacity, and leaves a prefix of the unbounded result — for every
length, capacity and argument. -/
theorem helpers_in_bounds (p : PF) (full : Bytes) (h : Agrees p full) :
    (∀ src, ∃ p', PF.concat p src = some p' ∧ p'.cap = p.cap ∧ Agrees p' (full ++ src)) ∧
    (∀ c n, ∃ p', PF.pad p c n = some p' ∧ p'.cap = p.cap ∧ Agrees p' (full ++ List.replicate n c)) ∧
    (∀ c, ∃ p', PF.push p c = some p' ∧ p'.cap = p.cap ∧ Agrees p' (full ++ [c])) ∧
    (∀ i c n, i ≤ full.length → ∃ p', PF.insertPad p i c n = some p' ∧ p'.cap = p.cap ∧
      Agrees p' (full.take i ++ List.replicate n c ++ full.drop i)) ∧
    (∀ base upper prec x, ∃ p', PF.writeUInt p base upper prec x = some p' ∧ p'.cap = p.cap ∧
      Agrees p' (full ++ List.replicate (PF.zeroFill prec (PF.digits base upper x).length) 48 ++ PF.digits base upper x)) ∧
    (∀ prec x, ∃ p', PF.writeOctAlt p prec x = some p' ∧ p'.cap = p.cap ∧
      Agrees p' (full ++ [48] ++ List.replicate (PF.zeroFill prec (1 + (PF.digits 8 false x).length)) 48 ++ PF.digits 8 false x)) :=
  ⟨fun src => PF.concat_ok p full src h, fun c n => PF.pad_ok p full c n h, fun c => PF.push_ok p full c h,
   fun i c n hi => PF.insertPad_ok p full i c n h hi, fun base upper prec x => PF.writeUInt_ok p full base upper prec x h,
   fun prec x => PF.writeOctAlt_ok p full prec x h⟩

/-- **C10, floating point.**  Whatever digits the converter found — for *every* plan of output steps
(`pf_push_char`, `pf_pad`, `pf_concat`, `pf_append_utoa / _nine_digits / _c_digits / _d_digits`) —
writing them into the room that is left stays inside the destination and leaves a prefix of the
unbounded text. -/
theorem float_emit_in_bounds (p : PF) (full : Bytes) (plan : List PF.Emit) (h : Agrees p full) :
    ∃ p', PF.writeFloat p plan = some p' ∧ p'.cap = p.cap ∧ Agrees p' (full ++ PF.planText plan) :=
  PF.writeFloat_ok p full plan h

/-- **C10, `pf_snprintf`.**  For every format and argument list whose text `out` is defined, and every
limit `n` (0 included), on any destination of `n` bytes: no write leaves the destination, the value
returned is the length of the complete output, and the bytes written are the first `min(|out|, n)`
bytes of it; writing the terminator (only when it fits) does not change them. -/
theorem bounded_prefix (fmt : Bytes) (args : List Arg) (out dest : Bytes)
    (hg : genFormat (convText floatModelText) (fmt.length + 1) fmt args = some out) :
    ∃ p, vsnprintf (fmt.length + 1) { data := dest, length := 0 } fmt args = some (some p) ∧
      p.data.length = dest.length ∧ p.length = out.length ∧
      p.data.take (min out.length dest.length) = out.take dest.length ∧
      ∃ p', finish p = some p' ∧ p'.length = out.length ∧ p'.data.length = dest.length ∧
        p'.data.take (min out.length dest.length) = out.take dest.length := by
  have h0 : Agrees ({ data := dest, length := 0 } : PF) [] := ⟨rfl, fun i _ hi => by simp at hi⟩
  obtain ⟨p, e, c, a⟩ := vsnprintf_ok (fmt.length + 1) _ [] out fmt args h0 hg
  simp only [List.nil_append] at a
  obtain ⟨l, t⟩ := agrees_take p out a
  have hc : p.cap = dest.length := c
  refine ⟨p, e, hc, l, by rw [← hc]; exact t, ?_⟩
  unfold finish
  split
  · rename_i hlt
    obtain ⟨d', e', l', g'⟩ := PF.wr_some p.data p.length [0] (Or.inr (by simp only [List.length_singleton, PF.cap] at *; omega))
    have a' : Agrees ({ p with data := d' } : PF) out := by
      refine ⟨a.1, fun i hi1 hi2 => ?_⟩
      simp only [PF.cap, l'] at hi1
      rw [g' i, if_neg (by rw [a.1]; omega)]; exact a.2 i hi1 hi2
    obtain ⟨l2, t2⟩ := agrees_take _ out a'
    have hc2 : ({ p with data := d' } : PF).cap = dest.length := by simp only [PF.cap, l']; exact hc
    exact ⟨_, by simp [e'], l2, hc2, by rw [← hc2]; exact t2⟩
  · exact ⟨p, rfl, l, hc, by rw [← hc]; exact t⟩

/-- **C10, bounded print** (`gp_bytes_print`, and `gp_str_n_print` whose storage holds at least `n`
bytes): for every list of objects with a defined text `t` (typed values and embedded format strings
with their arguments) and every limit, on any destination of `n` bytes: no write leaves the
destination, the value returned is the complete length and the bytes written are the first
`min(|t|, n)` bytes of the complete output. -/
theorem bounded_print (objs : List Obj) (t dest : Bytes)
    (ht : printModelText (objs.length + 1) objs = some t) :
    ∃ p, printObjs (objs.length + 1) { data := dest, length := 0 } objs false = some (some p) ∧
      p.data.length = dest.length ∧ p.length = t.length ∧
      p.data.take (min t.length dest.length) = t.take dest.length := by
  have h0 : Agrees ({ data := dest, length := 0 } : PF) [] := ⟨rfl, fun i _ hi => by simp at hi⟩
  obtain ⟨p, e, c, a⟩ := printObjs_ok (objs.length + 1) _ [] t objs h0 ht
  simp only [List.nil_append] at a
  obtain ⟨l, tk⟩ := agrees_take p t a
  have hc : p.cap = dest.length := c
  exact ⟨p, e, hc, l, by rw [← hc]; exact tk⟩

/-- **C10, bounded println**: for every non-empty list of objects and every limit, the objects, the
separating spaces and the final newline are all written inside the destination. -/
theorem bounded_println_in_bounds (objs : List Obj) (t dest : Bytes) (hne : objs ≠ [])
    (ht : printModelText (objs.length + 1) objs = some t) :
    ∃ p p', printObjs (objs.length + 1) { data := dest, length := 0 } objs true = some (some p) ∧
      printlnEnd p = some p' ∧ p'.data.length = dest.length := by
  have h0 : Agrees ({ data := dest, length := 0 } : PF) [] := ⟨rfl, fun i _ hi => by simp at hi⟩
  obtain ⟨p, e, c, _, _, z⟩ := printlnObjs_ok (objs.length + 1) _ t objs ⟨[], h0⟩ ht
  obtain ⟨p', e', c', _⟩ := printlnEnd_ok p (z hne)
  exact ⟨p, p', e, e', by have := c'.trans c; simpa [PF.cap] using this⟩

/-- `gp_str_print` reserves at least the room a value's text needs (`gp_max_digits_in`): integers of
int and long long width, characters, booleans, strings and pointers (the `%g` bound of 15 bytes is
checked by the correspondence run only) -/
theorem estimate_suffices (k : Kind) (v : Arg) (t : Bytes) (ht : valText k v = some t) (hk : k ≠ .dbl) :
    t.length ≤ valEstimate k v := by
  have dlen : ∀ (base x n : Nat), 2 ≤ base → 1 ≤ n → n ≤ 64 → x < base ^ n → (natDigits base false x).length ≤ n :=
    fun base x n hb h1 hn hx => by
      have hx64 : x < base ^ 64 := Nat.lt_of_lt_of_le hx (Nat.pow_le_pow_right (by omega) hn)
      rw [← digits_eq base false x hb hx64]
      unfold PF.digits; rw [List.length_reverse]
      exact PF.revDigits_length base false hb 64 n x h1 hx
  have sgn : ∀ (len : LenMod) (raw n : Nat), 1 ≤ n → n ≤ 64 → (signedArg len raw).natAbs < 10 ^ n →
      (fmtSigned { conv := 'd', len := len } raw).length ≤ n + 1 := fun len raw n h1 hn hx => by
    rw [fmtSigned_plain]
    have := dlen 10 _ n (by omega) h1 hn hx
    simp only [List.length_append]
    split <;> simp <;> omega
  cases k <;> cases v <;> simp only [valText] at ht <;> (try (cases ht)) <;> simp only [valEstimate]
  · simp
  · rename_i raw
    have h : raw % 2 ^ 32 < 10 ^ 10 := by
      have : raw % 2 ^ 32 < 2 ^ 32 := Nat.mod_lt _ (by decide)
      have : (2:Nat) ^ 32 < 10 ^ 10 := by decide
      omega
    exact Nat.le_trans (dlen 10 _ 10 (by omega) (by omega) (by omega) h) (by decide)
  · rename_i raw
    have h : raw % 2 ^ 64 < 10 ^ 20 := by
      have : raw % 2 ^ 64 < 2 ^ 64 := Nat.mod_lt _ (by decide)
      have : (2:Nat) ^ 64 < 10 ^ 20 := by decide
      omega
    exact Nat.le_trans (dlen 10 _ 20 (by omega) (by omega) (by omega) h) (by decide)
  · split <;> simp
  · rename_i raw
    have hm : (signedArg .none raw).natAbs < 10 ^ 10 := by
      have : (signedArg .none raw).natAbs ≤ 2 ^ 31 := signedArg_abs_le .none raw
      have : (2:Nat) ^ 31 < 10 ^ 10 := by decide
      omega
    exact Nat.le_trans (sgn .none raw 10 (by omega) (by omega) hm) (by decide)
  · rename_i raw
    have hm : (signedArg .ll raw).natAbs < 10 ^ 19 := by
      have : (signedArg .ll raw).natAbs ≤ 2 ^ 63 := signedArg_abs_le .ll raw
      have : (2:Nat) ^ 63 < 10 ^ 19 := by decide
      omega
    exact Nat.le_trans (sgn .ll raw 19 (by omega) (by omega) hm) (by decide)
  · exact absurd rfl hk
  · simp
  · simp
  · rename_i raw
    have h : raw % 2 ^ 64 < 16 ^ 16 := by
      have : raw % 2 ^ 64 < 2 ^ 64 := Nat.mod_lt _ (by decide)
      have : (2:Nat) ^ 64 = 16 ^ 16 := by decide
      omega
    have := dlen 16 _ 16 (by omega) (by omega) (by omega) h
    split <;> simp <;> omega

/-! ## non-vacuity -/

-- the hypothesis of `bounded_prefix` holds for an ordinary format: "[%05d|%-4s|%#x]" with 42, "ab", 255
example : genFormat (convText floatModelText) 17
    [91, 37, 48, 53, 100, 124, 37, 45, 52, 115, 124, 37, 35, 120, 93] [.int 42, .str [97, 98], .int 255] =
    some [91, 48, 48, 48, 52, 50, 124, 97, 98, 32, 32, 124, 48, 120, 102, 102, 93] := by
  simp [genFormat, splitLiteral, scanSpec, scanFlags, isDigit, scanNat, scanLen, resolve, argFits, convText, formatOne,
    fmtSigned, fmtUnsigned, signedArg, unsignedArg, LenMod.bits, signBytes, precDigits, padField, natDigits, digitChar,
    strArg, cstrlen, isFloatConv]

-- a bounded run of the model itself: "%5d" of 42 into 3 bytes writes "   " and reports 5
example : (vsnprintf 4 { data := [170, 170, 170], length := 0 } [37, 53, 100] [.int 42]).map (·.map fun p => (p.data, p.length)) =
    some (some ([32, 32, 32], 5)) := by decide

end Gpc.Printf
