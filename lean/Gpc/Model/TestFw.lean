/-
Model of the unit-test framework anchored by C19 (src/assert.c, include/gpc/assert.h).
Per-thread state: current test / suite and their failed flags.  Global state: the four counters and
whether `atexit(gp_end_testing)` is armed.  A program is a list of operations; it ends by returning
from `main` (exit status 0 unless a handler changes it), by `exit(1)` of a failing assertion, or by
`exit(EXIT_FAILURE)` inside `gp_end_testing`.  In every case the `atexit` handler runs if armed.
-/
namespace Gpc.TestFw

inductive Op where
  | suite (name : Option Nat)        -- gp_suite(name) / gp_suite(NULL)
  | test (name : Option Nat)         -- gp_test(name) / gp_test(NULL)
  | expect (ok : Bool)               -- gp_expect(cond, …)
  | assert (ok : Bool)               -- gp_assert(cond, …)
  | endTesting                       -- gp_end_testing()
deriving DecidableEq, Repr

/-- observable output events, in order -/
inductive Ev where
  | testVerdict (name : Nat) (passed : Bool)
  | suiteVerdict (name : Nat) (passed : Bool)
  | suiteStart (name : Nat)
  | failMsg                                      -- the message of a failed expectation / assertion
  | summary (tests suites testsFailed suitesFailed : Nat)
deriving DecidableEq, Repr

/-- thread-local part -/
structure Local where
  curTest : Option Nat := none
  curSuite : Option Nat := none
  testFailed : Bool := false
  suiteFailed : Bool := false
deriving DecidableEq, Repr

/-- process-global part -/
structure Global where
  tests : Nat := 0
  suites : Nat := 0
  testsFailed : Nat := 0
  suitesFailed : Nat := 0
  armed : Bool := false                           -- atexit(gp_end_testing) registered
  out : List Ev := []                             -- output so far (oldest first)
deriving DecidableEq, Repr

/-- end the current test, if any: count and report it -/
def endTest (l : Local) (g : Global) : Local × Global :=
  match l.curTest with
  | some t =>
    if l.testFailed then ({ l with curTest := none }, { g with testsFailed := g.testsFailed + 1, out := g.out ++ [Ev.testVerdict t false] })
    else ({ l with curTest := none }, { g with out := g.out ++ [Ev.testVerdict t true] })
  | none => (l, g)

def startTest (l : Local) (g : Global) : Option Nat → Local × Global
  | some n => ({ l with curTest := some n, testFailed := false }, { g with tests := g.tests + 1 })
  | none => (l, g)

/-- `gp_test(name)` -/
def doTest (l : Local) (g : Global) (name : Option Nat) : Local × Global :=
  let r := endTest l { g with armed := true }
  startTest r.1 r.2 name

/-- end the current suite, if any -/
def endSuite (l : Local) (g : Global) : Local × Global :=
  match l.curSuite with
  | some s =>
    if l.suiteFailed then ({ l with curSuite := none }, { g with suitesFailed := g.suitesFailed + 1, out := g.out ++ [Ev.suiteVerdict s false] })
    else ({ l with curSuite := none }, { g with out := g.out ++ [Ev.suiteVerdict s true] })
  | none => (l, g)

def startSuite (l : Local) (g : Global) : Option Nat → Local × Global
  | some n => ({ l with curSuite := some n, suiteFailed := false }, { g with suites := g.suites + 1, out := g.out ++ [Ev.suiteStart n] })
  | none => (l, g)

/-- `gp_suite(name)` -/
def doSuite (l : Local) (g : Global) (name : Option Nat) : Local × Global :=
  let r := doTest l g none
  let r := endSuite r.1 r.2
  startSuite r.1 r.2 name

/-- `gp_fail_internal`: marks the current test and suite -/
def doFail (l : Local) (g : Global) : Local × Global :=
  ({ l with testFailed := if l.curTest.isSome then true else l.testFailed,
            suiteFailed := if l.curSuite.isSome then true else l.suiteFailed },
   { g with out := g.out ++ [Ev.failMsg] })

/-- `gp_end_testing()`: `some status` = it called `exit(status)` -/
def doEndTesting (l : Local) (g : Global) : Local × Global × Option Nat :=
  if g.tests + g.suites = 0 then (l, g, none) else
  let r := doSuite l g none                       -- gp_test(NULL); gp_suite(NULL)
  let g' : Global := { r.2 with out := r.2.out ++ [Ev.summary r.2.tests r.2.suites r.2.testsFailed r.2.suitesFailed] }
  if r.2.testsFailed ≠ 0 ∨ r.2.suitesFailed ≠ 0 then (r.1, g', some 1)
  else (r.1, { g' with tests := 0, suites := 0, testsFailed := 0, suitesFailed := 0 }, none)

/-- what happens at process exit with `status`: the armed handler runs once; if it calls `exit`
again the status becomes that one (glibc continues with the remaining handlers) -/
def atExit (l : Local) (g : Global) (status : Nat) : Global × Nat :=
  if g.armed then
    let r := doEndTesting l g
    (r.2.1, r.2.2.getD status)
  else (g, status)

/-- one operation of thread-local state `l`: new states, and `some status` when the process exits -/
def step (l : Local) (g : Global) : Op → Local × Global × Option Nat
  | .suite n => let r := doSuite l g n; (r.1, r.2, none)
  | .test n => let r := doTest l g n; (r.1, r.2, none)
  | .expect true => (l, g, none)
  | .expect false => let r := doFail l g; (r.1, r.2, none)
  | .assert true => (l, g, none)
  | .assert false => let r := doFail l g; (r.1, r.2, some 1)               -- exit(1)
  | .endTesting => doEndTesting l g                                          -- may exit(EXIT_FAILURE)

/-- run a program; every operation is tagged with the thread executing it (`false` = main thread,
`true` = a second thread that the main thread waits for); each thread has its own current
test/suite, the counters are shared.  Result: final global state and exit status.  The `atexit`
handler runs in the thread that calls `exit` (or returns from `main`). -/
def run : List (Bool × Op) → Local → Local → Global → Global × Nat
  | [], l0, _, g => atExit l0 g 0                                   -- return from main
  | (tid, op) :: ops, l0, l1, g =>
    let r := step (if tid then l1 else l0) g op
    match r.2.2 with
    | some st => atExit r.1 r.2.1 st
    | none => if tid then run ops l0 r.1 r.2.1 else run ops r.1 l1 r.2.1

def runProgram (ops : List (Bool × Op)) : Global × Nat := run ops {} {} {}

end Gpc.TestFw
