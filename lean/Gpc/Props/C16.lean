import Gpc.Model.FileIO
/-!
# C16 — file reads partition the file at the first delimiter

`Gpc.FileIO` models gp_file_read_line / gp_file_read_until / gp_file_read_strip over the list of
bytes that remain in the file.
-/
namespace Gpc.FileIO

/-- `acc` ends with the delimiter -/
def EndsWith (acc delim : Bytes) : Prop := delim.length ≤ acc.length ∧ acc.drop (acc.length - delim.length) = delim

instance (acc delim : Bytes) : Decidable (EndsWith acc delim) := by unfold EndsWith; infer_instance

/-- no proper non-empty prefix of `seg` ends with the delimiter: the delimiter does not occur earlier -/
def NoEarlier (seg delim : Bytes) : Prop := ∀ k, 0 < k → k < seg.length → ¬ EndsWith (seg.take k) delim

theorem untilLoop_spec (delim : Bytes) : ∀ (rest acc : Bytes), acc ≠ [] → NoEarlier acc delim →
    (untilLoop delim acc rest).1 ++ (untilLoop delim acc rest).2 = acc ++ rest ∧
    (untilLoop delim acc rest).1 ≠ [] ∧
    (EndsWith (untilLoop delim acc rest).1 delim ∨ (untilLoop delim acc rest).2 = []) ∧
    NoEarlier (untilLoop delim acc rest).1 delim := by
  intro rest
  induction rest with
  | nil => intro acc hne hno; simp [untilLoop, hne, hno]
  | cons c rest ih =>
    intro acc hne hno
    unfold untilLoop
    by_cases h : delim.length ≤ acc.length ∧ acc.drop (acc.length - delim.length) = delim
    · rw [if_pos h]; exact ⟨rfl, hne, Or.inl h, hno⟩
    · rw [if_neg h]
      have hno' : NoEarlier (acc ++ [c]) delim := by
        intro k hk0 hk
        simp only [List.length_append, List.length_singleton] at hk
        by_cases hk2 : k < acc.length
        · rw [List.take_append_of_le_length (by omega)]; exact hno k hk0 hk2
        · have : k = acc.length := by omega
          subst this
          rw [List.take_left']; exact h; rfl
      obtain ⟨h1, h2, h3, h4⟩ := ih (acc ++ [c]) (by simp) hno'
      exact ⟨by rw [h1]; simp, h2, h3, h4⟩

/-- **C16, read until a delimiter.**  Whenever data is left, the segment read and the rest of the
file make up the file; the segment is not empty; it ends with the delimiter — at the FIRST place
where the bytes read since the previous segment end with it — or it reaches the end of the file. -/
theorem readUntil_partition (delim file : Bytes) (hf : file ≠ []) :
    ∃ seg rest, readUntil delim file = some (seg, rest) ∧ seg ++ rest = file ∧ seg ≠ [] ∧
      (EndsWith seg delim ∨ rest = []) ∧ NoEarlier seg delim := by
  cases file with
  | nil => exact absurd rfl hf
  | cons c rest =>
    have hno : NoEarlier [c] delim := by intro k h0 h1; simp at h1; omega
    obtain ⟨h1, h2, h3, h4⟩ := untilLoop_spec delim rest [c] (by simp) hno
    exact ⟨_, _, rfl, by simpa using h1, h2, h3, h4⟩

/-- end of data is reported exactly when nothing is left -/
theorem readUntil_none_iff (delim file : Bytes) : readUntil delim file = none ↔ file = [] := by
  cases file <;> simp [readUntil]

theorem lineLoop_eq (rest : Bytes) : ∀ (acc : Bytes) (c : UInt8), acc.getLast? = some c →
    lineLoop acc c rest = untilLoop [10] acc rest := by
  induction rest with
  | nil => intro acc c _; simp [lineLoop, untilLoop]
  | cons d rest ih =>
    intro acc c hc
    unfold lineLoop untilLoop
    have hne : acc ≠ [] := by intro h; simp [h] at hc
    have hlast : (1 ≤ acc.length ∧ acc.drop (acc.length - 1) = [10]) ↔ c = 10 := by
      obtain ⟨init, rfl⟩ : ∃ init, acc = init ++ [c] := by
        rcases List.eq_nil_or_concat acc with h | ⟨i, l, h⟩
        · exact absurd h hne
        · rw [h] at hc; simp at hc; exact ⟨i, by rw [h, hc]; simp⟩
      simp
    simp only [List.length_singleton]
    by_cases h10 : c = 10
    · rw [if_pos h10, if_pos (hlast.2 h10)]
    · rw [if_neg h10, if_neg (fun h => h10 (hlast.1 h))]
      exact ih (acc ++ [d]) d (by simp)

/-- **C16, read a line** is reading until "\\n" -/
theorem readLine_eq_readUntil (file : Bytes) : readLine file = readUntil [10] file := by
  cases file with
  | nil => rfl
  | cons c rest => simp only [readLine, readUntil]; rw [lineLoop_eq rest [c] c (by simp)]

/-- **C16, the segments of a piecewise read concatenate to the file**: for any reader that, while data is
left, splits off a non-empty segment -/
theorem readAll_concat (rd : Bytes → Option (Bytes × Bytes))
    (hrd : ∀ file, file ≠ [] → ∃ seg rest, rd file = some (seg, rest) ∧ seg ++ rest = file ∧ seg ≠ [])
    (hnone : rd [] = none) : ∀ (fuel : Nat) (file : Bytes), file.length < fuel → (readAll rd fuel file).flatten = file := by
  intro fuel
  induction fuel with
  | zero => intro file h; omega
  | succ f ih =>
    intro file hl
    unfold readAll
    by_cases hf : file = []
    · subst hf; simp [hnone]
    · obtain ⟨seg, rest, e, hcat, hne⟩ := hrd file hf
      rw [e]
      simp only [List.flatten_cons]
      have hlen : rest.length < f := by
        have : seg.length + rest.length = file.length := by rw [← hcat]; simp
        have : 0 < seg.length := by cases seg with | nil => exact absurd rfl hne | cons a t => simp
        omega
      rw [ih rest hlen, hcat]

/-- reading a file line by line / delimiter by delimiter returns all of it, in order -/
theorem until_all (delim file : Bytes) : (readAll (readUntil delim) (file.length + 1) file).flatten = file :=
  readAll_concat (readUntil delim)
    (fun f hf => by obtain ⟨s, r, e, c, n, _⟩ := readUntil_partition delim f hf; exact ⟨s, r, e, c, n⟩) rfl _ _ (by omega)

theorem lines_all (file : Bytes) : (readAll readLine (file.length + 1) file).flatten = file := by
  have : readLine = readUntil [10] := funext readLine_eq_readUntil
  rw [this]; exact until_all [10] file

/-! ## non-vacuity -/

-- the delimiter "aab" that starts inside a failed partial match: "aaab|x"
example : readAll (readUntil [97, 97, 98]) 6 [97, 97, 97, 98, 120] = [[97, 97, 97, 98], [120]] := by decide
example : readAll readLine 7 [97, 10, 10, 98, 99] = [[97, 10], [10], [98, 99]] := by decide
-- stripped reads: maximal runs outside the set { space, comma }; the last run needs no trailing delimiter
example : readAll (readStrip [32, 44]) 12 [32, 97, 98, 44, 32, 0xC3, 0xA4, 44, 99] = [[97, 98], [0xC3, 0xA4], [99]] := by decide

/-! ## gp_file_read_strip over files made of whole code points -/

/-- a chunk is one code point as the reader sees it: a lead byte and as many bytes as the length table says -/
def ValidChunk (c : Bytes) : Prop := ∃ b t, c = b :: t ∧ Gpc.Utf8.cpLen b = c.length

theorem readCp_chunk (c rest : Bytes) (h : ValidChunk c) : readCp (c ++ rest) = some (c, c, rest) := by
  obtain ⟨b, t, rfl, hl⟩ := h
  simp only [List.length_cons] at hl
  simp only [List.cons_append, readCp, hl]
  have h1 : ¬ (t ++ rest).length + 1 < t.length + 1 := by simp [List.length_append]
  rw [if_neg h1]
  simp [List.take_of_length_le]

/-- skip: the first chunk outside the set and what follows it -/
def skipC (set : Bytes) : List Bytes → Option (Bytes × List Bytes)
  | [] => none
  | c :: r => if inSet set c then skipC set r else some (c, r)

/-- collect until a member (consumed) or the end -/
def collectC (set : Bytes) : Bytes → List Bytes → Bytes × List Bytes
  | acc, [] => (acc, [])
  | acc, c :: r => if inSet set c then (acc, r) else collectC set (acc ++ c) r

def stripC (set : Bytes) (chunks : List Bytes) : Option (Bytes × List Bytes) :=
  (skipC set chunks).map fun (c, r) => collectC set c r

theorem stripSkip_chunks (set : Bytes) (chunks : List Bytes) (hv : ∀ c ∈ chunks, ValidChunk c) (fuel : Nat)
    (hf : chunks.length < fuel) :
    stripSkip set fuel chunks.flatten = (skipC set chunks).map fun (c, r) => (c, r.flatten) := by
  induction chunks generalizing fuel with
  | nil => cases fuel <;> simp [stripSkip, readCp, skipC]
  | cons c r ih =>
    cases fuel with
    | zero => simp at hf
    | succ f =>
      simp only [List.flatten_cons, stripSkip, readCp_chunk c r.flatten (hv c (by simp)), skipC]
      by_cases hin : inSet set c
      · simp only [hin, if_true]
        exact ih (fun x hx => hv x (by simp [hx])) f (by simp at hf; omega)
      · simp [hin]

theorem stripCollect_chunks (set : Bytes) (chunks : List Bytes) (hv : ∀ c ∈ chunks, ValidChunk c) (acc : Bytes) (fuel : Nat)
    (hf : chunks.length < fuel) :
    stripCollect set fuel acc chunks.flatten = ((collectC set acc chunks).1, (collectC set acc chunks).2.flatten) := by
  induction chunks generalizing fuel acc with
  | nil => cases fuel <;> simp [stripCollect, readCp, collectC]
  | cons c r ih =>
    cases fuel with
    | zero => simp at hf
    | succ f =>
      simp only [List.flatten_cons, stripCollect, readCp_chunk c r.flatten (hv c (by simp)), collectC]
      by_cases hin : inSet set c
      · simp [hin]
      · simp only [hin, Bool.false_eq_true, if_false]
        exact ih (fun x hx => hv x (by simp [hx])) (acc ++ c) f (by simp at hf; omega)

theorem chunk_length_pos (c : Bytes) (h : ValidChunk c) : 0 < c.length := by
  obtain ⟨b, t, rfl, _⟩ := h; simp

theorem flatten_length_ge (chunks : List Bytes) (hv : ∀ c ∈ chunks, ValidChunk c) : chunks.length ≤ chunks.flatten.length := by
  induction chunks with
  | nil => simp
  | cons c r ih =>
    have := chunk_length_pos c (hv c (by simp))
    have := ih (fun x hx => hv x (by simp [hx]))
    simp only [List.flatten_cons, List.length_append, List.length_cons]; omega

theorem skipC_suffix (set : Bytes) (chunks : List Bytes) (c : Bytes) (r : List Bytes) (h : skipC set chunks = some (c, r)) :
    r.length < chunks.length ∧ ∀ x ∈ r, x ∈ chunks := by
  induction chunks with
  | nil => simp [skipC] at h
  | cons d t ih =>
    simp only [skipC] at h
    by_cases hin : inSet set d
    · simp only [hin, if_true] at h
      obtain ⟨h1, h2⟩ := ih h
      exact ⟨by simp; omega, fun x hx => by simp [h2 x hx]⟩
    · simp only [hin, Bool.false_eq_true, if_false, Option.some.injEq, Prod.mk.injEq] at h
      obtain ⟨rfl, rfl⟩ := h
      exact ⟨by simp, fun x hx => by simp [hx]⟩

/-- on a file of whole code points the byte-level reader is the chunk-level one -/
theorem readStrip_chunks (set : Bytes) (chunks : List Bytes) (hv : ∀ c ∈ chunks, ValidChunk c) :
    readStrip set chunks.flatten = (stripC set chunks).map fun (seg, r) => (seg, r.flatten) := by
  unfold readStrip stripC
  have hlen := flatten_length_ge chunks hv
  rw [stripSkip_chunks set chunks hv _ (by omega)]
  cases hs : skipC set chunks with
  | none => simp
  | some p =>
    obtain ⟨c, r⟩ := p
    obtain ⟨hl, hm⟩ := skipC_suffix set chunks c r hs
    have hv' : ∀ x ∈ r, ValidChunk x := fun x hx => hv x (hm x hx)
    have := flatten_length_ge r hv'
    simp only [Option.map_some]
    rw [stripCollect_chunks set r hv' c _ (by omega)]

/-! ### what the segments are: the maximal runs of code points outside the set -/

/-- maximal runs of non-members, each run flattened -/
def runs (set : Bytes) : Bytes → List Bytes → List Bytes
  | cur, [] => if cur.isEmpty then [] else [cur]
  | cur, c :: r =>
    if inSet set c then (if cur.isEmpty then runs set [] r else cur :: runs set [] r)
    else runs set (cur ++ c) r

theorem collectC_suffix (set : Bytes) (acc : Bytes) (chunks : List Bytes) :
    (collectC set acc chunks).2.length ≤ chunks.length ∧ ∀ x ∈ (collectC set acc chunks).2, x ∈ chunks := by
  induction chunks generalizing acc with
  | nil => simp [collectC]
  | cons c r ih =>
    simp only [collectC]
    by_cases hin : inSet set c
    · simp only [hin, if_true]; exact ⟨by simp, fun x hx => by simp [hx]⟩
    · simp only [hin, Bool.false_eq_true, if_false]
      obtain ⟨h1, h2⟩ := ih (acc ++ c)
      exact ⟨by simp; omega, fun x hx => by simp [h2 x hx]⟩

/-- reading piecewise at chunk level -/
def readAllC (set : Bytes) : Nat → List Bytes → List Bytes
  | 0, _ => []
  | fuel + 1, chunks =>
    match stripC set chunks with
    | none => []
    | some (seg, r) => seg :: readAllC set fuel r

theorem runs_skip_none (set : Bytes) (chunks : List Bytes) (h : skipC set chunks = none) : runs set [] chunks = [] := by
  induction chunks with
  | nil => simp [runs]
  | cons c r ih =>
    simp only [skipC] at h
    by_cases hin : inSet set c
    · simp only [hin, if_true] at h; simp [runs, hin, ih h]
    · simp [hin] at h

theorem runs_skip_some (set : Bytes) (chunks : List Bytes) (c : Bytes) (r : List Bytes) (h : skipC set chunks = some (c, r)) :
    runs set [] chunks = runs set c r := by
  induction chunks with
  | nil => simp [skipC] at h
  | cons d t ih =>
    simp only [skipC] at h
    by_cases hin : inSet set d
    · simp only [hin, if_true] at h; simp [runs, hin, ih h]
    · simp only [hin, Bool.false_eq_true, if_false, Option.some.injEq, Prod.mk.injEq] at h
      obtain ⟨rfl, rfl⟩ := h
      simp [runs, hin]

theorem runs_collect (set : Bytes) (chunks : List Bytes) (cur : Bytes) (hcur : cur ≠ []) :
    runs set cur chunks = (collectC set cur chunks).1 :: runs set [] (collectC set cur chunks).2 := by
  induction chunks generalizing cur with
  | nil => simp [runs, collectC, hcur]
  | cons d t ih =>
    by_cases hin : inSet set d
    · simp [runs, collectC, hin, hcur]
    · simp only [runs, collectC, hin, Bool.false_eq_true, if_false]
      exact ih (cur ++ d) (by simp [hcur])

theorem readAllC_runs (set : Bytes) (fuel : Nat) (chunks : List Bytes) (hne : ∀ c ∈ chunks, c ≠ []) (hf : chunks.length < fuel) :
    readAllC set fuel chunks = runs set [] chunks := by
  induction fuel generalizing chunks with
  | zero => omega
  | succ f ih =>
    simp only [readAllC, stripC]
    cases hs : skipC set chunks with
    | none => simp [runs_skip_none set chunks hs]
    | some p =>
      obtain ⟨c, r⟩ := p
      obtain ⟨hl, hm⟩ := skipC_suffix set chunks c r hs
      obtain ⟨hl2, hm2⟩ := collectC_suffix set c r
      have hc : c ≠ [] := by
        -- c is one of the chunks
        have : c ∈ chunks := by
          clear hl hm hl2 hm2 ih hf
          induction chunks with
          | nil => simp [skipC] at hs
          | cons d t ih2 =>
            simp only [skipC] at hs
            by_cases hin : inSet set d
            · simp only [hin, if_true] at hs
              exact List.mem_cons_of_mem _ (ih2 (fun x hx => hne x (by simp [hx])) hs)
            · simp only [hin, Bool.false_eq_true, if_false, Option.some.injEq, Prod.mk.injEq] at hs
              simp [hs.1]
        exact hne c this
      simp only [Option.map_some]
      rw [runs_skip_some set chunks c r hs, runs_collect set r c hc]
      congr 1
      exact ih _ (fun x hx => hne x (hm x (hm2 x hx))) (by omega)

theorem readAll_chunks (set : Bytes) (fuel : Nat) (chunks : List Bytes) (hv : ∀ c ∈ chunks, ValidChunk c) :
    readAll (readStrip set) fuel chunks.flatten = readAllC set fuel chunks := by
  induction fuel generalizing chunks with
  | zero => rfl
  | succ f ih =>
    simp only [readAll, readAllC, readStrip_chunks set chunks hv]
    cases hs : stripC set chunks with
    | none => simp
    | some p =>
      obtain ⟨seg, r⟩ := p
      simp only [Option.map_some]
      congr 1
      apply ih
      -- the rest consists of chunks of the original list
      intro x hx
      unfold stripC at hs
      cases hk : skipC set chunks with
      | none => simp [hk] at hs
      | some q =>
        obtain ⟨c, r0⟩ := q
        simp only [hk, Option.map_some, Option.some.injEq] at hs
        obtain ⟨_, hm⟩ := skipC_suffix set chunks c r0 hk
        obtain ⟨_, hm2⟩ := collectC_suffix set c r0
        have hr : r = (collectC set c r0).2 := by rw [hs]
        rw [hr] at hx
        exact hv x (hm x (hm2 x hx))

/-- **C16 (strip).** On a file made of whole code points, reading it piece by piece with `gp_file_read_strip` yields
exactly the maximal runs of code points outside the set, in order, until end of data. -/
theorem strip_all (set : Bytes) (chunks : List Bytes) (hv : ∀ c ∈ chunks, ValidChunk c) :
    readAll (readStrip set) (chunks.flatten.length + 1) chunks.flatten = runs set [] chunks := by
  rw [readAll_chunks set _ chunks hv]
  exact readAllC_runs set _ chunks (fun c hc => by have := chunk_length_pos c (hv c hc); intro e; simp [e] at this)
    (by have := flatten_length_ge chunks hv; omega)

/-- the runs keep every code point outside the set, in order, and nothing else -/
theorem runs_flatten (set : Bytes) (chunks : List Bytes) (cur : Bytes) :
    (runs set cur chunks).flatten = cur ++ (chunks.filter fun c => !inSet set c).flatten := by
  induction chunks generalizing cur with
  | nil => by_cases h : cur.isEmpty <;> simp_all [runs]
  | cons c r ih =>
    by_cases hin : inSet set c
    · by_cases h : cur.isEmpty <;> simp_all [runs]
    · simp [runs, hin, ih, List.append_assoc]

/-- every segment is non-empty -/
theorem runs_nonempty (set : Bytes) (chunks : List Bytes) (hne : ∀ c ∈ chunks, c ≠ []) (cur : Bytes) :
    ∀ s ∈ runs set cur chunks, s ≠ [] := by
  induction chunks generalizing cur with
  | nil =>
    intro s hs
    by_cases h : cur.isEmpty
    · simp [runs, h] at hs
    · simp [runs, h] at hs; subst hs; simpa using h
  | cons c r ih =>
    intro s hs
    have hr : ∀ x ∈ r, x ≠ [] := fun x hx => hne x (by simp [hx])
    by_cases hin : inSet set c
    · by_cases h : cur.isEmpty
      · simp only [runs, hin, h, if_true] at hs; exact ih hr [] s hs
      · simp only [runs, hin, h, if_true, Bool.false_eq_true, if_false, List.mem_cons] at hs
        rcases hs with e | e
        · subst e; simpa using h
        · exact ih hr [] s e
    · simp only [runs, hin, Bool.false_eq_true, if_false] at hs
      exact ih hr (cur ++ c) s hs


/-- the hypothesis is met by ordinary text: "a b" with the set " " -/
example : (∀ c ∈ [[97], [32], [98]], ValidChunk c) ∧
    readAll (readStrip [32]) 4 [97, 32, 98] = [[97], [98]] := by
  refine ⟨?_, by decide⟩
  intro c hc
  simp only [List.mem_cons, List.not_mem_nil, or_false] at hc
  rcases hc with rfl | rfl | rfl <;> exact ⟨_, _, rfl, by decide⟩

/-! ## whole-file read / write: success means the bytes fully came from / reached the file -/

/-- **C16, read faults.**  `gp_str_file(.., "read")` reports success exactly when `stat` and `fopen` succeeded
and the stream delivered as many bytes as `stat` had sampled; the destination then holds exactly those bytes. -/
theorem strFileRead_opened (e : ReadEnv) (n : Nat) (hs : e.statSize = some n) (ho : e.opens = true) :
    strFileRead e = if n ≤ e.stream.length then (0, some (e.stream.take n)) else (-1, none) := by
  unfold strFileRead
  simp only [hs, ho, Bool.not_true, Bool.false_eq_true, if_false, List.length_take]
  by_cases hl : n ≤ e.stream.length
  · have : min n e.stream.length = n := by omega
    simp [this, hl]
  · have : min n e.stream.length ≠ n := by omega
    simp [this, hl]

theorem read_ok_iff (e : ReadEnv) :
    (strFileRead e).1 = 0 ↔ ∃ n, e.statSize = some n ∧ e.opens = true ∧ n ≤ e.stream.length := by
  cases hs : e.statSize with
  | none => simp [strFileRead, hs]
  | some n =>
    by_cases ho : e.opens = true
    · rw [strFileRead_opened e n hs ho]
      by_cases hl : n ≤ e.stream.length <;> simp [ho, hl]
    · simp [strFileRead, hs, ho]

theorem read_ok_content (e : ReadEnv) (h : (strFileRead e).1 = 0) :
    ∃ n, e.statSize = some n ∧ (strFileRead e).2 = some (e.stream.take n) ∧ (e.stream.take n).length = n := by
  obtain ⟨n, hs, ho, hl⟩ := (read_ok_iff e).1 h
  refine ⟨n, hs, ?_, by simp only [List.length_take]; omega⟩
  rw [strFileRead_opened e n hs ho]; simp [hl]

/-- a file that shrank between the size sample and the read is never reported as read -/
theorem short_read_fails (e : ReadEnv) (n : Nat) (hs : e.statSize = some n) (hl : e.stream.length < n) :
    (strFileRead e).1 = -1 := by
  by_cases ho : e.opens = true
  · rw [strFileRead_opened e n hs ho]
    have : ¬ n ≤ e.stream.length := by omega
    simp [this]
  · simp [strFileRead, hs, ho]

/-- **C16, write faults.**  Success exactly when the file opened, every byte was accepted and the close flushed. -/
theorem write_ok_iff (e : WriteEnv) (append : Bool) (old s : Bytes) :
    (strFileWrite e append old s).1 = 0 ↔ e.opens = true ∧ s.length ≤ e.accepts ∧ e.closeOk = true := by
  unfold strFileWrite
  by_cases ho : e.opens = true <;> by_cases ha : e.accepts < s.length <;> by_cases hc : e.closeOk = true <;>
    simp [ho, ha, hc] <;> omega

/-- **C16, round trip.**  Without faults, writing `a`, reading back, appending `b`, reading back gives `a`
and `a ++ b`, for any bytes. -/
theorem write_read_roundtrip (old a b : Bytes) :
    strFileWrite (quietWrite a) false old a = (0, some a) ∧
    strFileRead (quietRead a) = (0, some a) ∧
    strFileWrite (quietWrite b) true a b = (0, some (a ++ b)) ∧
    strFileRead (quietRead (a ++ b)) = (0, some (a ++ b)) := by
  refine ⟨?_, ?_, ?_, ?_⟩ <;> simp [strFileWrite, strFileRead, quietWrite, quietRead, ← List.length_append]

-- non-vacuity: a file of 5 bytes that holds 3 when it is read; a device that takes 4 of 10 bytes
example : strFileRead { statSize := some 5, opens := true, stream := [1, 2, 3] } = (-1, none) := by decide
example : (strFileWrite { opens := true, accepts := 4, closeOk := true } false [] (List.replicate 10 7)).1 = -1 := by decide

end Gpc.FileIO
