import Gpc.Proofs.FloatPlan
/-! The specification's texts of finite values are well-formed numbers (`BodyWF`), so the plan theorem
applies to every `%f` / `%F` conversion without a side condition. -/
namespace Gpc.Printf

theorem digitChar_isDigit (d : Nat) (h : d < 10) :
    48 ≤ (digitChar false d).toNat ∧ (digitChar false d).toNat ≤ 57 := by
  unfold digitChar
  rw [if_pos h]
  have : (UInt8.ofNat (48 + d)).toNat = 48 + d := by
    rw [UInt8.toNat_ofNat']; omega
  omega

theorem natDigits_isDigits : ∀ n, IsDigits (natDigits 10 false n) := by
  intro n
  induction n using Nat.strongRecOn with
  | _ n ih =>
    rw [natDigits]
    split
    · rename_i h
      intro b hb
      simp only [List.mem_singleton] at hb
      subst hb
      exact digitChar_isDigit n (by omega)
    · rename_i h
      intro b hb
      rcases List.mem_append.mp hb with hb | hb
      · exact ih (n / 10) (by omega) b hb
      · simp only [List.mem_singleton] at hb
        subst hb
        exact digitChar_isDigit (n % 10) (by omega)

theorem natDigits_zero : natDigits 10 false 0 = [48] := by
  rw [natDigits, dif_pos (by omega)]; rfl

theorem natDigits_length_one_of_lt (n : Nat) (h : n < 10) : (natDigits 10 false n).length = 1 := by
  rw [natDigits, dif_pos (by omega)]; rfl

/-- the integer-part condition holds for positional notation -/
theorem natDigits_isIntPart (n : Nat) : IsIntPart (natDigits 10 false n) := by
  refine ⟨natDigits_isDigits n, natDigits_ne_nil 10 false n, ?_⟩
  by_cases h : n = 0
  · left; subst h; rw [natDigits_zero]; rfl
  · right; exact natDigits_head 10 false (by omega) (by omega) n (by omega)

theorem takeWhile_all (l : Bytes) (p : UInt8 → Bool) (h : ∀ b ∈ l, p b = true) : l.takeWhile p = l := by
  induction l with
  | nil => rfl
  | cons a t ih =>
    rw [List.takeWhile_cons_of_pos (h a (by simp)), ih (fun b hb => h b (by simp [hb]))]

theorem dropWhile_all (l : Bytes) (p : UInt8 → Bool) (h : ∀ b ∈ l, p b = true) : l.dropWhile p = [] := by
  induction l with
  | nil => rfl
  | cons a t ih =>
    rw [List.dropWhile_cons_of_pos (h a (by simp)), ih (fun b hb => h b (by simp [hb]))]

theorem takeWhile_append_stop (a t : Bytes) (c : UInt8) (p : UInt8 → Bool) (ha : ∀ b ∈ a, p b = true)
    (hc : p c = false) : (a ++ c :: t).takeWhile p = a := by
  induction a with
  | nil => simp [List.takeWhile_cons, hc]
  | cons x a ih =>
    rw [List.cons_append, List.takeWhile_cons_of_pos (ha x (by simp)), ih (fun b hb => ha b (by simp [hb]))]

theorem dropWhile_append_stop (a t : Bytes) (c : UInt8) (p : UInt8 → Bool) (ha : ∀ b ∈ a, p b = true)
    (hc : p c = false) : (a ++ c :: t).dropWhile p = c :: t := by
  induction a with
  | nil => simp [List.dropWhile_cons, hc]
  | cons x a ih =>
    rw [List.cons_append, List.dropWhile_cons_of_pos (ha x (by simp)), ih (fun b hb => ha b (by simp [hb]))]

theorem digit_ne (b : UInt8) (h : 48 ≤ b.toNat ∧ b.toNat ≤ 57) (c : UInt8) (hc : c.toNat < 48 ∨ 57 < c.toNat) :
    b ≠ c := by
  intro e; subst e; omega

/-- fixed notation without a point -/
theorem bodyWF_int (ip : Bytes) (hi : IsIntPart ip) : BodyWF ip := by
  have hnoexp : ∀ b ∈ ip, decide (b ≠ 101 ∧ b ≠ 69) = true := fun b hb => by
    have := hi.1 b hb
    simp only [decide_eq_true_eq]
    exact ⟨digit_ne b this 101 (by decide), digit_ne b this 69 (by decide)⟩
  have hnodot : ∀ b ∈ ip, decide (b ≠ 46) = true := fun b hb => by
    simp only [decide_eq_true_eq]; exact digit_ne b (hi.1 b hb) 46 (by decide)
  unfold BodyWF
  simp only
  rw [takeWhile_all ip _ hnoexp, dropWhile_all ip _ hnoexp, takeWhile_all ip _ hnodot, dropWhile_all ip _ hnodot]
  exact ⟨fun b hb => by simp at hb, by simpa using hi⟩

/-- fixed notation with a point -/
theorem bodyWF_fixed (ip fr : Bytes) (hi : IsIntPart ip) (hf : IsDigits fr) : BodyWF (ip ++ 46 :: fr) := by
  have hnoexp : ∀ b ∈ ip ++ 46 :: fr, decide (b ≠ 101 ∧ b ≠ 69) = true := fun b hb => by
    simp only [decide_eq_true_eq]
    rcases List.mem_append.mp hb with hb | hb
    · have := hi.1 b hb
      exact ⟨digit_ne b this 101 (by decide), digit_ne b this 69 (by decide)⟩
    · rcases List.mem_cons.mp hb with hb | hb
      · subst hb; decide
      · have := hf b hb
        exact ⟨digit_ne b this 101 (by decide), digit_ne b this 69 (by decide)⟩
  have hnodot : ∀ b ∈ ip, decide (b ≠ 46) = true := fun b hb => by
    simp only [decide_eq_true_eq]; exact digit_ne b (hi.1 b hb) 46 (by decide)
  unfold BodyWF
  simp only
  rw [takeWhile_all _ _ hnoexp, dropWhile_all _ _ hnoexp,
    takeWhile_append_stop ip fr 46 _ hnodot (by decide), dropWhile_append_stop ip fr 46 _ hnodot (by decide)]
  exact ⟨by simpa using hf, by simpa using hi⟩

theorem isDigits_append {a b : Bytes} (ha : IsDigits a) (hb : IsDigits b) : IsDigits (a ++ b) :=
  fun c hc => (List.mem_append.mp hc).elim (ha c) (hb c)

theorem isDigits_zeros (k : Nat) : IsDigits (List.replicate k 48) := fun c hc => by
  have := (List.mem_replicate.mp hc).2; subst this; decide

/-- **`%f` / `%F` texts are well-formed numbers**, for every value, precision and `#` flag -/
theorem fixedText_wf (m : Nat) (e : Int) (prec : Nat) (alt : Bool) : BodyWF (fixedText m e prec alt) := by
  unfold fixedText
  simp only
  generalize scaled m e ↑prec = n
  by_cases hp : prec > 0
  · rw [if_pos hp]
    generalize hds : List.replicate (prec + 1 - (natDigits 10 false n).length) 48 ++ natDigits 10 false n = ds
    have hdig : IsDigits ds := hds ▸ isDigits_append (isDigits_zeros _) (natDigits_isDigits n)
    have hlen : ds.length = (prec + 1 - (natDigits 10 false n).length) + (natDigits 10 false n).length := by
      rw [← hds, List.length_append, List.length_replicate]
    rw [List.append_assoc, List.singleton_append]
    apply bodyWF_fixed _ _ _ (hdig.drop _)
    refine ⟨hdig.take _, ?_, ?_⟩
    · intro e0
      have := congrArg List.length e0
      simp only [List.length_take, List.length_nil] at this
      omega
    · by_cases hk : ds.length - prec = 1
      · left; simp only [List.length_take]; omega
      · right
        have hlong : prec + 1 < (natDigits 10 false n).length := by omega
        have hz : prec + 1 - (natDigits 10 false n).length = 0 := by omega
        rw [hz] at hds
        simp only [List.replicate_zero, List.nil_append] at hds
        have hn : 0 < n := by
          rcases Nat.eq_zero_or_pos n with h0 | h0
          · subst h0; rw [natDigits_zero] at hlong; simp at hlong
          · exact h0
        have hh := natDigits_head 10 false (by omega) (by omega) n hn
        rw [hds] at hh
        obtain ⟨k, hk'⟩ : ∃ k, ds.length - prec = k + 1 := ⟨ds.length - prec - 1, by omega⟩
        rw [hk']
        cases ds with
        | nil => simp at hlen; omega
        | cons a t => simpa using hh
  · rw [if_neg hp]
    cases alt
    · simpa using bodyWF_int _ (natDigits_isIntPart n)
    · simpa using bodyWF_fixed _ [] (natDigits_isIntPart n) (fun _ h => by simp at h)

end Gpc.Printf
