import Gpc.Model.Proto
import Gpc.Model.TestFw
namespace Gpc.Driver
open Gpc.Proto Gpc.TestFw

def parseTfOp (s : String) : Option (Bool × Op) :=
  let (tid, body) := if s.startsWith "@" then (true, (s.drop 1).toString) else (false, s)
  let nm (r : String) : Option (Option Nat) := if r == "-" then some none else r.toNat?.map some
  match body.toList with
  | 'S' :: r => (nm (String.ofList r)).map fun n => (tid, Op.suite n)
  | 'T' :: r => (nm (String.ofList r)).map fun n => (tid, Op.test n)
  | ['E', '1'] => some (tid, Op.expect true)
  | 'E' :: '0' :: _ => some (tid, Op.expect false)
  | ['A', '1'] => some (tid, Op.assert true)
  | ['A', '0'] => some (tid, Op.assert false)
  | ['X'] => some (tid, Op.endTesting)
  | _ => none

def showTfEv : Ev → String
  | .testVerdict n p => s!"t{n}:" ++ (if p then "P" else "F")
  | .suiteVerdict n p => s!"s{n}:" ++ (if p then "P" else "F")
  | .suiteStart n => s!"S{n}"
  | .failMsg => "f"
  | .summary a b c d => s!"sum:{a},{b},{c},{d}"

def tfStep (toks : List String) : String :=
  match toks with
  | [script] =>
    let parts := if script == "-" then [] else script.splitOn ","
    match parts.mapM parseTfOp with
    | none => "bad-op"
    | some ops =>
      let (g, st) := runProgram ops
      s!"status={st} " ++ (if g.out.isEmpty then "-" else " ".intercalate (g.out.map showTfEv))
  | _ => "bad-op"

end Gpc.Driver
