/* C07 driver: encoding form conversions.  Sources are given both as exact-size plain malloc
 * buffers and as library objects; destinations start with the requested capacity. */
#include <gpc/unicode.h>
#include <gpc/string.h>
#include <gpc/array.h>
#include <gpc/memory.h>
#include <wchar.h>
#include "proto.h"

#define P61 2305843009213693951ull
static uint64_t mix(uint64_t acc, uint64_t v) { return (uint64_t)(((unsigned __int128)acc * 31 + v + 1) % P61); }

static size_t parse_nats(const char* s, uint32_t** out)
{
    if (!strcmp(s, "-")) { *out = malloc(1); return 0; }
    size_t n = 1; for (const char* p = s; *p; p++) if (*p == ',') n++;
    uint32_t* v = malloc(n * sizeof *v);
    size_t i = 0; const char* p = s;
    while (*p) { v[i++] = (uint32_t)strtoul(p, (char**)&p, 10); if (*p == ',') p++; }
    *out = v; return n;
}
static void put_u32s(const uint32_t* v, size_t n)
{ if (!n) fputs("-", stdout); for (size_t i = 0; i < n; i++) printf("%s%u", i ? "," : "", v[i]); }
static void put_u16s(const uint16_t* v, size_t n)
{ if (!n) fputs("-", stdout); for (size_t i = 0; i < n; i++) printf("%s%u", i ? "," : "", v[i]); }

int main(void)
{
    setvbuf(stdout, NULL, _IOFBF, 1 << 16);
    while (vp_next()) {
        if (vp_ntok < 2 || strcmp(vp_tok[0], "utf") != 0) { puts("bad-op"); fflush(stdout); continue; }
        char** t = vp_tok + 1; int n = vp_ntok - 1;
        if (!strcmp(t[0], "enc") && n == 2) {
            uint8_t* buf = malloc(4);           /* "at least 1 to 4 bytes" */
            size_t l = gp_utf8_decode(buf, (uint32_t)strtoul(t[1], NULL, 10));
            vp_puthex(buf, l); puts(""); free(buf);
        } else if (!strcmp(t[0], "dec") && n == 2) {
            size_t len; uint8_t* b = vp_hex(t[1], &len); uint32_t cp;
            size_t l = gp_utf8_encode(&cp, b, 0);
            printf("%u %zu\n", cp, l); free(b);
        } else if ((!strcmp(t[0], "sweep8") || !strcmp(t[0], "sweep16")) && n == 3) {
            uint32_t lo = (uint32_t)strtoul(t[1], NULL, 10), hi = (uint32_t)strtoul(t[2], NULL, 10);
            uint64_t acc = 0, nfail = 0;
            bool s16 = t[0][5] == '1';
            for (uint32_t c = lo; c < hi; c++) {
                if (0xD800 <= c && c <= 0xDFFF) continue;
                uint8_t* e = malloc(4);
                size_t l = gp_utf8_decode(e, c);
                if (!s16) {
                    for (size_t i = 0; i < l; i++) acc = mix(acc, e[i]);
                    uint8_t* x = malloc(l); memcpy(x, e, l);   /* exact size: decode must not over-read */
                    uint32_t back; size_t l2 = gp_utf8_encode(&back, x, 0);
                    if (back != c || l2 != l) nfail++;
                    free(x);
                } else {
                    GPArray(uint16_t) u16 = gp_arr_new(gp_heap, sizeof(uint16_t), c & 3);
                    uint8_t* x = malloc(l); memcpy(x, e, l);
                    gp_utf8_to_utf16(&u16, x, l);
                    for (size_t i = 0; i < gp_arr_length(u16); i++) acc = mix(acc, u16[i]);
                    size_t ul = gp_arr_length(u16);
                    uint16_t* plain = malloc(ul * 2 + (ul == 0)); memcpy(plain, u16, ul * 2);
                    GPString s = gp_str_new(gp_heap, c & 7, "");
                    gp_utf16_to_utf8(&s, plain, ul);
                    if (gp_str_length(s) != l || memcmp(s, e, l) != 0) nfail++;
                    gp_str_delete(s); free(plain); free(x); gp_arr_delete(u16);
                }
                free(e);
            }
            printf("%llu %llu\n", (unsigned long long)acc, (unsigned long long)nfail);
        } else if ((!strcmp(t[0], "to32") || !strcmp(t[0], "towcs")) && n == 3) {
            size_t cap = strtoull(t[1], NULL, 10), len; uint8_t* b = vp_hex(t[2], &len);
            bool wcs = t[0][2] == 'w';
            GPArray(uint32_t) a = gp_arr_new(gp_heap, sizeof(uint32_t), cap);
            GPArray(uint32_t) a2 = gp_arr_new(gp_heap, sizeof(uint32_t), cap);
            GPString src = gp_str_new(gp_heap, len, ""); gp_str_copy(&src, b, len);
            if (wcs) { gp_utf8_to_wcs((GPArray(wchar_t)*)&a, b, len); gp_utf8_to_wcs((GPArray(wchar_t)*)&a2, src, len); }
            else     { gp_utf8_to_utf32(&a, b, len); gp_utf8_to_utf32(&a2, src, gp_str_length(src)); }
            put_u32s(a, gp_arr_length(a));
            if (wcs) fputs(a[gp_arr_length(a)] == 0 ? " T" : " no-terminator", stdout);
            if (gp_arr_length(a) != gp_arr_length(a2) || memcmp(a, a2, gp_arr_length(a) * 4)) fputs(" src-kind-disagree", stdout);
            puts("");
            gp_arr_delete(a); gp_arr_delete(a2); gp_str_delete(src); free(b);
        } else if ((!strcmp(t[0], "to8") || !strcmp(t[0], "fromwcs")) && n == 3) {
            size_t cap = strtoull(t[1], NULL, 10); uint32_t* v; size_t vl = parse_nats(t[2], &v);
            bool wcs = t[0][0] == 'f';
            uint32_t* plain = malloc(vl * 4 + (vl == 0)); memcpy(plain, v, vl * 4);   /* exact size, no array header */
            GPArray(uint32_t) arr = gp_arr_new(gp_heap, sizeof(uint32_t), vl);
            memcpy(arr, v, vl * 4); ((GPArrayHeader*)arr - 1)->length = vl;
            GPString s = gp_str_new(gp_heap, cap, ""), s2 = gp_str_new(gp_heap, cap, "");
            if (wcs) { gp_wcs_to_utf8(&s, (wchar_t*)plain, vl); gp_wcs_to_utf8(&s2, (wchar_t*)arr, vl); }
            else     { gp_utf32_to_utf8(&s, plain, vl); gp_utf32_to_utf8(&s2, arr, vl); }
            vp_puthex(s, gp_str_length(s));
            if (gp_str_length(s) != gp_str_length(s2) || memcmp(s, s2, gp_str_length(s))) fputs(" src-kind-disagree", stdout);
            puts("");
            (void)gp_cstr(s);   /* the terminator must fit */
            gp_str_delete(s); gp_str_delete(s2); gp_arr_delete(arr); free(plain); free(v);
        } else if (!strcmp(t[0], "to16") && n == 3) {
            size_t cap = strtoull(t[1], NULL, 10), len; uint8_t* b = vp_hex(t[2], &len);
            GPArray(uint16_t) a = gp_arr_new(gp_heap, sizeof(uint16_t), cap);
            gp_utf8_to_utf16(&a, b, len);
            put_u16s(a, gp_arr_length(a)); puts("");
            gp_arr_delete(a); free(b);
        } else if (!strcmp(t[0], "from16") && n == 3) {
            size_t cap = strtoull(t[1], NULL, 10); uint32_t* v; size_t vl = parse_nats(t[2], &v);
            uint16_t* plain = malloc(vl * 2 + (vl == 0));
            for (size_t i = 0; i < vl; i++) plain[i] = (uint16_t)v[i];
            GPString s = gp_str_new(gp_heap, cap, "");
            gp_utf16_to_utf8(&s, plain, vl);
            vp_puthex(s, gp_str_length(s)); puts("");
            (void)gp_cstr(s);
            gp_str_delete(s); free(plain); free(v);
        } else puts("bad-op");
        fflush(stdout);
    }
    return 0;
}
