#!/usr/bin/env python3
"""writes /verif/MANIFEST.json from the table below (kept in one place so it stays valid)"""
import json
import os

ROOT = os.path.dirname(os.path.dirname(os.path.abspath(__file__)))
PROOF_NOTE = ("Trusted: Lean 4.33 kernel (+leanchecker in the thorough tier); axioms limited to propext/"
              "Classical.choice/Quot.sound (audited every run by #print axioms; no sorry/native_decide/bv_decide); "
              "the hand-written model is tied to the C code by the correspondence run (differential, ASan/UBSan build of "
              "/repo's working tree vs the compiled Lean model on the same case lines) and an independent Python oracle. ")

CLAIMED = {
    "C20": dict(
        technique="Lean 4 theorems over a hand-written model (FNV folds, bit smearing, bounds, PCG32) + correspondence",
        text="Theorems for all inputs: FNV-1a 32/64/128 loops = the mathematical fold; next-power-of-two (32/64) is the least "
             "power of two > x for every x below 2^(w-1); round_to_aligned is the least multiple >= x; check_bounds leaves "
             "start<=end<=limit and returns true iff the range was valid/unchanged; ranged random ints lie in [min,max] for all "
             "int32 incl. extremes and min==max; fractions in [0,1); equal seeds equal streams.",
        note="Modelled, not verified: gcc's __int128 multiply, ldexp, termination of the PCG rejection loop (fuel). "
             "Correspondence is sampled (boundary grids + seeded random); the thorough tier sweeps all 2^31 arguments of the "
             "32-bit next-power-of-two on the C side.",
        ref="6 C20"),
}

CLAIMED["C08"] = dict(
    technique="Lean 4 theorems over a hand-written model of the search loops + exhaustive small-alphabet correspondence",
    text="Theorems for all haystacks/needles/starts: find_first = least occurrence >= start (not-found iff none), find_last = "
         "greatest occurrence via the real right-to-left candidate loop, count = number of occurrence positions (overlaps "
         "included), find_first_of/_not_of = first member/non-member position, equal = byte equality, equal_case = equality "
         "after A-Z -> a-z; every read of the model is bounds-checked and proved in bounds.",
    note="Modelled, not verified: glibc memmem/strchr/memcmp (their contracts are Lean definitions). The code-point set "
         "variants gp_str_find_first_of/_not_of are not covered by a theorem yet. Correspondence: exhaustive over alphabets "
         "{a,b} (haystack<=8/11) and {a,b,c} (<=5/7), all needles<=4/3, all starts; seeded random beyond.",
    ref="6 C08")

CLAIMED["C06"] = dict(
    technique="Lean 4 theorems: packed-word validator = Unicode Table 3-7 (bit masks -> byte ranges), scanner/ASCII/count/repair loops by induction; exhaustive short-string correspondence at every alignment",
    text="Theorems for all byte strings: the validator (lead-byte table + packed-word ranges/masks) accepts exactly the "
         "concatenations of Unicode Table 3-7 sequences and reports the length of the longest well-formed prefix; the ASCII "
         "check returns the first byte >= 0x80 for every length and address alignment and never reads outside the string; the "
         "code point count equals the number of non-continuation bytes at every alignment; gp_str_to_valid equals the greedy "
         "repair, yields well-formed output when the replacement is, is the identity on valid input and keeps well-formed "
         "stretches in place.",
    note="Modelled, not verified: the 8-byte memcpy block tests (x & 0x80..80, SWAR popcount) are modelled at byte level "
         "(any byte >= 0x80 / number of continuation bytes) and tied by the correspondence run only; gp_bytes_to_valid (ASCII "
         "repair) has a model and correspondence but no theorem. Correspondence: every string of length <= 2 (UTF-8) and <= 2 at "
         "all 8 alignments (ASCII, count), length 3 with lattice first bytes (quick) / all first bytes (thorough), lattice^4 "
         "packed words, random/lattice strings to 4 KiB.",
    ref="6 C06")

CLAIMED["C07"] = dict(
    technique="Lean 4 theorems (bit masks/shifts -> div/mod arithmetic; induction over strings) + correspondence exhaustive over all scalar values",
    text="Theorems: decoding the encoding of any value < 0x110000 returns it (arithmetic proof, no enumeration); every Unicode "
         "Table 3-7 sequence decodes to a scalar value whose encoding is that sequence; UTF-8 -> UTF-32 and UTF-32 -> UTF-8 "
         "produce exactly the scalar values / concatenated encodings for EVERY initial destination capacity with all writes "
         "inside the current capacity; both round trips; the surrogate arithmetic equals the standard's UTF-16 form for all 17 "
         "planes and is inverted by the pair-joining code.",
    note="Modelled, not verified: gp_arr_reserve/gp_str_reserve (capacity becomes at least the request), the capacity-phase "
         "structure of utf8->utf16 (the model decodes then maps; its capacity independence is observed by the correspondence "
         "run at capacities 0..needed+4). wchar_t = 32 bit here, so the wide functions exercise the UTF-32 path. Correspondence: "
         "all 1,112,064 scalars through enc/dec and UTF-16 both ways, strings x capacities, plain exact-size and library sources.",
    ref="6 C07")

CLAIMED["C01"] = dict(
    technique="Lean 4 invariant proofs over a node/ledger model of the arena (any growth function, max_size, alignment) + script correspondence with heap traffic",
    text="Theorems for every growth function, max_size, alignment > 0 and request size: the invariant (pos <= cap = bytes "
         "obtained; live blocks aligned, in allocation order, pairwise disjoint, below pos) holds initially and is preserved by "
         "alloc, realloc (last block in place or moved, non-last moved) and rewind; alloc returns an aligned block backed by "
         ">= n bytes inside the node's obtained memory with every other live block of the node entirely below it and other "
         "nodes untouched; rewind to a live block pops exactly the newer nodes and keeps exactly the older entries; realloc "
         "copies exactly min(old,new) bytes or nothing when the block stays.",
    note="Modelled, not verified: malloc (fresh disjoint 16-aligned regions), the double product growth*capacity (an arbitrary "
         "function in the theorems, k*cap/8 in the correspondence), block CONTENTS (the theorems state which bytes are copied "
         "and that ranges are disjoint; contents are observed by the correspondence run with pattern-filled blocks under ASan). "
         "Alignment 32/64 is a KNOWN FINDING (only 16-byte aligned). Shared arena = arena + lock (lock: C14).",
    ref="6 C01")

CLAIMED["C02"] = dict(
    technique="Lean 4 refinement proof: scope factory (arena of 64-byte records, pointer arithmetic, parent pointers, rewind) refines a stack; multi-thread script correspondence",
    text="Refinement theorems for every nesting depth and history: begin pushes a fresh scope whose parent is the previous "
         "innermost scope; gp_last_scope is the innermost live scope or the fallback, never a garbage pointer; defer appends to "
         "exactly one scope; ending the scope at depth i emits, innermost first, each ended scope's deferred calls once in LIFO "
         "order followed by its release, and leaves exactly the older scopes (records intact, factory invariant re-established "
         "incl. the pop of an emptied factory node); thread exit ends all remaining scopes the same way.",
    note="Built on the C01 arena model (the factory IS a C01 arena with growth 2, max 1<<15, alignment 16; sizeof(GPScope)=64 "
         "read from the source, checked by the correspondence). Modelled, not verified: the scopes' own arenas (C01), the defer "
         "stack's doubling inside the scope arena (a list in the model), pthread TLS destructors / atexit (observed by the "
         "correspondence run only).",
    ref="6 C02")

CLAIMED["C05"] = dict(
    technique="Lean 4 refinement proof: tree of slot arrays (cells addressed by paths, as-written put/get/remove loops) refines a dictionary; destructor ledger; adversarial-key script correspondence",
    text="Theorems for arbitrary natural-number keys (hence every 128-bit key set): under the invariant (tree shape, depth "
         "bound, at most one element per key) get returns exactly the element held for the key; put k e makes k hold e, leaves "
         "every other key unchanged and hands exactly the replaced element to the destructor; remove k reports presence, "
         "empties k only, destroys exactly that element; the invariant is preserved; lifted to all histories (history_refines) "
         "against a functional dictionary + log; ledger theorem: each put element is destroyed at most once, never while "
         "retrievable, and is otherwise still live.",
    note="Modelled, not verified: index/shift are key % width and key / width (the C code uses & (len-1) and >> log2 len; "
         "equal for the power-of-two lengths the map computes); gp_map_delete's traversal (the driver enumerates live "
         "elements through the model's get; observed by the correspondence), FNV-128 of byte keys is C20's model; element "
         "identity is an id carried in the element; pointer maps must not store NULL.",
    ref="6 C05")

CLAIMED["C03"] = dict(
    technique="Lean 4 theorems over a header+byte-storage model with bounds-checked memmove/memcpy (C index arithmetic) + script correspondence over element sizes and storage kinds",
    text="Theorems for every element size, capacity and content: reserve keeps the element bytes and the invariant "
         "(length <= capacity, |storage| = capacity*es) on heap/arena/stack storage; push, pop, append, insert, erase, copy, "
         "slice (in place and from a source), map (in place and from a source), filter (in place loop and from a source) "
         "never leave the storage (every checked primitive succeeds), keep the invariant and yield exactly the sequence "
         "operation's bytes; folds are the list folds; heap traffic replays with every block freed exactly once after delete; "
         "a stack array with a fallback allocator moves to the allocator when it outgrows the stack.",
    note="Modelled, not verified: gp_mem_alloc/realloc/dealloc (C01), the in-place filter is modelled as one copy-down loop "
         "(the C code skips the self-copies of the leading matches), in-place map writes the mapped bytes in one step; "
         "callbacks are pure functions of the element bytes. Correspondence: scripts over es in {1,2,3,4,5,7,8,12,16,24,33,64} "
         "x {heap, tight arena, default arena with live neighbour, scope, stack+allocator, stack without allocator}.",
    ref="6 C03")

CLAIMED["C04"] = dict(
    technique="Lean 4 theorems over buffer-level models with checked memmove/memcpy, the GPString capacity+1 invariant, and a proved UTF-8 self-synchronisation lemma for strstr-based set membership",
    text="Theorems: every fixed-buffer gp_bytes_* edit (append, insert, replace_range, slice, repeat, trim) writes exactly the "
         "byte-sequence result, reports its length and stays inside a destination that has room; GPString invariant "
         "(length <= capacity, storage = capacity+1) holds after gp_str_new, is preserved by gp_str_reserve on every storage "
         "kind and by every edit, so gp_cstr always terminates in place without changing content; copy/append/insert/repeat/"
         "slice/replace-first/replace-all (vs a left-to-right non-rescanning spec)/ASCII trim/join equal the list operations; "
         "for valid UTF-8: strstr-membership of one code point in a set = membership in the set's code points (self-"
         "synchronisation proved from Unicode Table 3-7), hence UTF-8 trim (left loop, backwards right loop), code point set "
         "search and split (maximal runs of non-separators) equal their code-point-level specifications.",
    note="Modelled, not verified: glibc memmem/strstr/strspn/strchr as list functions; growth keeps the first `length` "
         "bytes (arena realloc keeps more - unobservable); split's 256-entry batching and the substring allocation (the model "
         "returns the substrings; batches are exercised by the correspondence with up to 700 parts); gp_bytes_replace_all on a "
         "fixed buffer has a model and correspondence but its theorem is the GPString version. gp_str_to_valid is C06.",
    ref="6 C04")

CLAIMED["C11"] = dict(
    technique="T-gen (model regenerated every run by executing the compiled functions over all 0x110000 code points) + kernel-checked table equality with the vendored UCD + Lean theorems for the string drivers and the case-orbit walk",
    text="Theorems: the regenerated upper/lower/title tables EQUAL the UCD Simple_*case_Mapping tables (kernel-checked list "
         "equality of canonical range tables => equal on every code point); scalar values map to scalar values; "
         "gp_str_to_upper/lower/title of valid UTF-8 = the UTF-8 of the pointwise UCD mapping (valid, same number of code "
         "points); gp_str_equal_case holds exactly when the simple case foldings (UCD scf, status C+S) of the two code point "
         "lists are equal - proved from per-class kernel checks over all 2,878 case-variant code points (the implementation's "
         "fold walks each class in increasing cyclic order; members share one scf value) plus a symbolic lemma for the walk on "
         "2-, 3- and 4-element orbits; hence an equivalence relation.",
    note="Trusted: the extractor (runs the compiled code, ~40 lines of C + the Python range compressor), the vendored UCD "
         "(perl 5.36 unicore, Unicode 14.0; cross-checked with CPython 3.13 / 15.1: identical on every single-code-point "
         "result), the C07 codec theorems. The fold and scf lookups used in the kernel checks are balanced search trees emitted "
         "by the generator (the model of gp_u32_simple_fold IS that tree; tied to the code by the correspondence run).",
    ref="6 C11")

CLAIMED["C19"] = dict(
    technique="Lean model of src/assert.c's bookkeeping (thread-local current test/suite + marks, global counters, atexit) + T-corr against real child processes (exhaustive scripts to length 5/6) + reference tally",
    text="Theorems (single-threaded programs of any length): exit status != 0 IFF an expectation failed while a test or suite "
         "was running or an assertion failed (exit_failure_iff, `marks` is the property-level definition); a failing assertion "
         "ends the process at once with a failure status (assert_false_ends / _fails); the PASSED/FAILED lines are exactly one per "
         "test / suite started in the executed prefix, in order, FAILED iff something failed while it was running "
         "(each_reported_once', the executed prefix `cut` is characterised without the model's state); every summary line equals "
         "the tallies of verdict lines since the last clean summary (summary_counts).",
    note="Two-thread programs (second thread ends its own tests) are covered by the correspondence run and the reference tally "
         "only. Message rendering of gp_fail_internal is exercised (E0f: extra arguments and format strings) but only its presence "
         "is compared. Trusted: harness c19.c (parses the framework's own output lines), the driver.",
    ref="6 C19")

CLAIMED["C09"] = dict(
    technique="Lean specification of C11 7.21.6.1 (exact integer and IEEE-754 arithmetic) + model of the scanner, writers and padding + T-corr three ways (implementation / model, glibc / Lean spec, implementation / exact big-integer reference)",
    text="PROOF for the integer/char/string/pointer conversions, PARTIAL (correspondence) for floating point digits. Theorems: for every format built from c s d i o u x X p %% (all flags, width, precision, '*', length modifiers), every "
         "argument list and every destination, the model of the formatter writes exactly the specification's text and returns its "
         "length (formatter_meets_spec; via per-writer lemmas for sign, zero-fill, '#', zero value with zero precision, negative '*' "
         "width and the padding insertion offsets); laws of the specification: digits are positional notation in every base 2..16 "
         "without leading zero (natDigits_value), rounding is to nearest with ties to even on the exact quotient "
         "(roundDiv_nearest_even), field padding law. f F e E g G: on the model side proved for every value, precision, width and "
         "flag set - the specification's text of a finite value is always a well-formed number (floatParts_wf: fixedText_wf, "
         "expText_wf, gText_wf with its zero stripping), the converter's output steps (pf_utoa first block, blocks of nine digits, "
         "pf_pad zeros, the d.ddd block, the exponent) spell every well-formed text (planText_bodyPlan), hence the model's text "
         "is the specification's (float_text) and formatter_meets_spec extends to all conversions (formatter_meets_spec_all). "
         "The text of %f denotes the correctly rounded value: its digits with the point removed spell m*2^e*10^prec rounded to "
         "nearest, ties to even, with exactly prec digits after the point (fixed_correctly_rounded, from fixedText_value and "
         "roundDiv_nearest_even); the significant digits of %e are the value scaled to the printed exponent, rounded the same way "
         "(exp_digits_correctly_rounded). PARTIAL in one respect only: that the implementation's Ryu digit generation yields the specification's "
         "digits is established by correspondence (all generated cases, checked against glibc and the exact reference), not by "
         "a theorem. The type-directed print family: each value is rendered as its default conversion (print_default_conversions) "
         "and a print call writes the concatenated text and returns its length (print_writes_text); embedded format strings go "
         "through the same formatter; gp_count_fmt_specs equals the number of arguments the formatter's own scanner takes for every "
         "format that scanner accepts (count_fmt_specs_eq_args_consumed, via a byte-level decomposition of a conversion "
         "specification: scanSpec_dec), the formatter looks at exactly that many arguments (formatter_uses_exactly_its_arguments) "
         "and the objects after an embedded format are split exactly (print_format_objects_split).",
    note="Trusted: harness c09.c incl. its x86-64 variadic call shape, the driver, the Python reference (oracle). glibc's %#g carry "
         "bug is arbitrated by the exact reference. %lc and %S are modelled (convert_c, convert_S). Not modelled: pf_printf/pf_fprintf buffering (the stream writers are exercised by correspondence).",
    ref="6 C09")

CLAIMED["C10"] = dict(
    technique="Lean model of struct pf_string and every helper that writes through it as checked primitives (a write outside the destination = none) + T-corr at every limit n on exact-size destinations under ASan",
    text="Theorems, for every length, capacity and argument: pf_concat / pf_pad / pf_push_char / pf_insert_pad / the integer writers "
         "with precision zero-fill / the '#o' variant never write outside the destination and leave the first `capacity` bytes of "
         "the unbounded result (helpers_in_bounds); the float writer does so for EVERY plan of digit-block output steps "
         "(float_emit_in_bounds: pf_append_utoa/_nine_digits/_c_digits/_d_digits direct and clipped paths); hence for every format "
         "and arguments with a defined text and every limit n incl. 0: pf_snprintf stays inside n bytes, returns the complete "
         "length and leaves exactly the first min(len,n) bytes of the complete output, with or without the terminator "
         "(bounded_prefix).",
    note="Bounded print: inside n bytes, prefix, complete length (bounded_print); bounded println: objects, separators and the "
         "newline all inside n bytes (bounded_println_in_bounds); gp_str_print's reservation suffices for integers, chars, bools, "
         "strings, pointers (estimate_suffices; the 15-byte %g bound by correspondence). Floats: the emission is proved for every plan; which plan the Ryu code "
         "computes is C09's correspondence. Trusted: harness c09.c, driver.",
    ref="6 C10")

CLAIMED["C12"] = dict(
    technique="T-gen (the compiled functions run on every single code point under each locale; tables regenerated every run) + kernel-checked equality with the vendored UCD + Lean model of the context logic + Unicode default conversion as specification + T-corr",
    text="PROOF for the context-free part and for ordinary words, PARTIAL (known findings) for the context rules. Theorems: for every "
         "code point and each locale the library distinguishes ('' / tr+az / lt) the full upper, lower and title mapping applied to "
         "a code point on its own equals the Unicode full mapping (upper1_eq / lower1_eq / title1_eq, from kernel-checked equality of "
         "the regenerated tables with UCD SpecialCasing); for every string without context-sensitive code points, of any length and "
         "with any number of expansions, upper- and lower-casing equal the Unicode default conversion (upper_plain, lower_plain); in "
         "ordinary words (letters on which the library's letter test agrees with Cased - Greek and Latin do, checked - and no "
         "case-ignorable characters or marks) capital sigma becomes final sigma exactly in word-final position, for every locale "
         "(lower_ordinary_words); capitalisation changes only the first code point and is its Unicode titlecase mapping "
         "(capitalize_only_first, capitalize_eq_spec); results consist of scalar values (upper1_scalar, tables_scalar).",
    note="Context rules (Final_Sigma across case-ignorable characters or other scripts, More_Above, After_Soft_Dotted, Before_Dot / "
         "After_I across intervening marks) and the U+0345 reordering deviate from the Unicode default conversion; each is a KNOWN "
         "FINDING (known_findings.json, 5 families) exhibited by `decide`d witnesses in Props/C12.lean and classified by the oracle: a "
         "deviation that is not exactly one of these families is reported as a new violation. Trusted: extractor c12_extract.c, the "
         "vendored UCD, harness c12.c, driver.",
    ref="6 C12")

CLAIMED["C13"] = dict(
    technique="Lean model of gp_str_compare / gp_str_sort over code point lists + T-gen of the full case folding table (every code point, '' and tr) kernel-checked against UCD CaseFolding + T-corr on triples and arrays",
    text="Theorems: the code point comparison is zero exactly for equal strings, its sign is antisymmetric, it is transitive and "
         "total (cmpCps_zero_iff, cmpCps_antisymm, cmpCps_trans, cmpCps_total), negative exactly when the first string is a proper "
         "prefix or smaller at the first difference (cmpCps_neg_cases); the reverse flag negates every mode (compare_reverse, "
         "compare_antisymm); GP_CASE_FOLD comparison is zero exactly when the Unicode full case foldings (Turkic option under tr/az) "
         "are equal, for all strings incl. U+0000 (compare_fold_zero_iff_spec, from fold1 = UCD C+F by kernel-checked table equality); "
         "every comparator handed to qsort is a total preorder (comparator_total_preorder) and sorting by it gives a permutation that "
         "is non-decreasing / non-increasing under the selected comparison for any number of strings (sort_sorted_perm); the byte-indexed "
         "loop the C code runs without fold / collation (decode at the same byte position of both operands, end on the byte lengths) "
         "decides exactly as the code point comparison on well-formed UTF-8 (cmpBytes_encoding, plain_compare_is_codepoint_order) - "
         "the driver executes that byte loop.",
    note="Trusted: qsort, wcscoll (C.UTF-8 only - no other locale is installed; collation cannot see past U+0000, such inputs are "
         "not generated under GP_COLLATE), the extractor, harness c12.c. Not proved: that plain memcmp order equals code point "
         "order (the library does not use memcmp here).",
    ref="6 C13")

CLAIMED["C15"] = dict(
    technique="Lean model of every scratch-using function as its sequence of arena operations, run on the C01 arena model + T-corr of the exact heap traffic (sizes requested, nodes freed) and the scratch position, each call in a fresh thread",
    text="Theorems: after a zero-size allocation taken as rewind point, ANY sequence of allocations and of reallocations of "
         "blocks allocated behind it leaves the nodes below untouched (above_alloc, above_realloc) and rewinding to the point "
         "restores capacity and position of every node (rewind_restores) - for every prior arena state; hence simple and full case "
         "mapping, comparison with fold/collate and sorting leave the scratch arena exactly as they found it for every input, any "
         "number of expanding code points and any order in which their temporaries are moved (caseSimple_restores, "
         "caseFull_restores, compare_restores, sort_restores), and any number of repetitions do (repeat_restores: bounded memory). "
         "Linear memory: a work array never holds more than twice the elements needed, or its initial capacity, whatever the "
         "sequence of appended chunks (appends_cap_linear; np2_le_double).",
    note="The heap side (sizes of the nodes the scratch arena requests) depends on the arena's prior state; it is predicted exactly "
         "by the model for a fresh arena and compared with the implementation on every case, and bounded by the oracle "
         "(64 * (|in| + |out|) + 4096 bytes per call), not stated as a theorem. Trusted: harness c12.c (tracking gp_heap, separate "
         "allocator for the strings), driver.",
    ref="6 C15")

CLAIMED["C16"] = dict(
    technique="Lean model of the piecewise readers over the list of remaining bytes + T-corr on real temporary files (every byte value, exhaustive small files with self-overlapping delimiters, destination capacities 0..64) + injected faults (/dev/full, missing file, directory)",
    text="Theorems: whenever data is left gp_file_read_until splits the file into a non-empty segment and the rest; the segment ends "
         "with the delimiter at the FIRST place where the bytes read since the previous segment end with it, or reaches the end of "
         "the file; end of data is reported exactly when nothing is left (readUntil_partition, readUntil_none_iff); reading a line is "
         "reading until newline (readLine_eq_readUntil); the segments of a piecewise read concatenate to exactly the file's bytes, "
         "for every file and delimiter (readAll_concat, until_all, lines_all); on a file made of whole code points gp_file_read_strip, read "
         "piece by piece, yields exactly the maximal runs of code points outside the set, in order, every run non-empty, together "
         "holding every code point outside the set and nothing else (strip_all via readStrip_chunks, runs_flatten, runs_nonempty).",
    note="PARTIAL: gp_file_read_strip on files with bytes that are not lead bytes or that end inside a sequence, and "
         "gp_str_file (round trip, append, failure codes under /dev/full, missing file, directory) are modelled and checked by "
         "correspondence and the reference partition only - OS behaviour is not a theorem. Not provokable here: unreadable file (the "
         "sandbox runs as root), size change between stat and read. Trusted: harness c16.c, driver.",
    ref="6 C16")

CLAIMED["C18"] = dict(
    category="translation_validation",
    technique="the correspondence half of the technique applied to five build forms: multi-file -O0 (reference), multi-file -O3 -DNDEBUG, generated single header -O0 and -O2 (implementation in a translation unit of its own) and generated single header -O3 -DNDEBUG with GPC_IMPLEMENTATION in the caller's translation unit, all built from the working tree, run on the seed-generated call scripts of C03-C09, C11, C16, C19, C20 (plus C12/C13 calls compared across the forms only) and compared with each other and with the Lean models",
    text="NO THEOREM OF ITS OWN (a compiler's optimiser and the header generator are not modelled; a proof cannot apply to them). What "
         "is decided: the single header is generated from the current sources and compiles as one translation unit; every public-API "
         "harness builds against it; on every script of the corpus the transcripts of the five build forms are byte-identical, and "
         "the reference form equals what the verified Lean models (the subjects of the theorems of C03-C09, C11, C16, C19, C20) predict.",
    note="Category translation_validation: equality of behaviours across build forms on a corpus, not for every program. Harnesses that "
         "need library internals (memory.c statics, the tracking heap) are outside the corpus; gcc 12 only.",
    ref="10.7")

CLAIMED["C17"] = dict(
    technique="Lean model of the macro layer as length derivation per configuration (literal / char* / GPString / pointer+length; destination-or-allocator test) followed by the function API + T-corr on GENERATED C programs: every overload form instantiated with random inputs, compiled as -std=gnu11 and as -std=c99 -DGP_PEDANTIC (thorough: also gnu11+GP_PEDANTIC, gnu99) with ASan/UBSan, macro form vs explicit function form vs model, argument evaluation counters, input-unchanged and freshness probes; per-form compile probe",
    text="Theorems: for every macro and argument list accepted by a configuration the macro form equals the explicit function call "
         "with the lengths spelled out (macro_eq_function, via derive_eq_explicit: strlen of a NUL-free literal = sizeof - 1 = the "
         "explicit length; header length; explicit length), the two configurations agree (configurations_agree), the C99 size test "
         "tells destinations from allocators for every allocator type at least as large as GPAllocator (classify99_correct), and an "
         "allocator-destination form returns what the destination form leaves in a destination holding the first input "
         "(alloc_form_is_dest_form_on_copy); insertL_spec. The model's `apply` is tied to src/ by the generated programs: per case "
         "result(macro form) = result(explicit function calls) = model, in each configuration.",
    note="PARTIAL: 'evaluates each argument once', 'inputs unchanged' and 'fresh object' are facts about C evaluation and memory, "
         "not expressible in the pure model; they are decided per generated case by counters and probes only. Which forms exist is "
         "decided by compiling each form alone. Trusted: gen_c17.py (the emitter of both forms), harness c17_rt.h, gcc 12. Known "
         "findings: gp_is_valid(ptr, len[, &i]) does not exist as a C macro form; the C99 gp_replace / gp_replace_all destination "
         "forms return the string, not the position / count.",
    ref="10.8")

CLAIMED["C14"] = dict(
    technique="Lean interleaving model with unboundedly many threads (synchronisation skeletons, lock-bracketed sections around an arbitrary sequential operation, atomic counters) + T-gen: the skeletons of gp_locale, gp_arena_shared_alloc and the test counters are re-extracted from the preprocessed sources on every run + T-corr: the real code (built with -DLIBGPC_VERIF) under a cooperative scheduler, every schedule string up to a length over 2..4 threads, against the model run under the same schedule + witness search: free-running stress of 2..16 threads under ThreadSanitizer and under ASan/LSan with a cross-thread block ledger",
    text="Theorems, for every number of threads, every thread program made of calls of the shared facilities and every schedule: no "
         "reachable state has two threads about to perform conflicting accesses (race_free, library_calls_race_free over the "
         "regenerated control paths, whose discipline - plain accesses only under the object's mutex, atomics only on unguarded "
         "objects, locks released, insertion only after a miss in the same critical section - is re-checked by "
         "generated_paths_disciplined); for any sequential operation f, the shared state and all results of lock; read; write; "
         "unlock sections are those of running the calls one after the other in the order they took effect, each thread's calls "
         "in program order, none lost or duplicated (section_linearizable, section_read_is_current); hence the arena behind the "
         "mutex satisfies C01's invariant - all blocks handed out to whichever thread are disjoint (shared_arena_blocks_exclusive) "
         "- all lookups of one locale code return one object (locale_cache_consistent), and a first-use initialiser modelled as such a "
         "section has run exactly once as soon as one call completed, whatever the number of callers (once_runs_once); atomic counters count every increment "
         "(counters_exact), a plain increment does not (plain_increment_loses_update).",
    note="PARTIAL. Not a theorem: that pthread mutexes / once / thread-specific keys implement the model's lock and once steps; "
         "compiler and hardware reordering (the model is sequentially consistent; outside critical sections only the race "
         "detector speaks); exactly-once release of a thread's scratch arena and scopes at thread exit (checked by LeakSanitizer / "
         "AddressSanitizer in the stress runs and sequentially by C02); the default heap allocator is malloc (trusted). The "
         "skeleton extractor sees calls and branches on the looked-up variable only. Trusted: gen_c14.py, harness c14_sched.c "
         "(scheduler, interposed newlocale), c14_stress.c, clang ThreadSanitizer.",
    ref="10.9")

PENDING = {}

def main():
    props = [json.loads(l) for l in open(os.path.join(ROOT, "properties.jsonl"))]
    checks, na = [], []
    for p in props:
        pid = p["id"]
        if pid in CLAIMED:
            c = CLAIMED[pid]
            checks.append({
                "property_id": pid,
                "quick_cmd": "python3 tools/check.py %s --tier quick" % pid,
                "thorough_cmd": "python3 tools/check.py %s --tier thorough" % pid,
                "evidence_file": "/verif/evidence/%s.json" % pid,
                "replay_cmd_template": "python3 tools/check.py %s --replay {path}" % pid,
                "engine": "lean4-proof+correspondence",
                "level_claimed": {"category": c.get("category", "proof"), "text": c["text"], "design_ref": "DESIGN.md section " + c["ref"]},
                "level_note": PROOF_NOTE + c["note"],
                "technique": c["technique"],
            })
        else:
            na.append({"property_id": pid, "reason": PENDING.get(pid, "not claimed yet: model/theorems/correspondence for this property are not built in this revision of /verif (see DESIGN.md section 10 for status)")})
    m = {
        "version": 1,
        "setup_cmd": "python3 tools/setup.py",
        "hooks": {"guard": "LIBGPC_VERIF", "enable": "the C14 check compiles /repo/src/*.c and harness/c14_sched.c itself with -DLIBGPC_VERIF (pthread configuration: -std=gnu11 -D__STDC_NO_THREADS__ -include pthread.h); every other check builds with the guard off",
                  "baseline_off_cmd": "sh tools/baseline.sh", "source_commits": ["ab009a9", "b45aca4"], "add_only": True},
        "engines": [{"name": "lean4-proof+correspondence", "path": "/verif/tools/check.py",
                     "serves_properties": sorted(CLAIMED),
                     "kind_free_text": "Lean 4 theorems about a model (lake build + axiom audit) tied to /repo by a differential correspondence run and an independent oracle"}],
        "checks": checks,
        "not_applicable": na,
        "notes": "Work in progress: properties move from not_applicable to checks as their model, theorems and correspondence are built.",
    }
    json.dump(m, open(os.path.join(ROOT, "MANIFEST.json"), "w"), indent=1)

if __name__ == "__main__":
    main()
