import Gpc.Proofs.FloatPlan
/-! The specification's texts of finite values are well-formed numbers (`BodyWF`), so the plan theorem
applies to every `%f %F %e %E %g %G` conversion without a side condition. -/
namespace Gpc.Printf

theorem digitChar_isDigit (d : Nat) (h : d < 10) :
    48 ≤ (digitChar false d).toNat ∧ (digitChar false d).toNat ≤ 57 := by
  unfold digitChar
  rw [if_pos h]
  have : (UInt8.ofNat (48 + d)).toNat = 48 + d := by
    rw [UInt8.toNat_ofNat']; omega
  omega

theorem natDigits_isDigits : ∀ n, IsDigits (natDigits 10 false n) := by
  intro n
  induction n using Nat.strongRecOn with
  | _ n ih =>
    rw [natDigits]
    split
    · rename_i h
      intro b hb
      simp only [List.mem_singleton] at hb
      subst hb
      exact digitChar_isDigit n (by omega)
    · rename_i h
      intro b hb
      rcases List.mem_append.mp hb with hb | hb
      · exact ih (n / 10) (by omega) b hb
      · simp only [List.mem_singleton] at hb
        subst hb
        exact digitChar_isDigit (n % 10) (by omega)

theorem natDigits_zero : natDigits 10 false 0 = [48] := by
  rw [natDigits, dif_pos (by omega)]; rfl

theorem natDigits_length_one_of_lt (n : Nat) (h : n < 10) : (natDigits 10 false n).length = 1 := by
  rw [natDigits, dif_pos (by omega)]; rfl

/-- the integer-part condition holds for positional notation -/
theorem natDigits_isIntPart (n : Nat) : IsIntPart (natDigits 10 false n) := by
  refine ⟨natDigits_isDigits n, natDigits_ne_nil 10 false n, ?_⟩
  by_cases h : n = 0
  · left; subst h; rw [natDigits_zero]; rfl
  · right; exact natDigits_head 10 false (by omega) (by omega) n (by omega)

theorem takeWhile_all (l : Bytes) (p : UInt8 → Bool) (h : ∀ b ∈ l, p b = true) : l.takeWhile p = l := by
  induction l with
  | nil => rfl
  | cons a t ih =>
    rw [List.takeWhile_cons_of_pos (h a (by simp)), ih (fun b hb => h b (by simp [hb]))]

theorem dropWhile_all (l : Bytes) (p : UInt8 → Bool) (h : ∀ b ∈ l, p b = true) : l.dropWhile p = [] := by
  induction l with
  | nil => rfl
  | cons a t ih =>
    rw [List.dropWhile_cons_of_pos (h a (by simp)), ih (fun b hb => h b (by simp [hb]))]

theorem takeWhile_append_stop (a t : Bytes) (c : UInt8) (p : UInt8 → Bool) (ha : ∀ b ∈ a, p b = true)
    (hc : p c = false) : (a ++ c :: t).takeWhile p = a := by
  induction a with
  | nil => simp [List.takeWhile_cons, hc]
  | cons x a ih =>
    rw [List.cons_append, List.takeWhile_cons_of_pos (ha x (by simp)), ih (fun b hb => ha b (by simp [hb]))]

theorem dropWhile_append_stop (a t : Bytes) (c : UInt8) (p : UInt8 → Bool) (ha : ∀ b ∈ a, p b = true)
    (hc : p c = false) : (a ++ c :: t).dropWhile p = c :: t := by
  induction a with
  | nil => simp [List.dropWhile_cons, hc]
  | cons x a ih =>
    rw [List.cons_append, List.dropWhile_cons_of_pos (ha x (by simp)), ih (fun b hb => ha b (by simp [hb]))]

theorem digit_ne (b : UInt8) (h : 48 ≤ b.toNat ∧ b.toNat ≤ 57) (c : UInt8) (hc : c.toNat < 48 ∨ 57 < c.toNat) :
    b ≠ c := by
  intro e; subst e; omega

/-- fixed notation without a point -/
theorem bodyWF_int (ip : Bytes) (hi : IsIntPart ip) : BodyWF ip := by
  have hnoexp : ∀ b ∈ ip, decide (b ≠ 101 ∧ b ≠ 69) = true := fun b hb => by
    have := hi.1 b hb
    simp only [decide_eq_true_eq]
    exact ⟨digit_ne b this 101 (by decide), digit_ne b this 69 (by decide)⟩
  have hnodot : ∀ b ∈ ip, decide (b ≠ 46) = true := fun b hb => by
    simp only [decide_eq_true_eq]; exact digit_ne b (hi.1 b hb) 46 (by decide)
  unfold BodyWF
  simp only
  rw [takeWhile_all ip _ hnoexp, dropWhile_all ip _ hnoexp, takeWhile_all ip _ hnodot, dropWhile_all ip _ hnodot]
  exact ⟨fun b hb => by simp at hb, by simpa using hi⟩

/-- fixed notation with a point -/
theorem bodyWF_fixed (ip fr : Bytes) (hi : IsIntPart ip) (hf : IsDigits fr) : BodyWF (ip ++ 46 :: fr) := by
  have hnoexp : ∀ b ∈ ip ++ 46 :: fr, decide (b ≠ 101 ∧ b ≠ 69) = true := fun b hb => by
    simp only [decide_eq_true_eq]
    rcases List.mem_append.mp hb with hb | hb
    · have := hi.1 b hb
      exact ⟨digit_ne b this 101 (by decide), digit_ne b this 69 (by decide)⟩
    · rcases List.mem_cons.mp hb with hb | hb
      · subst hb; decide
      · have := hf b hb
        exact ⟨digit_ne b this 101 (by decide), digit_ne b this 69 (by decide)⟩
  have hnodot : ∀ b ∈ ip, decide (b ≠ 46) = true := fun b hb => by
    simp only [decide_eq_true_eq]; exact digit_ne b (hi.1 b hb) 46 (by decide)
  unfold BodyWF
  simp only
  rw [takeWhile_all _ _ hnoexp, dropWhile_all _ _ hnoexp,
    takeWhile_append_stop ip fr 46 _ hnodot (by decide), dropWhile_append_stop ip fr 46 _ hnodot (by decide)]
  exact ⟨by simpa using hf, by simpa using hi⟩

theorem isDigits_append {a b : Bytes} (ha : IsDigits a) (hb : IsDigits b) : IsDigits (a ++ b) :=
  fun c hc => (List.mem_append.mp hc).elim (ha c) (hb c)

theorem isDigits_zeros (k : Nat) : IsDigits (List.replicate k 48) := fun c hc => by
  have := (List.mem_replicate.mp hc).2; subst this; decide

/-- **`%f` / `%F` texts are well-formed numbers**, for every value, precision and `#` flag -/
theorem fixedText_wf (m : Nat) (e : Int) (prec : Nat) (alt : Bool) : BodyWF (fixedText m e prec alt) := by
  unfold fixedText
  simp only
  generalize scaled m e ↑prec = n
  by_cases hp : prec > 0
  · rw [if_pos hp]
    generalize hds : List.replicate (prec + 1 - (natDigits 10 false n).length) 48 ++ natDigits 10 false n = ds
    have hdig : IsDigits ds := hds ▸ isDigits_append (isDigits_zeros _) (natDigits_isDigits n)
    have hlen : ds.length = (prec + 1 - (natDigits 10 false n).length) + (natDigits 10 false n).length := by
      rw [← hds, List.length_append, List.length_replicate]
    rw [List.append_assoc, List.singleton_append]
    apply bodyWF_fixed _ _ _ (hdig.drop _)
    refine ⟨hdig.take _, ?_, ?_⟩
    · intro e0
      have := congrArg List.length e0
      simp only [List.length_take, List.length_nil] at this
      omega
    · by_cases hk : ds.length - prec = 1
      · left; simp only [List.length_take]; omega
      · right
        have hlong : prec + 1 < (natDigits 10 false n).length := by omega
        have hz : prec + 1 - (natDigits 10 false n).length = 0 := by omega
        rw [hz] at hds
        simp only [List.replicate_zero, List.nil_append] at hds
        have hn : 0 < n := by
          rcases Nat.eq_zero_or_pos n with h0 | h0
          · subst h0; rw [natDigits_zero] at hlong; simp at hlong
          · exact h0
        have hh := natDigits_head 10 false (by omega) (by omega) n hn
        rw [hds] at hh
        obtain ⟨k, hk'⟩ : ∃ k, ds.length - prec = k + 1 := ⟨ds.length - prec - 1, by omega⟩
        rw [hk']
        cases ds with
        | nil => simp at hlen; omega
        | cons a t => simpa using hh
  · rw [if_neg hp]
    cases alt
    · simpa using bodyWF_int _ (natDigits_isIntPart n)
    · simpa using bodyWF_fixed _ [] (natDigits_isIntPart n) (fun _ h => by simp at h)


/-- exponent notation: one leading digit, optionally a point and fraction digits, then the exponent -/
theorem bodyWF_exp_point (d E : UInt8) (fr tail : Bytes) (hd : 48 ≤ d.toNat ∧ d.toNat ≤ 57) (hf : IsDigits fr)
    (hE : E = 101 ∨ E = 69) : BodyWF (d :: 46 :: fr ++ E :: tail) := by
  have hmant : ∀ b ∈ d :: 46 :: fr, decide (b ≠ 101 ∧ b ≠ 69) = true := fun b hb => by
    simp only [decide_eq_true_eq]
    rcases List.mem_cons.mp hb with hb | hb
    · subst hb; exact ⟨digit_ne b hd 101 (by decide), digit_ne b hd 69 (by decide)⟩
    · rcases List.mem_cons.mp hb with hb | hb
      · subst hb; decide
      · have := hf b hb
        exact ⟨digit_ne b this 101 (by decide), digit_ne b this 69 (by decide)⟩
  have hEstop : decide (E ≠ 101 ∧ E ≠ 69) = false := by rcases hE with h | h <;> subst h <;> decide
  have hnodot : ∀ b ∈ [d], decide (b ≠ 46) = true := fun b hb => by
    simp only [List.mem_singleton] at hb; subst hb
    simp only [decide_eq_true_eq]; exact digit_ne b hd 46 (by decide)
  unfold BodyWF
  simp only
  rw [takeWhile_append_stop _ tail E _ hmant hEstop, dropWhile_append_stop _ tail E _ hmant hEstop]
  have e1 : (d :: 46 :: fr) = [d] ++ 46 :: fr := rfl
  rw [e1, takeWhile_append_stop [d] fr 46 _ hnodot (by decide), dropWhile_append_stop [d] fr 46 _ hnodot (by decide)]
  refine ⟨by simpa using hf, ?_⟩
  rw [if_neg (by simp)]
  exact ⟨fun b hb => by simp only [List.mem_singleton] at hb; subst hb; exact hd, rfl⟩

theorem bodyWF_exp_nopoint (d E : UInt8) (tail : Bytes) (hd : 48 ≤ d.toNat ∧ d.toNat ≤ 57)
    (hE : E = 101 ∨ E = 69) : BodyWF (d :: E :: tail) := by
  have hmant : ∀ b ∈ [d], decide (b ≠ 101 ∧ b ≠ 69) = true := fun b hb => by
    simp only [List.mem_singleton] at hb; subst hb
    simp only [decide_eq_true_eq]
    exact ⟨digit_ne b hd 101 (by decide), digit_ne b hd 69 (by decide)⟩
  have hEstop : decide (E ≠ 101 ∧ E ≠ 69) = false := by rcases hE with h | h <;> subst h <;> decide
  have hnodot : ∀ b ∈ [d], decide (b ≠ 46) = true := fun b hb => by
    simp only [List.mem_singleton] at hb; subst hb
    simp only [decide_eq_true_eq]; exact digit_ne b hd 46 (by decide)
  unfold BodyWF
  simp only
  have e1 : d :: E :: tail = [d] ++ E :: tail := rfl
  rw [e1, takeWhile_append_stop _ tail E _ hmant hEstop, dropWhile_append_stop _ tail E _ hmant hEstop,
    takeWhile_all [d] _ hnodot, dropWhile_all [d] _ hnodot]
  refine ⟨fun b hb => by simp at hb, ?_⟩
  rw [if_neg (by simp)]
  exact ⟨fun b hb => by simp only [List.mem_singleton] at hb; subst hb; exact hd, rfl⟩

/-- **`%e` / `%E` texts are well-formed**, for any non-empty digit string -/
theorem expText_wf (ds : Bytes) (x : Int) (alt upper : Bool) (hd : IsDigits ds) (hne : ds ≠ []) :
    BodyWF (expText ds x alt upper) := by
  unfold expText
  simp only
  have hE : (if upper = true then (69 : UInt8) else 101) = 101 ∨ (if upper = true then (69 : UInt8) else 101) = 69 := by
    cases upper <;> simp
  generalize (if upper = true then (69 : UInt8) else 101) = E at hE
  match ds, hd, hne with
  | [d], hd, _ =>
    have hd0 := hd d (by simp)
    cases alt
    · simpa using bodyWF_exp_nopoint d E _ hd0 hE
    · simpa using bodyWF_exp_point d E [] _ hd0 (fun _ h => by simp at h) hE
  | d :: c :: r, hd, _ =>
    have hd0 := hd d (by simp)
    simpa using bodyWF_exp_point d E (c :: r) _ hd0 (fun b hb => hd b (by simp [hb])) hE

theorem expParts_digits (m : Nat) (e : Int) (prec : Nat) :
    IsDigits (expParts m e prec).1 ∧ (expParts m e prec).1 ≠ [] := by
  unfold expParts
  simp only
  split
  · exact ⟨isDigits_zeros _, by simp⟩
  · split
    · exact ⟨natDigits_isDigits _, natDigits_ne_nil _ _ _⟩
    · exact ⟨natDigits_isDigits _, natDigits_ne_nil _ _ _⟩

theorem stripZeros_subset (s : Bytes) : ∀ b ∈ stripZeros s, b ∈ s := by
  intro b hb
  unfold stripZeros at hb
  have := (List.dropWhile_sublist (fun (x : UInt8) => decide (x = 48))).subset (List.mem_reverse.mp hb)
  exact List.mem_reverse.mp this

theorem stripZeros_isDigits {s : Bytes} (h : IsDigits s) : IsDigits (stripZeros s) :=
  fun b hb => h b (stripZeros_subset s b hb)

theorem dropWhile_append_stop' (a t : Bytes) (c : UInt8) (p : UInt8 → Bool) (hc : p c = false) :
    (a ++ c :: t).dropWhile p = a.dropWhile p ++ c :: t := by
  induction a with
  | nil => simp [hc]
  | cons x a ih =>
    by_cases hx : p x
    · rw [List.cons_append, List.dropWhile_cons_of_pos hx, List.dropWhile_cons_of_pos hx, ih]
    · rw [List.cons_append, List.dropWhile_cons_of_neg hx, List.dropWhile_cons_of_neg hx, List.cons_append]

/-- trailing zeros are removed up to the point, never across it -/
theorem stripZeros_point (ip fr : Bytes) : stripZeros (ip ++ 46 :: fr) = ip ++ 46 :: stripZeros fr := by
  unfold stripZeros
  rw [List.reverse_append, List.reverse_cons, List.append_assoc, List.singleton_append,
    dropWhile_append_stop' _ _ 46 _ (by decide)]
  simp

theorem stripZeros_getLast (s : Bytes) : (stripZeros s).getLast? ≠ some 48 := by
  unfold stripZeros
  rw [List.getLast?_reverse]
  intro h
  cases hd : s.reverse.dropWhile (· = 48) with
  | nil => rw [hd] at h; simp at h
  | cons c t =>
    have := dropWhile_head_not _ _ c t hd
    rw [hd] at h
    simp at h this
    exact this h

/-- the shape of fixed notation: an integer part, optionally a point and fraction digits -/
theorem fixedText_shape (m : Nat) (e : Int) (prec : Nat) (alt : Bool) :
    ∃ ip fr, IsIntPart ip ∧ IsDigits fr ∧
      (fixedText m e prec alt = ip ∨ fixedText m e prec alt = ip ++ 46 :: fr) := by
  unfold fixedText
  simp only
  generalize scaled m e ↑prec = n
  by_cases hp : prec > 0
  · rw [if_pos hp]
    generalize hds : List.replicate (prec + 1 - (natDigits 10 false n).length) 48 ++ natDigits 10 false n = ds
    have hdig : IsDigits ds := hds ▸ isDigits_append (isDigits_zeros _) (natDigits_isDigits n)
    have hlen : ds.length = (prec + 1 - (natDigits 10 false n).length) + (natDigits 10 false n).length := by
      rw [← hds, List.length_append, List.length_replicate]
    rw [List.append_assoc, List.singleton_append]
    refine ⟨_, _, ?_, hdig.drop _, Or.inr rfl⟩
    refine ⟨hdig.take _, ?_, ?_⟩
    · intro e0
      have := congrArg List.length e0
      simp only [List.length_take, List.length_nil] at this
      omega
    · by_cases hk : ds.length - prec = 1
      · left; simp only [List.length_take]; omega
      · right
        have hlong : prec + 1 < (natDigits 10 false n).length := by omega
        have hz : prec + 1 - (natDigits 10 false n).length = 0 := by omega
        rw [hz] at hds
        simp only [List.replicate_zero, List.nil_append] at hds
        have hn : 0 < n := by
          rcases Nat.eq_zero_or_pos n with h0 | h0
          · subst h0; rw [natDigits_zero] at hlong; simp at hlong
          · exact h0
        have hh := natDigits_head 10 false (by omega) (by omega) n hn
        rw [hds] at hh
        obtain ⟨k, hk'⟩ : ∃ k, ds.length - prec = k + 1 := ⟨ds.length - prec - 1, by omega⟩
        rw [hk']
        cases ds with
        | nil => simp at hlen; omega
        | cons a t => simpa using hh
  · rw [if_neg hp]
    cases alt
    · exact ⟨_, [], natDigits_isIntPart n, fun _ h => by simp at h, Or.inl (by simp)⟩
    · exact ⟨_, [], natDigits_isIntPart n, fun _ h => by simp at h, Or.inr (by simp)⟩

def gStrip (ds : Bytes) : Bytes := match ds with | [] => [] | d :: r => d :: stripZeros r

theorem gBody_wf (m : Nat) (e : Int) (P : Nat) (alt upper : Bool) : BodyWF (
    if -4 ≤ (expParts m e (P - 1)).snd ∧ (expParts m e (P - 1)).snd < (P : Int) then
      if ¬alt = true ∧ (fixedText m e ((P : Int) - 1 - (expParts m e (P - 1)).snd).toNat alt).contains 46 = true then
        if (stripZeros (fixedText m e ((P : Int) - 1 - (expParts m e (P - 1)).snd).toNat alt)).getLast? = some 46 then
          (stripZeros (fixedText m e ((P : Int) - 1 - (expParts m e (P - 1)).snd).toNat alt)).dropLast
        else stripZeros (fixedText m e ((P : Int) - 1 - (expParts m e (P - 1)).snd).toNat alt)
      else fixedText m e ((P : Int) - 1 - (expParts m e (P - 1)).snd).toNat alt
    else expText (if alt = true then (expParts m e (P - 1)).fst else gStrip (expParts m e (P - 1)).fst)
      (expParts m e (P - 1)).snd alt upper) := by
  have hd := expParts_digits m e (P - 1)
  generalize expParts m e (P - 1) = r at hd ⊢
  obtain ⟨ds, x⟩ := r
  simp only at hd ⊢
  split
  · generalize ((P : Int) - 1 - x).toNat = fp
    obtain ⟨ip, fr, hi, hf, hs⟩ := fixedText_shape m e fp alt
    split
    · rename_i hc
      rcases hs with hs | hs
      · exfalso
        rw [hs] at hc
        have : (46 : UInt8) ∈ ip := List.contains_iff_mem.mp hc.2
        exact digit_ne 46 (hi.1 46 this) 46 (by decide) rfl
      · rw [hs, stripZeros_point]
        cases hfr : stripZeros fr with
        | nil =>
          have : (ip ++ [46]).getLast? = some 46 := by simp
          rw [if_pos this]
          simpa using bodyWF_int ip hi
        | cons c t =>
          have hcd : IsDigits (c :: t) := hfr ▸ stripZeros_isDigits hf
          have hlast : (ip ++ 46 :: c :: t).getLast? ≠ some 46 := by
            rw [List.getLast?_append]
            simp only [List.getLast?_cons_cons]
            intro h46
            have hmem : (46 : UInt8) ∈ c :: t := by
              cases hl : (c :: t).getLast? with
              | none => simp at hl
              | some z =>
                rw [hl] at h46
                simp at h46
                subst h46
                exact List.mem_of_getLast? hl
            exact digit_ne 46 (hcd 46 hmem) 46 (by decide) rfl
          rw [if_neg hlast]
          exact bodyWF_fixed ip (c :: t) hi hcd
    · exact fixedText_wf m e fp alt
  · apply expText_wf
    · cases alt
      · match ds, hd with
        | [], hd => exact absurd rfl hd.2
        | d :: r, hd =>
          simp only [Bool.false_eq_true, if_false, gStrip]
          intro b hb
          rcases List.mem_cons.mp hb with hb | hb
          · subst hb; exact hd.1 b (by simp)
          · exact hd.1 b (by simp [stripZeros_subset r b hb])
      · simpa using hd.1
    · cases alt
      · match ds, hd with
        | [], hd => exact absurd rfl hd.2
        | d :: r, hd => simp [gStrip]
      · simpa using hd.2

/-- **`%g` / `%G` texts are well-formed**: the fixed style with trailing zeros (and then a bare point)
removed, or the exponent style with the fraction's trailing zeros removed -/
theorem gText_wf (m : Nat) (e : Int) (prec : Option Nat) (alt upper : Bool) : BodyWF (gText m e prec alt upper) := by
  unfold gText
  simp only
  match prec with
  | none => exact gBody_wf m e 6 alt upper
  | some 0 => exact gBody_wf m e 1 alt upper
  | some (p + 1) => exact gBody_wf m e (p + 1) alt upper

/-- **every finite value's text, under every conversion, precision and flag set, is well-formed** -/
theorem floatParts_wf (s : Spec) (bits : Nat) (hfin : (floatParts s bits).2.2 = false) :
    BodyWF (floatParts s bits).2.1 := by
  unfold floatParts at hfin ⊢
  simp only at hfin ⊢
  cases hsp : (decode bits).special with
  | some nan => rw [hsp] at hfin; simp at hfin
  | none =>
    simp only
    split
    · exact fixedText_wf _ _ _ _
    · split
      · have hd := expParts_digits (decode bits).m (decode bits).e (s.prec.getD 6)
        exact expText_wf _ _ _ _ hd.1 hd.2
      · exact gText_wf _ _ _ _ _

end Gpc.Printf
