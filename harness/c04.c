/* C04 driver: string edits on every storage kind + fixed-buffer gp_bytes_* variants on exact-size
 * buffers.  After every string op gp_cstr() is called (must not move, lengthen or overrun). */
#include <gpc/string.h>
#include <gpc/bytes.h>
#include <gpc/unicode.h>
#include <gpc/memory.h>
#include <gpc/array.h>
#include "proto.h"

static char* cset(const char* hex) { size_t n; uint8_t* b = vp_hex(hex, &n); char* s = malloc(n + 1); memcpy(s, b, n); s[n] = 0; free(b); return s; }

static void show(GPString s)
{
    size_t len = gp_str_length(s);
    printf("len=%zu ", len);
    vp_puthex(s, len);
    const char* c = gp_cstr(s);          /* ASan: must stay inside the storage */
    if (c != (const char*)s) fputs(" CSTR-MOVED", stdout);
    if (gp_str_length(s) != len) fputs(" CSTR-CHANGED-LENGTH", stdout);
    if (c[len] != 0) fputs(" CSTR-NOT-TERMINATED", stdout);
    if (gp_str_length(s) > gp_str_capacity(s)) fputs(" CAP<LEN", stdout);
    puts("");
}
static void showbuf(const uint8_t* b, size_t len) { printf("%zu ", len); vp_puthex(b, len); puts(""); }

/* destination buffer of EXACTLY cap bytes initialised with the given bytes */
static uint8_t* mkbuf(size_t cap, const uint8_t* init, size_t n) { uint8_t* b = malloc(cap + (cap == 0)); memset(b, 0, cap); if (init && n) memcpy(b, init, n < cap ? n : cap); return b; }

int main(void)
{
    setvbuf(stdout, NULL, _IOFBF, 1 << 16);
    /* real stack strings made by the library's own macro (constant capacities; restored before each use) */
    static const struct { size_t cap; const char* init; } stk_tab[] = {
        { 8, "abcdefgh" }, { 16, "0123456789abcdef" }, { 24, "0123456789abcdefghijklmn" }, { 8, "abc" },
        { 7, "abcdefg" }, { 32, "" }, { 40, "0123456789abcdefghijklmnopqrstuvwxyzABCD" }, { 64, "" }, { 200, "" } };
    GPString stk[9];
    stk[0] = gp_str_on_stack(NULL, 8, "abcdefgh");
    stk[1] = gp_str_on_stack(NULL, 16, "0123456789abcdef");
    stk[2] = gp_str_on_stack(NULL, 24, "0123456789abcdefghijklmn");
    stk[3] = gp_str_on_stack(NULL, 8, "abc");
    stk[4] = gp_str_on_stack(NULL, 7, "abcdefg");
    stk[5] = gp_str_on_stack(NULL, 32, "");
    stk[6] = gp_str_on_stack(NULL, 40, "0123456789abcdefghijklmnopqrstuvwxyzABCD");
    stk[7] = gp_str_on_stack(NULL, 64, "");
    stk[8] = gp_str_on_stack(NULL, 200, "");
    for (int i = 0; i < 9; i++)
        if (gp_str_length(stk[i]) != strlen(stk_tab[i].init) || gp_str_capacity(stk[i]) != stk_tab[i].cap
            || memcmp(stk[i], stk_tab[i].init, strlen(stk_tab[i].init))) { puts("STACK-MACRO-WRONG"); return 1; }
    GPString s = NULL; GPArena arena; GPAllocator* scope = NULL; int kind = 0; void* stackmem = NULL; uint8_t* neighbour = NULL;
    while (vp_next()) {
        if (vp_ntok < 2 || strcmp(vp_tok[0], "str")) { puts("bad-op"); continue; }
        char** t = vp_tok + 1; int n = vp_ntok - 1;
        size_t al = 0, bl = 0; uint8_t *a = NULL, *b = NULL;
        if (!strcmp(t[0], "new") && n == 4) {
            size_t cap = strtoull(t[2], NULL, 10); a = vp_hex(t[3], &al);
            char* init = malloc(al + 1); memcpy(init, a, al); init[al] = 0;
            neighbour = NULL;
            if (!strcmp(t[1], "heap")) { kind = 0; s = gp_str_new(gp_heap, cap, init); }
            else if (!strcmp(t[1], "arena")) { kind = 1; arena = gp_arena_new(4096); s = gp_str_new((GPAllocator*)&arena, cap, init); }         /* last block: extends in place */
            else if (!strcmp(t[1], "arenaN")) { kind = 2; arena = gp_arena_new(4096); s = gp_str_new((GPAllocator*)&arena, cap, init);
                neighbour = gp_mem_alloc((GPAllocator*)&arena, 16); memset(neighbour, 0xA5, 16); }                                            /* not last: moves */
            else if (!strcmp(t[1], "tight")) { kind = 1; size_t c = cap > al ? cap : al; arena = gp_arena_new(sizeof(GPStringHeader) + c + 1); arena.growth_coefficient = 0.0; s = gp_str_new((GPAllocator*)&arena, cap, init); }
            else if (!strcmp(t[1], "scope")) { kind = 3; scope = gp_begin(0); s = gp_str_new(scope, cap, init); }
            else { kind = !strcmp(t[1], "stack") ? 4 : 5;
                int m = -1;
                for (int i = 0; i < 9; i++) if (stk_tab[i].cap == cap && strlen(stk_tab[i].init) == al && !memcmp(stk_tab[i].init, init, al)) m = i;
                if (al > cap) { puts("bad-op"); free(init); free(a); continue; }
                GPStringHeader* h;
                if (m >= 0) { stackmem = NULL; h = (GPStringHeader*)stk[m] - 1; }     /* the macro's own object */
                else { stackmem = malloc(sizeof(GPStringHeader) + cap + 1); h = stackmem; }
                *h = (GPStringHeader){ .length = al, .capacity = cap, .allocator = kind == 4 ? gp_heap : NULL, .allocation = NULL };
                s = (GPString)(h + 1); memcpy(s, init, al); }
            free(init);
            show(s);
        } else if (!strcmp(t[0], "end")) { puts("end"); fflush(stdout); }
        else if (!strcmp(t[0], "copy") && n == 2 && s) { a = vp_hex(t[1], &al); gp_str_copy(&s, a, al); show(s); }
        else if (!strcmp(t[0], "repeat") && n == 3 && s) { a = vp_hex(t[2], &al); gp_str_repeat(&s, strtoull(t[1], NULL, 10), a, al); show(s); }
        else if (!strcmp(t[0], "slice") && n == 3 && s) { gp_str_slice(&s, NULL, strtoull(t[1], NULL, 10), strtoull(t[2], NULL, 10)); show(s); }
        else if (!strcmp(t[0], "slicefrom") && n == 4 && s) { a = vp_hex(t[1], &al); gp_str_slice(&s, a, strtoull(t[2], NULL, 10), strtoull(t[3], NULL, 10)); show(s); }
        else if (!strcmp(t[0], "append") && n == 2 && s) { a = vp_hex(t[1], &al); gp_str_append(&s, a, al); show(s); }
        else if (!strcmp(t[0], "insert") && n == 3 && s) { a = vp_hex(t[2], &al); gp_str_insert(&s, strtoull(t[1], NULL, 10), a, al); show(s); }
        else if (!strcmp(t[0], "replace") && n == 4 && s) { a = vp_hex(t[1], &al); b = vp_hex(t[2], &bl);
            size_t r = gp_str_replace(&s, a, al, b, bl, strtoull(t[3], NULL, 10));
            if (r == GP_NOT_FOUND) fputs("nf ", stdout); else printf("%zu ", r); show(s); }
        else if (!strcmp(t[0], "replaceall") && n == 3 && s) { a = vp_hex(t[1], &al); b = vp_hex(t[2], &bl);
            printf("%zu ", gp_str_replace_all(&s, a, al, b, bl)); show(s); }
        else if (!strcmp(t[0], "trim") && n == 4 && s) {
            char* set = cset(t[3]); int flags = (t[1][0] == 'a' ? GP_ASCII : 0) | (strchr(t[2], 'l') ? GP_LEFT : 0) | (strchr(t[2], 'r') ? GP_RIGHT : 0);
            gp_str_trim(&s, set, flags); free(set); show(s); }
        else if (!strcmp(t[0], "cpfind") && n == 4 && s) {
            char* set = cset(t[2]); size_t st = strtoull(t[3], NULL, 10);
            size_t r = !strcmp(t[1], "of") ? gp_str_find_first_of(s, set, st) : gp_str_find_first_not_of(s, set, st);
            free(set); if (r == GP_NOT_FOUND) puts("nf"); else printf("%zu\n", r); }
        else if (!strcmp(t[0], "split") && n == 3) {
            a = vp_hex(t[1], &al); char* set = cset(t[2]);
            GPArena ar = gp_arena_new(0);
            GPArray(GPString) parts = gp_str_split((GPAllocator*)&ar, a, al, set);
            printf("%zu ", gp_arr_length(parts));
            if (!gp_arr_length(parts)) fputs("-", stdout);
            for (size_t i = 0; i < gp_arr_length(parts); i++) { if (i) fputs(",", stdout); if (gp_str_length(parts[i])) vp_puthex(parts[i], gp_str_length(parts[i])); (void)gp_cstr(parts[i]); }
            puts(""); gp_arena_delete(&ar); free(set); }
        else if (!strcmp(t[0], "join") && n == 3 && s) {
            char* sep = cset(t[1]);
            GPArena ar = gp_arena_new(0);
            GPArray(GPString) parts = gp_arr_new((GPAllocator*)&ar, sizeof(GPString), 4);
            if (strcmp(t[2], ".")) {
                char* copy = strdup(t[2]); char* p = copy;
                for (;;) { char* c = strchr(p, ','); if (c) *c = 0;
                    size_t pl; uint8_t* pb = vp_hex(*p ? p : "-", &pl);
                    GPString ps = gp_str_new((GPAllocator*)&ar, pl, ""); gp_str_copy(&ps, pb, pl); free(pb);
                    parts = gp_arr_push(sizeof(GPString), parts, &ps);
                    if (!c) break; p = c + 1; }
                free(copy); }
            gp_str_join(&s, parts, sep); gp_arena_delete(&ar); free(sep); show(s); }
        /* ---- fixed-buffer variants on exact-size destinations ---- */
        else if (!strcmp(t[0], "bslice") && n == 5) { size_t cap = strtoull(t[1], NULL, 10); a = vp_hex(t[2], &al); uint8_t* d = mkbuf(cap, a, al);
            size_t l = gp_bytes_slice(d, NULL, strtoull(t[3], NULL, 10), strtoull(t[4], NULL, 10)); showbuf(d, l); free(d); }
        else if (!strcmp(t[0], "bslicefrom") && n == 5) { size_t cap = strtoull(t[1], NULL, 10); a = vp_hex(t[2], &al); uint8_t* d = mkbuf(cap, NULL, 0);
            size_t l = gp_bytes_slice(d, a, strtoull(t[3], NULL, 10), strtoull(t[4], NULL, 10)); showbuf(d, l); free(d); }
        else if (!strcmp(t[0], "brepeat") && n == 4) { size_t cap = strtoull(t[1], NULL, 10); a = vp_hex(t[3], &al); uint8_t* d = mkbuf(cap, NULL, 0);
            size_t l = gp_bytes_repeat(d, strtoull(t[2], NULL, 10), a, al); showbuf(d, l); free(d); }
        else if (!strcmp(t[0], "bappend") && n == 4) { size_t cap = strtoull(t[1], NULL, 10); a = vp_hex(t[2], &al); b = vp_hex(t[3], &bl); uint8_t* d = mkbuf(cap, a, al);
            size_t l = gp_bytes_append(d, al, b, bl); showbuf(d, l); free(d); }
        else if (!strcmp(t[0], "binsert") && n == 5) { size_t cap = strtoull(t[1], NULL, 10); a = vp_hex(t[2], &al); b = vp_hex(t[4], &bl); uint8_t* d = mkbuf(cap, a, al);
            size_t l = gp_bytes_insert(d, al, strtoull(t[3], NULL, 10), b, bl); showbuf(d, l); free(d); }
        else if (!strcmp(t[0], "breplacerange") && n == 6) { size_t cap = strtoull(t[1], NULL, 10); a = vp_hex(t[2], &al); b = vp_hex(t[5], &bl); uint8_t* d = mkbuf(cap, a, al);
            size_t l = gp_bytes_replace_range(d, al, strtoull(t[3], NULL, 10), strtoull(t[4], NULL, 10), b, bl); showbuf(d, l); free(d); }
        else if (!strcmp(t[0], "breplace") && n == 6) { size_t cap = strtoull(t[1], NULL, 10); a = vp_hex(t[2], &al); uint8_t* d = mkbuf(cap, a, al);
            size_t nl, rl; uint8_t* nd = vp_hex(t[3], &nl); uint8_t* rp = vp_hex(t[4], &rl); size_t pos = strtoull(t[5], NULL, 10);
            size_t l = gp_bytes_replace(d, al, nd, nl, rp, rl, &pos);
            if (l == GP_NOT_FOUND) puts("nf"); else { printf("%zu ", pos); showbuf(d, l); }
            free(d); free(nd); free(rp); }
        else if (!strcmp(t[0], "breplaceall") && n == 5) { size_t cap = strtoull(t[1], NULL, 10); a = vp_hex(t[2], &al); uint8_t* d = mkbuf(cap, a, al);
            size_t nl, rl; uint8_t* nd = vp_hex(t[3], &nl); uint8_t* rp = vp_hex(t[4], &rl); size_t cnt = 0;
            size_t l = gp_bytes_replace_all(d, al, nd, nl, rp, rl, &cnt); printf("%zu ", cnt); showbuf(d, l);
            free(d); free(nd); free(rp); }
        else if (!strcmp(t[0], "btrim") && n == 4) { a = vp_hex(t[1], &al); char* set = cset(t[3]); uint8_t* d = mkbuf(al, a, al);
            int flags = (strchr(t[2], 'l') ? GP_LEFT : 0) | (strchr(t[2], 'r') ? GP_RIGHT : 0);
            size_t l = gp_bytes_trim(d, al, NULL, set, flags);
            /* the same trim through the out-pointer form (nothing is moved, the start is reported) */
            uint8_t* d2 = mkbuf(al, a, al); void* start = d2;
            size_t l2 = gp_bytes_trim(d2, al, &start, set, flags);
            if (l2 != l || (l && memcmp(start, d, l) != 0) || (uint8_t*)start < d2 || (uint8_t*)start + l2 > d2 + al) {
                fputs("outptr-variant:", stdout); printf("%zu@%td ", l2, (uint8_t*)start - d2); }
            showbuf(d, l); free(d); free(d2); free(set); }
        else if (!strcmp(t[0], "delete") && n == 1 && s) {
            if (neighbour) for (int i = 0; i < 16; i++) if (neighbour[i] != 0xA5) { fputs("NEIGHBOUR-CLOBBERED ", stdout); break; }
            gp_str_delete(s); s = NULL;
            if (kind == 1 || kind == 2) gp_arena_delete(&arena);
            if (kind == 3) gp_end(scope);
            if (kind >= 4) free(stackmem);
            puts("ok"); }
        else puts("bad-op");
        free(a); free(b);
        fflush(stdout);
    }
    return 0;
}
