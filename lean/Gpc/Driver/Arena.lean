import Gpc.Model.Proto
import Gpc.Model.Arena
import Gpc.Model.DeferStack
namespace Gpc.Driver
open Gpc.Proto Gpc.Arena

structure ArenaSt where
  a : Gpc.Arena.Arena := { align := 16, maxSize := 0, nodes := [] }
  g8 : Nat := 16
  kind : String := ""
  blocks : List (Nat × Addr × Nat) := []      -- live: (id, address, size), allocation order
  sizes : List (Nat × Nat) := []              -- heap kind: (id, size)
  nextId : Nat := 0
  dstack : Gpc.Arena.DeferStack := {}         -- scope kind: the defer stack (`Model/DeferStack.lean`)

def ArenaSt.g (s : ArenaSt) : Nat → Nat := fun c => s.g8 * c / 8

def showTraffic (before after : Gpc.Arena.Arena) (popped : Nat) : String :=
  let nb := before.nodes.length - popped
  let newNodes := after.nodes.take (after.nodes.length - nb)
  let m := if newNodes.isEmpty then "-" else ",".intercalate (newNodes.reverse.map fun n => toString (n.cap + 32))
  s!" m:{m} f:{popped}"

def arenaStep (s : ArenaSt) (toks : List String) : ArenaSt × String :=
  match toks with
  | ["new", kind, cap, g8, mx, al] =>
    match cap.toNat?, g8.toNat?, mx.toNat?, al.toNat? with
    | some cap, some g8, some mx, some al =>
      if kind == "heap" then ({ kind := kind }, "ok") else
      let a := Gpc.Arena.new cap al mx
      let c := (a.nodes.head?.map (·.cap)).getD 0
      ({ a := a, g8 := g8, kind := kind }, s!"ok cap={c} g8={g8} max={mx} align={al}")
    | _, _, _, _ => (s, "bad-op")
  | [op, n] =>
    if op == "alloc" || op == "allocz" then
      match n.toNat? with
      | none => (s, "bad-op")
      | some n =>
        if s.kind == "heap" then
          ({ s with sizes := s.sizes ++ [(s.nextId, n)], nextId := s.nextId + 1 }, s!"heap m:{n} f:0")
        else if s.a.nodes.isEmpty then (s, "bad-op") else
        let (a', p) := Gpc.Arena.alloc s.g s.a n
        ({ s with a := a', blocks := s.blocks ++ [(s.nextId, p, n)], nextId := s.nextId + 1 },
          s!"{p.node} {p.off}" ++ showTraffic s.a a' 0)
    else if op == "rewind" then
      match n.toNat? with
      | none => (s, "bad-op")
      | some id =>
        match s.blocks.find? (·.1 == id) with
        | none => (s, "bad-op")
        | some (_, p, _) =>
          match Gpc.Arena.rewind s.a p with
          | none => (s, "bad-op")
          | some a' =>
            let popped := s.a.nodes.length - a'.nodes.length
            ({ s with a := a', blocks := s.blocks.takeWhile (·.1 != id) }, "ok" ++ showTraffic s.a a' popped)
    else if op == "free" then
      match n.toNat? with
      | some id => ({ s with sizes := s.sizes.filter (·.1 != id) }, "ok m:- f:1")
      | none => (s, "bad-op")
    else (s, "bad-op")
  | ["realloc", id, nsz] =>
    match id.toNat?, nsz.toNat? with
    | some id, some nsz =>
      if s.kind == "heap" then
        ({ s with sizes := s.sizes.filter (·.1 != id) ++ [(id, nsz)] }, s!"heap m:{nsz} f:1")
      else
      match s.blocks.find? (·.1 == id) with
      | none => (s, "bad-op")
      | some (_, p, old) =>
        let r := Gpc.Arena.realloc s.g s.a p old nsz
        ({ s with a := r.arena, blocks := s.blocks.filter (·.1 != id) ++ [(id, r.addr, nsz)] },
          s!"{r.addr.node} {r.addr.off}" ++ showTraffic s.a r.arena 0)
    | _, _ => (s, "bad-op")
  | ["defer", hdr, elem] =>
    -- `gp_scope_defer`: the stack is created with room for 4 entries (header + 4 entries in one block of the
    -- scope's arena) and doubled by a fresh block of `2 * capacity` entries when full
    match hdr.toNat?, elem.toNat? with
    | some hdr, some elem =>
      if s.kind != "scope" || s.a.nodes.isEmpty then (s, "bad-op") else
      let st := s.dstack.push hdr elem
      match st.request with
      | some n =>
        let (a', _) := Gpc.Arena.alloc s.g s.a n
        ({ s with a := a', dstack := st.next }, "ok" ++ showTraffic s.a a' 0)
      | none => ({ s with dstack := st.next }, "ok" ++ showTraffic s.a s.a 0)
    | _, _ => (s, "bad-op")
  | ["delete"] => ({}, "ok")
  | ["end"] => ({}, "end")
  | _ => (s, "bad-op")

end Gpc.Driver
