"""Shared machinery of the libGPC checks (see DESIGN.md section 2).

One check = (1) build /repo's current working tree into a scratch directory, (2) regenerate the
generated Lean tables (T-gen) where the property has any, (3) proof obligations: `lake build` of
Gpc.Props.Cxx + axiom audit + forbidden-token scan, (4) correspondence: the same case lines go to
the C harness (linked against the fresh build, ASan/UBSan) and to the compiled Lean model
(`gpcmodel`), transcripts are compared line by line, (5) the independent oracle judges the
implementation's transcript, (6) verdict, replay file, evidence file.
"""
import concurrent.futures as cf
import fcntl
import glob
import hashlib
import json
import os
import random
import re
import shutil
import subprocess
import sys
import tempfile
import time

ROOT = os.path.dirname(os.path.dirname(os.path.abspath(__file__)))
REPO = os.environ.get("GPC_REPO", "/repo")
LEAN = os.path.join(ROOT, "lean")
MODEL_EXE = os.path.join(LEAN, ".lake", "build", "bin", "gpcmodel")
NPROC = max(1, min(16, os.cpu_count() or 4))

SAN_FLAGS = ["-O1", "-g", "-fsanitize=address,undefined", "-fno-sanitize-recover=all",
             "-fno-omit-frame-pointer"]
BASE_FLAGS = ["-std=gnu11", "-D_GNU_SOURCE", "-DGP_PEDANTIC",
              "-I" + os.path.join(REPO, "include"), "-I" + os.path.join(REPO, "src"),
              "-I" + os.path.join(ROOT, "harness"), "-w"]
ALLOWED_AXIOMS = {"propext", "Classical.choice", "Quot.sound"}
FORBIDDEN = re.compile(r"\bsorry\b|\badmit\b|^\s*axiom\s|native_decide|bv_decide|implemented_by|"
                       r"\bunsafe\s|maxHeartbeats\s+0|@\[extern", re.M)


class InfraError(Exception):
    pass


def sh(cmd, timeout=600, cwd=None, env=None, input=None):
    p = subprocess.run(cmd, cwd=cwd, env=env, input=input, capture_output=True, text=True,
                       timeout=timeout, errors="replace")
    return p.returncode, p.stdout, p.stderr


def repo_rev():
    rc, out, _ = sh(["git", "-C", REPO, "rev-parse", "HEAD"])
    rev = out.strip() if rc == 0 else "unknown"
    rc, out, _ = sh(["git", "-C", REPO, "diff", "HEAD"])
    dirty = hashlib.sha1(out.encode()).hexdigest()[:12] if rc == 0 and out else "clean"
    return rev, dirty


def strip_lean_comments(text):
    # remove /- ... -/ (nested) and -- comments
    out = []
    i, depth, n = 0, 0, len(text)
    while i < n:
        if text.startswith("/-", i):
            depth += 1
            i += 2
        elif depth and text.startswith("-/", i):
            depth -= 1
            i += 2
        elif depth:
            i += 1
        elif text.startswith("--", i):
            j = text.find("\n", i)
            i = n if j < 0 else j
        else:
            out.append(text[i])
            i += 1
    return "".join(out)


class Ctx:
    def __init__(self, pid, tier, seed, level="proof"):
        self.pid, self.tier, self.seed, self.level = pid, tier, seed, level
        self.t0 = time.time()
        self.scratch = tempfile.mkdtemp(prefix="gpcverif_%s_" % pid)
        self.rng = random.Random((seed * 1000003) ^ int(hashlib.sha1(pid.encode()).hexdigest()[:8], 16))
        self.obligations = 0
        self.discharged = 0
        self.broken = []            # [{kind: theorem|correspondence|audit, name, detail}]
        self.witnesses = []         # [{what, cases, impl, model, oracle}]
        self.known_hits = []
        self.evaluations = 0
        self.distinct = set()
        self.samples = []
        self.rules = []
        self.stats = {}
        self.trusted = []
        self.assumptions = []
        self.exhaustive = False
        self.corr_names = []
        self.axioms = {}
        self.libs = {}
        self.replay_cases = None
        self.extra_cov = {}

    # ------------------------------------------------------------------ build of the C side
    def build_lib(self, tag="default", extra=(), san=True):
        """compile every /repo/src/*.c of the working tree into scratch objects"""
        if tag in self.libs:
            return self.libs[tag]
        d = os.path.join(self.scratch, "lib_" + tag)
        os.makedirs(d, exist_ok=True)
        srcs = sorted(glob.glob(os.path.join(REPO, "src", "*.c")))
        flags = BASE_FLAGS + (SAN_FLAGS if san else ["-O1", "-g"]) + list(extra)

        def one(src):
            obj = os.path.join(d, os.path.basename(src)[:-2] + ".o")
            rc, out, err = sh(["gcc", "-c", src, "-o", obj] + flags, timeout=300)
            return src, obj, rc, err
        objs = {}
        with cf.ThreadPoolExecutor(NPROC) as ex:
            for src, obj, rc, err in ex.map(one, srcs):
                if rc != 0:
                    raise InfraError("cannot compile %s:\n%s" % (src, err[-3000:]))
                objs[os.path.basename(src)[:-2]] = obj
        self.libs[tag] = objs
        return objs

    def build_harness(self, name, tag="default", exclude=(), extra=(), san=True, libs=True, out=None):
        """harness/<name>.c (+ library objects except `exclude`) -> executable path"""
        src = os.path.join(ROOT, "harness", name + ".c")
        exe = os.path.join(self.scratch, out or (name + "_" + tag))
        objs = []
        if libs:
            o = self.build_lib(tag, extra=[e for e in extra if e.startswith("-D")], san=san)
            objs = [p for k, p in sorted(o.items()) if k not in exclude]
        flags = BASE_FLAGS + (SAN_FLAGS if san else ["-O1", "-g"]) + list(extra)
        rc, so, err = sh(["gcc", src] + objs + ["-o", exe] + flags + ["-lm", "-lpthread"], timeout=300)
        if rc != 0:
            raise InfraError("cannot build harness %s:\n%s" % (name, err[-4000:]))
        return exe

    # ------------------------------------------------------------------ Lean side
    def lake(self, targets, timeout=1800):
        os.makedirs(os.path.join(LEAN, ".lake"), exist_ok=True)
        with open(os.path.join(LEAN, ".lock"), "w") as lk:
            fcntl.flock(lk, fcntl.LOCK_EX)
            try:
                rc, out, err = sh(["lake", "build"] + targets, cwd=LEAN, timeout=timeout)
            finally:
                fcntl.flock(lk, fcntl.LOCK_UN)
        return rc, out + err

    def build_model(self):
        """build the driver and take a private copy of it (another check running at the same time may relink the
        shared binary while this one is using it)"""
        os.makedirs(os.path.join(LEAN, ".lake"), exist_ok=True)
        with open(os.path.join(LEAN, ".lock"), "w") as lk:
            fcntl.flock(lk, fcntl.LOCK_EX)
            try:
                rc, out, err = sh(["lake", "build", "gpcmodel"], cwd=LEAN, timeout=1800)
                log = out + err
                if rc == 0:
                    self.model_exe = os.path.join(self.scratch, "gpcmodel")
                    shutil.copy2(MODEL_EXE, self.model_exe)
            finally:
                fcntl.flock(lk, fcntl.LOCK_UN)
        if rc != 0:
            # the model itself no longer compiles (e.g. a regenerated table broke a definition)
            self.broken.append({"kind": "model-build", "name": "gpcmodel", "detail": log[-3000:]})
            return False
        return True

    def props_file(self):
        return os.path.join(LEAN, "Gpc", "Props", self.pid + ".lean")

    def theorems(self, path=None):
        """fully qualified names of the theorems stated in the property file"""
        text = strip_lean_comments(open(path or self.props_file()).read())
        names, ns = [], []
        for line in text.split("\n"):
            m = re.match(r"\s*namespace\s+(\S+)", line)
            if m:
                ns.append(m.group(1))
                continue
            m = re.match(r"\s*end\s+(\S+)", line)
            if m and ns and ns[-1].split(".")[-1] == m.group(1).split(".")[-1]:
                ns.pop()
                continue
            m = re.match(r"\s*(?:@\[[^\]]*\]\s*)?(?:private\s+|protected\s+)?theorem\s+(\S+)", line)
            if m:
                names.append(".".join(ns + [m.group(1)]))
        return names

    def import_closure(self, module):
        seen, todo = [], [module]
        while todo:
            m = todo.pop()
            if m in seen or not m.startswith("Gpc"):
                continue
            p = os.path.join(LEAN, *m.split(".")) + ".lean"
            if not os.path.exists(p):
                continue
            seen.append(m)
            for mm in re.findall(r"^import\s+(\S+)", open(p).read(), re.M):
                todo.append(mm)
        return seen

    def prove(self, extra_modules=()):
        """proof obligations of this property: build, forbidden-token scan, axiom audit"""
        module = "Gpc.Props." + self.pid
        thms = self.theorems()
        self.obligations = len(thms)
        if not thms:
            self.broken.append({"kind": "theorem", "name": module, "detail": "no theorems stated"})
            return False
        rc, log = self.lake([module] + list(extra_modules))
        ok = True
        if rc != 0:
            ok = False
            failing = self._failing_theorems(log)
            for name in (failing or [module]):
                self.broken.append({"kind": "theorem", "name": name, "detail": self._excerpt(log)})
        # forbidden tokens in the import closure (comments stripped)
        for m in self.import_closure(module):
            p = os.path.join(LEAN, *m.split(".")) + ".lean"
            hit = FORBIDDEN.search(strip_lean_comments(open(p).read()))
            if hit:
                ok = False
                self.broken.append({"kind": "audit", "name": m,
                                    "detail": "forbidden token %r" % hit.group(0).strip()})
        if rc == 0:
            ax = self.audit(module, thms)
            bad = {t: a for t, a in ax.items() if not set(a) <= ALLOWED_AXIOMS}
            missing = [t for t in thms if t not in ax]
            for t, a in bad.items():
                ok = False
                self.broken.append({"kind": "audit", "name": t, "detail": "axioms %s" % a})
            for t in missing:
                ok = False
                self.broken.append({"kind": "audit", "name": t, "detail": "no #print axioms output"})
            self.axioms = ax
            self.discharged = len(thms) - len(bad) - len(missing)
        else:
            failing = set(b["name"] for b in self.broken if b["kind"] == "theorem")
            self.discharged = max(0, len(thms) - max(1, len(failing)))
        if self.tier == "thorough" and rc == 0:
            with open(os.path.join(LEAN, ".lock"), "w") as lk:
                fcntl.flock(lk, fcntl.LOCK_EX)
                rc2, out, err = sh(["lake", "env", "leanchecker", module], cwd=LEAN, timeout=1800)
                fcntl.flock(lk, fcntl.LOCK_UN)
            self.stats["leanchecker"] = "ok" if rc2 == 0 else "FAILED"
            if rc2 != 0:
                ok = False
                self.broken.append({"kind": "audit", "name": module, "detail": "leanchecker: " + (out + err)[-1500:]})
        self.trusted += ["Lean 4.33.0 kernel/elaborator", "axioms: " + ", ".join(sorted(set(
            a for v in self.axioms.values() for a in v)) or ["none"])]
        return ok

    def _excerpt(self, log):
        lines = [l for l in log.split("\n") if "error" in l]
        return "\n".join(lines[:12])[-2500:] or log[-1500:]

    def _failing_theorems(self, log):
        """map `file:line:col: error` positions to the enclosing theorem of that file"""
        names = []
        for m in re.finditer(r"(?:error: )?(\S+\.lean):(\d+):(\d+): error", log):
            f, ln = m.group(1), int(m.group(2))
            p = f if os.path.isabs(f) else os.path.join(LEAN, f)
            if not os.path.exists(p):
                continue
            cur = None
            for i, line in enumerate(open(p).read().split("\n"), 1):
                mm = re.match(r"\s*(?:@\[[^\]]*\]\s*)?(?:private\s+|protected\s+)?(?:theorem|example|def|instance|lemma)\s*(\S*)", line)
                if mm:
                    cur = (mm.group(1) or "example") + "@" + os.path.relpath(p, LEAN) + ":" + str(i)
                if i >= ln:
                    break
            if cur and cur not in names:
                names.append(cur)
        return names

    def audit(self, module, thms):
        src = "import %s\n" % module + "".join("#print axioms %s\n" % t for t in thms)
        f = os.path.join(self.scratch, "Audit_%s.lean" % self.pid)
        open(f, "w").write(src)
        rc, out, err = sh(["lake", "env", "lean", f], cwd=LEAN, timeout=900)
        res = {}
        text = out + err
        for m in re.finditer(r"'(\S+)' depends on axioms: \[([^\]]*)\]", text, re.S):
            res[m.group(1)] = [a.strip() for a in m.group(2).replace("\n", " ").split(",") if a.strip()]
        for m in re.finditer(r"'(\S+)' does not depend on any axioms", text):
            res[m.group(1)] = []
        return res

    # ------------------------------------------------------------------ running both sides
    @staticmethod
    def _run_chunk(exe, cases, env, timeout, prefix_cmd=()):
        """feeds the flattened lines of `cases`; returns per-case output lists.  A crash inside
        case i yields ('crash', partial, stderr) for that case; the rest is re-run."""
        results = [None] * len(cases)
        start = 0
        crashes = 0
        timeouts = 0
        while start < len(cases):
            lines = [l for c in cases[start:] for l in c]
            try:
                p = subprocess.run(list(prefix_cmd) + [exe], input="\n".join(lines) + "\n", capture_output=True,
                                   text=True, errors="replace", timeout=timeout, env=env)
                rc, out, err = p.returncode, p.stdout, p.stderr
            except subprocess.TimeoutExpired as e:
                rc, out, err = -999, (e.stdout or b"").decode(errors="replace") if isinstance(e.stdout, bytes) else (e.stdout or ""), "TIMEOUT"
                # a run that does not end (a loop that never terminates in the code under test) must not cost hours:
                # the limit is there for the whole chunk; after it has struck once the rest gets a short one
                timeouts += 1
                timeout = min(timeout, 30)
            outl = out.split("\n")
            if outl and outl[-1] == "":
                outl.pop()
            k = 0
            i = start
            while i < len(cases) and k + len(cases[i]) <= len(outl):
                results[i] = outl[k:k + len(cases[i])]
                k += len(cases[i])
                i += 1
            if i >= len(cases) and rc == 0:
                break
            if i >= len(cases):
                # all lines answered but the process failed at exit (e.g. leak report)
                results[-1] = ("crash", results[-1], err[-4000:], rc)
                break
            # case i crashed / was cut short
            results[i] = ("crash", outl[k:], err[-4000:], rc)
            crashes += 1
            start = i + 1
            if crashes > 25 or timeouts >= 3:
                for j in range(start, len(cases)):
                    results[j] = ("skipped", [], "too many crashes", 0)
                break
        return results

    def run_cases(self, exe, cases, env=None, timeout=240, nproc=None, prefix_cmd=()):
        if not cases:
            return []
        nproc = nproc or NPROC
        e = dict(os.environ)
        # a runaway allocation is a result (the harness aborts when malloc fails), never a danger to the sandbox
        e.setdefault("ASAN_OPTIONS", "detect_leaks=0:abort_on_error=0:allocator_may_return_null=1:"
                                     "max_allocation_size_mb=512:hard_rss_limit_mb=3072")
        e.setdefault("UBSAN_OPTIONS", "print_stacktrace=1")
        e["LC_ALL"] = "C.UTF-8"
        if env:
            e.update(env)
        n = len(cases)
        nchunks = min(nproc, max(1, n // 50))
        size = (n + nchunks - 1) // nchunks
        chunks = [cases[i:i + size] for i in range(0, n, size)]
        res = []
        with cf.ThreadPoolExecutor(nproc) as ex:
            for r in ex.map(lambda c: self._run_chunk(exe, c, e, timeout, prefix_cmd), chunks):
                res.extend(r)
        return res

    def run_model(self, cases, timeout=900):
        return self.run_cases(getattr(self, "model_exe", MODEL_EXE), cases, timeout=timeout)

    # ------------------------------------------------------------------ correspondence + oracle
    def correspond(self, name, exe, cases, oracle=None, nontrivial=None, env=None, compare=None,
                   timeout=240, model_cases=None, keep_samples=3):
        """cases: list of cases, each a list of protocol lines.  `oracle(case, impl_out)` returns
        None or a description of how the PROPERTY is violated by the implementation's output.
        `nontrivial(case)` decides what counts for distinct_nontrivial.  `compare(impl, model)`
        may canonicalise before comparing (default: equality of line lists)."""
        self.corr_names.append(name)
        impl = self.run_cases(exe, cases, env=env, timeout=timeout)
        model = self.run_model(model_cases if model_cases is not None else cases, timeout=timeout)
        ndis = 0
        for idx, (c, a, b) in enumerate(zip(cases, impl, model)):
            self.evaluations += 1
            key = hashlib.sha1("\n".join(c).encode()).digest()[:10]
            if nontrivial is None or nontrivial(c):
                self.distinct.add(key)
            if len(self.samples) < keep_samples * len(self.corr_names) and (idx % max(1, len(cases) // keep_samples) == 0):
                self.samples.append({"corr": name, "case": c[:12], "impl": (a if isinstance(a, list) else list(a[:2]))[:12]})
            if isinstance(b, tuple):
                raise InfraError("model driver failed on case %r: %r" % (c[:5], b))
            if isinstance(a, tuple):
                if a[0] == "skipped":
                    continue
                # sanitizer abort / crash of the implementation: a result, memory-safety witness
                what = self._san_summary(a[2]) or ("did not terminate (timeout)" if a[3] == -999 else "exit status %s" % a[3])
                self.add_witness(name, c, a, b, "implementation aborted: " + what)
                continue
            verdict = oracle(c, a) if oracle else None
            if verdict:
                self.add_witness(name, c, a, b, verdict)
                continue
            same = compare(a, b) if compare else (a == b)
            if not same:
                ndis += 1
                if ndis <= 5:
                    first = next((i for i, (x, y) in enumerate(zip(a, b)) if x != y), min(len(a), len(b)))
                    self.broken.append({"kind": "correspondence", "name": name,
                                        "detail": {"case": c, "impl": a, "model": b, "first_diff": first}})
        self.stats.setdefault("corr", {})[name] = {"cases": len(cases), "disagreements": ndis}
        return ndis

    @staticmethod
    def _san_summary(err):
        m = re.search(r"(ERROR: AddressSanitizer: [^\n]*|runtime error: [^\n]*|SUMMARY: [^\n]*)", err or "")
        return m.group(1) if m else None

    @staticmethod
    def _short_err(err):
        keep = [l for l in (err or "").split("\n") if re.search(r"ERROR|runtime error|SUMMARY|^\s+#[0-6] ", l)]
        return "\n".join(keep[:14])[:1500]

    def add_witness(self, corr, case, impl, model, what):
        w = {"corr": corr, "what": what, "case": case,
             "impl": impl if isinstance(impl, list) else {"crash": list(impl[1])[-5:], "stderr": self._short_err(impl[2])},
             "model": model}
        k = self.match_known(w)
        if k:
            if k["id"] not in [h["id"] for h in self.known_hits]:
                self.known_hits.append(k)
            return
        if len(self.witnesses) < 50:
            self.witnesses.append(w)

    def match_known(self, w):
        path = os.path.join(ROOT, "known_findings.json")
        if not os.path.exists(path):
            return None
        for k in json.load(open(path)).get("findings", []):
            if k.get("property") != self.pid or k.get("kind") != "known":
                continue
            m = k.get("match", {})
            if "case_regex" in m and not any(re.search(m["case_regex"], l) for l in w["case"]):
                continue
            if "what_regex" in m and not re.search(m["what_regex"], w["what"]):
                continue
            return k
        return None

    # ------------------------------------------------------------------ verdict
    def finish(self):
        wall = time.time() - self.t0
        os.makedirs(os.path.join(ROOT, "replays"), exist_ok=True)
        os.makedirs(os.path.join(ROOT, "evidence"), exist_ok=True)
        rev, dirty = repo_rev()
        violations = 0
        lines = []
        for k in self.known_hits:
            lines.append("KNOWN-FINDING: property=%s %s" % (self.pid, k["what"]))
        stamp = "%s_%s_%d" % (self.pid, self.tier, self.seed)
        if self.witnesses:
            violations = len(self.witnesses)
            path = os.path.join(ROOT, "replays", stamp + "_witness.json")
            json.dump({"property": self.pid, "kind": "witness", "seed": self.seed, "tier": self.tier,
                       "repo_rev": rev, "repo_dirty": dirty, "witnesses": self.witnesses[:10],
                       "cases": [w["case"] for w in self.witnesses[:10]],
                       "broken": self.broken[:5]}, open(path, "w"), indent=1)
            lines.append("VIOLATION property=%s replay=%s" % (self.pid, path))
        elif self.broken:
            violations = len(self.broken)
            path = os.path.join(ROOT, "replays", stamp + "_unproved.json")
            cases = [b["detail"]["case"] for b in self.broken if b["kind"] == "correspondence"]
            json.dump({"property": self.pid, "kind": "no-failing-input-found", "seed": self.seed,
                       "tier": self.tier, "repo_rev": rev, "repo_dirty": dirty,
                       "broken": self.broken[:10], "cases": cases[:10],
                       "note": "the listed theorem(s)/correspondence no longer check; the witness search "
                               "(oracle over all generated cases and the corpus) found no input on which "
                               "the implementation violates the property"},
                      open(path, "w"), indent=1)
            lines.append("VIOLATION property=%s replay=%s no-failing-input-found" % (self.pid, path))
        cov = {
            "obligations": self.obligations, "discharged": self.discharged,
            "checker_cmd": "cd /verif/lean && lake build Gpc.Props.%s  (+ #print axioms audit, forbidden-token scan%s)"
                           % (self.pid, ", lake env leanchecker" if self.tier == "thorough" else ""),
            "trusted_base": self.trusted,
            "evaluations": self.evaluations, "distinct_nontrivial": len(self.distinct),
            "rule": " | ".join(self.rules), "samples": self.samples[:12],
            "exhaustive": self.exhaustive, "correspondences": self.stats.get("corr", {}),
            "axioms_per_theorem": self.axioms, "stats": {k: v for k, v in self.stats.items() if k != "corr"},
            "broken": [{"kind": b["kind"], "name": b["name"]} for b in self.broken[:20]],
            "known_findings_hit": [k["id"] for k in self.known_hits],
            "repo_rev": rev, "repo_dirty": dirty,
        }
        cov.update(self.extra_cov)
        ev = {"property_id": self.pid, "tier": self.tier, "seed": self.seed, "level": self.level,
              "coverage": cov, "assumptions": self.assumptions, "wall_s": round(wall, 2),
              "violations": violations}
        json.dump(ev, open(os.path.join(ROOT, "evidence", self.pid + ".json"), "w"), indent=1)
        for l in lines:
            print(l)
        print("%s tier=%s seed=%d obligations=%d/%d cases=%d distinct=%d broken=%d witnesses=%d known=%d wall=%.1fs"
              % (self.pid, self.tier, self.seed, self.discharged, self.obligations, self.evaluations,
                 len(self.distinct), len(self.broken), len(self.witnesses), len(self.known_hits), wall))
        return 1 if violations else 0

    def cleanup(self):
        shutil.rmtree(self.scratch, ignore_errors=True)


def load_corpus(pid):
    """corpus/<pid>/*.case: one case per file, one protocol line per line"""
    cases = []
    for f in sorted(glob.glob(os.path.join(ROOT, "corpus", pid, "*.case"))):
        lines = [l.rstrip("\n") for l in open(f) if l.strip() and not l.startswith("#")]
        if lines:
            cases.append(lines)
    return cases


def hexs(b):
    return b.hex() if len(b) else "-"
