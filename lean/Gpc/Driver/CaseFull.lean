import Gpc.Model.Proto
import Gpc.Model.CaseFull
import Gpc.Model.Compare
namespace Gpc.Driver
open Gpc.Proto Gpc.CaseFull Gpc.Utf

def locOf (s : String) : Loc := if s == "-" then .n else Loc.ofCode (s.toList.map fun c => UInt8.ofNat c.toNat)

def encAll (cps : List Nat) : List UInt8 := cps.flatMap encodeU8

/-- `cf up|lo|cap <loc> <cap> <hex>`, `cf sup|slo|sti <cap> <hex>`: the result string (the harness adds scratch
and heap figures after it, which C15's model answers) -/
def decodeHex (h : String) : Option (List Nat) :=
  match parseHex h with
  | none => none
  | some s => decodeAll s.length s

def decodeHexes : List String → Option (List (List Nat))
  | [] => some []
  | h :: t => do let a ← decodeHex h; let r ← decodeHexes t; pure (a :: r)

def cfStep (toks : List String) : String :=
  match toks with
  | "cmp" :: flags :: loc :: [h1, h2] =>
    match decodeHex h1, decodeHex h2 with
    | some a, some b =>
      let f := flags.toList
      toString (Compare.compare (f.contains 'f') (f.contains 'c') (f.contains 'r') (locOf loc) a b)
    | _, _ => "invalid"
  | "sort" :: flags :: loc :: hs =>
    match decodeHexes hs with
    | some strs =>
      let f := flags.toList
      let r := Compare.sort (f.contains 'f') (f.contains 'c') (f.contains 'r') (locOf loc) strs
      if r.isEmpty then "-" else ",".intercalate (r.map fun s => toHex (encAll s))
    | none => "invalid"
  | [op, loc, _cap, h] =>
    match parseHex h with
    | none => "bad-op"
    | some s =>
      match decodeAll s.length s with
      | none => "invalid"
      | some cps =>
        let L := locOf loc
        if op == "up" then toHex (encAll (upperFull L cps))
        else if op == "lo" then toHex (encAll (lowerFull L cps))
        else if op == "cap" then toHex (encAll (capitalize L cps))
        else "bad-op"
  | [op, _cap, h] =>
    match parseHex h with
    | none => "bad-op"
    | some s =>
      match decodeAll s.length s with
      | none => "invalid"
      | some cps =>
        if op == "sup" then toHex (encAll (cps.map CaseMap.toUpper))
        else if op == "slo" then toHex (encAll (cps.map CaseMap.toLower))
        else if op == "sti" then toHex (encAll (cps.map CaseMap.toTitle))
        else "bad-op"
  | _ => "bad-op"

end Gpc.Driver
