import Gpc.Model.CaseMap
import Gpc.Ucd.Case
import Gpc.Props.C07
import Gpc.Proofs.Utf8Sync
import Gpc.Proofs.CaseMap
/-!
# C11 — simple case conversion follows the Unicode Character Database for every code point

`Gpc.Generated.*` : tables extracted from the compiled code over ALL code points (regenerated on
every run).  `Gpc.Ucd.*` : the vendored UCD tables.  Because the tables are canonical, equality of
the lists (checked by the kernel, `decide +kernel`) is equality of the functions on every code point.
-/
namespace Gpc.CaseMap
open Gpc.CaseTable Gpc.Generated

/-! ## the three mappings equal the UCD's on every code point -/

theorem upper_table_eq : implUpper = Gpc.Ucd.upper := by decide +kernel
theorem lower_table_eq : implLower = Gpc.Ucd.lower := by decide +kernel
theorem title_table_eq : implTitle = Gpc.Ucd.title := by decide +kernel
theorem orbits_eq_classes : implOrbits = Gpc.Ucd.foldClasses := by decide +kernel

/-- UCD simple mappings as functions -/
def ucdUpper (c : Nat) : Nat := apply Gpc.Ucd.upper c
def ucdLower (c : Nat) : Nat := apply Gpc.Ucd.lower c
def ucdTitle (c : Nat) : Nat := apply Gpc.Ucd.title c
def ucdScf (c : Nat) : Nat := apply Gpc.Ucd.scf c

theorem toUpper_eq_ucd (c : Nat) : toUpper c = ucdUpper c := by unfold toUpper ucdUpper; rw [upper_table_eq]
theorem toLower_eq_ucd (c : Nat) : toLower c = ucdLower c := by unfold toLower ucdLower; rw [lower_table_eq]
theorem toTitle_eq_ucd (c : Nat) : toTitle c = ucdTitle c := by unfold toTitle ucdTitle; rw [title_table_eq]

end Gpc.CaseMap

namespace Gpc.CaseMap
open Gpc.CaseTable Gpc.Generated Gpc.Utf Gpc.Utf8

/-! ## scalar values map to scalar values -/

/-- every entry maps its whole range into the scalar values -/
def ScalarEntry (e : E) : Bool :=
  decide (e.lo ≤ e.hi ∧ 0 ≤ (e.lo : Int) + e.d ∧ (e.hi : Int) + e.d < 0x110000 ∧
          ((e.hi : Int) + e.d < 0xD800 ∨ 0xDFFF < (e.lo : Int) + e.d))

theorem upper_scalar_table : Gpc.Ucd.upper.all ScalarEntry = true := by decide +kernel
theorem lower_scalar_table : Gpc.Ucd.lower.all ScalarEntry = true := by decide +kernel
theorem title_scalar_table : Gpc.Ucd.title.all ScalarEntry = true := by decide +kernel

theorem apply_scalar (t : List E) (ht : t.all ScalarEntry = true) (c : Nat) (hc : IsScalar c) : IsScalar (apply t c) := by
  unfold apply
  cases hf : t.find? (fun e => decide (e.lo ≤ c ∧ c ≤ e.hi)) with
  | none => exact hc
  | some e =>
    have hmem := List.mem_of_find?_eq_some hf
    have hp := List.find?_some hf
    simp only [decide_eq_true_eq] at hp
    have he := (List.all_eq_true.1 ht) e hmem
    simp only [ScalarEntry, decide_eq_true_eq] at he
    unfold IsScalar
    simp only []
    omega

/-- upper-, lower- and title-casing map Unicode scalar values to Unicode scalar values -/
theorem maps_scalar_to_scalar (c : Nat) (hc : IsScalar c) :
    IsScalar (toUpper c) ∧ IsScalar (toLower c) ∧ IsScalar (toTitle c) := by
  rw [toUpper_eq_ucd, toLower_eq_ucd, toTitle_eq_ucd]
  exact ⟨apply_scalar _ upper_scalar_table c hc, apply_scalar _ lower_scalar_table c hc,
         apply_scalar _ title_scalar_table c hc⟩

/-! ## strings: valid UTF-8 in, valid UTF-8 out, same number of code points, pointwise mapped -/

/-- the UTF-8 encoding of a scalar value is one well-formed Table 3-7 sequence -/
theorem encode_isCp (c : Nat) (hc : IsScalar c) : IsCp (encodeU8 c) := by
  obtain ⟨h1, h2⟩ := hc
  refine ⟨encodeU8_ne_nil c, ?_⟩
  rw [encodeU8_length]
  unfold encodeU8
  rw [encNat_eq c (by omega)]
  by_cases a1 : c < 0x80
  · simp only [a1, if_true, List.map_cons, List.map_nil, wfLen, ofNat_toNat c (by omega), byteLen]
    have : ¬ c > 0x7F := by omega
    simp only [this, if_false]
    split <;> omega
  by_cases a2 : c < 0x800
  · simp only [a1, a2, if_true, if_false, List.map_cons, List.map_nil, wfLen, cont, byteLen,
      ofNat_toNat (0xC0 + c / 64) (by omega), ofNat_toNat (0x80 + c % 64) (by omega)]
    have : c > 0x7F := by omega
    simp only [this, if_true, a2]
    (repeat' split) <;> omega
  by_cases a3 : c < 0x10000
  · simp only [a1, a2, a3, if_true, if_false, List.map_cons, List.map_nil, wfLen, cont, sec3, byteLen,
      ofNat_toNat (0xE0 + c / 4096) (by omega), ofNat_toNat (0x80 + c / 64 % 64) (by omega),
      ofNat_toNat (0x80 + c % 64) (by omega)]
    have : c > 0x7F := by omega
    simp only [this, if_true, a2, a3, if_false]
    (repeat' split) <;> omega
  · simp only [a1, a2, a3, if_false, List.map_cons, List.map_nil, wfLen, cont, sec4, byteLen,
      ofNat_toNat (0xF0 + c / 262144) (by omega), ofNat_toNat (0x80 + c / 4096 % 64) (by omega),
      ofNat_toNat (0x80 + c / 64 % 64) (by omega), ofNat_toNat (0x80 + c % 64) (by omega)]
    have : c > 0x7F := by omega
    simp only [this, if_true, a2, a3, if_false]
    (repeat' split) <;> omega

theorem wellFormed_flatMap_encode (cps : List Nat) (h : ∀ c ∈ cps, IsScalar c) : WellFormed (cps.flatMap encodeU8) := by
  induction cps with
  | nil => exact WellFormed.nil
  | cons c cs ih =>
    simp only [List.flatMap_cons]
    have hc := encode_isCp c (h c List.mem_cons_self)
    exact WellFormed.cons _ _ hc.1 hc.2 (ih (fun x hx => h x (List.mem_cons_of_mem _ hx)))

/-- case-mapping a valid UTF-8 string: the result is the UTF-8 encoding of the pointwise mapped
scalar values — valid UTF-8 with the same number of code points, each replaced by its mapping and
code points without a mapping unchanged -/
theorem str_map_spec (f : Nat → Nat) (hf : ∀ c, IsScalar c → IsScalar (f c)) (s : Bytes) (hs : WellFormed s) :
    ∃ cps : List Nat, (∀ c ∈ cps, IsScalar c) ∧ s = cps.flatMap encodeU8 ∧
      strMap f s = some ((cps.map f).flatMap encodeU8) ∧
      WellFormed ((cps.map f).flatMap encodeU8) ∧ (cps.map f).length = cps.length := by
  obtain ⟨cps, h1, h2⟩ := wellFormed_is_encoding s hs
  refine ⟨cps, h1, h2, ?_, ?_, by simp⟩
  · unfold strMap
    rw [h2, decodeAll_encoding cps (fun c hc => (h1 c hc).1) _ (Nat.le_refl _)]
    simp only []
    rw [utf32_to_utf8_spec]
  · apply wellFormed_flatMap_encode
    intro c hc
    simp only [List.mem_map] at hc
    obtain ⟨x, hx, rfl⟩ := hc
    exact hf x (h1 x hx)

theorem str_to_upper_spec (s : Bytes) (hs : WellFormed s) :
    ∃ cps : List Nat, (∀ c ∈ cps, IsScalar c) ∧ s = cps.flatMap encodeU8 ∧
      strMap toUpper s = some ((cps.map ucdUpper).flatMap encodeU8) ∧
      WellFormed ((cps.map ucdUpper).flatMap encodeU8) := by
  obtain ⟨cps, a, b, c, d, _⟩ := str_map_spec toUpper (fun c hc => (maps_scalar_to_scalar c hc).1) s hs
  have : cps.map toUpper = cps.map ucdUpper := List.map_congr_left (fun x _ => toUpper_eq_ucd x)
  rw [this] at c d
  exact ⟨cps, a, b, c, d⟩

theorem str_to_lower_spec (s : Bytes) (hs : WellFormed s) :
    ∃ cps : List Nat, (∀ c ∈ cps, IsScalar c) ∧ s = cps.flatMap encodeU8 ∧
      strMap toLower s = some ((cps.map ucdLower).flatMap encodeU8) ∧
      WellFormed ((cps.map ucdLower).flatMap encodeU8) := by
  obtain ⟨cps, a, b, c, d, _⟩ := str_map_spec toLower (fun c hc => (maps_scalar_to_scalar c hc).2.1) s hs
  have : cps.map toLower = cps.map ucdLower := List.map_congr_left (fun x _ => toLower_eq_ucd x)
  rw [this] at c d
  exact ⟨cps, a, b, c, d⟩

theorem str_to_title_spec (s : Bytes) (hs : WellFormed s) :
    ∃ cps : List Nat, (∀ c ∈ cps, IsScalar c) ∧ s = cps.flatMap encodeU8 ∧
      strMap toTitle s = some ((cps.map ucdTitle).flatMap encodeU8) ∧
      WellFormed ((cps.map ucdTitle).flatMap encodeU8) := by
  obtain ⟨cps, a, b, c, d, _⟩ := str_map_spec toTitle (fun c hc => (maps_scalar_to_scalar c hc).2.2) s hs
  have : cps.map toTitle = cps.map ucdTitle := List.map_congr_left (fun x _ => toTitle_eq_ucd x)
  rw [this] at c d
  exact ⟨cps, a, b, c, d⟩

end Gpc.CaseMap

namespace Gpc.CaseMap
open Gpc.CaseTable Gpc.Generated Gpc.Utf Gpc.Utf8

/-! ## case-insensitive equality = equal simple case foldings -/

/-- UCD Simple_Case_Folding (status C + S) -/
def scf (c : Nat) : Nat := Gpc.Ucd.scfT.apply c

/-- the case-folding class of a code point (a singleton if it has no case variants) -/
def cls (c : Nat) : List Nat := (Gpc.Ucd.classOfT.find c).getD [c]

/-- class is strictly increasing and the implementation's fold maps each member to the next, cyclically -/
def cyclicOk (cl : List Nat) : Bool :=
  match cl with
  | [x0, x1] => decide (x0 < x1) && simpleFold x0 == x1 && simpleFold x1 == x0
  | [x0, x1, x2] => decide (x0 < x1 ∧ x1 < x2) && simpleFold x0 == x1 && simpleFold x1 == x2 && simpleFold x2 == x0
  | [x0, x1, x2, x3] =>
    decide (x0 < x1 ∧ x1 < x2 ∧ x2 < x3) && simpleFold x0 == x1 && simpleFold x1 == x2 && simpleFold x2 == x3 &&
      simpleFold x3 == x0
  | _ => false

def nodeOk (p : Nat × List Nat) : Bool :=
  p.2.contains p.1 && p.2.all (fun x => scf x == scf p.1) && (Gpc.Ucd.classOfT.find (scf p.1) == some p.2)
    && cyclicOk p.2 && p.2.all (fun x => Gpc.Ucd.classOfT.find x == some p.2)

/-- kernel check over all 2,878 code points that have case variants: the class contains the point,
all members have the same UCD folding, the folding itself is a member, the implementation's
`gp_u32_simple_fold` walks the class in increasing cyclic order, members agree on their class -/
theorem nodes_ok : Gpc.Ucd.classOfT.toList.all nodeOk = true := by decide +kernel

/-- every code point the implementation's fold moves has a class -/
theorem fold_covered : implFoldT.toList.all (fun e =>
    (List.range' e.lo (e.hi + 1 - e.lo)).all fun c => (Gpc.Ucd.classOfT.find c).isSome) = true := by decide +kernel
/-- every code point the UCD folding moves has a class -/
theorem scf_covered : Gpc.Ucd.scfT.toList.all (fun e =>
    (List.range' e.lo (e.hi + 1 - e.lo)).all fun c => (Gpc.Ucd.classOfT.find c).isSome) = true := by decide +kernel
/-- the ASCII shortcut of `gp_str_equal_case` agrees with the classes -/
theorem ascii_shortcut : (List.range 128).all (fun a => (List.range 128).all fun b =>
    !(decide (a < b)) || ((decide (65 ≤ a) && decide (a ≤ 90) && b == a + 32) == (cls a).contains b)) = true := by
  decide +kernel

theorem covered_of_moved (t : T) (hcov : t.toList.all (fun e =>
    (List.range' e.lo (e.hi + 1 - e.lo)).all fun c => (Gpc.Ucd.classOfT.find c).isSome) = true)
    (c : Nat) (h : t.apply c ≠ c) : (Gpc.Ucd.classOfT.find c).isSome = true := by
  obtain ⟨e, he, h1, h2⟩ := T.apply_ne t c h
  have := (List.all_eq_true.1 hcov) e he
  have := (List.all_eq_true.1 this) c (by rw [List.mem_range'_1]; omega)
  exact this

theorem not_in_class (c : Nat) (h : Gpc.Ucd.classOfT.find c = none) : simpleFold c = c ∧ scf c = c ∧ cls c = [c] := by
  refine ⟨?_, ?_, by simp [cls, h]⟩
  · apply Classical.byContradiction; intro hne
    have := covered_of_moved implFoldT fold_covered c hne
    rw [h] at this; simp at this
  · apply Classical.byContradiction; intro hne
    have := covered_of_moved Gpc.Ucd.scfT scf_covered c hne
    rw [h] at this; simp at this

theorem in_class (c : Nat) (cl : List Nat) (h : Gpc.Ucd.classOfT.find c = some cl) : nodeOk (c, cl) = true :=
  (List.all_eq_true.1 nodes_ok) (c, cl) (CT.find_mem _ _ _ h)

/-- members of a class have that class -/
theorem cls_of_mem (c : Nat) (cl : List Nat) (h : Gpc.Ucd.classOfT.find c = some cl) (x : Nat) (hx : x ∈ cl) :
    Gpc.Ucd.classOfT.find x = some cl := by
  have := in_class c cl h
  simp only [nodeOk, Bool.and_eq_true, List.all_eq_true, beq_iff_eq] at this
  exact this.2 x hx

/-- UCD foldings are equal exactly for code points of the same class -/
theorem scf_eq_iff (c1 c2 : Nat) : scf c1 = scf c2 ↔ c2 ∈ cls c1 := by
  cases h1 : Gpc.Ucd.classOfT.find c1 with
  | none =>
    obtain ⟨_, s1, k1⟩ := not_in_class c1 h1
    rw [k1, s1]
    cases h2 : Gpc.Ucd.classOfT.find c2 with
    | none => obtain ⟨_, s2, _⟩ := not_in_class c2 h2; rw [s2]; simp [eq_comm]
    | some cl2 =>
      have n2 := in_class c2 cl2 h2
      simp only [nodeOk, Bool.and_eq_true, List.all_eq_true, beq_iff_eq, List.contains_iff_mem] at n2
      constructor
      · intro e
        -- scf c2 = c1 has class cl2, but c1 has no class
        have := n2.1.1.2; rw [← e, h1] at this; simp at this
      · intro e; simp at e; subst e; rw [h1] at h2; simp at h2
  | some cl1 =>
    have n1 := in_class c1 cl1 h1
    simp only [nodeOk, Bool.and_eq_true, List.all_eq_true, beq_iff_eq, List.contains_iff_mem] at n1
    have hc : cls c1 = cl1 := by simp [cls, h1]
    rw [hc]
    constructor
    · intro e
      cases h2 : Gpc.Ucd.classOfT.find c2 with
      | none =>
        obtain ⟨_, s2, _⟩ := not_in_class c2 h2
        have := n1.1.1.2; rw [e, s2, h2] at this; simp at this
      | some cl2 =>
        have n2 := in_class c2 cl2 h2
        simp only [nodeOk, Bool.and_eq_true, List.all_eq_true, beq_iff_eq, List.contains_iff_mem] at n2
        have a := n1.1.1.2; have b := n2.1.1.2
        rw [e, b] at a; injection a with a; rw [← a]; exact n2.1.1.1.1
    · intro hm
      exact (n1.1.1.1.2 c2 hm).symm ▸ rfl

/-- the walk of the implementation from the smaller code point reaches the larger one exactly
when they are in the same class -/
theorem walk_iff (a b : Nat) (hab : a < b) :
    walk simpleFold a b 8 (simpleFold a) = true ↔ b ∈ cls a := by
  cases h1 : Gpc.Ucd.classOfT.find a with
  | none =>
    obtain ⟨f1, _, k1⟩ := not_in_class a h1
    rw [k1, f1]
    simp only [walk, ne_eq, not_true_eq_false, false_and, if_false, beq_iff_eq, List.mem_singleton]
    omega
  | some cl =>
    have n1 := in_class a cl h1
    simp only [nodeOk, Bool.and_eq_true, List.all_eq_true, beq_iff_eq, List.contains_iff_mem] at n1
    have hc : cls a = cl := by simp [cls, h1]
    rw [hc]
    have hcyc := n1.1.2
    have hmem := n1.1.1.1.1
    rcases cl with _ | ⟨x0, _ | ⟨x1, _ | ⟨x2, _ | ⟨x3, _ | ⟨x4, r⟩⟩⟩⟩⟩ <;> simp only [cyclicOk] at hcyc
    · simp at hcyc
    · simp at hcyc
    · simp only [Bool.and_eq_true, decide_eq_true_eq, beq_iff_eq] at hcyc
      obtain ⟨⟨h01, f0⟩, f1⟩ := hcyc
      have w := walk2 simpleFold x0 x1 b h01 f0 f1
      simp only [List.mem_cons, List.mem_nil_iff, or_false] at hmem ⊢
      rcases hmem with rfl | rfl
      · exact w.1 hab
      · exact w.2 hab
    · simp only [Bool.and_eq_true, decide_eq_true_eq, beq_iff_eq] at hcyc
      obtain ⟨⟨⟨⟨h01, h12⟩, f0⟩, f1⟩, f2⟩ := hcyc
      have w := walk3 simpleFold x0 x1 x2 b h01 h12 f0 f1 f2
      simp only [List.mem_cons, List.mem_nil_iff, or_false] at hmem ⊢
      rcases hmem with rfl | rfl | rfl
      · exact w.1 hab
      · exact w.2.1 hab
      · exact w.2.2 hab
    · simp only [Bool.and_eq_true, decide_eq_true_eq, beq_iff_eq] at hcyc
      obtain ⟨⟨⟨⟨⟨h01, h12, h23⟩, f0⟩, f1⟩, f2⟩, f3⟩ := hcyc
      have w := walk4 simpleFold x0 x1 x2 x3 b h01 h12 h23 f0 f1 f2 f3
      simp only [List.mem_cons, List.mem_nil_iff, or_false] at hmem ⊢
      rcases hmem with rfl | rfl | rfl | rfl
      · exact w.1 hab
      · exact w.2.1 hab
      · exact w.2.2.1 hab
      · exact w.2.2.2 hab
    · simp at hcyc

theorem cls_symm (c1 c2 : Nat) : c2 ∈ cls c1 ↔ c1 ∈ cls c2 := by
  rw [← scf_eq_iff, ← scf_eq_iff]; exact eq_comm

/-- one position of `gp_str_equal_case`: equal exactly when the simple case foldings are equal -/
theorem equal_cp_iff (c1 c2 : Nat) : equalCp simpleFold c1 c2 = true ↔ scf c1 = scf c2 := by
  unfold equalCp
  by_cases he : c1 = c2
  · simp [he]
  · simp only [he, if_false]
    rw [scf_eq_iff]
    -- a = min, b = max, a < b
    have key : ∀ a b, a < b → ((if b < 0x80 then (decide (65 ≤ a) && decide (a ≤ 90) && b == a + 32)
        else walk simpleFold a b 8 (simpleFold a)) = true ↔ b ∈ cls a) := by
      intro a b hab
      by_cases hb : b < 0x80
      · simp only [hb, if_true]
        have := (List.all_eq_true.1 ((List.all_eq_true.1 ascii_shortcut) a (by rw [List.mem_range]; omega))) b
          (by rw [List.mem_range]; omega)
        simp only [hab, decide_true, Bool.not_true, Bool.false_or, beq_iff_eq] at this
        rw [this, List.contains_iff_mem]
      · simp only [hb, if_false]; exact walk_iff a b hab
    by_cases hlt : c1 < c2
    · have h1 : min c1 c2 = c1 := by omega
      have h2 : max c1 c2 = c2 := by omega
      simp only [h1, h2]
      simpa using key c1 c2 hlt
    · have hlt' : c2 < c1 := by omega
      have h1 : min c1 c2 = c2 := by omega
      have h2 : max c1 c2 = c1 := by omega
      simp only [h1, h2]
      rw [cls_symm c1 c2]
      simpa using key c2 c1 hlt'

theorem equalCpList_iff (l1 l2 : List Nat) :
    equalCpList simpleFold l1 l2 = true ↔ l1.map scf = l2.map scf := by
  induction l1 generalizing l2 with
  | nil => cases l2 <;> simp [equalCpList]
  | cons x xs ih =>
    cases l2 with
    | nil => simp [equalCpList]
    | cons y ys => simp [equalCpList, equal_cp_iff, ih]

/-- `gp_str_equal_case` on valid UTF-8 strings holds exactly when the two strings have equal simple
case foldings (code point by code point) -/
theorem equal_case_iff (cps1 cps2 : List Nat) (h1 : ∀ c ∈ cps1, IsScalar c) (h2 : ∀ c ∈ cps2, IsScalar c) :
    strEqualCase (cps1.flatMap encodeU8) (cps2.flatMap encodeU8) = some true ↔ cps1.map scf = cps2.map scf := by
  unfold strEqualCase
  rw [decodeAll_encoding cps1 (fun c hc => (h1 c hc).1) _ (Nat.le_refl _),
      decodeAll_encoding cps2 (fun c hc => (h2 c hc).1) _ (Nat.le_refl _)]
  simp only [Option.some.injEq, Bool.and_eq_true, beq_iff_eq, equalCpList_iff]
  constructor
  · exact fun h => h.2
  · intro h; exact ⟨by have := congrArg List.length h; simpa using this, h⟩

/-- hence it is an equivalence relation -/
theorem equal_case_refl (cps : List Nat) : cps.map scf = cps.map scf := rfl
theorem equal_case_symm (a b : List Nat) (h : a.map scf = b.map scf) : b.map scf = a.map scf := h.symm
theorem equal_case_trans (a b c : List Nat) (h1 : a.map scf = b.map scf) (h2 : b.map scf = c.map scf) :
    a.map scf = c.map scf := h1.trans h2

/-- K / k / KELVIN SIGN and S / s / LONG S are three-element orbits -/
example : equalCp simpleFold 0x4B 0x212A = true ∧ equalCp simpleFold 0x17F 0x53 = true
    ∧ equalCp simpleFold 0x4B 0x4C = false := by decide +kernel

end Gpc.CaseMap
