"""C19 — the unit-test framework's verdict and tallies are faithful."""
import itertools
import vlib


def simulate(ops):
    """independent tally at the level of the property. Returns (status_should_fail, verdicts, last_summary)"""
    cur = {False: {"t": None, "s": None}, True: {"t": None, "s": None}}
    failed_t, failed_s = set(), set()
    started_t, started_s = [], []
    verdicts = []          # (kind, name, passed)
    epoch = {"t": 0, "s": 0, "tf": 0, "sf": 0}
    summaries = []
    armed = False
    asserted = False

    def end_test(th):
        c = cur[th]
        if c["t"] is not None:
            ok = c["t"] not in failed_t
            verdicts.append(("t", c["t"], ok))
            if not ok: epoch["tf"] += 1
            c["t"] = None

    def end_suite(th):
        end_test(th)
        c = cur[th]
        if c["s"] is not None:
            ok = c["s"] not in failed_s
            verdicts.append(("s", c["s"], ok))
            if not ok: epoch["sf"] += 1
            c["s"] = None

    def end_testing(th):
        """returns True if the process exits with failure here"""
        if epoch["t"] + epoch["s"] == 0:
            return False
        end_suite(th)
        summaries.append((epoch["t"], epoch["s"], epoch["tf"], epoch["sf"]))
        if epoch["tf"] or epoch["sf"]:
            return True
        for k in epoch: epoch[k] = 0
        return False

    exiting_thread = False
    for op in ops:
        th = op.startswith("@")
        o = op[1:] if th else op
        c = cur[th]
        if o[0] == "S":
            armed = True
            end_suite(th)
            if o[1:] != "-":
                c["s"] = int(o[1:]); started_s.append(c["s"]); epoch["s"] += 1
        elif o[0] == "T":
            armed = True
            end_test(th)
            if o[1:] != "-":
                c["t"] = int(o[1:]); started_t.append(c["t"]); epoch["t"] += 1
        elif o.startswith("E0"):
            if c["t"] is not None: failed_t.add(c["t"])
            if c["s"] is not None: failed_s.add(c["s"])
        elif o == "A0":
            if c["t"] is not None: failed_t.add(c["t"])
            if c["s"] is not None: failed_s.add(c["s"])
            asserted = True
            exiting_thread = th
            break
        elif o == "X":
            if end_testing(th):
                exiting_thread = th
                break
    if armed:
        end_testing(exiting_thread)
    # property level: a failure status iff an expectation failed while a test or suite was running (it is in
    # failed_t / failed_s then) or an assertion failed
    fail = asserted or bool(failed_t) or bool(failed_s)
    return fail, verdicts, summaries


def oracle(case, out):
    t = case[0].split()
    script = [] if t[1] == "-" else t[1].split(",")
    o = out[0].split()
    status = int(o[0].split("=")[1])
    evs = o[1:] if o[1:] != ["-"] else []
    want_fail, verdicts, summaries = simulate(script)
    if (status != 0) != want_fail:
        return "%s: exit status %d but a failure %s" % (t[1], status, "occurred" if want_fail else "did not occur")
    got_v = [(e[0], int(e[1:].split(":")[0]), e.endswith(":P")) for e in evs
             if e[0] in "ts" and ":" in e and not e.startswith("sum:")]
    if got_v != verdicts:
        return "%s: verdict lines %s, expected %s" % (t[1], got_v, verdicts)
    got_s = [tuple(int(x) for x in e[4:].split(",")) for e in evs if e.startswith("sum:")]
    if summaries and (not got_s or got_s[-1] != summaries[-1] or got_s[:len(summaries)] != summaries):
        return "%s: summary %s, expected %s" % (t[1], got_s, summaries)
    if not summaries and got_s:
        return "%s: unexpected summary %s" % (t[1], got_s)
    return None


SYMS = ["S+", "S-", "T+", "T-", "E1", "E0", "E0f", "A1", "A0", "X"]
EXTRA_SYMS = ["E0g"]      # failing expectation whose format strings contain literal percent signs: in random scripts


def materialize(seq, thread_mask=0):
    """ops with bit set in thread_mask run in a second thread; as the property's quantifier says, that thread
    ends its tests explicitly (gp_suite(NULL) ends its current test and suite) and neither ends the process nor
    the testing epoch itself"""
    out, k = [], 0
    for i, s in enumerate(seq):
        th = thread_mask >> i & 1
        if th and s in ("A0", "X"):
            s = "E0" if s == "A0" else "E1"
        if s.endswith("+"):
            k += 1
            s = s[0] + str(k)
        out.append("@" + s if th else s)
        if th and not (thread_mask >> (i + 1) & 1):
            out.append("@S-")
    return ",".join(out) or "-"


def run(ctx):
    ctx.rules.append("a case = one test program run in a child process (script over suite(name), suite(NULL), test(name), "
                     "test(NULL), expect(true), expect(false) plain and with extra arguments/format strings, assert(true), "
                     "assert(false), end_testing; return from main at the end); EXHAUSTIVE over all scripts of length <= 5 "
                     "(quick) / <= 6 (thorough) over the 10-symbol alphabet, random scripts to length 60, and scripts whose "
                     "tests run in a second thread; non-trivial = at least 2 ops; distinct by script")
    ctx.assumptions += ["calling exit() inside the atexit handler replaces the exit status (glibc behaviour)",
                        "second-thread tests are joined before the main thread continues; the second thread ends its "
                        "own tests and suites explicitly and does not call assert-false / end_testing (the property's "
                        "quantifier); the Lean theorems cover single-threaded programs, two-thread programs are "
                        "tied by correspondence and the reference tally only"]
    exe = ctx.build_harness("c19", tag="nosan", san=False)     # 10^5 child processes: no sanitizer start-up cost
    ctx.build_model()
    ctx.prove()
    if ctx.replay_cases is not None:
        cases = ctx.replay_cases
    else:
        quick = ctx.tier == "quick"
        cases = vlib.load_corpus("C19")
        L = 5 if quick else 6
        for n in range(0, L + 1):
            for seq in itertools.product(SYMS, repeat=n):
                cases.append(["tf " + materialize(seq)])
        for seq in (["E0g"], ["T+", "E0g"], ["S+", "T+", "E0g", "E1"], ["T+", "E0g", "T+", "E1"], ["S+", "E0g", "S-"], ["T+", "E1", "E0g", "X"]):
            cases.append(["tf " + materialize(seq)])
        # many failing tests / suites: the exit status is a failure status however many there are (255, 256, 257, 512 ...)
        for nfail in (255, 256, 257, 512, 1024):
            cases.append(["tf " + materialize(["T+", "E0"] * nfail)])
            cases.append(["tf " + materialize(["S+", "E0"] * (nfail // 2) + ["T+", "E0"] * (nfail - nfail // 2))])
        ctx.exhaustive = True
        ctx.extra_cov["exhaustive_script_length"] = L
        r = ctx.rng
        for _ in range(3000 if quick else 30000):
            n = r.randrange(6, 61)
            seq = [r.choice(SYMS[:9] if r.random() < 0.9 else SYMS) for _ in range(n)]
            if r.random() < 0.01: seq = [("E0g" if s == "E0f" else s) for s in seq]     # few: a program that hangs costs its time limit
            # assertions failing and end_testing are rare so that long scripts run long
            seq = [s if s not in ("A0",) or r.random() < 0.1 else "A1" for s in seq]
            mask = 0
            if r.random() < 0.4:
                a = r.randrange(n); b = min(n, a + r.randrange(1, 8))
                for i in range(a, b): mask |= 1 << i
            cases.append(["tf " + materialize(seq, mask)])
    ctx.correspond("test-programs", exe, cases, oracle=oracle, nontrivial=lambda c: "," in c[0], timeout=600)
