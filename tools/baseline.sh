#!/bin/sh
# Runs the repository's own test suite (guard LIBGPC_VERIF off) on a scratch copy of
# /repo's working tree. Prints the suite/test verdict lines; exit status = suite status.
set -e
REPO=${GPC_REPO:-/repo}
D=$(mktemp -d /tmp/gpc_baseline.XXXXXX)
trap 'rm -rf "$D"' EXIT
rsync -a --exclude build --exclude .git "$REPO"/ "$D"/
cd "$D"
make build_tests >"$D/build.log" 2>&1 || { tail -40 "$D/build.log"; exit 2; }
make run_tests 2>&1 | sed 's/\x1b\[[0-9;]*m//g'
