import Gpc.Model.PFString
/-! Proofs for the bounded output string (C10): every helper stays inside the destination and keeps the
destination equal to a prefix of the unbounded output. -/
namespace Gpc.PF

theorem get_splice (a b c : Bytes) (i : Nat) :
    (a ++ b ++ c)[i]? = if i < a.length then a[i]? else if i < a.length + b.length then b[i - a.length]? else c[i - a.length - b.length]? := by
  rw [List.append_assoc, List.getElem?_append]
  split
  · rfl
  · rw [List.getElem?_append]
    split
    · have : i < a.length + b.length := by omega
      simp [this]
    · have : ¬ i < a.length + b.length := by omega
      simp [this]

theorem wr_some (d : Bytes) (off : Nat) (src : Bytes) (h : src.length = 0 ∨ off + src.length ≤ d.length) :
    ∃ d', wr d off src = some d' ∧ d'.length = d.length ∧
      ∀ i, d'[i]? = if off ≤ i ∧ i < off + src.length then src[i - off]? else d[i]? := by
  by_cases h0 : src.length = 0
  · refine ⟨d, by simp [wr, h0], rfl, fun i => ?_⟩
    have : ¬ (off ≤ i ∧ i < off + src.length) := by omega
    simp [this]
  · have h1 : off + src.length ≤ d.length := by omega
    refine ⟨d.take off ++ src ++ d.drop (off + src.length), by simp [wr, h0, h1], ?_, fun i => ?_⟩
    · simp; omega
    · rw [get_splice]
      have hl : (d.take off).length = off := by simp; omega
      simp only [hl]
      by_cases c1 : i < off
      · have : ¬ (off ≤ i ∧ i < off + src.length) := by omega
        simp [c1, this, List.getElem?_take]
      · by_cases c2 : i < off + src.length
        · have : (off ≤ i ∧ i < off + src.length) := by omega
          simp [c1, c2, this]
        · have : ¬ (off ≤ i ∧ i < off + src.length) := by omega
          simp only [c1, c2, and_false, if_false, List.getElem?_drop]
          congr 1; omega

theorem mv_some (d : Bytes) (dst src n : Nat) (h : n = 0 ∨ (dst + n ≤ d.length ∧ src + n ≤ d.length)) :
    ∃ d', mv d dst src n = some d' ∧ d'.length = d.length ∧
      ∀ i, d'[i]? = if dst ≤ i ∧ i < dst + n then d[src + (i - dst)]? else d[i]? := by
  by_cases h0 : n = 0
  · refine ⟨d, by simp [mv, h0], rfl, fun i => ?_⟩
    have : ¬ (dst ≤ i ∧ i < dst + n) := by omega
    simp [this]
  · have h1 : dst + n ≤ d.length ∧ src + n ≤ d.length := by omega
    refine ⟨d.take dst ++ (d.drop src).take n ++ d.drop (dst + n), by simp [mv, h0, h1], ?_, fun i => ?_⟩
    · simp; omega
    · rw [get_splice]
      have hl : (d.take dst).length = dst := by simp; omega
      have hl2 : ((d.drop src).take n).length = n := by simp; omega
      simp only [hl, hl2]
      by_cases c1 : i < dst
      · have : ¬ (dst ≤ i ∧ i < dst + n) := by omega
        simp [c1, this, List.getElem?_take]
      · by_cases c2 : i < dst + n
        · have : (dst ≤ i ∧ i < dst + n) := by omega
          have c3 : i - dst < n := by omega
          simp [c1, c2, this, c3, List.getElem?_take, List.getElem?_drop]
        · have : ¬ (dst ≤ i ∧ i < dst + n) := by omega
          simp only [c1, c2, and_false, if_false, List.getElem?_drop]
          congr 1; omega

/-- the destination holds the first `capacity` bytes of the unbounded output `full`, and `length`
is the unbounded length -/
def Agrees (p : PF) (full : Bytes) : Prop :=
  p.length = full.length ∧ ∀ i, i < p.cap → i < full.length → p.data[i]? = full[i]?

theorem capLeft_eq (p : PF) : capLeft p = p.cap - p.length := by
  unfold capLeft; split <;> omega

theorem concat_ok (p : PF) (full src : Bytes) (h : Agrees p full) :
    ∃ p', concat p src = some p' ∧ p'.cap = p.cap ∧ Agrees p' (full ++ src) := by
  obtain ⟨data, length⟩ := p
  obtain ⟨hl, hg⟩ := h
  simp only [PF.cap] at hl hg
  subst hl
  have hlim : limit ⟨data, full.length⟩ src.length = min (data.length - full.length) src.length := by
    simp [limit, capLeft_eq, PF.cap]
  obtain ⟨d', e, l', g'⟩ := wr_some data full.length (src.take (min (data.length - full.length) src.length))
    (by simp only [List.length_take]; omega)
  refine ⟨{ data := d', length := full.length + src.length }, by simp [concat, hlim, e], by simpa [PF.cap] using l', ?_, ?_⟩
  · simp
  · intro i hi1 hi2
    simp only [PF.cap, l'] at hi1
    simp only [List.length_append] at hi2
    simp only [g' i, List.length_take]
    by_cases c : i < full.length
    · rw [if_neg (by omega), hg i hi1 c, List.getElem?_append_left c]
    · rw [if_pos (by omega), List.getElem?_append_right (by omega), List.getElem?_take, if_pos (by omega)]

theorem pad_ok (p : PF) (full : Bytes) (c : UInt8) (n : Nat) (h : Agrees p full) :
    ∃ p', pad p c n = some p' ∧ p'.cap = p.cap ∧ Agrees p' (full ++ List.replicate n c) := by
  obtain ⟨p', e, hc, ha⟩ := concat_ok p full (List.replicate n c) h
  refine ⟨p', ?_, hc, ha⟩
  simp only [concat, List.length_replicate, List.take_replicate] at e
  simp only [pad]
  have : min (limit p n) n = limit p n := by simp [limit]
  rw [this] at e; exact e

theorem push_ok (p : PF) (full : Bytes) (c : UInt8) (h : Agrees p full) :
    ∃ p', push p c = some p' ∧ p'.cap = p.cap ∧ Agrees p' (full ++ [c]) := by
  obtain ⟨p', e, hc, ha⟩ := concat_ok p full [c] h
  refine ⟨p', ?_, hc, ha⟩
  simp only [concat, List.length_singleton] at e
  simp only [push]
  by_cases h1 : limit p 1 = 0
  · simp only [h1, List.take_zero, ne_eq, not_true_eq_false, if_false] at e ⊢
    first | done | simpa [wr] using e
  · have : limit p 1 = 1 := by simp [limit] at h1 ⊢; omega
    simp only [this, List.take_succ_cons, List.take_zero, ne_eq] at e ⊢
    simpa using e

/-- `pf_insert_pad`: `n` copies of `c` inserted at position `i` of the output -/
theorem insertPad_ok (p : PF) (full : Bytes) (i : Nat) (c : UInt8) (n : Nat) (h : Agrees p full)
    (hi : i ≤ full.length) :
    ∃ p', insertPad p i c n = some p' ∧ p'.cap = p.cap ∧
      Agrees p' (full.take i ++ List.replicate n c ++ full.drop i) := by
  obtain ⟨data, length⟩ := p
  obtain ⟨hl, hg⟩ := h
  simp only [PF.cap] at hl hg
  subst hl
  have hlen : (full.take i ++ List.replicate n c ++ full.drop i).length = full.length + n := by
    simp; omega
  unfold insertPad
  split
  · rename_i c0
    simp only [PF.cap] at c0
    refine ⟨_, rfl, rfl, by simp; omega, ?_⟩
    intro j hj1 hj2
    simp only [PF.cap] at hj1
    have hj : j < i := by omega
    rw [get_splice, List.length_take, if_pos (by omega), List.getElem?_take, if_pos hj]
    exact hg j hj1 (by omega)
  · rename_i c0
    simp only [PF.cap] at c0
    have hi2 : i ≤ data.length := by omega
    obtain ⟨d1, e1, l1, g1⟩ : ∃ d1, insertPadMove ⟨data, full.length⟩ i n = some d1 ∧
        d1.length = data.length ∧ ∀ j, d1[j]? = if i + n < data.length ∧ i + n ≤ j ∧
          j < i + n + (min full.length data.length - i - (min full.length data.length - i + n -
          min (data.length - i) (min full.length data.length - i + n))) then data[i + (j - (i + n))]? else data[j]? := by
      simp only [insertPadMove, PF.cap]
      by_cases c1 : i + n < data.length
      · obtain ⟨d1, e1, l1, g1⟩ := mv_some data (i + n) i
          (min full.length data.length - i - (min full.length data.length - i + n -
            min (data.length - i) (min full.length data.length - i + n))) (Or.inr (by omega))
        refine ⟨d1, by simp only [c1, ↓reduceIte]; exact e1, l1, fun j => ?_⟩
        rw [g1 j]; simp [c1]
      · exact ⟨data, by simp only [c1, ↓reduceIte], rfl, fun j => by simp [c1]⟩
    obtain ⟨d2, e2, l2, g2⟩ := wr_some d1 i (List.replicate (min n (min (data.length - i)
        (min full.length data.length - i + n))) c) (Or.inr (by simp only [List.length_replicate]; omega))
    refine ⟨{ data := d2, length := full.length + n }, ?_, by simp [PF.cap, l2, l1], by rw [hlen], ?_⟩
    · simp only [e1, Option.bind_eq_bind, Option.bind_some, insertPadFill, PF.cap, e2]; rfl
    · intro j hj1 hj2
      simp only [PF.cap, l2, l1] at hj1
      rw [hlen] at hj2
      rw [g2 j, List.length_replicate, get_splice, List.length_take, List.length_replicate]
      have hm : min i full.length = i := by omega
      rw [hm]
      by_cases a1 : j < i
      · rw [if_neg (by omega), if_pos a1, g1 j, if_neg (by omega), List.getElem?_take, if_pos a1]
        exact hg j hj1 (by omega)
      · by_cases a2 : j < i + n
        · rw [if_pos (by omega), if_neg a1, if_pos a2]
          simp only [List.getElem?_replicate]
          rw [if_pos (by omega), if_pos (by omega)]
        · rw [if_neg (by omega), if_neg a1, if_neg a2, g1 j, if_pos (by omega), List.getElem?_drop]
          have : i + (j - (i + n)) = i + (j - i - n) := by omega
          rw [this]
          exact hg _ (by omega) (by omega)

/-! ### integer writers -/

theorem revDigits_length (base : Nat) (upper : Bool) (hb : 2 ≤ base) :
    ∀ (fuel k x : Nat), 1 ≤ k → x < base ^ k → (revDigits base upper fuel x).length ≤ k := by
  intro fuel
  induction fuel with
  | zero => intro k x hk _; simp [revDigits]
  | succ f ih =>
    intro k x hk hx
    unfold revDigits
    simp only
    split
    · simpa using hk
    · rename_i hne
      have h1 : 1 ≤ x / base := Nat.pos_of_ne_zero hne
      have hk2 : 2 ≤ k := by
        rcases Nat.lt_or_ge k 2 with h | h
        · have : k = 1 := by omega
          subst this
          simp only [Nat.pow_one] at hx
          have := Nat.div_eq_of_lt hx
          omega
        · exact h
      have hx2 : x / base < base ^ (k - 1) := by
        rw [Nat.div_lt_iff_lt_mul (by omega)]
        have : base ^ k = base ^ (k - 1) * base := by
          rw [← Nat.pow_succ]; congr 1; omega
        omega
      have := ih (k - 1) (x / base) (by omega) hx2
      simp only [List.length_cons]; omega

theorem digits10_length (upper : Bool) (x : Nat) (hx : x < 1000000000) : (digits 10 upper x).length ≤ 9 := by
  unfold digits
  rw [List.length_reverse]
  exact revDigits_length 10 upper (by omega) 64 9 x (by omega) (by simpa using hx)

/-- the integer writers put the first `min n |digits|` digits at `off`, touch nothing before `off`
and nothing at or after `off + n` -/
theorem utoaAt_ok (d : Bytes) (off n base : Nat) (upper : Bool) (x : Nat) (hn : n = 0 ∨ off + n ≤ d.length) :
    ∃ d', utoaAt d off n base upper x = some (d', (digits base upper x).length) ∧ d'.length = d.length ∧
      (∀ j, j < off → d'[j]? = d[j]?) ∧
      (∀ j, j < min n (digits base upper x).length → d'[off + j]? = (digits base upper x)[j]?) := by
  unfold utoaAt
  simp only
  split
  · rename_i hc
    have hl := digits10_length upper x hc.2.2
    rw [hc.1]
    obtain ⟨d', e, l, g⟩ := wr_some d off (digits 10 upper x) (Or.inr (by omega))
    refine ⟨d', by simp [e], l, fun j hj => ?_, fun j hj => ?_⟩
    · rw [g j, if_neg (by omega)]
    · rw [g (off + j), if_pos (by omega)]; congr 1; omega
  · generalize digits base upper x = ds
    unfold reverseCopy
    obtain ⟨d1, e1, l1, g1⟩ := wr_some d off (ds.take (min n ds.length))
      (by simp only [List.length_take]; omega)
    by_cases hlt : ds.length < n
    · obtain ⟨d2, e2, l2, g2⟩ := wr_some d1 (off + ds.length) [0] (Or.inr (by simp only [List.length_singleton]; omega))
      refine ⟨d2, by simp [e1, hlt, e2], by omega, fun j hj => ?_, fun j hj => ?_⟩
      · rw [g2 j, if_neg (by omega), g1 j, if_neg (by omega)]
      · rw [g2 (off + j), if_neg (by omega), g1 (off + j), if_pos (by simp only [List.length_take]; omega),
          List.getElem?_take, if_pos (by omega)]
        congr 1; omega
    · refine ⟨d1, by simp [e1, hlt], l1, fun j hj => ?_, fun j hj => ?_⟩
      · rw [g1 j, if_neg (by omega)]
      · rw [g1 (off + j), if_pos (by simp only [List.length_take]; omega), List.getElem?_take, if_pos (by omega)]
        congr 1; omega

/-- number of leading zeroes the precision asks for -/
def zeroFill (prec : Option Nat) (written : Nat) : Nat :=
  match prec with
  | some w => if w ≤ written then 0 else w - written
  | none => 0

/-- `pf_write_leading_zeroes`: with the first digits `ds` (at least as many as fit) sitting at
`data + length`, the destination afterwards holds `full ++ zeroes ++ ds` as far as it reaches -/
theorem leadingZeroes_ok (p : PF) (full ds : Bytes) (written : Nat) (prec : Option Nat)
    (h : Agrees p full) (hk : ds.length ≤ written)
    (hsrc : ∀ j, j < min ds.length (capLeft p) → p.data[p.length + j]? = ds[j]?) :
    ∃ p', leadingZeroes p written prec = some p' ∧ p'.cap = p.cap ∧
      p'.length = p.length + written + zeroFill prec written ∧
      ∀ i, i < p.cap → i < full.length + zeroFill prec written + ds.length →
        p'.data[i]? = (full ++ List.replicate (zeroFill prec written) 48 ++ ds)[i]? := by
  obtain ⟨data, length⟩ := p
  obtain ⟨hl, hg⟩ := h
  simp only [PF.cap] at hl hg
  subst hl
  have hcl : capLeft ⟨data, full.length⟩ = data.length - full.length := by simp [capLeft_eq, PF.cap]
  simp only [hcl] at hsrc
  cases prec with
  | none =>
    refine ⟨_, rfl, rfl, by simp [zeroFill], fun i hi1 hi2 => ?_⟩
    simp only [PF.cap, zeroFill, Nat.add_zero, List.replicate_zero, List.append_nil] at hi1 hi2 ⊢
    by_cases c : i < full.length
    · rw [List.getElem?_append_left c]; exact hg i hi1 c
    · rw [List.getElem?_append_right (by omega)]
      have := hsrc (i - full.length) (by omega)
      rw [← this]; congr 1; omega
  | some w =>
    simp only [leadingZeroes, zeroFill, hcl, limit, PF.cap]
    generalize hdiff : (if w ≤ written then 0 else w - written) = diff
    obtain ⟨d1, e1, l1, g1⟩ := mv_some data (full.length + diff) full.length
      (if diff ≥ data.length - full.length then 0 else min written (data.length - full.length - diff))
      (by split <;> omega)
    obtain ⟨d2, e2, l2, g2⟩ := wr_some d1 full.length (List.replicate (min (data.length - full.length) diff) 48)
      (by simp only [List.length_replicate]; omega)
    refine ⟨{ data := d2, length := full.length + written + diff }, ?_, by simp [PF.cap, l2, l1],
      rfl, fun i hi1 hi2 => ?_⟩
    · simp only [e1, Option.bind_eq_bind, Option.bind_some, e2]; rfl
    rw [g2 i, List.length_replicate, get_splice, List.length_replicate]
    by_cases a1 : i < full.length
    · rw [if_neg (by omega), if_pos a1, g1 i, if_neg (by omega)]; exact hg i hi1 a1
    · by_cases a2 : i < full.length + diff
      · rw [if_pos (by omega), if_neg a1, if_pos a2]
        simp only [List.getElem?_replicate]
        rw [if_pos (by omega), if_pos (by omega)]
      · rw [if_neg (by omega), if_neg a1, if_neg a2, g1 i]
        have hd : ¬ diff ≥ data.length - full.length := by omega
        rw [if_neg hd, if_pos (by omega)]
        have := hsrc (i - (full.length + diff)) (by omega)
        rw [this]; congr 1; omega

/-- an unsigned conversion body appends the zero-fill and the digits -/
theorem writeUInt_ok (p : PF) (full : Bytes) (base : Nat) (upper : Bool) (prec : Option Nat) (x : Nat)
    (h : Agrees p full) :
    ∃ p', writeUInt p base upper prec x = some p' ∧ p'.cap = p.cap ∧
      Agrees p' (full ++ List.replicate (zeroFill prec (digits base upper x).length) 48 ++ digits base upper x) := by
  have hcap : capLeft p = 0 ∨ p.length + capLeft p ≤ p.data.length := by simp only [capLeft_eq, PF.cap]; omega
  obtain ⟨d', e, l, g0, g1⟩ := utoaAt_ok p.data p.length (capLeft p) base upper x hcap
  have h' : Agrees { p with data := d' } full := by
    refine ⟨h.1, fun i hi1 hi2 => ?_⟩
    simp only [PF.cap, l] at hi1
    rw [g0 i (by rw [h.1]; exact hi2)]; exact h.2 i hi1 hi2
  obtain ⟨p', e', c', l', g'⟩ := leadingZeroes_ok { p with data := d' } full (digits base upper x)
    (digits base upper x).length prec h' (Nat.le_refl _) (by
      intro j hj
      have : capLeft { p with data := d' } = capLeft p := by simp [capLeft_eq, PF.cap, l]
      rw [this] at hj
      exact g1 j (by omega))
  refine ⟨p', by simp [writeUInt, e, e'], by rw [c']; simp [PF.cap, l], ?_, fun i hi1 hi2 => ?_⟩
  · rw [l']; simp [h.1]; omega
  · rw [c'] at hi1
    simp only [List.length_append, List.length_replicate] at hi2
    exact g' i hi1 hi2

/-- `%#o` of a non-zero value: '0', the zero-fill counted as if the '0' were a digit, the digits -/
theorem writeOctAlt_ok (p : PF) (full : Bytes) (prec : Option Nat) (x : Nat) (h : Agrees p full) :
    ∃ p', writeOctAlt p prec x = some p' ∧ p'.cap = p.cap ∧
      Agrees p' (full ++ [48] ++ List.replicate (zeroFill prec (1 + (digits 8 false x).length)) 48 ++ digits 8 false x) := by
  obtain ⟨p1, e1, c1, a1⟩ := push_ok p full 48 h
  have hcap : capLeft p1 = 0 ∨ p1.length + capLeft p1 ≤ p1.data.length := by simp only [capLeft_eq, PF.cap]; omega
  obtain ⟨d', e, l, g0, g1⟩ := utoaAt_ok p1.data p1.length (capLeft p1) 8 false x hcap
  have h' : Agrees { p1 with data := d' } (full ++ [48]) := by
    refine ⟨a1.1, fun i hi1 hi2 => ?_⟩
    simp only [PF.cap, l] at hi1
    rw [g0 i (by rw [a1.1]; exact hi2)]; exact a1.2 i hi1 hi2
  obtain ⟨p2, e2, c2, l2, g2⟩ := leadingZeroes_ok { p1 with data := d' } (full ++ [48]) (digits 8 false x)
    (1 + (digits 8 false x).length) prec h' (by omega) (by
      intro j hj
      have : capLeft { p1 with data := d' } = capLeft p1 := by simp [capLeft_eq, PF.cap, l]
      rw [this] at hj
      exact g1 j (by omega))
  refine ⟨{ p2 with length := p2.length - 1 }, by simp [writeOctAlt, e1, e, e2], ?_, ?_, fun i hi1 hi2 => ?_⟩
  · simp only [PF.cap] at c2 c1 ⊢; rw [c2, ← c1]; simp [l]
  · simp only [l2, a1.1]; simp; omega
  · have hc : p2.cap = p1.cap := by simp only [PF.cap] at c2 ⊢; rw [c2]; simp [l]
    simp only [PF.cap] at hi1 hc c1
    simp only [List.length_append, List.length_replicate, List.length_singleton] at hi2
    exact g2 i (by simp only [PF.cap, l]; omega) (by simp only [List.length_append, List.length_singleton]; omega)

/-! ### the float converter's output steps -/

theorem lastDigits_length (count x : Nat) : (lastDigits count x).length = count := by simp [lastDigits]

theorem dDigits_length (m x : Nat) : (dDigits m x).length = m + 1 := by
  unfold dDigits
  have := lastDigits_length m x
  split
  · rename_i h; rw [h] at this; simp at this; simp [← this]
  · rename_i hd tl h; rw [h] at this; simp at this ⊢; omega

/-- a direct write of a text that fits is what `pf_concat` does -/
theorem direct_eq_concat (p : PF) (s : Bytes) (h : capLeft p ≥ s.length) :
    (do let d ← wr p.data p.length s; pure ({ data := d, length := p.length + s.length } : PF)) = concat p s := by
  have : limit p s.length = s.length := by simp [limit]; omega
  simp [concat, this]

theorem appendNine_eq (p : PF) (x : Nat) : appendNine p x = concat p (lastDigits 9 x) := by
  unfold appendNine
  split
  · rename_i h
    have := direct_eq_concat p (lastDigits 9 x) (by rw [lastDigits_length]; exact h)
    rw [lastDigits_length] at this; exact this
  · rfl

theorem appendC_eq (p : PF) (c x : Nat) : appendC p c x = concat p (lastDigits c x) := by
  unfold appendC
  split
  · rename_i h
    have := direct_eq_concat p (lastDigits c x) (by rw [lastDigits_length]; exact h)
    rw [lastDigits_length] at this; exact this
  · rfl

theorem appendD_eq (p : PF) (m x : Nat) : appendD p m x = concat p (dDigits m x) := by
  unfold appendD
  split
  · rename_i h
    have := direct_eq_concat p (dDigits m x) (by rw [dDigits_length]; exact h)
    rw [dDigits_length] at this
    simpa [Nat.add_assoc] using this
  · rfl

theorem appendUtoa_ok (p : PF) (full : Bytes) (x : Nat) (h : Agrees p full) :
    ∃ p', appendUtoa p x = some p' ∧ p'.cap = p.cap ∧ Agrees p' (full ++ digits 10 false x) := by
  unfold appendUtoa
  split
  · rename_i h9
    have hcap : capLeft p = 0 ∨ p.length + capLeft p ≤ p.data.length := by simp only [capLeft_eq, PF.cap]; omega
    obtain ⟨d', e, l, g0, g1⟩ := utoaAt_ok p.data p.length (capLeft p) 10 false x hcap
    refine ⟨{ data := d', length := p.length + (digits 10 false x).length }, by simp [e], by simp [PF.cap, l], by simp [h.1], fun i hi1 hi2 => ?_⟩
    simp only [PF.cap, l] at hi1
    simp only [List.length_append] at hi2
    by_cases c : i < full.length
    · rw [List.getElem?_append_left c, g0 i (by rw [h.1]; exact c)]; exact h.2 i hi1 c
    · rw [List.getElem?_append_right (by omega)]
      have := g1 (i - full.length) (by simp only [capLeft_eq, PF.cap, h.1]; omega)
      rw [← this, h.1]; congr 1; omega
  · exact concat_ok p full _ h

theorem emit_ok (p : PF) (full : Bytes) (e : Emit) (h : Agrees p full) :
    ∃ p', emit p e = some p' ∧ p'.cap = p.cap ∧ Agrees p' (full ++ e.text) := by
  cases e with
  | push c => exact push_ok p full c h
  | pad c n => exact pad_ok p full c n h
  | concat s => exact concat_ok p full s h
  | utoa x => exact appendUtoa_ok p full x h
  | nine x => simp only [emit, appendNine_eq, Emit.text]; exact concat_ok p full _ h
  | cdig c x => simp only [emit, appendC_eq, Emit.text]; exact concat_ok p full _ h
  | ddig m x => simp only [emit, appendD_eq, Emit.text]; exact concat_ok p full _ h

def planText (plan : List Emit) : Bytes := plan.flatMap Emit.text

theorem emitAll_ok (plan : List Emit) : ∀ (p : PF) (full : Bytes), Agrees p full →
    ∃ p', emitAll p plan = some p' ∧ p'.cap = p.cap ∧ Agrees p' (full ++ planText plan) := by
  induction plan with
  | nil => intro p full h; exact ⟨p, rfl, rfl, by simpa [planText] using h⟩
  | cons e es ih =>
    intro p full h
    obtain ⟨p1, e1, c1, a1⟩ := emit_ok p full e h
    obtain ⟨p2, e2, c2, a2⟩ := ih p1 _ a1
    refine ⟨p2, by simp [emitAll, e1, e2], by rw [c2, c1], ?_⟩
    simpa [planText, List.append_assoc] using a2

theorem terminate_ok (p : PF) (full : Bytes) (h : Agrees p full) :
    ∃ p', terminate p = some p' ∧ p'.cap = p.cap ∧ Agrees p' full := by
  unfold terminate
  split
  · rename_i hc
    have : p.length < p.cap := by simp only [capLeft_eq] at hc; omega
    obtain ⟨d', e, l, g⟩ := wr_some p.data p.length [0] (Or.inr (by simp only [List.length_singleton, PF.cap] at *; omega))
    refine ⟨{ p with data := d' }, by simp [e], by simp [PF.cap, l], h.1, fun i hi1 hi2 => ?_⟩
    simp only [PF.cap, l] at hi1
    rw [g i, if_neg (by rw [h.1]; omega)]; exact h.2 i hi1 hi2
  · exact ⟨p, rfl, rfl, h⟩

/-- **the float writer stays inside the destination for every plan of output steps**, and leaves a
prefix of the unbounded output -/
theorem writeFloat_ok (p : PF) (full : Bytes) (plan : List Emit) (h : Agrees p full) :
    ∃ p', writeFloat p plan = some p' ∧ p'.cap = p.cap ∧ Agrees p' (full ++ planText plan) := by
  obtain ⟨data, length⟩ := p
  obtain ⟨hl, hg⟩ := h
  simp only [PF.cap] at hl hg
  subst hl
  generalize hk : min full.length data.length = k
  have hw : Agrees ({ data := data.drop k, length := 0 } : PF) [] :=
    ⟨rfl, fun i _ hi => by simp at hi⟩
  obtain ⟨w1, e1, c1, a1⟩ := emitAll_ok plan _ [] hw
  obtain ⟨w2, e2, c2, a2⟩ := terminate_ok w1 _ a1
  simp only [List.nil_append] at a2
  have hcw : w2.data.length = data.length - k := by
    have := c2.trans c1; simpa [PF.cap] using this
  refine ⟨{ data := data.take k ++ w2.data, length := full.length + w2.length },
    by simp [writeFloat, PF.cap, hk, e1, e2], ?_, ?_, fun i hi1 hi2 => ?_⟩
  · simp only [PF.cap, List.length_append, List.length_take, hcw]; omega
  · simp [a2.1]
  · simp only [PF.cap, List.length_append, List.length_take, hcw] at hi1
    simp only [List.length_append] at hi2
    have hi : i < data.length := by omega
    have hlk : (data.take k).length = k := by simp only [List.length_take]; omega
    by_cases c : i < full.length
    · rw [List.getElem?_append_left c, List.getElem?_append_left (by omega),
        List.getElem?_take, if_pos (by omega)]
      exact hg i hi c
    · have hkf : k = full.length := by omega
      rw [List.getElem?_append_right (by omega), List.getElem?_append_right (by omega), hlk, hkf]
      exact a2.2 _ (by simp only [PF.cap, hcw]; omega) (by omega)

end Gpc.PF
