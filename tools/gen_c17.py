"""C17: from case descriptors to C programs.

A case descriptor is one protocol line  `gm <macro> <argument tokens>`  (the same line the Lean driver evaluates).
Argument tokens, in the order of the macro's arguments:
  H | R                 the allocator gp_heap (const GPAllocator*) | an arena (GPArena*)
  D:<cap>:<hex>         a GPString destination, passed as &d
  L:<hex>               a string literal                P:<hex> / Q:<hex>   a char* / const char* variable (C11 only)
  G:<hex>               a GPString                      B:<hex>:<n>         a plain buffer and an explicit length (2 arguments)
  N:<int>               a size / integer argument       C:<hex>             a const char* parameter spelled as a literal
  K:<hex>               a const char* parameter held in a variable          F:<chars>   flags ('l','r','f','c',.. or "-" for 0)
  I                     &index (size_t out parameter)
  DA<T>:<cap>:<vals>    a GPArray(T) destination, passed as &da             A<T>:<vals>  a GPArray(T)
  V<T>:<vals>:<n>       a plain T* and an explicit length (2 arguments)     U<T>:<vals>  a plain T* (no length)
  E<T>:<val>            one element                     M:<name>            an element function (dbl, neg, even, pos, sum)
  AS:<hex,..>           a GPArray(GPString)             DAS:<hex,..>        &array of GPString
  TY<T>                 a type name                     X<T>:<vals>         element values spelled as separate arguments
  W:<hex>               (file cases) what the file holds                    O   (file cases) the two-argument open form
  OP:put|get|rem        (dict cases) the operation the following key (and element) tokens belong to
T is 2, 4, 8 (intN_t) or 24 (a struct of three int64_t).  "-" stands for empty.

For every case the generated block runs the macro form and, on separately built identical inputs, the explicit function
calls with the lengths spelled out as numbers."""
import re

TYPES = {"2": "T2", "4": "T4", "8": "T8", "24": "T24"}


def unhex(h):
    return b"" if h == "-" else bytes.fromhex(h)


def clit(b):
    """a C string literal for bytes (no NUL)"""
    return '"' + "".join(chr(c) if (c in b" _-.,;:!+*/=()[]{}<>@#$^&|~" or chr(c).isalnum()) and c < 128 else "\\%03o" % c for c in b) + '"'


def cbytes(b):
    return "{" + ",".join(str(c) for c in b) + ("," if b else "") + "0}"


def vals(s):
    return [] if s == "-" else [int(x) for x in s.split(",")]


class Arg:
    def __init__(self, tok, i):
        self.tok = tok; self.i = i
        p = tok.split(":")
        m = re.match(r"^(DAS|DA|AS|TY|OP|[A-Z])(\d*)$", p[0])
        if not m: raise ValueError("bad token " + tok)
        self.k = m.group(1); self.T = TYPES.get(m.group(2)); self.es = int(m.group(2)) if m.group(2) else 0
        self.p = p[1:]
        k = self.k
        if k in ("L", "P", "Q", "G", "C", "K"): self.data = unhex(p[1])
        elif k == "B": self.data = unhex(p[1]); self.n = int(p[2])
        elif k == "D": self.cap = int(p[1]); self.data = unhex(p[2])
        elif k == "N": self.n = int(p[1])
        elif k == "F": self.flags = "" if p[1] == "-" else p[1]
        elif k == "DA": self.cap = int(p[1]); self.v = vals(p[2])
        elif k in ("A", "U", "X"): self.v = vals(p[1])
        elif k == "W": self.data = unhex(p[1])
        elif k == "OP": self.op = p[1]
        elif k == "V": self.v = vals(p[1]); self.n = int(p[2])
        elif k == "E": self.v = [int(p[1])]
        elif k == "M": self.f = p[1]
        elif k in ("AS", "DAS"): self.strs = [] if p[1] == "-" else [unhex(h) for h in p[1].split(",")]

    # ---- C pieces; sfx distinguishes the macro run (m) from the function run (f)
    def name(self, s): return "x%d%s" % (self.i, s)

    def elems(self):
        if self.T == "T24": return "{" + ",".join("MK24(%d)" % v for v in self.v) + ("," if self.v else "") + "MK24(0)}"
        return "{" + ",".join(str(v) for v in self.v) + ("," if self.v else "") + "0}"

    def decl(self, s, alc="HEAP"):
        n = self.name(s); k = self.k
        if k in ("P",): return "char %s_b[] = %s; char* %s = %s_b;" % (n, clit(self.data), n, n)
        if k in ("Q", "K"): return "char %s_b[] = %s; const char* %s = %s_b;" % (n, clit(self.data), n, n)
        if k == "G": return "static const unsigned char %s_b[] = %s; GPString %s = mk_str(HEAP, 0, %s_b, %d);" % (n, cbytes(self.data), n, n, len(self.data))
        if k == "B": return "static const char %s_b[] = %s; const char* %s = %s_b;" % (n, cbytes(self.data), n, n)
        if k == "D": return "static const unsigned char %s_b[] = %s; GPString %s = mk_str(HEAP, %d, %s_b, %d);" % (n, cbytes(self.data), n, self.cap, n, len(self.data))
        if k == "I": return "size_t %s = 777;" % n
        if k == "DA": return "static const %s %s_b[] = %s; GPArray(%s) %s = mk_arr(HEAP, sizeof(%s), %d, %s_b, %d);" % (self.T, n, self.elems(), self.T, n, self.T, self.cap, n, len(self.v))
        if k == "A": return "static const %s %s_b[] = %s; GPArray(%s) %s = mk_arr(HEAP, sizeof(%s), 0, %s_b, %d);" % (self.T, n, self.elems(), self.T, n, self.T, n, len(self.v))
        if k in ("V", "U"): return "static const %s %s_b[] = %s; const %s* %s = %s_b;" % (self.T, n, self.elems(), self.T, n, n)
        if k == "E": return "%s %s = %s;" % (self.T, n, ("MK24(%d)" % self.v[0]) if self.T == "T24" else str(self.v[0]))
        if k in ("AS", "DAS"):
            out = "GPArray(GPString) %s = gp_arr_new(HEAP, sizeof(GPString), %d);" % (n, max(1, len(self.strs)))
            for j, b in enumerate(self.strs):
                out += " { static const unsigned char t[] = %s; %s[%d] = mk_str(HEAP, 0, t, %d); }" % (cbytes(b), n, j, len(b))
            out += " ((GPArrayHeader*)%s - 1)->length = %d;" % (n, len(self.strs))
            return out
        return ""

    def w(self, s, text, wrap):
        return "(ev[%d]++, %s)" % (self.i, text) if wrap else text

    def margs(self, s, wrap=True):
        """the argument(s) as spelled in the macro call"""
        n = self.name(s); k = self.k
        if k == "H": return [self.w(s, "HEAP", wrap)]
        if k == "R": return [self.w(s, "ARENA", wrap)]
        if k in ("D", "DA", "DAS", "I"): return [self.w(s, "&" + n, wrap)]
        if k in ("L", "C"): return [clit(self.data)]
        if k in ("P", "Q", "G", "K", "A", "U", "E", "AS"): return [self.w(s, n, wrap)]
        if k in ("B", "V"):   # the length is an expression of its own: counted separately (slot 64 + i)
            return [self.w(s, n, wrap), ("(ev[%d]++, (size_t)%d)" % (64 + self.i, self.n)) if wrap else str(self.n)]
        if k == "N": return [self.w(s, "(size_t)%d" % self.n, wrap)]
        if k == "F": return [self.w(s, self.cflags(), wrap)]
        if k == "M": return [self.f + "_%s"]     # completed by the emitter with the element type
        if k == "TY": return [self.T]
        if k == "X": return [str(v) for v in self.v]
        if k in ("W", "OP", "O"): return []
        raise ValueError(k)

    def cflags(self): return "|".join("'%s'" % c for c in self.flags) if self.flags else "0"
    def alc(self): return {"H": "HEAP", "R": "(const GPAllocator*)ARENA"}[self.k]

    # explicit pointer / length of an input
    def ptr(self, s):
        if self.k in ("L", "C"): return clit(self.data)
        return self.name(s)
    def length(self):
        if self.k in ("L", "P", "Q", "G", "C", "K"): return len(self.data)
        if self.k in ("B", "V"): return self.n
        if self.k in ("A", "U"): return len(self.v)
        raise ValueError(self.k)

    def unchanged(self, s):
        """C expression: the input object still holds what it held"""
        n = self.name(s)
        if self.k == "G": return "same_str(%s, %s_b, %d)" % (n, n, len(self.data))
        if self.k == "A": return "same_arr(%s, sizeof(%s), %s_b, %d)" % (n, self.T, n, len(self.v))
        if self.k in ("P", "Q", "K"): return "(strlen(%s) == %d)" % (n, len(self.data))
        return None


STR_IN = ("L", "P", "Q", "G")


class Case:
    def __init__(self, line):
        t = line.split()
        assert t[0] == "gm"
        self.line = line; self.macro = t[1]
        self.rv = t[-1] == "RV"          # also capture the value the call returns
        if self.rv: t = t[:-1]
        self.a = [Arg(x, i) for i, x in enumerate(t[2:])]
        self.sig = self.macro + "/" + ",".join(x.k + (str(x.es) if x.es else "") for x in self.a) + ("/RV" if self.rv else "")
        self.c11_only = any(x.k in ("P", "Q") for x in self.a)

    def call(self, s, wrap=True, elemT=None):
        parts = []
        for x in self.a:
            for y in x.margs(s, wrap):
                parts.append(y % elemT if x.k == "M" else y)
        return "gp_%s(%s)" % (self.macro, ", ".join(parts))


class Skip(Exception):
    pass


def emit(case, k):
    """-> C block for case number k"""
    a = case.a; mac = case.macro
    kinds = [x.k for x in a]
    M = lambda: case.call("m")
    first = a[0]
    # helpers for explicit (ptr, len) of a string/array input in the function run
    pl = lambda x: "%s, %d" % (x.ptr("f"), x.length())
    res_m = res_f = out = None
    fresh = None
    elemT = next((x.T for x in a if x.T), None)
    if elemT: M = lambda: case.call("m", True, elemT)
    alc = first.alc() if first.k in ("H", "R") else None
    ins = [x for x in a if x.k in ("G", "A", "P", "Q", "K")]
    def newstr_from(x):      # function run: a new string on the allocator holding input x
        return "GPString rf = gp_str_new(%s, 0, \"\"); gp_str_copy(&rf, %s);" % (alc, pl(x))
    def fresh_str():
        c = ["gp_str_allocator(rm) == %s" % alc] + ["(void*)rm != (void*)%s" % x.name("m") for x in a if x.k == "G"]
        return " && ".join(c)
    def fresh_arr():
        c = ["gp_arr_allocator(rm) == %s" % alc] + ["(void*)rm != (void*)%s" % x.name("m") for x in a if x.k == "A"]
        return " && ".join(c)

    # ---------------------------------------------------------------- value-returning string queries
    if mac == "equal":
        if kinds[0] == "G":
            res_m = "int rm = %s;" % M(); res_f = "int rf = gp_str_equal(%s, %s);" % (a[0].name("f"), pl(a[1]))
        else:
            res_m = "int rm = %s;" % M(); res_f = "int rf = gp_bytes_equal(%s, %s);" % (pl(a[0]), pl(a[1]))
        out = "out_b(r$);"
    elif mac == "count":
        res_m = "size_t rm = %s;" % M(); res_f = "size_t rf = gp_bytes_count(%s, %s);" % (pl(a[0]), pl(a[1])); out = "out_n(r$);"
    elif mac == "codepoint_length":
        res_m = "size_t rm = %s;" % M()
        res_f = "size_t rf = gp_utf8_codepoint_length(%s, %d);" % (a[0].ptr("f"), a[1].n if len(a) > 1 else 0); out = "out_n(r$);"
    elif mac in ("find_first", "find_first_of", "find_first_not_of"):
        start = a[2].n if len(a) > 2 else 0
        res_m = "size_t rm = %s;" % M()
        if mac == "find_first": res_f = "size_t rf = gp_str_find_first(%s, %s, %d);" % (a[0].name("f"), pl(a[1]), start)
        else: res_f = "size_t rf = gp_str_%s(%s, %s, %d);" % (mac, a[0].name("f"), a[1].ptr("f"), start)
        out = "out_n(r$);"
    elif mac == "find_last":
        res_m = "size_t rm = %s;" % M(); res_f = "size_t rf = gp_str_find_last(%s, %s);" % (a[0].name("f"), pl(a[1])); out = "out_n(r$);"
    elif mac == "equal_case":
        res_m = "int rm = %s;" % M(); res_f = "int rf = gp_str_equal_case(%s, %s);" % (a[0].name("f"), pl(a[1])); out = "out_b(r$);"
    elif mac == "compare":
        fl = a[2].cflags() if len(a) > 2 else "0"; loc = a[3].ptr("f") if len(a) > 3 else '""'
        res_m = "int rm = %s;" % M(); res_f = "int rf = gp_str_compare(%s, %s, %s, %s);" % (a[0].name("f"), pl(a[1]), fl, loc); out = "out_i(r$);"
    elif mac == "codepoint_count":
        res_m = "size_t rm = %s;" % M(); res_f = "size_t rf = gp_bytes_codepoint_count(%s);" % pl(a[0]); out = "out_n(r$);"
    elif mac == "is_valid":
        idx = next((x for x in a if x.k == "I"), None)
        res_m = "int rm = %s;" % M()
        res_f = "int rf = gp_bytes_is_valid_utf8(%s, %s);" % (pl(a[0]), ("&" + idx.name("f")) if idx else "NULL")
        out = "out_b(r$);" + (' printf("/"); out_n(%s == 777 ? GP_NOT_FOUND : %s);' % (idx.name("$"), idx.name("$")) if idx else "")
    # ---------------------------------------------------------------- string builders: destination or allocator first
    elif mac == "repeat":
        if first.k == "D": res_m = M() + ";"; res_f = "gp_str_repeat(&%s, %d, %s);" % (first.name("f"), a[1].n, pl(a[2])); out = "out_s(%s);" % first.name("$")
        else:
            res_m = "GPString rm = %s;" % M(); res_f = "GPString rf = gp_str_new(%s, 0, \"\"); gp_str_repeat(&rf, %d, %s);" % (alc, a[1].n, pl(a[2]))
            out = "out_s(r$);"; fresh = fresh_str()
    elif mac in ("replace", "replace_all"):
        fn = "gp_str_" + mac
        if first.k == "D":
            start = (", %d" % (a[3].n if len(a) > 3 else 0)) if mac == "replace" else ""
            res_m = "size_t rm = %s;" % M() if case.rv else M() + ";"
            res_f = ("size_t rf = " if case.rv else "") + "%s(&%s, %s, %s%s);" % (fn, first.name("f"), pl(a[1]), pl(a[2]), start)
            out = "out_s(%s);" % first.name("$") + (' printf("/"); out_n(r$);' if case.rv else "")
        else:
            start = (", %d" % (a[4].n if len(a) > 4 else 0)) if mac == "replace" else ""
            res_m = "GPString rm = %s;" % M()
            res_f = newstr_from(a[1]) + " %s(&rf, %s, %s%s);" % (fn, pl(a[2]), pl(a[3]), start)
            out = "out_s(r$);"; fresh = fresh_str()
    elif mac == "trim":
        if first.k == "D":
            cs = a[1].ptr("f") if len(a) > 1 else "NULL"; fl = a[2].cflags() if len(a) > 2 else "'l'|'r'"
            res_m = M() + ";"; res_f = "gp_str_trim(&%s, %s, %s);" % (first.name("f"), cs, fl); out = "out_s(%s);" % first.name("$")
        else:
            cs = a[2].ptr("f") if len(a) > 2 else "NULL"; fl = a[3].cflags() if len(a) > 3 else "'l'|'r'"
            res_m = "GPString rm = %s;" % M(); res_f = newstr_from(a[1]) + " gp_str_trim(&rf, %s, %s);" % (cs, fl)
            out = "out_s(r$);"; fresh = fresh_str()
    elif mac in ("to_upper", "to_lower", "capitalize", "to_valid"):
        def fcall(target, loc):
            if mac == "to_valid": return "gp_str_to_valid(%s, %s);" % (target, loc)
            if mac == "capitalize": return "gp_str_capitalize(%s, %s);" % (target, loc if loc else '""')
            return ("gp_str_%s_full(%s, %s);" % (mac, target, loc)) if loc else ("gp_str_%s(%s);" % (mac, target))
        if first.k == "D":
            loc = a[1].ptr("f") if len(a) > 1 else None
            res_m = M() + ";"; res_f = fcall("&" + first.name("f"), loc); out = "out_s(%s);" % first.name("$")
        else:
            loc = a[2].ptr("f") if len(a) > 2 else None
            res_m = "GPString rm = %s;" % M(); res_f = newstr_from(a[1]) + " " + fcall("&rf", loc)
            out = "out_s(r$);"; fresh = fresh_str()
    elif mac == "split":
        seps = a[2].ptr("f") if len(a) > 2 else "GP_WHITESPACE"
        res_m = "GPArray(GPString) rm = %s;" % M(); res_f = "GPArray(GPString) rf = gp_str_split(%s, %s, %s);" % (alc, pl(a[1]), seps)
        out = "out_l(r$);"; fresh = "gp_arr_allocator(rm) == %s" % alc
    elif mac == "join":
        sep = a[2].ptr("f") if len(a) > 2 else '""'
        if first.k == "D": res_m = M() + ";"; res_f = "gp_str_join(&%s, %s, %s);" % (first.name("f"), a[1].name("f"), sep); out = "out_s(%s);" % first.name("$")
        else:
            res_m = "GPString rm = %s;" % M(); res_f = "GPString rf = gp_str_new(%s, 0, \"\"); gp_str_join(&rf, %s, %s);" % (alc, a[1].name("f"), sep)
            out = "out_s(r$);"; fresh = "gp_str_allocator(rm) == %s" % alc
    elif mac == "sort":
        fl = a[1].cflags() if len(a) > 1 else "0"; loc = a[2].ptr("f") if len(a) > 2 else '""'
        res_m = M() + ";"; res_f = "gp_str_sort(&%s, %s, %s);" % (first.name("f"), fl, loc); out = "out_l(%s);" % first.name("$")
    # ---------------------------------------------------------------- strings and arrays
    elif mac == "reserve":
        if first.k == "D":
            res_m = M() + ";"; res_f = "gp_str_reserve(&%s, %d);" % (first.name("f"), a[1].n)
            out = "out_s(%s); printf(\"/cap>=%d:%%d\", gp_str_capacity(%s) >= %d);" % (first.name("$"), a[1].n, first.name("$"), a[1].n)
        else:
            n = first.name
            res_m = M() + ";"; res_f = "%s = gp_arr_reserve(sizeof(%s), %s, %d);" % (n("f"), first.T, n("f"), a[1].n)
            out = "out_a_%s(%s, gp_arr_length(%s)); printf(\"/cap>=%d:%%d\", gp_arr_capacity(%s) >= %d);" % (first.T, n("$"), n("$"), a[1].n, n("$"), a[1].n)
    elif mac in ("copy", "slice", "append", "insert"):
        T = elemT
        is_arr = T is not None
        rest = a[1:]
        pos = None; rng = None
        if mac == "insert": pos = rest[0].n; rest = rest[1:]
        if mac == "slice":
            rng = (rest[-2].n, rest[-1].n); rest = rest[:-2]
        srcs = rest
        d = first.name
        outp = (lambda v: "out_a_%s(%s, gp_arr_length(%s));" % (T, v, v)) if is_arr else (lambda v: "out_s(%s);" % v)
        if first.k in ("D", "DA"):
            res_m = M() + ";"
            if mac == "copy":
                res_f = ("%s = gp_arr_copy(sizeof(%s), %s, %s);" % (d("f"), T, d("f"), pl(srcs[0]))) if is_arr else "gp_str_copy(&%s, %s);" % (d("f"), pl(srcs[0]))
            elif mac == "slice":
                src = srcs[0].ptr("f") if srcs else "NULL"
                res_f = ("%s = gp_arr_slice(sizeof(%s), %s, %s, %d, %d);" % (d("f"), T, d("f"), src, rng[0], rng[1])) if is_arr else "gp_str_slice(&%s, %s, %d, %d);" % (d("f"), src, rng[0], rng[1])
            elif mac == "append":
                res_f = ("%s = gp_arr_append(sizeof(%s), %s, %s);" % (d("f"), T, d("f"), pl(srcs[0]))) if is_arr else "gp_str_append(&%s, %s);" % (d("f"), pl(srcs[0]))
            else:
                res_f = ("%s = gp_arr_insert(sizeof(%s), %s, %d, %s);" % (d("f"), T, d("f"), pos, pl(srcs[0]))) if is_arr else "gp_str_insert(&%s, %d, %s);" % (d("f"), pos, pl(srcs[0]))
            out = outp(d("$"))
        else:
            ty = "GPArray(%s)" % T if is_arr else "GPString"
            res_m = "%s rm = %s;" % (ty, M())
            if is_arr:
                new = "%s rf = gp_arr_new(%s, sizeof(%s), 1);" % (ty, alc, T)
                if mac == "copy": res_f = new + " rf = gp_arr_copy(sizeof(%s), rf, %s);" % (T, pl(srcs[0]))
                elif mac == "slice": res_f = new + " rf = gp_arr_slice(sizeof(%s), rf, %s, %d, %d);" % (T, srcs[0].ptr("f"), rng[0], rng[1])
                elif mac == "append": res_f = new + " rf = gp_arr_copy(sizeof(%s), rf, %s); rf = gp_arr_append(sizeof(%s), rf, %s);" % (T, pl(srcs[0]), T, pl(srcs[1]))
                else: res_f = new + " rf = gp_arr_copy(sizeof(%s), rf, %s); rf = gp_arr_insert(sizeof(%s), rf, %d, %s);" % (T, pl(srcs[0]), T, pos, pl(srcs[1]))
                fresh = fresh_arr()
            else:
                new = "GPString rf = gp_str_new(%s, 0, \"\");" % alc
                if mac == "copy": res_f = new + " gp_str_copy(&rf, %s);" % pl(srcs[0])
                elif mac == "slice": res_f = new + " gp_str_slice(&rf, %s, %d, %d);" % (srcs[0].ptr("f"), rng[0], rng[1])
                elif mac == "append": res_f = new + " gp_str_copy(&rf, %s); gp_str_append(&rf, %s);" % (pl(srcs[0]), pl(srcs[1]))
                else: res_f = new + " gp_str_copy(&rf, %s); gp_str_insert(&rf, %d, %s);" % (pl(srcs[0]), pos, pl(srcs[1]))
                fresh = fresh_str()
            out = outp("r$")
    # ---------------------------------------------------------------- arrays
    elif mac == "push":
        T = first.T; d = first.name
        res_m = M() + ";"; res_f = "%s = gp_arr_push(sizeof(%s), %s, &%s);" % (d("f"), T, d("f"), a[1].name("f")); out = "out_a_%s(%s, gp_arr_length(%s));" % (T, d("$"), d("$"))
    elif mac == "pop":
        T = first.T; d = first.name
        res_m = "%s rm = %s;" % (T, M()); res_f = "%s rf = *(%s*)gp_arr_pop(sizeof(%s), %s);" % (T, T, T, d("f"))
        out = "out_a_%s(%s, gp_arr_length(%s)); printf(\"/\"); out_a_%s(&r$, 1);" % (T, d("$"), d("$"), T)
    elif mac == "erase":
        T = first.T; d = first.name; cnt = a[2].n if len(a) > 2 else 1
        res_m = M() + ";"; res_f = "%s = gp_arr_erase(sizeof(%s), %s, %d, %d);" % (d("f"), T, d("f"), a[1].n, cnt); out = "out_a_%s(%s, gp_arr_length(%s));" % (T, d("$"), d("$"))
    elif mac in ("map", "filter"):
        T = elemT; fn = next(x for x in a if x.k == "M").f + "_" + T
        cast = "(void(*)(void*,const void*))" if mac == "map" else "(bool(*)(const void*))"
        srcs = [x for x in a[1:] if x.k in ("A", "V")]
        src = pl(srcs[0]) if srcs else "NULL, 0"
        if first.k == "DA":
            d = first.name
            res_m = M() + ";"; res_f = "%s = gp_arr_%s(sizeof(%s), %s, %s, %s%s);" % (d("f"), mac, T, d("f"), src, cast, fn); out = "out_a_%s(%s, gp_arr_length(%s));" % (T, d("$"), d("$"))
        else:
            res_m = "GPArray(%s) rm = %s;" % (T, M())
            res_f = "GPArray(%s) rf = gp_arr_new(%s, sizeof(%s), 1); rf = gp_arr_%s(sizeof(%s), rf, %s, %s%s);" % (T, alc, T, mac, T, src, cast, fn)
            out = "out_a_%s(r$, gp_arr_length(r$));" % T; fresh = fresh_arr()
    elif mac in ("fold", "foldr"):
        T = elemT; fn = "sum_" + T
        res_m = "intptr_t rm = (intptr_t)%s;" % M()      # the pedantic C99 form returns the accumulator as void*
        res_f = "intptr_t rf = (intptr_t)gp_arr_%s(sizeof(%s), %s, (void*)(intptr_t)%d, (void*(*)(void*,const void*))%s);" % (mac, T, a[0].name("f"), a[1].n, fn)
        out = 'printf("n:%" PRIdPTR, r$);'
    # ---------------------------------------------------------------- allocation
    elif mac in ("alloc", "alloc_zeroes", "alloc_type"):
        if mac == "alloc_type":
            cnt = a[2].n if len(a) > 2 else 1; size = "%d * sizeof(%s)" % (cnt, a[1].T)
            res_m = "%s* rm = %s;" % (a[1].T, M())
        else:
            size = str(a[1].n); res_m = "unsigned char* rm = %s;" % M()
        fnn = "gp_mem_alloc_zeroes" if mac == "alloc_zeroes" else "gp_mem_alloc"
        res_f = "unsigned char* rf = %s(%s, %s);" % (fnn, alc, size)
        # usable for `size` bytes (AddressSanitizer watches), zeroed if promised
        out = "{ size_t z = 1; for (size_t i = 0; i < (%s); i++) { %s ((unsigned char*)r$)[i] = (unsigned char)i; } printf(\"n:%%zu\", z * (size_t)(%s)); }" % (
            size, "z &= ((unsigned char*)r$)[i] == 0;" if mac == "alloc_zeroes" else "", size)
    elif mac == "realloc":
        res_m = "unsigned char* bm = gp_mem_alloc(%s, %d); memset(bm, 7, %d); unsigned char* rm = %s;" % (alc, a[2].n, a[2].n, case.call("m").replace(a[1].margs("m")[0], "(ev[1]++, bm)"))
        res_f = "unsigned char* bf = gp_mem_alloc(%s, %d); memset(bf, 7, %d); unsigned char* rf = gp_mem_realloc(%s, bf, %d, %d);" % (alc, a[2].n, a[2].n, alc, a[2].n, a[3].n)
        keep = min(a[2].n, a[3].n)
        out = "{ size_t ok = 1; for (size_t i = 0; i < %d; i++) ok &= r$[i] == 7; for (size_t i = 0; i < %d; i++) r$[i] = 1; printf(\"b:%%zu\", ok); }" % (keep, a[3].n)

    elif mac == "str":
        init = next((x for x in a if x.k in ("C", "K")), None); cap = next((x for x in a if x.k == "N"), None)
        res_m = "GPString rm = %s;" % M()
        res_f = "GPString rf = gp_str_new(%s, %s, %s);" % (alc, cap.n if cap else 16, init.ptr("f") if init else '""')
        out = 'out_s(r$); printf("/cap:%zu", gp_str_capacity(r$));'; fresh = "gp_str_allocator(rm) == %s" % alc
    elif mac == "arr":
        T = a[1].T; xs = a[2].v if len(a) > 2 else []
        res_m = "GPArray(%s) rm = %s;" % (T, M())
        res_f = "GPArray(%s) rf = gp_arr_new(%s, sizeof(%s), %d);" % (T, alc, T, max(4, len(xs))) + "".join(
            " { %s e = %d; rf = gp_arr_push(sizeof(%s), rf, &e); }" % (T, v, T) for v in xs)
        out = "out_a_%s(r$, gp_arr_length(r$));" % T; fresh = "gp_arr_allocator(rm) == %s" % alc
    elif mac == "arr_ro":
        T = a[0].T; xs = a[1].v
        res_m = "const %s* rm = %s;" % (T, M())
        res_f = "static const %s rf_b[] = {%s}; const %s* rf = rf_b;" % (T, ",".join(str(v) for v in xs), T)
        out = "out_a_%s(r$, %s);" % (T, "gp_arr_length(r$)" if True else "")
        out = "out_a_%s(r$, '$' == 'm' ? gp_arr_length(r$) : %d);" % (T, len(xs))
    elif mac == "dict":
        T = a[1].T
        m_ = ["GPDictionary(%s) dm = gp_dict(%s, %s);" % (T, a[0].margs("m")[0], T)]
        f_ = ["GPHashMap* df = gp_hash_map_new(%s, &(GPMapInitializer){ .element_size = sizeof(%s) });" % (alc, T)]
        om, of = ['printf("d:");'], ['printf("d:");']
        i = 2; n = 0
        while i < len(a):
            op = a[i].op; key = a[i + 1]; i += 2
            kargs = ", ".join(key.margs("m")); kpl = pl(key)
            sep = 'if (%d) putchar(\',\');' % n
            if op == "put":
                el = a[i]; i += 1
                m_.append("gp_put(&dm, %s, %s);" % (kargs, el.margs("m")[0])); f_.append("gp_hash_map_put(df, %s, &%s);" % (kpl, el.name("f")))
                om.append(sep + ' printf("p");'); of.append(sep + ' printf("p");')
            elif op == "get":
                # the element is copied at once: a later put may overwrite it in place
                m_.append("%s* g%dm = gp_get(dm, %s); %s v%dm; if (g%dm) v%dm = *g%dm;" % (T, n, kargs, T, n, n, n, n))
                f_.append("%s* g%df = gp_hash_map_get(df, %s); %s v%df; if (g%df) v%df = *g%df;" % (T, n, kpl, T, n, n, n, n))
                for o, sfx in ((om, "m"), (of, "f")):
                    o.append(sep + ' if (g%d%s) out_a_%s(&v%d%s, 1); else printf("nil");' % (n, sfx, T, n, sfx))
            else:
                m_.append("int r%dm = gp_remove(&dm, %s);" % (n, kargs)); f_.append("int r%df = gp_hash_map_remove(df, %s);" % (n, kpl))
                for o, sfx in ((om, "m"), (of, "f")): o.append(sep + ' printf("r%%d", r%d%s);' % (n, sfx))
            n += 1
        res_m = " ".join(m_); res_f = " ".join(f_)
        case._out = (" ".join(om), " ".join(of)); out = "@"
    elif mac == "file":
        path = '"c17_%d_$.tmp"' % k
        w = next((x for x in a if x.k == "W"), None)
        prep = ('{ FILE* fp = fopen(%s, "wb"); fwrite(%s, 1, %d, fp); fclose(fp); }' % (path, cbytes(w.data) .replace("{", "(const char[]){", 1), len(w.data))) if w else ""
        rd = '{ FILE* fp = fopen(%s, "rb"); char buf[4096]; size_t n = fp ? fread(buf, 1, sizeof buf, fp) : 0; if (fp) fclose(fp); printf("s:"); put_hex(buf, n); }' % path
        if first.k == "G":
            res_m = "GPString rm = gp_file(%s, %s, \"w\");" % (first.margs("m")[0], path.replace("$", "m"))
            res_f = "int ef = gp_str_file(&%s, %s, \"w\"); GPString rf = ef == 0 ? %s : NULL;" % (first.name("f"), path.replace("$", "f"), first.name("f"))
            out = rd + ' printf("/ret:%d", r$ != NULL);'
        elif first.k == "D":
            res_m = prep.replace("$", "m") + " GPString rm = gp_file(%s, %s, \"r\");" % (first.margs("m")[0], path.replace("$", "m"))
            res_f = prep.replace("$", "f") + " int ef = gp_str_file(&%s, %s, \"r\"); GPString rf = ef == 0 ? %s : NULL;" % (first.name("f"), path.replace("$", "f"), first.name("f"))
            out = "out_s(%s); printf(\"/ret:%%d\", r$ == %s);" % (first.name("$"), first.name("$"))
        elif first.k in ("H", "R"):
            res_m = prep.replace("$", "m") + " GPString rm = gp_file(%s, %s, \"r\");" % (first.margs("m")[0], path.replace("$", "m"))
            res_f = prep.replace("$", "f") + " GPString rf = gp_str_new(%s, 128, \"\"); if (gp_str_file(&rf, %s, \"r\") != 0) rf = NULL;" % (alc, path.replace("$", "f"))
            out = "out_s(r$);"; fresh = "rm != NULL && gp_str_allocator(rm) == %s" % alc
        else:
            res_m = prep.replace("$", "m") + " FILE* rm = gp_file(%s, \"r\");" % path.replace("$", "m")
            res_f = prep.replace("$", "f") + " FILE* rf = gp_file_open(%s, \"r\");" % path.replace("$", "f")
            out = '{ char buf[4096]; size_t n = r$ ? fread(buf, 1, sizeof buf, r$) : 0; if (r$) fclose(r$); printf("s:"); put_hex(buf, n); }'
        out += " remove(%s);" % path
    elif mac == "dealloc":
        res_m = "void* bm = gp_mem_alloc(%s, %d); %s;" % (alc, a[1].n, "gp_dealloc(%s, (ev[1]++, bm))" % a[0].margs("m")[0])
        res_f = "void* bf = gp_mem_alloc(%s, %d); gp_mem_dealloc(%s, bf);" % (alc, a[1].n, alc)
        out = 'printf("b:1");'
    else:
        raise Skip("no emitter for " + mac)

    decl = lambda s: " ".join(x.decl(s) for x in a if x.decl(s))
    sub = lambda t, s: (case._out[0 if s == "m" else 1] if t == "@" else t.replace("$", s))
    unch = [x.unchanged("m") for x in ins if x.unchanged("m")]
    nwrapped = [x.i for x in a if x.k not in ("L", "C", "M", "TY", "X", "W", "OP", "O") and not (mac == "dealloc" and x.k == "N")]
    nlen = [64 + x.i for x in a if x.k in ("B", "V") and x.i in nwrapped]
    evchk = " && ".join("ev[%d] == 1" % i for i in nwrapped + nlen) or "1"
    lines = []
    lines.append("    case %d: { /* %s */" % (k, case.line))
    lines.append("        { EV_RESET(); %s" % decl("m"))
    lines.append("          %s" % res_m)
    lines.append("          printf(\"%d m \"); %s" % (k, sub(out, "m")))
    lines.append("          printf(\" in=%%s\", (%s) ? \"ok\" : \"CHANGED\");" % (" && ".join(unch) or "1"))
    if fresh: lines.append("          printf(\" fresh=%%s\", (%s) ? \"ok\" : \"NOT-FRESH\");" % fresh)
    lines.append("          if (%s) printf(\" ev=ok\"); else { printf(\" ev=\"); for (int i = 0; i < %d; i++) printf(\"%%d\", ev[i]); printf(\"/\"); for (int i = 64; i < %d; i++) printf(\"%%d\", ev[i]); }" % (evchk, len(a), 64 + len(a)))
    lines.append("          puts(\"\"); }")
    lines.append("        { %s" % decl("f"))
    lines.append("          %s" % res_f)
    lines.append("          printf(\"%d f \"); %s puts(\"\"); }" % (k, sub(out, "f")))
    lines.append("        break; }")
    return "\n".join(lines)


def program(cases, numbered):
    """cases: list of Case; numbered: their global numbers. One translation unit; argv[1] = first case to run."""
    body = []
    for c, k in zip(cases, numbered):
        body.append(emit(c, k))
    return ('#include "c17_rt.h"\n'
            "static void run_case(int k)\n{\n    switch (k) {\n" + "\n".join(body) + "\n    default: break;\n    }\n}\n"
            "static const int KS[] = {" + ",".join(str(k) for k in numbered) + ("," if numbered else "") + "-1};\n"
            "int main(int argc, char** argv)\n{\n    setvbuf(stdout, NULL, _IOLBF, 0);\n    int from = argc > 1 ? atoi(argv[1]) : -1;\n    c17_init();\n"
            "    for (int i = 0; KS[i] >= 0; i++) { if (KS[i] < from) continue; printf(\"%d begin\\n\", KS[i]); run_case(KS[i]); c17_case_end(); }\n"
            "    puts(\"done\");\n    return 0;\n}\n")
