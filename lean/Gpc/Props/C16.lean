import Gpc.Model.FileIO
/-!
# C16 — file reads partition the file at the first delimiter

`Gpc.FileIO` models gp_file_read_line / gp_file_read_until / gp_file_read_strip over the list of
bytes that remain in the file.
-/
namespace Gpc.FileIO

/-- `acc` ends with the delimiter -/
def EndsWith (acc delim : Bytes) : Prop := delim.length ≤ acc.length ∧ acc.drop (acc.length - delim.length) = delim

instance (acc delim : Bytes) : Decidable (EndsWith acc delim) := by unfold EndsWith; infer_instance

/-- no proper non-empty prefix of `seg` ends with the delimiter: the delimiter does not occur earlier -/
def NoEarlier (seg delim : Bytes) : Prop := ∀ k, 0 < k → k < seg.length → ¬ EndsWith (seg.take k) delim

theorem untilLoop_spec (delim : Bytes) : ∀ (rest acc : Bytes), acc ≠ [] → NoEarlier acc delim →
    (untilLoop delim acc rest).1 ++ (untilLoop delim acc rest).2 = acc ++ rest ∧
    (untilLoop delim acc rest).1 ≠ [] ∧
    (EndsWith (untilLoop delim acc rest).1 delim ∨ (untilLoop delim acc rest).2 = []) ∧
    NoEarlier (untilLoop delim acc rest).1 delim := by
  intro rest
  induction rest with
  | nil => intro acc hne hno; simp [untilLoop, hne, hno]
  | cons c rest ih =>
    intro acc hne hno
    unfold untilLoop
    by_cases h : delim.length ≤ acc.length ∧ acc.drop (acc.length - delim.length) = delim
    · rw [if_pos h]; exact ⟨rfl, hne, Or.inl h, hno⟩
    · rw [if_neg h]
      have hno' : NoEarlier (acc ++ [c]) delim := by
        intro k hk0 hk
        simp only [List.length_append, List.length_singleton] at hk
        by_cases hk2 : k < acc.length
        · rw [List.take_append_of_le_length (by omega)]; exact hno k hk0 hk2
        · have : k = acc.length := by omega
          subst this
          rw [List.take_left']; exact h; rfl
      obtain ⟨h1, h2, h3, h4⟩ := ih (acc ++ [c]) (by simp) hno'
      exact ⟨by rw [h1]; simp, h2, h3, h4⟩

/-- **C16, read until a delimiter.**  Whenever data is left, the segment read and the rest of the
file make up the file; the segment is not empty; it ends with the delimiter — at the FIRST place
where the bytes read since the previous segment end with it — or it reaches the end of the file. -/
theorem readUntil_partition (delim file : Bytes) (hf : file ≠ []) :
    ∃ seg rest, readUntil delim file = some (seg, rest) ∧ seg ++ rest = file ∧ seg ≠ [] ∧
      (EndsWith seg delim ∨ rest = []) ∧ NoEarlier seg delim := by
  cases file with
  | nil => exact absurd rfl hf
  | cons c rest =>
    have hno : NoEarlier [c] delim := by intro k h0 h1; simp at h1; omega
    obtain ⟨h1, h2, h3, h4⟩ := untilLoop_spec delim rest [c] (by simp) hno
    exact ⟨_, _, rfl, by simpa using h1, h2, h3, h4⟩

/-- end of data is reported exactly when nothing is left -/
theorem readUntil_none_iff (delim file : Bytes) : readUntil delim file = none ↔ file = [] := by
  cases file <;> simp [readUntil]

theorem lineLoop_eq (rest : Bytes) : ∀ (acc : Bytes) (c : UInt8), acc.getLast? = some c →
    lineLoop acc c rest = untilLoop [10] acc rest := by
  induction rest with
  | nil => intro acc c _; simp [lineLoop, untilLoop]
  | cons d rest ih =>
    intro acc c hc
    unfold lineLoop untilLoop
    have hne : acc ≠ [] := by intro h; simp [h] at hc
    have hlast : (1 ≤ acc.length ∧ acc.drop (acc.length - 1) = [10]) ↔ c = 10 := by
      obtain ⟨init, rfl⟩ : ∃ init, acc = init ++ [c] := by
        rcases List.eq_nil_or_concat acc with h | ⟨i, l, h⟩
        · exact absurd h hne
        · rw [h] at hc; simp at hc; exact ⟨i, by rw [h, hc]; simp⟩
      simp
    simp only [List.length_singleton]
    by_cases h10 : c = 10
    · rw [if_pos h10, if_pos (hlast.2 h10)]
    · rw [if_neg h10, if_neg (fun h => h10 (hlast.1 h))]
      exact ih (acc ++ [d]) d (by simp)

/-- **C16, read a line** is reading until "\\n" -/
theorem readLine_eq_readUntil (file : Bytes) : readLine file = readUntil [10] file := by
  cases file with
  | nil => rfl
  | cons c rest => simp only [readLine, readUntil]; rw [lineLoop_eq rest [c] c (by simp)]

/-- **C16, the segments of a piecewise read concatenate to the file**: for any reader that, while data is
left, splits off a non-empty segment -/
theorem readAll_concat (rd : Bytes → Option (Bytes × Bytes))
    (hrd : ∀ file, file ≠ [] → ∃ seg rest, rd file = some (seg, rest) ∧ seg ++ rest = file ∧ seg ≠ [])
    (hnone : rd [] = none) : ∀ (fuel : Nat) (file : Bytes), file.length < fuel → (readAll rd fuel file).flatten = file := by
  intro fuel
  induction fuel with
  | zero => intro file h; omega
  | succ f ih =>
    intro file hl
    unfold readAll
    by_cases hf : file = []
    · subst hf; simp [hnone]
    · obtain ⟨seg, rest, e, hcat, hne⟩ := hrd file hf
      rw [e]
      simp only [List.flatten_cons]
      have hlen : rest.length < f := by
        have : seg.length + rest.length = file.length := by rw [← hcat]; simp
        have : 0 < seg.length := by cases seg with | nil => exact absurd rfl hne | cons a t => simp
        omega
      rw [ih rest hlen, hcat]

/-- reading a file line by line / delimiter by delimiter returns all of it, in order -/
theorem until_all (delim file : Bytes) : (readAll (readUntil delim) (file.length + 1) file).flatten = file :=
  readAll_concat (readUntil delim)
    (fun f hf => by obtain ⟨s, r, e, c, n, _⟩ := readUntil_partition delim f hf; exact ⟨s, r, e, c, n⟩) rfl _ _ (by omega)

theorem lines_all (file : Bytes) : (readAll readLine (file.length + 1) file).flatten = file := by
  have : readLine = readUntil [10] := funext readLine_eq_readUntil
  rw [this]; exact until_all [10] file

/-! ## non-vacuity -/

-- the delimiter "aab" that starts inside a failed partial match: "aaab|x"
example : readAll (readUntil [97, 97, 98]) 6 [97, 97, 97, 98, 120] = [[97, 97, 97, 98], [120]] := by decide
example : readAll readLine 7 [97, 10, 10, 98, 99] = [[97, 10], [10], [98, 99]] := by decide
-- stripped reads: maximal runs outside the set { space, comma }; the last run needs no trailing delimiter
example : readAll (readStrip [32, 44]) 12 [32, 97, 98, 44, 32, 0xC3, 0xA4, 44, 99] = [[97, 98], [0xC3, 0xA4], [99]] := by decide

end Gpc.FileIO
