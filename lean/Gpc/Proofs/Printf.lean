import Gpc.Proofs.PFString
import Gpc.Model.Printf
/-! The writers and the padding of the formatter produce the specification's text (non-float
conversions), and stay inside the destination (all conversions). -/
namespace Gpc.Printf
open Gpc.PF (PF Agrees)

theorem digitChar_eq (b : Nat) (upper : Bool) (d : Nat) : PF.digitChar b upper d = digitChar upper d := rfl

/-- the `do … while (x)` digit loop of the integer writers yields positional notation -/
theorem revDigits_eq (base : Nat) (upper : Bool) (hb : 2 ≤ base) :
    ∀ (fuel x : Nat), 1 ≤ fuel → x < base ^ fuel →
      (PF.revDigits base upper fuel x).reverse = natDigits base upper x := by
  intro fuel
  induction fuel with
  | zero => intro x h; omega
  | succ f ih =>
    intro x _ hx
    unfold PF.revDigits
    simp only
    split
    · rename_i h0
      have hlt : x < base := by
        rcases Nat.lt_or_ge x base with h | h
        · exact h
        · have := Nat.div_pos h (by omega); omega
      rw [natDigits, dif_pos (Or.inl hlt)]
      simp [digitChar_eq, Nat.mod_eq_of_lt hlt]
    · rename_i h0
      have hge : base ≤ x := by
        rcases Nat.lt_or_ge x base with h | h
        · exact absurd (Nat.div_eq_of_lt h) h0
        · exact h
      have hf : 1 ≤ f := by
        rcases Nat.eq_zero_or_pos f with h | h
        · subst h; simp at hx; omega
        · exact h
      have hx2 : x / base < base ^ f := by
        rw [Nat.div_lt_iff_lt_mul (by omega)]
        rw [Nat.pow_succ] at hx; exact hx
      rw [natDigits, dif_neg (by omega)]
      simp only [List.reverse_cons, digitChar_eq]
      rw [ih (x / base) hf hx2]

theorem digits_eq (base : Nat) (upper : Bool) (x : Nat) (hb : 2 ≤ base) (hx : x < base ^ 64) :
    PF.digits base upper x = natDigits base upper x :=
  revDigits_eq base upper hb 64 x (by omega) hx

/-! ### padding -/

/-- `pf_add_padding` realises the field padding of the specification -/
theorem addPadding_ok (p : PF) (full pre body : Bytes) (s : Spec) (md : Misc)
    (hA : Agrees p (full ++ pre ++ body))
    (hoff : (if md.hasSign then 1 else 0) + (if md.has0x then 2 else 0) = pre.length)
    (hw : pre.length + body.length < s.width) :
    ∃ p', addPadding p s (pre.length + body.length) md = some p' ∧ p'.cap = p.cap ∧
      Agrees p' (full ++ padField s.flags s.width pre body
        (!((isIntConv s.conv && s.prec.isSome) || md.nanOrInf))) := by
  have hlen : p.length = full.length + pre.length + body.length := by
    rw [hA.1]; simp only [List.length_append]
  have hstart : p.length - (pre.length + body.length) = full.length := by omega
  have hnw : ¬ s.width ≤ pre.length + body.length := by omega
  simp only [addPadding, padField, hstart, hnw, if_false]
  by_cases hd : s.flags.dash = true
  · simp only [hd, if_true]
    obtain ⟨p', e, c, a⟩ := PF.pad_ok p _ 32 (s.width - (pre.length + body.length)) hA
    exact ⟨p', e, c, by simpa [List.append_assoc] using a⟩
  · simp only [hd, Bool.false_eq_true, if_false]
    by_cases hz : s.flags.zero = true ∧ ¬ ((isIntConv s.conv = true ∧ s.prec.isSome = true) ∨ md.nanOrInf = true)
    · have hz' : (s.flags.zero = true ∧ (!((isIntConv s.conv && s.prec.isSome) || md.nanOrInf)) = true) := by
        refine ⟨hz.1, ?_⟩
        have := hz.2
        simp only [not_or, not_and, Bool.not_eq_true] at this
        cases h1 : isIntConv s.conv <;> cases h2 : s.prec.isSome <;> cases h3 : md.nanOrInf <;> simp_all
      rw [if_pos hz, if_pos hz']
      obtain ⟨p', e, c, a⟩ := PF.insertPad_ok p _ (full.length + pre.length) 48
        (s.width - (pre.length + body.length)) hA (by simp)
      refine ⟨p', ?_, c, ?_⟩
      · rw [← e]; congr 1; omega
      · have h1 : (full ++ pre ++ body).take (full.length + pre.length) = full ++ pre := by
          rw [List.take_append_of_le_length (by simp)]
          rw [List.take_of_length_le (by simp)]
        have h2 : (full ++ pre ++ body).drop (full.length + pre.length) = body := by
          rw [List.drop_append_of_le_length (by simp)]
          rw [List.drop_of_length_le (by simp)]; simp
        rw [h1, h2] at a
        simpa [List.append_assoc] using a
    · have hz' : ¬ (s.flags.zero = true ∧ (!((isIntConv s.conv && s.prec.isSome) || md.nanOrInf)) = true) := by
        intro h; apply hz; refine ⟨h.1, ?_⟩
        have := h.2
        cases h1 : isIntConv s.conv <;> cases h2 : s.prec.isSome <;> cases h3 : md.nanOrInf <;> simp_all
      rw [if_neg hz, if_neg hz']
      obtain ⟨p', e, c, a⟩ := PF.insertPad_ok p _ full.length 32
        (s.width - (pre.length + body.length)) hA (by simp)
      refine ⟨p', e, c, ?_⟩
      have h1 : (full ++ pre ++ body).take full.length = full := by
        rw [List.append_assoc, List.take_left']; rfl
      have h2 : (full ++ pre ++ body).drop full.length = pre ++ body := by
        rw [List.append_assoc, List.drop_left']; rfl
      rw [h1, h2] at a
      simpa [List.append_assoc] using a

/-! ### the integer writers -/

theorem zeroFill_some (w n : Nat) : PF.zeroFill (some w) n = w - n := by
  simp only [PF.zeroFill]; split <;> omega

/-- digits with the precision applied, as the writers produce them -/
theorem writeDigits_ok (p : PF) (full : Bytes) (s : Spec) (base : Nat) (upper : Bool) (x : Nat) (isZero : Bool)
    (h : Agrees p full) (hb : 2 ≤ base) (hx : x < base ^ 64) :
    ∃ p', writeDigits p s base upper (noDigits s isZero) x = some p' ∧ p'.cap = p.cap ∧
      Agrees p' (full ++ precDigits (natDigits base upper x) isZero s.prec) := by
  unfold writeDigits
  by_cases hs : noDigits s isZero = true
  · rw [if_pos hs]
    have hs' : isZero = true ∧ s.prec = some 0 := by simpa [noDigits] using hs
    obtain ⟨p', e, c, l, g⟩ := PF.leadingZeroes_ok p full [] 0 s.prec h (by simp) (by intro j hj; simp at hj)
    refine ⟨p', e, c, ?_⟩
    have hz : PF.zeroFill s.prec 0 = 0 := by rw [hs'.2]; rfl
    rw [hz] at l g
    refine ⟨by simp [l, h.1, precDigits, hs'.1, hs'.2], fun i hi1 hi2 => ?_⟩
    rw [c] at hi1
    simp only [precDigits, hs'.1, hs'.2, and_self, if_true, List.append_nil] at hi2 ⊢
    have := g i hi1 (by simpa using hi2)
    simpa using this
  · rw [if_neg hs]
    obtain ⟨p', e, c, a⟩ := PF.writeUInt_ok p full base upper s.prec x h
    refine ⟨p', e, c, ?_⟩
    rw [digits_eq base upper x hb hx] at a
    have : precDigits (natDigits base upper x) isZero s.prec =
        List.replicate (PF.zeroFill s.prec (natDigits base upper x).length) 48 ++ natDigits base upper x := by
      unfold precDigits
      cases hp : s.prec with
      | none => simp [PF.zeroFill]
      | some w =>
        have : ¬ (w = 0 ∧ isZero = true) := by
          intro hh; apply hs; simp [noDigits, hh.1, hh.2, hp]
        simp only [this, if_false, zeroFill_some]
    rw [this, ← List.append_assoc]; exact a

theorem natDigits_ne_nil (base : Nat) (upper : Bool) (x : Nat) : natDigits base upper x ≠ [] := by
  rw [natDigits]; split <;> simp

/-- `pf_write_i`: sign, then the digits -/
theorem writeI_ok (p : PF) (full : Bytes) (s : Spec) (raw : Nat) (h : Agrees p full) :
    ∃ p' md, writeI p s raw = some (p', md) ∧ p'.cap = p.cap ∧ md.has0x = false ∧ md.nanOrInf = false ∧
      (if md.hasSign then 1 else 0) = (signBytes s.flags (signedArg s.len raw < 0)).length ∧
      Agrees p' (full ++ signBytes s.flags (signedArg s.len raw < 0) ++
        precDigits (natDigits 10 false (signedArg s.len raw).natAbs) ((signedArg s.len raw).natAbs = 0) s.prec) := by
  have hmag : (signedArg s.len raw).natAbs < 10 ^ 64 := by
    have : (signedArg s.len raw).natAbs ≤ 2 ^ 64 := by
      unfold signedArg
      have hb : s.len.bits ≤ 64 := by cases s.len <;> simp [LenMod.bits]
      have hp : 2 ^ s.len.bits ≤ 2 ^ 64 := Nat.pow_le_pow_right (by omega) hb
      have hm : raw % 2 ^ s.len.bits < 2 ^ s.len.bits := Nat.mod_lt _ (Nat.pow_pos (by omega))
      simp only
      split <;> omega
    have : (2:Nat) ^ 64 < 10 ^ 64 := by decide
    omega
  unfold writeI
  simp only
  have hz : (decide ((signedArg s.len raw) = 0)) = decide ((signedArg s.len raw).natAbs = 0) := by
    simp [Int.natAbs_eq_zero]
  by_cases hn : signedArg s.len raw < 0
  · obtain ⟨p1, e1, c1, a1⟩ := PF.push_ok p full 45 h
    obtain ⟨p2, e2, c2, a2⟩ := writeDigits_ok p1 _ s 10 false _ (decide ((signedArg s.len raw).natAbs = 0)) a1 (by omega) hmag
    refine ⟨p2, { hasSign := true }, ?_, by rw [c2, c1], rfl, rfl, by simp [signBytes, hn], ?_⟩
    · simp [hn, e1, hz, e2]
    · simpa [signBytes, hn] using a2
  · by_cases hp : s.flags.plus = true
    · obtain ⟨p1, e1, c1, a1⟩ := PF.push_ok p full 43 h
      obtain ⟨p2, e2, c2, a2⟩ := writeDigits_ok p1 _ s 10 false _ (decide ((signedArg s.len raw).natAbs = 0)) a1 (by omega) hmag
      refine ⟨p2, { hasSign := true }, ?_, by rw [c2, c1], rfl, rfl, by simp [signBytes, hn, hp], ?_⟩
      · simp [hn, hp, e1, hz, e2]
      · simpa [signBytes, hn, hp] using a2
    · by_cases hsp : s.flags.space = true
      · obtain ⟨p1, e1, c1, a1⟩ := PF.push_ok p full 32 h
        obtain ⟨p2, e2, c2, a2⟩ := writeDigits_ok p1 _ s 10 false _ (decide ((signedArg s.len raw).natAbs = 0)) a1 (by omega) hmag
        refine ⟨p2, { hasSign := true }, ?_, by rw [c2, c1], rfl, rfl, by simp [signBytes, hn, hp, hsp], ?_⟩
        · simp [hn, hp, hsp, e1, hz, e2]
        · simpa [signBytes, hn, hp, hsp] using a2
      · obtain ⟨p2, e2, c2, a2⟩ := writeDigits_ok p full s 10 false _ (decide ((signedArg s.len raw).natAbs = 0)) h (by omega) hmag
        refine ⟨p2, { hasSign := false }, ?_, c2, rfl, rfl, by simp [signBytes, hn, hp, hsp], ?_⟩
        · simp [hn, hp, hsp, hz, e2]
        · simpa [signBytes, hn, hp, hsp] using a2

theorem digitChar_ne_zero (upper : Bool) (x : Nat) (h0 : 0 < x) (h16 : x < 16) : digitChar upper x ≠ 48 := by
  unfold digitChar
  have : x = 1 ∨ x = 2 ∨ x = 3 ∨ x = 4 ∨ x = 5 ∨ x = 6 ∨ x = 7 ∨ x = 8 ∨ x = 9 ∨ x = 10 ∨ x = 11 ∨ x = 12 ∨
      x = 13 ∨ x = 14 ∨ x = 15 := by omega
  rcases this with h | h | h | h | h | h | h | h | h | h | h | h | h | h | h <;> subst h <;> cases upper <;> decide

/-- no leading zero -/
theorem natDigits_head (base : Nat) (upper : Bool) (hb : 2 ≤ base) (hb16 : base ≤ 16) :
    ∀ x, 0 < x → (natDigits base upper x).head? ≠ some 48 := by
  intro x
  induction x using Nat.strongRecOn with
  | _ x ih =>
    intro hx
    rw [natDigits]
    split
    · rename_i h
      have : x < base := by omega
      simp only [List.head?_cons, ne_eq, Option.some.injEq]
      exact digitChar_ne_zero upper x hx (by omega)
    · rename_i h
      have hge : base ≤ x := by omega
      have hpos : 0 < x / base := Nat.div_pos hge (by omega)
      have hlt : x / base < x := Nat.div_lt_self hx (by omega)
      have := ih (x / base) hlt hpos
      have hne := natDigits_ne_nil base upper (x / base)
      cases hd : natDigits base upper (x / base) with
      | nil => exact absurd hd hne
      | cons a t => rw [hd] at this; simpa using this

theorem unsignedArg_lt (len : LenMod) (raw : Nat) : unsignedArg len raw < 2 ^ 64 := by
  unfold unsignedArg
  have hb : len.bits ≤ 64 := by cases len <;> simp [LenMod.bits]
  have hp : 2 ^ len.bits ≤ 2 ^ 64 := Nat.pow_le_pow_right (by omega) hb
  have hm : raw % 2 ^ len.bits < 2 ^ len.bits := Nat.mod_lt _ (Nat.pow_pos (by omega))
  omega

/-- the digits of `%o`, with the `#` rule of the standard -/
def octText (s : Spec) (u : Nat) : Bytes :=
  let ds := precDigits (natDigits 8 false u) (u = 0) s.prec
  if s.flags.hash ∧ ds.head? ≠ some 48 then 48 :: ds else ds

theorem writeO_ok (p : PF) (full : Bytes) (s : Spec) (raw : Nat) (h : Agrees p full) :
    ∃ p', writeO p s raw = some p' ∧ p'.cap = p.cap ∧ Agrees p' (full ++ octText s (unsignedArg s.len raw)) := by
  have hlt := unsignedArg_lt s.len raw
  have h8 : unsignedArg s.len raw < 8 ^ 64 := by
    have : (2:Nat) ^ 64 < 8 ^ 64 := by decide
    omega
  unfold writeO octText
  simp only
  generalize unsignedArg s.len raw = u at *
  by_cases halt : s.flags.hash = true ∧ u > 0
  · rw [if_pos halt]
    obtain ⟨p', e, c, a⟩ := PF.writeOctAlt_ok p full s.prec u h
    refine ⟨p', e, c, ?_⟩
    rw [digits_eq 8 false u (by omega) h8] at a
    have hne : ¬ (u = 0) := by omega
    have hhd := natDigits_head 8 false (by omega) (by omega) u halt.2
    have : (if s.flags.hash = true ∧ (precDigits (natDigits 8 false u) (decide (u = 0)) s.prec).head? ≠ some 48
        then 48 :: precDigits (natDigits 8 false u) (decide (u = 0)) s.prec
        else precDigits (natDigits 8 false u) (decide (u = 0)) s.prec) =
        [48] ++ List.replicate (PF.zeroFill s.prec (1 + (natDigits 8 false u).length)) 48 ++ natDigits 8 false u := by
      unfold precDigits
      cases hp : s.prec with
      | none => simp [PF.zeroFill, halt.1, hhd]
      | some w =>
        simp only [hne, decide_false, Bool.false_eq_true, and_false, if_false, zeroFill_some]
        by_cases hw : w ≤ (natDigits 8 false u).length
        · have h1 : w - (natDigits 8 false u).length = 0 := by omega
          have h2 : w - (1 + (natDigits 8 false u).length) = 0 := by omega
          simp [h1, h2, halt.1, hhd]
        · have h1 : w - (natDigits 8 false u).length = (w - (1 + (natDigits 8 false u).length)) + 1 := by omega
          rw [h1, List.replicate_succ]
          simp [halt.1]
    rw [this, ← List.append_assoc, ← List.append_assoc]
    simpa [List.append_assoc] using a
  · rw [if_neg halt]
    by_cases hh : s.flags.hash = true
    · -- '#' with the value 0: the digit 0 is always written
      have hu : u = 0 := by
        rcases Nat.eq_zero_or_pos u with h0 | h0
        · exact h0
        · exact absurd ⟨hh, h0⟩ halt
      subst hu
      have e0 : writeDigits p s 8 false (decide (noDigits s (decide ((0:Nat) = 0)) = true ∧ ¬ s.flags.hash = true)) 0 =
          PF.writeUInt p 8 false s.prec 0 := by simp [writeDigits, hh]
      rw [e0]
      obtain ⟨p', e, c, a⟩ := PF.writeUInt_ok p full 8 false s.prec 0 h
      refine ⟨p', e, c, ?_⟩
      rw [digits_eq 8 false 0 (by omega) (by decide)] at a
      have hd0 : natDigits 8 false 0 = [48] := by rw [natDigits]; simp [digitChar]
      rw [hd0] at a ⊢
      have hb : decide ((0:Nat) = 0) = true := by decide
      simp only [hb, decide_true, List.length_singleton] at a ⊢
      have : (if s.flags.hash = true ∧ (precDigits [48] true s.prec).head? ≠ some 48
          then 48 :: precDigits [48] true s.prec else precDigits [48] true s.prec) =
          List.replicate (PF.zeroFill s.prec 1) 48 ++ [48] := by
        unfold precDigits
        cases hp : s.prec with
        | none => simp [PF.zeroFill]
        | some w =>
          simp only [zeroFill_some, List.length_singleton, and_true]
          rcases Nat.eq_zero_or_pos w with h0 | h0
          · subst h0; simp [hh]
          · have hw0 : ¬ w = 0 := by omega
            rcases Nat.eq_zero_or_pos (w - 1) with h1 | h1
            · simp [h1, hw0]
            · obtain ⟨k, hk⟩ : ∃ k, w - 1 = k + 1 := ⟨w - 2, by omega⟩
              simp [hk, hw0, List.replicate_succ]
      rw [this, ← List.append_assoc]; exact a
    · have hskip : (decide (noDigits s (decide (u = 0)) = true ∧ ¬ s.flags.hash = true)) = noDigits s (decide (u = 0)) := by
        cases hn : noDigits s (decide (u = 0)) <;> simp [hh]
      rw [hskip]
      obtain ⟨p', e, c, a⟩ := writeDigits_ok p full s 8 false u (decide (u = 0)) h (by omega) h8
      refine ⟨p', e, c, ?_⟩
      simpa [hh] using a

theorem writeX_ok (p : PF) (full : Bytes) (s : Spec) (upper : Bool) (raw : Nat) (h : Agrees p full) :
    ∃ p' md, writeX p s upper raw = some (p', md) ∧ p'.cap = p.cap ∧ md.hasSign = false ∧ md.nanOrInf = false ∧
      (if md.has0x then 2 else 0) =
        (if s.flags.hash ∧ unsignedArg s.len raw ≠ 0 then [48, if upper then 88 else 120] else ([] : Bytes)).length ∧
      Agrees p' (full ++ (if s.flags.hash ∧ unsignedArg s.len raw ≠ 0 then [48, if upper then 88 else 120] else []) ++
        precDigits (natDigits 16 upper (unsignedArg s.len raw)) (unsignedArg s.len raw = 0) s.prec) := by
  have hlt := unsignedArg_lt s.len raw
  have h16 : unsignedArg s.len raw < 16 ^ 64 := by
    have : (2:Nat) ^ 64 < 16 ^ 64 := by decide
    omega
  unfold writeX
  simp only
  generalize unsignedArg s.len raw = u at *
  by_cases halt : s.flags.hash = true ∧ u > 0
  · have halt' : s.flags.hash = true ∧ u ≠ 0 := ⟨halt.1, by omega⟩
    obtain ⟨p1, e1, c1, a1⟩ := PF.concat_ok p full [48, if upper then 88 else 120] h
    obtain ⟨p2, e2, c2, a2⟩ := writeDigits_ok p1 _ s 16 upper u (decide (u = 0)) a1 (by omega) h16
    refine ⟨p2, { has0x := true }, ?_, by rw [c2, c1], rfl, rfl, by simp [halt'], ?_⟩
    · simp [halt, e1, e2]
    · simpa [halt'] using a2
  · have halt' : ¬ (s.flags.hash = true ∧ u ≠ 0) := by
      intro hh; exact halt ⟨hh.1, by omega⟩
    obtain ⟨p2, e2, c2, a2⟩ := writeDigits_ok p full s 16 upper u (decide (u = 0)) h (by omega) h16
    refine ⟨p2, { has0x := false }, ?_, c2, rfl, rfl, by simp [halt'], ?_⟩
    · have : decide (s.flags.hash = true ∧ u > 0) = false := by simpa using halt
      rw [if_neg halt]; simp [this, e2]
    · simpa [halt'] using a2

theorem writeP_ok (p : PF) (full : Bytes) (s : Spec) (raw : Nat) (h : Agrees p full) (hp : s.prec = none) :
    ∃ p', writeP p s raw = some p' ∧ p'.cap = p.cap ∧
      Agrees p' (full ++ (if raw % 2 ^ 64 = 0 then ascii "(nil)" else [48, 120] ++ natDigits 16 false (raw % 2 ^ 64))) := by
  have hlt : raw % 2 ^ 64 < 2 ^ 64 := Nat.mod_lt _ (by decide)
  have h16 : raw % 2 ^ 64 < 16 ^ 64 := by
    have : (2:Nat) ^ 64 < 16 ^ 64 := by decide
    omega
  unfold writeP
  simp only
  generalize raw % 2 ^ 64 = u at *
  by_cases h0 : u > 0
  · obtain ⟨p1, e1, c1, a1⟩ := PF.concat_ok p full [48, 120] h
    obtain ⟨p2, e2, c2, a2⟩ := PF.writeUInt_ok p1 _ 16 false s.prec u a1
    refine ⟨p2, by simp [h0, e1, e2], by rw [c2, c1], ?_⟩
    rw [digits_eq 16 false u (by omega) h16, hp] at a2
    have hne : ¬ u = 0 := by omega
    simpa [hne, PF.zeroFill, List.append_assoc] using a2
  · have hu : u = 0 := by omega
    obtain ⟨p1, e1, c1, a1⟩ := PF.concat_ok p full (ascii "(nil)") h
    exact ⟨p1, by simp [h0, e1], c1, by simpa [hu] using a1⟩

/-- `%s`: the string (cut at the precision) and its own space padding -/
theorem writeS_ok (p : PF) (full : Bytes) (s : Spec) (str : Bytes) (h : Agrees p full) :
    ∃ p', writeS p s str = some p' ∧ p'.cap = p.cap ∧
      Agrees p' (full ++ padField { s.flags with zero := false } s.width [] (strArg s.prec str) false) := by
  unfold writeS
  simp only
  generalize strArg s.prec str = t
  unfold padField
  simp only [List.length_nil, Nat.zero_add, List.nil_append, Bool.false_eq_true, and_false, if_false]
  by_cases hd : s.flags.dash = true
  · simp only [hd, if_true]
    obtain ⟨p1, e1, c1, a1⟩ := PF.concat_ok p full t h
    obtain ⟨p2, e2, c2, a2⟩ := PF.pad_ok p1 _ 32 (max s.width t.length - t.length) a1
    refine ⟨p2, by simp [e1, e2], by rw [c2, c1], ?_⟩
    by_cases hw : s.width ≤ t.length
    · have : max s.width t.length - t.length = 0 := by omega
      simpa [hw, this] using a2
    · have : max s.width t.length - t.length = s.width - t.length := by omega
      simpa [hw, this, List.append_assoc] using a2
  · simp only [hd, Bool.false_eq_true, if_false]
    obtain ⟨p1, e1, c1, a1⟩ := PF.pad_ok p full 32 (max s.width t.length - t.length) h
    obtain ⟨p2, e2, c2, a2⟩ := PF.concat_ok p1 _ t a1
    refine ⟨p2, by simp [e1, e2], by rw [c2, c1], ?_⟩
    by_cases hw : s.width ≤ t.length
    · have : max s.width t.length - t.length = 0 := by omega
      simpa [hw, this] using a2
    · have : max s.width t.length - t.length = s.width - t.length := by omega
      simpa [hw, this, List.append_assoc] using a2

/-- the scan keeps at most `limit` bytes and counts at most one code point per byte kept -/
theorem ustrScan_bound (str : Bytes) (limit : Nat) : ∀ (fuel i cnt last len n : Nat),
    cnt ≤ i → (0 < cnt → 1 ≤ last ∧ cnt - 1 ≤ i - last ∧ last ≤ i) → i - last ≤ limit →
    ustrScan str limit fuel i cnt last = some (len, n) → n ≤ len ∧ len ≤ limit := by
  intro fuel
  induction fuel with
  | zero => intro i cnt last len n _ _ _ h; simp [ustrScan] at h
  | succ f ih =>
    intro i cnt last len n h1 h2 h3 h
    unfold ustrScan at h
    by_cases hgt : i > limit
    · rw [if_pos hgt] at h
      simp only [Option.some.injEq, Prod.mk.injEq] at h
      obtain ⟨rfl, rfl⟩ := h
      by_cases hc : 0 < cnt
      · obtain ⟨_, b, _⟩ := h2 hc; exact ⟨b, h3⟩
      · have : cnt = 0 := by omega
        subst this; exact ⟨by omega, h3⟩
    · rw [if_neg hgt] at h
      by_cases heq : i = limit
      · rw [if_pos heq] at h
        simp only [Option.some.injEq, Prod.mk.injEq] at h
        obtain ⟨rfl, rfl⟩ := h
        exact ⟨h1, by omega⟩
      · rw [if_neg heq] at h
        simp only at h
        by_cases hl : leadLen (str.getD i 0) = 0
        · rw [if_pos hl] at h; cases h
        · rw [if_neg hl] at h
          exact ih _ _ _ len n (by omega) (fun _ => ⟨by omega, by omega, by omega⟩) (by omega) h

theorem ustrArg_bound (prec : Option Nat) (str t : Bytes) (n : Nat) (h : ustrArg prec str = some (t, n)) :
    n ≤ t.length := by
  have hlim : ustrLimit prec str ≤ str.length := by
    unfold ustrLimit; cases prec <;> simp <;> omega
  simp only [ustrArg, Option.map_eq_some_iff] at h
  obtain ⟨⟨len, m⟩, hs, he⟩ := h
  simp only [Prod.mk.injEq] at he
  obtain ⟨rfl, rfl⟩ := he
  have hb := ustrScan_bound str _ _ 0 0 0 len m (by omega) (by omega) (by omega) hs
  simp only [List.length_take]
  omega

theorem writeUS_ok (p : PF) (full : Bytes) (s : Spec) (str t : Bytes) (h : Agrees p full)
    (ht : fmtUStr s str = some t) :
    ∃ p', writeUS p s str = some p' ∧ p'.cap = p.cap ∧ Agrees p' (full ++ t) ∧ s.width ≤ t.length := by
  unfold fmtUStr at ht
  simp only [Option.map_eq_some_iff] at ht
  obtain ⟨⟨b, n⟩, hu, he⟩ := ht
  have hn := ustrArg_bound s.prec str b n hu
  unfold writeUS
  simp only [hu, Option.bind_eq_bind, Option.bind_some]
  have hd : max s.width n - n = s.width - n := by omega
  rw [hd]
  by_cases hdash : s.flags.dash = true
  · simp only [hdash, if_true] at he ⊢
    subst he
    obtain ⟨p1, e1, c1, a1⟩ := PF.concat_ok p full b h
    obtain ⟨p2, e2, c2, a2⟩ := PF.pad_ok p1 _ 32 (s.width - n) a1
    refine ⟨p2, by simp [e1, e2], by rw [c2, c1], by simpa [List.append_assoc] using a2, ?_⟩
    simp only [List.length_append, List.length_replicate]; omega
  · simp only [hdash, Bool.false_eq_true, if_false] at he ⊢
    subst he
    obtain ⟨p1, e1, c1, a1⟩ := PF.pad_ok p full 32 (s.width - n) h
    obtain ⟨p2, e2, c2, a2⟩ := PF.concat_ok p1 _ b a1
    refine ⟨p2, by simp [e1, e2], by rw [c2, c1], by simpa [List.append_assoc] using a2, ?_⟩
    simp only [List.length_append, List.length_replicate]; omega

/-! ### one conversion -/

/-- the tail of `convert`: padding when the writer produced less than the field width -/
theorem finishConv (p1 : PF) (full pre body : Bytes) (s : Spec) (md : Misc) (start : Nat)
    (hA : Agrees p1 (full ++ pre ++ body)) (hs : start = full.length)
    (hoff : (if md.hasSign then 1 else 0) + (if md.has0x then 2 else 0) = pre.length) :
    ∃ p', (if p1.length - start < s.width then addPadding p1 s (p1.length - start) md else some p1) = some p' ∧
      p'.cap = p1.cap ∧
      Agrees p' (full ++ padField s.flags s.width pre body
        (!((isIntConv s.conv && s.prec.isSome) || md.nanOrInf))) := by
  have hlen : p1.length - start = pre.length + body.length := by
    rw [hA.1, hs]; simp only [List.length_append]; omega
  rw [hlen]
  by_cases hw : pre.length + body.length < s.width
  · rw [if_pos hw]; exact addPadding_ok p1 full pre body s md hA hoff hw
  · rw [if_neg hw]
    refine ⟨p1, rfl, rfl, ?_⟩
    have : padField s.flags s.width pre body (!((isIntConv s.conv && s.prec.isSome) || md.nanOrInf)) = pre ++ body := by
      unfold padField; simp only; rw [if_pos (by omega)]
    rw [this, ← List.append_assoc]; exact hA

theorem convert_signed (p : PF) (full : Bytes) (s : Spec) (raw : Nat) (h : Agrees p full)
    (hc : s.conv = 'd' ∨ s.conv = 'i') :
    ∃ p', convert p s (some (.int raw)) = some p' ∧ p'.cap = p.cap ∧ Agrees p' (full ++ fmtSigned s raw) := by
  obtain ⟨p1, md, e1, c1, m1, m2, m3, a1⟩ := writeI_ok p full s raw h
  obtain ⟨p2, e2, c2, a2⟩ := finishConv p1 full _ _ s md p.length a1 h.1 (by rw [m1]; simpa using m3)
  have hcontains : isIntConv s.conv = true := by rcases hc with hc | hc <;> rw [hc] <;> decide
  refine ⟨p2, ?_, by rw [c2, c1], ?_⟩
  · unfold convert
    rcases hc with hc | hc <;> simp only [hc] <;> simp [e1] <;> exact e2
  · have : fmtSigned s raw = padField s.flags s.width (signBytes s.flags (decide (signedArg s.len raw < 0)))
        (precDigits (natDigits 10 false (signedArg s.len raw).natAbs) (decide ((signedArg s.len raw).natAbs = 0)) s.prec)
        (!((isIntConv s.conv && s.prec.isSome) || md.nanOrInf)) := by
      unfold fmtSigned
      simp only [hcontains, m2, Bool.true_and, Bool.or_false]
      cases s.prec <;> rfl
    rw [this]; exact a2

theorem convert_u (p : PF) (full : Bytes) (s : Spec) (raw : Nat) (h : Agrees p full) (hc : s.conv = 'u') :
    ∃ p', convert p s (some (.int raw)) = some p' ∧ p'.cap = p.cap ∧ Agrees p' (full ++ fmtUnsigned s raw) := by
  have hlt := unsignedArg_lt s.len raw
  have h10 : unsignedArg s.len raw < 10 ^ 64 := by
    have : (2:Nat) ^ 64 < 10 ^ 64 := by decide
    omega
  obtain ⟨p1, e1, c1, a1⟩ := writeDigits_ok p full s 10 false (unsignedArg s.len raw)
    (decide (unsignedArg s.len raw = 0)) h (by omega) h10
  obtain ⟨p2, e2, c2, a2⟩ := finishConv p1 full [] _ s {} p.length (by simpa using a1) h.1 (by simp)
  refine ⟨p2, ?_, by rw [c2, c1], ?_⟩
  · unfold convert; simp only [hc]; simp [e1]; exact e2
  · have : fmtUnsigned s raw = padField s.flags s.width []
        (precDigits (natDigits 10 false (unsignedArg s.len raw)) (decide (unsignedArg s.len raw = 0)) s.prec)
        (!((isIntConv s.conv && s.prec.isSome) || ({} : Misc).nanOrInf)) := by
      unfold fmtUnsigned
      simp only [hc, isIntConv]
      cases s.prec <;> simp
    rw [this]; exact a2

theorem convert_o (p : PF) (full : Bytes) (s : Spec) (raw : Nat) (h : Agrees p full) (hc : s.conv = 'o') :
    ∃ p', convert p s (some (.int raw)) = some p' ∧ p'.cap = p.cap ∧ Agrees p' (full ++ fmtUnsigned s raw) := by
  obtain ⟨p1, e1, c1, a1⟩ := writeO_ok p full s raw h
  obtain ⟨p2, e2, c2, a2⟩ := finishConv p1 full [] _ s {} p.length (by simpa using a1) h.1 (by simp)
  refine ⟨p2, ?_, by rw [c2, c1], ?_⟩
  · unfold convert; simp only [hc]; simp [e1]; exact e2
  · have : fmtUnsigned s raw = padField s.flags s.width [] (octText s (unsignedArg s.len raw))
        (!((isIntConv s.conv && s.prec.isSome) || ({} : Misc).nanOrInf)) := by
      unfold fmtUnsigned octText
      simp only [hc, isIntConv]
      cases s.prec <;> simp
    rw [this]; exact a2

theorem convert_x (p : PF) (full : Bytes) (s : Spec) (raw : Nat) (h : Agrees p full)
    (hc : s.conv = 'x' ∨ s.conv = 'X') :
    ∃ p', convert p s (some (.int raw)) = some p' ∧ p'.cap = p.cap ∧ Agrees p' (full ++ fmtUnsigned s raw) := by
  obtain ⟨p1, md, e1, c1, m1, m2, m3, a1⟩ := writeX_ok p full s (s.conv = 'X') raw h
  obtain ⟨p2, e2, c2, a2⟩ := finishConv p1 full _ _ s md p.length a1 h.1 (by rw [m1]; simpa using m3)
  refine ⟨p2, ?_, by rw [c2, c1], ?_⟩
  · unfold convert
    rcases hc with hc | hc
    · have : decide (s.conv = 'X') = false := by rw [hc]; decide
      rw [this] at e1
      simp only [hc]; simp [e1]; exact e2
    · have : decide (s.conv = 'X') = true := by rw [hc]; decide
      rw [this] at e1
      simp only [hc]; simp [e1]; exact e2
  · have : fmtUnsigned s raw = padField s.flags s.width
        (if s.flags.hash = true ∧ unsignedArg s.len raw ≠ 0 then [48, if decide (s.conv = 'X') = true then 88 else 120] else [])
        (precDigits (natDigits 16 (decide (s.conv = 'X')) (unsignedArg s.len raw)) (decide (unsignedArg s.len raw = 0)) s.prec)
        (!((isIntConv s.conv && s.prec.isSome) || md.nanOrInf)) := by
      unfold fmtUnsigned
      rcases hc with hc | hc <;> simp only [hc, isIntConv, m2] <;> cases s.prec <;> simp <;> rfl
    rw [this]; exact a2

theorem padField_nozero (f : Flags) (w : Nat) (body : Bytes) (b : Bool) (hz : f.zero = false) :
    padField { f with zero := false } w [] body false = padField f w [] body b := by
  unfold padField; simp [hz]

theorem convert_c (p : PF) (full : Bytes) (s : Spec) (raw : Nat) (h : Agrees p full) (hc : s.conv = 'c')
    (hz : s.flags.zero = false) :
    ∃ p', convert p s (some (.int raw)) = some p' ∧ p'.cap = p.cap ∧
      Agrees p' (full ++ padField { s.flags with zero := false } s.width [] (charBody s raw) false) := by
  have hpad : ∀ body : Bytes, padField { s.flags with zero := false } s.width [] body false =
      padField s.flags s.width [] body (!((isIntConv s.conv && s.prec.isSome) || ({} : Misc).nanOrInf)) := by
    intro body; unfold padField; simp [hz]
  by_cases hl : s.len = .l
  · obtain ⟨p1, e1, c1, a1⟩ := PF.concat_ok p full (wcBytes raw) h
    obtain ⟨p2, e2, c2, a2⟩ := finishConv p1 full [] _ s {} p.length (by simpa using a1) h.1 (by simp)
    refine ⟨p2, ?_, by rw [c2, c1], ?_⟩
    · unfold convert; simp only [hc]; simp [hl, e1]; exact e2
    · rw [hpad]; simp only [charBody, hl, if_true]; exact a2
  · obtain ⟨p1, e1, c1, a1⟩ := PF.push_ok p full (UInt8.ofNat (raw % 256)) h
    obtain ⟨p2, e2, c2, a2⟩ := finishConv p1 full [] _ s {} p.length (by simpa using a1) h.1 (by simp)
    refine ⟨p2, ?_, by rw [c2, c1], ?_⟩
    · unfold convert; simp only [hc]; simp [hl, e1]; exact e2
    · rw [hpad]; simp only [charBody, hl, if_false]; exact a2

theorem convert_p (p : PF) (full : Bytes) (s : Spec) (raw : Nat) (h : Agrees p full) (hc : s.conv = 'p')
    (hz : s.flags.zero = false) (hp : s.prec = none) :
    ∃ p', convert p s (some (.int raw)) = some p' ∧ p'.cap = p.cap ∧
      Agrees p' (full ++ padField { s.flags with zero := false } s.width []
        (if raw % 2 ^ 64 = 0 then ascii "(nil)" else [48, 120] ++ natDigits 16 false (raw % 2 ^ 64)) false) := by
  obtain ⟨p1, e1, c1, a1⟩ := writeP_ok p full s raw h hp
  obtain ⟨p2, e2, c2, a2⟩ := finishConv p1 full [] _ s {} p.length (by simpa using a1) h.1 (by simp)
  refine ⟨p2, ?_, by rw [c2, c1], ?_⟩
  · unfold convert; simp only [hc]; simp [e1]; exact e2
  · rw [padField_nozero s.flags s.width _ (!((isIntConv s.conv && s.prec.isSome) || ({} : Misc).nanOrInf)) hz]
    exact a2

theorem convert_s (p : PF) (full : Bytes) (s : Spec) (str : Bytes) (h : Agrees p full) (hc : s.conv = 's') :
    ∃ p', convert p s (some (.str str)) = some p' ∧ p'.cap = p.cap ∧
      Agrees p' (full ++ padField { s.flags with zero := false } s.width [] (strArg s.prec str) false) := by
  obtain ⟨p1, e1, c1, a1⟩ := writeS_ok p full s str h
  refine ⟨p1, ?_, c1, a1⟩
  unfold convert; simp only [hc]; simp [e1]
  -- the writer already produced at least the field width
  intro hlt
  exfalso
  have hl : p1.length = (full ++ padField { s.flags with zero := false } s.width [] (strArg s.prec str) false).length := a1.1
  have hge : s.width ≤ (padField { s.flags with zero := false } s.width [] (strArg s.prec str) false).length := by
    unfold padField; simp only [List.length_nil, Nat.zero_add, List.nil_append]
    split
    · assumption
    · split <;> (try split) <;> simp <;> omega
  rw [List.length_append] at hl
  have := h.1
  omega

theorem convert_S (p : PF) (full : Bytes) (s : Spec) (str t : Bytes) (h : Agrees p full) (hc : s.conv = 'S')
    (ht : fmtUStr s str = some t) :
    ∃ p', convert p s (some (.gstr str)) = some p' ∧ p'.cap = p.cap ∧ Agrees p' (full ++ t) := by
  obtain ⟨p1, e1, c1, a1, hw⟩ := writeUS_ok p full s str t h ht
  refine ⟨p1, ?_, c1, a1⟩
  unfold convert; simp only [hc]; simp [e1]
  -- the writer already produced at least the field width
  intro hlt
  exfalso
  have hl : p1.length = (full ++ t).length := a1.1
  rw [List.length_append] at hl
  have := h.1
  omega

theorem convert_percent (p : PF) (full : Bytes) (s : Spec) (h : Agrees p full) (hc : s.conv = '%') (hw : s.width = 0) :
    ∃ p', convert p s none = some p' ∧ p'.cap = p.cap ∧ Agrees p' (full ++ [37]) := by
  obtain ⟨p1, e1, c1, a1⟩ := PF.push_ok p full 37 h
  refine ⟨p1, ?_, c1, a1⟩
  unfold convert; simp only [hc]; simp [e1, hw]

/-- the text the model writes for a floating point conversion: the specification's sign and padding
around the digits that the plan of output steps spells -/
def floatModelText (s : Spec) (bits : Nat) : Bytes :=
  let r := floatParts s bits
  padField s.flags s.width r.1 (PF.planText (if r.2.2 then [PF.Emit.concat r.2.1] else bodyPlan r.2.1)) (!r.2.2)

theorem planText_append (a b : List PF.Emit) : PF.planText (a ++ b) = PF.planText a ++ PF.planText b := by
  simp [PF.planText]

theorem planText_push (sg : Bytes) : PF.planText (sg.map PF.Emit.push) = sg := by
  induction sg with
  | nil => rfl
  | cons a t ih => simp [PF.planText, PF.Emit.text] at ih ⊢; exact ih

theorem signBytes_length (f : Flags) (neg : Bool) :
    (signBytes f neg).length = if (neg ∨ f.plus ∨ f.space) then 1 else 0 := by
  unfold signBytes
  cases neg <;> cases f.plus <;> cases f.space <;> simp

theorem convert_float (p : PF) (full : Bytes) (s : Spec) (bits : Nat) (h : Agrees p full) (hc : isFloatConv s.conv = true) :
    ∃ p', convert p s (some (.dbl bits)) = some p' ∧ p'.cap = p.cap ∧ Agrees p' (full ++ floatModelText s bits) := by
  have hni : isIntConv s.conv = false := by
    unfold isFloatConv at hc; unfold isIntConv
    simp only [Bool.or_eq_true, decide_eq_true_eq] at hc
    rcases hc with ((((hc | hc) | hc) | hc) | hc) | hc <;> rw [hc] <;> decide
  have hfp : floatPlan s bits = ((floatParts s bits).1.map PF.Emit.push ++
      (if (floatParts s bits).2.2 then [PF.Emit.concat (floatParts s bits).2.1] else bodyPlan (floatParts s bits).2.1),
      { hasSign := (decode bits).neg ∨ s.flags.plus ∨ s.flags.space, nanOrInf := (floatParts s bits).2.2 }) := by
    unfold floatPlan; rfl
  obtain ⟨p1, e1, c1, a1⟩ := PF.writeFloat_ok p full (floatPlan s bits).1 h
  have hmd : (floatPlan s bits).2 = { hasSign := (decode bits).neg ∨ s.flags.plus ∨ s.flags.space, nanOrInf := (floatParts s bits).2.2 } := by
    rw [hfp]
  rw [hfp] at a1
  simp only [planText_append, planText_push] at a1
  have hsg : (floatParts s bits).1 = signBytes s.flags (decode bits).neg := by
    unfold floatParts; simp only; split <;> rfl
  obtain ⟨p2, e2, c2, a2⟩ := finishConv p1 full (floatParts s bits).1
    (PF.planText (if (floatParts s bits).2.2 then [PF.Emit.concat (floatParts s bits).2.1] else bodyPlan (floatParts s bits).2.1))
    s { hasSign := (decode bits).neg ∨ s.flags.plus ∨ s.flags.space, nanOrInf := (floatParts s bits).2.2 } p.length
    (by rw [← List.append_assoc] at a1; exact a1) h.1
    (by rw [hsg, signBytes_length]; simp)
  refine ⟨p2, ?_, by rw [c2, c1], ?_⟩
  · unfold convert
    rw [← hmd] at e2
    unfold isFloatConv at hc
    simp only [Bool.or_eq_true, decide_eq_true_eq] at hc
    rcases hc with ((((hc | hc) | hc) | hc) | hc) | hc <;> simp only [hc] <;> simp [isFloatConv, e1] <;> exact e2
  · unfold floatModelText
    simp only [hni, Bool.false_and, Bool.false_or] at a2
    exact a2

/-! ### whole format strings -/

/-- the text of one conversion, for the combinations the claim covers (`ft` = text of a floating
point conversion): the `0` flag is not used with `c` / `p`, `p` has no precision, `%%` no width -/
def convText (ft : Spec → Nat → Bytes) (s : Spec) : Option Arg → Option Bytes
  | none => if s.conv = '%' ∧ s.width = 0 then some [37] else none
  | some (.int raw) =>
    if s.conv = 'c' ∨ s.conv = 'p' then
      (if s.flags.zero = false ∧ (s.conv = 'p' → s.prec = none) then formatOne s (.int raw) else none)
    else formatOne s (.int raw)
  | some (.str str) => formatOne s (.str str)
  | some (.gstr str) => formatOne s (.gstr str)
  | some (.dbl bits) => if isFloatConv s.conv then some (ft s bits) else none

theorem convert_ok (p : PF) (full t : Bytes) (s : Spec) (a : Option Arg) (h : Agrees p full)
    (ht : convText floatModelText s a = some t) :
    ∃ p', convert p s a = some p' ∧ p'.cap = p.cap ∧ Agrees p' (full ++ t) := by
  cases a with
  | none =>
    simp only [convText] at ht
    split at ht
    · rename_i hc; cases ht; exact convert_percent p full s h hc.1 hc.2
    · cases ht
  | some a =>
    cases a with
    | dbl bits =>
      simp only [convText] at ht
      split at ht
      · rename_i hc; cases ht; exact convert_float p full s bits h hc
      · cases ht
    | str str =>
      simp only [convText, formatOne] at ht
      split at ht
      · rename_i hc; cases ht; exact convert_s p full s str h hc
      · cases ht
    | gstr str =>
      simp only [convText, formatOne] at ht
      split at ht
      · rename_i hc; exact convert_S p full s str t h hc ht
      · cases ht
    | int raw =>
      simp only [convText] at ht
      by_cases hcp : s.conv = 'c' ∨ s.conv = 'p'
      · rw [if_pos hcp] at ht
        split at ht
        · rename_i hz
          rcases hcp with hc | hc
          · have : formatOne s (.int raw) = some (padField { s.flags with zero := false } s.width [] (charBody s raw) false) := by
              simp [formatOne, hc]
            rw [this] at ht; cases ht
            exact convert_c p full s raw h hc hz.1
          · have : formatOne s (.int raw) = some (padField { s.flags with zero := false } s.width []
                (if raw % 2 ^ 64 = 0 then ascii "(nil)" else [48, 120] ++ natDigits 16 false (raw % 2 ^ 64)) false) := by
              simp [formatOne, hc]
            rw [this] at ht; cases ht
            exact convert_p p full s raw h hc hz.1 (hz.2 hc)
        · cases ht
      · rw [if_neg hcp] at ht
        simp only [formatOne] at ht
        split at ht
        · rename_i hc; cases ht; exact convert_signed p full s raw h hc
        · split at ht
          · rename_i hc
            cases ht
            rcases hc with hc | hc | hc | hc
            · exact convert_o p full s raw h hc
            · exact convert_u p full s raw h hc
            · exact convert_x p full s raw h (Or.inl hc)
            · exact convert_x p full s raw h (Or.inr hc)
          · rename_i h1 h2
            have hc : ¬ s.conv = 'c' := fun hh => hcp (Or.inl hh)
            have hp : ¬ s.conv = 'p' := fun hh => hcp (Or.inr hh)
            simp [hc, hp] at ht

/-- **the formatter follows the format**: whenever the text of the whole format is defined, the
formatter writes inside the destination and leaves the first `capacity` bytes of that text, and its
length counts the whole text -/
theorem vsnprintf_ok (fuel : Nat) : ∀ (p : PF) (full out fmt : Bytes) (args : List Arg), Agrees p full →
    genFormat (convText floatModelText) fuel fmt args = some out →
    ∃ p', vsnprintf fuel p fmt args = some (some p') ∧ p'.cap = p.cap ∧ Agrees p' (full ++ out) := by
  induction fuel with
  | zero => intro p full out fmt args _ hg; simp [genFormat] at hg
  | succ f ih =>
    intro p full out fmt args h hg
    unfold genFormat at hg
    unfold vsnprintf
    obtain ⟨p1, e1, c1, a1⟩ := PF.concat_ok p full (splitLiteral fmt).1 h
    simp only [e1]
    cases hrest : (splitLiteral fmt).2 with
    | nil =>
      simp only [hrest] at hg
      cases hg
      exact ⟨p1, rfl, c1, a1⟩
    | cons pct afterPct =>
      simp only [hrest] at hg ⊢
      cases hscan : scanSpec afterPct with
      | none => simp [hscan] at hg
      | some rr =>
        obtain ⟨raw, rest⟩ := rr
        simp only [hscan] at hg ⊢
        cases hres : resolve raw args with
        | none => simp [hres] at hg
        | some sa =>
          obtain ⟨s, args'⟩ := sa
          simp only [hres] at hg ⊢
          by_cases hpc : s.conv = '%'
          · simp only [hpc, if_true] at hg ⊢
            cases hct : convText floatModelText s none with
            | none => simp [hct] at hg
            | some t =>
              cases hgt : genFormat (convText floatModelText) f rest args' with
              | none => simp [hct, hgt] at hg
              | some tail =>
                have hg' : out = (splitLiteral fmt).1 ++ t ++ tail := by
                  simp [hct, hgt] at hg; rw [← hg]; simp [List.append_assoc]
                obtain ⟨p2, e2, c2, a2⟩ := convert_ok p1 _ t s none a1 hct
                obtain ⟨p3, e3, c3, a3⟩ := ih p2 _ tail rest args' a2 hgt
                refine ⟨p3, by simp [e2, e3], by rw [c3, c2, c1], ?_⟩
                rw [hg']; simpa [List.append_assoc] using a3
          · simp only [hpc, if_false] at hg ⊢
            cases args' with
            | nil => simp at hg
            | cons a args'' =>
              simp only at hg ⊢
              by_cases hfit : argFits s.conv a = true
              · simp only [hfit, Bool.not_true, Bool.false_eq_true, if_false] at hg ⊢
                cases hct : convText floatModelText s (some a) with
                | none => simp [hct] at hg
                | some t =>
                  cases hgt : genFormat (convText floatModelText) f rest args'' with
                  | none => simp [hct, hgt] at hg
                  | some tail =>
                    have hg' : out = (splitLiteral fmt).1 ++ t ++ tail := by
                      simp [hct, hgt] at hg; rw [← hg]; simp [List.append_assoc]
                    obtain ⟨p2, e2, c2, a2⟩ := convert_ok p1 _ t s (some a) a1 hct
                    obtain ⟨p3, e3, c3, a3⟩ := ih p2 _ tail rest args'' a2 hgt
                    refine ⟨p3, by simp [e2, e3], by rw [c3, c2, c1], ?_⟩
                    rw [hg']; simpa [List.append_assoc] using a3
              · simp [hfit] at hg

/-- monotonicity in the per-conversion text -/
theorem genFormat_mono (ct1 ct2 : Spec → Option Arg → Option Bytes)
    (hm : ∀ s a t, ct1 s a = some t → ct2 s a = some t) (fuel : Nat) :
    ∀ (fmt : Bytes) (args : List Arg) (out : Bytes),
      genFormat ct1 fuel fmt args = some out → genFormat ct2 fuel fmt args = some out := by
  induction fuel with
  | zero => intro fmt args out h; simp [genFormat] at h
  | succ f ih =>
    intro fmt args out h
    unfold genFormat at h ⊢
    cases hrest : (splitLiteral fmt).2 with
    | nil => simpa [hrest] using h
    | cons pct afterPct =>
      simp only [hrest] at h ⊢
      cases hscan : scanSpec afterPct with
      | none => simp [hscan] at h
      | some rr =>
        obtain ⟨raw, rest⟩ := rr
        simp only [hscan] at h ⊢
        cases hres : resolve raw args with
        | none => simp [hres] at h
        | some sa =>
          obtain ⟨s, args'⟩ := sa
          simp only [hres] at h ⊢
          by_cases hpc : s.conv = '%'
          · simp only [hpc, if_true] at h ⊢
            cases hct : ct1 s none with
            | none => simp [hct] at h
            | some t =>
              cases hgt : genFormat ct1 f rest args' with
              | none => simp [hct, hgt] at h
              | some tail =>
                simp only [hct, hgt] at h
                rw [hm s none t hct, ih rest args' tail hgt]; exact h
          · simp only [hpc, if_false] at h ⊢
            cases args' with
            | nil => simp at h
            | cons a args'' =>
              simp only at h ⊢
              by_cases hfit : argFits s.conv a = true
              · simp only [hfit, Bool.not_true, Bool.false_eq_true, if_false] at h ⊢
                cases hct : ct1 s (some a) with
                | none => simp [hct] at h
                | some t =>
                  cases hgt : genFormat ct1 f rest args'' with
                  | none => simp [hct, hgt] at h
                  | some tail =>
                    simp only [hct, hgt] at h
                    rw [hm s (some a) t hct, ih rest args'' tail hgt]; exact h
              · simp [hfit] at h

end Gpc.Printf
