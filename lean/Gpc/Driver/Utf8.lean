import Gpc.Model.Proto
import Gpc.Model.Utf8
namespace Gpc.Driver
open Gpc.Proto Gpc.Utf8

def showValid : Option Nat → String
  | none => "ok" | some i => toString i
def showAscii : Option (Option Nat) → String
  | none => "oob" | some none => "ok" | some (some i) => toString i
def charOfIdx : Option Nat → Char
  | none => 'V' | some i => Char.ofNat (48 + i)

/-- all `k`-byte suffixes in lexicographic order -/
def suffixes : Nat → List (List UInt8)
  | 0 => [[]]
  | k + 1 => (List.range 256).flatMap fun b => (suffixes k).map fun s => UInt8.ofNat b :: s

def u8 (toks : List String) : String :=
  match toks with
  | ["cplen"] => " ".intercalate ((List.range 256).map fun b => toString (cpLen (UInt8.ofNat b)))
  | ["vcp", c] => match c.toNat? with
    | some c => if c < 2^32 then (if validCodepoint c then "1" else "0") else "bad-op"
    | none => "bad-op"
  | ["valid", h] => match parseHex h with
    | some s => showValid (isValidUtf8 s) | none => "bad-op"
  | ["ascii", h, a] => match parseHex h, a.toNat? with
    | some s, some a => if a < 8 then showAscii (asciiValid s a) else "bad-op"
    | _, _ => "bad-op"
  | ["count", h, a] => match parseHex h, a.toNat? with
    | some s, some a => if a < 8 then (match codepointCount s a with | none => "oob" | some c => toString c) else "bad-op"
    | _, _ => "bad-op"
  | ["tovalid", h, r] => match parseHex h, parseHex r with
    | some s, some r => if r.contains 0 then "bad-op" else toHex (strToValid s r)
    | _, _ => "bad-op"
  | ["btovalid", h, r] => match parseHex h, parseHex r with
    | some s, some r => if r.contains 0 then "bad-op" else toHex (bytesToValid r (s.length + 1) s)
    | _, _ => "bad-op"
  | ["vsweep", p, k] => match parseHex p, k.toNat? with
    | some p, some k => if k ≤ 2 then String.ofList ((suffixes k).map fun s => charOfIdx (isValidUtf8 (p ++ s))) else "bad-op"
    | _, _ => "bad-op"
  | ["asweep", p, k, a] => match parseHex p, k.toNat?, a.toNat? with
    | some p, some k, some a => if k ≤ 2 ∧ a < 8 then
        String.ofList ((suffixes k).map fun s => match asciiValid (p ++ s) a with
          | none => '!' | some r => charOfIdx r) else "bad-op"
    | _, _, _ => "bad-op"
  | ["csweep", p, k, a] => match parseHex p, k.toNat?, a.toNat? with
    | some p, some k, some a => if k ≤ 2 ∧ a < 8 then
        String.ofList ((suffixes k).map fun s => match codepointCount (p ++ s) a with
          | none => '!' | some r => Char.ofNat (48 + r)) else "bad-op"
    | _, _, _ => "bad-op"
  | _ => "bad-op"

end Gpc.Driver
