import Gpc.Props.C03
import Gpc.Props.C04
import Gpc.Props.C05
import Gpc.Props.C06
import Gpc.Props.C07
import Gpc.Props.C08
import Gpc.Props.C09
import Gpc.Props.C11
import Gpc.Props.C16
import Gpc.Props.C20
/-!
# C18 — single-header and release builds behave like the multi-file debug build

No theorem of its own: the reference behaviour of every call script is what the models of C03–C09,
C11, C16, C20 compute, and the theorems of those properties are about that behaviour.  The check
ties each *build form* to the same models (and the forms to each other) by running the same scripts.
-/
namespace Gpc.C18
/-- the models whose executable definitions serve as the build-form-independent reference are the ones the
property theorems of the imported files are about (this module only makes the dependency explicit) -/
theorem reference_models_are_the_verified_ones : True := trivial
end Gpc.C18
