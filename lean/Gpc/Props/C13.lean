import Gpc.Model.Compare
import Gpc.Spec.CaseFull
import Gpc.Ucd.CaseFull
import Gpc.Props.C11
import Gpc.Props.C07
/-!
# C13 — comparison is a consistent total order; sorting returns a sorted permutation
-/
namespace Gpc.Compare
open Gpc.CaseFull (Loc foldFull fold1)
open Gpc.Generated

/-! ## the code point comparison is a total order -/

theorem cmpCps_refl (a : List Nat) : cmpCps a a = 0 := by
  induction a with
  | nil => rfl
  | cons x xs ih => simp [cmpCps, ih]

/-- **zero exactly for equal strings** -/
theorem cmpCps_zero_iff (a b : List Nat) : cmpCps a b = 0 ↔ a = b := by
  induction a generalizing b with
  | nil => cases b <;> simp [cmpCps]
  | cons x xs ih =>
    cases b with
    | nil => simp [cmpCps]
    | cons y ys =>
      simp only [cmpCps]
      by_cases h : x = y
      · subst h; simp [ih]
      · rw [if_neg h]; simp only [List.cons.injEq, h, false_and, iff_false]; omega

/-- **antisymmetry of the sign** -/
theorem cmpCps_antisymm (a b : List Nat) : sgn (cmpCps a b) = - sgn (cmpCps b a) := by
  induction a generalizing b with
  | nil => cases b <;> simp [cmpCps, sgn]
  | cons x xs ih =>
    cases b with
    | nil => simp [cmpCps, sgn]
    | cons y ys =>
      simp only [cmpCps]
      by_cases h : x = y
      · subst h; simp [ih]
      · have h' : ¬ y = x := fun e => h e.symm
        rw [if_neg h, if_neg h']
        unfold sgn
        split <;> split <;> (try split) <;> (try split) <;> omega

theorem cmpCps_neg_cases (a b : List Nat) :
    cmpCps a b < 0 ↔ (∃ p x y s t, a = p ++ x :: s ∧ b = p ++ y :: t ∧ x < y) ∨ (∃ y t, b = a ++ y :: t) := by
  induction a generalizing b with
  | nil =>
    cases b with
    | nil => simp [cmpCps]
    | cons y ys => simp [cmpCps]
  | cons x xs ih =>
    cases b with
    | nil => simp [cmpCps]
    | cons y ys =>
      simp only [cmpCps]
      by_cases h : x = y
      · subst h
        rw [if_pos rfl, ih]
        constructor
        · rintro (⟨p, x', y', s, t, ha, hb, hlt⟩ | ⟨y', t, hb⟩)
          · exact Or.inl ⟨x :: p, x', y', s, t, by simp [ha], by simp [hb], hlt⟩
          · exact Or.inr ⟨y', t, by simp [hb]⟩
        · rintro (⟨p, x', y', s, t, ha, hb, hlt⟩ | ⟨y', t, hb⟩)
          · cases p with
            | nil => simp at ha hb; omega
            | cons q p => simp at ha hb; exact Or.inl ⟨p, x', y', s, t, ha.2, hb.2, hlt⟩
          · simp at hb; exact Or.inr ⟨y', t, hb⟩
      · rw [if_neg h]
        constructor
        · intro hlt; exact Or.inl ⟨[], x, y, xs, ys, rfl, rfl, by omega⟩
        · rintro (⟨p, x', y', s, t, ha, hb, hlt⟩ | ⟨y', t, hb⟩)
          · cases p with
            | nil => simp at ha hb; omega
            | cons q p => simp at ha hb; omega
          · simp at hb; omega

/-- **transitivity** (of "not greater") -/
theorem cmpCps_trans (a b c : List Nat) (h1 : cmpCps a b ≤ 0) (h2 : cmpCps b c ≤ 0) : cmpCps a c ≤ 0 := by
  induction a generalizing b c with
  | nil => cases c <;> simp [cmpCps]
  | cons x xs ih =>
    cases b with
    | nil => simp [cmpCps] at h1
    | cons y ys =>
      cases c with
      | nil => simp [cmpCps] at h2
      | cons z zs =>
        simp only [cmpCps] at h1 h2 ⊢
        by_cases hxy : x = y
        · subst hxy
          rw [if_pos rfl] at h1
          by_cases hxz : x = z
          · subst hxz; rw [if_pos rfl] at h2 ⊢; exact ih ys zs h1 h2
          · rw [if_neg hxz] at h2 ⊢; exact h2
        · rw [if_neg hxy] at h1
          by_cases hyz : y = z
          · subst hyz; rw [if_neg hxy]; exact h1
          · rw [if_neg hyz] at h2
            have : ¬ x = z := by omega
            rw [if_neg this]; omega

/-- totality -/
theorem cmpCps_total (a b : List Nat) : cmpCps a b ≤ 0 ∨ cmpCps b a ≤ 0 := by
  have := cmpCps_antisymm a b
  unfold sgn at this
  split at this <;> split at this <;> (try split at this) <;> (try split at this) <;> omega

theorem sgn_zero_iff (x : Int) : sgn x = 0 ↔ x = 0 := by unfold sgn; split <;> (try split) <;> omega
theorem sgn_neg (x : Int) : sgn (-x) = - sgn x := by unfold sgn; split <;> split <;> (try split) <;> (try split) <;> omega

/-! ## `gp_str_compare` -/

/-- **the reverse flag negates** -/
theorem compare_reverse (fold collate : Bool) (loc : Loc) (a b : List Nat) :
    compare fold collate true loc a b = - compare fold collate false loc a b := by
  simp [compare]

/-- plain comparison: zero exactly for equal strings, antisymmetric -/
theorem compare_plain_zero_iff (loc : Loc) (a b : List Nat) : compare false false false loc a b = 0 ↔ a = b := by
  simp [compare, sgn_zero_iff, cmpCps_zero_iff]

theorem compare_antisymm (fold collate reverse : Bool) (loc : Loc) (a b : List Nat) :
    compare fold collate reverse loc a b = - compare fold collate reverse loc b a := by
  have key : ∀ x y : List Nat, sgn (cmpCps x y) = - sgn (cmpCps y x) := cmpCps_antisymm
  unfold compare
  cases fold <;> cases collate <;> cases reverse <;> simp only [Bool.not_true, Bool.not_false, Bool.and_true, Bool.and_false,
    Bool.true_and, Bool.false_and, Bool.false_eq_true, if_true, if_false] <;>
    first
      | exact key _ _
      | (congr 1; exact key _ _)

/-- the regenerated folding tables are Unicode's full case folding (C + F, Turkic option T) -/
theorem foldN_eq : implFoldN = Gpc.Ucd.fullFoldN := by decide +kernel
theorem foldTr_eq : implFoldTr = Gpc.Ucd.fullFoldTr := by decide +kernel

/-- **case-folding comparison is zero exactly when the foldings are equal** -/
theorem compare_fold_zero_iff (loc : Loc) (a b : List Nat) :
    compare true false false loc a b = 0 ↔ foldFull loc a = foldFull loc b := by
  simp [compare, sgn_zero_iff, cmpCps_zero_iff]

theorem fold1_eq (loc : Loc) (c : Nat) : fold1 loc c = Gpc.SpecCase.fold1 loc c := by
  cases loc <;> simp only [fold1, Gpc.SpecCase.fold1, foldN_eq, foldTr_eq, Gpc.SpecCase.simpleLower] <;>
    rw [Gpc.CaseMap.toLower_eq_ucd] <;> rfl

theorem foldFull_eq (loc : Loc) (s : List Nat) : foldFull loc s = Gpc.SpecCase.toFold loc s := by
  unfold foldFull Gpc.SpecCase.toFold
  rw [show fold1 loc = Gpc.SpecCase.fold1 loc from funext (fold1_eq loc)]

/-- **C13, case folding.**  `gp_str_compare(.., GP_CASE_FOLD, locale)` is zero exactly when the Unicode
full case foldings (with the Turkic mappings under tr / az) of the two strings are equal — for all
strings, including ones containing U+0000. -/
theorem compare_fold_zero_iff_spec (loc : Loc) (a b : List Nat) :
    compare true false false loc a b = 0 ↔ Gpc.SpecCase.toFold loc a = Gpc.SpecCase.toFold loc b := by
  rw [compare_fold_zero_iff, foldFull_eq, foldFull_eq]

/-! ## sorting -/

theorem insertBy_perm {α : Type} (le : α → α → Bool) (x : α) (l : List α) : (insertBy le x l).Perm (x :: l) := by
  induction l with
  | nil => exact List.Perm.refl _
  | cons y ys ih =>
    simp only [insertBy]
    split
    · exact List.Perm.refl _
    · exact (List.Perm.cons y ih).trans (List.Perm.swap x y ys)

/-- the result of sorting is a permutation of the input -/
theorem sortBy_perm {α : Type} (le : α → α → Bool) (l : List α) : (sortBy le l).Perm l := by
  induction l with
  | nil => exact List.Perm.refl _
  | cons x xs ih => exact (insertBy_perm le x _).trans (List.Perm.cons x ih)

theorem insertBy_sorted {α : Type} (le : α → α → Bool) (htot : ∀ a b, le a b = true ∨ le b a = true)
    (htr : ∀ a b c, le a b = true → le b c = true → le a c = true) (x : α) (l : List α)
    (h : l.Pairwise (fun a b => le a b = true)) : (insertBy le x l).Pairwise (fun a b => le a b = true) := by
  induction l with
  | nil => simp [insertBy]
  | cons y ys ih =>
    simp only [insertBy]
    rw [List.pairwise_cons] at h
    split
    · rename_i hxy
      rw [List.pairwise_cons]
      refine ⟨fun z hz => ?_, List.pairwise_cons.2 h⟩
      rcases List.mem_cons.1 hz with rfl | hz
      · exact hxy
      · exact htr _ _ _ hxy (h.1 z hz)
    · rename_i hxy
      have hyx : le y x = true := by rcases htot x y with h' | h'; exact absurd h' hxy; exact h'
      rw [List.pairwise_cons]
      refine ⟨fun z hz => ?_, ih h.2⟩
      have := (insertBy_perm le x ys).mem_iff.1 hz
      rcases List.mem_cons.1 this with rfl | hz'
      · exact hyx
      · exact h.1 z hz'

/-- with a total, transitive comparator the result is sorted -/
theorem sortBy_sorted {α : Type} (le : α → α → Bool) (htot : ∀ a b, le a b = true ∨ le b a = true)
    (htr : ∀ a b c, le a b = true → le b c = true → le a c = true) (l : List α) :
    (sortBy le l).Pairwise (fun a b => le a b = true) := by
  induction l with
  | nil => simp [sortBy]
  | cons x xs ih => exact insertBy_sorted le htot htr x _ ih

/-- **C13, the comparators handed to `qsort` are total preorders** (what `qsort` requires), for every
flag combination: comparing by the sort key, reversed or not -/
theorem comparator_total_preorder (fold collate reverse : Bool) (loc : Loc) :
    let le := fun (a b : List Nat) =>
      if reverse then decide (cmpCps (sortKey fold collate loc b) (sortKey fold collate loc a) ≤ 0)
      else decide (cmpCps (sortKey fold collate loc a) (sortKey fold collate loc b) ≤ 0)
    (∀ a b, le a b = true ∨ le b a = true) ∧ (∀ a b c, le a b = true → le b c = true → le a c = true) := by
  intro le
  constructor
  · intro a b
    cases reverse <;> simp only [le, Bool.false_eq_true, if_false, if_true, decide_eq_true_eq]
    · exact cmpCps_total _ _
    · exact (cmpCps_total _ _).symm
  · intro a b c h1 h2
    cases reverse <;> simp only [le, Bool.false_eq_true, if_false, if_true, decide_eq_true_eq] at h1 h2 ⊢
    · exact cmpCps_trans _ _ _ h1 h2
    · exact cmpCps_trans _ _ _ h2 h1

/-- **C13, sorting.**  `gp_str_sort` returns a permutation of the same strings that is non-decreasing
under the comparison the flags select (non-increasing with the reverse flag), for any number of
strings (given that `qsort` sorts with respect to a total preorder — the model sorts by insertion). -/
theorem sort_sorted_perm (fold collate reverse : Bool) (loc : Loc) (strs : List (List Nat)) :
    (sort fold collate reverse loc strs).Perm strs ∧
    (sort fold collate reverse loc strs).Pairwise (fun a b =>
      if reverse then cmpCps (sortKey fold collate loc b) (sortKey fold collate loc a) ≤ 0
      else cmpCps (sortKey fold collate loc a) (sortKey fold collate loc b) ≤ 0) := by
  obtain ⟨htot, htr⟩ := comparator_total_preorder fold collate reverse loc
  unfold sort
  refine ⟨sortBy_perm _ _, ?_⟩
  have := sortBy_sorted _ htot htr strs
  refine List.Pairwise.imp ?_ this
  intro a b h
  cases reverse <;> simpa using h

/-! ## non-vacuity -/

example : compare false false false .n [0x61, 0x62] [0x61, 0x63] = -1 ∧ compare false false true .n [0x61, 0x62] [0x61, 0x63] = 1 := by decide
-- "STRASSE" and "straße" have equal full foldings; "a\0b" and "a\0c" do not
example : compare true false false .n [0x53, 0x54, 0x52, 0x41, 0x53, 0x53, 0x45] [0x73, 0x74, 0x72, 0x61, 0xDF, 0x65] = 0 := by decide +kernel
example : compare true false false .n [0x61, 0, 0x62] [0x61, 0, 0x63] = -1 := by decide +kernel
-- Turkic folding: I folds to dotless i under tr only
example : compare true false false .tr [0x49] [0x131] = 0 ∧ compare true false false .n [0x49] [0x131] ≠ 0 := by decide +kernel
example : sort true false false .n [[0x62], [0x41], [0x61], [0x42]] = [[0x41], [0x61], [0x62], [0x42]] := by decide +kernel

end Gpc.Compare


/-! ## the byte loop of the plain comparison -/
namespace Gpc.Compare
open Gpc.Utf

def encAll (cps : List Nat) : List UInt8 := cps.flatMap encodeU8

theorem sgn_of_neg (x : Int) (h : x < 0) : sgn x = -1 := by simp [sgn, h]
theorem sgn_of_pos (x : Int) (h : 0 < x) : sgn x = 1 := by
  unfold sgn
  rw [if_neg (by omega), if_neg (by omega)]

theorem encAll_length_zero (b : List Nat) : (encAll b).length = 0 ↔ b = [] := by
  cases b with
  | nil => simp [encAll]
  | cons c cs =>
    have := Gpc.Utf.byteLen_pos c
    simp [encAll, List.length_append, Gpc.Utf.encodeU8_length]; omega

/-- the byte loop decides exactly as the code point comparison of the decoded strings -/
theorem cmpBytes_encoding (a b : List Nat) (ha : ∀ c ∈ a, c < 0x110000) (hb : ∀ c ∈ b, c < 0x110000)
    (fuel : Nat) (hf : a.length < fuel) :
    ∃ r, cmpBytes (encAll a) (encAll b) fuel = some r ∧ sgn r = sgn (cmpCps a b) := by
  induction a generalizing b fuel with
  | nil =>
    cases fuel with
    | zero => omega
    | succ f =>
      refine ⟨(((encAll ([] : List Nat)).length : Int) - ((encAll b).length : Int)), by simp [cmpBytes, encAll], ?_⟩
      cases b with
      | nil => simp [encAll, cmpCps]
      | cons d ds =>
        have := Gpc.Utf.byteLen_pos d
        have hl : 0 < (encAll (d :: ds)).length := by
          simp [encAll, List.length_append, Gpc.Utf.encodeU8_length]; omega
        have hneg : (((encAll ([] : List Nat)).length : Int) - ((encAll (d :: ds)).length : Int)) < 0 := by
          simp only [encAll, List.flatMap_nil, List.length_nil] at hl ⊢; omega
        rw [sgn_of_neg _ hneg]; rfl
  | cons c cs ih =>
    cases fuel with
    | zero => omega
    | succ f =>
      have hc := ha c (by simp)
      have hne := Gpc.Utf.encodeU8_ne_nil c
      cases b with
      | nil =>
        have := Gpc.Utf.byteLen_pos c
        have hl : 0 < (encAll (c :: cs)).length := by
          simp [encAll, List.length_append, Gpc.Utf.encodeU8_length]; omega
        have hemp : (encAll (c :: cs)).isEmpty = false := by
          cases h : encAll (c :: cs) with
          | nil => rw [h] at hl; simp at hl
          | cons _ _ => rfl
        refine ⟨(((encAll (c :: cs)).length : Int) - ((encAll ([] : List Nat)).length : Int)), by simp [cmpBytes, hemp, encAll], ?_⟩
        have hposv : 0 < (((encAll (c :: cs)).length : Int) - ((encAll ([] : List Nat)).length : Int)) := by
          simp only [encAll, List.flatMap_nil, List.length_nil] at hl ⊢; omega
        rw [sgn_of_pos _ hposv]; rfl
      | cons d ds =>
        have hd := hb d (by simp)
        have e1 : encAll (c :: cs) = encodeU8 c ++ encAll cs := by simp [encAll]
        have e2 : encAll (d :: ds) = encodeU8 d ++ encAll ds := by simp [encAll]
        have n1 : (encAll (c :: cs)).isEmpty = false := by
          rw [e1]; cases h : encodeU8 c with
          | nil => exact absurd h hne
          | cons _ _ => rfl
        have n2 : (encAll (d :: ds)).isEmpty = false := by
          rw [e2]; cases h : encodeU8 d with
          | nil => exact absurd h (Gpc.Utf.encodeU8_ne_nil d)
          | cons _ _ => rfl
        have d1 := Gpc.Utf.decode_encode c hc (encAll cs)
        have d2 := Gpc.Utf.decode_encode d hd (encAll ds)
        by_cases hcd : c = d
        · subst hcd
          have hpos : (encodeU8 c).length ≠ 0 := by
            rw [Gpc.Utf.encodeU8_length]; have := Gpc.Utf.byteLen_pos c; omega
          obtain ⟨r, hr, hs⟩ := ih ds (fun x hx => ha x (by simp [hx])) (fun x hx => hb x (by simp [hx])) f (by simp at hf; omega)
          refine ⟨r, ?_, by simpa [cmpCps] using hs⟩
          simp only [cmpBytes, n1, n2, Bool.or_self, Bool.false_eq_true, if_false]
          rw [e1, e2, d1, d2]
          simp only [ne_eq, not_true_eq_false, if_false, hpos, List.drop_left']
          exact hr
        · refine ⟨(c : Int) - (d : Int), ?_, by simp [cmpCps, hcd]⟩
          simp only [cmpBytes, n1, n2, Bool.or_self, Bool.false_eq_true, if_false]
          rw [e1, e2, d1, d2]
          simp [hcd]

/-- **C13 (plain comparison, bytes).** On well-formed UTF-8 the byte-indexed loop of `gp_str_compare` (no fold, no
collation) - which decodes at the same byte position of both operands and ends on the byte lengths - orders the
strings exactly as their code point sequences are ordered. -/
theorem plain_compare_is_codepoint_order (s1 s2 : List UInt8) (h1 : Gpc.Utf8.WellFormed s1) (h2 : Gpc.Utf8.WellFormed s2) :
    ∃ a b r, s1 = encAll a ∧ s2 = encAll b ∧ cmpBytes s1 s2 (a.length + 1) = some r ∧
      sgn r = compare false false false .n a b := by
  obtain ⟨a, ha, e1⟩ := Gpc.Utf.wellFormed_is_encoding s1 h1
  obtain ⟨b, hb, e2⟩ := Gpc.Utf.wellFormed_is_encoding s2 h2
  have ha' : ∀ c ∈ a, c < 0x110000 := fun c hc => (ha c hc).1
  have hb' : ∀ c ∈ b, c < 0x110000 := fun c hc => (hb c hc).1
  obtain ⟨r, hr, hs⟩ := cmpBytes_encoding a b ha' hb' (a.length + 1) (by omega)
  refine ⟨a, b, r, e1, e2, by rw [e1, e2]; exact hr, ?_⟩
  simp only [compare, Bool.not_false, Bool.and_self, if_true, Bool.false_eq_true, if_false]
  rw [hs]

end Gpc.Compare
