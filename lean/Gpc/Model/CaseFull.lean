import Gpc.Model.CaseMap
import Gpc.Generated.CaseFull
/-
Model of the full case mapping anchored by C12 (src/unicode.c gp_str_to_upper_full,
gp_str_to_lower_full, gp_str_capitalize) and of full case folding (gp_wcs_fold_utf8, C13), over
lists of code points.  The context-free part (the `switch` tables, the U+1F80 block arithmetic, the
i / I / U+0130 locale rules applied to a code point on its own) IS the regenerated table
`Gpc.Generated.impl*` (every single-code-point string run through the compiled functions); the
context logic (look-ahead, look-behind) is written as in the source.
-/
namespace Gpc.CaseFull
open Gpc.Generated

/-- the locales the functions distinguish -/
inductive Loc where
  | n | tr | lt
deriving Repr, DecidableEq

/-- `strncmp(locale_code, "tr"/"az"/"lt", 2)` -/
def Loc.ofCode (code : List UInt8) : Loc :=
  match code.take 2 with
  | [116, 114] => .tr
  | [97, 122] => .tr
  | [108, 116] => .lt
  | _ => .n

def inRanges (rs : List (Nat × Nat)) (c : Nat) : Bool := rs.any fun r => r.1 ≤ c && c ≤ r.2

def isSoftDotted (c : Nat) : Bool := inRanges implSoftDotted c
def isDiatrical (c : Nat) : Bool := inRanges implDiatrical c
def isLithAccent (c : Nat) : Bool := inRanges implLithAccent c
def isGreekLetter (c : Nat) : Bool := inRanges implGreekLetter c

def lookupOr (t : List (Nat × List Nat)) (c : Nat) (dflt : List Nat) : List Nat := (t.lookup c).getD dflt

/-- a code point on its own: what the `switch` / default branch appends -/
def upper1 : Loc → Nat → List Nat
  | .n, c => lookupOr implUpperN c [CaseMap.toUpper c]
  | .tr, c => lookupOr implUpperTr c [CaseMap.toUpper c]
  | .lt, c => lookupOr implUpperLt c [CaseMap.toUpper c]
def lower1 : Loc → Nat → List Nat
  | .n, c => lookupOr implLowerN c [CaseMap.toLower c]
  | .tr, c => lookupOr implLowerTr c [CaseMap.toLower c]
  | .lt, c => lookupOr implLowerLt c [CaseMap.toLower c]
def title1 : Loc → Nat → List Nat
  | .n, c => lookupOr implTitleN c [CaseMap.toTitle c]
  | .tr, c => lookupOr implTitleTr c [CaseMap.toTitle c]
  | .lt, c => lookupOr implTitleLt c [CaseMap.toTitle c]
def fold1 : Loc → Nat → List Nat
  | .tr, c => lookupOr implFoldTr c [CaseMap.toLower c]
  | _, c => lookupOr implFoldN c [CaseMap.toLower c]

/-- `gp_str_to_upper_full`: the loop over (encoding, lookahead); the look-ahead after the last code
point is the terminator (0).  `fuel` bounds the iterations (each consumes at least one code point). -/
def upperFullF (loc : Loc) : Nat → List Nat → List Nat
  | 0, _ => []
  | _, [] => []
  | fuel + 1, enc :: rest =>
    let la := rest.headD 0
    if enc = 0x345 ∧ isDiatrical la then
      -- the iota subscript moves behind the combining mark that follows it
      match rest with
      | d :: rest' => d :: upperFullF loc fuel (0x345 :: rest')
      | [] => upper1 loc enc            -- not reached: the terminator is not a combining mark
    else
      -- Lithuanian: the dot above after a soft-dotted letter is removed
      let rest' := if la = 0x307 ∧ loc = .lt ∧ isSoftDotted enc then rest.drop 1 else rest
      upper1 loc enc ++ upperFullF loc fuel rest'

def upperFull (loc : Loc) (cps : List Nat) : List Nat := upperFullF loc (cps.length + 1) cps

/-- `gp_is_greek_final(lookbehind, lookahead, rest)` -/
def greekFinal (lookbehind : Nat) (after : List Nat) : Bool :=
  if !isGreekLetter lookbehind && !isDiatrical lookbehind then false
  else !isGreekLetter ((after.dropWhile isDiatrical).headD 0)

/-- `gp_str_to_lower_full`: `lb` is the previous input code point (0 at the start) -/
def lowerFullF (loc : Loc) : Nat → Nat → List Nat → List Nat
  | 0, _, _ => []
  | _, _, [] => []
  | fuel + 1, lb, enc :: rest =>
    let la := rest.headD 0
    if enc = 0x3A3 then
      (if greekFinal lb rest then 0x3C2 else 0x3C3) :: lowerFullF loc fuel enc rest
    else if loc = .lt ∧ (enc = 0x49 ∨ enc = 0x4A ∨ enc = 0x12E) then
      (if enc = 0x49 then 0x69 else if enc = 0x4A then 0x6A else 0x12F) ::
        ((if isLithAccent la then [0x307] else []) ++ lowerFullF loc fuel enc rest)
    else if loc = .lt ∧ (enc = 0xCC ∨ enc = 0xCD ∨ enc = 0x128) then
      lower1 loc enc ++ lowerFullF loc fuel enc rest
    else if enc = 0x49 ∧ loc = .tr then
      if la = 0x307 then 0x69 :: lowerFullF loc fuel enc (rest.drop 1)      -- I + dot above: the dot is consumed
      else 0x131 :: lowerFullF loc fuel enc rest
    else lower1 loc enc ++ lowerFullF loc fuel enc rest

def lowerFull (loc : Loc) (cps : List Nat) : List Nat := lowerFullF loc (cps.length + 1) 0 cps

/-- `gp_str_capitalize` -/
def capitalize (loc : Loc) : List Nat → List Nat
  | [] => []
  | first :: rest =>
    let second := rest.headD 0
    if first = 0x345 ∧ isDiatrical second then
      -- iota subscript behind the whole sequence of combining marks, as capital iota; nothing else changes
      rest.takeWhile isDiatrical ++ [0x399] ++ rest.dropWhile isDiatrical
    else
      let rest' := if second = 0x307 ∧ loc = .lt ∧ isSoftDotted first ∧ rest ≠ [] then rest.drop 1 else rest
      title1 loc first ++ rest'

/-- `gp_wcs_fold_utf8` -/
def foldFull (loc : Loc) (cps : List Nat) : List Nat := cps.flatMap (fold1 loc)

end Gpc.CaseFull
