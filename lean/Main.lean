import Gpc.Driver.Num
import Gpc.Driver.Search
import Gpc.Driver.Utf8
import Gpc.Driver.Utf
import Gpc.Driver.Arena
import Gpc.Driver.Scope
import Gpc.Driver.Map
import Gpc.Driver.Array
import Gpc.Driver.Str
import Gpc.Driver.CaseMap
import Gpc.Driver.TestFw
import Gpc.Driver.Printf
import Gpc.Driver.CaseFull
import Gpc.Driver.FileIO
import Gpc.Driver.Generic
import Gpc.Driver.Conc
open Gpc.Proto

/-- state of the stateful models (one operation script at a time) -/
structure St where
  arena : Gpc.Driver.ArenaSt := {}
  scopes : List (Nat × Gpc.Driver.ScopeSt) := []
  map : Gpc.Driver.MapSt := {}
  arr : Gpc.Driver.ArrSt := {}
  str : Gpc.Driver.StrSt := {}

def dispatch (st : St) (toks : List String) : St × String :=
  match toks with
  | "num" :: rest => (st, Gpc.Driver.num rest)
  | "srch" :: rest => (st, Gpc.Driver.srch rest)
  | "u8" :: rest => (st, Gpc.Driver.u8 rest)
  | "utf" :: rest => (st, Gpc.Driver.utf rest)
  | "ar" :: rest => let (a, o) := Gpc.Driver.arenaStep st.arena rest; ({ st with arena := a }, o)
  | "sc" :: rest => let (a, o) := Gpc.Driver.scopeStep st.scopes rest; ({ st with scopes := a }, o)
  | "map" :: rest => let (a, o) := Gpc.Driver.mapStep st.map rest; ({ st with map := a }, o)
  | "arr" :: rest => let (a, o) := Gpc.Driver.arrStep st.arr rest; ({ st with arr := a }, o)
  | "tf" :: rest => (st, Gpc.Driver.tfStep rest)
  | "pf" :: rest => (st, Gpc.Driver.pfStep rest)
  | "cf" :: rest => (st, Gpc.Driver.cfStep rest)
  | "fio" :: rest => (st, Gpc.Driver.fioStep rest)
  | "gm" :: rest => (st, Gpc.Driver.gmStep rest)
  | "cc" :: rest => (st, Gpc.Driver.ccStep rest)
  | "case" :: rest => (st, Gpc.Driver.caseStep rest)
  | "str" :: rest => let (a, o) := Gpc.Driver.strStep st.str rest; ({ st with str := a }, o)
  | _ => (st, "bad-op")

partial def loop (h : IO.FS.Stream) (out : IO.FS.Stream) (st : St) : IO Unit := do
  let line ← h.getLine
  if line.isEmpty then return ()
  let (st', o) := dispatch st (tokens line)
  out.putStrLn o
  loop h out st'

def main : IO Unit := do
  let i ← IO.getStdin
  let o ← IO.getStdout
  loop i o {}
