"""C14 T-gen: the synchronisation skeletons of the shared facilities, extracted from /repo's current sources.

For gp_locale (src/unicode.c), gp_arena_shared_alloc (src/memory.c) and the test counters (src/assert.c) the
preprocessed function bodies (pthread configuration, the one the race detector understands) are parsed into
statements / if-else / return, every control path is enumerated, and each path becomes a list of `Gpc.Conc.Act`:

  gp_mutex_lock(&gp_locale_table_mutex) -> lock 0        gp_mutex_lock(<mutex behind the arena>) -> lock 1
  gp_thread_once(..)                    -> once 0
  locale = gp_map_get(gp_locale_table,..) -> getHit 0 / getMiss 0, decided by the branch on `locale` that the path takes
  gp_map_put(gp_locale_table, ..)       -> put 0          newlocale / _create_locale -> loc
  gp_arena_alloc(..)                    -> read 1, write 1  (the bump allocator reads and updates the arena)
  an access to gp_test_count / gp_suite_count / gp_tests_failed / gp_suites_failed -> rmw 2..5 if the object is
  declared _Atomic in this configuration, else write 2..5

The result is written to lean/Gpc/Generated/Conc.lean; the theorems of Props/C14.lean are about exactly these lists."""
import os, re, subprocess, sys

REPO = "/repo"
ROOT = os.path.dirname(os.path.dirname(os.path.abspath(__file__)))
PP = ["gcc", "-E", "-P", "-std=gnu11", "-D__STDC_NO_THREADS__", "-include", "pthread.h", "-D_GNU_SOURCE",
      "-I" + REPO + "/include", "-I" + REPO + "/src"]
COUNTERS = {"gp_test_count": 2, "gp_suite_count": 3, "gp_tests_failed": 4, "gp_suites_failed": 5}


class Unsupported(Exception):
    pass


def preprocess(path):
    p = subprocess.run(PP + [path], capture_output=True, text=True)
    if p.returncode: raise Unsupported("cannot preprocess %s: %s" % (path, p.stderr[-300:]))
    return p.stdout


def body_of(text, signature_regex):
    m = re.search(signature_regex + r"\s*\{", text)
    if not m: raise Unsupported("function not found: " + signature_regex)
    i = m.end() - 1; depth = 0
    for j in range(i, len(text)):
        if text[j] == "{": depth += 1
        elif text[j] == "}":
            depth -= 1
            if depth == 0: return text[i + 1:j]
    raise Unsupported("unbalanced braces after " + signature_regex)


# ---------------------------------------------------------------------------------------- a tiny statement parser
def skip_ws(s, i):
    while i < len(s) and s[i].isspace(): i += 1
    return i


def match_paren(s, i):
    assert s[i] == "("
    d = 0
    for j in range(i, len(s)):
        if s[j] == "(": d += 1
        elif s[j] == ")":
            d -= 1
            if d == 0: return j
    raise Unsupported("unbalanced parenthesis")


def parse_stmt(s, i):
    """-> (node, next index).  node: ('seq', [nodes]) | ('if', cond, then, else) | ('ret', text) | ('stmt', text)"""
    i = skip_ws(s, i)
    if s[i] == "{":
        nodes = []; i += 1
        while True:
            i = skip_ws(s, i)
            if s[i] == "}": return ("seq", nodes), i + 1
            n, i = parse_stmt(s, i); nodes.append(n)
    m = re.match(r"(if|for|while|switch|do|goto)\b", s[i:])
    if m and m.group(1) != "if": raise Unsupported("control construct '%s' in a function whose paths are enumerated" % m.group(1))
    if m:
        j = skip_ws(s, i + 2); k = match_paren(s, j)
        cond = s[j + 1:k]
        then, i2 = parse_stmt(s, k + 1)
        i3 = skip_ws(s, i2)
        els = None
        if re.match(r"else\b", s[i3:]):
            els, i2 = parse_stmt(s, i3 + 4)
        return ("if", cond, then, els), i2
    # simple statement up to ';' at depth 0 (initialisers in braces allowed)
    d = 0
    for j in range(i, len(s)):
        c = s[j]
        if c in "({[": d += 1
        elif c in ")}]": d -= 1
        elif c == ";" and d == 0:
            t = s[i:j].strip()
            return (("ret", t) if re.match(r"return\b", t) else ("stmt", t)), j + 1
    raise Unsupported("statement without end: " + s[i:i + 60])


def parse_body(body):
    n, _ = parse_stmt("{" + body + "}", 0)
    return n


# ---------------------------------------------------------------------------------------- events of gp_locale
def mutex_id(arg):
    if "gp_locale_table_mutex" in arg: return 0
    if "allocator" in arg or "GPArena" in arg: return 1
    return 9


EV = re.compile(r"(gp_mutex_lock|gp_mutex_unlock|gp_thread_once|gp_map_get|gp_map_put|newlocale|_create_locale|gp_arena_alloc)\s*\(")


def events_of(text, st):
    """events of one simple statement / condition, in textual order; st = symbolic state of the variable `locale`"""
    out = []
    for m in EV.finditer(text):
        name = m.group(1)
        k = match_paren(text, m.end() - 1); arg = text[m.end():k]
        if name == "gp_mutex_lock": out.append("lock %d" % mutex_id(arg))
        elif name == "gp_mutex_unlock": out.append("unlock %d" % mutex_id(arg))
        elif name == "gp_thread_once": out.append("once 0")
        elif name == "gp_map_get":
            if "gp_locale_table" not in arg: raise Unsupported("gp_map_get on an unknown table")
            assigned = re.search(r"\blocale\s*=\s*(\([^()]*\)\s*)*$", text[:m.start()]) is not None
            out.append("GET")          # resolved by the branch the path takes
            st["locale"] = "pending" if assigned else "unobserved"
            if not assigned: out[-1] = "read 0"
        elif name == "gp_map_put":
            if "gp_locale_table" not in arg: raise Unsupported("gp_map_put on an unknown table")
            out.append("put 0")
        elif name in ("newlocale", "_create_locale"):
            out.append("loc"); st["locale"] = "created"
        elif name == "gp_arena_alloc": out += ["read 1", "write 1"]
    return out


def cond_outcomes(cond, st):
    """-> list of (taken?, resolved state or None).  Only tests of `locale` against (GPLocale)0 are interpreted."""
    c = re.sub(r"\s+", "", cond)
    m = re.fullmatch(r"locale(==|!=)\(GPLocale\)0", c)
    if not m: return [(True, None), (False, None)]
    eq = m.group(1) == "=="
    s = st.get("locale")
    if s == "pending": return [(True, "miss" if eq else "hit"), (False, "hit" if eq else "miss")]
    if s == "hit": return [(not eq, None)]
    if s == "miss": return [(eq, None)]
    return [(True, None), (False, None)]


def resolve(evs, outcome):
    """replace the last unresolved GET"""
    for i in range(len(evs) - 1, -1, -1):
        if evs[i] == "GET":
            evs = list(evs); evs[i] = "getHit 0" if outcome == "hit" else "getMiss 0"; return evs
    return evs


def paths(node, evs, st, cont):
    """enumerate paths through `node`; cont(evs, st) continues after it; returns list of finished event lists"""
    kind = node[0]
    if kind == "seq":
        def run(i, evs, st):
            if i == len(node[1]): return cont(evs, st)
            return paths(node[1][i], evs, st, lambda e, s: run(i + 1, e, s))
        return run(0, evs, st)
    if kind == "stmt":
        st = dict(st); return cont(evs + events_of(node[1], st), st)
    if kind == "ret":
        st = dict(st); return [evs + events_of(node[1], st)]
    if kind == "if":
        st = dict(st); evs = evs + events_of(node[1], st)
        res = []
        for taken, newst in cond_outcomes(node[1], st):
            s2 = dict(st); e2 = evs
            if newst: s2["locale"] = newst; e2 = resolve(evs, newst)
            if taken: res += paths(node[2], e2, s2, cont)
            elif node[3] is not None: res += paths(node[3], e2, s2, cont)
            else: res += cont(e2, s2)
        return res
    raise Unsupported(kind)


def finish(evs):
    return ["read 0" if e == "GET" else e for e in evs]


def uniq(ps):
    out = []
    for p in ps:
        p = finish(p)
        if p not in out: out.append(p)
    return out


def extract():
    info = {}
    uni = preprocess(os.path.join(REPO, "src", "unicode.c"))
    loc_body = body_of(uni, r"GPLocale\s+gp_locale\s*\(\s*const\s+char\s*\*\s*locale_code\s*\)")
    locale_paths = uniq(paths(parse_body(loc_body), [], {}, lambda e, s: [e]))
    locale_paths = [p for p in locale_paths if p]           # the NULL / "" early returns touch nothing shared
    mem = preprocess(os.path.join(REPO, "src", "memory.c"))
    sa_body = body_of(mem, r"static\s+void\s*\*\s*gp_arena_shared_alloc\s*\([^)]*\)")
    alloc_paths = uniq(paths(parse_body(sa_body), [], {}, lambda e, s: [e]))
    ass = preprocess(os.path.join(REPO, "src", "assert.c"))
    counter_paths = []
    atomic = {}
    for name, v in COUNTERS.items():
        m = re.search(r"static\s+([^;=]*?)\b%s\s*=" % name, ass)
        if not m: raise Unsupported("declaration of %s not found" % name)
        atomic[name] = "_Atomic" in m.group(1)
    for fn in (r"void\s+gp_end_testing\s*\(\s*void\s*\)", r"void\s+gp_test\s*\(\s*const\s+char\s*\*\s*\w*\s*\)", r"void\s+gp_suite\s*\(\s*const\s+char\s*\*\s*\w*\s*\)"):
        try: b = body_of(ass, fn)
        except Unsupported: continue
        p = []
        for m in re.finditer(r"\b(gp_test_count|gp_suite_count|gp_tests_failed|gp_suites_failed)\b", b):
            p.append(("rmw %d" if atomic[m.group(1)] else "write %d") % COUNTERS[m.group(1)])
        if p: counter_paths.append(p)
    info["atomic_counters"] = atomic
    return locale_paths, alloc_paths, counter_paths, info


def lean_list(ps):
    return "[" + ",\n   ".join("[" + ", ".join("." + e for e in p) + "]" for p in ps) + "]"


def write_generated(note=None):
    """-> (changed?, info).  On an unsupported construct the file says so and the theorems about it fail."""
    path = os.path.join(ROOT, "lean", "Gpc", "Generated", "Conc.lean")
    try:
        lp, ap, cp, info = extract()
        problem = None
    except Unsupported as e:
        lp, ap, cp, info, problem = [["read 0"]], [["read 1"]], [["write 2"]], {}, str(e)
    txt = ("import Gpc.Model.Conc\n/-! GENERATED by tools/gen_c14.py from /repo/src/unicode.c (gp_locale), src/memory.c (gp_arena_shared_alloc) and\n"
           "src/assert.c (test counters) - do not edit.  One list per control path. -/\nnamespace Gpc.Generated.Conc\nopen Gpc.Conc Gpc.Conc.Act\n\n"
           + ("-- TRANSLATION FAILED: %s\n" % problem if problem else "")
           + "def localePaths : List (List Act) :=\n  %s\n\n" % lean_list(lp)
           + "def sharedAllocPaths : List (List Act) :=\n  %s\n\n" % lean_list(ap)
           + "def counterPaths : List (List Act) :=\n  %s\n\n" % lean_list(cp)
           + "end Gpc.Generated.Conc\n")
    old = open(path).read() if os.path.exists(path) else None
    if old != txt:
        os.makedirs(os.path.dirname(path), exist_ok=True)
        open(path, "w").write(txt)
    info.update({"locale_paths": lp, "shared_alloc_paths": ap, "counter_paths": cp, "problem": problem})
    return old != txt, info


if __name__ == "__main__":
    ch, info = write_generated()
    print("changed" if ch else "unchanged")
    for k, v in info.items(): print(k, v)
