import Gpc.Spec.CaseFull
import Gpc.Props.C11
/-!
# C12 — full case mapping follows SpecialCasing incl. Turkic/Lithuanian and final sigma

`Gpc.CaseFull` models gp_str_to_upper_full / gp_str_to_lower_full / gp_str_capitalize; its per-code-point
tables are regenerated on every run from the compiled code.  `Gpc.SpecCase` is the Unicode default
full case conversion over the vendored character database.
-/
namespace Gpc.CaseFull
open Gpc.Generated

/-! ## every single code point: the regenerated tables are the Unicode tables -/

theorem upperN_eq : implUpperN = Gpc.Ucd.fullUpperN := by decide +kernel
theorem upperTr_eq : implUpperTr = Gpc.Ucd.fullUpperTr := by decide +kernel
theorem upperLt_eq : implUpperLt = Gpc.Ucd.fullUpperLt := by decide +kernel
theorem lowerN_eq : implLowerN = Gpc.Ucd.fullLowerN := by decide +kernel
theorem lowerTr_eq : implLowerTr = Gpc.Ucd.fullLowerTr := by decide +kernel
theorem lowerLt_eq : implLowerLt = Gpc.Ucd.fullLowerLt := by decide +kernel
theorem titleN_eq : implTitleN = Gpc.Ucd.fullTitleN := by decide +kernel
theorem titleTr_eq : implTitleTr = Gpc.Ucd.fullTitleTr := by decide +kernel
theorem titleLt_eq : implTitleLt = Gpc.Ucd.fullTitleLt := by decide +kernel

/-- **C12, single code points.**  For every code point and each of the locales the functions
distinguish, the full upper / lower / title mapping the library applies to a code point on its own
is the Unicode full mapping (multi-character expansions of SpecialCasing, dotted / dotless i for
Turkish and Azeri, the Lithuanian accented capitals). -/
theorem upper1_eq (loc : Loc) (c : Nat) : upper1 loc c = Gpc.SpecCase.upper1 loc c := by
  cases loc <;> simp only [upper1, Gpc.SpecCase.upper1, upperN_eq, upperTr_eq, upperLt_eq, Gpc.SpecCase.simpleUpper] <;>
    rw [Gpc.CaseMap.toUpper_eq_ucd] <;> rfl
theorem lower1_eq (loc : Loc) (c : Nat) : lower1 loc c = Gpc.SpecCase.lower1 loc c := by
  cases loc <;> simp only [lower1, Gpc.SpecCase.lower1, lowerN_eq, lowerTr_eq, lowerLt_eq, Gpc.SpecCase.simpleLower] <;>
    rw [Gpc.CaseMap.toLower_eq_ucd] <;> rfl
theorem title1_eq (loc : Loc) (c : Nat) : title1 loc c = Gpc.SpecCase.title1 loc c := by
  cases loc <;> simp only [title1, Gpc.SpecCase.title1, titleN_eq, titleTr_eq, titleLt_eq, Gpc.SpecCase.simpleTitle] <;>
    rw [Gpc.CaseMap.toTitle_eq_ucd] <;> rfl

/-! ## strings without context-sensitive code points -/

/-- no code point of `cps` is subject to a context rule of upper-casing: U+0345 (the library's
reordering) and, for Lithuanian, U+0307 -/
def UpperPlain (loc : Loc) (cps : List Nat) : Prop := ∀ c ∈ cps, c ≠ 0x345 ∧ (loc = .lt → c ≠ 0x307)

/-- ... of lower-casing: capital sigma; Lithuanian I, J, I-ogonek; Turkish/Azeri I and U+0307 -/
def LowerPlain (loc : Loc) (cps : List Nat) : Prop :=
  ∀ c ∈ cps, c ≠ 0x3A3 ∧ (loc = .lt → c ≠ 0x49 ∧ c ≠ 0x4A ∧ c ≠ 0x12E) ∧ (loc = .tr → c ≠ 0x49 ∧ c ≠ 0x307)

theorem upperFullF_plain (loc : Loc) : ∀ (fuel : Nat) (cps : List Nat), cps.length < fuel → UpperPlain loc cps →
    upperFullF loc fuel cps = cps.flatMap (upper1 loc) := by
  intro fuel
  induction fuel with
  | zero => intro cps h; omega
  | succ f ih =>
    intro cps hl hp
    cases cps with
    | nil => simp [upperFullF]
    | cons enc rest =>
      have he := hp enc (by simp)
      have hrest : UpperPlain loc rest := fun c hc => hp c (by simp [hc])
      simp only [upperFullF]
      rw [if_neg (by intro h; exact he.1 h.1)]
      have hla : ¬ (rest.headD 0 = 0x307 ∧ loc = .lt ∧ isSoftDotted enc = true) := by
        intro h
        cases rest with
        | nil => simp at h
        | cons d r => exact (hp d (by simp)).2 h.2.1 (by simpa using h.1)
      rw [if_neg hla, ih rest (by simp at hl; omega) hrest]
      simp

/-- **C12, upper-casing without context rules**: each code point is replaced by its Unicode full
uppercase mapping — any length, any number of expanding code points, every locale. -/
theorem upper_plain (loc : Loc) (cps : List Nat) (h : UpperPlain loc cps) :
    upperFull loc cps = cps.flatMap (Gpc.SpecCase.upper1 loc) ∧
    Gpc.SpecCase.toUpper loc cps = cps.flatMap (Gpc.SpecCase.upper1 loc) := by
  constructor
  · unfold upperFull
    rw [upperFullF_plain loc _ cps (by omega) h]
    rw [show upper1 loc = Gpc.SpecCase.upper1 loc from funext (upper1_eq loc)]
  · unfold Gpc.SpecCase.toUpper
    suffices ∀ before, Gpc.SpecCase.upperAux loc before cps = cps.flatMap (Gpc.SpecCase.upper1 loc) from this []
    induction cps with
    | nil => intro before; simp [Gpc.SpecCase.upperAux]
    | cons c rest ih =>
      intro before
      have hc := h c (by simp)
      simp only [Gpc.SpecCase.upperAux]
      rw [if_neg (by intro hh; exact hc.2 hh.1 hh.2.1), ih (fun x hx => h x (by simp [hx]))]
      simp

theorem lowerFullF_plain (loc : Loc) : ∀ (fuel lb : Nat) (cps : List Nat), cps.length < fuel → LowerPlain loc cps →
    lowerFullF loc fuel lb cps = cps.flatMap (lower1 loc) := by
  intro fuel
  induction fuel with
  | zero => intro lb cps h; omega
  | succ f ih =>
    intro lb cps hl hp
    cases cps with
    | nil => simp [lowerFullF]
    | cons enc rest =>
      have he := hp enc (by simp)
      have hrest : LowerPlain loc rest := fun c hc => hp c (by simp [hc])
      simp only [lowerFullF]
      rw [if_neg he.1]
      rw [if_neg (by intro h; have := he.2.1 h.1; rcases h.2 with h2 | h2 | h2 <;> simp_all)]
      have hrec := ih enc rest (by simp at hl; omega) hrest
      by_cases h3 : loc = .lt ∧ (enc = 0xCC ∨ enc = 0xCD ∨ enc = 0x128)
      · rw [if_pos h3, hrec]; simp
      · rw [if_neg h3, if_neg (by intro h; exact (he.2.2 h.2).1 h.1), hrec]; simp

/-- **C12, lower-casing without context rules.** -/
theorem lower_plain (loc : Loc) (cps : List Nat) (h : LowerPlain loc cps) :
    lowerFull loc cps = cps.flatMap (Gpc.SpecCase.lower1 loc) ∧
    Gpc.SpecCase.toLower loc cps = cps.flatMap (Gpc.SpecCase.lower1 loc) := by
  constructor
  · unfold lowerFull
    rw [lowerFullF_plain loc _ 0 cps (by omega) h]
    rw [show lower1 loc = Gpc.SpecCase.lower1 loc from funext (lower1_eq loc)]
  · unfold Gpc.SpecCase.toLower
    suffices ∀ before, Gpc.SpecCase.lowerAux loc before cps = cps.flatMap (Gpc.SpecCase.lower1 loc) from this []
    induction cps with
    | nil => intro before; simp [Gpc.SpecCase.lowerAux]
    | cons c rest ih =>
      intro before
      have hc := h c (by simp)
      simp only [Gpc.SpecCase.lowerAux]
      rw [if_neg hc.1]
      rw [if_neg (by intro hh; have := hc.2.1 hh.1; rcases hh.2.1 with h2 | h2 | h2 <;> simp_all)]
      rw [if_neg (by intro hh; exact (hc.2.2 hh.1).2 hh.2.1)]
      rw [if_neg (by intro hh; exact (hc.2.2 hh.1).1 hh.2.1)]
      rw [if_neg (by intro hh; exact (hc.2.2 hh.1).1 hh.2)]
      rw [ih (fun x hx => h x (by simp [hx]))]
      simp

/-! ## final sigma in ordinary words -/

/-- the text is made of letters on which the library's letter test agrees with Unicode's Cased
property (Greek and Latin letters do), and of characters that are neither case-ignorable nor
combining marks (spaces, digits, ordinary punctuation): "ordinary words" -/
def OrdinaryWords (loc : Loc) (cps : List Nat) : Prop :=
  ∀ c ∈ cps, isGreekLetter c = Gpc.SpecCase.cased c ∧ Gpc.SpecCase.caseIgnorable c = false ∧ isDiatrical c = false ∧
    (loc = .lt → c ≠ 0x49 ∧ c ≠ 0x4A ∧ c ≠ 0x12E) ∧ (loc = .tr → c ≠ 0x49 ∧ c ≠ 0x307)

theorem greek0 : isGreekLetter 0 = false := by decide +kernel

theorem nextCased_plain (l : List Nat) (h : ∀ c ∈ l, isGreekLetter c = Gpc.SpecCase.cased c ∧ Gpc.SpecCase.caseIgnorable c = false) :
    Gpc.SpecCase.nextCased l = isGreekLetter (l.headD 0) := by
  cases l with
  | nil => simp [Gpc.SpecCase.nextCased, greek0]
  | cons c t =>
    have := h c (by simp)
    simp [Gpc.SpecCase.nextCased, List.dropWhile, this.2, this.1]

theorem dropWhile_diat_plain (l : List Nat) (h : ∀ c ∈ l, isDiatrical c = false) : l.dropWhile isDiatrical = l := by
  cases l with
  | nil => rfl
  | cons c t => simp [List.dropWhile, h c (by simp)]

theorem lowerFullF_words (loc : Loc) : ∀ (fuel : Nat) (before cps : List Nat), cps.length < fuel →
    OrdinaryWords loc cps → OrdinaryWords loc before →
    lowerFullF loc fuel (before.headD 0) cps = Gpc.SpecCase.lowerAux loc before cps := by
  intro fuel
  induction fuel with
  | zero => intro b cps h; omega
  | succ f ih =>
    intro before cps hl hp hb
    cases cps with
    | nil => simp [lowerFullF, Gpc.SpecCase.lowerAux]
    | cons enc rest =>
      have he := hp enc (by simp)
      have hrest : OrdinaryWords loc rest := fun c hc => hp c (by simp [hc])
      have hb' : OrdinaryWords loc (enc :: before) := by
        intro c hc; simp at hc; rcases hc with hc | hc
        · subst hc; exact he
        · exact hb c hc
      have hrec := ih (enc :: before) rest (by simp at hl; omega) hrest hb'
      simp only [List.headD_cons] at hrec
      by_cases hs : enc = 0x3A3
      · have h1 : greekFinal (before.headD 0) rest = Gpc.SpecCase.finalSigma before rest := by
          unfold greekFinal Gpc.SpecCase.finalSigma
          rw [nextCased_plain before (fun c hc => ⟨(hb c hc).1, (hb c hc).2.1⟩),
              nextCased_plain rest (fun c hc => ⟨(hrest c hc).1, (hrest c hc).2.1⟩),
              dropWhile_diat_plain rest (fun c hc => (hrest c hc).2.2.1)]
          have hd : isDiatrical (before.headD 0) = false := by
            cases before with
            | nil => decide +kernel
            | cons c t => exact (hb c (by simp)).2.2.1
          cases hg : isGreekLetter (before.headD 0) <;> rw [hd] <;> simp
        have L : lowerFullF loc (f + 1) (before.headD 0) (enc :: rest) =
            (if greekFinal (before.headD 0) rest then 0x3C2 else 0x3C3) :: lowerFullF loc f enc rest := by
          simp only [lowerFullF]; rw [if_pos hs]
        have R : Gpc.SpecCase.lowerAux loc before (enc :: rest) =
            [if Gpc.SpecCase.finalSigma before rest then 0x3C2 else 0x3C3] ++ Gpc.SpecCase.lowerAux loc (enc :: before) rest := by
          simp only [Gpc.SpecCase.lowerAux]; rw [if_pos hs]
        rw [L, R, hrec, h1]; rfl
      · have hlt : ¬ (loc = .lt ∧ (enc = 0x49 ∨ enc = 0x4A ∨ enc = 0x12E)) := by
          intro h; have := he.2.2.2.1 h.1; rcases h.2 with h2 | h2 | h2 <;> simp_all
        have htr : ¬ (enc = 0x49 ∧ loc = .tr) := fun h => (he.2.2.2.2 h.2).1 h.1
        have L : lowerFullF loc (f + 1) (before.headD 0) (enc :: rest) = lower1 loc enc ++ lowerFullF loc f enc rest := by
          simp only [lowerFullF]; rw [if_neg hs, if_neg hlt]
          by_cases h3 : loc = .lt ∧ (enc = 0xCC ∨ enc = 0xCD ∨ enc = 0x128)
          · rw [if_pos h3]
          · rw [if_neg h3, if_neg htr]
        have R : Gpc.SpecCase.lowerAux loc before (enc :: rest) =
            Gpc.SpecCase.lower1 loc enc ++ Gpc.SpecCase.lowerAux loc (enc :: before) rest := by
          simp only [Gpc.SpecCase.lowerAux]
          rw [if_neg hs, if_neg (fun h => hlt ⟨h.1, h.2.1⟩), if_neg (fun h => (he.2.2.2.2 h.1).2 h.2.1),
            if_neg (fun h => (he.2.2.2.2 h.1).1 h.2.1), if_neg (fun h => (he.2.2.2.2 h.1).1 h.2)]
        rw [L, R, hrec, lower1_eq]

/-- **C12, final sigma.**  In ordinary words (see `OrdinaryWords`), of any length and in every
locale, lower-casing is the Unicode default conversion: capital sigma becomes final sigma exactly
when a letter precedes it and no letter follows it. -/
theorem lower_ordinary_words (loc : Loc) (cps : List Nat) (h : OrdinaryWords loc cps) :
    lowerFull loc cps = Gpc.SpecCase.toLower loc cps := by
  unfold lowerFull Gpc.SpecCase.toLower
  have := lowerFullF_words loc (cps.length + 1) [] cps (by omega) h (fun c hc => by simp at hc)
  simpa using this

/-! ## capitalisation -/

/-- **C12, capitalisation touches only the first code point**: the result is a new head followed by
a suffix of the original tail; the tail loses nothing, except the combining marks the rules attach
to the first letter (the Lithuanian dot above; the marks an iota subscript steps over, which are kept
in front). -/
theorem capitalize_only_first (loc : Loc) (first : Nat) (rest : List Nat) :
    ∃ pre suf, capitalize loc (first :: rest) = pre ++ suf ∧ suf <:+ rest ∧
      (first ≠ 0x345 → rest.length ≤ suf.length + 1) := by
  unfold capitalize
  simp only
  split
  · rename_i h
    refine ⟨rest.takeWhile isDiatrical ++ [0x399], rest.dropWhile isDiatrical, by simp, List.dropWhile_suffix _, fun hne => absurd h.1 hne⟩
  · split
    · exact ⟨title1 loc first, rest.drop 1, rfl, List.drop_suffix _ _, fun _ => by simp; omega⟩
    · exact ⟨title1 loc first, rest, rfl, List.suffix_refl _, fun _ => by omega⟩

/-- ... and is the Unicode titlecase mapping of that code point, whenever the first code point is not
an iota subscript in front of a combining mark -/
theorem capitalize_eq_spec (loc : Loc) (first : Nat) (rest : List Nat)
    (h1 : ¬ (first = 0x345 ∧ isDiatrical (rest.headD 0) = true))
    (h2 : loc = .lt → rest.head? = some 0x307 → isSoftDotted first = Gpc.SpecCase.softDotted first) :
    capitalize loc (first :: rest) = Gpc.SpecCase.capitalize loc (first :: rest) := by
  unfold capitalize Gpc.SpecCase.capitalize
  simp only
  rw [if_neg h1, title1_eq]
  cases rest with
  | nil => simp
  | cons d r =>
    simp only [List.headD_cons, List.drop_succ_cons, List.drop_zero, ne_eq, reduceCtorEq, not_false_eq_true, and_true]
    by_cases hc : d = 0x307 ∧ loc = .lt
    · have := h2 hc.2 (by simp [hc.1])
      simp [hc.1, hc.2, this]
    · congr 1
      by_cases hd : d = 0x307 <;> by_cases hl : loc = .lt <;> simp_all

/-! ## results are scalar values (so their UTF-8 encoding is valid) -/

def scalarB (c : Nat) : Bool := c < 0x110000 && !(0xD800 ≤ c && c ≤ 0xDFFF)

theorem tables_scalar :
    (implUpperN ++ implUpperTr ++ implUpperLt ++ implLowerN ++ implLowerTr ++ implLowerLt ++
      implTitleN ++ implTitleTr ++ implTitleLt).all (fun p => p.2.all scalarB) = true := by decide +kernel

theorem lookup_scalar (t : List (Nat × List Nat)) (h : t.all (fun p => p.2.all scalarB) = true) (c : Nat) (v : List Nat)
    (hv : t.lookup c = some v) : v.all scalarB = true := by
  induction t with
  | nil => simp at hv
  | cons p t ih =>
    simp only [List.all_cons, Bool.and_eq_true] at h
    simp only [List.lookup] at hv
    split at hv
    · cases hv; exact h.1
    · exact ih h.2 hv

theorem scalarB_iff (c : Nat) : scalarB c = true ↔ Gpc.Utf.IsScalar c := by
  unfold scalarB Gpc.Utf.IsScalar; simp; omega

/-- the full mapping of a scalar value consists of scalar values -/
theorem upper1_scalar (loc : Loc) (c : Nat) (hc : Gpc.Utf.IsScalar c) : (upper1 loc c).all scalarB = true := by
  have ht := tables_scalar
  simp only [List.all_append, Bool.and_eq_true] at ht
  have hs : scalarB (Gpc.CaseMap.toUpper c) = true := (scalarB_iff _).2 (Gpc.CaseMap.maps_scalar_to_scalar c hc).1
  cases loc <;> simp only [upper1, lookupOr]
  · cases h : implUpperN.lookup c with
    | none => simp [hs]
    | some v => simpa using lookup_scalar _ ht.1.1.1.1.1.1.1.1 c v h
  · cases h : implUpperTr.lookup c with
    | none => simp [hs]
    | some v => simpa using lookup_scalar _ ht.1.1.1.1.1.1.1.2 c v h
  · cases h : implUpperLt.lookup c with
    | none => simp [hs]
    | some v => simpa using lookup_scalar _ ht.1.1.1.1.1.1.2 c v h

/-! ## non-vacuity and concrete readings -/

-- Greek and Latin letters, digits, space and ordinary punctuation form "ordinary words"
theorem greek_latin_alphabet_ordinary :
    ((List.range 26).map (· + 0x41) ++ (List.range 26).map (· + 0x61) ++ (List.range 17).map (· + 0x391) ++
      (List.range 7).map (· + 0x3A3) ++ (List.range 25).map (· + 0x3B1) ++ [0x20, 0x2C, 0x21, 0x3F, 0x30, 0x39, 0x386, 0x3AC, 0x3CC]).all
      (fun c => isGreekLetter c == Gpc.SpecCase.cased c && !Gpc.SpecCase.caseIgnorable c && !isDiatrical c) = true := by
  decide +kernel

-- "ΟΔΥΣΣΕΥΣ ΣΟΦΟΣ" -> "οδυσσευς σοφος": final sigma exactly at the ends of the words
example : lowerFull .n [0x39F, 0x394, 0x3A5, 0x3A3, 0x3A3, 0x395, 0x3A5, 0x3A3, 0x20, 0x3A3, 0x39F, 0x3A6, 0x39F, 0x3A3] =
    [0x3BF, 0x3B4, 0x3C5, 0x3C3, 0x3C3, 0x3B5, 0x3C5, 0x3C2, 0x20, 0x3C3, 0x3BF, 0x3C6, 0x3BF, 0x3C2] := by decide +kernel
-- sharp s expands, any number of times; Turkish dotted / dotless i; Lithuanian dot
example : upperFull .n [0xDF, 0xDF, 0x61] = [0x53, 0x53, 0x53, 0x53, 0x41] := by decide +kernel
example : upperFull .tr [0x69, 0x131] = [0x130, 0x49] ∧ lowerFull .tr [0x49, 0x130] = [0x131, 0x69] := by decide +kernel
example : lowerFull .lt [0xCC] = [0x69, 0x307, 0x300] ∧ upperFull .lt [0x69, 0x307] = [0x49] := by decide +kernel
example : capitalize .n [0xFB01, 0x61] = [0x46, 0x69, 0x61] := by decide +kernel
-- the recorded deviations, as the model (and the implementation) compute them
example : lowerFull .n [0xFB03, 0x3A3] = [0xFB03, 0x3C3] ∧ Gpc.SpecCase.toLower .n [0xFB03, 0x3A3] = [0xFB03, 0x3C2] := by decide +kernel
example : upperFull .n [0x345, 0x307] = [0x307, 0x399] ∧ Gpc.SpecCase.toUpper .n [0x345, 0x307] = [0x399, 0x307] := by decide +kernel
example : lowerFull .lt [0x49, 0x301] = [0x69, 0x301] ∧ Gpc.SpecCase.toLower .lt [0x49, 0x301] = [0x69, 0x307, 0x301] := by decide +kernel

end Gpc.CaseFull
