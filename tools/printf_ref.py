"""Exact reference for C11 7.21.6.1 formatted output (the third voice of C09/C10): integers by Python ints,
floating point from the IEEE-754 bit pattern by exact integer arithmetic (round-half-even on the exact
value).  Independent of glibc and of the Lean spec; used to arbitrate when glibc and the library differ."""
import re

SPEC_RE = re.compile(rb'%([-+ #0]*)(\*|[1-9][0-9]*)?(?:\.(\*|[0-9]*))?(hh|h|ll|l|j|z|t|L|B|W|D|Q)?(.)', re.S)

LEN_BITS = {None: 32, "hh": 8, "h": 16, "l": 64, "ll": 64, "j": 64, "z": 64, "t": 64, "B": 8, "W": 16, "D": 32, "Q": 64}


class Spec:
    __slots__ = ("flags", "width", "prec", "lenmod", "conv", "nstar")

    def __repr__(self):
        return "Spec(%r,%r,%r,%r,%r)" % (self.flags, self.width, self.prec, self.lenmod, self.conv)


def dec_double(bits):
    """(sign, kind, m, e): value = m * 2**e for finite; kind in 'fin','inf','nan'"""
    sign = bits >> 63
    ex = (bits >> 52) & 0x7ff
    man = bits & ((1 << 52) - 1)
    if ex == 0x7ff:
        return sign, ("nan" if man else "inf"), 0, 0
    if ex == 0:
        return sign, "fin", man, -1074
    return sign, "fin", man | (1 << 52), ex - 1075


def round_div(num, den):
    """round-half-even of num/den (den > 0)"""
    q, r = divmod(num, den)
    if 2 * r > den or (2 * r == den and q & 1):
        q += 1
    return q


def scaled(m, e, p):
    """round-half-even of m * 2**e * 10**p, p may be negative"""
    num, den = m, 1
    if e >= 0: num <<= e
    else: den <<= -e
    if p >= 0: num *= 10 ** p
    else: den *= 10 ** (-p)
    return round_div(num, den)


def fixed_digits(m, e, prec, alt):
    n = scaled(m, e, prec)
    s = str(n)
    if prec > 0:
        s = s.rjust(prec + 1, "0")
        return s[:-prec] + "." + s[-prec:]
    return s + ("." if alt else "")


def exp10(m, e):
    """X with 10**X <= m*2**e < 10**(X+1)  (m > 0)"""
    num, den = (m << e, 1) if e >= 0 else (m, 1 << -e)
    x = len(str(num)) - len(str(den))
    # adjust
    while True:
        lo_ok = num * (10 ** -x if x < 0 else 1) >= den * (10 ** x if x >= 0 else 1)
        if not lo_ok:
            x -= 1; continue
        hi_ok = num * (10 ** -(x + 1) if x + 1 < 0 else 1) < den * (10 ** (x + 1) if x + 1 >= 0 else 1)
        if not hi_ok:
            x += 1; continue
        return x


def exp_parts(m, e, prec):
    """(digit string of prec+1 digits, exponent X) for %e"""
    if m == 0:
        return "0" * (prec + 1), 0
    x = exp10(m, e)
    n = scaled(m, e, prec - x)
    if n >= 10 ** (prec + 1):          # rounding carried into a new power of ten
        x += 1
        n = scaled(m, e, prec - x)
    return str(n), x


def exp_str(ds, x, alt, upper):
    body = ds[0] + (("." + ds[1:]) if len(ds) > 1 else ("." if alt else ""))
    return body + ("E" if upper else "e") + ("-" if x < 0 else "+") + "%02d" % abs(x)


def fmt_float(flags, prec, conv, bits):
    """(sign string, body, is_special)"""
    sign, kind, m, e = dec_double(bits)
    sg = "-" if sign else "+" if "+" in flags else " " if " " in flags else ""
    upper = conv in "FEG"
    alt = "#" in flags
    if kind != "fin":
        return sg, (kind.upper() if upper else kind), True
    c = conv.lower()
    if c == "f":
        return sg, fixed_digits(m, e, 6 if prec is None else prec, alt), False
    if c == "e":
        p = 6 if prec is None else prec
        ds, x = exp_parts(m, e, p)
        return sg, exp_str(ds, x, alt, upper), False
    # g
    P = 6 if prec is None else (1 if prec == 0 else prec)
    ds, x = exp_parts(m, e, P - 1)
    if -4 <= x < P:
        s = fixed_digits(m, e, P - 1 - x, alt)
        if not alt and "." in s:
            s = s.rstrip("0").rstrip(".")
        return sg, s, False
    if not alt:
        ds = ds[0] + ds[1:].rstrip("0")
    return sg, exp_str(ds, x, alt, upper), False


def pad(flags, width, sign_prefix, body, zero_ok):
    n = len(sign_prefix) + len(body)
    if width is None or width <= n:
        return sign_prefix + body
    if "-" in flags:
        return sign_prefix + body + b" " * (width - n)
    if "0" in flags and zero_ok:
        return sign_prefix + b"0" * (width - n) + body
    return b" " * (width - n) + sign_prefix + body


def trunc_signed(v, bits):
    v &= (1 << bits) - 1
    return v - (1 << bits) if v >> (bits - 1) else v


def format_one(sp, arg):
    """sp: Spec with width/prec resolved (ints or None); arg: int (raw 64-bit two's complement for integer class),
    bytes for strings, int bits for doubles.  Returns bytes."""
    f, w, p, c = sp.flags, sp.width, sp.prec, sp.conv
    if c == "%":
        return b"%"
    if c in "di":
        v = trunc_signed(arg, LEN_BITS[sp.lenmod])
        mag = abs(v)
        ds = str(mag)
        if p is not None:
            ds = "" if (p == 0 and mag == 0) else ds.rjust(p, "0")
        sg = "-" if v < 0 else "+" if "+" in f else " " if " " in f else ""
        return pad(f, w, sg.encode(), ds.encode(), p is None)
    if c in "ouxX":
        v = arg & ((1 << LEN_BITS[sp.lenmod]) - 1)
        ds = {"o": "%o", "u": "%d", "x": "%x", "X": "%X"}[c] % v
        if p is not None:
            ds = "" if (p == 0 and v == 0) else ds.rjust(p, "0")
        pre = ""
        if "#" in f:
            if c == "o" and not ds.startswith("0"): ds = "0" + ds
            if c in "xX" and v != 0: pre = "0" + c
        return pad(f, w, pre.encode(), ds.encode(), p is None)
    if c == "c" and sp.lenmod == "l":
        return pad(f, w, b"", wide_char(arg), False)
    if c == "c":
        return pad(f, w, b"", bytes([arg & 0xff]), False)
    if c == "s":
        s = arg if p is None else arg[:p]
        return pad(f, w, b"", s, False)
    if c == "S":
        # the library's string conversion (valid UTF-8 argument): at most `precision` bytes, whole code points only; the
        # field width counts code points
        b = arg if p is None else arg[:p]
        txt = b.decode("utf-8", errors="ignore")          # an incomplete last code point is dropped
        body = txt.encode("utf-8")
        fill = b" " * max(0, (w or 0) - len(txt))
        return body + fill if "-" in f else fill + body
    if c == "p":
        v = arg & ((1 << 64) - 1)
        body = b"(nil)" if v == 0 else b"0x%x" % v
        return pad(f.replace("0", ""), w, b"", body, False)
    if c in "fFeEgG":
        sg, body, special = fmt_float(f, p, c, arg)
        return pad(f, w, sg.encode(), body.encode(), not special)
    raise ValueError("conversion %r" % c)


def wide_char(arg):
    """%lc: the multibyte (UTF-8) form of the wide character; for a value that is no Unicode scalar value the C standard
    defines no output and the library's is its encoder's bit pattern (three- or four-byte form by magnitude)"""
    e = arg & 0xFFFFFFFF
    if e < 0xD800 or 0xE000 <= e < 0x110000:
        return chr(e).encode("utf-8")
    if e < 0x10000:
        return bytes([0xE0 | (e >> 12) & 0x0F, 0x80 | (e >> 6) & 0x3F, 0x80 | e & 0x3F])
    return bytes([0xF0 | (e >> 18) & 0x07, 0x80 | (e >> 12) & 0x3F, 0x80 | (e >> 6) & 0x3F, 0x80 | e & 0x3F])


def parse(fmt):
    """yields literal bytes and Spec objects"""
    out, i = [], 0
    while True:
        j = fmt.find(b"%", i)
        if j < 0:
            out.append(fmt[i:]); return out
        out.append(fmt[i:j])
        m = SPEC_RE.match(fmt, j)
        if not m:
            raise ValueError("bad format at %d: %r" % (j, fmt))
        sp = Spec()
        sp.flags = m.group(1).decode()
        sp.width = m.group(2).decode() if m.group(2) else None
        sp.prec = m.group(3).decode() if m.group(3) is not None else None
        sp.lenmod = m.group(4).decode() if m.group(4) else None
        sp.conv = chr(m.group(5)[0])
        out.append(sp)
        i = m.end()


def sprintf(fmt, args):
    """args: list of ('i'|'u', int) / ('d', bits) / ('s'|'x', bytes).  Returns the formatted bytes."""
    args = list(args)
    res = b""
    for part in parse(fmt):
        if isinstance(part, bytes):
            res += part; continue
        sp = Spec(); sp.flags, sp.lenmod, sp.conv = part.flags, part.lenmod, part.conv
        if sp.conv == "%":
            res += b"%"; continue
        if part.width == "*":
            v = trunc_signed(args.pop(0)[1], 32)
            if v < 0: sp.flags += "-"; v = -v
            sp.width = v
        else:
            sp.width = int(part.width) if part.width else None
        if part.prec == "*":
            v = trunc_signed(args.pop(0)[1], 32)
            sp.prec = None if v < 0 else v
        else:
            sp.prec = None if part.prec is None else (int(part.prec) if part.prec else 0)
        res += format_one(sp, args.pop(0)[1])
    return res
