import Gpc.Model.Proto
import Gpc.Model.CaseMap
namespace Gpc.Driver
open Gpc.Proto Gpc.CaseMap

def caseStep (toks : List String) : String :=
  match toks with
  | ["cp", c] => match c.toNat? with
    | some c => s!"{toUpper c} {toLower c} {toTitle c} {simpleFold c}"
    | none => "bad-op"
  | [op, h] =>
    match parseHex h with
    | none => "bad-op"
    | some s =>
      let f := if op == "upper" then some toUpper else if op == "lower" then some toLower
               else if op == "title" then some toTitle else none
      match f with
      | none => "bad-op"
      | some f => match strMap f s with | some r => toHex r | none => "invalid"
  | ["eqc", a, b] =>
    match parseHex a, parseHex b with
    | some a, some b => match strEqualCase a b with | some r => (if r then "1" else "0") | none => "invalid"
    | _, _ => "bad-op"
  | _ => "bad-op"

end Gpc.Driver
