#!/usr/bin/env python3
"""C12 / C13 table generation.
  gen_c12.py ucd   : (run once, result committed) Gpc/Ucd/CaseFull.lean from tools/ucd/ucd14.txt
  (imported)       : write_generated(extract_output) regenerates Gpc/Generated/CaseFull.lean from the output of
                     harness/c12_extract (the freshly compiled implementation run on every single code point)
Tables are association lists  code point -> result code points  holding only the code points whose result is not
just their simple mapping (upper / lower / title; for folding: simple lowercase), sorted by code point."""
import collections, os, sys
sys.path.insert(0, os.path.dirname(os.path.abspath(__file__)))
import casefull_ref as CR
from gen_c11 import write_if_changed, LEAN


def lean_assoc(name, d, chunk=48):
    items = sorted(d.items())
    lines, parts = [], []
    for i in range(0, max(len(items), 1), chunk):
        part = items[i:i + chunk]
        pn = "%s_%d" % (name, i // chunk)
        parts.append(pn)
        body = ",\n  ".join("(%d, [%s])" % (c, ", ".join(map(str, v))) for c, v in part)
        lines.append("def %s : List (Nat × List Nat) := [\n  %s]" % (pn, body))
    lines.append("def %s : List (Nat × List Nat) := %s" % (name, " ++ ".join(parts) if parts else "[]"))
    return "\n".join(lines)


def lean_ranges(name, rs, chunk=64):
    lines, parts = [], []
    for i in range(0, max(len(rs), 1), chunk):
        part = rs[i:i + chunk]
        pn = "%s_%d" % (name, i // chunk)
        parts.append(pn)
        lines.append("def %s : List (Nat × Nat) := [\n  %s]" % (pn, ",\n  ".join("(%d, %d)" % r for r in part)))
    lines.append("def %s : List (Nat × Nat) := %s" % (name, " ++ ".join(parts) if parts else "[]"))
    return "\n".join(lines)


def ucd_tables():
    """the specification's context-free tables in the same representation"""
    u = CR.ucd()
    su, sl, st = (u.simple[k] for k in ("Simple_Uppercase_Mapping", "Simple_Lowercase_Mapping", "Simple_Titlecase_Mapping"))
    t = collections.OrderedDict()
    for loc, L in (("N", ""), ("Tr", "tr"), ("Lt", "lt")):
        for tag, fn, simple in (("Upper", CR.to_upper, su), ("Lower", CR.to_lower, sl), ("Title", CR.to_title_first, st)):
            d = {}
            for c in range(0x110000):
                if 0xD800 <= c <= 0xDFFF: continue
                r = fn([c], L)
                if r != [simple.get(c, c)]: d[c] = r
            t[tag + loc] = d
        if loc != "Lt":
            d = {}
            for c in range(0x110000):
                if 0xD800 <= c <= 0xDFFF: continue
                r = CR.fold([c], L)
                if r != [sl.get(c, c)]: d[c] = r
            t["Fold" + loc] = d
    return t


def merge(rs):
    out = []
    for lo, hi in sorted(rs):
        if out and out[-1][1] + 1 >= lo: out[-1][1] = max(out[-1][1], hi)
        else: out.append([lo, hi])
    return [tuple(x) for x in out]


def gen_ucd():
    u = CR.ucd()
    hdr = ("/-\nVendored from the Unicode Character Database as shipped with perl 5.36 (Unicode 14.0.0) via\n"
           "tools/ucd/dump_ucd.pl -> tools/ucd/ucd14.txt -> tools/gen_c12.py ucd.\n"
           "Full case mappings and full case folding (SpecialCasing / CaseFolding status C+F) of single code points under the\n"
           "locales '' (N), tr/az (Tr) and lt (Lt), as exception lists relative to the simple mappings; and the properties the\n"
           "context rules of Table 3-17 use: Cased, Case_Ignorable, Soft_Dotted, canonical combining class 230 / other non-zero.\n-/\n"
           "namespace Gpc.Ucd\n\n")
    body = [lean_assoc("full" + k, d) for k, d in ucd_tables().items()]
    body.append(lean_ranges("cased", merge(u.ranges["Cased"])))
    body.append(lean_ranges("caseIgnorable", merge(u.ranges["Case_Ignorable"])))
    body.append(lean_ranges("softDotted", merge(u.ranges["Soft_Dotted"])))
    body.append(lean_ranges("ccc230", merge((lo, hi) for lo, hi, v in u.ccc if v == 230)))
    body.append(lean_ranges("cccOther", merge((lo, hi) for lo, hi, v in u.ccc if v != 230)))
    write_if_changed(os.path.join(LEAN, "Ucd", "CaseFull.lean"), hdr + "\n\n".join(body) + "\n\nend Gpc.Ucd\n")


def parse_extract(out):
    t = collections.defaultdict(dict)
    preds = collections.defaultdict(list)
    problems = []
    for l in out.split("\n"):
        p = l.split()
        if not p: continue
        if p[0] in ("U", "L", "T", "F"):
            loc = {"-": "N", "tr": "Tr", "lt": "Lt"}[p[1]]
            t[{"U": "Upper", "L": "Lower", "T": "Title", "F": "Fold"}[p[0]] + loc][int(p[2], 16)] = [int(x, 16) for x in p[3:]]
        elif p[0] == "P":
            preds[p[1]].append((int(p[2], 16), int(p[3], 16)))
        else:
            problems.append(l)
    return t, preds, problems


def write_generated(out):
    t, preds, problems = parse_extract(out)
    hdr = ("/-\nREGENERATED ON EVERY RUN from /repo's working tree (harness/c12_extract.c): gp_str_to_upper_full,\n"
           "gp_str_to_lower_full, gp_str_capitalize and gp_wcs_fold_utf8 executed on every single-code-point string under the\n"
           "locales '' (N), tr (Tr; az is checked to agree) and lt (Lt): the code points whose result is not just their simple\n"
           "mapping; and the static context predicates of src/unicode.c over all code points, as ranges.\n-/\n"
           "namespace Gpc.Generated\n\n")
    body = []
    for k in ("UpperN", "LowerN", "TitleN", "FoldN", "UpperTr", "LowerTr", "TitleTr", "FoldTr", "UpperLt", "LowerLt", "TitleLt"):
        body.append(lean_assoc("impl" + k, t.get(k, {})))
    for k, nm in (("soft_dotted", "implSoftDotted"), ("diatrical", "implDiatrical"), ("lith_accent", "implLithAccent"), ("greek_letter", "implGreekLetter")):
        body.append(lean_ranges(nm, preds.get(k, [])))
    changed = write_if_changed(os.path.join(LEAN, "Generated", "CaseFull.lean"), hdr + "\n\n".join(body) + "\n\nend Gpc.Generated\n")
    return t, preds, problems, changed


if __name__ == "__main__":
    if len(sys.argv) > 1 and sys.argv[1] == "ucd":
        gen_ucd()
