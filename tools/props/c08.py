"""C08 — search and comparison primitives return the definitional answer."""
import itertools
import vlib


def hx(b):
    return vlib.hexs(bytes(b))


def occ(h, n, i):
    return h[i:i + len(n)] == n


def oracle(case, out):
    t = case[0].split()
    op, o = t[1], out[0]
    b = lambda s: b"" if s == "-" else bytes.fromhex(s)
    if "str-variant" in o:
        return "gp_str_* wrapper disagrees with gp_bytes_*: " + o
    idx = lambda s: None if s == "nf" else int(s)
    if op == "ff":
        h, n, st = b(t[2]), b(t[3]), int(t[4])
        want = h.find(n, st)
        want = None if want < 0 else want
        if idx(o) != want:
            return "find_first(%s,%s,%d) = %s, smallest occurrence is %s" % (t[2], t[3], st, o, want)
    elif op == "fl":
        h, n = b(t[2]), b(t[3])
        want = h.rfind(n)
        want = None if want < 0 else want
        if idx(o) != want:
            return "find_last(%s,%s) = %s, largest occurrence is %s" % (t[2], t[3], o, want)
    elif op == "cnt":
        h, n = b(t[2]), b(t[3])
        want = sum(1 for i in range(len(h)) if occ(h, n, i))
        if int(o) != want:
            return "count(%s,%s) = %s, occurrences: %d" % (t[2], t[3], o, want)
    elif op in ("fo", "fno"):
        h, s, st = b(t[2]), b(t[3]), int(t[4])
        want = next((i for i in range(st, len(h)) if (h[i] in s) == (op == "fo")), None)
        if idx(o) != want:
            return "find_first_%sof(%s,set %s,%d) = %s, expected %s" % ("" if op == "fo" else "not_", t[2], t[3], st, o, want)
    elif op in ("sfo", "sfno"):
        # strings: the first code point boundary >= start whose code point is / is not one of the set's code points
        h, s, st = b(t[2]), b(t[3]), int(t[4])
        def cps(x):
            out, i = [], 0
            while i < len(x):
                c = x[i]; n = 1 if c < 0x80 else 2 if c < 0xE0 else 3 if c < 0xF0 else 4
                out.append((i, x[i:i + n])); i += n
            return out
        members = set(c for _, c in cps(s))
        want = next((i for i, c in cps(h) if i >= st and (c in members) == (op == "sfo")), None)
        if idx(o) != want:
            return "string find_first_%sof(%s,set %s,%d) = %s, expected %s" % ("" if op == "sfo" else "not_", t[2], t[3], st, o, want)
    elif op in ("eq", "eqc"):
        low = lambda x: bytes(c + 32 if 65 <= c <= 90 else c for c in x)
        want = (b(t[2]) == b(t[3])) if op == "eq" else (low(b(t[2])) == low(b(t[3])))
        name = "equal" if op == "eq" else "equal_case"
        for k, part in enumerate(o.split()):
            # "<r>" then "str-variant:<r>" / "aliased-variant:<r>" (both values as slices starting at one address)
            how, _, v = part.rpartition(":")
            if (v == "1") != want:
                return "%s(%s,%s)%s = %s" % (name, t[2], t[3], " [%s]" % how if how else "", v)
    return None


def gen(ctx):
    r = ctx.rng
    quick = ctx.tier == "quick"
    cases = []
    add = lambda s: cases.append(["srch " + s])
    # exhaustive over small alphabets: all haystacks up to L, all needles up to 4 (3 for {a,b,c})
    for alpha, L, NL in ((b"ab", 8 if quick else 11, 4), (b"abc", 5 if quick else 7, 3)):
        needles = [bytes(p) for k in range(1, NL + 1) for p in itertools.product(alpha, repeat=k)]
        for l in range(0, L + 1):
            for hp in itertools.product(alpha, repeat=l):
                h = bytes(hp)
                for n in needles:
                    if len(n) > l + 1:
                        continue
                    add("fl %s %s" % (hx(h), hx(n)))
                    add("cnt %s %s" % (hx(h), hx(n)))
                    for st in range(0, l + 1):
                        if l <= 5 or st in (0, 1, l // 2, l):
                            add("ff %s %s %d" % (hx(h), hx(n), st))
    ctx.exhaustive_note = "alphabets {a,b} (haystack<=%d, needle<=4) and {a,b,c}" % (8 if quick else 11)
    # random larger, every byte value incl. NUL, needles cut from the haystack (so they occur)
    for _ in range(3000 if quick else 100000):
        l = r.randrange(0, 200)
        k = r.choice([2, 3, 4, 256])
        h = bytes(r.randrange(k) if k < 256 else r.randrange(256) for _ in range(l))
        if l and r.random() < 0.7:
            a = r.randrange(l); bb = min(l, a + r.randrange(1, 9))
            n = h[a:bb]
        else:
            n = bytes(r.randrange(k if k < 256 else 256) for _ in range(r.randrange(1, 6)))
        st = r.randrange(0, l + 1)
        add("ff %s %s %d" % (hx(h), hx(n), st))
        add("fl %s %s" % (hx(h), hx(n)))
        add("cnt %s %s" % (hx(h), hx(n)))
        longer = h + bytes([r.randrange(256)])
        add("fl %s %s" % (hx(h), hx(longer)))         # needle longer than the haystack
        add("ff %s %s %d" % (hx(h), hx(longer), 0))
    # sets: byte sets without NUL, haystacks with every byte value incl. NUL
    for _ in range(3000 if quick else 60000):
        l = r.randrange(0, 40)
        pool = [r.randrange(256) for _ in range(r.randrange(1, 6))] + [0]
        h = bytes(r.choice(pool) for _ in range(l))
        s = bytes(set(c for c in r.sample(pool, r.randrange(0, len(pool))) if c != 0))
        st = r.randrange(0, l + 1)
        add("fo %s %s %d" % (hx(h), hx(s), st))
        add("fno %s %s %d" % (hx(h), hx(s), st))
    # strings: sets and haystacks of valid UTF-8 with code points of 1, 2, 3 and 4 bytes, start at a code point boundary
    alphabet = ["a", "b", " ", "\u00e4", "\u00df", "\u20ac", "\u4e00", "\U0001F602", "\U00010400", "\U0010FFFF"]
    for _ in range(2500 if quick else 60000):
        hs = [r.choice(alphabet) for _ in range(r.randrange(0, 12))]
        ss = r.sample(alphabet, r.randrange(1, 5))
        h = "".join(hs).encode(); s = "".join(ss).encode()
        bounds = [0]
        for c in hs: bounds.append(bounds[-1] + len(c.encode()))
        st = r.choice(bounds)
        add("sfo %s %s %d" % (hx(h), hx(s), st))
        add("sfno %s %s %d" % (hx(h), hx(s), st))
    # equality and ASCII case-insensitive equality (bytes around 'A'-1, 'Z'+1, 'a', 'z', high bytes)
    edge = [0, 64, 65, 90, 91, 96, 97, 122, 123, 127, 128, 193, 225, 255]
    for _ in range(3000 if quick else 60000):
        l = r.randrange(0, 20)
        a = bytes(r.choice(edge) if r.random() < 0.5 else r.randrange(256) for _ in range(l))
        m = r.random()
        if m < 0.3:
            b = bytes(c ^ 32 if (65 <= c <= 90 or 97 <= c <= 122) and r.random() < 0.5 else c for c in a)
        elif m < 0.5:
            b = bytes(c ^ 32 if r.random() < 0.3 else c for c in a)
        elif m < 0.7:
            b = a
        elif m < 0.85:
            b = a[:-1] if a else b"x"
        else:
            b = bytes(r.randrange(256) for _ in range(l))
        add("eq %s %s" % (hx(a), hx(b)))
        add("eqc %s %s" % (hx(a), hx(b)))
    return cases


def run(ctx):
    ctx.rules.append("one call per case on exact-size malloc'ed buffers; exhaustive over all haystacks/needles/starts "
                     "of alphabets {a,b} and {a,b,c} up to the stated lengths, then seeded random (every byte value, "
                     "NUL included, needles cut from the haystack); non-trivial = haystack non-empty; distinct by case text")
    ctx.assumptions += ["glibc memmem/strchr/memcmp meet their contracts (modelled as definitions, validated by the run)",
                        "needle non-empty, start <= length, set is a C string (documented preconditions)"]
    exe = ctx.build_harness("c08")
    ctx.build_model()
    ctx.prove()
    cases = ctx.replay_cases if ctx.replay_cases is not None else (vlib.load_corpus("C08") + gen(ctx))
    ctx.exhaustive = False
    ctx.extra_cov["exhaustive_part"] = getattr(ctx, "exhaustive_note", "")
    ctx.correspond("search", exe, cases, oracle=oracle, nontrivial=lambda c: c[0].split()[2] != "-")
