/* T-gen extractor for C12 / C13: runs the freshly compiled full case mapping, capitalisation and full case
 * folding on EVERY single-code-point string under the locales "", "tr" ("az" is checked to agree) and "lt",
 * and prints every result that is not just the simple mapping of the code point; then dumps the static
 * context predicates over all code points as ranges.  unicode.c is #included for its static functions. */
#include "unicode.c"
#include <stdio.h>
uint32_t gp_u32_to_upper(uint32_t);
uint32_t gp_u32_to_lower(uint32_t);
uint32_t gp_u32_to_title(uint32_t);
size_t gp_utf8_decode(void*, uint32_t);

static void put(const char* tag, const char* loc, uint32_t c, const uint32_t* out, size_t n)
{
    printf("%s %s %X", tag, *loc ? loc : "-", c);
    for (size_t i = 0; i < n; i++) printf(" %X", out[i]);
    puts("");
}

static size_t decode_all(GPString s, uint32_t* out)
{
    size_t n = 0;
    for (size_t i = 0; i < gp_str_length(s);) { uint32_t cp; i += gp_utf8_encode(&cp, s, i); out[n++] = cp; }
    return n;
}

static void dump_pred(const char* name, bool (*f)(uint32_t))
{
    for (uint32_t c = 0; c < 0x110000;) {
        if (!f(c)) { c++; continue; }
        uint32_t lo = c; while (c < 0x110000 && f(c)) c++;
        printf("P %s %X %X\n", name, lo, c - 1);
    }
}

int main(void)
{
    const char* locs[] = {"", "tr", "az", "lt"};
    GPString s = gp_str_new(gp_heap, 64, "");
    GPArray(wchar_t) w = gp_arr_new(gp_heap, sizeof(wchar_t), 16);
    uint32_t out[16], ref_tr[3][16]; size_t nref_tr[3];
    for (uint32_t c = 0; c < 0x110000; c++) {
        if (0xD800 <= c && c <= 0xDFFF) continue;
        char enc[4]; size_t el = gp_utf8_decode(enc, c);
        for (int li = 0; li < 4; li++) {
            size_t n;
            gp_str_copy(&s, enc, el); gp_str_to_upper_full(&s, locs[li]); n = decode_all(s, out);
            if (li == 1) { nref_tr[0] = n; memcpy(ref_tr[0], out, sizeof out); }
            if (li == 2) { if (n != nref_tr[0] || memcmp(out, ref_tr[0], n * 4)) put("AZ-DIFFERS U", "az", c, out, n); }
            else if (!(n == 1 && out[0] == gp_u32_to_upper(c))) put("U", locs[li], c, out, n);
            gp_str_copy(&s, enc, el); gp_str_to_lower_full(&s, locs[li]); n = decode_all(s, out);
            if (li == 1) { nref_tr[1] = n; memcpy(ref_tr[1], out, sizeof out); }
            if (li == 2) { if (n != nref_tr[1] || memcmp(out, ref_tr[1], n * 4)) put("AZ-DIFFERS L", "az", c, out, n); }
            else if (!(n == 1 && out[0] == gp_u32_to_lower(c))) put("L", locs[li], c, out, n);
            gp_str_copy(&s, enc, el); gp_str_capitalize(&s, locs[li]); n = decode_all(s, out);
            if (li == 1) { nref_tr[2] = n; memcpy(ref_tr[2], out, sizeof out); }
            if (li == 2) { if (n != nref_tr[2] || memcmp(out, ref_tr[2], n * 4)) put("AZ-DIFFERS T", "az", c, out, n); }
            else if (!(n == 1 && out[0] == gp_u32_to_title(c))) put("T", locs[li], c, out, n);
            if (li == 3) continue;                       /* folding has no Lithuanian rule */
            gp_wcs_fold_utf8(&w, enc, el, locs[li]);
            n = gp_arr_length(w); for (size_t i = 0; i < n; i++) out[i] = (uint32_t)w[i];
            if (li == 2) continue;
            if (!(n == 1 && out[0] == gp_u32_to_lower(c))) put("F", locs[li], c, out, n);
        }
    }
    dump_pred("soft_dotted", gp_is_soft_dotted);
    dump_pred("diatrical", gp_is_diatrical);
    dump_pred("lith_accent", gp_is_lithuanian_accent);
    dump_pred("greek_letter", gp_is_greek_letter);
    return 0;
}
