/* C01 driver: arena / shared arena / scope / scratch arena / heap allocator under operation scripts.
 * White box (like the repository's own tests): includes memory.c to read node ordinals and offsets. */
#include "memory.c"
#include "track_heap.h"
#include "proto.h"
#include <pthread.h>

#define MAXB 4096
#define MAXL 8192
static char* lines[MAXL]; static size_t nlines;

typedef struct { uint8_t* p; size_t n; int live; unsigned id; } B;
static B blk[MAXB]; static size_t nblk;
static size_t order[MAXB]; static size_t norder;      /* live block ids in allocation order */

static void fill(B* b) { for (size_t i = 0; i < b->n; i++) b->p[i] = (uint8_t)(b->id * 37u + i * 11u + 5u); }
static int intact(const B* b, size_t n) { for (size_t i = 0; i < n; i++) if (b->p[i] != (uint8_t)(b->id * 37u + i * 11u + 5u)) return 0; return 1; }

static void locate(GPArena* a, const void* p, size_t* ord, size_t* off)
{
    size_t count = 0, idx = (size_t)-1, k = 0;
    for (GPArenaNode* n = a->head; n; n = n->tail) count++;
    for (GPArenaNode* n = a->head; n; n = n->tail, k++) {
        uint8_t* s = (uint8_t*)(n + 1);
        if ((uint8_t*)p >= s && (uint8_t*)p <= s + n->capacity) { idx = k; *off = (size_t)((uint8_t*)p - s); break; }
    }
    *ord = idx == (size_t)-1 ? 999999 : count - 1 - idx;
    if (idx == (size_t)-1) *off = 0;
}

static void check_all(size_t align, const B* skip)
{
    for (size_t i = 0; i < norder; i++) {
        B* b = &blk[order[i]];
        if (b == skip) continue;
        if (!intact(b, b->n)) printf(" CORRUPT:b%u", b->id);
        for (size_t j = i + 1; j < norder; j++) {
            B* c = &blk[order[j]];
            if (b->n && c->n && b->p < c->p + c->n && c->p < b->p + b->n) printf(" OVERLAP:b%u/b%u", b->id, c->id);
        }
    }
    (void)align;
}

static void order_remove(size_t id) { size_t k = 0; for (size_t i = 0; i < norder; i++) if (order[i] != id) order[k++] = order[i]; norder = k; }

static void report_block(GPArena* a, B* b, size_t align, int is_arena)
{
    size_t ord = 0, off = 0;
    if (is_arena) { locate(a, b->p, &ord, &off); printf("%zu %zu", ord, off); } else fputs("heap", stdout);
    th_print_traffic();
    if (align && (uintptr_t)b->p % align) printf(" MISALIGNED:%zu", (size_t)((uintptr_t)b->p % align));
    if (!th_inside(b->p, b->n)) fputs(" OUTSIDE-OBTAINED-MEMORY", stdout);
}

static size_t deferred_runs;
static void noop_deferred(void* arg) { (void)arg; deferred_runs++; }

static void* run_case(void* unused)
{
    (void)unused;
    GPArena arena_store; GPArena* a = NULL; const GPAllocator* al = NULL;
    char kind[16] = ""; size_t align = 16; int is_arena = 1;
    nblk = norder = 0;
    th_reset();
    for (size_t li = 0; li < nlines; li++) {
        char* t[8]; int n = 0; char* save = NULL; char buf[256];
        strncpy(buf, lines[li], sizeof buf - 1); buf[sizeof buf - 1] = 0;
        for (char* x = strtok_r(buf, " \t\r\n", &save); x && n < 8; x = strtok_r(NULL, " \t\r\n", &save)) t[n++] = x;
        if (n < 2) { puts("bad-op"); continue; }
        if (!strcmp(t[1], "new") && n >= 7) {
            strncpy(kind, t[2], 15);
            size_t cap = strtoull(t[3], NULL, 10); double g = strtod(t[4], NULL) / 8.0;
            size_t max = strtoull(t[5], NULL, 10); align = strtoull(t[6], NULL, 10);
            if (!strcmp(kind, "arena")) { arena_store = gp_arena_new(cap); a = &arena_store; }
            else if (!strcmp(kind, "shared")) a = gp_arena_new_shared(cap);
            else if (!strcmp(kind, "scope")) a = (GPArena*)gp_begin(cap);
            else if (!strcmp(kind, "scratch")) a = gp_scratch_arena();
            else if (!strcmp(kind, "heap")) { is_arena = 0; al = gp_heap; align = 16; }
            if (is_arena) {
                if (strcmp(kind, "scope") && strcmp(kind, "scratch")) { a->growth_coefficient = g; a->max_size = max; a->alignment = align; }
                al = (const GPAllocator*)a;
                printf("ok cap=%zu g8=%d max=%zu align=%zu\n", a->head->capacity, (int)(a->growth_coefficient * 8), a->max_size, a->alignment);
            } else puts("ok");
            th_log_from = th_count;
        } else if ((!strcmp(t[1], "alloc") || !strcmp(t[1], "allocz")) && n == 3 && al) {
            size_t sz = strtoull(t[2], NULL, 10);
            B* b = &blk[nblk]; b->id = (unsigned)nblk; b->n = sz; b->live = 1;
            b->p = t[1][5] == 'z' ? gp_mem_alloc_zeroes(al, sz) : gp_mem_alloc(al, sz);
            int nonzero = 0;
            if (t[1][5] == 'z') for (size_t i = 0; i < sz; i++) nonzero |= b->p[i];
            order[norder++] = nblk++;
            report_block(a, b, align, is_arena);
            if (nonzero) fputs(" NOT-ZEROED", stdout);
            fill(b);
            check_all(align, NULL);
            puts("");
        } else if (!strcmp(t[1], "realloc") && n == 4 && al) {
            size_t id = strtoull(t[2], NULL, 10), nsz = strtoull(t[3], NULL, 10);
            B* b = &blk[id]; size_t keep = b->n < nsz ? b->n : nsz;
            b->p = gp_mem_realloc(al, b->p, b->n, nsz);
            order_remove(id); order[norder++] = id;
            int kept = intact(b, keep);
            b->n = nsz;
            report_block(a, b, align, is_arena);
            if (!kept) fputs(" PREFIX-LOST", stdout);
            fill(b);
            check_all(align, NULL);
            puts("");
        } else if (!strcmp(t[1], "defer") && n >= 2 && a && !strcmp(kind, "scope")) {
            /* the scope's defer stack lives in the scope's own arena, next to the caller's blocks */
            gp_scope_defer((GPAllocator*)a, noop_deferred, NULL);
            fputs("ok", stdout); th_print_traffic(); check_all(align, NULL); puts("");
        } else if (!strcmp(t[1], "rewind") && n == 3 && a) {
            size_t id = strtoull(t[2], NULL, 10);
            gp_arena_rewind(a, blk[id].p);
            size_t k = 0; while (k < norder && order[k] != id) k++;
            norder = k;
            fputs("ok", stdout); th_print_traffic(); check_all(align, NULL); puts("");
        } else if (!strcmp(t[1], "free") && n == 3 && !is_arena) {
            size_t id = strtoull(t[2], NULL, 10);
            gp_mem_dealloc(al, blk[id].p); order_remove(id);
            fputs("ok", stdout); th_print_traffic(); check_all(align, NULL); puts("");
        } else if (!strcmp(t[1], "delete") && n == 2) {
            if (!strcmp(kind, "scope")) gp_end((GPAllocator*)a);
            else if (!strcmp(kind, "arena") || !strcmp(kind, "shared")) gp_arena_delete(a);
            else if (!strcmp(kind, "heap")) { for (size_t i = 0; i < norder; i++) gp_mem_dealloc(al, blk[order[i]].p); }
            norder = 0; a = NULL; al = NULL;
            fputs("ok", stdout);
            if (strcmp(kind, "scratch") && strcmp(kind, "scope") && th_live()) printf(" LEAK:%zu", th_live());
            if (th_bad_free) printf(" BAD-FREE:%zu", th_bad_free);
            puts("");
        } else puts("bad-op");
    }
    return NULL;
}

int main(int argc, char** argv)
{
    setvbuf(stdout, NULL, _IOFBF, 1 << 16);
    th_install();
    if (argc > 1 && !strcmp(argv[1], "--config")) {
        GPArena* sc = (GPArena*)gp_begin(0);
        printf("scope_g8=%d scope_max=%zu scope_align=%zu scope_cap0=%zu ", (int)(sc->growth_coefficient * 8), sc->max_size, sc->alignment, sc->head->capacity);
        gp_end((GPAllocator*)sc);
        GPArena* s = gp_scratch_arena();
        printf("scratch_g8=%d scratch_max=%zu scratch_align=%zu scratch_cap=%zu ", (int)(s->growth_coefficient * 8), s->max_size, s->alignment, s->head->capacity);
        GPArena d = gp_arena_new(0);
        printf("arena_g8=%d arena_max=%zu arena_align=%zu arena_cap0=%zu shared_extra=%zu header=%zu\n", (int)(d.growth_coefficient * 8), d.max_size, d.alignment, d.head->capacity,
               sizeof(GPArena) + sizeof(GPMutex), sizeof(GPArenaNode));
        gp_arena_delete(&d);
        return 0;
    }
    while (vp_next()) {
        /* collect one case: lines up to and including "ar end" */
        nlines = 0;
        do {
            char joined[256] = ""; for (int i = 0; i < vp_ntok; i++) { strcat(joined, vp_tok[i]); strcat(joined, " "); }
            if (vp_ntok >= 2 && !strcmp(vp_tok[1], "end")) break;
            if (nlines < MAXL) lines[nlines++] = strdup(joined);
        } while (vp_next());
        pthread_t th; pthread_create(&th, NULL, run_case, NULL); pthread_join(th, NULL);
        puts("end");
        for (size_t i = 0; i < nlines; i++) free(lines[i]);
        fflush(stdout);
    }
    return 0;
}
