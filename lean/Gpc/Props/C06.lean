import Gpc.Model.Utf8
import Gpc.Spec.Utf8
import Gpc.Proofs.Utf8
/-!
# C06 — UTF-8/ASCII validation is exact; repair yields valid text, keeps valid parts

`WellFormed` is the Unicode Standard's Table 3-7; `wfLen` the length of the Table 3-7 sequence at
the head of a byte string (0 if none).  The model (`Gpc.Utf8`) is the library's lead-byte table,
packed-word validator, scanners and repair loops.
-/
namespace Gpc.Utf8

/-! ## the validity check accepts exactly the well-formed strings -/

theorem findInvalid_none (fuel : Nat) (s : Bytes) (i : Nat) (hf : s.length ≤ fuel) :
    findInvalid fuel s i = none ↔ WellFormed s := by
  induction fuel generalizing s i with
  | zero =>
    have : s = [] := List.eq_nil_of_length_eq_zero (by omega)
    subst this; simp [findInvalid]; exact WellFormed.nil
  | succ f ih =>
    rcases s with _ | ⟨b, t⟩
    · simp [findInvalid]; exact WellFormed.nil
    · simp only [findInvalid, validAtHead_eq]
      by_cases hw : wfLen (b :: t) = 0
      · simp only [hw, if_true]
        constructor
        · intro h; simp at h
        · intro h
          exfalso
          generalize hs : b :: t = s at h hw
          cases h with
          | nil => simp at hs
          | cons c rest hc hl hr =>
            have := wfLen_append c rest hc hl
            have : 0 < c.length := List.length_pos_iff.mpr hc
            omega
      · simp only [hw, if_false]
        have hle := (wfLen_le (b :: t)).1
        have hlen : ((b :: t).drop (wfLen (b :: t))).length ≤ f := by
          simp only [List.length_drop, List.length_cons] at hle hf ⊢; omega
        rw [ih _ _ hlen]
        constructor
        · intro h
          have := WellFormed.cons ((b :: t).take (wfLen (b :: t))) _ (by
              intro e; have := congrArg List.length e
              simp only [List.length_take, List.length_nil] at this; omega)
            (by rw [wfLen_take _ hw]; simp only [List.length_take]; omega) h
          rwa [List.take_append_drop] at this
        · intro h
          generalize hs : b :: t = s at h hw hle ⊢
          cases h with
          | nil => simp at hs
          | cons c rest hc hl hr =>
            rw [wfLen_append c rest hc hl]; simpa using hr

/-- valid ⇔ well-formed per Unicode Table 3-7 (no overlongs, no surrogates, nothing above
U+10FFFF, no truncated sequences) -/
theorem isValid_iff_wellFormed (s : Bytes) : isValidUtf8 s = none ↔ WellFormed s :=
  findInvalid_none s.length s 0 (Nat.le_refl _)

theorem findInvalid_some (fuel : Nat) (s : Bytes) (i k : Nat) (hf : s.length ≤ fuel)
    (h : findInvalid fuel s i = some k) :
    ∃ pre post, s = pre ++ post ∧ k = i + pre.length ∧ WellFormed pre ∧ post ≠ [] ∧ wfLen post = 0 := by
  induction fuel generalizing s i with
  | zero => simp [findInvalid] at h
  | succ f ih =>
    rcases s with _ | ⟨b, t⟩
    · simp [findInvalid] at h
    · simp only [findInvalid, validAtHead_eq] at h
      by_cases hw : wfLen (b :: t) = 0
      · simp only [hw, if_true, Option.some.injEq] at h
        exact ⟨[], b :: t, rfl, by simp [h], WellFormed.nil, by simp, hw⟩
      · simp only [hw, if_false] at h
        have hle := (wfLen_le (b :: t)).1
        have hlen : ((b :: t).drop (wfLen (b :: t))).length ≤ f := by
          simp only [List.length_drop, List.length_cons] at hle hf ⊢; omega
        obtain ⟨pre, post, e, hk, hwf, hne, h0⟩ := ih _ _ hlen h
        refine ⟨(b :: t).take (wfLen (b :: t)) ++ pre, post, ?_, ?_, ?_, hne, h0⟩
        · rw [List.append_assoc, ← e, List.take_append_drop]
        · simp only [List.length_append, List.length_take]; omega
        · exact WellFormed.cons _ _ (by
              intro e'; have := congrArg List.length e'
              simp only [List.length_take, List.length_nil] at this; omega)
            (by rw [wfLen_take _ hw]; simp only [List.length_take]; omega) hwf

/-- the reported index is the length of the longest prefix of complete well-formed code points:
everything before it is well formed and no Table 3-7 sequence starts at it -/
theorem invalid_index (s : Bytes) (k : Nat) (h : isValidUtf8 s = some k) :
    ∃ pre post, s = pre ++ post ∧ k = pre.length ∧ WellFormed pre ∧ post ≠ [] ∧ wfLen post = 0 := by
  obtain ⟨pre, post, a, b, c, d, e⟩ := findInvalid_some s.length s 0 k (Nat.le_refl _) h
  exact ⟨pre, post, a, by omega, c, d, e⟩

end Gpc.Utf8

namespace Gpc.Utf8

/-! ## ASCII validity: exact, alignment independent, reads only the string -/

/-- for every length and every address alignment the result is the first byte ≥ 0x80
(`some none` = valid); the outer `some` says no read left the string -/
theorem ascii_spec (s : Bytes) (a : Nat) :
    ∃ r, asciiValid s a = some r ∧
      (∀ k, r = some k → k < s.length ∧ hi s k = true ∧ ∀ j, j < k → hi s j = false) ∧
      (r = none → ∀ j, j < s.length → hi s j = false) := by
  unfold asciiValid
  simp only []
  have hao : min (a % 8) s.length ≤ s.length := Nat.min_le_right _ _
  generalize hA : min (a % 8) s.length = ao at hao
  obtain ⟨r1, hr1, p1, q1⟩ := byteScan_spec s s.length 0 ao hao (by omega)
  rw [hr1]
  cases r1 with
  | some k =>
    obtain ⟨_, b, c, d⟩ := p1 k rfl
    refine ⟨some k, rfl, ?_, by simp⟩
    intro k' hk'; injection hk' with hk'; subst hk'
    exact ⟨by omega, c, fun j hj => d j (Nat.zero_le _) hj⟩
  | none =>
    have q1' := q1 rfl
    simp only []
    have hstop : s.length - (s.length - ao) % 8 ≤ s.length := Nat.sub_le _ _
    obtain ⟨j, hj, ja, jb, jc⟩ := blockScan_spec s s.length ao (s.length - (s.length - ao) % 8) hstop
      (by omega) (by omega) (by omega)
    rw [hj]
    obtain ⟨r3, hr3, p3, q3⟩ := byteScan_spec s s.length j s.length (Nat.le_refl _) (by omega)
    refine ⟨r3, hr3, ?_, ?_⟩
    · intro k hk
      obtain ⟨a', b', c', d'⟩ := p3 k hk
      refine ⟨b', c', ?_⟩
      intro i hi'
      by_cases h1 : i < ao
      · exact q1' i (Nat.zero_le _) h1
      · by_cases h2 : i < j
        · exact jc i (by omega) h2
        · exact d' i (by omega) hi'
    · intro hn i hi'
      by_cases h1 : i < ao
      · exact q1' i (Nat.zero_le _) h1
      · by_cases h2 : i < j
        · exact jc i (by omega) h2
        · exact q3 hn i (by omega) hi'

/-- accepts exactly the strings whose bytes are all below 0x80 -/
theorem ascii_valid_iff (s : Bytes) (a : Nat) :
    asciiValid s a = some none ↔ ∀ b ∈ s, high b = false := by
  obtain ⟨r, hr, p, q⟩ := ascii_spec s a
  rw [hr]
  constructor
  · intro h
    have hr' : r = none := by simpa using h
    intro b hb
    obtain ⟨k, hk, e⟩ := List.getElem_of_mem hb
    have := q hr' k hk
    simpa [hi, List.getElem?_eq_getElem hk, e] using this
  · intro h
    cases r with
    | none => rfl
    | some k =>
      obtain ⟨hk, c, _⟩ := p k rfl
      have := h s[k] (List.getElem_mem hk)
      simp [hi, List.getElem?_eq_getElem hk, this] at c

theorem ascii_reads_in_bounds (s : Bytes) (a : Nat) : asciiValid s a ≠ none := by
  obtain ⟨r, hr, _⟩ := ascii_spec s a; simp [hr]

/-! ## code point count = number of non-continuation bytes, at every alignment -/

theorem leadNibble_zero_iff (b : UInt8) : leadNibble b = 0 ↔ (0x80 ≤ b.toNat ∧ b.toNat ≤ 0xBF) := by
  unfold leadNibble; simp only []; split <;> omega

theorem count_eq_noncontinuation (s : Bytes) (a : Nat) :
    codepointCount s a = some (sumLN s) := by
  unfold codepointCount
  simp only []
  split
  · rw [countBytes_spec s s.length 0 s.length 0 (Nat.le_refl _) (by omega)]
    simp
  · rename_i hn
    have hao : min (a % 8) s.length ≤ s.length := Nat.min_le_right _ _
    have ha8 : a % 8 < 8 := Nat.mod_lt _ (by omega)
    have hmin : min (a % 8) s.length = a % 8 := by omega
    rw [hmin] at hao ⊢
    rw [countBytes_spec s s.length 0 (a % 8) 0 hao (by omega)]
    simp only []
    rw [countBlocks_spec s s.length (a % 8) (s.length - (s.length - a % 8) % 8) _ (Nat.sub_le _ _)
      (by omega) (by omega) (by omega)]
    simp only []
    rw [countBytes_spec s s.length _ s.length _ (Nat.le_refl _) (by omega)]
    simp only [Nat.sub_zero, List.drop_zero, Nat.zero_add, Option.some.injEq]
    generalize hst : s.length - (s.length - a % 8) % 8 = st
    have h1 : a % 8 ≤ st := by omega
    have h2 : st ≤ s.length := by omega
    have e1 : s = s.take (a % 8) ++ ((s.drop (a % 8)).take (st - a % 8) ++ s.drop st) := by
      have : s.drop st = (s.drop (a % 8)).drop (st - a % 8) := by
        rw [List.drop_drop]; congr 1; omega
      rw [this, List.take_append_drop, List.take_append_drop]
    have e2 : (s.drop st).take (s.length - st) = s.drop st := by
      apply List.take_of_length_le; simp
    rw [e2]
    conv => rhs; rw [e1]
    simp only [sumLN, List.map_append, List.sum_append]
    omega

/-- `sumLN` counts exactly the bytes outside 0x80..0xBF -/
theorem sumLN_eq_countP (s : Bytes) :
    sumLN s = s.countP (fun b => !(decide (0x80 ≤ b.toNat ∧ b.toNat ≤ 0xBF))) := by
  induction s with
  | nil => simp [sumLN]
  | cons b t ih =>
    simp only [sumLN, List.map_cons, List.sum_cons, List.countP_cons] at ih ⊢
    rw [ih]
    have h01 := leadNibble_le b
    have hz := leadNibble_zero_iff b
    by_cases hc : 0x80 ≤ b.toNat ∧ b.toNat ≤ 0xBF
    · have : leadNibble b = 0 := hz.2 hc
      simp [hc, this]
    · have : leadNibble b = 1 := by
        have : leadNibble b ≠ 0 := fun e => hc (hz.1 e)
        omega
      simp [hc, this]; omega

end Gpc.Utf8

namespace Gpc.Utf8

/-! ## repair -/

theorem WellFormed.append {a b : Bytes} (ha : WellFormed a) (hb : WellFormed b) : WellFormed (a ++ b) := by
  induction ha with
  | nil => simpa
  | cons c rest hc hl _ ih => rw [List.append_assoc]; exact WellFormed.cons c _ hc hl ih

/-- copy phase: `k` pending bytes are copied verbatim -/
theorem repairSpec_copy (repl pre rest : Bytes) : repairSpec repl pre.length (pre ++ rest) = pre ++ repairSpec repl 0 rest := by
  induction pre with
  | nil =>
    cases rest with
    | nil => simp [repairSpec]
    | cons b t => simp
  | cons b t ih => simp [repairSpec, ih]

theorem repairSpec_copy' (repl : Bytes) (k : Nat) (t : Bytes) (hk : k ≤ t.length) :
    repairSpec repl k t = t.take k ++ repairSpec repl 0 (t.drop k) := by
  induction k generalizing t with
  | zero => simp
  | succ k ih =>
    rcases t with _ | ⟨b, t'⟩
    · simp at hk
    · simp only [List.length_cons] at hk
      simp [repairSpec, ih t' (by omega)]

/-- unfolding of the greedy repair at a non-empty string -/
theorem repairSpec_step (repl s : Bytes) (hs : s ≠ []) :
    repairSpec repl 0 s =
      if wfLen s = 0 then repl ++ repairSpec repl 0 (s.drop 1)
      else s.take (wfLen s) ++ repairSpec repl 0 (s.drop (wfLen s)) := by
  rcases s with _ | ⟨b, t⟩
  · exact absurd rfl hs
  · simp only [repairSpec]
    by_cases h0 : wfLen (b :: t) = 0
    · simp [h0]
    · simp only [h0, if_false]
      have hle := (wfLen_le (b :: t)).1
      simp only [List.length_cons] at hle
      rw [repairSpec_copy' repl _ t (by omega)]
      have e2 : wfLen (b :: t) = (wfLen (b :: t) - 1) + 1 := by omega
      conv => rhs; rw [e2, List.take_succ_cons, List.drop_succ_cons]
      simp

theorem repairSpec_wellFormed_prefix (repl pre rest : Bytes) (h : WellFormed pre) :
    repairSpec repl 0 (pre ++ rest) = pre ++ repairSpec repl 0 rest := by
  induction h with
  | nil => simp
  | cons c r hc hl _ ih =>
    have hne : c ++ r ++ rest ≠ [] := by simp [hc]
    rw [repairSpec_step _ _ hne, List.append_assoc, wfLen_append c (r ++ rest) hc hl]
    have : c.length ≠ 0 := fun e => hc (List.eq_nil_of_length_eq_zero e)
    simp only [this, if_false, List.take_left', List.drop_left', ih, List.append_assoc]

theorem findValid_spec (repl tail : Bytes) :
    repairSpec repl 0 tail =
      (List.replicate (findValid tail) repl).flatten ++ repairSpec repl 0 (tail.drop (findValid tail)) := by
  induction tail with
  | nil => simp [findValid, repairSpec]
  | cons b t ih =>
    simp only [findValid, validAtHead_eq]
    by_cases h0 : wfLen (b :: t) = 0
    · simp only [h0, if_true]
      rw [repairSpec_step _ _ (by simp), if_pos h0]
      have : 1 + findValid t = findValid t + 1 := by omega
      rw [this, List.replicate_succ, List.flatten_cons, List.drop_succ_cons, List.append_assoc]
      simp only [List.drop_succ_cons, List.drop_zero]
      rw [← ih]
    · simp [h0]

/-- the repair loops of `gp_str_to_valid` compute the greedy repair -/
theorem toValid_eq_spec (repl : Bytes) (fuel : Nat) (s : Bytes) (hf : s.length < fuel) :
    toValid repl fuel s = repairSpec repl 0 s := by
  induction fuel generalizing s with
  | zero => omega
  | succ f ih =>
    simp only [toValid]
    cases hfi : findInvalid s.length s 0 with
    | none =>
      have hw := (findInvalid_none s.length s 0 (Nat.le_refl _)).1 hfi
      have := repairSpec_wellFormed_prefix repl s [] hw
      simp only [List.append_nil] at this
      rw [this]; cases s <;> simp [repairSpec]
    | some start =>
      obtain ⟨pre, post, e, hk, hwf, hne, h0⟩ := findInvalid_some s.length s 0 start (Nat.le_refl _) hfi
      have hst : start = pre.length := by omega
      subst hst
      subst e
      simp only [List.take_left', List.drop_left']
      rw [repairSpec_wellFormed_prefix repl pre post hwf, findValid_spec repl post, List.append_assoc]
      congr 2
      apply ih
      have hk1 : 1 ≤ findValid post := by
        rcases post with _ | ⟨b, t⟩
        · exact absurd rfl hne
        · simp only [findValid, validAtHead_eq, h0, if_true]; omega
      have hpos : 0 < post.length := List.length_pos_iff.mpr hne
      simp only [List.length_drop, List.length_append] at hf ⊢
      omega

/-- `gp_str_to_valid` = greedy repair: every byte that does not start / belong to a well-formed
sequence is replaced, well-formed sequences stay in place and in order -/
theorem repair_eq_spec (s repl : Bytes) : strToValid s repl = repairSpec repl 0 s :=
  toValid_eq_spec repl _ s (by omega)

theorem repairSpec_wellFormed (repl : Bytes) (hr : WellFormed repl) (n : Nat) (s : Bytes) (hn : s.length ≤ n) :
    WellFormed (repairSpec repl 0 s) := by
  induction n generalizing s with
  | zero =>
    have : s = [] := List.eq_nil_of_length_eq_zero (by omega)
    subst this; simp [repairSpec]; exact WellFormed.nil
  | succ m ih =>
    rcases s with _ | ⟨b, t⟩
    · simp [repairSpec]; exact WellFormed.nil
    · rw [repairSpec_step _ _ (by simp)]
      by_cases h0 : wfLen (b :: t) = 0
      · simp only [h0, if_true, List.drop_succ_cons, List.drop_zero]
        exact hr.append (ih t (by simp only [List.length_cons] at hn; omega))
      · simp only [h0, if_false]
        have hle := (wfLen_le (b :: t)).1
        have hc : (b :: t).take (wfLen (b :: t)) ≠ [] := by
          intro e; have := congrArg List.length e
          simp only [List.length_take, List.length_nil] at this; omega
        have h1 : WellFormed ((b :: t).take (wfLen (b :: t))) := by
          have := WellFormed.cons _ [] hc (by rw [wfLen_take _ h0]; simp only [List.length_take]; omega) WellFormed.nil
          simpa using this
        refine h1.append (ih _ ?_)
        simp only [List.length_drop, List.length_cons] at hn hle ⊢; omega

/-- the result is valid whenever the replacement is -/
theorem repair_valid (s repl : Bytes) (hr : WellFormed repl) : WellFormed (strToValid s repl) := by
  rw [repair_eq_spec]; exact repairSpec_wellFormed repl hr s.length s (Nat.le_refl _)

/-- valid input is returned unchanged -/
theorem repair_id_of_valid (s repl : Bytes) (hs : WellFormed s) : strToValid s repl = s := by
  rw [repair_eq_spec]
  have := repairSpec_wellFormed_prefix repl s [] hs
  simpa [repairSpec] using this

/-- every well-formed stretch is kept in place and in order, whatever surrounds it -/
theorem repair_keeps_wellformed (pre mid post repl : Bytes) (hp : WellFormed pre) (hm : WellFormed mid) :
    strToValid (pre ++ mid ++ post) repl = pre ++ mid ++ strToValid post repl := by
  rw [repair_eq_spec, repair_eq_spec, repairSpec_wellFormed_prefix _ _ _ (hp.append hm)]

/-- the regression witness of the repaired end-of-string test: a complete multi-byte code point as
the very last bytes is kept -/
example : strToValid [0xFF, 0xC3, 0xA4] [0x3F] = [0x3F, 0xC3, 0xA4] := by decide
example : isValidUtf8 [0xE2, 0x82] = some 0 ∧ isValidUtf8 [0xED, 0xA0, 0x80] = some 0
    ∧ isValidUtf8 [0x61, 0xF4, 0x90, 0x80, 0x80] = some 1 ∧ isValidUtf8 [0xF0, 0x9F, 0x98, 0x80] = none := by decide

end Gpc.Utf8
