/* C17 runtime for the generated programs (tools/gen_c17.py): every case is one block that runs a type-generic macro
 * form and, on separately built but identical inputs, the explicit function call it is documented to mean.
 *   <k> m <result> <flags>      result of the macro form;  flags: in=ok|CHANGED fresh=ok|... ev=ok|<counts>
 *   <k> f <result>              result of the function form
 * result formats (the Lean driver prints the same):
 *   s:<hex|->   a string          a:<v,v,..|->  an array (element values in decimal)     n:<dec|nf>  a size
 *   b:<0|1>     a truth value     i:<-1|0|1>    a sign        l:<hex,hex,..|->          a list of strings
 */
#ifndef C17_RT_H
#define C17_RT_H
#include <gpc/generic.h>
#include <gpc/memory.h>
#include <gpc/utils.h>
#include <stdio.h>
#include <stdlib.h>
#include <string.h>
#include <stdint.h>
#include <inttypes.h>

/* the explicit functions the reference overloads of gp_codepoint_count / gp_is_valid name (src/common.h) */
size_t gp_bytes_codepoint_count(const void*, size_t);
bool gp_bytes_is_valid_utf8(const void*, size_t, size_t*);

typedef int16_t T2;
typedef int32_t T4;
typedef int64_t T8;
typedef struct { int64_t a, b, c; } T24;

static int ev[128];
#define EV_RESET() memset(ev, 0, sizeof ev)
static int c17_k;

static GPArena c17_arena;
#define HEAP  gp_heap
#define ARENA (&c17_arena)

static void* c17_mark;
static void c17_init(void) { c17_arena = gp_arena_new(4096); c17_mark = gp_mem_alloc((GPAllocator*)&c17_arena, 8); }
static void c17_case_end(void) { gp_arena_rewind(&c17_arena, c17_mark); c17_mark = gp_mem_alloc((GPAllocator*)&c17_arena, 8); }

static void put_hex(const void* p, size_t n)
{
    const unsigned char* b = p;
    if (n == 0) { putchar('-'); return; }
    for (size_t i = 0; i < n; i++) printf("%02x", b[i]);
}
static void out_s(GPString s) { printf("s:"); if (s == NULL) printf("NULL"); else put_hex(s, gp_str_length(s)); }
static void out_n(size_t n) { if (n == GP_NOT_FOUND) printf("n:nf"); else printf("n:%zu", n); }
static void out_b(int b) { printf("b:%d", !!b); }
static void out_i(int i) { printf("i:%d", (i > 0) - (i < 0)); }
static void out_l(GPArray(GPString) a)
{
    printf("l:");
    if (gp_arr_length(a) == 0) putchar('-');
    for (size_t i = 0; i < gp_arr_length(a); i++) { if (i) putchar(','); put_hex(a[i], gp_str_length(a[i])); }
}
static int64_t val24(const T24* e) { return (e->b == -e->a && e->c == 3 * e->a) ? e->a : INT64_MIN; }
#define OUT_A(T) static void out_a_##T(const T* a, size_t n) { \
    printf("a:"); if (n == 0) putchar('-'); \
    for (size_t i = 0; i < n; i++) printf("%s%" PRId64, i ? "," : "", (int64_t)a[i]); }
OUT_A(T2) OUT_A(T4) OUT_A(T8)
static void out_a_T24(const T24* a, size_t n)
{
    printf("a:"); if (n == 0) putchar('-');
    for (size_t i = 0; i < n; i++) { int64_t v = val24(&a[i]); if (v == INT64_MIN) printf("%scorrupt", i ? "," : ""); else printf("%s%" PRId64, i ? "," : "", v); }
}
#define MK24(v) { (v), -(int64_t)(v), 3 * (int64_t)(v) }

/* GPString with the given contents and capacity */
static GPString mk_str(const GPAllocator* alc, size_t cap, const void* p, size_t n)
{
    GPString s = gp_str_new(alc, cap > n ? cap : n, "");
    memcpy(s, p, n);
    ((GPStringHeader*)s - 1)->length = n;
    return s;
}
static void* mk_arr(const GPAllocator* alc, size_t es, size_t cap, const void* p, size_t n)
{
    void* a = gp_arr_new(alc, es, cap > n ? cap : n);
    if (n) memcpy(a, p, n * es);
    ((GPArrayHeader*)a - 1)->length = n;
    return a;
}
static int same_str(GPString s, const void* p, size_t n) { return gp_str_length(s) == n && (n == 0 || memcmp(s, p, n) == 0); }
static int same_arr(const void* a, size_t es, const void* p, size_t n) { return gp_arr_length(a) == n && (n == 0 || memcmp(a, p, n * es) == 0); }

/* element functions for map / filter / fold */
#define ELEM_FUNCS(T) \
    static void dbl_##T(T* out, const T* in) { *out = (T)(*in * 2); } \
    static void neg_##T(T* out, const T* in) { *out = (T)(-*in); } \
    static bool even_##T(const T* in) { return (*in & 1) == 0; } \
    static bool pos_##T(const T* in) { return *in > 0; } \
    static intptr_t sum_##T(intptr_t acc, const T* in) { return (intptr_t)((uintptr_t)acc * 31u + (uintptr_t)(intptr_t)*in); }
ELEM_FUNCS(T2) ELEM_FUNCS(T4) ELEM_FUNCS(T8)
static void dbl_T24(T24* out, const T24* in) { out->a = in->a * 2; out->b = -out->a; out->c = 3 * out->a; }
static void neg_T24(T24* out, const T24* in) { out->a = -in->a; out->b = -out->a; out->c = 3 * out->a; }
static bool even_T24(const T24* in) { return (in->a & 1) == 0; }
static bool pos_T24(const T24* in) { return in->a > 0; }
static intptr_t sum_T24(intptr_t acc, const T24* in) { return (intptr_t)((uintptr_t)acc * 31u + (uintptr_t)(intptr_t)in->a); }

#endif
