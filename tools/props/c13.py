"""C13 — comparison is a consistent total order; sorting returns a sorted permutation."""
import os, sys
sys.path.insert(0, os.path.dirname(os.path.abspath(__file__)))
import vlib
import casefull_ref as CR
import gen_c12

hx = lambda b: vlib.hexs(bytes(b))
sgn = lambda x: (x > 0) - (x < 0)


def key(cps, flags, loc):
    return CR.fold(cps, loc) if "f" in flags else list(cps)


def ref_compare(a, b, flags, loc):
    ka, kb = key(a, flags, loc), key(b, flags, loc)
    r = sgn((ka > kb) - (ka < kb))
    return -r if "r" in flags else r


def oracle(case, out):
    """one case = a few cmp lines over a triple of strings (all ordered pairs) and/or one sort line"""
    dec = lambda h: CR.dec(b"" if h == "-" else bytes.fromhex(h))
    res = {}
    for l, o in zip(case, out):
        t = l.split(); r = o.split()[0]
        if t[1] == "cmp":
            flags, loc = t[2].replace("-", ""), ("" if t[3] in ("-", "null") else t[3])
            a, b = dec(t[4]), dec(t[5])
            got = int(r)
            want = ref_compare(a, b, flags, loc)
            if got != want:
                what = "code point order" if "f" not in flags else "order of the full case foldings"
                return "compare(%s, %s, flags=%r, locale=%r) = %d, %s gives %d" % (t[4], t[5], flags, loc, got, what, want)
            res[(t[4], t[5], flags, loc)] = got
        elif t[1] == "sort":
            flags, loc = t[2].replace("-", ""), ("" if t[3] in ("-", "null") else t[3])
            if "perm-bad" in o:
                return "sort(%s): the result is not a permutation of the same string objects" % l
            ins = sorted(t[4:])
            outs = r.split(",") if len(t) > 4 else []
            if sorted(outs) != ins:
                return "sort(%s): result %s is not a permutation of the input" % (l, r)
            ks = [key(dec(h), flags, loc) for h in outs]
            for x, y in zip(ks, ks[1:]):
                if ("r" in flags and x < y) or ("r" not in flags and x > y):
                    return "sort(%s): result %s is not %s under the selected comparison" % (l, r, "non-increasing" if "r" in flags else "non-decreasing")
    # order axioms over whatever pairs the case contains
    for (a, b, f, loc), v in res.items():
        w = res.get((b, a, f, loc))
        if w is not None and w != -v:
            return "compare is not antisymmetric on (%s, %s) flags=%r: %d and %d" % (a, b, f, v, w)
    return None


def compare_lines(a, b):
    """cmp lines: the sign must agree; sort lines: the same multiset (the order among equal keys is not determined,
    the oracle checks sortedness)"""
    for x, y in zip(a, b):
        x0, y0 = x.split()[0], y.split()[0]
        if "," in x0 or "," in y0:
            if sorted(x0.split(",")) != sorted(y0.split(",")): return False
        elif x0 != y0: return False
    return len(a) == len(b)


def gen(ctx):
    r = ctx.rng; quick = ctx.tier == "quick"
    u = CR.ucd()
    folds = sorted(u.full["Case_Folding_full"])
    letters = [0x61, 0x41, 0x62, 0x42, 0x7A, 0x5A, 0xE4, 0xC4, 0xDF, 0x1E9E, 0x3A3, 0x3C3, 0x3C2, 0x130, 0x131, 0x49, 0x69,
               0x10400, 0x10428, 0x13A0, 0xAB70, 0x13F8, 0x13F0, 0x1F80, 0x1F88, 0xFB03, 0x20, 0x31, 0x4E00, 0x1F600, 0x7F, 0x80, 0x7FF, 0x800, 0xFFFF, 0x10000]
    def rs(n):
        return [r.choice(folds) if r.random() < 0.2 else r.choice(letters) for _ in range(n)]
    def with_nul(s):
        """U+0000 is a valid code point of a GPString; wcscoll() cannot see past it, so not under collation"""
        if s and r.random() < 0.15:
            s = list(s); s.insert(r.randrange(len(s) + 1), 0)
        return s
    def variant(s):
        k = r.random()
        if k < 0.25: return list(s)
        if k < 0.45: return s[:r.randrange(len(s) + 1)]
        if k < 0.6: return s + rs(r.randrange(1, 3))
        if k < 0.8:   # case variant
            return [r.choice([c, u.simple["Simple_Uppercase_Mapping"].get(c, c), u.simple["Simple_Lowercase_Mapping"].get(c, c)]) for c in s]
        if k < 0.9 and s:
            t = list(s); t[r.randrange(len(t))] = r.choice(letters); return t
        return CR.fold(s, "")
    cases = []
    flagsets = ["-", "f", "r", "fr", "c", "cr", "fc", "fcr"]
    for _ in range(2500 if quick else 80000):
        a = rs(r.randrange(0, 7)); b = variant(a); c = variant(b)
        loc = r.choice(["-", "-", "en", "tr", "az", "null"])      # "null": a NULL locale code, documented as the global locale
        fl = r.choice(flagsets)
        if "c" in fl: loc = r.choice(["-", "-", "tr", "xx_XX"])     # no such locale is installed: collation falls back to the global C.UTF-8
        if "c" not in fl:
            a = with_nul(a); b = with_nul(b) if r.random() < 0.5 else (a[:a.index(0) + 1] + b if 0 in a else b)
        strs = [hx(CR.enc(x)) for x in (a, b, c)]
        lines = ["cf cmp %s %s %s %s" % (fl, loc, x, y) for x in strs for y in strs]
        cases.append(lines)
    for _ in range(800 if quick else 30000):
        n = r.choice([0, 1, 2, 3, 5, 8, 20, 60])
        loc = r.choice(["-", "-", "tr", "null"])
        fl = r.choice(flagsets)
        if "c" in fl: loc = r.choice(["-", "-", "tr", "xx_XX", "null"])
        base = [rs(r.randrange(0, 5)) for _ in range(max(1, n // 2))]
        if "c" not in fl:
            # strings that agree up to an embedded U+0000 and differ behind it
            base = [b[:1] + [0] + b[1:] if r.random() < 0.3 else b for b in base]
        strs = [variant(r.choice(base)) for _ in range(n)]
        if "c" in fl: strs = [[c for c in x if c != 0] for x in strs]
        cases.append(["cf sort %s %s %s" % (fl, loc, " ".join(hx(CR.enc(s)) for s in strs))])
    # long operands whose folding outgrows their UTF-8 size (U+0390 and U+03B0: 2 bytes, 3 code points folded), equal up to
    # a short tail: the folded copies have to grow while they are being built
    grow = [0x390, 0x3B0]
    tails = [[0x62], [0x41], [0x61, 0x62], [], [0x5A], [0x3C3], [0x42, 0x61]]
    for _ in range(60 if quick else 3000):
        k = r.choice([6, 8, 10, 11, 12, 16, 24, 40, 100])
        P = [r.choice(grow) if r.random() < 0.9 else r.choice([0xDF, 0xFB03, 0x61, 0x130]) for _ in range(k)]
        strs = [P + r.choice(tails) for _ in range(r.choice([2, 3, 5, 8]))]
        if r.random() < 0.3: strs.append(rs(3))
        fl = r.choice(["f", "f", "fr", "fc"]); loc = r.choice(["-", "-", "tr"])
        hs = [hx(CR.enc(x)) for x in strs]
        lines = ["cf sort %s %s %s" % (fl, loc, " ".join(hs))]
        lines += ["cf cmp %s %s %s %s" % (fl, loc, x, y) for x in hs[:3] for y in hs[:3]]
        cases.append(lines)
    return cases


def run(ctx):
    ctx.rules.append("a case = all 9 ordered comparisons over a triple of related strings (equal, prefix, extension, case variant, "
                     "one code point changed, already folded; different UTF-8 widths at the first difference; full-folding "
                     "expansions; embedded U+0000) under one flag set of {plain, fold, collate in C.UTF-8, reverse and their "
                     "combinations} and locale ('', en, tr, az), or one sort of 0..60 strings with duplicates; s2 of a comparison "
                     "is an exact-size plain buffer; T-gen of the folding table over every code point; non-trivial = all")
    ctx.assumptions += ["only the C.UTF-8 collation is available in this sandbox (no other locale is installed)",
                        "operands are valid UTF-8 shorter than 2^31 bytes", "qsort / wcscmp / wcscoll are trusted"]
    ext = ctx.build_harness("c12_extract", exclude=("unicode",), san=False, tag="nosan", extra=("-O1",))
    rc, out, err = vlib.sh([ext], timeout=600)
    if rc != 0:
        raise vlib.InfraError("c12_extract failed: " + err[-500:])
    t, preds, problems, changed = gen_c12.write_generated(out)
    ctx.extra_cov["generated_tables_changed"] = changed
    ctx.exhaustive = True
    spec = gen_c12.ucd_tables()
    for k in ("FoldN", "FoldTr"):
        d, g = spec[k], t.get(k, {})
        for c in sorted(set(d) | set(g)):
            if d.get(c) != g.get(c):
                loc = "-" if k == "FoldN" else "tr"
                other = CR.fold([c], "" if k == "FoldN" else "tr")
                ctx.add_witness("t-gen", ["cf cmp f %s %s %s" % (loc, hx(CR.enc([c])), hx(CR.enc(other)))], [], [],
                                "full case folding of U+%04X (locale %s) is %s, Unicode CaseFolding gives %s" % (
                                    c, loc, g.get(c, "its simple lowercase"), d.get(c, "its simple lowercase")))
                break
    exe = ctx.build_harness("c12")
    ctx.build_model()
    ctx.prove()
    cases = ctx.replay_cases if ctx.replay_cases is not None else (vlib.load_corpus("C13") + gen(ctx))
    ctx.correspond("compare-sort", exe, cases, oracle=oracle, compare=compare_lines, nontrivial=lambda c: True)
