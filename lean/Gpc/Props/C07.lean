import Gpc.Model.Utf
import Gpc.Spec.Utf8
import Gpc.Proofs.Utf8
import Gpc.Proofs.Utf
/-!
# C07 — UTF-8/16/32 conversions are the standard encoding forms and round-trip
-/
set_option maxRecDepth 8192

namespace Gpc.Utf
open Gpc.Utf8

theorem ofNat_toNat (n : Nat) (h : n < 256) : (UInt8.ofNat n).toNat = n := by
  rw [UInt8.toNat_ofNat']; exact Nat.mod_eq_of_lt h

theorem unpack1 (c : Nat) (h : c ≤ 0x7F) : unpackCp c = c := by
  unfold unpackCp
  have : ¬ c > 0x7F := by omega
  simp only [this, if_false]

/-! ## single code point encode / decode are mutually inverse -/

/-- decoding the bytes just produced gives the code point back (every value below 0x110000;
in particular every Unicode scalar value), reading exactly those bytes -/
theorem decode_encode (c : Nat) (hc : c < 0x110000) (rest : Bytes) :
    decodeU8 (encodeU8 c ++ rest) = some (c, (encodeU8 c).length) := by
  unfold encodeU8
  rw [encNat_eq c (by omega)]
  by_cases h1 : c < 0x80
  · simp only [h1, if_true, List.map_cons, List.map_nil, List.cons_append, List.nil_append, decodeU8]
    have hb : (UInt8.ofNat c).toNat = c := ofNat_toNat c (by omega)
    have hl : cpLen (UInt8.ofNat c) = 1 := by rw [cpLen_eq, hb]; simp [h1]
    simp only [hl, List.length_cons]
    have : ¬ 1 > rest.length + 1 := by omega
    simp only [this, if_false, List.take_succ_cons, List.take_zero, pack1, hb, List.length_nil]
    rw [unpack1 c (by omega)]
  by_cases h2 : c < 0x800
  · simp only [h1, h2, if_true, if_false, List.map_cons, List.map_nil, List.cons_append, List.nil_append, decodeU8]
    have hb0 : (UInt8.ofNat (0xC0 + c / 64)).toNat = 0xC0 + c / 64 := ofNat_toNat _ (by omega)
    have hb1 : (UInt8.ofNat (0x80 + c % 64)).toNat = 0x80 + c % 64 := ofNat_toNat _ (by omega)
    have hl : cpLen (UInt8.ofNat (0xC0 + c / 64)) = 2 := by
      rw [cpLen_eq, hb0]; (repeat' split) <;> omega
    simp only [hl, List.length_cons]
    have : ¬ 2 > rest.length + 1 + 1 := by omega
    simp only [this, if_false, List.take_succ_cons, List.take_zero, pack2, hb0, hb1, List.length_nil]
    rw [unpack2 _ _ (by omega) (by omega) (by omega)]
    congr 2; omega
  by_cases h3 : c < 0x10000
  · simp only [h1, h2, h3, if_true, if_false, List.map_cons, List.map_nil, List.cons_append, List.nil_append, decodeU8]
    have hb0 : (UInt8.ofNat (0xE0 + c / 4096)).toNat = 0xE0 + c / 4096 := ofNat_toNat _ (by omega)
    have hb1 : (UInt8.ofNat (0x80 + c / 64 % 64)).toNat = 0x80 + c / 64 % 64 := ofNat_toNat _ (by omega)
    have hb2 : (UInt8.ofNat (0x80 + c % 64)).toNat = 0x80 + c % 64 := ofNat_toNat _ (by omega)
    have hl : cpLen (UInt8.ofNat (0xE0 + c / 4096)) = 3 := by
      rw [cpLen_eq, hb0]; (repeat' split) <;> omega
    simp only [hl, List.length_cons]
    have : ¬ 3 > rest.length + 1 + 1 + 1 := by omega
    simp only [this, if_false, List.take_succ_cons, List.take_zero, pack3, hb0, hb1, hb2, List.length_nil]
    rw [unpack3 _ _ _ (by omega) (by omega) (by omega) (by omega)]
    congr 2; omega
  · simp only [h1, h2, h3, if_false, List.map_cons, List.map_nil, List.cons_append, List.nil_append, decodeU8]
    have hb0 : (UInt8.ofNat (0xF0 + c / 262144)).toNat = 0xF0 + c / 262144 := ofNat_toNat _ (by omega)
    have hb1 : (UInt8.ofNat (0x80 + c / 4096 % 64)).toNat = 0x80 + c / 4096 % 64 := ofNat_toNat _ (by omega)
    have hb2 : (UInt8.ofNat (0x80 + c / 64 % 64)).toNat = 0x80 + c / 64 % 64 := ofNat_toNat _ (by omega)
    have hb3 : (UInt8.ofNat (0x80 + c % 64)).toNat = 0x80 + c % 64 := ofNat_toNat _ (by omega)
    have hl : cpLen (UInt8.ofNat (0xF0 + c / 262144)) = 4 := by
      rw [cpLen_eq, hb0]; (repeat' split) <;> omega
    simp only [hl, List.length_cons]
    have : ¬ 4 > rest.length + 1 + 1 + 1 + 1 := by omega
    simp only [this, if_false, List.take_succ_cons, List.take_zero, pack4, hb0, hb1, hb2, hb3, List.length_nil]
    rw [unpack4 _ _ _ _ (by omega) (by omega) (by omega) (by omega) (by omega)]
    congr 2; omega

/-- a Unicode scalar value: below 0x110000 and not a surrogate -/
def IsScalar (c : Nat) : Prop := c < 0x110000 ∧ ¬ (0xD800 ≤ c ∧ c ≤ 0xDFFF)

theorem u8_eq_of_toNat (a : UInt8) (n : Nat) (h : a.toNat = n) : UInt8.ofNat n = a := by
  subst h; exact UInt8.ofNat_toNat

/-- a Table 3-7 sequence decodes to a scalar value whose encoding is that very sequence
(so no well-formed sequence has two readings and overlong forms never arise) -/
theorem encode_decode (s : Bytes) (hs : s ≠ []) (hw : wfLen s = s.length) :
    ∃ c, decodeU8 s = some (c, s.length) ∧ encodeU8 c = s ∧ IsScalar c := by
  rcases s with _ | ⟨b0, _ | ⟨b1, _ | ⟨b2, _ | ⟨b3, _ | ⟨b4, r⟩⟩⟩⟩⟩
  · exact absurd rfl hs
  · -- one byte
    simp only [wfLen, List.length_cons, List.length_nil] at hw
    have h0 : b0.toNat ≤ 0x7F := by
      (repeat' split at hw) <;> omega
    refine ⟨b0.toNat, ?_, ?_, by unfold IsScalar; omega⟩
    · have hl : cpLen b0 = 1 := by rw [cpLen_eq]; (repeat' split) <;> omega
      simp [decodeU8, hl, pack1, unpack1 _ h0]
    · unfold encodeU8; rw [encNat_eq _ (by omega)]
      have : b0.toNat < 0x80 := by omega
      simp [this]
  · -- two bytes
    simp only [wfLen, List.length_cons, List.length_nil] at hw
    have hb1 := b1.toNat_lt
    have h : 0xC2 ≤ b0.toNat ∧ b0.toNat ≤ 0xDF ∧ cont b1 := by
      (repeat' split at hw) <;> (try simp only [cont] at *) <;> omega
    obtain ⟨h0, h0', hc1⟩ := h
    unfold cont at hc1
    have hl : cpLen b0 = 2 := by rw [cpLen_eq]; (repeat' split) <;> omega
    refine ⟨(b0.toNat % 64) * 64 + b1.toNat % 64, ?_, ?_, by unfold IsScalar; omega⟩
    · simp [decodeU8, hl, pack2, unpack2 b0.toNat b1.toNat (by omega) (by omega) hb1]
    · unfold encodeU8; rw [encNat_eq _ (by omega)]
      have c1 : ¬ (b0.toNat % 64) * 64 + b1.toNat % 64 < 0x80 := by omega
      have c2 : (b0.toNat % 64) * 64 + b1.toNat % 64 < 0x800 := by omega
      simp only [c1, c2, if_true, if_false, List.map_cons, List.map_nil]
      rw [u8_eq_of_toNat b0 _ (by omega), u8_eq_of_toNat b1 _ (by omega)]
  · -- three bytes
    simp only [wfLen, List.length_cons, List.length_nil] at hw
    have h : 0xE0 ≤ b0.toNat ∧ b0.toNat ≤ 0xEF ∧ sec3 b0.toNat b1 ∧ cont b2 := by
      (repeat' split at hw) <;> (try simp only [cont, sec3] at *) <;> omega
    obtain ⟨h0, h0', hs3, hc2⟩ := h
    unfold sec3 cont at hs3; unfold cont at hc2
    have hl : cpLen b0 = 3 := by rw [cpLen_eq]; (repeat' split) <;> omega
    refine ⟨(b0.toNat % 16) * 4096 + (b1.toNat % 64) * 64 + b2.toNat % 64, ?_, ?_, by unfold IsScalar; omega⟩
    · simp [decodeU8, hl, pack3, unpack3 b0.toNat b1.toNat b2.toNat h0 h0' (by omega) (by omega)]
    · unfold encodeU8; rw [encNat_eq _ (by omega)]
      have c1 : ¬ (b0.toNat % 16) * 4096 + (b1.toNat % 64) * 64 + b2.toNat % 64 < 0x80 := by omega
      have c2 : ¬ (b0.toNat % 16) * 4096 + (b1.toNat % 64) * 64 + b2.toNat % 64 < 0x800 := by omega
      have c3 : (b0.toNat % 16) * 4096 + (b1.toNat % 64) * 64 + b2.toNat % 64 < 0x10000 := by omega
      simp only [c1, c2, c3, if_true, if_false, List.map_cons, List.map_nil]
      rw [u8_eq_of_toNat b0 _ (by omega), u8_eq_of_toNat b1 _ (by omega), u8_eq_of_toNat b2 _ (by omega)]
  · -- four bytes
    simp only [wfLen, List.length_cons, List.length_nil] at hw
    have h : 0xF0 ≤ b0.toNat ∧ b0.toNat ≤ 0xF4 ∧ sec4 b0.toNat b1 ∧ cont b2 ∧ cont b3 := by
      (repeat' split at hw) <;> (try simp only [cont, sec4] at *) <;> omega
    obtain ⟨h0, h0', hs4, hc2, hc3⟩ := h
    unfold sec4 cont at hs4; unfold cont at hc2 hc3
    have hl : cpLen b0 = 4 := by rw [cpLen_eq]; (repeat' split) <;> omega
    refine ⟨(b0.toNat % 8) * 262144 + (b1.toNat % 64) * 4096 + (b2.toNat % 64) * 64 + b3.toNat % 64,
      ?_, ?_, by unfold IsScalar; omega⟩
    · simp [decodeU8, hl, pack4, unpack4 b0.toNat b1.toNat b2.toNat b3.toNat h0 (by omega) b1.toNat_lt b2.toNat_lt b3.toNat_lt]
    · unfold encodeU8; rw [encNat_eq _ (by omega)]
      have c1 : ¬ (b0.toNat % 8) * 262144 + (b1.toNat % 64) * 4096 + (b2.toNat % 64) * 64 + b3.toNat % 64 < 0x80 := by omega
      have c2 : ¬ (b0.toNat % 8) * 262144 + (b1.toNat % 64) * 4096 + (b2.toNat % 64) * 64 + b3.toNat % 64 < 0x800 := by omega
      have c3 : ¬ (b0.toNat % 8) * 262144 + (b1.toNat % 64) * 4096 + (b2.toNat % 64) * 64 + b3.toNat % 64 < 0x10000 := by omega
      simp only [c1, c2, c3, if_false, List.map_cons, List.map_nil]
      rw [u8_eq_of_toNat b0 _ (by omega), u8_eq_of_toNat b1 _ (by omega), u8_eq_of_toNat b2 _ (by omega),
          u8_eq_of_toNat b3 _ (by omega)]
  · -- five or more bytes: no Table 3-7 sequence is that long
    have := (wfLen_le (b0 :: b1 :: b2 :: b3 :: b4 :: r)).2
    simp only [List.length_cons] at hw; omega

/-! ## strings: UTF-8 ↔ UTF-32, independent of the destination's capacity, writes in bounds -/

theorem encodeU8_length (c : Nat) : (encodeU8 c).length = byteLen c := by
  unfold encodeU8 encNat byteLen
  simp only [List.length_map]
  (repeat' split) <;> simp

theorem byteLen_pos (c : Nat) : 1 ≤ byteLen c ∧ byteLen c ≤ 4 := by
  unfold byteLen; (repeat' split) <;> omega

theorem encodeU8_ne_nil (c : Nat) : encodeU8 c ≠ [] := by
  intro e; have := congrArg List.length e
  rw [encodeU8_length, List.length_nil] at this; have := byteLen_pos c; omega

/-- every well-formed string is the UTF-8 encoding form of a unique list of scalar values -/
theorem wellFormed_is_encoding (s : Bytes) (h : WellFormed s) :
    ∃ cps : List Nat, (∀ c ∈ cps, IsScalar c) ∧ s = cps.flatMap encodeU8 := by
  induction h with
  | nil => exact ⟨[], by simp, by simp⟩
  | cons c rest hc hl _ ih =>
    obtain ⟨cps, h1, h2⟩ := ih
    obtain ⟨cp, _, he, hsc⟩ := encode_decode c hc hl
    refine ⟨cp :: cps, ?_, by simp [he, h2]⟩
    intro x hx
    rcases List.mem_cons.1 hx with e | e
    · rw [e]; exact hsc
    · exact h1 x e

theorem decodeAll_encoding (cps : List Nat) (hc : ∀ c ∈ cps, c < 0x110000) (fuel : Nat)
    (hf : (cps.flatMap encodeU8).length ≤ fuel) : decodeAll fuel (cps.flatMap encodeU8) = some cps := by
  induction cps generalizing fuel with
  | nil => cases fuel <;> simp [decodeAll]
  | cons c cs ih =>
    have hcc : c < 0x110000 := hc c (List.mem_cons_self)
    have hne := encodeU8_ne_nil c
    have hlen := encodeU8_length c
    have hpos := byteLen_pos c
    simp only [List.flatMap_cons, List.length_append] at hf ⊢
    cases fuel with
    | zero => omega
    | succ f =>
      simp only [decodeAll]
      cases hE : encodeU8 c ++ cs.flatMap encodeU8 with
      | nil => simp at hE; exact absurd hE.1 hne
      | cons b t =>
        simp only []
        rw [← hE, decode_encode c hcc]
        have hn0 : ¬ (encodeU8 c).length = 0 := by omega
        simp only [hn0, if_false, List.drop_left']
        rw [ih (fun x hx => hc x (List.mem_cons_of_mem _ hx)) f (by omega)]
        simp

theorem u32Fast_encoding (cps : List Nat) (hc : ∀ c ∈ cps, c < 0x110000) (cap : Nat) :
    u32Fast cap (cps.flatMap encodeU8) = some (cps.take cap, (cps.drop cap).flatMap encodeU8) := by
  induction cap generalizing cps with
  | zero => simp [u32Fast]
  | succ k ih =>
    cases cps with
    | nil => simp [u32Fast]
    | cons c cs =>
      have hcc : c < 0x110000 := hc c (List.mem_cons_self)
      have hne := encodeU8_ne_nil c
      have hlen := encodeU8_length c
      have hpos := byteLen_pos c
      simp only [List.flatMap_cons, u32Fast]
      cases hE : encodeU8 c ++ cs.flatMap encodeU8 with
      | nil => simp at hE; exact absurd hE.1 hne
      | cons b t =>
        simp only []
        rw [← hE, decode_encode c hcc]
        have hn0 : ¬ (encodeU8 c).length = 0 := by omega
        simp only [hn0, if_false, List.drop_left']
        rw [ih cs (fun x hx => hc x (List.mem_cons_of_mem _ hx))]
        simp

/-- UTF-8 → UTF-32 yields exactly the scalar values, whatever capacity the destination had -/
theorem utf8_to_utf32_spec (cps : List Nat) (hc : ∀ c ∈ cps, c < 0x110000) (cap : Nat) :
    utf8ToUtf32 cap (cps.flatMap encodeU8) = some cps := by
  unfold utf8ToUtf32
  rw [u32Fast_encoding cps hc cap]
  simp only []
  rw [decodeAll_encoding (cps.drop cap) (fun x hx => hc x (List.mem_of_mem_drop hx)) _ (Nat.le_refl _)]
  simp

theorem u8Fast_spec (cap len : Nat) (cps : List Nat) :
    ∃ k, (u8Fast cap len cps).1 = (cps.take k).flatMap encodeU8 ∧ (u8Fast cap len cps).2 = cps.drop k
      ∧ len + (u8Fast cap len cps).1.length ≤ max cap len := by
  induction cps generalizing len with
  | nil => exact ⟨0, by simp [u8Fast], by simp [u8Fast], by simp [u8Fast]; omega⟩
  | cons c cs ih =>
    simp only [u8Fast]
    by_cases hg : len + 4 ≤ cap
    · obtain ⟨k, h1, h2, h3⟩ := ih (len + (encodeU8 c).length)
      have hl := encodeU8_length c
      have hp := byteLen_pos c
      refine ⟨k + 1, ?_, ?_, ?_⟩
      · simp [hg, h1]
      · simp [hg, h2]
      · simp only [hg, if_true, List.length_append]; omega
    · exact ⟨0, by simp [hg], by simp [hg], by simp [hg]; omega⟩

theorem u8Slow_spec (cap len : Nat) (cps : List Nat) (h : len + (cps.map byteLen).sum ≤ cap) :
    u8Slow cap len cps = some (cps.flatMap encodeU8) := by
  induction cps generalizing len with
  | nil => simp [u8Slow]
  | cons c cs ih =>
    simp only [List.map_cons, List.sum_cons] at h
    have hl := encodeU8_length c
    simp only [u8Slow]
    have : len + (encodeU8 c).length ≤ cap := by omega
    simp only [this, if_true]
    rw [ih (len + (encodeU8 c).length) (by omega)]
    simp

/-- UTF-32 → UTF-8 produces the concatenated encodings for every initial capacity, and no write
leaves the capacity current at that time (the model's checked writes never fail) -/
theorem utf32_to_utf8_spec (cap : Nat) (cps : List Nat) :
    utf32ToUtf8 cap cps = some (cps.flatMap encodeU8) := by
  unfold utf32ToUtf8
  obtain ⟨k, h1, h2, h3⟩ := u8Fast_spec cap 0 cps
  generalize hu : u8Fast cap 0 cps = u at h1 h2 h3
  obtain ⟨o, r⟩ := u
  simp only [] at h1 h2 h3 ⊢
  rw [u8Slow_spec _ _ _ (by omega)]
  subst h1 h2
  simp only [Option.map_some, Option.some.injEq]
  rw [← List.flatMap_append, List.take_append_drop]

/-- fast loop writes stay inside the initial capacity -/
theorem fast_loop_in_bounds (cap : Nat) (cps : List Nat) : (u8Fast cap 0 cps).1.length ≤ cap := by
  obtain ⟨_, _, _, h3⟩ := u8Fast_spec cap 0 cps; omega

/-- round trip: valid UTF-8 → UTF-32 → UTF-8 gives the original bytes, for any capacities -/
theorem utf8_utf32_roundtrip (s : Bytes) (h : WellFormed s) (cap cap' : Nat) :
    ∃ cps, utf8ToUtf32 cap s = some cps ∧ (∀ c ∈ cps, IsScalar c) ∧ utf32ToUtf8 cap' cps = some s := by
  obtain ⟨cps, h1, h2⟩ := wellFormed_is_encoding s h
  refine ⟨cps, ?_, h1, ?_⟩
  · rw [h2]; exact utf8_to_utf32_spec cps (fun c hc => (h1 c hc).1) cap
  · rw [utf32_to_utf8_spec, h2]

/-- round trip the other way: scalar values → UTF-8 → the same scalar values -/
theorem utf32_utf8_roundtrip (cps : List Nat) (hc : ∀ c ∈ cps, IsScalar c) (cap cap' : Nat) :
    ∃ s, utf32ToUtf8 cap cps = some s ∧ utf8ToUtf32 cap' s = some cps :=
  ⟨_, utf32_to_utf8_spec cap cps, utf8_to_utf32_spec cps (fun c h => (hc c h).1) cap'⟩

/-! ## UTF-16: surrogate pairs for every supplementary plane -/

/-- the UTF-16 encoding form of the Unicode Standard (D91) -/
def utf16Spec (c : Nat) : List Nat :=
  if c < 0x10000 then [c] else [0xD800 + (c - 0x10000) / 1024, 0xDC00 + (c - 0x10000) % 1024]

theorem encodeU16_eq_spec (c : Nat) (hc : c < 0x110000) : encodeU16 c = utf16Spec c := by
  unfold encodeU16 utf16Spec
  by_cases h : c < 0x10000
  · have : c ≤ 0xFFFF := by omega
    simp [h, this]
  · have h' : ¬ c ≤ 0xFFFF := by omega
    simp only [h, h', if_false]
    have hlt : (c - 0x10000) / 1024 < 2 ^ 10 := by omega
    have e1 : (c - 0x10000) >>> 10 = (c - 0x10000) / 1024 := by
      rw [Nat.shiftRight_eq_div_pow]
    have e2 : (c - 0x10000) &&& 0x3FF = (c - 0x10000) % 1024 := Nat.and_two_pow_sub_one_eq_mod _ 10
    have hm : (c - 0x10000) % 1024 < 2 ^ 10 := Nat.mod_lt _ (by decide)
    have o1 := or_fields 54 ((c - 0x10000) / 1024) 10 hlt
    have o2 := or_fields 55 ((c - 0x10000) % 1024) 10 hm
    rw [e1, e2, Nat.or_comm, Nat.or_comm ((c - 0x10000) % 1024)]
    simp only [show (54 * 2 ^ 10 : Nat) = 0xD800 from rfl, show (55 * 2 ^ 10 : Nat) = 0xDC00 from rfl] at o1 o2
    rw [o1, o2]

theorem joinSurrogates_eq (h l : Nat) (hh : h < 1024) (hl : l < 1024) :
    joinSurrogates (0xD800 + h) (0xDC00 + l) = 0x10000 + h * 1024 + l := by
  unfold joinSurrogates
  have a1 : (0xD800 + h) &&& (0xFFFF - 0xD800) = h := by
    have := and_concat_pow 10 54 h 9 1023 (by omega) (by omega)
    have e1 : (54 * 2 ^ 10 + h) = 0xD800 + h := by omega
    have e2 : (9 * 2 ^ 10 + 1023 : Nat) = 0xFFFF - 0xD800 := by decide
    rw [e1, e2] at this
    rw [this]
    have : h &&& 1023 = h % 1024 := Nat.and_two_pow_sub_one_eq_mod h 10
    rw [this]
    have : (54 &&& 9 : Nat) = 0 := by decide
    rw [this]; omega
  have a2 : (0xDC00 + l) &&& (0xFFFF - 0xDC00) = l := by
    have := and_concat_pow 10 55 l 8 1023 (by omega) (by omega)
    have e1 : (55 * 2 ^ 10 + l) = 0xDC00 + l := by omega
    have e2 : (8 * 2 ^ 10 + 1023 : Nat) = 0xFFFF - 0xDC00 := by decide
    rw [e1, e2] at this
    rw [this]
    have : l &&& 1023 = l % 1024 := Nat.and_two_pow_sub_one_eq_mod l 10
    rw [this]
    have : (55 &&& 8 : Nat) = 0 := by decide
    rw [this]; omega
  rw [a1, a2, Nat.shiftLeft_eq, or_fields h l 10 (by omega)]
  omega

/-- UTF-16 decoding of the UTF-16 encoding gives the scalar value back (all 17 planes) -/
theorem utf16_roundtrip1 (c : Nat) (hc : IsScalar c) (rest : List Nat) (fuel : Nat) :
    decodeU16 (fuel + 2) (encodeU16 c ++ rest) = (decodeU16 (fuel + 1) rest).map (c :: ·) := by
  rw [encodeU16_eq_spec c hc.1]
  unfold utf16Spec IsScalar at *
  by_cases h : c < 0x10000
  · simp only [h, if_true, List.cons_append, List.nil_append, decodeU16]
    have : c < 0x800 ∨ c ≤ 0xD7FF ∨ 0xE000 ≤ c := by omega
    simp [this]
  · simp only [h, if_false, List.cons_append, List.nil_append, decodeU16]
    have hne : ¬ (0xD800 + (c - 0x10000) / 1024 < 0x800 ∨ 0xD800 + (c - 0x10000) / 1024 ≤ 0xD7FF
        ∨ 0xE000 ≤ 0xD800 + (c - 0x10000) / 1024) := by omega
    simp only [hne, if_false]
    rw [joinSurrogates_eq _ _ (by omega) (Nat.mod_lt _ (by decide))]
    have : 0x10000 + (c - 0x10000) / 1024 * 1024 + (c - 0x10000) % 1024 = c := by omega
    rw [this]

/-- plane 2 and plane 16 witnesses of the repaired surrogate arithmetic -/
example : encodeU16 0x20000 = [0xD840, 0xDC00] ∧ encodeU16 0x10FFFF = [0xDBFF, 0xDFFF]
    ∧ joinSurrogates 0xD840 0xDC00 = 0x20000 := by decide

end Gpc.Utf
