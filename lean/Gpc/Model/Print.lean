import Gpc.Model.Printf
/-
Model of the type-directed print family (src/common.c gp_convert_va_arg / gp_bytes_print_objects,
src/bytes.c, src/string.c and src/io.c front ends): every object is rendered at `out + length` with
the limit `n >= length ? n - length : 0`, which is the room left in the bounded string.
-/
namespace Gpc.Printf
open Gpc.PF (PF)

/-- an argument of a print call: the GPType letter of the harness protocol and the value passed -/
structure Obj where
  kind : Char
  val : Arg
deriving Repr

/-- `pf_str_reverse_copy` at the current position: digits clipped to the room left, terminator if it fits -/
def writeRev (p : PF) (ds : Bytes) : Option PF := do
  let d ← PF.reverseCopy p.data p.length ds (PF.capLeft p)
  pure { data := d, length := p.length + ds.length }

/-- `pf_itoa(limit, out, v)` -/
def writeItoa (p : PF) (v : Int) : Option PF := do
  let p ← if v < 0 then PF.push p 45 else some p
  writeRev p (PF.digits 10 false v.natAbs)

def toSigned (bits : Nat) (raw : Nat) : Int :=
  let v : Nat := raw % 2 ^ bits
  if v ≥ 2 ^ (bits - 1) then (v : Int) - (2 ^ bits : Nat) else v

/-- the default `%g` of `pf_gtoa` -/
def gSpec : Spec := { conv := 'g' }

/-- `gp_count_fmt_specs`: the number of arguments a format string consumes -/
def countFmtSpecs : Bytes → Nat → Nat
  | _, 0 => 0
  | [], _ => 0
  | 37 :: 37 :: r, fuel + 1 => countFmtSpecs r fuel
  | 37 :: r, fuel + 1 =>
    -- up to the first conversion character: every '*' is one more argument
    let isConv (b : UInt8) : Bool := [99, 115, 83, 100, 105, 111, 120, 88, 117, 102, 70, 101, 69, 103, 71, 112].contains b
    let pre := r.takeWhile (fun b => !isConv b)
    (pre.filter (· = 42)).length + 1 + countFmtSpecs r fuel
  | _ :: r, fuel + 1 => countFmtSpecs r fuel

/-- an embedded format string: `pf_vsnprintf_consuming(out + length, limit, fmt, args)` on the window -/
def writeFormat (p : PF) (fmt : Bytes) (args : List Arg) : Option (Option PF) :=
  let k := min p.length p.cap
  let window : PF := { data := p.data.drop k, length := 0 }
  match vsnprintf (fmt.length + 1) window fmt args with
  | none => none
  | some none => some none
  | some (some w) =>
    match finish w with
    | none => none
    | some w => some (some { data := p.data.take k ++ w.data, length := p.length + w.length })

/-- `gp_convert_va_arg(limit, out + length, args, type)` -/
def printObj (p : PF) (o : Obj) : Option (Option PF) :=
  match o.kind, o.val with
  | 'c', .int raw | 'a', .int raw | 'A', .int raw => (PF.push p (UInt8.ofNat (raw % 256))).map some
  | 'H', .int raw | 'I', .int raw => (PF.writeUInt p 10 false none (raw % 2 ^ 32)).map some
  | 'L', .int raw | 'Q', .int raw => (PF.writeUInt p 10 false none (raw % 2 ^ 64)).map some
  | 'b', .int raw => (PF.concat p (ascii (if raw % 2 ^ 32 ≠ 0 then "true" else "false"))).map some
  | 'h', .int raw | 'i', .int raw => (writeItoa p (toSigned 32 raw)).map some
  | 'l', .int raw | 'q', .int raw => (writeItoa p (toSigned 64 raw)).map some
  | 'f', .dbl bits | 'd', .dbl bits => (PF.writeFloat p (floatPlan gSpec bits).1).map some
  | 't', .str s => (PF.concat p (cstrlen s)).map some
  | 'g', .str s => (PF.concat p s).map some
  | 'p', .int raw =>
    if raw % 2 ^ 64 ≠ 0 then ((PF.concat p [48, 120]).bind fun p => PF.writeUInt p 16 false none (raw % 2 ^ 64)).map some
    else (PF.concat p (ascii "(nil)")).map some
  | _, _ => some none

/-- the text of one object (`%g`, decimal integers, true/false, verbatim characters and strings) -/
def objText (o : Obj) : Option Bytes :=
  match o.kind, o.val with
  | 'c', .int raw | 'a', .int raw | 'A', .int raw => some [UInt8.ofNat (raw % 256)]
  | 'H', .int raw | 'I', .int raw => some (natDigits 10 false (raw % 2 ^ 32))
  | 'L', .int raw | 'Q', .int raw => some (natDigits 10 false (raw % 2 ^ 64))
  | 'b', .int raw => some (ascii (if raw % 2 ^ 32 ≠ 0 then "true" else "false"))
  | 'h', .int raw | 'i', .int raw => some (fmtSigned { conv := 'd' } raw)
  | 'l', .int raw | 'q', .int raw => some (fmtSigned { conv := 'd', len := .ll } raw)
  | 'f', .dbl bits | 'd', .dbl bits => some (fmtFloat gSpec bits)
  | 't', .str s => some (cstrlen s)
  | 'g', .str s => some s
  | 'p', .int raw => some (if raw % 2 ^ 64 ≠ 0 then [48, 120] ++ natDigits 16 false (raw % 2 ^ 64) else ascii "(nil)")
  | _, _ => none

/-- `gp_max_digits_in` / `gp_str_print_object_size`: the room `gp_str_print` reserves for an object -/
def sizeEstimate (o : Obj) : Nat :=
  match o.kind, o.val with
  | 'c', _ | 'a', _ | 'A', _ => 1
  | 'b', _ => 5
  | 't', .str s => (cstrlen s).length
  | 'g', .str s => s.length
  | 'f', _ | 'd', _ => 15
  | 'p', _ => 18
  | 'h', _ | 'H', _ => 2 * 18 / 8 + 2
  | 'i', _ | 'I', _ => 4 * 18 / 8 + 2
  | _, _ => 8 * 18 / 8 + 2

/-- how many of the following objects are arguments of the format string `fmt` -/
def splitFmtArgs (fmt : Bytes) (rest : List Obj) : List Arg × List Obj :=
  let k := countFmtSpecs fmt (fmt.length + 1)
  ((rest.take k).map (·.val), rest.drop k)

/-- `gp_bytes_print_internal` / `gp_bytes_println_internal` loop.  `sep`: println's space after each object.
`none` = out of bounds, `some none` = rejected input -/
def printObjs (fuel : Nat) (p : PF) (objs : List Obj) (sep : Bool) : Option (Option PF) :=
  match fuel, objs with
  | 0, _ => some none
  | _, [] => some (some p)
  | fuel + 1, o :: rest =>
    let step : Option (Option (PF × List Obj)) :=
      match o.kind, o.val with
      | 'F', .str fmt =>
        let (args, rest') := splitFmtArgs fmt rest
        match writeFormat p (cstrlen fmt) args with
        | none => none
        | some none => some none
        | some (some p) => some (some (p, rest'))
      | _, _ =>
        match printObj p o with
        | none => none
        | some none => some none
        | some (some p) => some (some (p, rest))
    match step with
    | none => none
    | some none => some none
    | some (some (p, rest)) =>
      let p' : Option PF := if sep ∧ p.length < p.cap then PF.push p 32 else some p
      match p' with
      | none => none
      | some p => printObjs fuel p rest sep

/-- println's last step: the last space becomes the newline when it was written -/
def printlnEnd (p : PF) : Option PF :=
  if p.cap > p.length - (if p.length = 0 then 0 else 1) then
    (if p.length = 0 then none            -- out[-1]
     else do
       let d ← PF.wr p.data (p.length - 1) [10]
       pure { p with data := d })
  else some p

/-- the unbounded text of a print call -/
def printText (fuel : Nat) (objs : List Obj) (ln : Bool) : Option Bytes :=
  match fuel, objs with
  | 0, _ => none
  | _, [] => some []
  | fuel + 1, o :: rest =>
    let one : Option (Bytes × List Obj) :=
      match o.kind, o.val with
      | 'F', .str fmt =>
        let (args, rest') := splitFmtArgs fmt rest
        (specFormat ((cstrlen fmt).length + 1) (cstrlen fmt) args).map fun t => (t, rest')
      | _, _ => (objText o).map fun t => (t, rest)
    match one with
    | none => none
    | some (t, rest) =>
      (printText fuel rest ln).map fun tail =>
        t ++ (if ln then (if rest.isEmpty then [10] else [32]) else []) ++ tail

end Gpc.Printf
