/-
Model of the numeric helpers anchored by C20:
  src/hashmap.c  gp_bytes_hash32/64/128, gp_mult64to128
  src/utils.c    gp_next_power_of_2_32/64, gp_check_bounds, gp_random*, gp_frandom
  include/gpc/utils.h gp_round_to_aligned
  src/pcg_basic.c pcg32_srandom_r, pcg32_random_r, pcg32_boundedrand_r
C unsigned arithmetic is modelled with the fixed-width types of core Lean (wrapping) or by
explicit `% 2^w` on `Nat`; sizes are `Nat` below `2^64`.
-/
namespace Gpc.Num

/-! ### FNV-1a as written (wrapping machine arithmetic) -/

def fnv32 (bs : List UInt8) : UInt32 :=
  bs.foldl (fun h b => (h ^^^ b.toUInt32) * 0x01000193) 0x811c9dc5

def fnv64 (bs : List UInt8) : UInt64 :=
  bs.foldl (fun h b => (h ^^^ b.toUInt64) * 0x00000100000001B3) 0xcbf29ce484222325

/-- `GPUint128` as (hi, lo); `*gp_u128_lo(&hash) ^= byte` then the 128-bit product. -/
structure U128 where
  hi : UInt64
  lo : UInt64
deriving DecidableEq, Repr

def U128.toNat (u : U128) : Nat := u.hi.toNat * 2^64 + u.lo.toNat
def U128.ofNat (n : Nat) : U128 := ⟨UInt64.ofNat (n / 2^64), UInt64.ofNat n⟩

def fnv128Prime : Nat := 0x0000000001000000000000000000013B
def fnv128Basis : Nat := 0x6c62272e07bb014262b821756295c58d

/-- `Ans->u128 = N.u128 * M.u128` (the `__int128` path compiled by gcc/clang). -/
def mult128 (n m : U128) : U128 := U128.ofNat ((n.toNat * m.toNat) % 2^128)

def fnv128 (bs : List UInt8) : U128 :=
  bs.foldl (fun h b => mult128 ⟨h.hi, h.lo ^^^ b.toUInt64⟩ (U128.ofNat fnv128Prime))
    (U128.ofNat fnv128Basis)

/-- The portable 64×64→128 multiply (`gp_mult64to128`), returns (h, l). -/
def mult64to128 (u v : Nat) : Nat × Nat :=
  let m64 := 2^64
  let u1 := u % 2^32
  let v1 := v % 2^32
  let t := (u1 * v1) % m64
  let w3 := t % 2^32
  let k := t / 2^32
  let u' := u / 2^32
  let t := (u' * v1 + k) % m64
  let k := t % 2^32
  let w1 := t / 2^32
  let v' := v / 2^32
  let t := (u1 * v' + k) % m64
  let k := t / 2^32
  ((u' * v' + w1 + k) % m64, ((t * 2^32) % m64 + w3) % m64)

/-! ### next power of two (bit smearing) -/

def smear32 (x : Nat) : Nat :=
  let x := x ||| (x >>> 1)
  let x := x ||| (x >>> 2)
  let x := x ||| (x >>> 4)
  let x := x ||| (x >>> 8)
  let x := x ||| (x >>> 16)
  x

def smear64 (x : Nat) : Nat :=
  let x := smear32 x
  x ||| (x >>> 32)

/-- `gp_next_power_of_2_32` on an argument `< 2^32`. -/
def np2_32 (x : Nat) : Nat := (smear32 x + 1) % 2^32
/-- `gp_next_power_of_2_64` on an argument `< 2^64`. -/
def np2_64 (x : Nat) : Nat := (smear64 x + 1) % 2^64

/-! ### gp_round_to_aligned (uintptr_t = 64 bit) -/

def roundToAligned (x b : Nat) : Nat :=
  let xm1 := (x + 2^64 - 1) % 2^64            -- x - 1, wrapping
  let bm1 := (b + 2^64 - 1) % 2^64            -- boundary - 1, wrapping
  ((x + bm1) % 2^64 + 2^64 - (xm1 &&& bm1)) % 2^64

/-! ### gp_check_bounds -/

structure BoundsResult where
  ok : Bool
  start : Option Nat
  stop : Option Nat          -- `none` when the caller passed NULL
deriving DecidableEq, Repr

/-- `start`/`stop` are `none` for NULL pointers.  Values are `size_t`. -/
def checkBounds (start stop : Option Nat) (limit : Nat) : BoundsResult :=
  let e := stop.getD limit                    -- end = end != NULL ? end : &(size_t){limit}
  let (e, clipped) := if e > limit then (limit, true) else (e, false)
  match start with
  | some s =>
    if s ≥ e then
      ⟨false, some (e - (if e ≠ 0 then 1 else 0)), stop.map fun _ => e⟩
    else ⟨!clipped, some s, stop.map fun _ => e⟩
  | none => ⟨!clipped, none, stop.map fun _ => e⟩

/-! ### PCG32 and the ranged generators -/

structure Pcg where
  state : Nat
  inc : Nat
deriving DecidableEq, Repr

/-- `pcg32_random_r`: new generator state and the 32-bit output. -/
def pcgNext (r : Pcg) : Pcg × Nat :=
  let old := r.state
  let st := (old * 6364136223846793005 + r.inc) % 2^64
  let xorshifted := (((old >>> 18) ^^^ old) >>> 27) % 2^32
  let rot := old >>> 59
  let out := ((xorshifted >>> rot) ||| ((xorshifted <<< ((2^32 - rot) % 32)) % 2^32))
  ({ r with state := st }, out)

/-- `pcg32_srandom_r` -/
def pcgSeed (initstate initseq : Nat) : Pcg :=
  let r : Pcg := ⟨0, ((initseq <<< 1) ||| 1) % 2^64⟩
  let r := (pcgNext r).1
  let r := { r with state := (r.state + initstate) % 2^64 }
  (pcgNext r).1

/-- `gp_new_random_state` -/
def newRandomState (seed : Nat) : Pcg := pcgSeed (seed % 2^64) 0xf35d3918378e53c4

/-- `pcg32_boundedrand_r`; the rejection loop is given `fuel` draws (`none` = fuel exhausted).
Precondition of the C code: `bound ≠ 0` (division by zero otherwise). -/
def boundedRand : Nat → Pcg → Nat → Option (Pcg × Nat)
  | 0, _, _ => none
  | fuel + 1, r, bound =>
    let threshold := ((2^32 - bound) % 2^32) % bound
    let (r', x) := pcgNext r
    if x ≥ threshold then some (r', x % bound) else boundedRand fuel r' bound

/-- two's complement reinterpretation of a 32-bit pattern -/
def toInt32 (n : Nat) : Int := if n % 2^32 < 2^31 then (n % 2^32 : Nat) else (n % 2^32 : Nat) - (2^32 : Int)
/-- `(uint32_t) i` -/
def toUInt32 (i : Int) : Nat := (i % (2^32 : Int)).toNat

/-- `gp_random_range` for `min ≤ max` (the branch the property speaks about), as repaired:
unsigned span, full-range span handled without a zero bound. -/
def randomRange (fuel : Nat) (r : Pcg) (min max : Int) : Option (Pcg × Int) :=
  if max ≥ min then
    let bound := (toUInt32 max + 2^32 - toUInt32 min + 1) % 2^32
    let res := if bound ≠ 0 then boundedRand fuel r bound else some (pcgNext r)
    res.map fun (r', x) => (r', toInt32 (toUInt32 min + x))
  else
    let bound := (toUInt32 min + 2^32 - toUInt32 max + 2^32 - 1) % 2^32
    if bound = 0 then none else
    (boundedRand fuel r bound).map fun (r', x) => (r', toInt32 (toUInt32 min + 2^32 - x))

/-- numerator of `gp_frandom` : the result is `ldexp(n, -32)` = n / 2^32 exactly. -/
def frandomNum (r : Pcg) : Pcg × Nat := pcgNext r

def stream : Nat → Pcg → List Nat
  | 0, _ => []
  | n + 1, r => let (r', x) := pcgNext r; x :: stream n r'

end Gpc.Num
