/* Line-protocol helpers shared by all harness drivers. */
#ifndef VERIF_PROTO_H
#define VERIF_PROTO_H
#include <stdio.h>
#include <stdlib.h>
#include <string.h>
#include <stdint.h>
#include <inttypes.h>

#define VP_MAXTOK 512
static char*  vp_line = NULL;
static size_t vp_line_cap = 0;
static char*  vp_tok[VP_MAXTOK];
static int    vp_ntok;

/* reads one line, splits on blanks; returns 0 at EOF */
static int vp_next(void)
{
    ssize_t n = getline(&vp_line, &vp_line_cap, stdin);
    if (n < 0) return 0;
    vp_ntok = 0;
    char* save = NULL;
    for (char* t = strtok_r(vp_line, " \t\r\n", &save); t && vp_ntok < VP_MAXTOK;
         t = strtok_r(NULL, " \t\r\n", &save))
        vp_tok[vp_ntok++] = t;
    return 1;
}

static int vp_hexval(int c)
{
    if (c >= '0' && c <= '9') return c - '0';
    if (c >= 'a' && c <= 'f') return c - 'a' + 10;
    if (c >= 'A' && c <= 'F') return c - 'A' + 10;
    return -1;
}

/* "-" = empty. Returns a malloc'ed buffer of EXACTLY *len bytes (1 byte when empty so that the
 * pointer is valid; ASan guards both ends). */
static uint8_t* vp_hex(const char* s, size_t* len)
{
    if (strcmp(s, "-") == 0) { *len = 0; return malloc(1); }
    size_t n = strlen(s) / 2;
    uint8_t* b = malloc(n ? n : 1);
    for (size_t i = 0; i < n; i++)
        b[i] = (uint8_t)(vp_hexval(s[2*i]) * 16 + vp_hexval(s[2*i+1]));
    *len = n;
    return b;
}

static void vp_puthex(const void* p, size_t n)
{
    const uint8_t* b = p;
    if (n == 0) { fputs("-", stdout); return; }
    for (size_t i = 0; i < n; i++) printf("%02x", b[i]);
}

#define VP_IS(op) (strcmp(vp_tok[0], (op)) == 0)
#define VP_U64(i) strtoull(vp_tok[i], NULL, 10)
#define VP_I64(i) strtoll(vp_tok[i], NULL, 10)
#endif
