import Gpc.Model.Proto
import Gpc.Model.Utf
namespace Gpc.Driver
open Gpc.Proto Gpc.Utf8 Gpc.Utf

def parseNats (s : String) : Option (List Nat) :=
  if s == "-" then some [] else (s.splitOn ",").mapM (·.toNat?)
def showNats (l : List Nat) : String :=
  if l.isEmpty then "-" else ",".intercalate (l.map toString)

def P61 : Nat := 2305843009213693951

/-- checksum over all single-code-point encodings in [lo, hi) (surrogates skipped) -/
def sweep8 (lo hi : Nat) : String := Id.run do
  let mut acc := 0
  let mut nfail := 0
  for c in [lo:hi] do
    if 0xD800 ≤ c ∧ c ≤ 0xDFFF then continue
    let e := encodeU8 c
    for b in e do acc := (acc * 31 + b.toNat + 1) % P61
    match decodeU8 e with
    | some (c', n) => if c' ≠ c ∨ n ≠ e.length then nfail := nfail + 1
    | none => nfail := nfail + 1
  return s!"{acc} {nfail}"

def sweep16 (lo hi : Nat) : String := Id.run do
  let mut acc := 0
  let mut nfail := 0
  for c in [lo:hi] do
    if 0xD800 ≤ c ∧ c ≤ 0xDFFF then continue
    let us := encodeU16 c
    for u in us do acc := (acc * 31 + u + 1) % P61
    match decodeU16 us.length us with
    | some [c'] => if c' ≠ c then nfail := nfail + 1
    | _ => nfail := nfail + 1
  return s!"{acc} {nfail}"

def utf (toks : List String) : String :=
  match toks with
  | ["enc", c] => match c.toNat? with
    | some c => if c < 0x110000 then toHex (encodeU8 c) else "bad-op"
    | none => "bad-op"
  | ["dec", h] => match parseHex h with
    | some s => (match decodeU8 s with | some (c, n) => s!"{c} {n}" | none => "oob")
    | none => "bad-op"
  | ["sweep8", lo, hi] => match lo.toNat?, hi.toNat? with
    | some lo, some hi => sweep8 lo hi | _, _ => "bad-op"
  | ["sweep16", lo, hi] => match lo.toNat?, hi.toNat? with
    | some lo, some hi => sweep16 lo hi | _, _ => "bad-op"
  | ["to32", cap, h] => match cap.toNat?, parseHex h with
    | some cap, some s => (match utf8ToUtf32 cap s with | some l => showNats l | none => "oob")
    | _, _ => "bad-op"
  | ["to8", cap, l] => match cap.toNat?, parseNats l with
    | some cap, some l => (match utf32ToUtf8 cap l with | some b => toHex b | none => "oob")
    | _, _ => "bad-op"
  | ["to16", _cap, h] => match parseHex h with
    | some s => (match utf8ToUtf16 s with | some l => showNats l | none => "oob")
    | none => "bad-op"
  | ["from16", cap, l] => match cap.toNat?, parseNats l with
    | some cap, some l => (match utf16ToUtf8 cap l with | some b => toHex b | none => "oob")
    | _, _ => "bad-op"
  | ["towcs", cap, h] => match cap.toNat?, parseHex h with
    | some cap, some s => (match utf8ToUtf32 cap s with | some l => showNats l ++ " T" | none => "oob")
    | _, _ => "bad-op"
  | ["fromwcs", cap, l] => match cap.toNat?, parseNats l with
    | some cap, some l => (match utf32ToUtf8 cap l with | some b => toHex b | none => "oob")
    | _, _ => "bad-op"
  | _ => "bad-op"

end Gpc.Driver
