/-
Model of the UTF-8 / ASCII examination and repair code anchored by C06:
  src/unicode.c  gp_utf8_codepoint_length (lead-byte table)
  src/common.c   gp_valid_codepoint, gp_bytes_is_valid_utf8, gp_bytes_codepoint_count
  src/bytes.c    gp_bytes_is_valid (ASCII, three loops, address alignment), gp_bytes_to_valid
  src/string.c   gp_str_find_invalid, gp_str_find_valid, gp_str_to_valid
-/
namespace Gpc.Utf8

abbrev Bytes := List UInt8

/-- `sizes[str[i] >> 3]` -/
def cpLen (b : UInt8) : Nat :=
  let t := b.toNat / 8
  if t < 16 then 1 else if t < 24 then 0 else if t < 28 then 2 else if t < 30 then 3
  else if t = 30 then 4 else 0

/-- `codepoint = codepoint << 8 | byte` over the code point's bytes (big endian packed word) -/
def pack (bs : Bytes) : Nat := bs.foldl (fun acc b => acc * 256 + b.toNat) 0

/-- `gp_valid_codepoint` on the packed word -/
def validCodepoint (c : Nat) : Bool :=
  if c ≤ 0x7F then true
  else if 0xC280 ≤ c ∧ c ≤ 0xDFBF then (c &&& 0xE0C0) == 0xC080
  else if 0xEDA080 ≤ c ∧ c ≤ 0xEDBFBF then false
  else if 0xE0A080 ≤ c ∧ c ≤ 0xEFBFBF then (c &&& 0xF0C0C0) == 0xE08080
  else if 0xF0908080 ≤ c ∧ c ≤ 0xF48FBFBF then (c &&& 0xF8C0C0C0) == 0xF0808080
  else false

/-- one step of the validators: does a complete, valid code point start at the head of `s`?
Returns its length. (`cp_length == 0 || i + cp_length > length` / `gp_valid_codepoint`) -/
def validAtHead (s : Bytes) : Option Nat :=
  match s with
  | [] => none
  | b :: _ =>
    let n := cpLen b
    if n = 0 ∨ n > s.length then none
    else if validCodepoint (pack (s.take n)) then some n else none

/-- `gp_bytes_is_valid_utf8` / `gp_str_find_invalid(s, start=i)`: index of the first byte at which no
valid code point starts, scanning code point by code point; `none` = valid / GP_NOT_FOUND. -/
def findInvalid : (fuel : Nat) → Bytes → (i : Nat) → Option Nat
  | 0, _, _ => none
  | fuel + 1, s, i =>
    match s with
    | [] => none
    | _ :: _ =>
      match validAtHead s with
      | none => some i
      | some n => findInvalid fuel (s.drop n) (i + n)

def isValidUtf8 (s : Bytes) : Option Nat := findInvalid s.length s 0

/-! ### ASCII validity, as repaired (`align_offset` clamped to `n`) -/

def high (b : UInt8) : Bool := b ≥ 0x80

/-- first loop and last loop: byte-wise scan of `s[i..stop)`; `some k` = first high byte -/
def byteScan (s : Bytes) : (fuel i stop : Nat) → Option (Option Nat)
  | 0, _, _ => some none
  | fuel + 1, i, stop =>
    if i < stop then
      match s[i]? with
      | none => none                                 -- read outside the string
      | some b => if high b then some (some i) else byteScan s fuel (i + 1) stop
    else some none

/-- middle loop: 8-byte blocks while `i < stop`; returns the index where it stopped
(`x & 0x8080808080808080` detected a high byte, or the blocks are exhausted).  `none` = a block
read crossed the end of the string. -/
def blockScan (s : Bytes) : (fuel i stop : Nat) → Option Nat
  | 0, i, _ => some i
  | fuel + 1, i, stop =>
    if i < stop then
      if i + 8 ≤ s.length then
        if ((s.drop i).take 8).any high then some i else blockScan s fuel (i + 8) stop
      else none
    else some i

/-- `gp_bytes_is_valid(str, n, &invalid_index)` for a string at address ≡ `a` (mod 8).
outer `none`: read outside the string; `some none`: valid; `some (some k)`: invalid at `k`. -/
def asciiValid (s : Bytes) (a : Nat) : Option (Option Nat) :=
  let n := s.length
  let alignOffset := min (a % 8) n
  let remaining := (n - alignOffset) % 8
  match byteScan s n 0 alignOffset with
  | none => none
  | some (some k) => some (some k)
  | some none =>
    match blockScan s n alignOffset (n - remaining) with
    | none => none
    | some i => byteScan s n i n

/-! ### code point count -/

/-- `valid_leading_nibble[b >> 4]` : 0 exactly for continuation bytes 0x80..0xBF -/
def leadNibble (b : UInt8) : Nat :=
  let t := b.toNat / 16
  if 8 ≤ t ∧ t < 12 then 0 else 1

def countBytes (s : Bytes) : (fuel i stop acc : Nat) → Option Nat
  | 0, _, _, acc => some acc
  | fuel + 1, i, stop, acc =>
    if i < stop then
      match s[i]? with
      | none => none
      | some b => countBytes s fuel (i + 1) stop (acc + leadNibble b)
    else some acc

/-- the SWAR block: `count += 8 - popcount(continuation-bit mask)`; byte-level statement -/
def countBlocks (s : Bytes) : (fuel i stop acc : Nat) → Option (Nat × Nat)
  | 0, i, _, acc => some (i, acc)
  | fuel + 1, i, stop, acc =>
    if i < stop then
      if i + 8 ≤ s.length then
        let blk := (s.drop i).take 8
        countBlocks s fuel (i + 8) stop (acc + (8 - blk.countP (fun b => leadNibble b == 0)))
      else none
    else some (i, acc)

/-- `gp_bytes_codepoint_count(str, n)` at address ≡ `a` (mod 8) -/
def codepointCount (s : Bytes) (a : Nat) : Option Nat :=
  let n := s.length
  if n ≤ 8 then countBytes s n 0 n 0 else
  let alignOffset := a % 8
  let remaining := (n - alignOffset) % 8
  match countBytes s n 0 (min alignOffset n) 0 with
  | none => none
  | some c1 =>
    match countBlocks s n (min alignOffset n) (n - remaining) c1 with
    | none => none
    | some (i, c2) => countBytes s n i n c2

/-! ### repair -/

/-- `gp_str_find_valid(s, start)` (as repaired: a code point ending exactly at the end counts):
number of bytes to skip from the head of `s` until a valid code point starts (or the end). -/
def findValid : Bytes → Nat
  | [] => 0
  | b :: rest =>
    match validAtHead (b :: rest) with
    | some _ => 0
    | none => 1 + findValid rest

/-- `gp_str_to_valid(&s, replacement)` on the byte sequence.  All three branches
(replacement length 0, 1, > 1) splice `end - start` copies of the replacement over `[start, end)`.
`fuel` bounds the number of invalid runs. -/
def toValid (repl : Bytes) : (fuel : Nat) → Bytes → Bytes
  | 0, s => s
  | fuel + 1, s =>
    match findInvalid s.length s 0 with
    | none => s
    | some start =>
      let tail := s.drop start
      let k := findValid tail                      -- end - start
      s.take start ++ (List.replicate k repl).flatten ++ toValid repl fuel (tail.drop k)

def strToValid (s repl : Bytes) : Bytes := toValid repl (s.length + 1) s

/-- `gp_bytes_to_valid` (ASCII): each maximal run of bytes ≥ 0x80 becomes ONE replacement -/
def bytesToValid (repl : Bytes) : (fuel : Nat) → Bytes → Bytes
  | 0, s => s
  | fuel + 1, s =>
    match s.findIdx? high with
    | none => s
    | some start =>
      let tail := s.drop start
      let k := (tail.takeWhile high).length
      s.take start ++ repl ++ bytesToValid repl fuel (tail.drop k)

end Gpc.Utf8
