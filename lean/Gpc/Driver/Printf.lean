import Gpc.Model.Proto
import Gpc.Model.Printf
namespace Gpc.Driver
open Gpc.Proto Gpc.Printf

def parseHexNat (s : String) : Option Nat :=
  s.toList.foldl (fun acc c => match acc, hexVal c with
    | some a, some v => some (a * 16 + v)
    | _, _ => none) (some 0)

def parseArg (t : String) : Option Arg :=
  match t.toList with
  | 'i' :: r => (String.ofList r).toInt?.map fun v => Arg.int (v % ((2 : Int) ^ 64)).toNat
  | 'u' :: r => (String.ofList r).toNat?.map fun v => Arg.int (v % 2 ^ 64)
  | 'd' :: r => (parseHexNat (String.ofList r)).map Arg.dbl
  | 's' :: r => (parseHex (String.ofList r)).map Arg.str
  | 'x' :: r => (parseHex (String.ofList r)).map Arg.str
  | _ => none

def parseArgs : List String → Option (List Arg)
  | [] => some []
  | t :: ts => do let a ← parseArg t; let r ← parseArgs ts; pure (a :: r)

/-- `pf pf <n> <fmt> args…` and `pf ref <fmt> args…` -/
def pfStep (toks : List String) : String :=
  match toks with
  | "pf" :: n :: fmt :: args =>
    match n.toInt?, parseHex fmt, parseArgs args with
    | some n, some fmt, some args =>
      let cap : Nat := if n < 0 then 65536 else n.toNat
      let p0 : PF.PF := { data := List.replicate cap 170, length := 0 }
      match vsnprintf (fmt.length + 1) p0 fmt args with
      | none => "OOB"
      | some none => "bad-op"
      | some (some p) =>
        match finish p with
        | none => "OOB-terminator"
        | some p =>
          let z := if p.length < p.cap then (if p.data[p.length]? = some 0 then "1" else "0") else "-1"
          s!"r={p.length} w={toHex (p.data.take (min p.length p.cap))} z={z}"
    | _, _, _ => "bad-op"
  | "ref" :: fmt :: args =>
    match parseHex fmt, parseArgs args with
    | some fmt, some args =>
      match specFormat (fmt.length + 1) fmt args with
      | none => "bad-op"
      | some out => s!"r={out.length} w={toHex out}"
    | _, _ => "bad-op"
  | _ => "bad-op"

end Gpc.Driver
