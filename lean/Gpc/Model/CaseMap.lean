import Gpc.Model.CaseTable
import Gpc.Model.Utf
import Gpc.Generated.CaseTables
/-
Model of the simple (1:1) case conversion anchored by C11.
The per-code-point functions ARE the generated tables (`Gpc.Generated`, extracted on every run from
the compiled gp_u32_to_upper/lower/title/gp_u32_simple_fold over all code points).
String drivers (src/string.c gp_str_to_upper/lower/title): decode to UTF-32 (C07 model), map every
code point, encode back.  `gp_str_equal_case`: code point counts, per position the orbit walk.
-/
namespace Gpc.CaseMap
open Gpc.CaseTable Gpc.Generated Gpc.Utf Gpc.Utf8

def toUpper (c : Nat) : Nat := apply implUpper c
def toLower (c : Nat) : Nat := apply implLower c
def toTitle (c : Nat) : Nat := apply implTitle c
/-- `gp_u32_simple_fold`: the next code point of the case orbit -/
def simpleFold (c : Nat) : Nat := implFoldT.apply c

/-- `gp_str_to_upper` etc.: `gp_utf8_to_utf32_new`, map, `gp_utf32_to_utf8` -/
def strMap (f : Nat → Nat) (s : Bytes) : Option Bytes :=
  match decodeAll s.length s with
  | none => none
  | some cps => utf32ToUtf8 s.length (cps.map f)

/-- the orbit walk of `gp_str_equal_case`: `cp = fold(a); while (cp != a && cp < b) cp = fold(cp); cp == b` -/
def walk (F : Nat → Nat) (a b : Nat) : (fuel : Nat) → (cp : Nat) → Bool
  | 0, cp => cp == b
  | fuel + 1, cp => if cp ≠ a ∧ cp < b then walk F a b fuel (F cp) else cp == b

/-- one position of `gp_str_equal_case` -/
def equalCp (F : Nat → Nat) (c1 c2 : Nat) : Bool :=
  if c1 = c2 then true else
  let a := min c1 c2
  let b := max c1 c2
  if b < 0x80 then (65 ≤ a && a ≤ 90 && b == a + 32)
  else walk F a b 8 (F a)

def equalCpList (F : Nat → Nat) : List Nat → List Nat → Bool
  | [], [] => true
  | x :: xs, y :: ys => equalCp F x y && equalCpList F xs ys
  | _, _ => false

/-- `gp_str_equal_case(s1, s2)` on valid UTF-8 -/
def strEqualCase (s1 s2 : Bytes) : Option Bool :=
  match decodeAll s1.length s1, decodeAll s2.length s2 with
  | some a, some b => some (a.length == b.length && equalCpList simpleFold a b)
  | _, _ => none

end Gpc.CaseMap
