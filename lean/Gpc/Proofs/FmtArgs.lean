import Gpc.Proofs.FmtCount
/-! The formatter looks at exactly the first `argsNeeded` arguments. -/
namespace Gpc.Printf

theorem resolve_take (r : RawSpec) (args : List Arg) (m : Nat) (hm : numStar r.width + numStar r.prec ≤ m) :
    resolve r (args.take m) =
      (resolve r args).map (fun x => (x.1, x.2.take (m - (numStar r.width + numStar r.prec)))) := by
  unfold resolve
  rcases hw : r.width with _ | ⟨n⟩ | _ <;> rcases hp : r.prec with _ | ⟨n'⟩ | _ <;>
    simp only [hw, hp, numStar] at hm ⊢
  all_goals first
    | (simp; done)
    | (rcases args with _ | ⟨a, rest⟩
       · simp
       · obtain ⟨m', rfl⟩ : ∃ m', m = m' + 1 := ⟨m - 1, by omega⟩
         cases a <;> simp <;> (try split) <;> simp)
    | (obtain ⟨m', rfl⟩ : ∃ m', m = m' + 2 := ⟨m - 2, by omega⟩
       rcases args with _ | ⟨a, _ | ⟨b, rest⟩⟩
       · simp
       · cases a <;> simp <;> (try split) <;> simp
       · cases a <;> cases b <;> simp <;> (try split) <;> (try split) <;> simp)

theorem resolve_conv (r : RawSpec) (args : List Arg) (s : Spec) (A : List Arg) (h : resolve r args = some (s, A)) :
    s.conv = r.conv := by
  unfold resolve at h
  rcases hw : r.width with _ | ⟨n⟩ | _ <;> rcases hp : r.prec with _ | ⟨n'⟩ | _ <;>
    simp only [hw, hp] at h
  all_goals first
    | (simp at h; rw [← h.1])
    | (rcases args with _ | ⟨a, _ | ⟨b, rest⟩⟩ <;> (try cases a) <;> (try cases b) <;> simp at h <;>
        (try split at h) <;> (try split at h) <;> simp at h <;> rw [← h.1])

/-- **the formatter looks at exactly the first `argsNeeded` arguments**: formatting with the argument list cut
after `m ≥ argsNeeded` arguments gives the same result (text, length, or rejection) as with the full list -/
theorem vsnprintf_take (fuel : Nat) : ∀ (p : PF.PF) (fmt : Bytes) (args : List Arg) (k m : Nat),
    argsNeeded fuel fmt = some k → k ≤ m →
    vsnprintf fuel p fmt (args.take m) = vsnprintf fuel p fmt args := by
  induction fuel with
  | zero => intro p fmt args k m h; simp [argsNeeded] at h
  | succ fuel ih =>
    intro p fmt args k m h hkm
    unfold argsNeeded at h
    unfold vsnprintf
    cases hcat : PF.concat p (splitLiteral fmt).1 with
    | none => rfl
    | some p1 =>
      simp only
      cases hr : (splitLiteral fmt).2 with
      | nil => rfl
      | cons x after =>
        rw [hr] at h
        simp only at h ⊢
        cases hs : scanSpec after with
        | none => rfl
        | some rr =>
          obtain ⟨raw, rest⟩ := rr
          rw [hs] at h
          simp only at h ⊢
          -- what the rest of the format needs, and that the starred fields fit into the cut
          have key : ∃ k', argsNeeded fuel rest = some k' ∧
              numStar raw.width + numStar raw.prec ≤ m ∧ k' ≤ m - (numStar raw.width + numStar raw.prec) ∧
              (raw.conv ≠ '%' → k' + 1 ≤ m - (numStar raw.width + numStar raw.prec)) := by
            split at h
            · rename_i r
              have hraw : raw = { conv := '%' } := by
                simp only [scanSpec] at hs; simp at hs; exact hs.1.symm
              subst hraw
              exact ⟨k, h, by simp [numStar], by simp [numStar]; exact hkm, fun hne => absurd rfl hne⟩
            · split at h
              · split at h
                · cases hk : argsNeeded fuel rest with
                  | none => rw [hk] at h; simp at h
                  | some k' =>
                    rw [hk] at h
                    simp only [Option.map_some, Option.some.injEq] at h
                    exact ⟨k', rfl, by omega, by omega, fun _ => by omega⟩
                · cases h
              · cases h
          obtain ⟨k', hk', hn, hk'm, hconv⟩ := key
          rw [resolve_take raw args m hn]
          cases hres : resolve raw args with
          | none => rfl
          | some sa =>
            obtain ⟨sp, A⟩ := sa
            simp only [Option.map_some]
            have hsc := resolve_conv raw args sp A hres
            by_cases hpct : sp.conv = '%'
            · simp only [hpct, if_true]
              cases hcv : convert p1 sp none with
              | none => rfl
              | some p2 => exact ih p2 rest A k' _ hk' hk'm
            · simp only [hpct, if_false]
              have hm1 : k' + 1 ≤ m - (numStar raw.width + numStar raw.prec) := hconv (by rw [← hsc]; exact hpct)
              obtain ⟨j, hj⟩ : ∃ j, m - (numStar raw.width + numStar raw.prec) = j + 1 := ⟨_, (Nat.succ_pred_eq_of_pos (by omega)).symm⟩
              rw [hj]
              cases A with
              | nil => rfl
              | cons a A2 =>
                simp only [List.take_succ_cons]
                cases hfit : argFits sp.conv a with
                | false => rfl
                | true =>
                  simp only [Bool.not_true, Bool.false_eq_true, if_false]
                  cases hcv : convert p1 sp (some a) with
                  | none => rfl
                  | some p2 => exact ih p2 rest A2 k' j hk' (by omega)

/-- an embedded format string of the print family sees exactly the objects it consumes: handing it only
the first `argsNeeded` following objects (what `splitFmtArgs` does, by `countFmtSpecs_eq_argsNeeded`) gives the
same output as handing it all of them, and the objects after those are left for the print loop -/
theorem writeFormat_take (p : PF.PF) (fmt : Bytes) (vals : List Arg) (k : Nat)
    (h : argsNeeded (fmt.length + 1) fmt = some k) :
    writeFormat p fmt (vals.take k) = writeFormat p fmt vals := by
  unfold writeFormat
  simp only
  rw [vsnprintf_take (fmt.length + 1) _ fmt vals k k h (Nat.le_refl k)]

theorem splitFmtArgs_exact (fmt : Bytes) (rest : List Obj) (k : Nat) (h : argsNeeded (fmt.length + 1) fmt = some k) :
    (splitFmtArgs fmt rest).1 = (rest.map (·.val)).take k ∧ (splitFmtArgs fmt rest).2 = rest.drop k := by
  unfold splitFmtArgs
  simp only
  rw [countFmtSpecs_eq_argsNeeded fmt _ k h]
  exact ⟨by rw [List.map_take], rfl⟩

end Gpc.Printf
