import Gpc.Model.Array
import Gpc.Proofs.Array
/-!
# C03 — the dynamic array behaves as a sequence; growth never loses or overruns elements

`bytes a` = the array's element bytes (`length * es` bytes).  For every operation: under the API's
preconditions the checked `memmove`/`memcpy` steps never leave the storage (`= some …`), the
invariant `length ≤ capacity ∧ |storage| = capacity * es` is kept, and the element bytes become
exactly the sequence operation's result.  `CanGrow a` : the array can reallocate (it is not a
stack array without allocator); otherwise the caller must stay within the capacity.
-/
namespace Gpc.Arr

def CanGrow (a : Arr) (need : Nat) : Prop := a.kind ≠ .stack false ∨ need ≤ a.capacity

theorem reserve_fits (a : Arr) (need : Nat) (h : Inv a) (hg : CanGrow a need) :
    need ≤ (reserve a need).capacity := by
  rcases hg with hk | hc
  · exact reserve_capacity a need hk
  · unfold reserve
    split
    · exact hc
    · split
      · omega
      · exact hc

theorem take_write (d : Bytes) (dst : Nat) (src : Bytes) (h : dst + src.length ≤ d.length) :
    (d.take dst ++ src ++ d.drop (dst + src.length)).take (dst + src.length) = d.take dst ++ src := by
  rw [List.take_append_of_le_length (by simp only [List.length_append, List.length_take]; omega)]
  rw [List.take_of_length_le (by simp only [List.length_append, List.length_take]; omega)]

/-- the common tail of push / append / copy: write `src` (`n` elements) at element index `at_`
of the (already grown) array `a1` and set the length to `at_ + n` -/
theorem write_elems (a1 : Arr) (at_ n : Nat) (src : Bytes) (hi : Inv a1) (hs : src.length = n * a1.es)
    (hfit : at_ + n ≤ a1.capacity) :
    ∃ d, memcpyIn a1.data (at_ * a1.es) src = some d ∧ d.length = a1.data.length ∧
      d.take ((at_ + n) * a1.es) = a1.data.take (at_ * a1.es) ++ src := by
  have hle : at_ * a1.es + src.length ≤ a1.data.length := by
    rw [hi.size, hs, ← Nat.add_mul]; exact Nat.mul_le_mul_right _ hfit
  refine ⟨_, memcpyIn_some _ _ _ hle, memcpyIn_length _ _ _ hle, ?_⟩
  have : (at_ + n) * a1.es = at_ * a1.es + src.length := by rw [hs, Nat.add_mul]
  rw [this]; exact take_write _ _ _ hle

/-- push = append one element -/
theorem push_spec (a : Arr) (e : Bytes) (h : Inv a) (he : e.length = a.es) (hg : CanGrow a (a.length + 1)) :
    ∃ a', push a e = some a' ∧ Inv a' ∧ bytes a' = bytes a ++ e ∧ a'.length = a.length + 1 ∧ a'.es = a.es := by
  unfold push
  simp only []
  have hi := reserve_inv a (a.length + 1) h
  have hb := reserve_bytes a (a.length + 1) h
  obtain ⟨hl, hes⟩ := reserve_length a (a.length + 1)
  have hcap := reserve_fits a _ h hg
  generalize reserve a (a.length + 1) = a1 at *
  obtain ⟨d, hd1, hd2, hd3⟩ := write_elems a1 a.length 1 e hi (by rw [hes, he]; simp) hcap
  rw [← hes, hd1]
  refine ⟨_, rfl, ⟨by simp only []; omega, by simp only []; rw [hd2, hi.size]⟩, ?_, by simp only []; omega, rfl⟩
  simp only [bytes] at hb ⊢
  rw [hl, hd3, ← hb, hl]

/-- append `n` elements -/
theorem append_spec (a : Arr) (src : Bytes) (n : Nat) (h : Inv a) (hs : src.length = n * a.es)
    (hg : CanGrow a (a.length + n)) :
    ∃ a', append a src n = some a' ∧ Inv a' ∧ bytes a' = bytes a ++ src ∧ a'.length = a.length + n ∧ a'.es = a.es := by
  unfold append
  simp only []
  have hi := reserve_inv a (a.length + n) h
  have hb := reserve_bytes a (a.length + n) h
  obtain ⟨hl, hes⟩ := reserve_length a (a.length + n)
  have hcap := reserve_fits a _ h hg
  generalize reserve a (a.length + n) = a1 at *
  obtain ⟨d, hd1, hd2, hd3⟩ := write_elems a1 a.length n src hi (by rw [hes, hs]) hcap
  rw [← hes, hd1]
  refine ⟨_, rfl, ⟨by simp only []; omega, by simp only []; rw [hd2, hi.size]⟩, ?_, by simp only []; omega, rfl⟩
  simp only [bytes] at hb ⊢
  rw [hl, hd3, ← hb, hl]

/-- copy: the array becomes the source -/
theorem copy_spec (a : Arr) (src : Bytes) (n : Nat) (h : Inv a) (hs : src.length = n * a.es) (hg : CanGrow a n) :
    ∃ a', copy a src n = some a' ∧ Inv a' ∧ bytes a' = src ∧ a'.length = n ∧ a'.es = a.es := by
  unfold copy
  simp only []
  have hi := reserve_inv a n h
  obtain ⟨hl, hes⟩ := reserve_length a n
  have hcap := reserve_fits a _ h hg
  generalize reserve a n = a1 at *
  obtain ⟨d, hd1, hd2, hd3⟩ := write_elems a1 0 n src hi (by rw [hes, hs]) (by omega)
  simp only [Nat.zero_mul, Nat.zero_add, List.take_zero, List.nil_append] at hd1 hd3
  rw [hd1]
  refine ⟨_, rfl, ⟨by simp only []; omega, by simp only []; rw [hd2, hi.size]⟩, ?_, rfl, hes⟩
  simp only [bytes]; exact hd3

/-- pop returns the last element and shortens the array by one -/
theorem pop_spec (a : Arr) (h : Inv a) (hne : 0 < a.length) :
    ∃ e a', pop a = some (e, a') ∧ Inv a' ∧ bytes a = bytes a' ++ e ∧ e.length = a.es ∧ a'.length = a.length - 1 := by
  have hle : (a.length - 1) * a.es + a.es ≤ a.data.length := by
    rw [h.size]
    have : (a.length - 1) * a.es + a.es = a.length * a.es := by
      have : a.length = (a.length - 1) + 1 := by omega
      conv => rhs; rw [this, Nat.add_mul, Nat.one_mul]
    rw [this]; exact Nat.mul_le_mul_right _ h.len_le
  unfold pop
  have h0 : ¬ a.length = 0 := by omega
  simp only [h0, if_false, hle, if_true]
  refine ⟨_, _, rfl, ⟨by simp only []; have := h.len_le; omega, h.size⟩, ?_, ?_, rfl⟩
  · simp only [bytes]
    have e1 : a.length * a.es = (a.length - 1) * a.es + a.es := by
      have : a.length = (a.length - 1) + 1 := by omega
      conv => lhs; rw [this, Nat.add_mul, Nat.one_mul]
    rw [e1, List.take_add]
  · simp only [List.length_take, List.length_drop]; omega

/-- insert `n` elements at position `pos ≤ length` -/
theorem insert_spec (a : Arr) (pos : Nat) (src : Bytes) (n : Nat) (h : Inv a) (hpos : pos ≤ a.length)
    (hs : src.length = n * a.es) (hg : CanGrow a (a.length + n)) :
    ∃ a', insert a pos src n = some a' ∧ Inv a' ∧
      bytes a' = (bytes a).take (pos * a.es) ++ src ++ (bytes a).drop (pos * a.es) ∧
      a'.length = a.length + n ∧ a'.es = a.es := by
  unfold insert
  simp only []
  have hi := reserve_inv a (a.length + n) h
  have hb := reserve_bytes a (a.length + n) h
  obtain ⟨hl, hes⟩ := reserve_length a (a.length + n)
  have hcap := reserve_fits a _ h hg
  generalize reserve a (a.length + n) = a1 at *
  -- byte offsets
  have eP : (pos + n) * a.es = pos * a.es + n * a.es := Nat.add_mul _ _ _
  have eT : (a.length - pos) * a.es = a.length * a.es - pos * a.es := Nat.sub_mul _ _ _
  have hPL : pos * a.es ≤ a.length * a.es := Nat.mul_le_mul_right _ hpos
  have hD : a.length * a.es + n * a.es ≤ a1.data.length := by
    rw [hi.size, hes, ← Nat.add_mul]; exact Nat.mul_le_mul_right _ hcap
  rw [memmove_some _ _ _ _ (by omega) (by omega)]
  simp only []
  have hlen1 := memmove_length a1.data ((pos + n) * a.es) (pos * a.es) ((a.length - pos) * a.es) (by omega) (by omega)
  rw [memcpyIn_some _ _ _ (by rw [hlen1]; omega)]
  refine ⟨_, rfl, ⟨by simp only []; omega, ?_⟩, ?_, by simp only []; omega, hes⟩
  · simp only []
    rw [memcpyIn_length _ _ _ (by rw [hlen1]; omega), hlen1, hi.size]
  · simp only [bytes] at hb ⊢
    rw [← hb, hl, hes, Nat.add_mul, eP, eT]
    exact insert_bytes a1.data src (pos * a.es) (n * a.es) (a.length * a.es) hPL hs hD

/-- erase `count` elements at `pos` (`pos + count ≤ length`) -/
theorem erase_spec (a : Arr) (pos count : Nat) (h : Inv a) (hr : pos + count ≤ a.length) :
    ∃ a', erase a pos count = some a' ∧ Inv a' ∧
      bytes a' = (bytes a).take (pos * a.es) ++ (bytes a).drop ((pos + count) * a.es) ∧
      a'.length = a.length - count ∧ a'.es = a.es := by
  unfold erase
  simp only []
  have eP : (pos + count) * a.es = pos * a.es + count * a.es := Nat.add_mul _ _ _
  have eT : (a.length - (pos + count)) * a.es = a.length * a.es - (pos * a.es + count * a.es) := by
    rw [Nat.sub_mul, eP]
  have hPL : pos * a.es + count * a.es ≤ a.length * a.es := by rw [← Nat.add_mul]; exact Nat.mul_le_mul_right _ hr
  have hD : a.length * a.es ≤ a.data.length := by rw [h.size]; exact Nat.mul_le_mul_right _ h.len_le
  rw [memmove_some _ _ _ _ (by omega) (by omega)]
  refine ⟨_, rfl, ⟨by simp only []; have := h.len_le; omega, ?_⟩, ?_, rfl, rfl⟩
  · simp only []; rw [memmove_length _ _ _ _ (by omega) (by omega), h.size]
  · simp only [bytes]
    rw [Nat.sub_mul, eP, eT]
    exact erase_bytes a.data (pos * a.es) (count * a.es) (a.length * a.es) hPL hD

/-- in-place slice `[start, stop)` -/
theorem slice_self_spec (a : Arr) (start stop : Nat) (h : Inv a) (h1 : start ≤ stop) (h2 : stop ≤ a.length) :
    ∃ a', sliceSelf a start stop = some a' ∧ Inv a' ∧
      bytes a' = ((bytes a).drop (start * a.es)).take ((stop - start) * a.es) ∧
      a'.length = stop - start ∧ a'.es = a.es := by
  unfold sliceSelf
  have eT : (stop - start) * a.es = stop * a.es - start * a.es := Nat.sub_mul _ _ _
  have hSE : start * a.es ≤ stop * a.es := Nat.mul_le_mul_right _ h1
  have hEL : stop * a.es ≤ a.length * a.es := Nat.mul_le_mul_right _ h2
  have hD : a.length * a.es ≤ a.data.length := by rw [h.size]; exact Nat.mul_le_mul_right _ h.len_le
  rw [memmove_some _ _ _ _ (by omega) (by omega)]
  refine ⟨_, rfl, ⟨by simp only []; have := h.len_le; omega, ?_⟩, ?_, rfl, rfl⟩
  · simp only []; rw [memmove_length _ _ _ _ (by omega) (by omega), h.size]
  · simp only [bytes]
    rw [eT]
    exact slice_bytes a.data (start * a.es) (stop * a.es) (a.length * a.es) hSE hEL hD

/-- slice of another buffer into the array -/
theorem slice_from_spec (a : Arr) (src : Bytes) (start stop : Nat) (h : Inv a) (h1 : start ≤ stop)
    (h2 : stop * a.es ≤ src.length) (hg : CanGrow a (stop - start)) :
    ∃ a', sliceFrom a src start stop = some a' ∧ Inv a' ∧
      bytes a' = (src.drop (start * a.es)).take ((stop - start) * a.es) ∧
      a'.length = stop - start ∧ a'.es = a.es := by
  have eT : (stop - start) * a.es = stop * a.es - start * a.es := Nat.sub_mul _ _ _
  have hSE : start * a.es ≤ stop * a.es := Nat.mul_le_mul_right _ h1
  have hlen : ((src.drop (start * a.es)).take ((stop - start) * a.es)).length = (stop - start) * a.es := by
    simp only [List.length_take, List.length_drop]; omega
  have := copy_spec a ((src.drop (start * a.es)).take ((stop - start) * a.es)) (stop - start) h hlen hg
  unfold copy at this
  unfold sliceFrom
  exact this

/-! ## map, filter, folds: element-wise -/

/-- the elements of the array as a list of `es`-byte chunks -/
def elems (a : Arr) : List Bytes := chunks a.es a.length a.data

theorem elems_flatten (a : Arr) (h : Inv a) : (elems a).flatten = bytes a := by
  unfold elems bytes
  exact chunks_flatten _ _ _ (by rw [h.size]; exact Nat.mul_le_mul_right _ h.len_le)

/-- map from a source: the array becomes the element-wise image of the source -/
theorem map_from_spec (a : Arr) (src : Bytes) (n : Nat) (f : Bytes → Bytes) (h : Inv a) (hs : src.length = n * a.es)
    (hf : ∀ e, e.length = a.es → (f e).length = a.es) (hg : CanGrow a n) :
    ∃ a', mapFrom a src n f = some a' ∧ Inv a' ∧ bytes a' = ((chunks a.es n src).map f).flatten ∧
      a'.length = n ∧ a'.es = a.es := by
  have hlen : (((chunks a.es n src).map f).flatten).length = n * a.es := by
    rw [flatten_length_of_all _ a.es]
    · simp [chunks_length]
    · intro e he
      simp only [List.mem_map] at he
      obtain ⟨x, hx, rfl⟩ := he
      exact hf x (chunks_elem_length _ _ _ (by omega) x hx)
  have := copy_spec a _ n h hlen hg
  unfold copy at this
  unfold mapFrom
  exact this

/-- in-place map: every element is replaced by its image, the length is unchanged -/
theorem map_self_spec (a : Arr) (f : Bytes → Bytes) (h : Inv a)
    (hf : ∀ e, e.length = a.es → (f e).length = a.es) :
    ∃ a', mapSelf a f = some a' ∧ Inv a' ∧ bytes a' = ((elems a).map f).flatten ∧ a'.length = a.length ∧ a'.es = a.es := by
  have hD : a.length * a.es ≤ a.data.length := by rw [h.size]; exact Nat.mul_le_mul_right _ h.len_le
  have hlen : (((chunks a.es a.length a.data).map f).flatten).length = a.length * a.es := by
    rw [flatten_length_of_all _ a.es]
    · simp [chunks_length]
    · intro e he
      simp only [List.mem_map] at he
      obtain ⟨x, hx, rfl⟩ := he
      exact hf x (chunks_elem_length _ _ _ hD x hx)
  unfold mapSelf
  simp only []
  rw [memcpyIn_some _ _ _ (by rw [hlen]; omega)]
  refine ⟨_, rfl, ⟨h.len_le, ?_⟩, ?_, rfl, rfl⟩
  · simp only []; rw [memcpyIn_length _ _ _ (by rw [hlen]; omega), h.size]
  · simp only [bytes, elems, List.take_zero, List.nil_append, Nat.zero_add]
    rw [← hlen, List.take_append_of_le_length (by simp), List.take_of_length_le (by simp)]

/-- filter from a source: the array becomes the sub-sequence of source elements satisfying `f` -/
theorem filter_from_spec (a : Arr) (src : Bytes) (n : Nat) (f : Bytes → Bool) (h : Inv a) (hs : src.length = n * a.es)
    (hg : CanGrow a n) :
    ∃ a', filterFrom a src n f = some a' ∧ Inv a' ∧ bytes a' = ((chunks a.es n src).filter f).flatten ∧
      a'.length = ((chunks a.es n src).filter f).length ∧ a'.es = a.es := by
  unfold filterFrom
  simp only []
  have hi := reserve_inv a n h
  obtain ⟨hl, hes⟩ := reserve_length a n
  have hcap := reserve_fits a _ h hg
  generalize reserve a n = a1 at *
  have hk : ((chunks a.es n src).filter f).length ≤ n := by
    have := List.length_filter_le f (chunks a.es n src); rw [chunks_length] at this; exact this
  have hlen : (((chunks a.es n src).filter f).flatten).length = ((chunks a.es n src).filter f).length * a1.es := by
    rw [hes]
    apply flatten_length_of_all
    intro e he
    exact chunks_elem_length a.es n src (by omega) e (List.mem_filter.1 he).1
  obtain ⟨d, hd1, hd2, hd3⟩ := write_elems a1 0 _ _ hi hlen (by omega)
  simp only [Nat.zero_mul, Nat.zero_add, List.take_zero, List.nil_append] at hd1 hd3
  rw [hd1]
  refine ⟨_, rfl, ⟨by simp only []; omega, by simp only []; rw [hd2, hi.size]⟩, ?_, rfl, hes⟩
  simp only [bytes]; rw [hes] at hd3 ⊢; exact hd3

theorem drop_write (d : Bytes) (dst : Nat) (src : Bytes) (k : Nat) (h : dst + src.length ≤ d.length) (hk : dst + src.length ≤ k) :
    (d.take dst ++ src ++ d.drop (dst + src.length)).drop k = d.drop k := by
  apply List.ext_getElem?
  intro i
  simp only [List.getElem?_drop, List.getElem?_append, List.length_take, List.length_append, List.getElem?_take]
  grind

/-- the in-place filter loop: reading position `i`, write position `len ≤ i` -/
theorem filterLoop_spec (es : Nat) (f : Bytes → Bool) (fuel : Nat) (d : Bytes) (i len length : Nat)
    (hli : len ≤ i) (hil : i ≤ length) (hd : length * es ≤ d.length) (hf : length - i < fuel) :
    ∃ d' len', filterLoop es f fuel d i len length = some (d', len') ∧ d'.length = d.length ∧
      d'.take (len' * es) = d.take (len * es) ++ ((chunks es (length - i) (d.drop (i * es))).filter f).flatten ∧
      len' = len + ((chunks es (length - i) (d.drop (i * es))).filter f).length ∧ len' ≤ length := by
  induction fuel generalizing d i len with
  | zero => omega
  | succ fu ih =>
    simp only [filterLoop]
    by_cases hi : i < length
    · have hie : i * es + es ≤ d.length := by
        have : (i + 1) * es ≤ length * es := Nat.mul_le_mul_right _ hi
        rw [Nat.succ_mul] at this; omega
      simp only [hi, if_true, hie]
      have hch : chunks es (length - i) (d.drop (i * es))
          = (d.drop (i * es)).take es :: chunks es (length - (i + 1)) (d.drop ((i + 1) * es)) := by
        have : length - i = (length - (i + 1)) + 1 := by omega
        rw [this, chunks, List.drop_drop, Nat.succ_mul]
      by_cases hfe : f ((d.drop (i * es)).take es) = true
      · simp only [hfe, if_true]
        have hel : ((d.drop (i * es)).take es).length = es := by simp only [List.length_take, List.length_drop]; omega
        have hw : len * es + ((d.drop (i * es)).take es).length ≤ d.length := by
          rw [hel]
          have : (len + 1) * es ≤ (i + 1) * es := Nat.mul_le_mul_right _ (by omega)
          rw [Nat.succ_mul, Nat.succ_mul] at this; omega
        rw [memcpyIn_some _ _ _ hw]
        simp only []
        have hlen' := memcpyIn_length d (len * es) _ hw
        obtain ⟨d', len', r1, r2, r3, r4, r5⟩ := ih (d.take (len * es) ++ (d.drop (i * es)).take es ++ d.drop (len * es + ((d.drop (i * es)).take es).length))
          (i + 1) (len + 1) (by omega) (by omega) (by rw [hlen']; exact hd) (by omega)
        have hdrop : (d.take (len * es) ++ (d.drop (i * es)).take es ++ d.drop (len * es + ((d.drop (i * es)).take es).length)).drop ((i + 1) * es)
            = d.drop ((i + 1) * es) := by
          apply drop_write _ _ _ _ hw
          rw [hel]
          have : (len + 1) * es ≤ (i + 1) * es := Nat.mul_le_mul_right _ (by omega)
          rw [Nat.succ_mul] at this; exact this
        have htake : (d.take (len * es) ++ (d.drop (i * es)).take es ++ d.drop (len * es + ((d.drop (i * es)).take es).length)).take ((len + 1) * es)
            = d.take (len * es) ++ (d.drop (i * es)).take es := by
          have : (len + 1) * es = len * es + ((d.drop (i * es)).take es).length := by rw [hel, Nat.succ_mul]
          rw [this]; exact take_write _ _ _ hw
        rw [hdrop] at r3 r4
        rw [htake] at r3
        refine ⟨d', len', r1, by rw [r2, hlen'], ?_, ?_, r5⟩
        · rw [r3, hch]; simp [hfe, List.append_assoc]
        · rw [r4, hch]; simp [hfe]; omega
      · have hfe' : f ((d.drop (i * es)).take es) = false := by simpa using hfe
        simp only [hfe', Bool.false_eq_true, if_false]
        obtain ⟨d', len', r1, r2, r3, r4, r5⟩ := ih d (i + 1) len (by omega) (by omega) hd (by omega)
        refine ⟨d', len', r1, r2, ?_, ?_, r5⟩
        · rw [r3, hch]; simp [hfe']
        · rw [r4, hch]; simp [hfe']
    · have : length - i = 0 := by omega
      simp only [hi, if_false, this, chunks]
      exact ⟨d, len, rfl, rfl, by simp, by simp, by omega⟩

/-- in-place filter: exactly the elements satisfying `f` remain, in order -/
theorem filter_self_spec (a : Arr) (f : Bytes → Bool) (h : Inv a) :
    ∃ a', filterSelf a f = some a' ∧ Inv a' ∧ bytes a' = ((elems a).filter f).flatten ∧
      a'.length = ((elems a).filter f).length ∧ a'.es = a.es := by
  have hD : a.length * a.es ≤ a.data.length := by rw [h.size]; exact Nat.mul_le_mul_right _ h.len_le
  obtain ⟨d', len', r1, r2, r3, r4, r5⟩ := filterLoop_spec a.es f (a.length + 1) a.data 0 0 a.length
    (Nat.le_refl _) (Nat.zero_le _) hD (by omega)
  simp only [Nat.zero_mul, List.drop_zero, List.take_zero, List.nil_append, Nat.sub_zero, Nat.zero_add] at r3 r4
  unfold filterSelf
  rw [r1]
  refine ⟨_, rfl, ⟨by simp only []; have := h.len_le; omega, by simp only []; rw [r2, h.size]⟩, ?_, ?_, rfl⟩
  · simp only [bytes, elems]; exact r3
  · simp only [elems]; exact r4

theorem fold_spec (a : Arr) (g : Nat → Bytes → Nat) (acc : Nat) :
    fold a g acc = (elems a).foldl g acc ∧ foldr a g acc = (elems a).foldr (fun e x => g x e) acc := ⟨rfl, rfl⟩

/-! ## storage is released exactly once; stack arrays move to the allocator once -/

/-- replay of the allocator traffic: `none` on a free of something not currently allocated -/
def replay : List Ev → List Nat → Option (List Nat)
  | [], live => some live
  | .alloc i :: evs, live => replay evs (i :: live)
  | .free i :: evs, live => if i ∈ live then replay evs (live.filter (· ≠ i)) else none

theorem replay_append (l1 l2 : List Ev) (live : List Nat) :
    replay (l1 ++ l2) live = (replay l1 live).bind fun lv => replay l2 lv := by
  induction l1 generalizing live with
  | nil => simp [replay]
  | cons e es ih =>
    cases e with
    | alloc i => simp [replay, ih]
    | free i =>
      simp only [List.cons_append, replay]
      split
      · exact ih _
      · rfl

/-- ledger of a heap-like array: the traffic so far replays without a bad free and leaves exactly
the current allocation live; ids are fresh -/
structure Ledger (a : Arr) : Prop where
  ok : replay a.log [] = some a.allocation.toList
  fresh : ∀ i, a.allocation = some i → i < a.nextId

theorem reserve_ledger (a : Arr) (r : Nat) (h : Ledger a) (hk : a.kind ≠ .arena) : Ledger (reserve a r) ∧ (reserve a r).kind ≠ .arena := by
  unfold reserve
  split
  · exact ⟨h, hk⟩
  · split
    · split
      · rename_i hka _; exact absurd hka hk
      · refine ⟨⟨?_, ?_⟩, ?_⟩
        · simp only []
          rw [replay_append, replay_append, h.ok]
          cases ha : a.allocation with
          | none => simp [replay]
          | some o =>
            have := h.fresh o ha
            have hne : a.nextId ≠ o := by omega
            simp [replay, hne]
        · intro i hi; simp only [Option.some.injEq] at hi; subst hi; exact Nat.lt_succ_self _
        · simp only []
          cases hkk : a.kind with
          | heap => simp
          | arena => exact absurd hkk hk
          | stack b => simp
    · exact ⟨h, hk⟩

/-- deleting releases the storage: afterwards nothing is live and nothing was freed twice -/
theorem delete_once (a : Arr) (h : Ledger a) (hk : a.kind ≠ .arena) : replay (delete a).log [] = some [] := by
  unfold delete
  cases hkk : a.kind with
  | arena => exact absurd hkk hk
  | heap =>
    cases ha : a.allocation with
    | none => simp only []; rw [h.ok, ha]; rfl
    | some o => simp only []; rw [replay_append, h.ok, ha]; simp [replay]
  | stack b =>
    cases ha : a.allocation with
    | none => simp only []; rw [h.ok, ha]; rfl
    | some o => simp only []; rw [replay_append, h.ok, ha]; simp [replay]

/-- a stack array with a fallback allocator moves to the allocator when it outgrows the stack and
is a heap array from then on (so it moves from the stack at most once) -/
theorem stack_moves_once (es cap r : Nat) (hr : cap < r) :
    (reserve (onStack es cap true) r).kind = .heap ∧ (reserve (onStack es cap true) r).allocation = some 0 ∧
    (reserve (onStack es cap true) r).log = [.alloc 0] := by
  simp [reserve, onStack, hr]

end Gpc.Arr
