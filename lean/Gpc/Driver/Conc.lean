import Gpc.Model.Proto
import Gpc.Model.Conc
namespace Gpc.Driver
open Gpc.Proto Gpc.Conc

/-- where a managed thread of the cooperative scheduler waits -/
inductive Wait where
  | start | atLock | atBump | atOnce | atLock1 | atLock2 | done
deriving DecidableEq, Repr

def parseScripts (s : String) : Option (List (List Nat)) :=
  (s.splitOn "|").mapM fun th => if th == "-" then some [] else (th.splitOn ",").mapM String.toNat?

def schedOf (s : String) : List Nat := if s == "-" then [] else s.toList.filterMap fun c => if c.isDigit then some (c.toNat - 48) else none

def showThreads (rs : List (List String)) : String :=
  " ".intercalate ((List.range rs.length).map fun i => s!"t{i}:" ++ (match rs[i]? with
    | some [] => "-" | some l => ",".intercalate l | none => "-"))

/-! ### shared arena: `Sec` with the bump allocator of a 16-aligned arena whose first block is the base -/

def bump (s : Nat) (n : Nat) : Nat × Nat := (s + (n + 15) / 16 * 16, s)

structure ArenaRun where
  c : Sec Nat Nat Nat
  w : List Wait

def arenaGrant (r : ArenaRun) (t : Nat) : ArenaRun :=
  match r.w[t]? with
  | some .start => { r with w := r.w.set t (if (r.c.th t).todo.isEmpty then .done else .atLock) }
  | some .atLock =>
    match Sec.step? bump r.c t with           -- lock (fails when the mutex is taken: a blocked grant)
    | none => r
    | some c1 => match Sec.step? bump c1 t with   -- read the position
      | some c2 => { c := c2, w := r.w.set t .atBump }
      | none => r
  | some .atBump =>
    match Sec.step? bump r.c t with           -- write the position
    | none => r
    | some c1 => match Sec.step? bump c1 t with   -- unlock
      | some c2 => { c := c2, w := r.w.set t (if (c2.th t).todo.isEmpty then .done else .atLock) }
      | none => r
  | _ => r

def allDone (w : List Wait) : Bool := w.all (· == .done)

/-- after the schedule: unfinished threads in ascending order, round robin -/
def finishRR {ρ} (grant : ρ → Nat → ρ) (waits : ρ → List Wait) : Nat → ρ → ρ
  | 0, r => r
  | fuel + 1, r =>
    if allDone (waits r) then r else
    finishRR grant waits fuel ((List.range (waits r).length).foldl (fun r i => if (waits r)[i]? == some .done then r else grant r i) r)

def arenaRun (scripts : List (List Nat)) (sched : List Nat) : String :=
  let c0 : Sec Nat Nat Nat := Sec.init 16 fun t => scripts.getD t []
  let r0 : ArenaRun := { c := c0, w := scripts.map fun _ => .start }
  let r1 := sched.foldl (fun r t => if r.w[t]? == some .done || t ≥ scripts.length then r else arenaGrant r t) r0
  let r2 := finishRR arenaGrant (·.w) (4 * (scripts.map List.length).sum + 4 * scripts.length + 8) r1
  let per := (List.range scripts.length).map fun t => (r2.c.hist.filter (·.1 == t)).map fun h => toString h.2.2
  -- blocks [off, off + size) of the history must be pairwise disjoint
  let blocks := r2.c.hist.map fun h => (h.2.2, h.2.1)
  let ov := (List.range blocks.length).any fun i => (List.range blocks.length).any fun j =>
    i != j && (match blocks[i]?, blocks[j]? with
      | some (a, n), some (b, m) => a < b + m && b < a + n
      | _, _ => false)
  showThreads per ++ s!" ov={if ov then 1 else 0}"

/-! ### locale cache: first section looks up, second section gets or creates -/

structure LocRun where
  cache : Cache
  todo : List (List Nat)
  outs : List (List Nat)
  w : List Wait
  created : Nat

def locGrant (r : LocRun) (t : Nat) : LocRun :=
  let todo := r.todo.getD t []
  let next (r : LocRun) (rest : List Nat) : LocRun :=
    { r with todo := r.todo.set t rest, w := r.w.set t (if rest.isEmpty then .done else .atOnce) }
  match r.w[t]?, todo with
  | some .start, _ => { r with w := r.w.set t (if todo.isEmpty then .done else .atOnce) }
  | some .atOnce, _ => { r with w := r.w.set t .atLock1, created := max r.created 1 }   -- first use creates the default locale
  | some .atLock1, k :: rest =>
    (match r.cache.table.lookup k with
     | some v => next { r with outs := r.outs.set t (r.outs.getD t [] ++ [v]) } rest
     | none => { r with w := r.w.set t .atLock2 })
  | some .atLock2, k :: rest =>
    let (c', v) := getOrCreate r.cache k
    next { r with cache := c', outs := r.outs.set t (r.outs.getD t [] ++ [v]),
                  created := r.created + (if c'.next != r.cache.next then 1 else 0) } rest
  | _, _ => r

def renameFirst (outs : List (List Nat)) : List (List String) :=
  let flat := outs.flatten
  let order := flat.foldl (fun acc v => if acc.contains v then acc else acc ++ [v]) []
  outs.map fun l => l.map fun v => toString ((order.idxOf v))

def localeRun (scripts : List (List Nat)) (sched : List Nat) : String :=
  let r0 : LocRun := { cache := { table := [], next := 0 }, todo := scripts.map fun s => s.map (· % 5),
                       outs := scripts.map fun _ => [], w := scripts.map fun _ => .start, created := 0 }
  let r1 := sched.foldl (fun r t => if r.w[t]? == some .done || t ≥ scripts.length then r else locGrant r t) r0
  let r2 := finishRR locGrant (·.w) (4 * (scripts.map List.length).sum + 4 * scripts.length + 8) r1
  showThreads (renameFirst r2.outs) ++ s!" created={r2.created}"

def ccStep (toks : List String) : String :=
  match toks with
  | ["sched", kind, scripts, sched] =>
    match parseScripts scripts with
    | none => "bad-op"
    | some ss =>
      if ss.length > 4 then "bad-op" else
      if kind == "arena" then arenaRun ss (schedOf sched)
      else if kind == "locale" then localeRun ss (schedOf sched)
      else if kind == "tests" then
        s!"count={(ss.map List.length).sum} fail={if ss.any (·.any (· != 0)) then 1 else 0}"
      else "bad-op"
  | _ => "bad-op"

end Gpc.Driver
