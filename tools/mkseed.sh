#!/bin/sh
# usage: mkseed.sh <ID>  -> worktree /tmp/seed_<ID>, prompt /tmp/seed_prompts/<ID>.txt
id=$1
cd /verif
git -C /repo worktree add -q --detach /tmp/seed_$id HEAD && mkdir -p /tmp/seed_out/$id /tmp/seed_prompts
{
cat <<EOT
You are helping to evaluate a verification tool for the C library libGPC (general-purpose C library: UTF-8 strings,
dynamic arrays, hash maps, arena/scope allocators, printf, unit-test framework).

Your scratch copy of the library is the git worktree /tmp/seed_$id (work ONLY there; never touch /repo and never read or
write anything under /verif). Put your results in /tmp/seed_out/$id/.

Here is a semantic property of the library that is supposed to hold:

EOT
jq -r "select(.id==\"$id\") | \"Property \(.id): \(.title)\n\nStatement: \(.statement)\n\nQuantified over: \(.quantifier.text)\n\nRelevant files: \(.anchors.files|join(\", \"))\"" properties.jsonl
sed "s/@ID@/$id/g" /verif/tools/seed_prompt_template.txt
} > /tmp/seed_prompts/$id.txt
echo prepared $id
