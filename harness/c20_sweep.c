/* exhaustive sweep of gp_next_power_of_2_32 over [0, 2^31) against the closed form */
#include <gpc/utils.h>
#include <stdio.h>
#include <stdint.h>
int main(void)
{
    uint64_t bad = 0, first = 0;
    #pragma omp parallel for reduction(+:bad)
    for (uint64_t x = 0; x < (1ull << 31); x++) {
        uint32_t want = x == 0 ? 1u : (uint32_t)(1ull << (64 - __builtin_clzll(x)));
        if (gp_next_power_of_2_32((uint32_t)x) != want) {
            bad++;
            #pragma omp critical
            if (!first || x < first) first = x;
        }
    }
    printf("swept=2147483648 bad=%llu first %llu\n", (unsigned long long)bad, (unsigned long long)first);
    return bad != 0;
}
