/* C09 / C10 driver: pf_snprintf on exact-size destinations vs glibc snprintf.
 *
 *   pf pf <n|-1> <fmthex> <arg>...   pf_snprintf(buf[n], n, fmt, args): "r=<ret> w=<first min(ret,n) bytes> z=<terminated?>"
 *                                    n = -1: a roomy buffer (the unbounded output)
 *   pf ref <fmthex> <arg>...         glibc snprintf with the same arguments: "r=<ret> w=<bytes>"
 *
 * args:  i<dec>  signed 64-bit integer-class argument        u<dec>  unsigned 64-bit integer-class argument
 *        d<hex16> double given by its bit pattern            s<hex>  char* to a NUL-terminated copy
 *        x<hex>  char* to an exact-size, NOT terminated copy (for %.Ns)
 *        G<hex>  GPString (for %S)
 *
 * Variadic call: x86-64 SysV passes integer/pointer arguments and double arguments in independent register
 * files and va_arg() fetches them independently, so (g0..g5, d0..d7) serves every interleaving of at most 6
 * integer-class and 8 double arguments.  The same call shape is used for glibc.
 */
#include <printf/printf.h>
#include <gpc/string.h>
#include <gpc/bytes.h>
#include <gpc/io.h>
#include <gpc/memory.h>
#include "proto.h"

/*   pf print <fn> <n> <obj>...       the type-directed print family, called through its *_internal entry points
 *      fn:  bp / bpl   gp_bytes_print / println into malloc(n)          "r=<ret> w=<first min(ret,n) bytes>"
 *           snp / snpl gp_str_n_print / n_println into a heap string    "r=<ret> len=<length> w=<content>"
 *           sp / spl   gp_str_print / println (growing heap string)     "r=<ret> len=<length> w=<content>"
 *           fp / fpl   gp_file_print / println to a temporary file      "r=<ret> w=<file content>"
 *      obj: c a A (char kinds) h H i I l L q Q (short..unsigned long long) b (bool) f d (float, double: bits)
 *           t<hex> (char*) g<hex> (GPString) p<dec> (pointer) F<hex> (format string; its arguments follow as objs)
 */
static int print_op(void);

#define MAXG 6
#define MAXD 8

int main(void)
{
    setvbuf(stdout, NULL, _IOLBF, 0);
    while (vp_next()) {
        if (vp_ntok < 3 || strcmp(vp_tok[0], "pf") != 0) { puts("bad-op"); continue; }
        if (!strcmp(vp_tok[1], "print")) { if (!print_op()) puts("bad-op"); continue; }
        int is_ref = !strcmp(vp_tok[1], "ref");
        int is_pf  = !strcmp(vp_tok[1], "pf");
        if (!is_ref && !is_pf) { puts("bad-op"); continue; }
        int a = 2;
        long long n = -1;
        if (is_pf) n = strtoll(vp_tok[a++], NULL, 10);
        if (a >= vp_ntok) { puts("bad-op"); continue; }
        size_t fl; uint8_t* fb = vp_hex(vp_tok[a++], &fl);
        char* fmt = malloc(fl + 1); memcpy(fmt, fb, fl); fmt[fl] = 0; free(fb);

        uint64_t g[MAXG] = {0}; double d[MAXD] = {0};
        void* owned[MAXG] = {0}; GPString gs[MAXG] = {0};
        int ng = 0, nd = 0, bad = 0;
        for (; a < vp_ntok && !bad; a++) {
            const char* t = vp_tok[a];
            switch (t[0]) {
            case 'i': if (ng < MAXG) g[ng++] = (uint64_t)strtoll(t + 1, NULL, 10); else bad = 1; break;
            case 'u': if (ng < MAXG) g[ng++] = strtoull(t + 1, NULL, 10); else bad = 1; break;
            case 'd': if (nd < MAXD) { uint64_t b = strtoull(t + 1, NULL, 16); memcpy(&d[nd++], &b, 8); } else bad = 1; break;
            case 's': case 'x': case 'G':
                if (ng < MAXG) {
                    size_t l; uint8_t* b = vp_hex(t + 1, &l);
                    if (t[0] == 's') { char* c = malloc(l + 1); memcpy(c, b, l); c[l] = 0; free(b); owned[ng] = c; g[ng++] = (uint64_t)(uintptr_t)c; }
                    else if (t[0] == 'x') { owned[ng] = b; g[ng++] = (uint64_t)(uintptr_t)b; }
                    else { gs[ng] = gp_str_new(gp_heap, l, ""); gp_str_copy(&gs[ng], b, l); free(b); g[ng] = (uint64_t)(uintptr_t)gs[ng]; ng++; }
                } else bad = 1;
                break;
            default: bad = 1;
            }
        }
        if (bad) { puts("bad-op"); }
        else if (is_ref) {
            size_t cap = 1 << 16;
            char* buf = malloc(cap);
            int r = snprintf(buf, cap, fmt, g[0], g[1], g[2], g[3], g[4], g[5], d[0], d[1], d[2], d[3], d[4], d[5], d[6], d[7]);
            printf("r=%d w=", r); vp_puthex(buf, r < 0 ? 0 : (size_t)r < cap ? (size_t)r : cap); puts("");
            free(buf);
        } else {
            size_t cap = n < 0 ? (size_t)1 << 16 : (size_t)n;
            char* buf = malloc(cap);                       /* exactly n bytes: ASan sees the first byte past the limit */
            memset(buf, 0xAA, cap);
            int r = pf_snprintf(buf, cap, fmt, g[0], g[1], g[2], g[3], g[4], g[5], d[0], d[1], d[2], d[3], d[4], d[5], d[6], d[7]);
            size_t w = r < 0 ? 0 : (size_t)r < cap ? (size_t)r : cap;
            printf("r=%d w=", r); vp_puthex(buf, w);
            printf(" z=%d\n", (size_t)r < cap ? buf[r] == 0 : -1);
            free(buf);
        }
        for (int i = 0; i < MAXG; i++) { free(owned[i]); if (gs[i]) gp_str_delete(gs[i]); }
        free(fmt);
    }
    return 0;
}

static int print_op(void)
{
    if (vp_ntok < 5) return 0;
    const char* fn = vp_tok[2];
    size_t n = strtoull(vp_tok[3], NULL, 10);
    GPPrintable objs[16]; size_t cnt = 0;
    uint64_t g[MAXG] = {0}; double d[MAXD] = {0};
    void* owned[16] = {0}; GPString gs[16] = {0};
    int ng = 0, nd = 0;
    for (int a = 4; a < vp_ntok; a++) {
        const char* t = vp_tok[a];
        if (cnt >= 16) return 0;
        GPType ty; int isd = 0; const char* ident = "x";
        switch (t[0]) {
        case 'c': ty = GP_CHAR; break;          case 'a': ty = GP_SIGNED_CHAR; break;  case 'A': ty = GP_UNSIGNED_CHAR; break;
        case 'h': ty = GP_SHORT; break;         case 'H': ty = GP_UNSIGNED_SHORT; break;
        case 'i': ty = GP_INT; break;           case 'I': ty = GP_UNSIGNED; break;
        case 'l': ty = GP_LONG; break;          case 'L': ty = GP_UNSIGNED_LONG; break;
        case 'q': ty = GP_LONG_LONG; break;     case 'Q': ty = GP_UNSIGNED_LONG_LONG; break;
        case 'b': ty = GP_BOOL; break;
        case 'f': ty = GP_FLOAT; isd = 1; break; case 'd': ty = GP_DOUBLE; isd = 1; break;
        case 't': ty = GP_CHAR_PTR; break;      case 'g': ty = GP_STRING; break;       case 'p': ty = GP_PTR; break;
        case 'F': ty = GP_CHAR_PTR; ident = "\"fmt\""; break;
        default: return 0;
        }
        if (isd) { if (nd >= MAXD) return 0; uint64_t b = strtoull(t + 1, NULL, 16); memcpy(&d[nd++], &b, 8); }
        else {
            if (ng >= MAXG) return 0;
            if (t[0] == 't' || t[0] == 'F') { size_t l; uint8_t* b = vp_hex(t + 1, &l); char* c = malloc(l + 1); memcpy(c, b, l); c[l] = 0; free(b);
                                               owned[cnt] = c; g[ng++] = (uint64_t)(uintptr_t)c; }
            else if (t[0] == 'g') { size_t l; uint8_t* b = vp_hex(t + 1, &l); gs[cnt] = gp_str_new(gp_heap, l, ""); gp_str_copy(&gs[cnt], b, l); free(b);
                                    g[ng++] = (uint64_t)(uintptr_t)gs[cnt]; }
            else if (strchr("IHLQAp", t[0])) g[ng++] = strtoull(t + 1, NULL, 10);
            else g[ng++] = (uint64_t)strtoll(t + 1, NULL, 10);
        }
        objs[cnt].identifier = ident; *(GPType*)&objs[cnt].type = ty; cnt++;
    }
#define VA g[0], g[1], g[2], g[3], g[4], g[5], d[0], d[1], d[2], d[3], d[4], d[5], d[6], d[7]
    if (!strcmp(fn, "bp") || !strcmp(fn, "bpl")) {
        uint8_t* buf = malloc(n); memset(buf, 0xAA, n);
        size_t r = fn[2] ? gp_bytes_println_internal(buf, n, cnt, objs, VA) : gp_bytes_print_internal(buf, n, cnt, objs, VA);
        printf("r=%zu w=", r); vp_puthex(buf, r < n ? r : n); puts(""); free(buf);
    } else if (!strcmp(fn, "snp") || !strcmp(fn, "snpl") || !strcmp(fn, "sp") || !strcmp(fn, "spl")) {
        GPString s = gp_str_new(gp_heap, 1, "");
        gp_str_copy(&s, "#", 1);                       /* previous content must be replaced */
        size_t r = !strcmp(fn, "snp") ? gp_str_n_print_internal(&s, n, cnt, objs, VA)
                 : !strcmp(fn, "snpl") ? gp_str_n_println_internal(&s, n, cnt, objs, VA)
                 : !strcmp(fn, "sp") ? gp_str_print_internal(&s, cnt, objs, VA)
                 : gp_str_println_internal(&s, cnt, objs, VA);
        const char* cs = gp_cstr(s);                   /* the terminator must still fit */
        printf("r=%zu len=%zu w=", r, gp_str_length(s)); vp_puthex(cs, gp_str_length(s)); puts(""); gp_str_delete(s);
    } else if (!strcmp(fn, "fp") || !strcmp(fn, "fpl")) {
        FILE* f = tmpfile(); if (!f) return 0;
        size_t r = fn[2] ? gp_file_println_internal(f, cnt, objs, VA) : gp_file_print_internal(f, cnt, objs, VA);
        long sz = ftell(f); rewind(f); char* buf = malloc(sz + 1); size_t got = fread(buf, 1, sz, f); fclose(f);
        printf("r=%zu w=", r); vp_puthex(buf, got); puts(""); free(buf);
    } else return 0;
    for (size_t i = 0; i < 16; i++) { free(owned[i]); if (gs[i]) gp_str_delete(gs[i]); }
    return 1;
}
