"""C16 — file reads partition the file at the first delimiter; I/O failure is reported."""
import os, sys
sys.path.insert(0, os.path.dirname(os.path.abspath(__file__)))
import vlib

hx = lambda b: vlib.hexs(bytes(b))
WS = " \t\n\v\f\r                 　\u0085"


def ref_until(data, delim):
    out, i = [], 0
    while i < len(data):
        j = data.find(delim, i)
        # the delimiter must lie wholly behind the first byte of the segment? no: a segment may be the delimiter itself
        k = len(data) if j < 0 else j + len(delim)
        out.append(data[i:k]); i = k
    return out


def ref_strip(text, members):
    """maximal runs of code points outside the set"""
    out, cur = [], ""
    for ch in text:
        if ch in members:
            if cur: out.append(cur); cur = ""
        else: cur += ch
    if cur: out.append(cur)
    return [x.encode("utf-8") for x in out]


def oracle(case, out):
    b = lambda h: b"" if h == "-" else bytes.fromhex(h)
    for l, o in zip(case, out):
        t = l.split()
        segs = [] if o == "none" else [b(x) for x in o.split(",")] if not o.startswith(("w=", "rc=")) else None
        if t[1] == "lines":
            want = ref_until(b(t[3]), b"\n")
            if segs != want: return "%s: lines %s, the file split after each newline is %s" % (l, o, ",".join(hx(x) or "-" for x in want) or "none")
        elif t[1] == "until":
            want = ref_until(b(t[4]), b(t[3]))
            if segs != want: return "%s: segments %s, the file split after each first occurrence of the delimiter is %s" % (l, o, ",".join(hx(x) for x in want) or "none")
        elif t[1] == "strip":
            members = WS if t[3] == "NULL" else b(t[3]).decode("utf-8")
            want = ref_strip(b(t[4]).decode("utf-8"), members)
            if segs != want: return "%s: runs %s, the maximal runs outside the set are %s" % (l, o, ",".join(hx(x) for x in want) or "none")
        elif t[1] == "rw":
            a, bb = b(t[2]), b(t[3])
            if o != "w=0 r=0 %s a=0 r=0 %s" % (hx(a) if a else "-", hx(a + bb) if a + bb else "-"):
                return "%s: %s; writing, reading back, appending, reading back must give the bytes written" % (l, o)
        elif t[1] == "fault":
            if o != "rc=-1": return "%s: %s; the operation cannot have reached / come from the file and must report failure" % (l, o)
    return None


def gen(ctx):
    r = ctx.rng; quick = ctx.tier == "quick"
    cases = []
    def rb(n, alpha):
        return bytes(r.choice(alpha) for _ in range(n))
    # exhaustive small: all files over {a, b, \n} up to length 6 for lines; delimiters with self-overlap for until
    import itertools
    for n in range(0, 6 if quick else 8):
        for f in itertools.product(b"ab\n", repeat=n):
            cases.append(["fio lines %d %s" % (r.choice([0, 1, 2, 16]), hx(f))])
    delims = [b"a", b"ab", b"aa", b"aab", b"aba", b"abab", b"aabaa", b"\n", b"b", b"bab"]   # C strings: no NUL inside
    for d in delims:
        for n in range(0, 7 if quick else 10):
            for f in itertools.product(b"ab", repeat=n):
                if quick and n > 4 and r.random() > 0.35: continue
                cases.append(["fio until %d %s %s" % (r.choice([0, 1, 3, 16]), hx(d), hx(f))])
    ctx.exhaustive = True
    ctx.extra_cov["exhaustive_scope"] = "lines: all files over {a,b,newline} to length %d; until: 10 delimiters (self-overlapping ones) x files over {a,b} to length %d" % ((5, 6) if quick else (7, 9))
    for _ in range(1500 if quick else 40000):
        k = r.random()
        cap = r.choice([0, 1, 2, 7, 8, 64])
        if k < 0.3:
            f = rb(r.choice([0, 1, 5, 63, 64, 65, 300, 5000]), b"abc\n\n\x00\xff xyz")
            cases.append(["fio lines %d %s" % (cap, hx(f))])
        elif k < 0.6:
            d = r.choice(delims + [b"DELIM", b"xyx", bytes([0xff, 0xff])])
            f = rb(r.choice([0, 1, 5, 20, 64, 200, 2000]), sorted(set(d + b"ab")))
            cases.append(["fio until %d %s %s" % (cap, hx(d), hx(f))])
        elif k < 0.85:
            members = r.choice(["NULL", " ,", " ä", "　 -", "x"])
            alpha = " ,ä　-xab€\U0001F600\n\t "
            text = "".join(r.choice(alpha) for _ in range(r.choice([0, 1, 3, 10, 40, 400])))
            cases.append(["fio strip %d %s %s" % (cap, members if members == "NULL" else hx(members.encode()), hx(text.encode()))])
        else:
            cases.append(["fio rw %s %s" % (hx(rb(r.choice([0, 1, 10, 4096, 70000]), range(256))), hx(rb(r.choice([0, 1, 10, 5000]), range(256))))])
    for k in ("full-short", "full-long", "missing", "dir", "wdir"):
        cases.append(["fio fault " + k])
    # the file shrinks between the size sample and the read (to nothing, by one byte, across the stdio buffer size)
    for frm, to in [(1, 0), (10, 9), (5000, 1234), (5000, 0), (4096, 4095), (4097, 4096), (70000, 65536), (70000, 69999)] + \
                   [(n, r.randrange(n)) for n in (r.randrange(1, 100000) for _ in range(4 if quick else 60))]:
        cases.append(["fio fault shrunk-%d-%d" % (frm, to)])
    return cases


def run(ctx):
    ctx.rules.append("a case = one file read piecewise to its end (lines / until a delimiter / stripped runs) with a destination of "
                     "initial capacity 0..64, or a write-read-append-read round trip, or one injected fault (short and long write to "
                     "/dev/full, missing file, directory, missing directory); files: every byte value incl. NUL, lengths around "
                     "the capacity boundaries, EXHAUSTIVE small files over {a,b[,newline]} with self-overlapping delimiters; "
                     "non-trivial = non-empty file; distinct by line")
    ctx.assumptions += ["the sandbox runs as root, so an unreadable (mode 000) file cannot be provoked",
                        "a file whose size changes between stat and read cannot be provoked deterministically without a hook; "
                        "the code path (fread shorter than st_size -> -1) is covered by the directory case"]
    exe = ctx.build_harness("c16")
    ctx.build_model()
    ctx.prove()
    cases = ctx.replay_cases if ctx.replay_cases is not None else (vlib.load_corpus("C16") + gen(ctx))
    ctx.correspond("file-io", exe, cases, oracle=oracle, nontrivial=lambda c: not c[0].endswith(" -"))
