import Gpc.Model.Proto
import Gpc.Model.Search
import Gpc.Model.Str
namespace Gpc.Driver
open Gpc.Proto Gpc.Search

def showIdx : Option (Option Nat) → String
  | none => "oob"
  | some none => "nf"
  | some (some i) => toString i

def srch (toks : List String) : String :=
  match toks with
  | ["ff", h, n, s] => match parseHex h, parseHex n, s.toNat? with
    | some h, some n, some s => if n.isEmpty ∨ s > h.length then "bad-op" else showIdx (findFirst h n s)
    | _, _, _ => "bad-op"
  | ["fl", h, n] => match parseHex h, parseHex n with
    | some h, some n => if n.isEmpty then "bad-op" else showIdx (findLast h n)
    | _, _ => "bad-op"
  | ["cnt", h, n] => match parseHex h, parseHex n with
    | some h, some n => if n.isEmpty then "bad-op" else
        match count h n with | none => "oob" | some c => toString c
    | _, _ => "bad-op"
  | ["fo", h, set, s] => match parseHex h, parseHex set, s.toNat? with
    | some h, some set, some s => if set.contains 0 ∨ s > h.length then "bad-op" else showIdx (findFirstOf h set s)
    | _, _, _ => "bad-op"
  | ["fno", h, set, s] => match parseHex h, parseHex set, s.toNat? with
    | some h, some set, some s => if set.contains 0 ∨ s > h.length then "bad-op" else showIdx (findFirstNotOf h set s)
    | _, _, _ => "bad-op"
  | ["sfo", h, set, s] => match parseHex h, parseHex set, s.toNat? with
    | some h, some set, some s => if set.contains 0 ∨ s > h.length then "bad-op" else
        (match Gpc.Str.findFirstCp set true (h.length + 1) h s with | some i => toString i | none => "nf")
    | _, _, _ => "bad-op"
  | ["sfno", h, set, s] => match parseHex h, parseHex set, s.toNat? with
    | some h, some set, some s => if set.contains 0 ∨ s > h.length then "bad-op" else
        (match Gpc.Str.findFirstCp set false (h.length + 1) h s with | some i => toString i | none => "nf")
    | _, _, _ => "bad-op"
  | ["eq", a, b] => match parseHex a, parseHex b with
    | some a, some b => if equal a b then "1" else "0"
    | _, _ => "bad-op"
  | ["eqc", a, b] => match parseHex a, parseHex b with
    | some a, some b => if equalCase a b then "1" else "0"
    | _, _ => "bad-op"
  | _ => "bad-op"

end Gpc.Driver
