import Gpc.Model.Map
import Gpc.Proofs.Map
/-!
# C05 — hash maps behave as dictionaries: no key ever affects another key

`abs m k` is what the map holds for key `k` (the first element found along `k`'s walk through the
tree of slot arrays).  The theorems are the dictionary laws for `put` / `get` / `remove` under the
invariant `Inv` (tree shape, depth bound, at most one element per key), the preservation of `Inv`,
and their lift to every history; the destructor log is characterised exactly.
Keys are arbitrary naturals (so any 128-bit key set, however adversarial, is covered).
-/
namespace Gpc.Map

structure Inv (m : Map) : Prop where
  tree : TreeOk m.cells
  depth : DepthOk m.cells m.depth
  uniq : ∀ k, (hitList m.width0 m.cells (m.depth + 1) [] k 0).length ≤ 1

/-- the element stored under `k`, if any -/
def abs (m : Map) (k : Nat) : Option Nat := (hitList m.width0 m.cells (m.depth + 1) [] k 0).head?

theorem inv_new (capacity : Nat) : Inv (new capacity) := by
  refine ⟨?_, ?_, ?_⟩
  · intro p q _ _ _; rfl
  · intro p hp; exact absurd rfl hp
  · intro k; simp [new, hitList]

theorem abs_new (capacity k : Nat) : abs (new capacity) k = none := by
  simp [abs, new, hitList]

/-- `get` returns exactly what the map holds for the key -/
theorem get_eq_abs (m : Map) (h : Inv m) (k : Nat) : get m k = some (abs m k) := by
  unfold get abs
  exact getLoop_eq m.width0 m.cells m.depth h.depth (m.depth + 1) [] k 0 rfl (by omega) (by omega)

/-- `put k e`: succeeds; afterwards `k` holds `e`, every other key holds what it held before, the
element previously held by `k` (if any) — and nothing else — was handed to the destructor -/
theorem put_spec (m : Map) (h : Inv m) (k e : Nat) :
    ∃ m', put m k e = some m' ∧ Inv m' ∧ abs m' k = some e ∧ (∀ k', k' ≠ k → abs m' k' = abs m k') ∧
      m'.log = m.log ++ (abs m k).toList ∧ m'.width0 = m.width0 := by
  obtain ⟨cells', log', hput, ht', hd'⟩ := putLoop_inv m.width0 (m.depth + 2) m.cells [] k 0 e m.log m.depth
    h.tree h.depth (by intro p0 q hp0 e0; simp at e0; exact absurd e0.1 hp0) rfl (Nat.zero_le _) (by omega)
  obtain ⟨hs1, hs2⟩ := putLoop_same m.width0 (m.depth + 2) m.cells [] k 0 e m.log cells' log' h.tree hput
  have hfuel : ∀ k', hitList m.width0 m.cells (m.depth + 2) [] k' 0 = hitList m.width0 m.cells (m.depth + 1) [] k' 0 :=
    fun k' => hitList_fuel m.width0 m.cells m.depth h.depth _ _ [] k' 0 rfl (by omega) (by omega)
  have hother : ∀ k', k' ≠ k → hitList m.width0 cells' (m.depth + 2) [] k' 0
      = hitList m.width0 m.cells (m.depth + 1) [] k' 0 := by
    intro k' hk
    rw [putLoop_other m.width0 (m.depth + 2) m.cells [] k k' 0 e m.log cells' log' (fun e' => hk e'.symm) h.tree hput, hfuel]
  refine ⟨{ m with cells := cells', log := log', depth := m.depth + 1 }, ?_, ⟨ht', hd', ?_⟩, ?_, ?_, ?_, rfl⟩
  · simp [put, hput]
  · intro k'
    by_cases hk : k' = k
    · subst hk
      simp only []
      rw [hs1, hfuel]
      have := h.uniq k'
      simp only [List.length_cons, List.length_tail]; omega
    · simp only []; rw [hother k' hk]; exact h.uniq k'
  · simp only [abs]; rw [hs1]; rfl
  · intro k' hk; simp only [abs]; rw [hother k' hk]
  · simp only [abs]; rw [hs2, hfuel]

/-- `remove k`: succeeds; reports whether `k` was present; afterwards `k` holds nothing, every
other key holds what it held before, and exactly the removed element was handed to the destructor -/
theorem remove_spec (m : Map) (h : Inv m) (k : Nat) :
    ∃ b m', remove m k = some (b, m') ∧ Inv m' ∧ abs m' k = none ∧ (∀ k', k' ≠ k → abs m' k' = abs m k') ∧
      b = (abs m k).isSome ∧ m'.log = m.log ++ (abs m k).toList ∧ m'.width0 = m.width0 := by
  obtain ⟨b, cells', log', hrm, ht', hd'⟩ := removeLoop_inv m.width0 (m.depth + 1) m.cells [] k 0 m.log m.depth
    h.tree h.depth rfl (by omega) (by omega)
  obtain ⟨hs1, hs2, hs3⟩ := removeLoop_same m.width0 (m.depth + 1) m.cells [] k 0 m.log b cells' log' hrm
  have hother : ∀ k', k' ≠ k → hitList m.width0 cells' (m.depth + 1) [] k' 0
      = hitList m.width0 m.cells (m.depth + 1) [] k' 0 := by
    intro k' hk
    exact removeLoop_other m.width0 (m.depth + 1) m.cells [] k k' 0 m.log b cells' log' (fun e' => hk e'.symm) hrm _
  have hu := h.uniq k
  refine ⟨b, { m with cells := cells', log := log' }, ?_, ⟨ht', hd', ?_⟩, ?_, ?_, ?_, ?_, rfl⟩
  · simp [remove, hrm]
  · intro k'
    by_cases hk : k' = k
    · subst hk; simp only []; rw [hs1]; simp only [List.length_tail]; omega
    · simp only []; rw [hother k' hk]; exact h.uniq k'
  · simp only [abs]; rw [hs1]
    cases hl : hitList m.width0 m.cells (m.depth + 1) [] k 0 with
    | nil => rfl
    | cons x xs => rw [hl] at hu; simp at hu; subst hu; rfl
  · intro k' hk; simp only [abs]; rw [hother k' hk]
  · rw [hs3]; simp only [abs]
    cases hitList m.width0 m.cells (m.depth + 1) [] k 0 <;> rfl
  · simp only [abs]; rw [hs2]

/-! ## histories: the map is a dictionary -/

inductive Op where
  | put (k e : Nat)
  | remove (k : Nat)
deriving DecidableEq, Repr

/-- the dictionary specification: a function from keys to elements and the destructor log -/
def specStep (s : (Nat → Option Nat) × List Nat) : Op → (Nat → Option Nat) × List Nat
  | .put k e => (fun k' => if k' = k then some e else s.1 k', s.2 ++ (s.1 k).toList)
  | .remove k => (fun k' => if k' = k then none else s.1 k', s.2 ++ (s.1 k).toList)

def mapStep (m : Map) : Op → Option Map
  | .put k e => put m k e
  | .remove k => (remove m k).map (·.2)

def runOps : Map → List Op → Option Map
  | m, [] => some m
  | m, op :: ops => (mapStep m op).bind fun m' => runOps m' ops

/-- after ANY history of puts and removes (any keys, any re-puts, removes of absent keys) the map
holds for every key exactly what the dictionary holds, `get` returns it, `remove` reported
presence correctly along the way, and the destructor log equals the dictionary's -/
theorem history_refines (m : Map) (hi : Inv m) (s : (Nat → Option Nat) × List Nat)
    (habs : ∀ k, abs m k = s.1 k) (hlog : m.log = s.2) (ops : List Op) :
    ∃ m', runOps m ops = some m' ∧ Inv m' ∧ (∀ k, abs m' k = (ops.foldl specStep s).1 k) ∧
      (∀ k, get m' k = some ((ops.foldl specStep s).1 k)) ∧ m'.log = (ops.foldl specStep s).2 := by
  induction ops generalizing m s with
  | nil => exact ⟨m, rfl, hi, habs, fun k => by rw [get_eq_abs m hi, habs]; rfl, hlog⟩
  | cons op ops ih =>
    cases op with
    | put k e =>
      obtain ⟨m1, h1, hi1, ha, hb, hc, _⟩ := put_spec m hi k e
      obtain ⟨m', r1, r2, r3, r4, r5⟩ := ih m1 hi1 (specStep s (.put k e))
        (by intro k'; simp only [specStep]; by_cases hk : k' = k
            · subst hk; simp [ha]
            · simp [hk, hb k' hk, habs])
        (by simp only [specStep]; rw [hc, hlog, habs])
      exact ⟨m', by simp [runOps, mapStep, h1, r1], r2, r3, r4, r5⟩
    | remove k =>
      obtain ⟨b, m1, h1, hi1, ha, hb, _, hc, _⟩ := remove_spec m hi k
      obtain ⟨m', r1, r2, r3, r4, r5⟩ := ih m1 hi1 (specStep s (.remove k))
        (by intro k'; simp only [specStep]; by_cases hk : k' = k
            · subst hk; simp [ha]
            · simp [hk, hb k' hk, habs])
        (by simp only [specStep]; rw [hc, hlog, habs])
      exact ⟨m', by simp [runOps, mapStep, h1, r1], r2, r3, r4, r5⟩

/-- from a fresh map -/
theorem history_refines_new (capacity : Nat) (ops : List Op) :
    ∃ m', runOps (new capacity) ops = some m' ∧ Inv m' ∧
      (∀ k, get m' k = some ((ops.foldl specStep (fun _ => none, [])).1 k)) ∧
      m'.log = (ops.foldl specStep (fun _ => none, [])).2 := by
  obtain ⟨m', r1, r2, _, r4, r5⟩ := history_refines (new capacity) (inv_new capacity) (fun _ => none, [])
    (fun k => abs_new capacity k) rfl ops
  exact ⟨m', r1, r2, r4, r5⟩

/-! ## destructors: each stored element once, never while retrievable -/

/-- ledger invariant of the dictionary specification, `puts` = the elements put so far -/
structure Ledger (puts : List Nat) (s : (Nat → Option Nat) × List Nat) : Prop where
  live_put : ∀ k e, s.1 k = some e → e ∈ puts
  live_not_destroyed : ∀ k e, s.1 k = some e → e ∉ s.2
  log_put : ∀ e, e ∈ s.2 → e ∈ puts
  log_once : s.2.Pairwise (· ≠ ·)
  inj : ∀ k k' e, s.1 k = some e → s.1 k' = some e → k = k'
  accounted : ∀ e, e ∈ puts → e ∈ s.2 ∨ ∃ k, s.1 k = some e

theorem ledger_put (puts : List Nat) (s : (Nat → Option Nat) × List Nat) (h : Ledger puts s) (k e : Nat)
    (hfresh : e ∉ puts) : Ledger (puts ++ [e]) (specStep s (.put k e)) := by
  have hnl : e ∉ s.2 := fun hm => hfresh (h.log_put e hm)
  refine ⟨?_, ?_, ?_, ?_, ?_, ?_⟩
  · intro k' e' hk
    simp only [specStep] at hk
    by_cases hkk : k' = k
    · simp [hkk] at hk; subst hk; simp
    · simp [hkk] at hk; exact List.mem_append_left _ (h.live_put k' e' hk)
  · intro k' e' hk hm
    simp only [specStep] at hk hm
    rw [List.mem_append] at hm
    by_cases hkk : k' = k
    · simp [hkk] at hk; subst hk
      rcases hm with hm | hm
      · exact hnl hm
      · cases hsk : s.1 k with
        | none => simp [hsk] at hm
        | some o => simp [hsk] at hm; subst hm; exact hfresh (h.live_put k _ hsk)
    · simp [hkk] at hk
      rcases hm with hm | hm
      · exact h.live_not_destroyed k' e' hk hm
      · cases hsk : s.1 k with
        | none => simp [hsk] at hm
        | some o => simp [hsk] at hm; subst hm; exact hkk (h.inj k' k _ hk hsk)
  · intro e' hm
    simp only [specStep] at hm
    rw [List.mem_append] at hm
    rcases hm with hm | hm
    · exact List.mem_append_left _ (h.log_put e' hm)
    · cases hsk : s.1 k with
      | none => simp [hsk] at hm
      | some o => simp [hsk] at hm; subst hm; exact List.mem_append_left _ (h.live_put k _ hsk)
  · simp only [specStep]
    rw [List.pairwise_append]
    refine ⟨h.log_once, ?_, ?_⟩
    · cases s.1 k <;> simp
    · intro a ha b hb
      cases hsk : s.1 k with
      | none => simp [hsk] at hb
      | some o => simp [hsk] at hb; subst hb; intro e'; subst e'; exact h.live_not_destroyed k _ hsk ha
  · intro k1 k2 e' h1 h2
    simp only [specStep] at h1 h2
    by_cases a1 : k1 = k <;> by_cases a2 : k2 = k
    · rw [a1, a2]
    · simp [a1] at h1; simp [a2] at h2; subst h1; exact absurd (h.live_put k2 _ h2) hfresh
    · simp [a1] at h1; simp [a2] at h2; subst h2; exact absurd (h.live_put k1 _ h1) hfresh
    · simp [a1] at h1; simp [a2] at h2; exact h.inj k1 k2 e' h1 h2
  · intro e' hm
    simp only [specStep]
    rw [List.mem_append] at hm
    rcases hm with hm | hm
    · rcases h.accounted e' hm with hl | ⟨k', hk'⟩
      · exact Or.inl (List.mem_append_left _ hl)
      · by_cases hkk : k' = k
        · left; rw [List.mem_append]; right; subst hkk; simp [hk']
        · right; exact ⟨k', by simp [hkk, hk']⟩
    · simp at hm; subst hm; right; exact ⟨k, by simp⟩

theorem ledger_remove (puts : List Nat) (s : (Nat → Option Nat) × List Nat) (h : Ledger puts s) (k : Nat) :
    Ledger puts (specStep s (.remove k)) := by
  refine ⟨?_, ?_, ?_, ?_, ?_, ?_⟩
  · intro k' e' hk
    simp only [specStep] at hk
    by_cases hkk : k' = k
    · simp [hkk] at hk
    · simp [hkk] at hk; exact h.live_put k' e' hk
  · intro k' e' hk hm
    simp only [specStep] at hk hm
    rw [List.mem_append] at hm
    by_cases hkk : k' = k
    · simp [hkk] at hk
    · simp [hkk] at hk
      rcases hm with hm | hm
      · exact h.live_not_destroyed k' e' hk hm
      · cases hsk : s.1 k with
        | none => simp [hsk] at hm
        | some o => simp [hsk] at hm; subst hm; exact hkk (h.inj k' k _ hk hsk)
  · intro e' hm
    simp only [specStep] at hm
    rw [List.mem_append] at hm
    rcases hm with hm | hm
    · exact h.log_put e' hm
    · cases hsk : s.1 k with
      | none => simp [hsk] at hm
      | some o => simp [hsk] at hm; subst hm; exact h.live_put k _ hsk
  · simp only [specStep]
    rw [List.pairwise_append]
    refine ⟨h.log_once, ?_, ?_⟩
    · cases s.1 k <;> simp
    · intro a ha b hb
      cases hsk : s.1 k with
      | none => simp [hsk] at hb
      | some o => simp [hsk] at hb; subst hb; intro e'; subst e'; exact h.live_not_destroyed k _ hsk ha
  · intro k1 k2 e' h1 h2
    simp only [specStep] at h1 h2
    by_cases a1 : k1 = k
    · simp [a1] at h1
    · by_cases a2 : k2 = k
      · simp [a2] at h2
      · simp [a1] at h1; simp [a2] at h2; exact h.inj k1 k2 e' h1 h2
  · intro e' hm
    simp only [specStep]
    rcases h.accounted e' hm with hl | ⟨k', hk'⟩
    · exact Or.inl (List.mem_append_left _ hl)
    · by_cases hkk : k' = k
      · left; rw [List.mem_append]; right; subst hkk; simp [hk']
      · right; exact ⟨k', by simp [hkk, hk']⟩

/-- destructor discipline along every history in which each `put` stores a distinct element: every
element handed to the destructor was put, none twice, never one that is still retrievable, and
every element put is either still retrievable (destroyed at `delete`) or was destroyed -/
theorem destroy_once (ops : List Op) (puts : List Nat) (s : (Nat → Option Nat) × List Nat)
    (h : Ledger puts s)
    (hdistinct : (puts ++ ops.filterMap fun o => match o with | .put _ e => some e | _ => none).Pairwise (· ≠ ·)) :
    Ledger (puts ++ ops.filterMap fun o => match o with | .put _ e => some e | _ => none) (ops.foldl specStep s) := by
  induction ops generalizing puts s with
  | nil => simpa using h
  | cons op ops ih =>
    cases op with
    | put k e =>
      simp only [List.filterMap_cons, List.foldl_cons] at hdistinct ⊢
      have hfresh : e ∉ puts := by
        intro hm
        rw [List.pairwise_append] at hdistinct
        exact hdistinct.2.2 e hm e (by simp) rfl
      have := ih (puts ++ [e]) (specStep s (.put k e)) (ledger_put puts s h k e hfresh)
        (by simpa [List.append_assoc] using hdistinct)
      simpa [List.append_assoc] using this
    | remove k =>
      simp only [List.filterMap_cons, List.foldl_cons] at hdistinct ⊢
      exact ih puts (specStep s (.remove k)) (ledger_remove puts s h k) hdistinct

theorem ledger_empty : Ledger [] (fun _ => none, []) :=
  ⟨by intro k e h; simp at h, by intro k e h; simp at h, by intro e h; simp at h, by simp,
   by intro k k' e h; simp at h, by intro e h; simp at h⟩

/-! ## non-vacuity / regression witnesses (keys 3, 11, 19 collide in the low 3 bits of an 8-slot map) -/
example : ((put (new 8) 3 1).bind fun m => get m 11) = some none := by decide
example : ((put (new 8) 3 1).bind fun m => (put m 3 2).bind fun m => get m 3) = some (some 2) := by decide
example : ((put (new 8) 3 1).bind fun m => (put m 11 2).bind fun m => (remove m 3).bind fun r => get r.2 11)
    = some (some 2) := by decide

end Gpc.Map
