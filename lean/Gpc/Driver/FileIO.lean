import Gpc.Model.Proto
import Gpc.Model.FileIO
namespace Gpc.Driver
open Gpc.Proto Gpc.FileIO

def showSegs (segs : List (List UInt8)) : String :=
  if segs.isEmpty then "none" else ",".intercalate (segs.map toHex)

/-- whitespace default of `gp_file_read_strip`: GP_WHITESPACE -/
def whitespaceSet : List UInt8 :=
  [32, 9, 10, 11, 12, 13, 194, 160, 225, 154, 128, 226, 128, 128, 226, 128, 129, 226, 128, 130, 226, 128, 131, 226, 128, 132, 226, 128, 133, 226, 128, 134, 226, 128, 135, 226, 128, 136, 226, 128, 137, 226, 128, 138, 226, 128, 168, 226, 128, 169, 226, 128, 175, 226, 129, 159, 227, 128, 128, 194, 133]

def fioStep (toks : List String) : String :=
  match toks with
  | ["lines", _cap, f] => match parseHex f with
    | some file => showSegs (readAll readLine (file.length + 1) file)
    | none => "bad-op"
  | ["until", _cap, d, f] => match parseHex d, parseHex f with
    | some delim, some file => if delim.isEmpty then "bad-op" else showSegs (readAll (readUntil delim) (file.length + 1) file)
    | _, _ => "bad-op"
  | ["strip", _cap, set, f] =>
    match (if set == "NULL" then some whitespaceSet else parseHex set), parseHex f with
    | some set, some file => showSegs (readAll (readStrip set) (file.length + 1) file)
    | _, _ => "bad-op"
  | ["rw", a, b] => match parseHex a, parseHex b with
    | some a, some b =>
      -- write a, read back, append b, read back, in an environment where nothing fails
      let w := strFileWrite (quietWrite a) false [] a
      let f1 := w.2.getD []
      let r1 := strFileRead (quietRead f1)
      let ap := strFileWrite (quietWrite b) true f1 b
      let f2 := ap.2.getD []
      let r2 := strFileRead (quietRead f2)
      s!"w={w.1} r={r1.1} {toHex (r1.2.getD [])} a={ap.1} r={r2.1} {toHex (r2.2.getD [])}"
    | _, _ => "bad-op"
  | ["fault", k] =>
    -- the environment of each injected fault; the model decides the return value
    let rc : Option Int :=
      if k == "full-short" then      -- /dev/full: ten bytes are buffered, the flush at close fails
        some (strFileWrite { opens := true, accepts := 10, closeOk := false } false [] (List.replicate 10 120)).1
      else if k == "full-long" then  -- the buffer is flushed while writing: fwrite comes back short
        some (strFileWrite { opens := true, accepts := 4096, closeOk := false } false [] (List.replicate 200000 120)).1
      else if k == "missing" then some (strFileRead { statSize := none, opens := false, stream := [] }).1
      else if k == "dir" then        -- a directory can be opened for reading; reading it delivers nothing
        some (strFileRead { statSize := some 4096, opens := true, stream := [] }).1
      else if k == "wdir" then some (strFileWrite { opens := false, accepts := 0, closeOk := false } false [] []).1
      else if k.startsWith "shrunk-" then
        match (k.drop 7).toString.splitOn "-" with
        | [f, t] => match f.toNat?, t.toNat? with
          | some f, some t =>     -- f bytes when the size is sampled, t bytes when the file is read
            let r := strFileRead { statSize := some f, opens := true, stream := (List.replicate t 121) }
            if r.1 == 0 then none else some r.1
          | _, _ => none
        | _ => none
      else none
    match rc with
    | some v => s!"rc={v}"
    | none => "bad-op"
  | _ => "bad-op"

end Gpc.Driver
