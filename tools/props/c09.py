"""C09 — formatted output equals the C standard's for every conversion and value.
(generator and reference shared with C10)"""
import struct
import vlib
import printf_ref as R


def hx(b):
    return vlib.hexs(bytes(b))


INT_EDGE = [0, 1, -1, 2, 7, 8, 9, 10, 15, 16, 99, 100, 255, 256, 999999999, 1000000000, 4294967295, 4294967296,
            -128, 127, -32768, 32767, -2147483648, 2147483647, -9223372036854775808, 9223372036854775807,
            18446744073709551615, 1234567890123456789, 0x8000, 0x80, 0xdeadbeef]


def rand_int(r):
    k = r.random()
    if k < 0.45:
        return r.choice(INT_EDGE)
    if k < 0.7:
        return r.randrange(-1000, 1000)
    b = r.randrange(1, 65)
    v = r.getrandbits(b)
    return -v if r.random() < 0.4 else v


def dbits(x):
    return struct.unpack("<Q", struct.pack("<d", x))[0]


DBL_EDGE = [0.0, -0.0, 1.0, -1.0, 0.5, 0.25, 0.125, 1.5, 2.5, 3.5, 0.1, 0.2, 0.3, 9.5, 9.995, 99.5, 0.05, 0.005, 0.0005,
            0.00001, 0.0001, 0.00009999995, 123456.0, 999999.5, 999999.4, 1e6, 1e5, 1e-5, 1e-4, 9.9999e-5, 1e15, 1e16, 1e17,
            1e21, 1e22, 1e23, 1e100, 1e-100, 1e300, 1.7976931348623157e308, 2.2250738585072014e-308, 5e-324, 1e-320,
            0.3333333333333333, 2 / 3, 3.141592653589793, 2.718281828459045, 1234.5678, 0.000123456, 999.9995, 9.999999999,
            99999.95, 0.999999, 0.9999995, 1e9, 999999999.0, 1000000000.5, 123456789012.0, 4.35, 0.045, 1.005, 2.675,
            8.5, 0.15, 0.35, 1e-7, 1.25e-7, 6.5, 1e10 + 0.5, 5e-5, 5e-4, 0.5e-3, 1.0e-3 / 2]


def rand_double(r):
    k = r.random()
    if k < 0.35:
        v = r.choice(DBL_EDGE)
        return dbits(-v if r.random() < 0.3 else v)
    if k < 0.45:
        return r.choice([0x7ff0000000000000, 0xfff0000000000000, 0x7ff8000000000000, 0xfff8000000000001, 0x7ff0000000000001])
    if k < 0.6:      # decimal ties: k / 2**j
        j = r.randrange(1, 12)
        return dbits(r.randrange(1, 1 << (j + 6)) / (1 << j) * (10 ** r.randrange(-3, 4)))
    if k < 0.7:      # 9...9 carry cases
        n = r.randrange(1, 16)
        v = float("9" * n) / (10 ** r.randrange(0, n + 3))
        return dbits(v + r.choice([0, 5 * 10.0 ** -r.randrange(1, 10)]))
    if k < 0.8:      # powers of ten +- ulp
        e = r.randrange(-30, 31)
        b = dbits(10.0 ** e)
        return b + r.choice([-1, 0, 1])
    if k < 0.9:      # subnormals and tiny
        return r.getrandbits(r.randrange(1, 53)) | (r.getrandbits(1) << 63)
    return r.getrandbits(64)


def rand_spec(r, conv, star_ok=True, big=False):
    """returns (spec text, list of extra int args consumed by '*')"""
    flags = "".join(f for f in "-+ #0" if r.random() < 0.22)
    extra = []
    w = ""
    k = r.random()
    if k < 0.5:
        wv = r.choice([1, 2, 3, 5, 8, 10, 12, 17, 20, 25, 33, 40]) if not big else r.choice([60, 100, 300])
        if star_ok and r.random() < 0.2:
            w = "*"; extra.append(("i", -wv if r.random() < 0.3 else wv))
        else:
            w = str(wv)
    p = ""
    if r.random() < 0.6:
        pv = r.choice([0, 0, 1, 2, 3, 4, 5, 6, 7, 9, 10, 12, 15, 17, 18, 19, 20, 27, 30, 36, 40]) if not big else r.choice([50, 100, 340, 1100])
        if star_ok and r.random() < 0.2:
            p = ".*"; extra.append(("i", -1 if r.random() < 0.15 else pv))
        elif r.random() < 0.05:
            p = "."
        else:
            p = "." + str(pv)
    return "%" + flags + w + p, extra


STD_LEN = ["", "", "", "hh", "h", "l", "ll", "j", "z", "t"]


def rand_conv(r, with_float=True, ext=False, wide=False):
    """one conversion: (format text, args)"""
    k = r.random()
    if k < 0.36:
        conv = r.choice("diuoxX")
        sp, extra = rand_spec(r, conv, big=r.random() < 0.02)
        lm = r.choice(STD_LEN + (["B", "W", "D", "Q"] if ext else []))
        if lm == "t" and conv not in "di": lm = "z"
        if lm == "z" and conv in "di": lm = "t"
        v = rand_int(r)
        return sp + lm + conv, extra + [("i", ((v + (1 << 63)) % (1 << 64)) - (1 << 63))]
    if k < 0.42:
        sp, extra = rand_spec(r, "c")
        sp = sp.split(".")[0].replace("#", "").replace("0", "").replace("+", "").replace(" ", "")
        extra = extra[:1] if "*" in sp else []
        if wide and r.random() < 0.5:
            # %lc: code points of every encoded length, the ends of each range; a few values that are no scalar values
            v = r.choice([65, 0x7F, 0x80, 0xE4, 0x7FF, 0x800, 0x20AC, 0xD7FF, 0xE000, 0xFFFD, 0xFFFF, 0x10000, 0x1F600, 0x10FFFF,
                          r.randrange(0x80, 0x800), r.randrange(0x800, 0xD800), r.randrange(0x10000, 0x110000),
                          r.choice([0xD800, 0xDFFF, 0x110000, 0x7FFFFFFF, -1])])
            return sp + "lc", extra + [("i", v)]
        return sp + "c", extra + [("i", r.choice([65, 97, 48, 126, 32, 37, 200, 255, 1]))]
    if k < 0.55:
        sp, extra = rand_spec(r, "s")
        for f in "#0+ ": sp = sp.replace(f, "")
        if not sp.startswith("%"): sp = "%" + sp
        s = bytes(r.choice(b"abcXYZ 0%\xc3\xa4") for _ in range(r.choice([0, 1, 2, 3, 5, 8, 13, 30])))
        s = s.replace(b"\0", b"a")
        return sp + "s", extra + [("s", s)]
    if k < 0.58:
        sp, extra = rand_spec(r, "p")
        sp = sp.split(".")[0]
        for f in "#0+ ": sp = sp.replace(f, "")
        extra = extra[:1] if "*" in sp else []
        return sp + "p", extra + [("u", r.choice([0, 1, 0xdeadbeef, 0x7ffff7a00000, (1 << 64) - 1]))]
    if k < 0.6 or not with_float:
        return "%%", []
    conv = r.choice("fFeEgGfeg")
    sp, extra = rand_spec(r, conv, big=r.random() < 0.03)
    return sp + conv, extra + [("d", rand_double(r))]


WIDE = [65, 0x7F, 0x80, 0xE4, 0x7FF, 0x800, 0x20AC, 0xD7FF, 0xE000, 0xFFFD, 0xFFFF, 0x10000, 0x1F600, 0x10FFFF]


def lc_format(r):
    """literal text, a %lc conversion (optional '-' flag and width, also as '*'), literal text, sometimes a second conversion"""
    fmt, args = r.choice(LITS), []
    for _ in range(r.choice([1, 1, 2])):
        sp = "%" + ("-" if r.random() < 0.3 else "")
        k = r.random()
        if k < 0.3: sp += str(r.choice([1, 2, 3, 4, 5, 8]))
        elif k < 0.4: sp += "*"; args.append(("i", r.choice([-6, 3, 5])))
        v = r.choice(WIDE) if r.random() < 0.6 else r.choice([r.randrange(0x80, 0x800), r.randrange(0x800, 0xD800),
                                                               r.randrange(0x10000, 0x110000), 0xD800, 0xDFFF, 0x110000, 0x7FFFFFFF, -1])
        fmt += (sp + "lc").encode() + r.choice(LITS); args.append(("i", v))
    if r.random() < 0.3:
        fmt += b"%d"; args.append(("i", r.choice([0, -7, 123456])))
    return fmt, args


def us_format(r):
    """literal text and %S conversions (the library's string type, valid UTF-8 with code points of every length and NULs),
    with '-' flag, width and precision (also as '*'); the precision cuts inside code points"""
    fmt, args = r.choice(LITS), []
    for _ in range(r.choice([1, 1, 2])):
        sp = "%" + ("-" if r.random() < 0.3 else "")
        k = r.random()
        if k < 0.35: sp += str(r.choice([1, 2, 3, 5, 8, 12]))
        elif k < 0.45: sp += "*"; args.append(("i", r.choice([-7, 4, 9])))
        k = r.random()
        if k < 0.45: sp += "." + str(r.choice([0, 1, 2, 3, 4, 5, 6, 7, 9, 14]))
        elif k < 0.55: sp += ".*"; args.append(("i", r.choice([-1, 0, 3, 5])))
        txt = "".join(r.choice(["a", "b", " ", "\0", "\u00e4", "\u20ac", "\U0001f600", "%", "z"]) for _ in range(r.choice([0, 1, 2, 3, 5, 8, 20])))
        fmt += (sp + "S").encode() + r.choice(LITS); args.append(("G", txt.encode("utf-8")))
    if r.random() < 0.3:
        fmt += b"%u"; args.append(("u", r.choice([0, 7, 4000000000])))
    return fmt, args


LITS = [b"", b"", b"x", b" ", b"abc ", b"value: ", b"[", b"] ", b", ", b"0x", b"\n", b"a longer piece of literal text, "]


def rand_format(r, nconv=None, with_float=True, ext=False, wide=False):
    """(fmt bytes, args) with at most 6 integer-class and 8 double arguments"""
    nconv = nconv if nconv is not None else r.choice([1, 1, 1, 2, 2, 3, 4])
    fmt, args = r.choice(LITS), []
    for _ in range(nconv):
        for _try in range(20):
            f, a = rand_conv(r, with_float, ext, wide)
            ng = sum(1 for t, _ in args + a if t != "d")
            nd = sum(1 for t, _ in args + a if t == "d")
            if ng <= 6 and nd <= 8:
                break
        else:
            break
        fmt += f.encode() + r.choice(LITS)
        args += a
    return fmt, args


def arg_tokens(args):
    out = []
    for t, v in args:
        if t in "iu": out.append("%s%d" % (t, v))
        elif t == "d": out.append("d%016x" % v)
        else: out.append(t + hx(v))
    return " ".join(out)


def line(kind, fmt, args, n=None):
    s = "pf %s " % kind + ("%d " % n if kind == "pf" else "") + hx(fmt)
    a = arg_tokens(args)
    return s + (" " + a if a else "")


def parse_out(o):
    d = dict(x.split("=", 1) for x in o.split())
    return int(d["r"]), (b"" if d["w"] == "-" else bytes.fromhex(d["w"])), d.get("z")


# ---------------------------------------------------------------------------------------------- C09 check

GLIBC_DEV = {"n": 0, "examples": []}


def ref_args(args):
    return [(t, v) for t, v in args]


def oracle(case, out):
    """impl `pf -1` output must equal the exact reference; glibc is cross-checked against the reference"""
    t = case[0].split()
    fmt = bytes.fromhex(t[3])
    args = []
    for a in t[4:]:
        k = a[0]
        if k in "iu": args.append((k, int(a[1:])))
        elif k == "d": args.append(("d", int(a[1:], 16)))
        else: args.append((k, b"" if a[1:] == "-" else bytes.fromhex(a[1:])))
    try:
        want = R.sprintf(fmt, args)
    except Exception as e:
        raise vlib.InfraError("reference failed on %r: %s" % (case[0], e))
    r, w, z = parse_out(out[0])
    if w != want or r != len(want):
        return "pf_snprintf(%r, %s) = %r (returned %d); the C standard's output is %r (%d)" % (
            fmt.decode("latin-1"), " ".join(t[4:]), w.decode("latin-1"), r, want.decode("latin-1"), len(want))
    if len(out) > 1:
        rg, wg, _ = parse_out(out[1])
        if wg != want:
            GLIBC_DEV["n"] += 1
            if len(GLIBC_DEV["examples"]) < 5:
                GLIBC_DEV["examples"].append({"fmt": fmt.decode("latin-1"), "args": t[4:], "glibc": wg.decode("latin-1"), "exact": want.decode("latin-1")})
            conv = [p for p in R.parse(fmt) if not isinstance(p, bytes)]
            if not any(p.conv in "gG" and "#" in p.flags for p in conv):
                return "reference implementation and glibc disagree outside the known %%#g carry case: %r vs %r for %s" % (want, wg, case[1])
    return None


def compare(a, b):
    """line 1: implementation vs model of the implementation; line 2: glibc vs the Lean specification - where
    glibc is wrong (see oracle) the specification must equal the exact reference, which the oracle has checked
    against line 1; so a difference on line 2 alone is tolerated only if line 1 agrees and the Lean spec = line 1"""
    if a[0] != b[0]:
        return False
    if len(a) > 1 and a[1] != b[1]:
        try:
            r1, w1, _ = parse_out(b[0]); r2, w2, _ = parse_out(b[1])
        except (ValueError, KeyError):
            return False            # a line that is not a result (e.g. the driver rejected the case): a disagreement
        return w1 == w2 and r1 == r2
    return True


def gen_cases(ctx, n_single, n_multi):
    r = ctx.rng
    cases = []
    hist = {}
    def add(fmt, args):
        for p in R.parse(fmt):
            if not isinstance(p, bytes):
                hist[p.conv] = hist.get(p.conv, 0) + 1
        cases.append([line("pf", fmt, args, -1), line("ref", fmt, args)])
    # systematic: every conversion x flag subset x (width, precision) grid on edge values
    import itertools
    flagsets = ["", "-", "+", " ", "#", "0", "-+", "+0", " 0", "#0", "-#", "+#0", "- ", "+ 0#"]
    for conv in "diuoxX":
        for fl in flagsets:
            for w in ("", "1", "6", "12"):
                for p in ("", ".", ".0", ".1", ".5", ".12"):
                    for v in (0, 1, -1, 255, -2147483648, 9223372036854775807, -9223372036854775808):
                        if r.random() < (0.12 if ctx.tier == "quick" else 1.0):
                            lm = r.choice(["", "ll", "hh", "h", "j"])
                            add(("[%" + fl + w + p + lm + conv + "]").encode(), [("i", v)])
    for conv in "fFeEgG":
        for fl in flagsets:
            for w in ("", "9", "20"):
                for p in ("", ".0", ".1", ".3", ".10", ".17"):
                    for v in (0.0, -0.0, 1.0, 0.5, 9.5, 9.9999995, 0.0001, 0.00009999995, 123456789.0, 1e21, 5e-324, float("inf"), float("nan")):
                        if r.random() < (0.05 if ctx.tier == "quick" else 1.0):
                            add(("[%" + fl + w + p + conv + "]").encode(), [("d", dbits(v))])
    # %lc (wide character as UTF-8): no glibc line (the C locale has no multibyte form for them); implementation vs model
    # vs the reference only
    for _ in range(n_single // 20):
        fmt, args = lc_format(r)
        hist["lc"] = hist.get("lc", 0) + 1
        cases.append([line("pf", fmt, args, -1)])
    for _ in range(n_single // 20):
        fmt, args = us_format(r)
        hist["S"] = hist.get("S", 0) + 1
        cases.append([line("pf", fmt, args, -1)])
    for _ in range(n_single):
        add(*rand_format(r, nconv=1))
    for _ in range(n_multi):
        add(*rand_format(r))
    return cases, hist


def run(ctx):
    ctx.rules.append("a case = one (format, arguments) pair: pf_snprintf into a roomy buffer vs the exact reference, and glibc "
                     "snprintf vs the Lean specification; formats from the grammar [flags][width|*][.prec|.*][length]conv for "
                     "c s d i o x X u f F e E g G p %%, 1..4 conversions with literal text; integers: edge values of every "
                     "width and random 1..64-bit values; doubles: edge list, decimal ties k/2^j, 9..9 carry values, powers of "
                     "ten +- 1 ulp, subnormals, random bit patterns, infinities and NaNs; non-trivial = has a conversion; "
                     "distinct by (format, arguments)")
    ctx.assumptions += ["x86-64 SysV calling convention: integer-class and double arguments of a variadic call are fetched "
                        "independently (the harness passes 6 integer-class and 8 double slots)",
                        "the %n-style conversions are outside the claim; %S (library string argument, valid UTF-8) and %lc are compared with the model and the reference only (glibc has no multibyte form for a wide character in the C locale)",
                        "glibc 2.36 prints %#g wrongly when rounding carries into a new power of ten; there the exact "
                        "big-integer reference and the Lean specification (which agree) are the arbiter"]
    exe = ctx.build_harness("c09")
    ctx.build_model()
    ctx.prove()
    if ctx.replay_cases is not None:
        cases, hist = ctx.replay_cases, {}
    else:
        quick = ctx.tier == "quick"
        base = vlib.load_corpus("C09")
        cases, hist = gen_cases(ctx, 12000 if quick else 400000, 4000 if quick else 100000)
        cases = [c for c in base if not c[0].startswith("pf print")] + cases
    tmo = 240 if ctx.tier == "quick" else 3000      # the thorough tier gives each of the 16 workers ~30000 cases
    ctx.correspond("snprintf", exe, cases, oracle=oracle, compare=compare, nontrivial=lambda c: "25" in c[0].split()[3], timeout=tmo)
    # the type-directed print family, unbounded forms
    if ctx.replay_cases is None:
        r = ctx.rng
        pcases, kinds = [c for c in vlib.load_corpus("C09") if c[0].startswith("pf print")], {}
        for _ in range(3000 if ctx.tier == "quick" else 100000):
            objs = rand_objs(r)
            if not objs: continue
            for k, _ in objs: kinds[k] = kinds.get(k, 0) + 1
            toks = obj_tokens(objs)
            pcases.append(["pf print %s %d %s" % (fn, 100000, toks) for fn in ("bp", "bpl", "sp", "spl", "fp", "fpl")])
        pcases += long_print_cases()
        ctx.correspond("print-family", exe, pcases, oracle=print_oracle, nontrivial=lambda c: True, timeout=tmo)
        ctx.extra_cov["print_object_kinds"] = kinds
    ctx.extra_cov["conversions"] = hist
    ctx.extra_cov["glibc_deviations_from_exact_reference"] = dict(GLIBC_DEV)


# ---------------------------------------------------------------------------------------------- print family

def rand_objs(r, with_fmt=True):
    """objects of a print call: list of (letter, value) with at most 6 integer-class and 8 double values"""
    objs, ng, nd = [], 0, 0
    for _ in range(r.choice([1, 1, 2, 3, 4, 5])):
        k = r.choice("caAhHiIlLqQbfdtgpF" if with_fmt else "caAhHiIlLqQbfdtgp")
        if k == "F":
            fmt, args = rand_format(r, nconv=r.choice([0, 1, 2]))
            if b"\0" in fmt: continue
            a_g = sum(1 for t, _ in args if t != "d"); a_d = sum(1 for t, _ in args if t == "d")
            if ng + 1 + a_g > 6 or nd + a_d > 8: continue
            objs.append(("F", fmt)); ng += 1 + a_g; nd += a_d
            for t, v in args:
                if t == "d": objs.append(("d", v))
                elif t in "sx": objs.append(("t", v.split(b"\0")[0]))
                else: objs.append(("q" if t == "i" else "Q", v if t == "i" else v % (1 << 64)))
            continue
        if k in "fd":
            if nd >= 8: continue
            objs.append((k, rand_double(r))); nd += 1; continue
        if ng >= 6: continue
        ng += 1
        if k in "ca": v = r.choice([65, 97, 48, 32, 126, 10])
        elif k == "A": v = r.choice([65, 200, 255, 1])
        elif k == "h": v = r.choice([0, 1, -1, 32767, -32768, 1234])
        elif k == "H": v = r.choice([0, 1, 65535, 40000])
        elif k == "i": v = r.choice([0, 7, -7, 2147483647, -2147483648, 999999999, 1000000000, -1000000000])
        elif k == "I": v = r.choice([0, 9, 4294967295, 999999999, 1000000000])
        elif k in "lq": v = r.choice([0, -1, 9223372036854775807, -9223372036854775808, 10**18, -10**17, 123456789012])
        elif k in "LQ": v = r.choice([0, 1, 18446744073709551615, 10**19, 999999999, 1000000000, 12345678901234567890])
        elif k == "b": v = r.choice([0, 1, 1, 7])
        elif k == "p": v = r.choice([0, 1, 0xdeadbeef, 0x7ffe12345678, (1 << 64) - 1])
        elif k == "t": v = bytes(r.choice(b"abc xyz,%") for _ in range(r.choice([0, 1, 3, 8, 20])))
        elif k == "g": v = bytes(r.choice(b"ab\0c \xc3\xa4") for _ in range(r.choice([0, 1, 4, 9])))
        objs.append((k, v))
    return objs


def long_print_cases():
    """outputs longer than the stream writers' 4096-byte stack buffer (the second, heap-buffered pass of pf_vfprintf), through
    every print function: a field width or a long text around the boundary"""
    out = []
    for n in (4090, 4095, 4096, 4097, 5000, 9000):
        objs1 = [("F", b"%" + str(n).encode() + b"d|"), ("q", 42)]
        objs2 = [("t", b"x" * n), ("i", 7)]
        objs3 = [("F", b"[%-" + str(n).encode() + b"s]"), ("t", b"abc"), ("g", b"tail")]
        for objs in (objs1, objs2, objs3):
            out.append(["pf print %s %d %s" % (fn, 100000, obj_tokens(objs)) for fn in ("bp", "sp", "spl", "fp", "fpl")])
    return out


def obj_tokens(objs):
    out = []
    for k, v in objs:
        if k in "fd": out.append("%s%016x" % (k, v))
        elif k in "tgF": out.append(k + hx(v))
        else: out.append("%s%d" % (k, v))
    return " ".join(out)


def print_ref(objs, ln):
    """the property's text: default conversions, embedded formats, println separators"""
    parts, i = [], 0
    while i < len(objs):
        k, v = objs[i]
        i += 1
        if k == "F":
            specs = [p for p in R.parse(v) if not isinstance(p, bytes) and p.conv != "%"]
            need = sum(1 + (p.width == "*") + (p.prec == "*") for p in specs)
            args = []
            for kk, vv in objs[i:i + need]:
                args.append(("d", vv) if kk in "fd" else ("s", vv) if kk in "tg" else ("i", vv))
            i += need
            parts.append(R.sprintf(v, args))
        elif k in "caA": parts.append(bytes([v & 255]))
        elif k in "hilq": parts.append(b"%d" % v)
        elif k in "HILQ": parts.append(b"%d" % v)
        elif k == "b": parts.append(b"true" if v & 0xffffffff else b"false")
        elif k in "fd": parts.append(R.sprintf(b"%g", [("d", v)]))
        elif k == "t": parts.append(v)
        elif k == "g": parts.append(v)
        elif k == "p": parts.append(b"(nil)" if v == 0 else b"0x%x" % v)
    if ln:
        return b" ".join(parts) + b"\n"
    return b"".join(parts)


def print_oracle(case, out):
    for l, o in zip(case, out):
        t = l.split()
        fn = t[2]
        objs = []
        for a in t[4:]:
            k = a[0]
            if k in "fd": objs.append((k, int(a[1:], 16)))
            elif k in "tgF": objs.append((k, b"" if a[1:] == "-" else bytes.fromhex(a[1:])))
            else: objs.append((k, int(a[1:])))
        want = print_ref(objs, fn.endswith("l"))
        d = dict(x.split("=", 1) for x in o.split())
        w = b"" if d["w"] == "-" else bytes.fromhex(d["w"])
        r = int(d["r"])
        if w != want or r != len(want):
            return "%s: produced %r (returned %d); each argument's default conversion gives %r (%d bytes)" % (l, w, r, want, len(want))
    return None
