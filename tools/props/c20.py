"""C20 — numeric helpers meet their definitions."""
import vlib

U32, U64 = 2**32, 2**64


def fnv(bs, basis, prime, bits):
    h = basis
    for b in bs:
        h = ((h ^ b) * prime) % (1 << bits)
    return h


def pcg_script(seed, steps):
    """PCG32 (XSH-RR) stepped independently: steps = [(kind r|f|g, lo, hi)] on one state seeded like gp_new_random_state"""
    M64 = 2**64 - 1
    st = {"s": 0}
    def draw():
        old = st["s"]; st["s"] = (old * PCG_M + PCG_INC) & M64
        x = (((old >> 18) ^ old) >> 27) & 0xFFFFFFFF; rot = old >> 59
        return ((x >> rot) | (x << ((-rot) & 31))) & 0xFFFFFFFF
    draw(); st["s"] = (st["s"] + seed) & M64; draw()                # pcg32_srandom_r
    want = []
    for c, lo, hi in steps:
        if c in "rf": want.append(c + str(draw()))
        else:
            span = (hi - lo + 1) & 0xFFFFFFFF
            if span == 0: v = draw()
            else:
                thr = ((1 << 32) - span) % span
                while True:
                    v = draw()
                    if v >= thr: v %= span; break
            want.append("g%d" % (lo + v))
    return want


def oracle(case, out):
    """independent statement of the property on the implementation's transcript"""
    t = case[0].split()
    o = out[0]
    op = t[1]
    if op in ("fnv32", "fnv64", "fnv128"):
        bs = b"" if t[2] == "-" else bytes.fromhex(t[2])
        want = {"fnv32": fnv(bs, 0x811c9dc5, 0x01000193, 32),
                "fnv64": fnv(bs, 0xcbf29ce484222325, 0x100000001b3, 64),
                "fnv128": fnv(bs, 0x6c62272e07bb014262b821756295c58d, 0x0000000001000000000000000000013B, 128)}[op]
        if int(o) != want:
            return "%s(%s) = %s, FNV-1a is %d" % (op, t[2], o, want)
    elif op in ("np2_32", "np2_64"):
        x = int(t[2]); w = 32 if op == "np2_32" else 64
        if x < 2 ** (w - 1):
            want = 1 << x.bit_length()      # smallest power of two strictly greater than x
            if int(o) != want:
                return "%s(%d) = %s, smallest power of two > x is %d" % (op, x, o, want)
    elif op == "round":
        x, b = int(t[2]), int(t[3])
        want = -(-x // b) * b
        if int(o) != want:
            return "round_to_aligned(%d,%d) = %s, least multiple >= x is %d" % (x, b, o, want)
    elif op == "cb":
        s, e, l = t[2], t[3], int(t[4])
        ok, s2, e2 = o.split()
        if (s == "-") != (s2 == "-") or (e == "-") != (e2 == "-"):
            return "check_bounds changed the shape of its arguments"
        ev = l if e2 == "-" else int(e2)
        if ev > l:
            return "check_bounds(%s,%s,%d): end %d > limit" % (s, e, l, ev)
        if s2 != "-" and int(s2) > ev:
            return "check_bounds(%s,%s,%d): start %s > end %d" % (s, e, l, s2, ev)
        # "reports whether anything had to be clipped": true exactly when the given range was
        # already a valid non-empty range start < end <= limit (then nothing may change)
        e_in = l if e == "-" else int(e)
        valid = e_in <= l and (s == "-" or int(s) < e_in)
        if (ok == "1") != valid:
            return "check_bounds(%s,%s,%d) returned %s but the range was %svalid" % (s, e, l, ok, "" if valid else "in")
        if valid and not (s2 == s and e2 == e):
            return "check_bounds(%s,%s,%d) changed a valid range to (%s,%s)" % (s, e, l, s2, e2)
    elif op == "rr":
        lo, hi = int(t[3]), int(t[4])
        for v in o.split():
            if not (lo <= int(v) <= hi):
                return "random_range(%d,%d) produced %s" % (lo, hi, v)
    elif op == "mixfixed":
        prog = {0: (7, [("r", 0, 0)] * 4 + [("f", 0, 0), ("g", -5, 5)]), 1: (12345, [("g", 0, 9), ("f", 0, 0), ("r", 0, 0), ("g", -100, 100)]),
                2: (0, [("f", 0, 0), ("f", 0, 0), ("g", 1, 6), ("r", 0, 0)])}[int(t[2])]
        want = pcg_script(prog[0], prog[1])
        if o.split() != want:
            return "fixed program %s: draws %s, the PCG32 stream of one state gives %s" % (t[2], o.strip(), " ".join(want))
    elif op == "mix":
        seed, lo, hi, script = int(t[2]), int(t[3]), int(t[4]), t[5]
        want = pcg_script(seed, [(c, lo, hi) for c in script])
        if o.split() != want:
            k = next((i for i, (a, b) in enumerate(zip(o.split(), want)) if a != b), min(len(o.split()), len(want)))
            return "mix(seed %d, [%d,%d], %s): draw %d is %s, the PCG32 stream of one state gives %s" % (
                seed, lo, hi, script, k + 1, (o.split() + ["-"])[k], (want + ["-"])[k])
    elif op == "frand":
        if "OUT" in o:
            return "frandom outside [0,1): " + o
    return None


PCG_M = 6364136223846793005
PCG_INC = ((0xf35d3918378e53c4 << 1) | 1) & (2**64 - 1)


def seed_for_output(want, draw, low_bits=0):
    """a seed for gp_new_random_state whose `draw`-th output (1-based) is the 32-bit value `want`:
    PCG32's XSH-RR output function inverted for rotation 0, the LCG stepped backwards"""
    M64 = 2**64 - 1
    t = (want << 27) | (low_bits & ((1 << 27) - 1))          # T = S ^ (S >> 18), top 5 bits (rotation) zero
    s = t ^ (t >> 18) ^ (t >> 36) ^ (t >> 54)
    minv = pow(PCG_M, -1, 2**64)
    for _ in range(draw - 1):                                # state before the earlier draws
        s = ((s - PCG_INC) * minv) & M64
    # state after seeding = (inc + seed) * M + inc
    return ((((s - PCG_INC) * minv) & M64) - PCG_INC) & M64


def gen(ctx):
    r = ctx.rng
    quick = ctx.tier == "quick"
    cases = []
    add = lambda s: cases.append(["num " + s])
    # hashes: random byte strings of every length 0..64 and some long ones; vectors
    for v in (b"", b"a", b"foobar", b"\x00", b"\xff" * 7):
        for f in ("fnv32", "fnv64", "fnv128"):
            add("%s %s" % (f, vlib.hexs(v)))
    for n in list(range(0, 65)) + [r.randrange(65, 2000) for _ in range(8 if quick else 200)]:
        for _ in range(2 if quick else 20):
            bs = bytes(r.randrange(256) for _ in range(n))
            for f in ("fnv32", "fnv64", "fnv128"):
                add("%s %s" % (f, vlib.hexs(bs)))
    # next power of two: all boundaries 2^k-1, 2^k, 2^k+1 and random values below 2^(w-1)
    for w, op in ((32, "np2_32"), (64, "np2_64")):
        xs = set([0, 1, 2, 3])
        for k in range(w):
            for d in (-1, 0, 1):
                x = (1 << k) + d
                if 0 <= x < (1 << (w - 1)):
                    xs.add(x)
        for _ in range(2000 if quick else 200000):
            xs.add(r.randrange(1 << r.randrange(1, w)))
        for x in sorted(xs):
            if x < (1 << (w - 1)):
                add("%s %d" % (op, x))
    # round to aligned
    for k in range(0, 64):
        b = 1 << k
        xs = set([0, 1, b - 1, b, b + 1, 2 * b - 1, 2 * b, 3 * b + 1, U64 - b, U64 - b - 1, U64 - 2 * b + 1])
        for _ in range(8 if quick else 200):
            xs.add(r.randrange(U64 - b + 1))
        for x in sorted(xs):
            if 0 <= x and x + b <= U64:
                add("round %d %d" % (x, b))
    # check_bounds: exhaustive small grid with every NULL combination, extremes, random
    vals = list(range(0, 7)) + [U64 - 2, U64 - 1]
    for l in vals:
        for s in ["-"] + vals:
            for e in ["-"] + vals:
                add("cb %s %s %d" % (s, e, l))
    for _ in range(500 if quick else 50000):
        l = r.randrange(U64) >> r.randrange(64)
        s = r.choice(["-", str(r.randrange(U64) >> r.randrange(64))])
        e = r.choice(["-", str(r.randrange(U64) >> r.randrange(64))])
        add("cb %s %s %d" % (s, e, l))
    # random: streams, fractions, ranges over a boundary grid incl. min==max and the extremes
    for seed in [0, 1, 2, 0xdeadbeef, U64 - 1] + [r.randrange(U64) for _ in range(5 if quick else 100)]:
        add("rand %d %d" % (seed, 20))
        add("frand %d %d" % (seed, 20))
    # the ends of the 32-bit output range, where a fraction could touch 1.0: constructed seeds
    for want in (0xFFFFFFFF, 0, 0xFFFFFFFE, 0x80000000):
        for draw in (1, 2, 3):
            sd = seed_for_output(want, draw, r.getrandbits(27))
            add("rand %d %d" % (sd, 4))
            add("frand %d %d" % (sd, 4))
    # one state shared by the three draw functions (also as straight-line code: the scripts rrrrfg and frgfrg)
    for _ in range(60 if quick else 3000):
        a, b = r.randrange(-2**31, 2**31), r.randrange(-2**31, 2**31)
        lo, hi = (min(a, b), max(a, b)) if r.random() < 0.6 else (-5, 5)
        sc = r.choice(["rrrrfg", "frgfrg", "".join(r.choice("rfg") for _ in range(r.randrange(2, 13)))])
        add("mix %d %d %d %s" % (r.randrange(U64), lo, hi, sc))
    for k in range(3):
        add("mixfixed %d" % k)
    grid = [-2**31, -2**31 + 1, -2**30, -7, -1, 0, 1, 5, 2**30, 2**31 - 2, 2**31 - 1]
    for lo in grid:
        for hi in grid:
            if lo <= hi:
                add("rr %d %d %d %d" % (r.randrange(U64), lo, hi, 12))
    for _ in range(300 if quick else 30000):
        a, b = r.randrange(-2**31, 2**31), r.randrange(-2**31, 2**31)
        if r.random() < 0.3:
            b = a + r.randrange(0, 4)
        lo, hi = min(a, b), min(max(a, b), 2**31 - 1)
        add("rr %d %d %d %d" % (r.randrange(U64), lo, hi, 6))
    return cases


def run(ctx):
    ctx.rules.append("one helper call per case (hash of a byte string, next power of two, rounding, "
                     "bounds check incl. NULL combinations, PCG32 stream / fraction / ranged draw); "
                     "non-trivial = not the all-zero/empty argument; distinct by case text")
    ctx.assumptions += ["pcg32 rejection loop terminates (fuel-bounded in the model)",
                        "C unsigned arithmetic = arithmetic mod 2^w; int32 conversion is two's complement",
                        "gcc's __int128 product (the path compiled here) is the product mod 2^128"]
    exe = ctx.build_harness("c20")
    ctx.build_model()
    ctx.prove()
    cases = ctx.replay_cases if ctx.replay_cases is not None else (vlib.load_corpus("C20") + gen(ctx))
    ctx.correspond("num-helpers", exe, cases, oracle=oracle,
                   nontrivial=lambda c: not c[0].endswith(" -") and " 0" not in c[0][-2:])
    if ctx.tier == "thorough" and ctx.replay_cases is None:
        sweep_np2(ctx)


def sweep_np2(ctx):
    """exhaustive 2^31 sweep of the 32-bit next-power-of-two on the C side against the closed form
    (witness search only; the theorem np2_32_spec is what covers all arguments)"""
    exe = ctx.build_harness("c20_sweep", tag="nosan", san=False, extra=["-O2", "-fopenmp"])
    rc, out, err = vlib.sh([exe], timeout=3000)
    ctx.stats["np2_32_sweep"] = out.strip()
    if rc != 0:
        x = out.strip().split()[-1] if out.strip() else "?"
        ctx.add_witness("np2-sweep", ["num np2_32 %s" % x], [out.strip()], [], "np2_32 sweep mismatch: " + out.strip())
