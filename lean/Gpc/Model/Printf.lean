import Gpc.Model.PFString
import Gpc.Spec.Printf
/-
Model of the formatter (src/format_scanning.c, src/printf.c): the scanner, the per-conversion
writers and the padding, as they are written, over the bounded string of `Model/PFString.lean`.
The digits of a floating point conversion come from the exact specification (`Spec/Printf.lean`;
the Ryu tables are not modelled) and are written through the converter's block writers.
-/
namespace Gpc.Printf
open Gpc.PF (PF Emit)

/-! ### `pf_scan_format_string` -/

/-- width / precision as written: a number or `*` -/
inductive Num where
  | lit (n : Nat)
  | star
deriving Repr

structure RawSpec where
  flags : Flags := {}
  width : Option Num := none
  prec : Option Num := none
  len : LenMod := .none
  conv : Char
deriving Repr

def isDigit (b : UInt8) : Bool := 48 ≤ b ∧ b ≤ 57

def scanFlags : Bytes → Flags → Bytes × Flags
  | b :: r, f =>
    if b = 45 then scanFlags r { f with dash := true }
    else if b = 43 then scanFlags r { f with plus := true }
    else if b = 32 then scanFlags r { f with space := true }
    else if b = 35 then scanFlags r { f with hash := true }
    else if b = 48 then scanFlags r { f with zero := true }
    else (b :: r, f)
  | [], f => ([], f)

def scanNat : Bytes → Nat → Bytes × Nat
  | b :: r, acc => if isDigit b then scanNat r (acc * 10 + (b.toNat - 48)) else (b :: r, acc)
  | [], acc => ([], acc)

def scanLen : Bytes → Bytes × LenMod
  | 104 :: 104 :: r => (r, .hh)
  | 104 :: r => (r, .h)
  | 108 :: 108 :: r => (r, .ll)
  | 108 :: r => (r, .l)
  | 106 :: r => (r, .j)
  | 122 :: r => (r, .z)
  | 116 :: r => (r, .t)
  | 76 :: r => (r, .L)
  | 66 :: r => (r, .B)
  | 87 :: r => (r, .W)
  | 68 :: r => (r, .D)
  | 81 :: r => (r, .Q)
  | r => (r, .none)

/-- the conversion specification that starts after a `%`; answers the rest of the format -/
def scanSpec (s : Bytes) : Option (RawSpec × Bytes) :=
  match s with
  | 37 :: r => some ({ conv := '%' }, r)
  | _ =>
  let (s, flags) := scanFlags s {}
  let (s, width) : Bytes × Option Num := match s with
    | 42 :: r => (r, some .star)
    | b :: r => if isDigit b then let (r', n) := scanNat (b :: r) 0; (r', some (.lit n)) else (b :: r, none)
    | [] => ([], none)
  let (s, prec) : Bytes × Option Num := match s with
    | 46 :: 42 :: r => (r, some .star)
    | 46 :: r => let (r', n) := scanNat r 0; (r', some (.lit n))
    | r => (r, none)
  let (s, len) := scanLen s
  match s with
  | c :: r => some ({ flags := flags, width := width, prec := prec, len := len, conv := Char.ofNat c.toNat }, r)
  | [] => none

/-- literal text up to the next `%` -/
def splitLiteral (s : Bytes) : Bytes × Bytes := (s.takeWhile (· ≠ 37), s.dropWhile (· ≠ 37))

def toInt32 (raw : Nat) : Int :=
  let v : Nat := raw % 2 ^ 32
  if v ≥ 2 ^ 31 then (v : Int) - (2 ^ 32 : Nat) else v

/-- `*` arguments are consumed as `int`s: a negative width is a `-` flag, a negative precision is none -/
def resolve (r : RawSpec) (args : List Arg) : Option (Spec × List Arg) := do
  let (flags, width, args) ← match r.width with
    | none => some (r.flags, 0, args)
    | some (.lit n) => some (r.flags, n, args)
    | some .star => match args with
      | .int raw :: rest =>
        let w := toInt32 raw
        if w < 0 then some ({ r.flags with dash := true }, w.natAbs, rest) else some (r.flags, w.toNat, rest)
      | _ => none
  let (prec, args) ← match r.prec with
    | none => some (none, args)
    | some (.lit n) => some (some n, args)
    | some .star => match args with
      | .int raw :: rest =>
        let p := toInt32 raw
        if p < 0 then some (none, rest) else some (some p.toNat, rest)
      | _ => none
  pure ({ flags := flags, width := width, prec := prec, len := r.len, conv := r.conv }, args)

/-! ### the writers of src/printf.c -/

structure Misc where
  hasSign : Bool := false
  has0x : Bool := false
  nanOrInf : Bool := false

/-- `pf_no_digits` -/
def noDigits (s : Spec) (isZero : Bool) : Bool := isZero ∧ s.prec = some 0

/-- digits at the current position and precision zero-fill; nothing at all for zero with precision 0 -/
def writeDigits (p : PF) (s : Spec) (base : Nat) (upper : Bool) (skip : Bool) (x : Nat) : Option PF :=
  if skip then PF.leadingZeroes p 0 s.prec else PF.writeUInt p base upper s.prec x

/-- `pf_write_i`: answers the string and whether a sign was written -/
def writeI (p : PF) (s : Spec) (raw : Nat) : Option (PF × Misc) := do
  let v := signedArg s.len raw
  let sign : Option UInt8 := if v < 0 then some 45 else if s.flags.plus then some 43 else if s.flags.space then some 32 else none
  let p ← match sign with | some c => PF.push p c | none => some p
  let p ← writeDigits p s 10 false (noDigits s (v = 0)) v.natAbs
  pure (p, { hasSign := sign.isSome })

/-- `pf_write_o` -/
def writeO (p : PF) (s : Spec) (raw : Nat) : Option PF :=
  let u := unsignedArg s.len raw
  if s.flags.hash ∧ u > 0 then PF.writeOctAlt p s.prec u
  else writeDigits p s 8 false (noDigits s (u = 0) ∧ ¬ s.flags.hash) u

/-- `pf_write_x` / `pf_write_X` -/
def writeX (p : PF) (s : Spec) (upper : Bool) (raw : Nat) : Option (PF × Misc) := do
  let u := unsignedArg s.len raw
  let alt := s.flags.hash ∧ u > 0
  let p ← if alt then PF.concat p [48, if upper then 88 else 120] else some p
  let p ← writeDigits p s 16 upper (noDigits s (u = 0)) u
  pure (p, { has0x := alt })

/-- `pf_write_p` -/
def writeP (p : PF) (s : Spec) (raw : Nat) : Option PF := do
  let u := raw % 2 ^ 64
  if u > 0 then
    let p ← PF.concat p [48, 120]
    PF.writeUInt p 16 false s.prec u
  else PF.concat p (ascii "(nil)")

/-- `pf_c_string_padding` (conversions `s`) -/
def writeS (p : PF) (s : Spec) (str : Bytes) : Option PF := do
  let t := strArg s.prec str          -- strlen, or the bounded scan when a precision is given
  let diff := (max s.width t.length) - t.length
  if s.flags.dash then
    let p ← PF.concat p t
    PF.pad p 32 diff
  else
    let p ← PF.pad p 32 diff
    PF.concat p t

/-- `pf_write_S` / `pf_utf8_string_padding`: the bytes kept by the scan, padded to the width in code points -/
def writeUS (p : PF) (s : Spec) (str : Bytes) : Option PF := do
  let r ← ustrArg s.prec str
  let diff := (max s.width r.2) - r.2
  if s.flags.dash then
    let p ← PF.concat p r.1
    PF.pad p 32 diff
  else
    let p ← PF.pad p 32 diff
    PF.concat p r.1

/-! ### floating point: the exact digits, written through the converter's block writers -/

def valueOf (ds : Bytes) : Nat := ds.foldl (fun a b => a * 10 + (b.toNat - 48)) 0

/-- blocks of nine digits, the last one shorter (`pf_append_nine_digits` / `pf_append_c_digits`) -/
def fracBlocks (ds : Bytes) (fuel : Nat) : List Emit :=
  match fuel with
  | 0 => []
  | fuel + 1 =>
    if ds.length = 0 then []
    else if ds.length > 9 then Emit.nine (valueOf (ds.take 9)) :: fracBlocks (ds.drop 9) fuel
    else [Emit.cdig ds.length (valueOf ds)]

/-- integer part: a first block without leading zeros, then blocks of nine -/
def intBlocks (ds : Bytes) : List Emit :=
  let r := if ds.length % 9 = 0 then 9 else ds.length % 9
  let rec go (ds : Bytes) (fuel : Nat) : List Emit :=
    match fuel with
    | 0 => []
    | fuel + 1 => if ds.length = 0 then [] else Emit.nine (valueOf (ds.take 9)) :: go (ds.drop 9) fuel
  Emit.utoa (valueOf (ds.take r)) :: go (ds.drop r) ds.length

/-- fraction: leading zeros by `pf_pad`, then digit blocks -/
def fracPlan (ds : Bytes) : List Emit :=
  let z := (ds.takeWhile (· = 48)).length
  (if z > 0 then [Emit.pad 48 z] else []) ++ fracBlocks (ds.drop z) ds.length

/-- the output steps for a finite value's text `body` (without sign) -/
def bodyPlan (body : Bytes) : List Emit :=
  let mant := body.takeWhile (fun b => b ≠ 101 ∧ b ≠ 69)
  let expo := body.dropWhile (fun b => b ≠ 101 ∧ b ≠ 69)
  let ip := mant.takeWhile (· ≠ 46)
  let rest := mant.dropWhile (· ≠ 46)
  let mantPlan : List Emit :=
    if expo.length = 0 then
      intBlocks ip ++ (match rest with | [] => [] | _ :: fr => Emit.push 46 :: fracPlan fr)
    else match rest with
      | [] => [Emit.push (ip.headD 48)]
      | _ :: fr =>
        -- "d.ddd": the first block with its decimal point, then blocks of nine
        let first := ip ++ fr.take 8
        if fr.length = 0 then [Emit.push (ip.headD 48), Emit.push 46]
        else Emit.ddig first.length (valueOf first) :: fracBlocks (fr.drop 8) fr.length
  let expPlan : List Emit := match expo with
    | [] => []
    | e :: sg :: ds => [Emit.push e, Emit.push sg, Emit.concat ds]
    | [e] => [Emit.push e]
  mantPlan ++ expPlan

def floatPlan (s : Spec) (bits : Nat) : List Emit × Misc :=
  let (sg, body, special) := floatParts s bits
  let d := decode bits
  (sg.map Emit.push ++ (if special then [Emit.concat body] else bodyPlan body),
   { hasSign := d.neg ∨ s.flags.plus ∨ s.flags.space, nanOrInf := special })

/-! ### `pf_add_padding` and the dispatcher -/

def addPadding (p : PF) (s : Spec) (written : Nat) (md : Misc) : Option PF :=
  let start := p.length - written
  let diff := s.width - written
  let isIntWithPrec := isIntConv s.conv ∧ s.prec.isSome
  let ignoreZero := isIntWithPrec ∨ md.nanOrInf
  if s.flags.dash then PF.pad p 32 diff
  else if s.flags.zero ∧ ¬ ignoreZero then
    PF.insertPad p (start + (if md.hasSign then 1 else 0) + (if md.has0x then 2 else 0)) 48 diff
  else PF.insertPad p start 32 diff

/-- one conversion: the writer, then the field padding when the writer produced less than the width -/
def convert (p : PF) (s : Spec) (arg : Option Arg) : Option PF := do
  let start := p.length
  let (p, md, padded) ← match s.conv, arg with
    | '%', none => do let p ← PF.push p 37; pure (p, ({} : Misc), true)
    | 'c', some (.int raw) =>
      -- `%lc`: `pf_write_wc` encodes into a temporary and appends it clipped; `%c`: one pushed byte
      if s.len = .l then do let p ← PF.concat p (wcBytes raw); pure (p, {}, false)
      else do let p ← PF.push p (UInt8.ofNat (raw % 256)); pure (p, {}, false)
    | 's', some (.str str) => do let p ← writeS p s str; pure (p, {}, false)
    | 'S', some (.gstr str) => do let p ← writeUS p s str; pure (p, {}, false)
    | 'd', some (.int raw) => do let (p, md) ← writeI p s raw; pure (p, md, false)
    | 'i', some (.int raw) => do let (p, md) ← writeI p s raw; pure (p, md, false)
    | 'o', some (.int raw) => do let p ← writeO p s raw; pure (p, {}, false)
    | 'x', some (.int raw) => do let (p, md) ← writeX p s false raw; pure (p, md, false)
    | 'X', some (.int raw) => do let (p, md) ← writeX p s true raw; pure (p, md, false)
    | 'u', some (.int raw) => do let p ← writeDigits p s 10 false (noDigits s (unsignedArg s.len raw = 0)) (unsignedArg s.len raw); pure (p, {}, false)
    | 'p', some (.int raw) => do let p ← writeP p s raw; pure (p, {}, false)
    | c, some (.dbl bits) =>
      if isFloatConv c then do
        let (plan, md) := floatPlan s bits
        let p ← PF.writeFloat p plan
        pure (p, md, false)
      else none
    | _, _ => none
  -- `%%` reports 0 written characters
  let written := if padded then 0 else p.length - start
  if written < s.width then addPadding p s written md else some p

/-- the kind of argument a conversion fetches with `va_arg` -/
def argFits (c : Char) : Arg → Bool
  | .int _ => c = 'c' || c = 'd' || c = 'i' || c = 'o' || c = 'x' || c = 'X' || c = 'u' || c = 'p'
  | .str _ => c = 's'
  | .gstr _ => c = 'S'
  | .dbl _ => isFloatConv c

/-- `pf_vsnprintf_consuming`: `none` = a write outside the destination, `some none` = bad format/arguments -/
def vsnprintf (fuel : Nat) (p : PF) (fmt : Bytes) (args : List Arg) : Option (Option PF) :=
  match fuel with
  | 0 => some none
  | fuel + 1 =>
    match PF.concat p (splitLiteral fmt).1 with
    | none => none
    | some p =>
      match (splitLiteral fmt).2 with
      | [] => some (some p)
      | _ :: afterPct =>
        match scanSpec afterPct with
        | none => some none
        | some (raw, rest) =>
          match resolve raw args with
          | none => some none
          | some (s, args) =>
            if s.conv = '%' then
              match convert p s none with
              | none => none
              | some p => vsnprintf fuel p rest args
            else match args with
              | [] => some none
              | a :: args =>
                if !argFits s.conv a then some none else
                match convert p s (some a) with
                | none => none
                | some p => vsnprintf fuel p rest args

/-- the terminator is written only when it fits -/
def finish (p : PF) : Option PF :=
  if p.length < p.cap then do
    let d ← PF.wr p.data p.length [0]
    pure { p with data := d }
  else some p

/-- the output for a format and its arguments when one conversion's text is given by `ct`
(same scanning and argument consumption as the formatter) -/
def genFormat (ct : Spec → Option Arg → Option Bytes) (fuel : Nat) (fmt : Bytes) (args : List Arg) : Option Bytes :=
  match fuel with
  | 0 => none
  | fuel + 1 =>
    match (splitLiteral fmt).2 with
    | [] => some (splitLiteral fmt).1
    | _ :: afterPct =>
      match scanSpec afterPct with
      | none => none
      | some (raw, rest) =>
        match resolve raw args with
        | none => none
        | some (s, args) =>
          if s.conv = '%' then
            match ct s none, genFormat ct fuel rest args with
            | some t, some tail => some ((splitLiteral fmt).1 ++ t ++ tail)
            | _, _ => none
          else match args with
            | [] => none
            | a :: args =>
              if !argFits s.conv a then none else
              match ct s (some a), genFormat ct fuel rest args with
              | some t, some tail => some ((splitLiteral fmt).1 ++ t ++ tail)
              | _, _ => none

/-- one conversion according to the specification -/
def specConv (s : Spec) : Option Arg → Option Bytes
  | none => if s.conv = '%' then some [37] else none
  | some a => formatOne s a

/-- the specification's output for a format and its arguments -/
def specFormat (fuel : Nat) (fmt : Bytes) (args : List Arg) : Option Bytes := genFormat specConv fuel fmt args

end Gpc.Printf
