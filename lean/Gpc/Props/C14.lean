import Gpc.Proofs.Conc
import Gpc.Generated.Conc
import Gpc.Props.C01
/-!
# C14 — concurrent use is race-free and equals some sequential execution

Model: `Gpc.Conc`.  The synchronisation skeletons of `gp_locale`, `gp_arena_shared_alloc` and the test counters are
regenerated from the sources on every run (`Gpc.Generated.Conc`); objects: 0 = the locale table (guarded by mutex 0 =
`gp_locale_table_mutex`), 1 = a shared arena (guarded by mutex 1 = the mutex stored behind it), 2..5 = the counters
(no guard: atomic accesses only).  All statements quantify over every number of threads, every thread program made of
such calls and every schedule.
-/
namespace Gpc.Props.C14
open Gpc.Conc Gpc.Generated.Conc

def guardOf : Nat → Option Nat
  | 0 => some 0
  | 1 => some 1
  | _ => none

def allPaths : List (List Act) := localePaths ++ sharedAllocPaths ++ counterPaths

/-- **T-gen obligation.** Every control path of the shared facilities, as the code is now: plain accesses only
under the object's mutex, atomics only on unguarded objects, every path releases what it locks, and a key is put
into the table only after a miss inside the same critical section. -/
theorem generated_paths_disciplined :
    ∀ p ∈ allPaths, guardedFrom guardOf [] p = true ∧ closed p = true ∧ putsChecked [] false p = true := by
  decide

/-- the shared allocation is `lock; read; write; unlock` around the sequential allocator (the shape `Sec` models) -/
theorem shared_alloc_is_a_section : sharedAllocPaths = [[.lock 1, .read 1, .write 1, .unlock 1]] := by decide

/-- **C14 (race freedom).** If every thread's program respects the discipline, no schedule reaches a state in which
two threads are about to perform conflicting accesses to the same object. -/
theorem race_free (g : Nat → Option Nat) (progs : Nat → List Act) (hg : ∀ t, guardedFrom g [] (progs t) = true)
    (c : Cfg) (hr : Reach (Cfg.init progs) c) : ¬ Race c :=
  no_race_of_inv g c (inv_reach g _ c (inv_init g progs hg) hr)

/-- ... in particular for threads that perform any sequences of calls of the library's shared facilities -/
theorem library_calls_race_free (calls : Nat → List (List Act)) (h : ∀ t, ∀ p ∈ calls t, p ∈ allPaths)
    (c : Cfg) (hr : Reach (Cfg.init fun t => (calls t).flatten) c) : ¬ Race c := by
  refine race_free guardOf _ (fun t => ?_) c hr
  exact guarded_flatten guardOf (calls t) (fun p hp =>
    let d := generated_paths_disciplined p (h t p hp); ⟨d.1, d.2.1⟩)

/-- the discipline is not vacuous: two threads that both allocate and look a locale up -/
example : (∀ p ∈ [[Act.lock 1, .read 1, .write 1, .unlock 1], [Act.lock 1, .read 1, .write 1, .unlock 1]],
    guardedFrom guardOf [] p = true ∧ closed p = true) := by decide
/-- and it rejects the double-checked lookup: a read of the table outside the mutex -/
example : guardedFrom guardOf [] [.once 0, .getMiss 0, .lock 0, .getMiss 0, .loc, .put 0, .unlock 0] = false := by decide
/-- such a program does race: the unlocked lookup against the insertion under the lock -/
example : Race { owner := fun m => if m = 0 then some 1 else none,
                 th := fun t => if t = 0 then ⟨[], [.getMiss 0]⟩ else if t = 1 then ⟨[0], [.put 0, .unlock 0]⟩ else ⟨[], []⟩ } :=
  ⟨0, 1, .getMiss 0, .put 0, [], [.unlock 0], 0, .r, .w, by decide, rfl, rfl, rfl, rfl, rfl⟩

/-- **C14 (sequential equivalence).** For any sequential operation `f`, any scripts and any schedule: the shared
state and the results are those of running the calls one after the other in the order `c.log` (the order in which
the critical sections took effect), and that order contains each thread's calls in program order, none lost, none
duplicated. -/
theorem section_linearizable {σ α β : Type} (f : σ → α → σ × β) (s0 : σ) (scripts : Nat → List α) (c : Sec σ α β)
    (hr : Sec.Reach f (Sec.init s0 scripts) c) :
    seqRun f s0 c.log = (c.shared, c.outs) ∧ ∀ t, scripts t = c.doneBy t ++ (c.th t).pending :=
  let h := sinv_reach f s0 scripts c hr; ⟨h.seq, h.prog⟩

/-- a value read inside the critical section is still the shared state when it is used -/
theorem section_read_is_current {σ α β : Type} (f : σ → α → σ × β) (s0 : σ) (scripts : Nat → List α) (c : Sec σ α β)
    (hr : Sec.Reach f (Sec.init s0 scripts) c) (t : Nat) (s : σ) (h : (c.th t).phase = .haveRead s) : s = c.shared :=
  (sinv_reach f s0 scripts c hr).fresh t s h

theorem seqRun_inv (g : Nat → Nat) (a : Gpc.Arena.Arena) (ns : List Nat) (h : Gpc.Arena.Inv a) :
    Gpc.Arena.Inv (seqRun (fun a n => Gpc.Arena.alloc g a n) a ns).1 := by
  induction ns generalizing a with
  | nil => simpa [seqRun] using h
  | cons n r ih => simp only [seqRun]; exact ih _ (Gpc.Arena.inv_alloc g a n h)

/-- **C14 (shared arena).** Whatever the threads and the schedule, the arena behind the mutex satisfies the arena
invariant of C01 - every block handed out, to whichever thread, is aligned, inside its node and disjoint from
every other live block - because its state is that of a sequential run of the same allocations. -/
theorem shared_arena_blocks_exclusive (g : Nat → Nat) (a0 : Gpc.Arena.Arena) (h0 : Gpc.Arena.Inv a0)
    (scripts : Nat → List Nat) (c : Sec Gpc.Arena.Arena Nat Gpc.Arena.Addr)
    (hr : Sec.Reach (fun a n => Gpc.Arena.alloc g a n) (Sec.init a0 scripts) c) : Gpc.Arena.Inv c.shared := by
  have h := (section_linearizable _ a0 scripts c hr).1
  have := seqRun_inv g a0 c.log h0
  rw [h] at this; exact this

/-- **C14 (locale cache).** With the lookup and the insertion in one critical section, all calls for one locale code
return the same object, in every thread and under every schedule. -/
theorem locale_cache_consistent (c0 : Cache) (scripts : Nat → List Nat) (c : Sec Cache Nat Nat)
    (hr : Sec.Reach getOrCreate (Sec.init c0 scripts) c) (i j : Nat) (hi : i < c.log.length) (hj : j < c.log.length)
    (hk : c.log[i] = c.log[j]) : c.outs[i]? = c.outs[j]? := by
  have h := (section_linearizable getOrCreate c0 scripts c hr).1
  have hlen : c.outs.length = c.log.length := by simp [Sec.outs, Sec.log]
  have e1 : c.outs[i]? = some c.outs[i] := by simp [hlen, hi]
  have e2 : c.outs[j]? = some c.outs[j] := by simp [hlen, hj]
  have r1 := seqRun_results_in_final c0 c.log i hi (c.outs[i]'(by omega)) (by rw [h]; exact e1)
  have r2 := seqRun_results_in_final c0 c.log j hj (c.outs[j]'(by omega)) (by rw [h]; exact e2)
  rw [hk] at r1
  rw [r1] at r2
  rw [e1, e2, Option.some.inj r2]

/-- the first critical section of `gp_locale` (lookup only) is a `getOrCreate` that changes nothing when it hits, and
does nothing when it misses (the call then runs the second section, which is `getOrCreate`): the two-section code
has the linearization points of the one-section model -/
theorem lookup_hit_is_getOrCreate (c : Cache) (k v : Nat) (h : c.table.lookup k = some v) : getOrCreate c k = (c, v) := by
  simp [getOrCreate, h]

/-! ### first-use initialisation: `gp_thread_once` as a section that runs `init` unless the flag is set -/

def onceOp {σ : Type} (init : σ → σ) (s : Bool × σ) (_ : Unit) : (Bool × σ) × Bool :=
  if s.1 then (s, false) else ((true, init s.2), true)

theorem seqRun_once_done {σ : Type} (init : σ → σ) (x : σ) (l : List Unit) :
    seqRun (onceOp init) (true, x) l = ((true, x), List.replicate l.length false) := by
  induction l with
  | nil => rfl
  | cons a r ih => simp [seqRun, onceOp, ih, List.replicate_succ]

/-- **C14 (once).** However many threads call it and in whatever order their calls take effect, the initialiser has
run exactly once as soon as one call has completed: the state is `init s0`, exactly the first call reports having
run it. -/
theorem once_runs_once {σ : Type} (init : σ → σ) (s0 : σ) (scripts : Nat → List Unit) (c : Sec (Bool × σ) Unit Bool)
    (hr : Sec.Reach (onceOp init) (Sec.init (false, s0) scripts) c) (hne : c.log ≠ []) :
    c.shared = (true, init s0) ∧ c.outs = true :: List.replicate (c.log.length - 1) false := by
  have h := (section_linearizable (onceOp init) (false, s0) scripts c hr).1
  cases hl : c.log with
  | nil => exact absurd hl hne
  | cons a r =>
    rw [hl] at h
    simp only [seqRun, onceOp, Bool.false_eq_true, if_false, seqRun_once_done] at h
    have h1 : c.shared = (true, init s0) := by have := congrArg Prod.fst h; simpa using this.symm
    have h2 : c.outs = true :: List.replicate r.length false := by have := congrArg Prod.snd h; simpa using this.symm
    exact ⟨h1, by simpa using h2⟩

/-- **C14 (counters).** Atomic increments from any number of threads, in any order, are all counted. -/
theorem counters_exact (c0 c : Ctr) (hr : Ctr.Reach c0 c) (hdone : c.rem.sum = 0) : c.count = c0.count + c0.rem.sum := by
  have := ctr_reach c0 c hr; omega
/-- the non-atomic increment of two threads loses an update under the schedule r0 r1 w0 w1: why the counters
have to be atomic objects (`generated_paths_disciplined` checks that they are in the built configuration) -/
theorem plain_increment_loses_update :
    plainIncr 0 (fun _ => 0) [(0, false), (1, false), (0, true), (1, true)] = 1 := by decide

/-- reachable states exist in which a thread sits between its read and its write while another waits -/
example : ∃ c : Sec Nat Nat Nat, Sec.Reach (fun s n => (s + n, s)) (Sec.init 0 fun _ => [5]) c ∧
    (c.th 0).phase = .haveRead 0 ∧ (c.th 1).phase = .idle :=
  ⟨_, .step 0 (.step 0 .refl rfl) rfl, rfl, rfl⟩

end Gpc.Props.C14
