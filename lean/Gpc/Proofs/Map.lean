import Gpc.Model.Map
/-!
Helper lemmas for C05.  `hitList` lists, in walk order, the elements stored under the (shifted) key
`ks` along the walk that `get`/`put`/`remove` perform from array `path` at depth `d`.
-/
namespace Gpc.Map

/-- elements stored under `ks` along the walk from (`path`, `ks`, `d`), first found first -/
def hitList (width0 : Nat) (cells : List Nat → Cell) : (fuel : Nat) → (path : List Nat) → (ks d : Nat) → List Nat
  | 0, _, _, _ => []
  | fuel + 1, path, ks, d =>
    let p := path ++ [ks % w width0 d]
    match cells p with
    | .empty => []
    | .leaf k e => if k = ks then [e] else []
    | .node k (some e) =>
      (if k = ks then [e] else []) ++ hitList width0 cells fuel p (ks / w width0 d) (d + 1)
    | .node _ none => hitList width0 cells fuel p (ks / w width0 d) (d + 1)

/-- every non-empty cell sits at a path of length `≤ D` -/
def DepthOk (cells : List Nat → Cell) (D : Nat) : Prop := ∀ p, cells p ≠ .empty → p.length ≤ D

/-- below an empty slot or a leaf there is nothing (child arrays are created zeroed, only under
slots that become nodes) -/
def TreeOk (cells : List Nat → Cell) : Prop :=
  ∀ p q, p ≠ [] → q ≠ [] → (cells p = .empty ∨ ∃ k e, cells p = .leaf k e) → cells (p ++ q) = .empty

/-- every slot on the way down to the array `path` is a node -/
def PathNodes (cells : List Nat → Cell) (path : List Nat) : Prop :=
  ∀ p0 q, p0 ≠ [] → p0 ++ q = path → ∃ k eo, cells p0 = .node k eo

theorem setCell_same (cells : List Nat → Cell) (p : List Nat) (c : Cell) : setCell cells p c p = c := by
  simp [setCell]

theorem setCell_other (cells : List Nat → Cell) (p q : List Nat) (c : Cell) (h : q ≠ p) :
    setCell cells p c q = cells q := by
  simp [setCell, h]

theorem append_singleton_ne_self (p : List Nat) (i : Nat) (q : List Nat) : p ++ [i] ++ q ≠ p := by
  intro e
  have := congrArg List.length e
  simp at this

/-- `hitList` from (`path`, `ks`, `d`) only reads cells at paths extending `path ++ [ks % w d]` -/
theorem hitList_congr (width0 : Nat) (c1 c2 : List Nat → Cell) (fuel : Nat) (path : List Nat) (ks d : Nat)
    (h : ∀ q, c1 (path ++ [ks % w width0 d] ++ q) = c2 (path ++ [ks % w width0 d] ++ q)) :
    hitList width0 c1 fuel path ks d = hitList width0 c2 fuel path ks d := by
  induction fuel generalizing path ks d with
  | zero => rfl
  | succ f ih =>
    simp only [hitList]
    have h0 := h []
    simp only [List.append_nil] at h0
    rw [h0]
    have hrec : hitList width0 c1 f (path ++ [ks % w width0 d]) (ks / w width0 d) (d + 1)
        = hitList width0 c2 f (path ++ [ks % w width0 d]) (ks / w width0 d) (d + 1) := by
      apply ih
      intro q
      have := h ([(ks / w width0 d) % w width0 (d + 1)] ++ q)
      simpa [List.append_assoc] using this
    cases c2 (path ++ [ks % w width0 d]) with
    | empty => rfl
    | leaf k e => rfl
    | node k eo => cases eo <;> simp [hrec]

/-- enough fuel: with `DepthOk cells D`, a walk at depth `d = |path|` ends within `D + 1 - d` steps -/
theorem hitList_fuel (width0 : Nat) (cells : List Nat → Cell) (D : Nat) (hD : DepthOk cells D)
    (f1 f2 : Nat) (path : List Nat) (ks d : Nat) (hp : path.length = d) (h1 : D + 1 ≤ f1 + d) (h2 : D + 1 ≤ f2 + d) :
    hitList width0 cells f1 path ks d = hitList width0 cells f2 path ks d := by
  induction f1 generalizing f2 path ks d with
  | zero =>
    -- d ≥ D + 1: the next cell is beyond every non-empty cell
    cases f2 with
    | zero => rfl
    | succ g =>
      simp only [hitList]
      have : cells (path ++ [ks % w width0 d]) = .empty := by
        apply Classical.byContradiction; intro hne
        have := hD _ hne; simp at this; omega
      rw [this]
  | succ f ih =>
    cases f2 with
    | zero =>
      simp only [hitList]
      have : cells (path ++ [ks % w width0 d]) = .empty := by
        apply Classical.byContradiction; intro hne
        have := hD _ hne; simp at this; omega
      rw [this]
    | succ g =>
      simp only [hitList]
      have hrec := ih g (path ++ [ks % w width0 d]) (ks / w width0 d) (d + 1) (by simp; omega) (by omega) (by omega)
      cases cells (path ++ [ks % w width0 d]) with
      | empty => rfl
      | leaf k e => rfl
      | node k eo => cases eo <;> simp [hrec]

/-- `get` returns the first hit (or nothing), provided the fuel suffices -/
theorem getLoop_eq (width0 : Nat) (cells : List Nat → Cell) (D : Nat) (hD : DepthOk cells D)
    (fuel : Nat) (path : List Nat) (ks d : Nat) (hp : path.length = d) (hf : D + 1 ≤ fuel + d) (hpos : 0 < fuel) :
    getLoop width0 cells fuel path ks d = some (hitList width0 cells fuel path ks d).head? := by
  induction fuel generalizing path ks d with
  | zero => omega
  | succ f ih =>
    simp only [getLoop, hitList]
    cases hc : cells (path ++ [ks % w width0 d]) with
    | empty => simp
    | leaf k e => by_cases hk : k = ks <;> simp [hk]
    | node k eo =>
      have hlen := hD _ (by rw [hc]; simp)
      simp at hlen
      have hrec := ih (path ++ [ks % w width0 d]) (ks / w width0 d) (d + 1) (by simp; omega) (by omega) (by omega)
      cases eo with
      | none => simp [hrec]
      | some e =>
        by_cases hk : k = ks
        · simp [hk]
        · simp [hk, hrec]

/-! ### put -/

theorem TreeOk.setNode {cells : List Nat → Cell} (h : TreeOk cells) (p : List Nat) (k : Nat) (eo : Option Nat)
    (hp : cells p ≠ .empty) : TreeOk (setCell cells p (.node k eo)) := by
  intro p0 q hp0 hq hc
  by_cases e0 : p0 = p
  · subst e0; simp [setCell] at hc
  · rw [setCell_other _ _ _ _ e0] at hc
    have := h p0 q hp0 hq hc
    by_cases e1 : p0 ++ q = p
    · rw [e1] at this; exact absurd this hp
    · rw [setCell_other _ _ _ _ e1]; exact this

theorem TreeOk.setLeaf {cells : List Nat → Cell} (h : TreeOk cells) (p : List Nat) (k e : Nat)
    (hbelow : ∀ q, q ≠ [] → cells (p ++ q) = .empty)
    (habove : ∀ p0 q, p0 ≠ [] → q ≠ [] → p0 ++ q = p → ¬ (cells p0 = .empty ∨ ∃ k e, cells p0 = .leaf k e)) :
    TreeOk (setCell cells p (.leaf k e)) := by
  intro p0 q hp0 hq hc
  by_cases e0 : p0 = p
  · subst e0
    have : p0 ++ q ≠ p0 := by
      intro e; have := congrArg List.length e; simp at this; exact hq this
    rw [setCell_other _ _ _ _ this]; exact hbelow q hq
  · rw [setCell_other _ _ _ _ e0] at hc
    by_cases e1 : p0 ++ q = p
    · exact absurd hc (habove p0 q hp0 hq e1)
    · rw [setCell_other _ _ _ _ e1]; exact h p0 q hp0 hq hc

/-- `put` only writes cells at paths extending `path ++ [ks % w d]` -/
theorem putLoop_local (width0 : Nat) (fuel : Nat) (cells : List Nat → Cell) (path : List Nat) (ks d e : Nat)
    (log : List Nat) (cells' : List Nat → Cell) (log' : List Nat)
    (h : putLoop width0 fuel cells path ks d e log = some (cells', log')) :
    ∀ q, (∀ r, q ≠ path ++ [ks % w width0 d] ++ r) → cells' q = cells q := by
  induction fuel generalizing cells path ks d log with
  | zero => simp [putLoop] at h
  | succ f ih =>
    intro q hq
    have hqp : q ≠ path ++ [ks % w width0 d] := by have := hq []; simpa using this
    simp only [putLoop] at h
    split at h
    · simp only [Option.some.injEq, Prod.mk.injEq] at h; rw [← h.1, setCell_other _ _ _ _ hqp]
    · split at h
      · simp only [Option.some.injEq, Prod.mk.injEq] at h; rw [← h.1, setCell_other _ _ _ _ hqp]
      · have := ih _ _ _ _ _ h q (fun r e => hq ([ks / w width0 d % w width0 (d + 1)] ++ r) (by simpa [List.append_assoc] using e))
        rw [this, setCell_other _ _ _ _ hqp]
    · split at h
      · simp only [Option.some.injEq, Prod.mk.injEq] at h; rw [← h.1, setCell_other _ _ _ _ hqp]
      · exact ih _ _ _ _ _ h q (fun r e => hq ([ks / w width0 d % w width0 (d + 1)] ++ r) (by simpa [List.append_assoc] using e))
    · exact ih _ _ _ _ _ h q (fun r e => hq ([ks / w width0 d % w width0 (d + 1)] ++ r) (by simpa [List.append_assoc] using e))

theorem div_ne_of_mod_eq (a b m : Nat) (hne : a ≠ b) (hm : a % m = b % m) : a / m ≠ b / m := by
  intro hd
  have h1 := Nat.div_add_mod a m
  have h2 := Nat.div_add_mod b m
  rw [hd, hm] at h1
  omega

theorem hitList_below_leaf (width0 : Nat) (cells : List Nat → Cell) (p : List Nat)
    (h : ∀ q, q ≠ [] → cells (p ++ q) = .empty) (F ks d : Nat) : hitList width0 cells F p ks d = [] := by
  cases F with
  | zero => rfl
  | succ f => simp only [hitList]; rw [h [ks % w width0 d] (by simp)]

theorem not_ext_of_ne_index (path : List Nat) (i j : Nat) (hij : i ≠ j) (q r : List Nat) :
    path ++ [j] ++ q ≠ path ++ [i] ++ r := by
  intro e
  simp only [List.append_assoc, List.append_cancel_left_eq, List.singleton_append, List.cons.injEq] at e
  exact hij e.1.symm

theorem ext_ne_self (p : List Nat) (j : Nat) (r : List Nat) : p ≠ p ++ [j] ++ r := by
  intro e
  have := congrArg List.length e
  simp at this

/-- frame: a `put` under one key does not change what any other key finds -/
theorem putLoop_other (width0 : Nat) (fuel : Nat) (cells : List Nat → Cell) (path : List Nat) (ks ks' d e : Nat)
    (log : List Nat) (cells' : List Nat → Cell) (log' : List Nat) (hne : ks ≠ ks') (ht : TreeOk cells)
    (h : putLoop width0 fuel cells path ks d e log = some (cells', log')) :
    ∀ F, hitList width0 cells' F path ks' d = hitList width0 cells F path ks' d := by
  induction fuel generalizing cells path ks ks' d log with
  | zero => simp [putLoop] at h
  | succ f ih =>
    intro F
    have hloc := putLoop_local width0 (f + 1) cells path ks d e log cells' log' h
    by_cases hi : ks % w width0 d = ks' % w width0 d
    · -- same slot
      have hdiv := div_ne_of_mod_eq ks ks' (w width0 d) hne hi
      cases F with
      | zero => rfl
      | succ G =>
        simp only [hitList, ← hi]
        simp only [putLoop] at h
        generalize hp : path ++ [ks % w width0 d] = p at *
        cases hc : cells p with
        | empty =>
          simp only [hc, Option.some.injEq, Prod.mk.injEq] at h
          rw [← h.1, setCell_same]
          simp [hne]
        | leaf k1 e1 =>
          simp only [hc] at h
          by_cases hk : k1 = ks
          · simp only [hk, if_true, Option.some.injEq, Prod.mk.injEq] at h
            rw [← h.1, setCell_same]
            simp [hne, hk]
          · simp only [hk, if_false] at h
            have ht1 : TreeOk (setCell cells p (.node k1 (some e1))) := ht.setNode p k1 (some e1) (by rw [hc]; simp)
            have hrec := ih _ p (ks / w width0 d) (ks' / w width0 d) (d + 1) log hdiv ht1 h G
            have hcp : cells' p = .node k1 (some e1) := by
              rw [putLoop_local width0 f _ p (ks / w width0 d) (d + 1) e log cells' log' h p (fun r => ext_ne_self p _ r)]
              exact setCell_same _ _ _
            rw [hcp, hrec]
            have hbelow : hitList width0 (setCell cells p (.node k1 (some e1))) G p (ks' / w width0 d) (d + 1) = [] := by
              apply hitList_below_leaf
              intro q hq
              have : p ++ q ≠ p := by intro e'; have := congrArg List.length e'; simp at this; exact hq this
              rw [setCell_other _ _ _ _ this]
              exact ht p q (by rw [← hp]; simp) hq (Or.inr ⟨k1, e1, hc⟩)
            rw [hbelow]; simp
        | node k1 eo =>
          cases eo with
          | none =>
            simp only [hc] at h
            have hrec := ih cells p (ks / w width0 d) (ks' / w width0 d) (d + 1) log hdiv ht h G
            have hcp : cells' p = .node k1 none := by
              rw [putLoop_local width0 f cells p (ks / w width0 d) (d + 1) e log cells' log' h p (fun r => ext_ne_self p _ r)]
              exact hc
            rw [hcp, hrec]
          | some e1 =>
            simp only [hc] at h
            by_cases hk : k1 = ks
            · simp only [hk, if_true, Option.some.injEq, Prod.mk.injEq] at h
              rw [← h.1, setCell_same]
              have : hitList width0 (setCell cells p (.node ks (some e))) G p (ks' / w width0 d) (d + 1)
                  = hitList width0 cells G p (ks' / w width0 d) (d + 1) := by
                apply hitList_congr
                intro q
                exact setCell_other _ _ _ _ (fun e' => ext_ne_self p _ q e'.symm)
              simp [hne, hk, this]
            · simp only [hk, if_false] at h
              have hrec := ih cells p (ks / w width0 d) (ks' / w width0 d) (d + 1) log hdiv ht h G
              have hcp : cells' p = .node k1 (some e1) := by
                rw [putLoop_local width0 f cells p (ks / w width0 d) (d + 1) e log cells' log' h p (fun r => ext_ne_self p _ r)]
                exact hc
              rw [hcp, hrec]
    · -- different slots of the same array: nothing the other key reads is written
      apply hitList_congr
      intro q
      exact hloc _ (fun r => not_ext_of_ne_index path _ _ hi q r)

/-- what `put` does for its own key: the first element found is replaced (and handed to the
destructor), or, if the key is not in the map, the element becomes the only one found -/
theorem putLoop_same (width0 : Nat) (fuel : Nat) (cells : List Nat → Cell) (path : List Nat) (ks d e : Nat)
    (log : List Nat) (cells' : List Nat → Cell) (log' : List Nat) (ht : TreeOk cells)
    (h : putLoop width0 fuel cells path ks d e log = some (cells', log')) :
    hitList width0 cells' fuel path ks d = e :: (hitList width0 cells fuel path ks d).tail ∧
    log' = log ++ (hitList width0 cells fuel path ks d).head?.toList := by
  induction fuel generalizing cells path ks d log with
  | zero => simp [putLoop] at h
  | succ f ih =>
    simp only [putLoop] at h
    simp only [hitList]
    generalize hp : path ++ [ks % w width0 d] = p at *
    cases hc : cells p with
    | empty =>
      simp only [hc, Option.some.injEq, Prod.mk.injEq] at h
      rw [← h.1, ← h.2, setCell_same]; simp
    | leaf k1 e1 =>
      simp only [hc] at h
      by_cases hk : k1 = ks
      · simp only [hk, if_true, Option.some.injEq, Prod.mk.injEq] at h
        rw [← h.1, ← h.2, setCell_same]; simp [hk]
      · simp only [hk, if_false] at h
        have ht1 : TreeOk (setCell cells p (.node k1 (some e1))) := ht.setNode p k1 (some e1) (by rw [hc]; simp)
        obtain ⟨r1, r2⟩ := ih _ p (ks / w width0 d) (d + 1) log ht1 h
        have hcp : cells' p = .node k1 (some e1) := by
          rw [putLoop_local width0 f _ p (ks / w width0 d) (d + 1) e log cells' log' h p (fun r => ext_ne_self p _ r)]
          exact setCell_same _ _ _
        have hbelow : hitList width0 (setCell cells p (.node k1 (some e1))) f p (ks / w width0 d) (d + 1) = [] := by
          apply hitList_below_leaf
          intro q hq
          have : p ++ q ≠ p := by intro e'; have := congrArg List.length e'; simp at this; exact hq this
          rw [setCell_other _ _ _ _ this]
          exact ht p q (by rw [← hp]; simp) hq (Or.inr ⟨k1, e1, hc⟩)
        rw [hbelow] at r1 r2
        rw [hcp, r1, r2]; simp [hk]
    | node k1 eo =>
      cases eo with
      | none =>
        simp only [hc] at h
        obtain ⟨r1, r2⟩ := ih cells p (ks / w width0 d) (d + 1) log ht h
        have hcp : cells' p = .node k1 none := by
          rw [putLoop_local width0 f cells p (ks / w width0 d) (d + 1) e log cells' log' h p (fun r => ext_ne_self p _ r)]
          exact hc
        rw [hcp]; exact ⟨r1, r2⟩
      | some e1 =>
        simp only [hc] at h
        by_cases hk : k1 = ks
        · simp only [hk, if_true, Option.some.injEq, Prod.mk.injEq] at h
          rw [← h.1, ← h.2, setCell_same]
          have : hitList width0 (setCell cells p (.node ks (some e))) f p (ks / w width0 d) (d + 1)
              = hitList width0 cells f p (ks / w width0 d) (d + 1) := by
            apply hitList_congr
            intro q
            exact setCell_other _ _ _ _ (fun e' => ext_ne_self p _ q e'.symm)
          simp [hk, this]
        · simp only [hk, if_false] at h
          obtain ⟨r1, r2⟩ := ih cells p (ks / w width0 d) (d + 1) log ht h
          have hcp : cells' p = .node k1 (some e1) := by
            rw [putLoop_local width0 f cells p (ks / w width0 d) (d + 1) e log cells' log' h p (fun r => ext_ne_self p _ r)]
            exact hc
          rw [hcp]; simp [hk, r1, r2]

theorem split_last (p0 q path : List Nat) (i : Nat) (e : p0 ++ q = path ++ [i]) (hq : q ≠ []) :
    ∃ q', q = q' ++ [i] ∧ p0 ++ q' = path := by
  rcases List.eq_nil_or_concat q with h | ⟨L, b, h⟩
  · exact absurd h hq
  · subst h
    rw [List.concat_eq_append, ← List.append_assoc] at e
    obtain ⟨h1, h2⟩ := List.append_inj' e rfl
    simp at h2
    exact ⟨L, by rw [List.concat_eq_append, h2], h1⟩

theorem PathNodes.step {cells : List Nat → Cell} {path : List Nat} (h : PathNodes cells path) (i : Nat)
    (k : Nat) (eo : Option Nat) (hc : cells (path ++ [i]) = .node k eo) : PathNodes cells (path ++ [i]) := by
  intro p0 q hp0 e
  by_cases hq : q = []
  · subst hq; simp only [List.append_nil] at e; subst e; exact ⟨k, eo, hc⟩
  · -- p0 is a prefix of `path`
    obtain ⟨q', _, hq'⟩ := split_last p0 q path i e hq
    exact h p0 q' hp0 hq'

/-- `put` succeeds with enough fuel and keeps the structural invariants (one more level at most) -/
theorem putLoop_inv (width0 : Nat) (fuel : Nat) (cells : List Nat → Cell) (path : List Nat) (ks d e : Nat)
    (log : List Nat) (D : Nat) (ht : TreeOk cells) (hD : DepthOk cells D) (hn : PathNodes cells path)
    (hp : path.length = d) (hd : d ≤ D) (hf : D + 2 ≤ fuel + d) :
    ∃ cells' log', putLoop width0 fuel cells path ks d e log = some (cells', log') ∧
      TreeOk cells' ∧ DepthOk cells' (D + 1) := by
  induction fuel generalizing cells path ks d log with
  | zero => omega
  | succ f ih =>
    simp only [putLoop]
    generalize hpp : path ++ [ks % w width0 d] = p at *
    have hpne : p ≠ [] := by rw [← hpp]; simp
    have hplen : p.length = d + 1 := by rw [← hpp]; simp [hp]
    cases hc : cells p with
    | empty =>
      refine ⟨_, _, rfl, ?_, ?_⟩
      · apply ht.setLeaf
        · intro q hq; exact ht p q hpne hq (Or.inl hc)
        · intro p0 q hp0 hq e0 hcc
          -- p0 is a proper non-empty prefix of p, hence a prefix of `path`: a node
          obtain ⟨q', _, this⟩ := split_last p0 q path (ks % w width0 d) (by rw [hpp]; exact e0) hq
          obtain ⟨k, eo, hnode⟩ := hn p0 q' hp0 this
          rcases hcc with h1 | ⟨k', e', h1⟩ <;> rw [hnode] at h1 <;> cases h1
      · intro q hq
        by_cases e0 : q = p
        · rw [e0, hplen]; omega
        · rw [setCell_other _ _ _ _ e0] at hq; have := hD q hq; omega
    | leaf k1 e1 =>
      have hlen : d + 1 ≤ D := by have := hD p (by rw [hc]; simp); omega
      by_cases hk : k1 = ks
      · simp only [hk, if_true]
        refine ⟨_, _, rfl, ?_, ?_⟩
        · apply ht.setLeaf
          · intro q hq; exact ht p q hpne hq (Or.inr ⟨k1, e1, hc⟩)
          · intro p0 q hp0 hq e0 hcc
            have := ht p0 q hp0 hq hcc
            rw [e0, hc] at this; cases this
        · intro q hq
          by_cases e0 : q = p
          · rw [e0, hplen]; omega
          · rw [setCell_other _ _ _ _ e0] at hq; have := hD q hq; omega
      · simp only [hk, if_false]
        have ht1 : TreeOk (setCell cells p (.node k1 (some e1))) := ht.setNode p k1 (some e1) (by rw [hc]; simp)
        have hD1 : DepthOk (setCell cells p (.node k1 (some e1))) D := by
          intro q hq
          by_cases e0 : q = p
          · rw [e0, hplen]; omega
          · rw [setCell_other _ _ _ _ e0] at hq; exact hD q hq
        have hn1 : PathNodes (setCell cells p (.node k1 (some e1))) p := by
          intro p0 q hp0 e0
          by_cases e1' : p0 = p
          · rw [e1']; exact ⟨k1, some e1, setCell_same _ _ _⟩
          · rw [setCell_other _ _ _ _ e1']
            have hq : q ≠ [] := by intro hq; subst hq; simp at e0; exact e1' e0
            obtain ⟨q', _, this⟩ := split_last p0 q path (ks % w width0 d) (by rw [hpp]; exact e0) hq
            exact hn p0 q' hp0 this
        exact ih _ p (ks / w width0 d) (d + 1) log ht1 hD1 hn1 hplen hlen (by omega)
    | node k1 eo =>
      have hlen : d + 1 ≤ D := by have := hD p (by rw [hc]; simp); omega
      have hn1 : PathNodes cells p := by rw [← hpp]; exact hn.step _ k1 eo (by rw [hpp]; exact hc)
      cases eo with
      | none => exact ih cells p (ks / w width0 d) (d + 1) log ht hD hn1 hplen hlen (by omega)
      | some e1 =>
        by_cases hk : k1 = ks
        · simp only [hk, if_true]
          refine ⟨_, _, rfl, ht.setNode p ks (some e) (by rw [hc]; simp), ?_⟩
          intro q hq
          by_cases e0 : q = p
          · rw [e0, hplen]; omega
          · rw [setCell_other _ _ _ _ e0] at hq; have := hD q hq; omega
        · simp only [hk, if_false]
          exact ih cells p (ks / w width0 d) (d + 1) log ht hD hn1 hplen hlen (by omega)

/-! ### remove -/

theorem removeLoop_local (width0 : Nat) (fuel : Nat) (cells : List Nat → Cell) (path : List Nat) (ks d : Nat)
    (log : List Nat) (b : Bool) (cells' : List Nat → Cell) (log' : List Nat)
    (h : removeLoop width0 fuel cells path ks d log = some (b, cells', log')) :
    ∀ q, (∀ r, q ≠ path ++ [ks % w width0 d] ++ r) → cells' q = cells q := by
  induction fuel generalizing cells path ks d log with
  | zero => simp [removeLoop] at h
  | succ f ih =>
    intro q hq
    have hqp : q ≠ path ++ [ks % w width0 d] := by have := hq []; simpa using this
    simp only [removeLoop] at h
    split at h
    · simp only [Option.some.injEq, Prod.mk.injEq] at h; rw [← h.2.1]
    · split at h
      · simp only [Option.some.injEq, Prod.mk.injEq] at h; rw [← h.2.1, setCell_other _ _ _ _ hqp]
      · simp only [Option.some.injEq, Prod.mk.injEq] at h; rw [← h.2.1]
    · split at h
      · simp only [Option.some.injEq, Prod.mk.injEq] at h; rw [← h.2.1, setCell_other _ _ _ _ hqp]
      · exact ih _ _ _ _ _ h q (fun r e => hq ([ks / w width0 d % w width0 (d + 1)] ++ r) (by simpa [List.append_assoc] using e))
    · exact ih _ _ _ _ _ h q (fun r e => hq ([ks / w width0 d % w width0 (d + 1)] ++ r) (by simpa [List.append_assoc] using e))

/-- frame: removing one key does not change what any other key finds -/
theorem removeLoop_other (width0 : Nat) (fuel : Nat) (cells : List Nat → Cell) (path : List Nat) (ks ks' d : Nat)
    (log : List Nat) (b : Bool) (cells' : List Nat → Cell) (log' : List Nat) (hne : ks ≠ ks')
    (h : removeLoop width0 fuel cells path ks d log = some (b, cells', log')) :
    ∀ F, hitList width0 cells' F path ks' d = hitList width0 cells F path ks' d := by
  induction fuel generalizing cells path ks ks' d log with
  | zero => simp [removeLoop] at h
  | succ f ih =>
    intro F
    have hloc := removeLoop_local width0 (f + 1) cells path ks d log b cells' log' h
    by_cases hi : ks % w width0 d = ks' % w width0 d
    · have hdiv := div_ne_of_mod_eq ks ks' (w width0 d) hne hi
      cases F with
      | zero => rfl
      | succ G =>
        simp only [hitList, ← hi]
        simp only [removeLoop] at h
        generalize hp : path ++ [ks % w width0 d] = p at *
        cases hc : cells p with
        | empty =>
          simp only [hc, Option.some.injEq, Prod.mk.injEq] at h
          rw [← h.2.1, hc]
        | leaf k1 e1 =>
          simp only [hc] at h
          by_cases hk : k1 = ks
          · simp only [hk, if_true, Option.some.injEq, Prod.mk.injEq] at h
            rw [← h.2.1, setCell_same]
            simp [hne, hk]
          · simp only [hk, if_false, Option.some.injEq, Prod.mk.injEq] at h
            rw [← h.2.1, hc]
        | node k1 eo =>
          cases eo with
          | none =>
            simp only [hc] at h
            have hrec := ih cells p (ks / w width0 d) (ks' / w width0 d) (d + 1) log hdiv h G
            have hcp : cells' p = .node k1 none := by
              rw [removeLoop_local width0 f cells p (ks / w width0 d) (d + 1) log b cells' log' h p (fun r => ext_ne_self p _ r)]
              exact hc
            rw [hcp, hrec]
          | some e1 =>
            simp only [hc] at h
            by_cases hk : k1 = ks
            · simp only [hk, if_true, Option.some.injEq, Prod.mk.injEq] at h
              rw [← h.2.1, setCell_same]
              have : hitList width0 (setCell cells p (.node ks none)) G p (ks' / w width0 d) (d + 1)
                  = hitList width0 cells G p (ks' / w width0 d) (d + 1) := by
                apply hitList_congr
                intro q
                exact setCell_other _ _ _ _ (fun e' => ext_ne_self p _ q e'.symm)
              simp [hne, hk, this]
            · simp only [hk, if_false] at h
              have hrec := ih cells p (ks / w width0 d) (ks' / w width0 d) (d + 1) log hdiv h G
              have hcp : cells' p = .node k1 (some e1) := by
                rw [removeLoop_local width0 f cells p (ks / w width0 d) (d + 1) log b cells' log' h p (fun r => ext_ne_self p _ r)]
                exact hc
              rw [hcp, hrec]
    · apply hitList_congr
      intro q
      exact hloc _ (fun r => not_ext_of_ne_index path _ _ hi q r)

/-- what `remove` does for its own key: the first element found is dropped and destroyed -/
theorem removeLoop_same (width0 : Nat) (fuel : Nat) (cells : List Nat → Cell) (path : List Nat) (ks d : Nat)
    (log : List Nat) (b : Bool) (cells' : List Nat → Cell) (log' : List Nat)
    (h : removeLoop width0 fuel cells path ks d log = some (b, cells', log')) :
    hitList width0 cells' fuel path ks d = (hitList width0 cells fuel path ks d).tail ∧
    log' = log ++ (hitList width0 cells fuel path ks d).head?.toList ∧
    b = !(hitList width0 cells fuel path ks d).isEmpty := by
  induction fuel generalizing cells path ks d log with
  | zero => simp [removeLoop] at h
  | succ f ih =>
    simp only [removeLoop] at h
    simp only [hitList]
    generalize hp : path ++ [ks % w width0 d] = p at *
    cases hc : cells p with
    | empty =>
      simp only [hc, Option.some.injEq, Prod.mk.injEq] at h
      rw [← h.1, ← h.2.1, ← h.2.2, hc]; simp
    | leaf k1 e1 =>
      simp only [hc] at h
      by_cases hk : k1 = ks
      · simp only [hk, if_true, Option.some.injEq, Prod.mk.injEq] at h
        rw [← h.1, ← h.2.1, ← h.2.2, setCell_same]; simp [hk]
      · simp only [hk, if_false, Option.some.injEq, Prod.mk.injEq] at h
        rw [← h.1, ← h.2.1, ← h.2.2, hc]; simp [hk]
    | node k1 eo =>
      cases eo with
      | none =>
        simp only [hc] at h
        obtain ⟨r1, r2, r3⟩ := ih cells p (ks / w width0 d) (d + 1) log h
        have hcp : cells' p = .node k1 none := by
          rw [removeLoop_local width0 f cells p (ks / w width0 d) (d + 1) log b cells' log' h p (fun r => ext_ne_self p _ r)]
          exact hc
        rw [hcp]; exact ⟨r1, r2, r3⟩
      | some e1 =>
        simp only [hc] at h
        by_cases hk : k1 = ks
        · simp only [hk, if_true, Option.some.injEq, Prod.mk.injEq] at h
          rw [← h.1, ← h.2.1, ← h.2.2, setCell_same]
          have : hitList width0 (setCell cells p (.node ks none)) f p (ks / w width0 d) (d + 1)
              = hitList width0 cells f p (ks / w width0 d) (d + 1) := by
            apply hitList_congr
            intro q
            exact setCell_other _ _ _ _ (fun e' => ext_ne_self p _ q e'.symm)
          simp [hk, this]
        · simp only [hk, if_false] at h
          obtain ⟨r1, r2, r3⟩ := ih cells p (ks / w width0 d) (d + 1) log h
          have hcp : cells' p = .node k1 (some e1) := by
            rw [removeLoop_local width0 f cells p (ks / w width0 d) (d + 1) log b cells' log' h p (fun r => ext_ne_self p _ r)]
            exact hc
          rw [hcp]; simp [hk, r1, r2, r3]

/-- `remove` succeeds with enough fuel and keeps the structural invariants -/
theorem removeLoop_inv (width0 : Nat) (fuel : Nat) (cells : List Nat → Cell) (path : List Nat) (ks d : Nat)
    (log : List Nat) (D : Nat) (ht : TreeOk cells) (hD : DepthOk cells D)
    (hp : path.length = d) (hf : D + 1 ≤ fuel + d) (hpos : 0 < fuel) :
    ∃ b cells' log', removeLoop width0 fuel cells path ks d log = some (b, cells', log') ∧
      TreeOk cells' ∧ DepthOk cells' D := by
  induction fuel generalizing cells path ks d log with
  | zero => omega
  | succ f ih =>
    simp only [removeLoop]
    generalize hpp : path ++ [ks % w width0 d] = p at *
    have hpne : p ≠ [] := by rw [← hpp]; simp
    have hplen : p.length = d + 1 := by rw [← hpp]; simp [hp]
    cases hc : cells p with
    | empty => exact ⟨_, _, _, rfl, ht, hD⟩
    | leaf k1 e1 =>
      by_cases hk : k1 = ks
      · simp only [hk, if_true]
        refine ⟨_, _, _, rfl, ?_, ?_⟩
        · intro p0 q hp0 hq hcc
          by_cases e0 : p0 = p
          · have : p0 ++ q ≠ p := by rw [e0]; intro e'; have := congrArg List.length e'; simp at this; exact hq this
            rw [setCell_other _ _ _ _ this, e0]
            exact ht p q hpne hq (Or.inr ⟨k1, e1, hc⟩)
          · rw [setCell_other _ _ _ _ e0] at hcc
            have := ht p0 q hp0 hq hcc
            by_cases e1' : p0 ++ q = p
            · rw [e1', setCell_same]
            · rw [setCell_other _ _ _ _ e1']; exact this
        · intro q hq
          by_cases e0 : q = p
          · rw [e0, setCell_same] at hq; exact absurd rfl hq
          · rw [setCell_other _ _ _ _ e0] at hq; exact hD q hq
      · simp only [hk, if_false]; exact ⟨_, _, _, rfl, ht, hD⟩
    | node k1 eo =>
      have hlen : d + 1 ≤ D := by have := hD p (by rw [hc]; simp); omega
      cases eo with
      | none => exact ih cells p (ks / w width0 d) (d + 1) log ht hD hplen (by omega) (by omega)
      | some e1 =>
        by_cases hk : k1 = ks
        · simp only [hk, if_true]
          refine ⟨_, _, _, rfl, ht.setNode p ks none (by rw [hc]; simp), ?_⟩
          intro q hq
          by_cases e0 : q = p
          · rw [e0, hplen]; omega
          · rw [setCell_other _ _ _ _ e0] at hq; exact hD q hq
        · simp only [hk, if_false]
          exact ih cells p (ks / w width0 d) (d + 1) log ht hD hplen (by omega) (by omega)

end Gpc.Map
