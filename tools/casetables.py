"""canonical range tables (maximal runs of equal delta) <-> Lean source"""


def runs(mapping):
    """mapping: dict cp -> image (non-identity only). returns [(lo, hi, delta)] sorted"""
    out = []
    for c in sorted(mapping):
        d = mapping[c] - c
        if out and out[-1][1] == c - 1 and out[-1][2] == d:
            out[-1][1] = c
        else:
            out.append([c, c, d])
    return [tuple(x) for x in out]


def lean_table(name, rs, chunk=64):
    """Lean definitions: name_0 .. name_k chunks and `name` = their concatenation"""
    lines = []
    parts = []
    for i in range(0, max(len(rs), 1), chunk):
        part = rs[i:i + chunk]
        pn = "%s_%d" % (name, i // chunk)
        parts.append(pn)
        body = ",\n  ".join("E.mk %d %d (%d)" % (lo, hi, d) for lo, hi, d in part)
        lines.append("def %s : List E := [\n  %s]" % (pn, body))
    lines.append("def %s : List E := %s" % (name, " ++ ".join(parts) if parts else "[]"))
    return "\n".join(lines)


def lean_classes(name, classes, chunk=64):
    lines, parts = [], []
    for i in range(0, max(len(classes), 1), chunk):
        part = classes[i:i + chunk]
        pn = "%s_%d" % (name, i // chunk)
        parts.append(pn)
        body = ",\n  ".join("[" + ", ".join(str(x) for x in cl) + "]" for cl in part)
        lines.append("def %s : List (List Nat) := [\n  %s]" % (pn, body))
    lines.append("def %s : List (List Nat) := %s" % (name, " ++ ".join(parts) if parts else "[]"))
    return "\n".join(lines)


def lean_tree(name, rs, leaf=8):
    """balanced T from sorted range entries; emitted as nested definitions to keep terms small"""
    defs = []
    counter = [0]

    def build(lo, hi):
        if lo >= hi:
            return "T.nil"
        mid = (lo + hi) // 2
        l = build(lo, mid)
        r = build(mid + 1, hi)
        e = rs[mid]
        term = "T.node (%s) (E.mk %d %d (%d)) (%s)" % (l, e[0], e[1], e[2], r)
        if hi - lo > leaf:
            nm = "%s_n%d" % (name, counter[0]); counter[0] += 1
            defs.append("def %s : T := %s" % (nm, term))
            return nm
        return term
    root = build(0, len(rs))
    defs.append("def %s : T := %s" % (name, root))
    return "\n".join(defs)


def lean_ctree(name, items, leaf=8):
    """balanced CT from sorted (codepoint, class) items"""
    defs = []
    counter = [0]

    def build(lo, hi):
        if lo >= hi:
            return "CT.nil"
        mid = (lo + hi) // 2
        l = build(lo, mid)
        r = build(mid + 1, hi)
        c, cl = items[mid]
        term = "CT.node (%s) %d [%s] (%s)" % (l, c, ", ".join(map(str, cl)), r)
        if hi - lo > leaf:
            nm = "%s_n%d" % (name, counter[0]); counter[0] += 1
            defs.append("def %s : CT := %s" % (nm, term))
            return nm
        return term
    root = build(0, len(items))
    defs.append("def %s : CT := %s" % (name, root))
    return "\n".join(defs)
