import Gpc.Model.Proto
import Gpc.Model.Num
/-! line protocol for the C20 model -/
namespace Gpc.Driver
open Gpc.Proto Gpc.Num

def optNat (s : String) : Option (Option Nat) :=
  if s == "-" then some none else s.toNat?.map some
def showOpt : Option Nat → String
  | none => "-" | some n => toString n

def rangeSeq (fuel : Nat) : Nat → Pcg → Int → Int → List String
  | 0, _, _, _ => []
  | k + 1, r, lo, hi =>
    match randomRange fuel r lo hi with
    | none => ["fuel"]
    | some (r', v) => toString v :: rangeSeq fuel k r' lo hi

def num (toks : List String) : String :=
  match toks with
  | ["fnv32", h] => match parseHex h with
      | some bs => toString (fnv32 bs).toNat | none => "bad-op"
  | ["fnv64", h] => match parseHex h with
      | some bs => toString (fnv64 bs).toNat | none => "bad-op"
  | ["fnv128", h] => match parseHex h with
      | some bs => toString (fnv128 bs).toNat | none => "bad-op"
  | ["np2_32", x] => match x.toNat? with
      | some x => if x < 2^32 then toString (np2_32 x) else "bad-op" | none => "bad-op"
  | ["np2_64", x] => match x.toNat? with
      | some x => if x < 2^64 then toString (np2_64 x) else "bad-op" | none => "bad-op"
  | ["round", x, b] => match x.toNat?, b.toNat? with
      | some x, some b => if x < 2^64 ∧ b < 2^64 then toString (roundToAligned x b) else "bad-op"
      | _, _ => "bad-op"
  | ["cb", s, e, l] => match optNat s, optNat e, l.toNat? with
      | some s, some e, some l =>
        let r := checkBounds s e l
        s!"{if r.ok then 1 else 0} {showOpt r.start} {showOpt r.stop}"
      | _, _, _ => "bad-op"
  | ["rand", seed, k] => match seed.toNat?, k.toNat? with
      | some seed, some k => " ".intercalate ((stream k (newRandomState seed)).map toString)
      | _, _ => "bad-op"
  | ["frand", seed, k] => match seed.toNat?, k.toNat? with
      | some seed, some k => " ".intercalate ((stream k (newRandomState seed)).map toString)
      | _, _ => "bad-op"
  | ["rr", seed, lo, hi, k] => match seed.toNat?, lo.toInt?, hi.toInt?, k.toNat? with
      | some seed, some lo, some hi, some k =>
        if lo ≤ hi ∧ -(2^31 : Int) ≤ lo ∧ hi < (2^31 : Int) then
          " ".intercalate (rangeSeq 100000 k (newRandomState seed) lo hi)
        else "bad-op"
      | _, _, _, _ => "bad-op"
  | _ => "bad-op"

end Gpc.Driver
