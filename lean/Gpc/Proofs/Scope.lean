import Gpc.Model.Scope
import Gpc.Proofs.Arena
/-! Geometry of the scope factory: which addresses hold records, and how alloc / rewind move them -/
namespace Gpc.Scope
open Gpc.Arena

/-- addresses of the records of one node with ordinal `t` holding `m` records, newest first -/
def seg (t m : Nat) : List Addr := (List.range m).reverse.map fun k => ⟨t, k * 64⟩

/-- all record addresses of the factory arena, newest first (the last one is the factory itself) -/
def recAddrs : List Node → List Addr
  | [] => []
  | n :: tail => seg tail.length (n.pos / 64) ++ recAddrs tail

structure NodesOk (a : Arena) : Prop where
  align : a.align = 16
  maxSize : a.maxSize = 2 ^ 15
  nonempty : a.nodes ≠ []
  nodes : ∀ n ∈ a.nodes, n.pos % 64 = 0 ∧ n.pos ≤ n.cap ∧ 64 ≤ n.pos

theorem seg_succ (t m : Nat) : seg t (m + 1) = ⟨t, m * 64⟩ :: seg t m := by
  simp [seg, List.range_succ]

theorem seg_length (t m : Nat) : (seg t m).length = m := by simp [seg]

theorem seg_getElem (t m i : Nat) (h : i < (seg t m).length) :
    (seg t m)[i] = ⟨t, (m - 1 - i) * 64⟩ := by
  simp only [seg_length] at h
  simp [seg, List.getElem_reverse]

theorem seg_drop (t m j : Nat) : (seg t m).drop j = seg t (m - j) := by
  simp only [seg, ← List.map_drop, List.drop_reverse, List.length_range, List.take_range]
  congr 3
  omega

theorem seg_node (t m : Nat) : ∀ a ∈ seg t m, a.node = t ∧ a.off < m * 64 ∧ a.off % 64 = 0 := by
  intro a ha
  simp only [seg, List.mem_map, List.mem_reverse, List.mem_range] at ha
  obtain ⟨k, hk, e⟩ := ha
  subst e
  exact ⟨rfl, by simp only []; omega, by simp⟩

theorem recAddrs_node_lt (ns : List Node) : ∀ a ∈ recAddrs ns, a.node < ns.length := by
  induction ns with
  | nil => intro a ha; simp [recAddrs] at ha
  | cons n tail ih =>
    intro a ha
    simp only [recAddrs, List.mem_append] at ha
    rcases ha with h | h
    · have := (seg_node _ _ a h).1; simp only [List.length_cons]; omega
    · have := ih a h; simp only [List.length_cons]; omega

theorem roundUp_64_16 : roundUp 64 16 = 64 := by decide

/-- `gp_last_scope_of` reads the newest record address -/
theorem lastScopeOf_eq (f : Factory) (h : NodesOk f.arena) :
    ∃ rest, recAddrs f.arena.nodes = (match lastScopeOf f with | some a => a | none => selfAddr) :: rest
      ∧ (lastScopeOf f).isSome := by
  unfold lastScopeOf
  cases hn : f.arena.nodes with
  | nil => exact absurd hn h.nonempty
  | cons head tail =>
    have hok := h.nodes head (by rw [hn]; exact List.mem_cons_self)
    have hpos : recSize ≤ head.pos := hok.2.2
    simp only [hpos, if_true, recAddrs]
    have hm : head.pos / 64 = (head.pos / 64 - 1) + 1 := by omega
    rw [hm, seg_succ]
    refine ⟨seg tail.length (head.pos / 64 - 1) ++ recAddrs tail, ?_, rfl⟩
    simp only [List.cons_append, recSize]
    have : (head.pos / 64 - 1) * 64 = head.pos - 64 := by have := hok.1; omega
    rw [this]

/-- allocating one record puts its address in front of the record list and keeps the node facts -/
theorem alloc_geometry (a : Arena) (h : NodesOk a) :
    recAddrs (alloc g a recSize).1.nodes = (alloc g a recSize).2 :: recAddrs a.nodes ∧
    NodesOk (alloc g a recSize).1 := by
  obtain ⟨hal, hmx, hne, hn⟩ := h
  unfold alloc allocRaw
  cases hnodes : a.nodes with
  | nil => exact absurd hnodes hne
  | cons head tail =>
    have hok := hn head (by rw [hnodes]; exact List.mem_cons_self)
    have hr : roundUp recSize a.align = 64 := by rw [hal]; exact roundUp_64_16
    simp only [hr]
    split
    · -- new node
      refine ⟨?_, ⟨hal, hmx, by simp, ?_⟩⟩
      · simp only [recAddrs, List.length_cons]
        have : (64 : Nat) / 64 = 0 + 1 := by decide
        rw [this, seg_succ]
        simp [seg]
      · intro x hx
        simp only [List.mem_cons] at hx
        rcases hx with e | e | e
        · subst e; exact ⟨by simp, Nat.le_max_left _ _, Nat.le_refl _⟩
        · subst e; exact hok
        · exact hn x (by rw [hnodes]; exact List.mem_cons_of_mem _ e)
    · rename_i hfit
      refine ⟨?_, ⟨hal, hmx, by simp, ?_⟩⟩
      · simp only [recAddrs]
        have : (head.pos + 64) / 64 = head.pos / 64 + 1 := by omega
        rw [this, seg_succ]
        simp only [List.cons_append]
        congr 2
        have := hok.1; omega
      · intro x hx
        simp only [List.mem_cons] at hx
        rcases hx with e | e
        · subst e
          have := hok.1
          exact ⟨by simp only []; omega, by simp only []; omega, by simp only []; omega⟩
        · exact hn x (by rw [hnodes]; exact List.mem_cons_of_mem _ e)

theorem rewind_cons_skip (a : Arena) (n : Node) (tail : List Node) (p : Addr) (h : p.node < tail.length) :
    rewind { a with nodes := n :: tail } p = rewind { a with nodes := tail } p := by
  unfold rewind
  simp only [List.length_cons]
  have e : tail.length + 1 - 1 - p.node = (tail.length - 1 - p.node) + 1 := by omega
  rw [e, List.drop_succ_cons]
  cases hd : tail.drop (tail.length - 1 - p.node) with
  | nil => rfl
  | cons x xs =>
    simp only []
    have c1 : p.node + 1 ≤ tail.length + 1 := by omega
    have c2 : p.node + 1 ≤ tail.length := by omega
    simp only [c1, c2, true_and]

theorem rewind_head (a : Arena) (n : Node) (tail : List Node) (p : Addr) (h : p.node = tail.length)
    (hc : p.off ≤ n.cap) :
    rewind { a with nodes := n :: tail } p =
      some { a with nodes := { n with pos := p.off, blocks := n.blocks.filter (fun b => decide (b.off < p.off)) } :: tail } := by
  unfold rewind
  simp only [List.length_cons]
  have e : tail.length + 1 - 1 - p.node = 0 := by omega
  rw [e, List.drop_zero]
  have c1 : p.node + 1 ≤ tail.length + 1 := by omega
  simp only [c1, hc, and_self, if_true]

theorem popEmpty_nonzero (a : Arena) (head : Node) (tail : List Node) (h : head.pos ≠ 0) :
    popEmpty { a with nodes := head :: tail } = { a with nodes := head :: tail } := by
  unfold popEmpty
  cases tail with
  | nil => rfl
  | cons t ts => simp only [h, if_false]

theorem popEmpty_zero (a : Arena) (head t : Node) (ts : List Node) (h : head.pos = 0) :
    popEmpty { a with nodes := head :: t :: ts } = { a with nodes := t :: ts } := by
  unfold popEmpty
  simp only [h, if_true]

/-- rewinding the factory to the record at index `i` (not the factory record itself) and popping
an emptied newest node leaves exactly the older records, and the node facts hold again -/
theorem rewind_geometry (a : Arena) (ns : List Node)
    (hn : ∀ n ∈ ns, n.pos % 64 = 0 ∧ n.pos ≤ n.cap ∧ 64 ≤ n.pos) (i : Nat)
    (hi : i + 1 < (recAddrs ns).length) :
    ∃ a', rewind { a with nodes := ns } ((recAddrs ns)[i]'(by omega)) = some a' ∧
      (popEmpty a').align = a.align ∧ (popEmpty a').maxSize = a.maxSize ∧
      recAddrs (popEmpty a').nodes = (recAddrs ns).drop (i + 1) ∧
      (popEmpty a').nodes ≠ [] ∧
      (∀ n ∈ (popEmpty a').nodes, n.pos % 64 = 0 ∧ n.pos ≤ n.cap ∧ 64 ≤ n.pos) := by
  induction ns generalizing i with
  | nil => simp [recAddrs] at hi
  | cons n tail ih =>
    have hok := hn n List.mem_cons_self
    have hlen : (seg tail.length (n.pos / 64)).length = n.pos / 64 := seg_length _ _
    by_cases hseg : i < n.pos / 64
    · -- the record lives in the newest node
      have hget : (recAddrs (n :: tail))[i]'(by omega) = ⟨tail.length, (n.pos / 64 - 1 - i) * 64⟩ := by
        simp only [recAddrs]
        rw [List.getElem_append_left (by rw [hlen]; exact hseg), seg_getElem]
      rw [hget]
      generalize hk : n.pos / 64 - 1 - i = k
      have hoff : k * 64 ≤ n.cap := by have := hok.1; have := hok.2.1; omega
      rw [rewind_head a n tail ⟨tail.length, k * 64⟩ rfl hoff]
      refine ⟨_, rfl, ?_⟩
      have hdrop : (recAddrs (n :: tail)).drop (i + 1) = seg tail.length k ++ recAddrs tail := by
        simp only [recAddrs]
        rw [List.drop_append_of_le_length (by rw [hlen]; omega), seg_drop]
        congr 2; omega
      rw [hdrop]
      by_cases hk0 : k = 0
      · -- the node became empty
        subst hk0
        cases tail with
        | nil =>
          -- then the record would be the factory itself: excluded
          simp only [recAddrs, List.length_append, seg_length, List.length_nil] at hi
          omega
        | cons t ts =>
          rw [popEmpty_zero a _ t ts (by simp)]
          refine ⟨rfl, rfl, by simp [seg], by simp, ?_⟩
          intro x hx; exact hn x (List.mem_cons_of_mem _ hx)
      · rw [popEmpty_nonzero a _ tail (by simp only []; omega)]
        refine ⟨rfl, rfl, ?_, by simp, ?_⟩
        · simp only [recAddrs]
          congr 2
          omega
        · intro x hx
          simp only [List.mem_cons] at hx
          rcases hx with e | e
          · subst e
            exact ⟨by simp only []; omega, hoff, by simp only []; omega⟩
          · exact hn x (List.mem_cons_of_mem _ e)
    · -- the record lives in an older node
      have hi' : i - n.pos / 64 + 1 < (recAddrs tail).length := by
        simp only [recAddrs, List.length_append, hlen] at hi; omega
      have hget : (recAddrs (n :: tail))[i]'(by omega) = (recAddrs tail)[i - n.pos / 64]'(by omega) := by
        simp only [recAddrs]
        rw [List.getElem_append_right (by rw [hlen]; omega)]
        simp only [hlen]
      rw [hget]
      have hnode := recAddrs_node_lt tail _ (List.getElem_mem (by omega : i - n.pos / 64 < (recAddrs tail).length))
      rw [rewind_cons_skip a n tail _ hnode]
      obtain ⟨a', h1, h2, h3, h4, h5, h6⟩ := ih (fun x hx => hn x (List.mem_cons_of_mem _ hx)) (i - n.pos / 64) hi'
      refine ⟨a', h1, h2, h3, ?_, h5, h6⟩
      rw [h4]
      simp only [recAddrs]
      have e : i + 1 = (seg tail.length (n.pos / 64)).length + (i - n.pos / 64 + 1) := by rw [hlen]; omega
      have d1 : List.drop ((seg tail.length (n.pos / 64)).length + (i - n.pos / 64 + 1)) (seg tail.length (n.pos / 64)) = [] :=
        List.drop_of_length_le (by omega)
      have d2 : (seg tail.length (n.pos / 64)).length + (i - n.pos / 64 + 1) - (seg tail.length (n.pos / 64)).length
          = i - n.pos / 64 + 1 := by omega
      rw [e, List.drop_append, d1, d2, List.nil_append]

/-- strict order on addresses: older node, or same node and lower offset -/
def addrLt (a b : Addr) : Prop := a.node < b.node ∨ (a.node = b.node ∧ a.off < b.off)

theorem addrLt_irrefl (a : Addr) : ¬ addrLt a a := by
  unfold addrLt; omega

/-- record addresses are strictly decreasing from newest to oldest (hence pairwise distinct) -/
theorem recAddrs_pairwise (ns : List Node) : List.Pairwise (fun a b => addrLt b a) (recAddrs ns) := by
  induction ns with
  | nil => simp [recAddrs]
  | cons n tail ih =>
    simp only [recAddrs]
    rw [List.pairwise_append]
    refine ⟨?_, ih, ?_⟩
    · unfold seg
      rw [List.pairwise_map, List.pairwise_reverse]
      refine List.Pairwise.imp ?_ List.pairwise_lt_range
      intro a b hab
      right; exact ⟨rfl, by simp only []; omega⟩
    · intro a ha b hb
      left
      have h1 := (seg_node _ _ a ha).1
      have h2 := recAddrs_node_lt tail b hb
      omega

theorem recAddrs_distinct (ns : List Node) (i j : Nat) (hi : i < (recAddrs ns).length)
    (hj : j < (recAddrs ns).length) (hij : i < j) : (recAddrs ns)[i] ≠ (recAddrs ns)[j] := by
  intro e
  have := (List.pairwise_iff_getElem.1 (recAddrs_pairwise ns)) i j hi hj hij
  rw [e] at this
  exact addrLt_irrefl _ this

end Gpc.Scope
