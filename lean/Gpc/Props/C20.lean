import Gpc.Model.Num
import Gpc.Proofs.Num
/-!
# C20 — numeric helpers meet their definitions  (property theorems only)
-/
namespace Gpc.Num

/-! ## FNV-1a: the machine-arithmetic loops equal the mathematical definition -/

/-- FNV-1a over `Nat` with an explicit modulus: the published definition. -/
def fnvSpec (basis prime bits : Nat) (bs : List UInt8) : Nat :=
  bs.foldl (fun h b => ((h ^^^ b.toNat) * prime) % 2^bits) basis

theorem fnv32_eq_spec (bs : List UInt8) :
    (fnv32 bs).toNat = fnvSpec 0x811c9dc5 0x01000193 32 bs := by
  unfold fnv32 fnvSpec
  rw [← List.foldl_hom (f := UInt32.toNat)
        (g₂ := fun h b => ((h ^^^ b.toNat) * 0x01000193) % 2^32)]
  · rfl
  · intro x y; simp [UInt32.toNat_mul, UInt32.toNat_xor]

theorem fnv64_eq_spec (bs : List UInt8) :
    (fnv64 bs).toNat = fnvSpec 0xcbf29ce484222325 0x00000100000001B3 64 bs := by
  unfold fnv64 fnvSpec
  rw [← List.foldl_hom (f := UInt64.toNat)
        (g₂ := fun h b => ((h ^^^ b.toNat) * 0x00000100000001B3) % 2^64)]
  · rfl
  · intro x y; simp [UInt64.toNat_mul, UInt64.toNat_xor]

theorem U128.toNat_lt (u : U128) : u.toNat < 2^128 := by
  unfold U128.toNat
  have h1 := u.hi.toNat_lt
  have h2 := u.lo.toNat_lt
  omega

theorem U128.toNat_ofNat (n : Nat) (h : n < 2^128) : (U128.ofNat n).toNat = n := by
  unfold U128.toNat U128.ofNat
  simp only [UInt64.toNat_ofNat']
  have : n / 2^64 < 2^64 := by omega
  omega

/-- xor of a byte into the low word is xor on the whole 128-bit number -/
theorem U128.xor_lo (h : U128) (b : UInt8) :
    (U128.mk h.hi (h.lo ^^^ b.toUInt64)).toNat = h.toNat ^^^ b.toNat := by
  unfold U128.toNat
  simp only [UInt64.toNat_xor, UInt8.toNat_toUInt64]
  have hb : b.toNat < 2^64 := by have := b.toNat_lt; omega
  have hl := h.lo.toNat_lt
  have hx : h.lo.toNat ^^^ b.toNat < 2^64 := Nat.xor_lt_two_pow hl hb
  have hd : (h.hi.toNat * 2^64 + h.lo.toNat ^^^ b.toNat) / 2^64 = h.hi.toNat := by
    rw [Nat.xor_div_two_pow]
    have : b.toNat / 2^64 = 0 := by omega
    have h2 : (h.hi.toNat * 2^64 + h.lo.toNat) / 2^64 = h.hi.toNat := by omega
    rw [this, h2, Nat.xor_zero]
  have hm : (h.hi.toNat * 2^64 + h.lo.toNat ^^^ b.toNat) % 2^64 = h.lo.toNat ^^^ b.toNat := by
    rw [Nat.xor_mod_two_pow]
    have : b.toNat % 2^64 = b.toNat := by omega
    have h2 : (h.hi.toNat * 2^64 + h.lo.toNat) % 2^64 = h.lo.toNat := by omega
    rw [this, h2]
  omega

theorem fnv128_eq_spec (bs : List UInt8) :
    (fnv128 bs).toNat = fnvSpec fnv128Basis fnv128Prime 128 bs := by
  unfold fnv128 fnvSpec
  rw [← List.foldl_hom (f := U128.toNat)
        (g₂ := fun h b => ((h ^^^ b.toNat) * fnv128Prime) % 2^128)]
  · rw [U128.toNat_ofNat _ (by decide)]
  · intro x y
    simp only [mult128]
    rw [U128.toNat_ofNat _ (Nat.mod_lt _ (by decide)), U128.xor_lo,
        U128.toNat_ofNat _ (by decide)]

/-- published FNV-1a test vectors (Fowler/Noll/Vo reference, "" / "a" / "foobar") -/
example : fnv32 [] = 0x811c9dc5 ∧ fnv32 [0x61] = 0xe40c292c
    ∧ fnv32 [0x66,0x6f,0x6f,0x62,0x61,0x72] = 0xbf9cf968 := by decide
example : fnv64 [] = 0xcbf29ce484222325 ∧ fnv64 [0x61] = 0xaf63dc4c8601ec8c
    ∧ fnv64 [0x66,0x6f,0x6f,0x62,0x61,0x72] = 0x85944171f73967e8 := by decide
example : (fnv128 [0x61]).toNat = 0xd228cb696f1a8caf78912b704e4a8964 := by decide

/-! ## next power of two -/

/-- `x < 2^31`: the result is the smallest power of two strictly greater than `x`
(`2^k > x` and `2^k / 2 ≤ x`, i.e. no smaller power of two exceeds `x`). -/
theorem np2_32_spec (x : Nat) (hx : x < 2^31) :
    ∃ k, np2_32 x = 2^k ∧ x < 2^k ∧ (∀ j, x < 2^j → 2^k ≤ 2^j) := by
  by_cases h0 : x = 0
  · subst h0; exact ⟨0, by decide, by decide, fun j _ => Nat.one_le_two_pow⟩
  · have hs := smeared_eq (smear32_smeared x) (by omega : x < 2^32) h0
    have hl : x.log2 < 31 := (Nat.log2_lt h0).2 hx
    have hp : 2^(x.log2+1) ≤ 2^31 := Nat.pow_le_pow_right (by omega) (by omega)
    have hpos : 0 < 2^(x.log2+1) := Nat.two_pow_pos _
    refine ⟨x.log2 + 1, ?_, Nat.lt_log2_self, ?_⟩
    · unfold np2_32; rw [hs]
      have : 2^(x.log2+1) - 1 + 1 = 2^(x.log2+1) := by omega
      rw [this]; apply Nat.mod_eq_of_lt; omega
    · intro j hj
      apply Nat.pow_le_pow_right (by omega)
      have := (Nat.log2_lt h0).2 hj
      omega

theorem np2_64_spec (x : Nat) (hx : x < 2^63) :
    ∃ k, np2_64 x = 2^k ∧ x < 2^k ∧ (∀ j, x < 2^j → 2^k ≤ 2^j) := by
  by_cases h0 : x = 0
  · subst h0; exact ⟨0, by decide, by decide, fun j _ => Nat.one_le_two_pow⟩
  · have hs := smeared_eq (smear64_smeared x) (by omega : x < 2^64) h0
    have hl : x.log2 < 63 := (Nat.log2_lt h0).2 hx
    have hp : 2^(x.log2+1) ≤ 2^63 := Nat.pow_le_pow_right (by omega) (by omega)
    have hpos : 0 < 2^(x.log2+1) := Nat.two_pow_pos _
    refine ⟨x.log2 + 1, ?_, Nat.lt_log2_self, ?_⟩
    · unfold np2_64; rw [hs]
      have : 2^(x.log2+1) - 1 + 1 = 2^(x.log2+1) := by omega
      rw [this]; apply Nat.mod_eq_of_lt; omega
    · intro j hj
      apply Nat.pow_le_pow_right (by omega)
      have := (Nat.log2_lt h0).2 hj
      omega

/-- outside the precondition the 32-bit variant wraps to 0 (documented limit of the helper) -/
example : np2_32 (2^31) = 0 := by decide +kernel
example : np2_32 (2^31 - 1) = 2^31 := by decide +kernel
example : np2_32 5 = 8 := by decide +kernel
example : np2_32 8 = 16 := by decide +kernel

/-! ## round to aligned -/

/-- `b = 2^k`, no overflow (`x + b ≤ 2^64`): the least multiple of `b` that is `≥ x`. -/
theorem round_spec (x k : Nat) (hk : k < 64) (hx : x + 2^k ≤ 2^64) :
    roundToAligned x (2^k) % 2^k = 0 ∧ x ≤ roundToAligned x (2^k)
      ∧ roundToAligned x (2^k) < x + 2^k := by
  have hb : 2^k < 2^64 := Nat.pow_lt_pow_right (by omega) hk
  have hbpos : 0 < 2^k := Nat.two_pow_pos _
  unfold roundToAligned
  have e1 : (2^k + 2^64 - 1) % 2^64 = 2^k - 1 := by omega
  simp only [e1, Nat.and_two_pow_sub_one_eq_mod]
  by_cases h0 : x = 0
  · subst h0
    have : (0 + 2^64 - 1) % 2^64 % 2^k = 2^k - 1 := by
      have h64 : k + (64 - k) = 64 := by omega
      have h2 : (2:Nat)^64 = 2^k * 2^(64-k) := by rw [← Nat.pow_add, h64]
      have : (0 + 2^64 - 1) % 2^64 = 2^k * (2^(64-k) - 1) + (2^k - 1) := by
        have hp : 0 < 2^(64-k) := Nat.two_pow_pos _
        rw [Nat.mul_sub, Nat.mul_one, ← h2]; omega
      rw [this, Nat.mul_add_mod]; exact Nat.mod_eq_of_lt (by omega)
    rw [this]
    have e : ((0 + (2^k - 1)) % 2^64 + 2^64 - (2^k - 1)) % 2^64 = 0 := by
      have : (0 + (2^k-1)) % 2^64 = 2^k - 1 := by omega
      rw [this]; omega
    rw [e]; exact ⟨Nat.zero_mod _, Nat.le_refl _, by omega⟩
  · have e2 : (x + 2^64 - 1) % 2^64 = x - 1 := by omega
    rw [e2]
    have hm := Nat.mod_lt (x - 1) hbpos
    have hdm := Nat.div_add_mod (x - 1) (2^k)
    have e3 : ((x + (2^k - 1)) % 2^64 + 2^64 - (x - 1) % 2^k) % 2^64
        = 2^k * ((x-1) / 2^k) + 2^k := by omega
    rw [e3]
    refine ⟨?_, by omega, by omega⟩
    rw [Nat.mul_add_mod, Nat.mod_self]

/-! ## bounds checking -/

/-- afterwards `start ≤ end ≤ limit` (for the pointers that were given) -/
theorem check_bounds_ordered (s e : Option Nat) (limit : Nat) :
    let r := checkBounds s e limit
    (∀ e', r.stop = some e' → e' ≤ limit) ∧
    (∀ s', r.start = some s' → s' ≤ (r.stop.getD limit) ∧ s' ≤ limit) := by
  cases s <;> cases e <;> simp only [checkBounds, Option.getD] <;> (repeat' split) <;>
    simp_all <;> omega

/-- returns true exactly when nothing was changed ("clipped") -/
theorem check_bounds_true_iff (s e : Option Nat) (limit : Nat) :
    (checkBounds s e limit).ok = true ↔
      ((checkBounds s e limit).start = s ∧ (checkBounds s e limit).stop = e
        ∧ (∀ e', e = some e' → e' ≤ limit) ∧ (∀ s', s = some s' → s' < e.getD limit)) := by
  cases s <;> cases e <;> simp only [checkBounds, Option.getD] <;> (repeat' split) <;>
    simp_all <;> omega

/-- NULL pointers stay NULL; given pointers stay given -/
theorem check_bounds_shape (s e : Option Nat) (limit : Nat) :
    ((checkBounds s e limit).start.isSome = s.isSome) ∧
    ((checkBounds s e limit).stop.isSome = e.isSome) := by
  cases s <;> cases e <;> simp only [checkBounds, Option.getD] <;> (repeat' split) <;> simp_all

example : checkBounds (some 0) (some 0) 5 = ⟨false, some 0, some 0⟩ := by decide
example : checkBounds (some 7) (some 9) 5 = ⟨false, some 4, some 5⟩ := by decide
example : checkBounds (some 1) (some 3) 5 = ⟨true, some 1, some 3⟩ := by decide

/-! ## random numbers -/

theorem pcgNext_lt (r : Pcg) : (pcgNext r).2 < 2^32 := by
  unfold pcgNext
  simp only
  apply Nat.or_lt_two_pow
  · exact Nat.lt_of_le_of_lt (Nat.shiftRight_le _ _) (Nat.mod_lt _ (by decide))
  · exact Nat.mod_lt _ (by decide)

theorem boundedRand_lt (fuel : Nat) (r r' : Pcg) (bound x : Nat) (hb : bound ≠ 0)
    (h : boundedRand fuel r bound = some (r', x)) : x < bound := by
  induction fuel generalizing r with
  | zero => simp [boundedRand] at h
  | succ n ih =>
    simp only [boundedRand] at h
    split at h
    · injection h with h; injection h with _ h2
      rw [← h2]; exact Nat.mod_lt _ (by omega)
    · exact ih _ h

/-- ranged integers lie in the inclusive range, for all int32 `min ≤ max` incl. the extremes -/
theorem range_spec (fuel : Nat) (r r' : Pcg) (min max v : Int)
    (hmin : -(2^31 : Int) ≤ min) (hmax : max < (2^31 : Int)) (hle : min ≤ max)
    (h : randomRange fuel r min max = some (r', v)) : min ≤ v ∧ v ≤ max := by
  unfold randomRange at h
  simp only [ge_iff_le, hle, if_true] at h
  split at h
  · rename_i hb
    cases hbr : boundedRand fuel r ((toUInt32 max + 2^32 - toUInt32 min + 1) % 2^32) with
    | none => simp [hbr] at h
    | some p =>
      obtain ⟨r1, x⟩ := p
      have hx := boundedRand_lt _ _ _ _ _ hb hbr
      simp only [hbr, Option.map_some, Option.some.injEq, Prod.mk.injEq] at h
      obtain ⟨_, hv⟩ := h
      subst hv
      unfold toUInt32 toInt32 at *
      omega
  · rename_i hb
    have hx := pcgNext_lt r
    simp only [Option.map_some, Option.some.injEq, Prod.mk.injEq] at h
    obtain ⟨_, hv⟩ := h
    subst hv
    unfold toUInt32 toInt32 at *
    omega

/-- equal bounds give exactly the bound -/
theorem range_eq (fuel : Nat) (r r' : Pcg) (m v : Int)
    (hmin : -(2^31 : Int) ≤ m) (hmax : m < (2^31 : Int))
    (h : randomRange fuel r m m = some (r', v)) : v = m := by
  have := range_spec fuel r r' m m v hmin hmax (Int.le_refl _) h
  omega

/-- `gp_frandom` = n / 2^32 with `0 ≤ n < 2^32`, hence in `[0, 1)` -/
theorem frandom_unit (r : Pcg) : (frandomNum r).2 < 2^32 := pcgNext_lt r

/-- equal seeds give equal streams (the generator is a function of its state only) -/
theorem equal_seeds_equal_streams (s1 s2 n : Nat) (h : s1 = s2) :
    stream n (newRandomState s1) = stream n (newRandomState s2) := by rw [h]

example : (randomRange 100 (newRandomState 7) 5 5).map (·.2) = some 5 := by decide +kernel
example : ((randomRange 100 (newRandomState 7) (-2147483648) 2147483647).map (·.2)).isSome := by
  decide +kernel

end Gpc.Num
