import Gpc.Model.Arena
namespace Gpc.Arena

theorem roundUp_ge (x b : Nat) (hb : 0 < b) : x ≤ roundUp x b := by
  unfold roundUp
  have h1 := Nat.div_add_mod (x + b - 1) b
  have h2 := Nat.mod_lt (x + b - 1) hb
  have : (x + b - 1) / b * b = b * ((x + b - 1) / b) := Nat.mul_comm _ _
  omega

theorem roundUp_mod (x b : Nat) : roundUp x b % b = 0 := by
  unfold roundUp; exact Nat.mul_mod_left _ _

theorem roundUp_lt (x b : Nat) (hb : 0 < b) : roundUp x b < x + b := by
  unfold roundUp
  have h1 := Nat.div_add_mod (x + b - 1) b
  have h2 := Nat.mod_lt (x + b - 1) hb
  have : (x + b - 1) / b * b = b * ((x + b - 1) / b) := Nat.mul_comm _ _
  omega

theorem add_mod_zero (a b m : Nat) (ha : a % m = 0) (hb : b % m = 0) : (a + b) % m = 0 := by
  rw [Nat.add_mod, ha, hb]; simp

/-- blocks newest first below `bound`: each block ends at or below the bound, is aligned, and all
older blocks lie below its start -/
def BlocksOk (al : Nat) : List Blk → Nat → Prop
  | [], _ => True
  | b :: rest, bound => b.off + roundUp b.size al ≤ bound ∧ b.off % al = 0 ∧ BlocksOk al rest b.off

theorem BlocksOk.mono {al : Nat} {bs : List Blk} {p q : Nat} (h : BlocksOk al bs p) (hpq : p ≤ q) :
    BlocksOk al bs q := by
  cases bs with
  | nil => trivial
  | cons b rest => exact ⟨by have := h.1; omega, h.2.1, h.2.2⟩

/-- every block ends at or below the bound -/
theorem BlocksOk.below {al : Nat} {bs : List Blk} {p : Nat} (h : BlocksOk al bs p) :
    ∀ c ∈ bs, c.off + roundUp c.size al ≤ p := by
  induction bs generalizing p with
  | nil => intro c hc; cases hc
  | cons b rest ih =>
    intro c hc
    rcases List.mem_cons.1 hc with e | e
    · rw [e]; exact h.1
    · have := ih h.2.2 c e
      have hb := h.1
      have : b.off ≤ b.off + roundUp b.size al := Nat.le_add_right _ _
      omega

theorem BlocksOk.aligned {al : Nat} {bs : List Blk} {p : Nat} (h : BlocksOk al bs p) :
    ∀ c ∈ bs, c.off % al = 0 := by
  induction bs generalizing p with
  | nil => intro c hc; cases hc
  | cons b rest ih =>
    intro c hc
    rcases List.mem_cons.1 hc with e | e
    · rw [e]; exact h.2.1
    · exact ih h.2.2 c e

/-- forgetting blocks keeps the rest in order -/
theorem BlocksOk.filter {al : Nat} {bs : List Blk} {p : Nat} (f : Blk → Bool) (h : BlocksOk al bs p) :
    BlocksOk al (bs.filter f) p := by
  induction bs generalizing p with
  | nil => trivial
  | cons b rest ih =>
    simp only [List.filter_cons]
    split
    · exact ⟨h.1, h.2.1, ih h.2.2⟩
    · exact (ih h.2.2).mono (by have := h.1; omega)

theorem BlocksOk.filter_lt {al : Nat} {cs : List Blk} {q : Nat} (h : BlocksOk al cs q) :
    BlocksOk al (cs.filter (fun b => decide (b.off < q))) q :=
  h.filter _

/-- rewinding to offset `q`: the blocks strictly below `q` are in order below `q`,
provided `q` is the start of a live block -/
theorem BlocksOk.rewind {al : Nat} {bs : List Blk} {p : Nat} (h : BlocksOk al bs p) (t : Blk) (ht : t ∈ bs) :
    BlocksOk al (bs.filter (fun b => decide (b.off < t.off))) t.off := by
  induction bs generalizing p with
  | nil => cases ht
  | cons b rest ih =>
    simp only [List.filter_cons]
    rcases List.mem_cons.1 ht with e | e
    · subst e
      have : ¬ t.off < t.off := Nat.lt_irrefl _
      simp only [this, decide_false]
      exact h.2.2.filter_lt
    · have hle : t.off + roundUp t.size al ≤ b.off := h.2.2.below t e
      have : ¬ b.off < t.off := by omega
      simp only [this, decide_false]
      exact ih h.2.2 e

structure NodeOk (al : Nat) (n : Node) : Prop where
  pos_le : n.pos ≤ n.cap
  pos_al : n.pos % al = 0
  blocks : BlocksOk al n.blocks n.pos

structure Inv (a : Arena) : Prop where
  al_pos : 0 < a.align
  nonempty : a.nodes ≠ []
  nodes : ∀ n ∈ a.nodes, NodeOk a.align n

end Gpc.Arena
