"""C17 — type-generic macros mean exactly what the explicit function API means (both language configurations)."""
import os, sys, re, subprocess, concurrent.futures as cf
sys.path.insert(0, os.path.dirname(os.path.abspath(__file__)))
import vlib
import gen_c17 as G

hx = lambda b: vlib.hexs(bytes(b)) if b else "-"
REPO = "/repo"

CONFIGS = {
    "c11": ["-std=gnu11"],
    "c99": ["-std=c99", "-DGP_PEDANTIC"],
}
THOROUGH_CONFIGS = {
    "c11-pedantic": ["-std=gnu11", "-DGP_PEDANTIC"],     # the configuration the repository's own tests are built in
    "gnu99": ["-std=gnu99"],
}
STRICT = ["-Werror=implicit-function-declaration", "-Werror=int-conversion", "-Werror=incompatible-pointer-types"]

# ------------------------------------------------------------------------------------------------ case generator
WORDS = [b"", b"a", b"ab", b"abc", b"blah", b"x", b"  pad ", b"\t x\n", b"AbC", b"\xc3\xa4", b"\xc3\x84\xc3\xa4", b"i\xcc\x87", b"\xc3\x9f",
         b"\xe2\x82\xac", b"\xf0\x9f\x98\x80", b"hello world", b"one two  three", b"aXbXc", b"XX", b"....", b"0123456789abcdef", b"0123456789abcdefg"]
SETS = [b" ", b" \t\n", b"X", b"ab", b".", b"\xc3\xa4", b"x\xe2\x82\xac"]
LOCS = [b"", b"tr", b"lt", b"en"]


class Gen:
    def __init__(self, r): self.r = r

    def word(self, allow_empty=True, valid=True):
        r = self.r
        k = r.random()
        if k < 0.55: w = r.choice(WORDS)
        elif k < 0.85: w = b"".join(r.choice(WORDS) for _ in range(r.randrange(2, 5)))
        else: w = bytes(r.choice(b"abXY .\xc3\xa4") if False else r.randrange(1, 128) for _ in range(r.randrange(0, 40)))
        if not valid and r.random() < 0.5 and w:
            w = bytearray(w); w[r.randrange(len(w))] = r.choice([0x80, 0xff, 0xc3, 0xe2]); w = bytes(w)
        w = bytes(c for c in w if c != 0)
        if not allow_empty and not w: w = b"q"
        return w

    def S(self, w=None, kinds="LPQG"):
        """a string input of random kind"""
        w = self.word() if w is None else w
        return "%s:%s" % (self.r.choice(kinds), hx(w))

    def B(self, w=None):
        w = self.word() if w is None else w
        n = self.r.choice([len(w), len(w), self.r.randrange(len(w) + 1)])
        while n < len(w) and (w[n] & 0xC0) == 0x80: n += 1          # cut at a code point boundary: the text functions want valid UTF-8
        return "B:%s:%d" % (hx(w), n), w[:n]

    def NB(self, w):
        """a non-empty needle as buffer + length (an empty needle is outside the search functions' contract)"""
        return "B:%s:%d" % (hx(w + self.r.choice([b"", b"zz"])), len(w))

    def D(self, w=None):
        w = self.word() if w is None else w
        return "D:%d:%s" % (self.r.choice([0, 1, len(w), len(w) + 1, 16, 64]), hx(w)), w

    def ALC(self): return self.r.choice(["H", "R"])
    def C(self, b): return "%s:%s" % (self.r.choice("CCK"), hx(b))

    def T(self): return self.r.choice(["2", "4", "8", "24"])
    def vals(self, n=None):
        n = self.r.choice([0, 1, 2, 3, 5, 8, 17]) if n is None else n
        return [self.r.randrange(-100, 100) for _ in range(n)]
    def vs(self, v): return ",".join(str(x) for x in v) if v else "-"


def split_s(tok):
    """bytes of a string-input token"""
    return G.unhex(tok.split(":")[1])


def gen_case(g):
    r = g.r
    fam = r.choice(FAMILIES)
    return "gm " + fam(g)


def f_equal(g):
    r = g.r; w = g.word(); v = r.choice([w, w, g.word(), w[:-1], w + b"x"])
    k = r.randrange(3)
    if k == 0: return "equal G:%s %s" % (hx(w), g.S(v))
    if k == 1: return "equal G:%s %s" % (hx(w), g.B(v)[0])
    return "equal %s %s" % (g.B(w)[0], g.B(v)[0])

def f_count(g):
    r = g.r; n = r.choice([b"a", b"ab", b"X", b" ", b"\xc3\xa4"]); w = b"".join(r.choice([n, g.word()]) for _ in range(r.randrange(0, 5)))
    k = r.randrange(3)
    if k == 0: return "count %s %s" % (g.S(w), g.S(n))
    nb = "B:%s:%d" % (hx(n + r.choice([b"", b"zz"])), len(n))     # an empty needle is outside gp_bytes_count()'s contract
    if k == 1: return "count %s %s" % (g.S(w), nb)
    return "count %s %s" % (g.B(w)[0], nb)

def f_cplen(g):
    r = g.r; w = g.word(False)
    starts = [i for i in range(len(w)) if (w[i] & 0xC0) != 0x80]
    if r.random() < 0.5:
        i = r.choice(starts); return "codepoint_length %s" % g.S(w[i:], "PQG")
    return "codepoint_length %s N:%d" % (g.S(w, "PQG"), r.choice(starts))

def f_repeat(g):
    r = g.r; w = g.word(); n = r.choice([0, 1, 2, 3, 7])
    first = g.D()[0] if r.random() < 0.5 else g.ALC()
    return "repeat %s N:%d %s" % (first, n, g.S(w) if r.random() < 0.6 else g.B(w)[0])

def hay_ndl(g):
    r = g.r; n = r.choice([b"a", b"ab", b"X", b"blah", b"\xc3\xa4", b".."]); parts = [r.choice([n, g.word()]) for _ in range(r.randrange(1, 5))]
    return b"".join(parts), n

def f_replace(g):
    r = g.r; h, n = hay_ndl(g); repl = r.choice([b"", b"x", b"longer replacement", n, b"\xe2\x82\xac"])
    start = r.randrange(len(h) + 1)
    if r.random() < 0.5:
        return "replace %s %s %s%s%s" % (g.D(h)[0], g.S(n), g.S(repl), (" N:%d" % start) if r.random() < 0.5 else "", " RV" if r.random() < 0.2 else "")
    return "replace %s %s %s %s%s" % (g.ALC(), g.S(h), g.S(n), g.S(repl), (" N:%d" % start) if r.random() < 0.5 else "")

def f_replace_all(g):
    r = g.r; h, n = hay_ndl(g); repl = r.choice([b"", b"x", b"longer replacement", b"\xe2\x82\xac"])
    if r.random() < 0.5: return "replace_all %s %s %s%s" % (g.D(h)[0], g.S(n), g.S(repl), " RV" if r.random() < 0.3 else "")
    return "replace_all %s %s %s %s" % (g.ALC(), g.S(h), g.S(n), g.S(repl))

def f_trim(g):
    r = g.r; core = g.word(); cs = r.choice(SETS)
    pad = lambda: b"".join(bytes([c]) if c < 128 else b"" for c in r.choices(cs + b" \t", k=r.randrange(0, 4)))
    w = pad() + core + pad()
    if cs == b"\xc3\xa4": w = b"\xc3\xa4" * r.randrange(3) + core + b"\xc3\xa4" * r.randrange(3)
    fl = r.choice(["lr", "l", "r", "lra", "la", "ra"])
    n = r.randrange(3)
    if r.random() < 0.5:
        return "trim " + " ".join([g.D(w)[0]] + [g.C(cs), "F:" + fl][:n])
    return "trim " + " ".join([g.ALC(), g.S(w)] + [g.C(cs), "F:" + fl][:n])

def f_case(g):
    r = g.r; mac = r.choice(["to_upper", "to_lower", "capitalize"]); w = g.word()
    loc = [g.C(r.choice(LOCS))] if r.random() < 0.5 else []
    if r.random() < 0.5: return mac + " " + " ".join([g.D(w)[0]] + loc)
    return mac + " " + " ".join([g.ALC(), g.S(w)] + loc)

def f_valid(g):
    r = g.r; w = g.word(valid=False); repl = r.choice([b"", b"?", b"\xef\xbf\xbd"])
    if r.random() < 0.5: return "to_valid %s %s" % (g.D(w)[0], g.C(repl))
    return "to_valid %s %s %s" % (g.ALC(), g.S(w), g.C(repl))

def f_find(g):
    r = g.r; h, n = hay_ndl(g); k = r.randrange(4)
    start = r.choice([i for i in range(len(h) + 1) if i == len(h) or (h[i] & 0xC0) != 0x80])     # a code point boundary
    opt = (" N:%d" % start) if r.random() < 0.5 else ""
    if k == 0: return "find_first G:%s %s%s" % (hx(h), g.S(n), opt)
    if k == 1: return "find_last G:%s %s" % (hx(h), g.S(n) if r.random() < 0.5 else g.NB(n))
    return "%s G:%s %s%s" % (["find_first_of", "find_first_not_of"][k - 2], hx(h), g.C(r.choice(SETS)), opt)

def f_cmp(g):
    r = g.r; w = g.word(); v = r.choice([w, w.upper(), w.lower(), g.word(), w + b"a"])
    k = r.randrange(2)
    if k == 0: return "equal_case G:%s %s" % (hx(w), g.S(v) if r.random() < 0.5 else g.B(v)[0])
    n = r.randrange(3)
    return "compare " + " ".join(["G:" + hx(w), g.S(v)] + ["F:" + r.choice(["-", "f", "r", "fr"]), g.C(r.choice([b"", b"tr"]))][:n])

def f_count_valid(g):
    r = g.r
    if r.random() < 0.4:
        w = g.word()
        return "codepoint_count %s" % (g.S(w) if r.random() < 0.5 else g.B(w)[0])
    w = g.word(valid=False)
    k = r.randrange(4)
    if k == 0: return "is_valid %s" % g.S(w)
    if k == 1: return "is_valid %s I" % g.S(w)
    if k == 2: return "is_valid %s" % g.B(w)[0]
    return "is_valid %s I" % g.B(w)[0]

def f_split_join(g):
    r = g.r; k = r.randrange(3)
    if k == 0:
        w = g.word(); return "split " + " ".join([g.ALC(), g.S(w)] + ([g.C(r.choice(SETS))] if r.random() < 0.5 else []))
    strs = [g.word() for _ in range(r.choice([0, 1, 2, 3, 6]))]
    if strs and r.random() < 0.35:            # empty strings first / in the middle / last: the separators around them stay
        for _ in range(r.choice([1, 1, 2])):
            strs[r.choice([0, 0, len(strs) - 1, r.randrange(len(strs))])] = b""
    lst = ",".join(hx(s) for s in strs) if strs else "-"
    if k == 1:
        sep = [g.C(r.choice([b"", b", ", b"-", b"\xe2\x82\xac"]))] if r.random() < 0.5 else []
        return "join " + " ".join([g.D()[0] if r.random() < 0.5 else g.ALC(), "AS:" + lst] + sep)
    n = r.randrange(3)
    return "sort " + " ".join(["DAS:" + lst] + ["F:" + r.choice(["-", "f", "r", "fr"]), g.C(r.choice([b"", b"tr"]))][:n])

def f_reserve(g):
    r = g.r; cap = r.choice([0, 1, 5, 16, 17, 100, 1000])
    if r.random() < 0.5: return "reserve %s N:%d" % (g.D()[0], cap)
    T = g.T(); v = g.vals()
    return "reserve DA%s:%d:%s N:%d" % (T, r.choice([0, 4, 32]), g.vs(v), cap)

def arr_dest(g, T, v=None):
    v = g.vals() if v is None else v
    return "DA%s:%d:%s" % (T, g.r.choice([0, 1, len(v), len(v) + 3, 64]), g.vs(v))

def arr_in(g, T, v, allow_ptr=True):
    """GPArray(T) or pointer+length -> (token, effective values)"""
    if allow_ptr and g.r.random() < 0.4:
        n = g.r.choice([len(v), len(v), g.r.randrange(len(v) + 1)])
        return "V%s:%s:%d" % (T, g.vs(v), n), v[:n]
    return "A%s:%s" % (T, g.vs(v)), v

def f_copy(g):
    r = g.r
    if r.random() < 0.5:
        w = g.word(); first = g.D()[0] if r.random() < 0.5 else g.ALC()
        return "copy %s %s" % (first, g.S(w) if r.random() < 0.6 else g.B(w)[0])
    T = g.T(); v = g.vals(); first = arr_dest(g, T) if r.random() < 0.5 else g.ALC()
    return "copy %s %s" % (first, arr_in(g, T, v)[0])

def f_slice(g):
    r = g.r
    def rng(n):
        s = r.randrange(n + 1); return s, r.randrange(s, n + 1)
    if r.random() < 0.5:
        w = g.word(); k = r.randrange(3)
        if k == 0: s, e = rng(len(w)); return "slice %s N:%d N:%d" % (g.D(w)[0], s, e)
        s, e = rng(len(w))
        return "slice %s %s N:%d N:%d" % (g.D()[0] if k == 1 else g.ALC(), g.S(w), s, e)
    T = g.T(); v = g.vals(); k = r.randrange(3); s, e = rng(len(v))
    if k == 0: return "slice %s N:%d N:%d" % (arr_dest(g, T, v), s, e)
    src = ("A%s:%s" if r.random() < 0.5 else "U%s:%s") % (T, g.vs(v))
    return "slice %s %s N:%d N:%d" % (arr_dest(g, T) if k == 1 else g.ALC(), src, s, e)

def f_append_insert(g):
    r = g.r; mac = r.choice(["append", "insert"])
    if r.random() < 0.5:
        w1 = g.word(); w2 = g.word()
        if r.random() < 0.5:
            d, dw = g.D(w1)
            pos = "N:%d " % r.randrange(len(dw) + 1) if mac == "insert" else ""
            return "%s %s %s%s" % (mac, d, pos, g.S(w2) if r.random() < 0.6 else g.B(w2)[0])
        k = r.randrange(3)
        if k == 0: s1, e1 = g.S(w1), w1; s2 = g.S(w2)
        elif k == 1: s1, e1 = g.S(w1), w1; s2 = g.B(w2)[0]
        else: (s1, e1) = g.B(w1); s2 = g.B(w2)[0]
        pos = "N:%d " % r.randrange(len(e1) + 1) if mac == "insert" else ""
        return "%s %s %s%s %s" % (mac, g.ALC(), pos, s1, s2)
    T = g.T(); v1 = g.vals(); v2 = g.vals()
    if r.random() < 0.5:
        pos = "N:%d " % r.randrange(len(v1) + 1) if mac == "insert" else ""
        return "%s %s %s%s" % (mac, arr_dest(g, T, v1), pos, arr_in(g, T, v2)[0])
    k = r.randrange(3)
    if k == 0: s1, e1 = "A%s:%s" % (T, g.vs(v1)), v1; s2 = "A%s:%s" % (T, g.vs(v2))
    elif k == 1: s1, e1 = "A%s:%s" % (T, g.vs(v1)), v1; s2 = arr_in(g, T, v2)[0]
    else:
        n = r.randrange(len(v1) + 1); s1, e1 = "V%s:%s:%d" % (T, g.vs(v1), n), v1[:n]
        n2 = r.randrange(len(v2) + 1); s2 = "V%s:%s:%d" % (T, g.vs(v2), n2)
    pos = "N:%d " % r.randrange(len(e1) + 1) if mac == "insert" else ""
    return "%s %s %s%s %s" % (mac, g.ALC(), pos, s1, s2)

def f_arr_ops(g):
    r = g.r; T = g.T(); k = r.randrange(5)
    if k == 0: return "push %s E%s:%d" % (arr_dest(g, T), T, r.randrange(-100, 100))
    if k == 1: v = g.vals(r.choice([1, 2, 5])); return "pop %s" % arr_dest(g, T, v)
    if k == 2:
        v = g.vals(r.choice([1, 2, 5, 9])); p = r.randrange(len(v)); c = r.randrange(0, len(v) - p + 1)
        return "erase %s N:%d%s" % (arr_dest(g, T, v), p, (" N:%d" % c) if r.random() < 0.6 else "")
    if k == 3:
        v = g.vals(); return "%s A%s:%s N:%d M:sum" % (r.choice(["fold", "foldr"]), T, g.vs(v), r.randrange(0, 5))
    mac = r.choice(["map", "filter"]); fn = r.choice(["dbl", "neg"] if mac == "map" else ["even", "pos"])
    v = g.vals(); j = r.randrange(3)
    if j == 0: return "%s %s M:%s" % (mac, arr_dest(g, T, v), fn)
    return "%s %s %s M:%s" % (mac, arr_dest(g, T) if j == 1 else g.ALC(), arr_in(g, T, v)[0], fn)

def f_alloc(g):
    r = g.r; k = r.randrange(4); n = r.choice([1, 8, 24, 100, 1000])
    if k == 0: return "alloc %s N:%d" % (g.ALC(), n)
    if k == 1: return "alloc_zeroes %s N:%d" % (g.ALC(), n)
    if k == 2: return "alloc_type %s TY%s%s" % (g.ALC(), g.T(), (" N:%d" % r.choice([1, 3, 10])) if r.random() < 0.5 else "")
    return "realloc %s N:0 N:%d N:%d" % (g.ALC(), n, r.choice([1, 8, 50, 2000]))


def f_builders(g):
    r = g.r; k = r.randrange(3)
    if k == 0:
        j = r.randrange(3); init = g.C(g.word())
        return "str " + " ".join([g.ALC()] + ([] if j == 0 else [init] if j == 1 else ["N:%d" % r.choice([0, 1, 16, 17, 100]), init]))
    T = r.choice(["2", "4", "8"]); v = g.vals(r.choice([1, 2, 3, 4, 5, 9]))
    if k == 1: return "arr %s TY%s%s" % (g.ALC(), T, (" X%s:%s" % (T, g.vs(v))) if r.random() < 0.8 else "")
    return "arr_ro TY%s X%s:%s" % (T, T, g.vs(v))

def f_dict(g):
    r = g.r; T = g.T(); keys = [g.word(False) for _ in range(r.choice([1, 2, 3]))]
    keys += [keys[0] + b"x", keys[0][:-1] or b"k"]
    def key():
        w = r.choice(keys)
        if r.random() < 0.3:
            return "B:%s:%d" % (hx(w + r.choice([b"", b"tail"])), len(w))
        return g.S(w)
    ops = []
    for _ in range(r.randrange(1, 8)):
        op = r.choice(["put", "put", "get", "get", "rem"])
        ops.append("OP:%s %s%s" % (op, key(), (" E%s:%d" % (T, r.randrange(-100, 100))) if op == "put" else ""))
    return "dict %s TY%s %s" % (g.ALC(), T, " ".join(ops))

def f_file(g):
    r = g.r; w = g.word(); k = r.randrange(4)
    if k == 0: return "file G:%s" % hx(w)
    if k == 1: return "file %s W:%s" % (g.D()[0], hx(w))
    if k == 2: return "file %s W:%s" % (g.ALC(), hx(w))
    return "file O W:%s" % hx(w)

def f_dealloc(g): return "dealloc %s N:%d" % (g.ALC(), g.r.choice([1, 16, 100]))


FAMILIES = [f_builders, f_dict, f_dict, f_file, f_dealloc, f_equal, f_count, f_cplen, f_repeat, f_replace, f_replace_all, f_trim, f_case, f_case, f_valid, f_find, f_cmp, f_count_valid,
            f_split_join, f_reserve, f_copy, f_copy, f_slice, f_slice, f_append_insert, f_append_insert, f_append_insert, f_arr_ops, f_arr_ops, f_alloc]


# ------------------------------------------------------------------------------------------------ build and run
def lib_objs(ctx, cfg, flags):
    """the library compiled from the working tree in this configuration, with sanitizers"""
    d = os.path.join(ctx.scratch, "c17", cfg); os.makedirs(d, exist_ok=True)
    import glob
    srcs = sorted(glob.glob(os.path.join(REPO, "src", "*.c")))
    def one(src):
        o = os.path.join(d, os.path.basename(src)[:-2] + ".o")
        return vlib.sh(["gcc", "-c", src, "-o", o, "-I" + REPO + "/include", "-I" + REPO + "/src", "-D_GNU_SOURCE", "-g", "-O1", "-w",
                        "-fsanitize=address,undefined", "-fno-sanitize-recover=all"] + flags, timeout=600) + (o,)
    objs = []
    with cf.ThreadPoolExecutor(16) as ex:
        for rc, out, err, o in ex.map(one, srcs):
            if rc: return None, err
            objs.append(o)
    return objs, None


def cc(flags, src, out, objs=None, syntax_only=False):
    cmd = ["gcc", src, "-I" + REPO + "/include", "-I" + os.path.join(vlib.ROOT, "harness"), "-D_GNU_SOURCE"] + STRICT + flags
    if syntax_only: cmd += ["-fsyntax-only"]
    else: cmd += ["-g", "-O0", "-fsanitize=address,undefined", "-fno-sanitize-recover=all", "-o", out] + (objs or []) + ["-lm", "-lpthread"]
    return vlib.sh(cmd, timeout=900)


def first_error(err):
    for l in err.splitlines():
        if "error" in l: return re.sub(r"^.*?error: ", "", l)[:200]
    return err.strip().splitlines()[-1][:200] if err.strip() else "?"


def probe_signatures(cases, configs, scratch):
    """compile one case per overload form alone in each configuration -> {(sig, cfg): error or None}"""
    bysig = {}
    for c in cases: bysig.setdefault(c.sig, c)
    jobs = [(sig, c, cfg, fl) for sig, c in bysig.items() for cfg, fl in configs.items() if not (c.c11_only and "99" in cfg)]
    d = os.path.join(scratch, "c17", "probe"); os.makedirs(d, exist_ok=True)
    def one(j):
        n, (sig, c, cfg, fl) = j
        p = os.path.join(d, "p%d.c" % n)
        try: open(p, "w").write(G.program([c], [0]))
        except G.Skip as e: return sig, cfg, "no emitter: " + str(e)
        rc, out, err = cc(fl, p, None, syntax_only=True)
        os.remove(p)
        return sig, cfg, (None if rc == 0 else first_error(err))
    res = {}
    with cf.ThreadPoolExecutor(16) as ex:
        for sig, cfg, e in ex.map(one, enumerate(jobs)): res[(sig, cfg)] = e
    return res, bysig


def build_and_run(cases, numbers, cfg, flags, objs, scratch, nchunks=16):
    """-> {k: {'m': line, 'f': line}}, crashes {k: text}"""
    d = os.path.join(scratch, "c17", cfg); os.makedirs(d, exist_ok=True)
    chunks = [(cases[i::nchunks], numbers[i::nchunks]) for i in range(nchunks)]
    def one(j):
        i, (cs, ks) = j
        if not cs: return {}, {}
        src = os.path.join(d, "run%d.c" % i); exe = os.path.join(d, "run%d" % i)
        open(src, "w").write(G.program(cs, ks))
        rc, out, err = cc(flags, src, exe, objs)
        if rc: raise vlib.InfraError("generated program does not compile although every form did alone (%s): %s" % (cfg, first_error(err)))
        res, crashes = {}, {}
        start = -1
        env = dict(os.environ, ASAN_OPTIONS="detect_leaks=0:max_allocation_size_mb=512:hard_rss_limit_mb=3072", UBSAN_OPTIONS="print_stacktrace=1")
        for _ in range(len(ks) + 1):
            hung = False
            try:
                rc, out, err = vlib.sh([exe, str(start)], timeout=60, env=env)
            except subprocess.TimeoutExpired as e:
                dec = lambda b: b.decode(errors="replace") if isinstance(b, bytes) else (b or "")
                rc, out, err, hung = -1, dec(e.stdout), dec(e.stderr), True
            cur = None
            for l in out.splitlines():
                t = l.split(" ", 2)
                if len(t) >= 2 and t[1] == "begin": cur = int(t[0])
                elif len(t) == 3 and t[1] in ("m", "f"): res.setdefault(int(t[0]), {})[t[1]] = t[2]
            if out.rstrip().endswith("done"): break
            if cur is None: raise vlib.InfraError("generated program died before its first case: " + err[-500:])
            if hung: crashes[cur] = "does not terminate (60 s)"; start = cur + 1; continue
            m = re.search(r"(ERROR: AddressSanitizer: [^\n]*|runtime error: [^\n]*|Assertion[^\n]*)", err)
            crashes[cur] = (m.group(1) if m else "exit %s: %s" % (rc, err.strip()[-200:]))[:300]
            start = cur + 1
        os.remove(exe)
        return res, crashes
    res, crashes = {}, {}
    with cf.ThreadPoolExecutor(nchunks) as ex:
        for a, b in ex.map(one, enumerate(chunks)): res.update(a); crashes.update(b)
    return res, crashes


DIRECTED = [
    # joins whose first / last / every string is empty, both forms, with and without a separator
    "gm join H AS:-,62,63 C:2c", "gm join R AS:-,-,62 C:2c20", "gm join D:0:- AS:-,62,63 C:2c", "gm join H AS:61,-,- C:2d", "gm join D:4:7a AS:61,-,- C:2d",
    "gm join H AS:-,-,- C:2c", "gm join R AS:-,62", "gm join H AS:- C:2c", "gm join D:0:- AS:-,-,- C:e282ac",
    # literal sizes around the small-string sizes (sizeof of a literal vs strlen), every input kind in every position
    "gm append D:0:- L:30313233343536373839616263646566", "gm append D:16:61 L:303132333435363738396162636465",
    "gm copy H L:3031323334353637383961626364656667", "gm copy R P:30313233343536373839616263646566", "gm copy D:3:616263 B:78797a7a7a:2",
    "gm append H L:6162 L:6364", "gm append H G:6162 P:6364", "gm append R Q:6162 G:6364", "gm append H G:6162 B:63646566:2",
    "gm append R B:61626364:3 B:65666768:1", "gm insert H N:1 L:6162 L:5858", "gm insert R N:2 G:616263 G:5859", "gm insert H N:0 P:6162 B:585960:2",
    "gm insert R N:3 B:61626364:3 B:5858:2",
    # element count vs byte count: big elements, positions in the middle
    "gm insert H N:2 A24:1,2,3,4,5 A24:9,8", "gm insert R N:1 A8:1,2,3 V8:7,7,7:2", "gm insert H N:3 V4:1,2,3,4,5:4 V4:9:1", "gm insert H N:1 A2:1,2 A2:5",
    "gm append H A24:1,2 A24:3", "gm append R V24:1,2,3:2 V24:4,5:2", "gm copy H V24:1,2,3:2", "gm slice R U24:1,2,3,4 N:1 N:3", "gm slice H A2:1,2,3,4 N:0 N:4",
    "gm copy DA24:0:- A24:1,2,3,4,5,6,7,8,9", "gm append DA2:1:5 V2:1,2,3,4,5,6,7,8,9:9", "gm insert DA8:2:1,2 N:1 A8:7,8,9",
    # destination forms that must keep a reallocated array
    "gm map DA4:0:- A4:1,2,3 M:dbl", "gm map DA24:1:5 V24:1,2,3,4:4 M:neg", "gm filter DA8:0:- A8:1,2,3,4 M:even", "gm filter DA2:1:7 V2:2,4,6,8:4 M:even",
    # allocator kinds
    "gm to_upper H L:616263", "gm to_upper R L:616263", "gm to_lower H G:414243", "gm capitalize H L:616263", "gm capitalize R G:616263 C:7472",
    "gm to_upper H G:69 C:7472", "gm map R A4:1,2 M:dbl", "gm filter R V4:1,2,3:3 M:pos", "gm replace_all H L:616161 L:61 L:6262", "gm replace_all R G:616161 P:61 Q:6262",
    "gm replace D:4:61626162 L:6162 L:78 RV", "gm replace D:4:61626162 L:6162 L:78 N:1 RV", "gm replace_all D:4:61626162 L:6162 L:78 RV",
    "gm equal_case G:414243 L:616263", "gm equal_case G:c384 G:c3a4", "gm equal_case G:6162 B:41424344:2",
    "gm dict H TY4 OP:put P:6162 E4:5 OP:get Q:6162 OP:get L:6162 OP:rem G:6162 OP:get L:6162",
    "gm is_valid B:61c3:2", "gm is_valid B:61c3:2 I",
]


def canon_result(r):
    """sorting leaves the order among equal keys open: compare `l:` lists as multisets against the model"""
    return r


def run(ctx):
    quick = ctx.tier == "quick"
    configs = dict(CONFIGS)
    if not quick: configs.update(THOROUGH_CONFIGS)
    ctx.rules.append("a case = one macro call: every overload form of gp_equal/count/codepoint_length/repeat/replace/replace_all/trim/"
                     "to_upper/to_lower/capitalize/to_valid/find_*/equal_case/compare/codepoint_count/is_valid/split/join/sort/reserve/"
                     "copy/slice/append/insert/push/pop/erase/map/filter/fold/foldr/get/put/remove/alloc*/dealloc/realloc/file and the "
                     "constructors gp_str/gp_arr/gp_arr_ro/gp_dict, instantiated with string literal, char*/const char* variable (C11), "
                     "GPString, buffer+length, GPArray(T) / T*+length / T* for T of 2, 4, 8, 24 bytes, destination (GPString*, "
                     "GPArray(T)*) or allocator (const GPAllocator* heap, GPArena*); generated C compiled as %s with ASan+UBSan; per case "
                     "the macro form and the explicit function form run on separately built identical inputs; compared: result of macro "
                     "form = result of function form = Lean model, every argument evaluated once, inputs unchanged, allocator forms return "
                     "a fresh object owned by the allocator; non-trivial = all; distinct by overload signature x configuration" % ", ".join(
                         "%s (%s)" % (k, " ".join(v)) for k, v in configs.items()))
    ctx.assumptions += ["string inputs contain no NUL byte; literals are spelled as literals (C99 needs that)",
                        "gcc 12 is the only compiler present", "-Werror only for implicit-function-declaration, int-conversion, "
                        "incompatible-pointer-types (what a wrong dispatch looks like at compile time)",
                        "positions and ranges are inside the inputs (the function API's own preconditions)"]
    ctx.build_model()
    ctx.prove()
    if ctx.replay_cases is not None:
        lines = [l for c in ctx.replay_cases for l in c if l.startswith("gm ")]
    else:
        g = Gen(ctx.rng)
        lines = [l for c in vlib.load_corpus("C17") for l in c] + DIRECTED + [gen_case(g) for _ in range(6000 if quick else 30000)]
    cases = []
    for l in lines:
        try: cases.append(G.Case(l))
        except Exception as e: raise vlib.InfraError("bad case line %r: %s" % (l, e))
    probe, bysig = probe_signatures(cases, configs, ctx.scratch)
    for (sig, cfg), e in sorted(probe.items()):
        if e:
            ctx.add_witness("compile-" + cfg, [bysig[sig].line], [e], [], "the form %s does not compile in configuration %s (%s): %s" % (
                re.sub(r"[PQLG](?=,|$|/)", "S", sig), cfg, " ".join(configs[cfg]), e))
    model = ctx.run_model([[c.line] for c in cases])
    mres = []
    for c, o in zip(cases, model):
        if isinstance(o, tuple): raise vlib.InfraError("model driver failed on %r: %r" % (c.line, o))
        mres.append(o[0])
    ctx.corr_names.append("macro-vs-function-vs-model")
    stats = {}
    for cfg, fl in configs.items():
        objs, err = lib_objs(ctx, cfg, fl)
        if objs is None:
            ctx.add_witness("build-" + cfg, ["build"], [err[-800:]], [], "the library does not compile in configuration %s: %s" % (cfg, first_error(err)))
            continue
        sel = [(c, k) for k, c in enumerate(cases) if probe.get((c.sig, cfg), "x") is None]
        res, crashes = build_and_run([c for c, k in sel], [k for c, k in sel], cfg, fl, objs, ctx.scratch)
        nd = nm = 0
        for c, k in sel:
            ctx.evaluations += 1
            ctx.distinct.add((c.sig, cfg))
            gsig = re.sub(r"[PQLG](?=,|$|/)", "S", c.sig)
            if k in crashes:
                ctx.add_witness("run-" + cfg, [c.line], [crashes[k]], [mres[k]], "%s in configuration %s: %s" % (gsig, cfg, crashes[k])); continue
            o = res.get(k, {})
            m, f = o.get("m"), o.get("f")
            if m is None or f is None: raise vlib.InfraError("no output for case %d (%s)" % (k, c.line))
            mt = m.split()
            bad = []
            if mt[0] != f: bad.append("the macro form gives %s, the explicit function calls give %s" % (mt[0][:160], f[:160]))
            for x in mt[1:]:
                key, _, v = x.partition("=")
                if v != "ok":
                    bad.append({"in": "an input object was modified", "fresh": "the result is not a fresh object owned by the given allocator",
                                "ev": "arguments are not evaluated exactly once (counts %s)" % v}.get(key, x))
            if bad:
                nd += 1
                ctx.add_witness("run-" + cfg, [c.line], [m, f], [mres[k]], "%s in configuration %s: %s" % (gsig, cfg, "; ".join(bad))); continue
            same = (f == mres[k])
            if not same and f.startswith("l:") and mres[k].startswith("l:") and c.macro == "sort":
                same = sorted(f[2:].split(",")) == sorted(mres[k][2:].split(","))
            if not same:
                nm += 1
                if nm <= 5: ctx.broken.append({"kind": "correspondence", "name": "function-vs-model-" + cfg,
                                               "detail": {"case": [c.line], "impl": [f], "model": [mres[k]], "first_diff": 0}})
        stats[cfg] = {"cases": len(sel), "macro_function_differences": nd, "function_model_disagreements": nm, "aborted": len(crashes)}
    ctx.stats.setdefault("corr", {})["macro-vs-function-vs-model"] = stats
    sigs = sorted(set(re.sub(r"[PQLG](?=,|$|/)", "S", c.sig) for c in cases))
    ctx.extra_cov["overload_signatures"] = len(sigs)
    ctx.extra_cov["macros"] = sorted(set(c.macro for c in cases))
    ctx.samples += [{"corr": "macro-vs-function-vs-model", "case": [cases[i].line], "impl": [mres[i]]} for i in range(0, len(cases), max(1, len(cases) // 4))][:4]
