import Gpc.Model.Proto
import Gpc.Model.Num
import Gpc.Proofs.Num
import Gpc.Props.C20
import Gpc.Driver.Num
